(* Properties/C15.v — the no-copy write path produces the same stream as the copying path.
   Only statements; every proof is [exact <lemma>] from Proofs/NocopyP.v.

   Reading guide.  [thr] is the no-copy threshold: EVERY theorem is for every value of it
   (Corr/C15.v runs the model with the regenerated Go constant).  A struct's map is a list in
   the enumeration order of the `range` statement: the theorems hold for every list, i.e. for
   every order.  [b] is the caller's buffer, [Some []] a fresh reference direct writer
   (internal/testutils/netpoll), [splice] its Bytes().  [base_stream]/[baseresp_stream]
   (Spec/FastSpec.v) is the Thrift Binary encoding of the struct; [base_strings] the strings
   that go through WriteStringNocopy, in stream order; [large thr] those at or above the
   threshold; [ins lin 0 pieces] the linear part with each piece inserted at its offset. *)
From GV Require Import Lib.Bytes Lib.Res Gen.Consts Model.Binary Spec.Wire Model.Nocopy Spec.FastSpec
                       Proofs.NocopyLib Proofs.NocopyP.
Open Scope N_scope.

(* Base: with a direct writer attached, for every threshold, struct (nil pointer included), map
   order and buffer at least BLength long:
   - FastWriteNocopy succeeds, returns the length [len lin] of the linear part and leaves the rest
     of the buffer untouched;
   - the reference splicer returns exactly the copying path's stream (followed by the slack bytes);
   - FastWrite (the copying path) writes that stream and returns BLength;
   - what is handed to the direct writer is exactly the strings >= threshold, in stream order;
   - the linear part is BLength minus the total length of those strings long;
   - inserting each piece at offset |b| - remainCap of the linear part gives the stream. *)
Theorem C15_splice_eq_copy_base : forall thr p b,
  base_blength p <= len b ->
  exists lin pairs,
    base_write_nocopy thr p b (Some []) = Ok (lin ++ drop (len lin) b, len lin, Some pairs) /\
    splice (lin ++ drop (len lin) b) pairs =
      Ok (base_stream p ++ take (len b - len (base_stream p)) (drop (len lin) b)) /\
    base_write thr p b = Ok (base_stream p ++ drop (len (base_stream p)) b, len (base_stream p)) /\
    map fst pairs = large thr (base_strings p) /\
    len lin + pieces_len pairs = len (base_stream p) /\
    ins lin 0 (positions (len b) pairs) = base_stream p.
Proof. exact base_splice_eq_copy. Qed.

Theorem C15_splice_eq_copy_baseresp : forall thr p b,
  baseresp_blength p <= len b ->
  exists lin pairs,
    baseresp_write_nocopy thr p b (Some []) = Ok (lin ++ drop (len lin) b, len lin, Some pairs) /\
    splice (lin ++ drop (len lin) b) pairs =
      Ok (baseresp_stream p ++ take (len b - len (baseresp_stream p)) (drop (len lin) b)) /\
    baseresp_write thr p b = Ok (baseresp_stream p ++ drop (len (baseresp_stream p)) b, len (baseresp_stream p)) /\
    map fst pairs = large thr (baseresp_strings p) /\
    len lin + pieces_len pairs = len (baseresp_stream p) /\
    ins lin 0 (positions (len b) pairs) = baseresp_stream p.
Proof. exact baseresp_splice_eq_copy. Qed.

(* a single WriteStringNocopy / WriteBinaryNocopy, every length on both sides of every threshold *)
Theorem C15_splice_eq_copy_string : forall thr v b,
  4 + len v <= len b ->
  exists lin pairs,
    w_string_nocopy thr b (Some []) v = Ok (lin ++ drop (len lin) b, len lin, Some pairs) /\
    splice (lin ++ drop (len lin) b) pairs =
      Ok (enc (IString v) ++ take (len b - len (enc (IString v))) (drop (len lin) b)) /\
    w_binary b v = Ok (enc (IString v) ++ drop (len (enc (IString v))) b, len (enc (IString v))) /\
    map fst pairs = large thr [v] /\
    len lin + pieces_len pairs = len (enc (IString v)) /\
    ins lin 0 (positions (len b) pairs) = enc (IString v).
Proof. exact string_splice_eq_copy. Qed.

Theorem C15_binary_is_string : w_binary_nocopy = w_string_nocopy.
Proof. exact w_binary_nocopy_is_string. Qed.

(* the buffer netpoll hands out has exactly BLength bytes: the splice IS the copying path's output *)
Theorem C15_splice_eq_copy_exact : forall thr p b,
  len b = base_blength p ->
  exists lin pairs,
    base_write_nocopy thr p b (Some []) = Ok (lin ++ drop (len lin) b, len lin, Some pairs) /\
    splice (lin ++ drop (len lin) b) pairs = Ok (base_stream p) /\
    base_write thr p b = Ok (base_stream p, len (base_stream p)) /\
    map fst pairs = large thr (base_strings p) /\
    len lin + pieces_len pairs = base_blength p.
Proof.
  intros thr p b H. rewrite base_blength_eq in *.
  exact (writer_facts_exact thr b _ _ _ _ (base_splice_eq_copy thr p b ltac:(rewrite base_blength_eq; lia)) H).
Qed.

Theorem C15_splice_eq_copy_exact_baseresp : forall thr p b,
  len b = baseresp_blength p ->
  exists lin pairs,
    baseresp_write_nocopy thr p b (Some []) = Ok (lin ++ drop (len lin) b, len lin, Some pairs) /\
    splice (lin ++ drop (len lin) b) pairs = Ok (baseresp_stream p) /\
    baseresp_write thr p b = Ok (baseresp_stream p, len (baseresp_stream p)) /\
    map fst pairs = large thr (baseresp_strings p) /\
    len lin + pieces_len pairs = baseresp_blength p.
Proof.
  intros thr p b H. rewrite baseresp_blength_eq in *.
  exact (writer_facts_exact thr b _ _ _ _ (baseresp_splice_eq_copy thr p b ltac:(rewrite baseresp_blength_eq; lia)) H).
Qed.

(* without a direct writer the two paths are byte-identical (FastWrite IS FastWriteNocopy(b, nil));
   with a writer but no string at or above the threshold too, and nothing is handed over *)
Theorem C15_nil_writer_identical : forall thr p b,
  base_blength p <= len b ->
  base_write_nocopy thr p b None = Ok (base_stream p ++ drop (len (base_stream p)) b, len (base_stream p), None).
Proof. exact base_nil_writer. Qed.
Theorem C15_nil_writer_identical_baseresp : forall thr p b,
  baseresp_blength p <= len b ->
  baseresp_write_nocopy thr p b None =
  Ok (baseresp_stream p ++ drop (len (baseresp_stream p)) b, len (baseresp_stream p), None).
Proof. exact baseresp_nil_writer. Qed.
Theorem C15_nil_writer_identical_string : forall thr v b,
  w_string_nocopy thr b None v = do (b', n) <- w_binary b v; Ok (b', n, None).
Proof. exact string_nil_writer. Qed.
Theorem C15_below_threshold_identical : forall thr p b log,
  base_blength p <= len b -> large thr (base_strings p) = [] ->
  base_write_nocopy thr p b (Some log) =
  Ok (base_stream p ++ drop (len (base_stream p)) b, len (base_stream p), Some log).
Proof. exact base_small_identical. Qed.
Theorem C15_below_threshold_identical_baseresp : forall thr p b log,
  baseresp_blength p <= len b -> large thr (baseresp_strings p) = [] ->
  baseresp_write_nocopy thr p b (Some log) =
  Ok (baseresp_stream p ++ drop (len (baseresp_stream p)) b, len (baseresp_stream p), Some log).
Proof. exact baseresp_small_identical. Qed.
Theorem C15_below_threshold_identical_string : forall thr v b log,
  (Z.of_N (len v) < thr)%Z ->
  w_string_nocopy thr b (Some log) v = do (b', n) <- w_binary b v; Ok (b', n, Some log).
Proof. exact string_small_identical. Qed.

(* the advertised no-copy lengths equal the copying lengths (and the encoded size); BLength is the
   length of the stream, for every map order *)
Theorem C15_nocopy_len_eq : forall v,
  string_length_nocopy v = string_length v /\ binary_length_nocopy v = binary_length v /\
  string_length v = len (enc (IString v)) /\ binary_length v = len (enc (IBinary v)).
Proof. exact nocopy_len_eq. Qed.
Theorem C15_blength_is_stream_length : forall p q,
  base_blength p = len (base_stream p) /\ baseresp_blength q = len (baseresp_stream q).
Proof. intros p q. exact (conj (base_blength_eq p) (baseresp_blength_eq q)). Qed.

(* non-vacuity: threshold 3, a 2-byte and a 3-byte string, one map entry with a 4-byte value, buffer of BLength + 2 *)
Example C15_nonvacuous :
  let p := Some {| b_logid := [1; 2]; b_caller := [3; 4; 5]; b_addr := []; b_extra := Some [([6], [7; 8; 9; 10])] |} in
  let b := repeat 238 (N.to_nat (base_blength p) + 2) in
  base_blength p <= len b /\
  large 3 (base_strings p) = [[3; 4; 5]; [7; 8; 9; 10]] /\
  exists lin w, base_write_nocopy 3 p b (Some []) = Ok (lin, 42, w) /\ base_blength p = 49.
Proof. vm_compute. split; [discriminate|]. split; [reflexivity|]. eexists. eexists. split; reflexivity. Qed.

(* ---------- tools/gotrans phase 3: WriteStringNocopy / WriteBinaryNocopy and Base / BaseResp BLength, FastWriteNocopy, FastWrite regenerated from the Go source and proved equal to Model/Nocopy.v (Proofs/GenEquivNocopy.v); the map enumeration order is a parameter (ord), the NocopyWriter an abstract object ---------- *)
From GV Require Import Lib.GoSem Gen.Funcs Proofs.GenLib Proofs.GenLib3 Proofs.GenEquivNocopy Proofs.GenCorollariesNocopy.

Theorem C15_gen_splice_eq_copy_base :
  forall (lg cl ad : bytes) (m : gmap bytes bytes) (ord : list bytes) (b : bytes), let p := gbase lg cl ad m ord in gmap_order_ok m ord -> glen_ok b -> base_blength p <= len b -> exists (lin : list N) (pairs : list dpair), g_base_Base_FastWriteNocopy (list dpair) xwd false lg cl ad m b false [] ord = Ok (lg, cl, ad, m, lin ++ drop (len lin) b, pairs, Z.of_N (len lin)) /\ splice (lin ++ drop (len lin) b) pairs = Ok (base_stream p ++ take (len b - len (base_stream p)) (drop (len lin) b)) /\ g_base_Base_FastWrite false lg cl ad m b ord = Ok (lg, cl, ad, m, base_stream p ++ drop (len (base_stream p)) b, Z.of_N (len (base_stream p))) /\ map fst pairs = large thr (base_strings p) /\ len lin + pieces_len pairs = len (base_stream p) /\ ins lin 0 (positions (len b) pairs) = base_stream p.
Proof. exact (@g_C15_splice_eq_copy_base). Qed.

Theorem C15_gen_splice_eq_copy_baseresp :
  forall (ms : bytes) (cd : Z) (m : gmap bytes bytes) (ord : list bytes) (b : bytes), let p := gresp ms cd m ord in gmap_order_ok m ord -> glen_ok b -> baseresp_blength p <= len b -> exists (lin : list N) (pairs : list dpair), g_base_BaseResp_FastWriteNocopy (list dpair) xwd false ms cd m b false [] ord = Ok (ms, cd, m, lin ++ drop (len lin) b, pairs, Z.of_N (len lin)) /\ splice (lin ++ drop (len lin) b) pairs = Ok (baseresp_stream p ++ take (len b - len (baseresp_stream p)) (drop (len lin) b)) /\ g_base_BaseResp_FastWrite false ms cd m b ord = Ok (ms, cd, m, baseresp_stream p ++ drop (len (baseresp_stream p)) b, Z.of_N (len (baseresp_stream p))) /\ map fst pairs = large thr (baseresp_strings p) /\ len lin + pieces_len pairs = len (baseresp_stream p) /\ ins lin 0 (positions (len b) pairs) = baseresp_stream p.
Proof. exact (@g_C15_splice_eq_copy_baseresp). Qed.

Theorem C15_gen_splice_eq_copy_string :
  forall (v : list N) (b : bytes), glen_ok b -> 4 + len v <= len b -> exists (lin : list N) (pairs : list dpair), g_thrift_WriteStringNocopy (list dpair) xwd b false [] v = Ok (lin ++ drop (len lin) b, pairs, Z.of_N (len lin)) /\ g_thrift_WriteBinaryNocopy (list dpair) xwd b false [] v = Ok (lin ++ drop (len lin) b, pairs, Z.of_N (len lin)) /\ splice (lin ++ drop (len lin) b) pairs = Ok (enc (IString v) ++ take (len b - len (enc (IString v))) (drop (len lin) b)) /\ g_thrift_WriteString b v = Ok (enc (IString v) ++ drop (len (enc (IString v))) b, Z.of_N (len (enc (IString v)))) /\ map fst pairs = large thr [v] /\ len lin + pieces_len pairs = len (enc (IString v)) /\ ins lin 0 (positions (len b) pairs) = enc (IString v).
Proof. exact (@g_C15_splice_eq_copy_string). Qed.

Theorem C15_gen_nil_writer_identical :
  forall (St : Type) (meth : St -> bytes -> Z -> res (St * gerror)) (st : St) (lg cl ad : bytes) (m : gmap bytes bytes) (ord : list bytes) (b : bytes), let p := gbase lg cl ad m ord in gmap_order_ok m ord -> glen_ok b -> base_blength p <= len b -> exists st' : St, g_base_Base_FastWriteNocopy St meth false lg cl ad m b true st ord = Ok (lg, cl, ad, m, base_stream p ++ drop (len (base_stream p)) b, st', Z.of_N (len (base_stream p))).
Proof. exact (@g_C15_nil_writer_identical). Qed.

Theorem C15_gen_nil_writer_identical_baseresp :
  forall (St : Type) (meth : St -> bytes -> Z -> res (St * gerror)) (st : St) (ms : bytes) (cd : Z) (m : gmap bytes bytes) (ord : list bytes) (b : bytes), let p := gresp ms cd m ord in gmap_order_ok m ord -> glen_ok b -> baseresp_blength p <= len b -> exists st' : St, g_base_BaseResp_FastWriteNocopy St meth false ms cd m b true st ord = Ok (ms, cd, m, baseresp_stream p ++ drop (len (baseresp_stream p)) b, st', Z.of_N (len (baseresp_stream p))).
Proof. exact (@g_C15_nil_writer_identical_baseresp). Qed.

Theorem C15_gen_below_threshold_identical :
  forall (lg cl ad : bytes) (m : gmap bytes bytes) (ord : list bytes) (b : bytes) (log : list dpair), let p := gbase lg cl ad m ord in gmap_order_ok m ord -> glen_ok b -> base_blength p <= len b -> large thr (base_strings p) = [] -> g_base_Base_FastWriteNocopy (list dpair) xwd false lg cl ad m b false log ord = Ok (lg, cl, ad, m, base_stream p ++ drop (len (base_stream p)) b, log, Z.of_N (len (base_stream p))).
Proof. exact (@g_C15_below_threshold_identical). Qed.

Theorem C15_gen_below_threshold_identical_baseresp :
  forall (ms : bytes) (cd : Z) (m : gmap bytes bytes) (ord : list bytes) (b : bytes) (log : list dpair), let p := gresp ms cd m ord in gmap_order_ok m ord -> glen_ok b -> baseresp_blength p <= len b -> large thr (baseresp_strings p) = [] -> g_base_BaseResp_FastWriteNocopy (list dpair) xwd false ms cd m b false log ord = Ok (ms, cd, m, baseresp_stream p ++ drop (len (baseresp_stream p)) b, log, Z.of_N (len (baseresp_stream p))).
Proof. exact (@g_C15_below_threshold_identical_baseresp). Qed.
