(* Properties/C15.v — the no-copy write path produces the same stream as the copying path.
   Only statements; every proof is [exact <lemma>] from Proofs/NocopyP.v. *)
From GV Require Import Lib.Bytes Lib.Res Gen.Consts Model.Binary Spec.Wire Model.Nocopy Spec.FastSpec Proofs.NocopyP.
Open Scope N_scope.

(* the advertised no-copy lengths equal the copying lengths (and the encoded size) *)
Theorem C15_nocopy_len_eq : forall v,
  string_length_nocopy v = string_length v /\ binary_length_nocopy v = binary_length v /\
  string_length v = len (enc (IString v)) /\ binary_length v = len (enc (IBinary v)).
Proof. exact nocopy_len_eq. Qed.
