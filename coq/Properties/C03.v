(* Properties/C03.v — decoders never panic or over-report on arbitrary bytes.
   Only statements; proofs are in Proofs/EntriesP.v (which assembles the totality / extent lemmas of the
   models that C01, C08, C10, C11, C12 and C13 tie to the Go code).

   [run_entry entry t b] (Model/Entries.v) runs the model of one buffer-based decoding entry point on
   the byte string [b] with requested type byte [t] and returns (class, n):
       class 0 success with reported consumed length n (-1: the entry point reports none),
       class 1 a Go error,  class 2 a panic or a load outside the slice.
   entries: 1..13 Binary.ReadBool/Byte/I16/I32/I64/Double/Binary/String/FieldBegin/MapBegin/ListBegin/
            SetBegin/MessageBegin, 20 Binary.Skip, 21 BytesSkipDecoder.Next, 30/31/32 Base / BaseResp /
            ApplicationException.FastRead, 40/41 UnmarshalFastMsg (payload Base / ApplicationException),
            50 ConvertUnknownFields, 60 ttheader.DecodeFromBytes.
   Quantification: every list of bytes ([wf b]: each element < 256), every type byte 0..255 (so the
   values >= 0x80 that the code sees as negative int8 are included), every entry.
   Modelled as total (DESIGN 7): allocation of a declared size (make(map, n), make([]UnknownField, n),
   dirtmake) — the harness caps declared sizes at 65536 where the code allocates them. *)
From GV Require Import Lib.Bytes Lib.Res Model.Entries Proofs.EntriesP.
Open Scope Z_scope.

(* never the panic class; on success the reported length is at most the input length *)
Theorem C03_no_panic_no_overreport : forall entry t b,
  wf b -> Z.of_N t < 256 ->
  fst (run_entry entry t b) <> 2 /\
  (fst (run_entry entry t b) = 0 -> snd (run_entry entry t b) <= Z.of_N (len b)).
Proof. exact run_entry_fine. Qed.

(* the outcome is always one of the three classes, and only listed entries exist *)
Theorem C03_classes : forall entry t b,
  let c := fst (run_entry entry t b) in c = 0 \/ c = 1 \/ c = 2.
Proof. exact run_entry_classes. Qed.

(* non-vacuity: the hypotheses are satisfiable and all three projections occur on the model
   (success with a length, an error, and — only for a hypothetical non-byte list, which [wf]
   excludes — nothing else) *)
Example C03_nonvacuous :
  wf [11; 0; 0; 0; 1; 65]%N /\
  run_entry 20 11 [0; 0; 0; 1; 65; 7]%N = (0, 5) /\          (* Skip(STRING) consumes 5 of 6 bytes *)
  run_entry 20 128 [1; 2; 3; 4]%N = (1, 0) /\                 (* type byte 0x80: an error, not a panic (D1) *)
  run_entry 20 13 [11; 10; 0; 0; 0; 1; 0; 0; 0; 1; 97; 238]%N = (1, 0) /\   (* D2 witness: rejected *)
  run_entry 32 0 [12; 0; 9; 0]%N = (1, 0) /\                  (* D3 shape: error, no slice panic *)
  run_entry 4 0 [1; 2; 3]%N = (1, 0) /\
  run_entry 60 0 []%N = (1, 0).
Proof. repeat split; try (vm_compute; reflexivity). repeat constructor. Qed.
