(* Properties/C07.v — read-only string maps answer exactly like a Go map
   (container/strmap/strmap.go, utils.go; internal/strstore/strstore.go).
   Only statements; proofs are in Proofs/StrMapP.v and Proofs/StrStoreP.v.

   Quantification: every value type V; EVERY hash function [hash : bytes -> N] (every maphash
   seed, every collision pattern); EVERY [sort] that returns some permutation of its input ordered
   by slot ([sort_ok]: covers the unstable sort.Sort); every previous state [st] of the instance
   (so each statement holds after every reload, growing or shrinking); every probe string.
   Bounds are the code's own ([loadable]): a key/value longer than math.MaxUint32 bytes is
   refused ("key too large" / "string too long"); the key count must fit the int32 indices and
   floor(count / loadfactor) must have at most 31 bits, else calcHashtableSlots panics "too many
   items" ([count_ok]; with the present load factor 3/4: count < 3*2^29; C07_count_ok_1e5 covers
   the property's 0..10^5).  The proofs are parametric in the load factor and in the primes
   (only: at least 32 entries, each in [1, 2^31)).  64-bit int. *)
From GV Require Import Lib.Bytes Lib.Res Gen.Consts Model.StrMap Model.StrStore Spec.StrMap
  Proofs.StrMapP Proofs.StrStoreP.
From Coq Require Import Permutation Sorted.
Open Scope N_scope.

(* ---------------- StrMap[V] ---------------- *)

(* every loaded key returns its value, every other string is absent; the load reports no error *)
Theorem C07_get_spec : forall V (hash : bytes -> N) sort, sort_ok sort ->
  forall (st : strmap V) kk vv s,
  length kk = length vv -> NoDup kk -> loadable kk ->
  snd (load hash sort st kk vv) = Ok tt /\
  get hash (fst (load hash sort st kk vv)) s = Ok (assoc kk vv s).
Proof. exact get_spec. Qed.

Theorem C07_len_spec : forall V (hash : bytes -> N) sort, sort_ok sort ->
  forall (st : strmap V) kk vv,
  length kk = length vv -> loadable kk ->
  map_len (fst (load hash sort st kk vv)) = len kk.
Proof. exact len_spec. Qed.

(* Item(0), ..., Item(Len()-1) enumerate a permutation of the loaded pairs, without panicking *)
Theorem C07_items_spec : forall V (hash : bytes -> N) sort, sort_ok sort ->
  forall (st : strmap V) kk vv,
  length kk = length vv -> loadable kk ->
  exists l, enumerate (fst (load hash sort st kk vv)) = Ok l /\ Permutation l (combine kk vv).
Proof. exact items_spec. Qed.

Theorem C07_item_spec : forall V (hash : bytes -> N) sort, sort_ok sort ->
  forall (st : strmap V) kk vv,
  length kk = length vv -> loadable kk ->
  exists l, Permutation l (combine kk vv) /\
    forall i, (i < length kk)%nat ->
      exists kv, nth_error l i = Some kv /\
                 item_at (fst (load hash sort st kk vv)) (Z.of_nat i) = Ok kv.
Proof. exact item_spec. Qed.

(* a failed load (lengths differ) returns an error and changes nothing; needs nothing of sort *)
Theorem C07_load_fail_noop : forall V (hash : bytes -> N) sort (st : strmap V) kk vv,
  length kk <> length vv -> load hash sort st kk vv = (st, Err 1%Z).
Proof. exact load_fail_noop. Qed.

(* ... and so does a load refused because a key is longer than math.MaxUint32 ("key too large"): since
   the repair of /repo the test is made before anything is reset (it used to return mid-way, after the
   old content had been dropped).  Together: every LoadFromSlice that returns an error leaves the map as
   it was *)
Theorem C07_load_fail_noop_large : forall V (hash : bytes -> N) sort (st : strmap V) kk vv,
  length kk = length vv -> ~ Forall small kk -> load hash sort st kk vv = (st, Err 2%Z).
Proof. exact load_fail_noop_large. Qed.

(* loaded from zero keys: every key absent *)
Theorem C07_get_empty : forall V (hash : bytes -> N) sort, sort_ok sort ->
  forall (st : strmap V) s,
  snd (load hash sort st [] []) = Ok tt /\ get hash (fst (load hash sort st [] [])) s = Ok None.
Proof. exact get_empty. Qed.

(* never loaded: every key absent -- not a division by zero (defect D8, repaired) *)
Theorem C07_get_unloaded : forall V (hash : bytes -> N) s, get hash (@new_map V) s = Ok None.
Proof. exact get_unloaded. Qed.

(* LoadFromMap: in whatever order the range loop visits the pairs of the Go map *)
Theorem C07_load_from_map : forall V (hash : bytes -> N) sort, sort_ok sort ->
  forall (st : strmap V) kk vv visit s,
  length kk = length vv -> NoDup kk -> loadable kk ->
  Permutation visit (combine kk vv) ->
  snd (load_map hash sort st visit) = Ok tt /\
  get hash (fst (load_map hash sort st visit)) s = Ok (assoc kk vv s) /\
  map_len (fst (load_map hash sort st visit)) = len kk.
Proof. exact load_map_spec. Qed.

(* histories: after any sequence of loads on a fresh instance -- growing, shrinking, refused
   (refused ones may carry anything) -- Get answers like the pairs of the last accepted load,
   and reports absent if there was none *)
Theorem C07_history_spec : forall V (hash : bytes -> N) sort, sort_ok sort ->
  forall (h : list (list bytes * list V)) s,
  Forall (fun q => length (fst q) = length (snd q) -> NoDup (fst q) /\ loadable (fst q)) h ->
  get hash (run_loads hash sort new_map h) s = Ok (answer (last_accepted None h) s).
Proof. exact history_spec. Qed.

(* calcHashtableSlots: every slot count it can return is >= 1 (and fits int32), which is all
   correctness needs of the prime table; it returns one for every loadable key count *)
Theorem C07_slots_pos : forall n s, slots n = Ok s -> (1 <= s < 2147483648)%Z.
Proof. exact slots_range. Qed.

Theorem C07_slots_defined : forall n, count_ok n -> exists s, slots n = Ok s.
Proof. exact slots_ok. Qed.

(* the key counts the property speaks about (0 .. 10^5) are acceptable, and so is every count
   below an acceptable one *)
Theorem C07_count_ok_1e5 : forall n, n <= 100000 -> count_ok n.
Proof. exact count_ok_1e5. Qed.

(* ---------------- StrStore and Str2Str ---------------- *)

(* Load then Get(idx_i) returns the i-th string, values of any content, whatever was stored before *)
Theorem C07_strstore_spec : forall st ss, Forall small ss ->
  exists st' ids, store_load st ss = (st', Ok ids) /\ length ids = length ss /\
    Forall2 (fun id s => store_get st' id = Ok s) ids ss.
Proof. exact store_load_spec. Qed.

Theorem C07_str2str_spec : forall (hash : bytes -> N) sort, sort_ok sort ->
  forall st kk vv s,
  length kk = length vv -> NoDup kk -> loadable kk -> Forall small vv ->
  snd (s2s_load hash sort st kk vv) = Ok tt /\
  s2s_get hash (fst (s2s_load hash sort st kk vv)) s = Ok (assoc kk vv s) /\
  s2s_len (fst (s2s_load hash sort st kk vv)) = Ok (len kk).
Proof. exact s2s_spec. Qed.

Theorem C07_str2str_load_from_map : forall (hash : bytes -> N) sort, sort_ok sort ->
  forall st kk vv visit s,
  length kk = length vv -> NoDup kk -> loadable kk -> Forall small vv ->
  Permutation visit (combine kk vv) ->
  snd (s2s_load_map hash sort st visit) = Ok tt /\
  s2s_get hash (fst (s2s_load_map hash sort st visit)) s = Ok (assoc kk vv s) /\
  s2s_len (fst (s2s_load_map hash sort st visit)) = Ok (len kk).
Proof. exact s2s_load_map_spec. Qed.

Theorem C07_str2str_load_fail_noop : forall (hash : bytes -> N) sort st kk vv,
  length kk <> length vv -> s2s_load hash sort st kk vv = (st, Err 1%Z).
Proof. exact s2s_load_fail_noop. Qed.

Theorem C07_str2str_load_fail_noop_large : forall (hash : bytes -> N) sort st (kk vv : list bytes),
  length kk = length vv -> existsb (fun k : bytes => max_uint32 <? len k) kk = true ->
  s2s_load hash sort st kk vv = (st, Err 2%Z).
Proof. exact s2s_load_fail_noop_large. Qed.

Theorem C07_str2str_unloaded : forall (hash : bytes -> N) s,
  s2s_get hash new_s2s s = Ok None /\ s2s_len new_s2s = Ok 0.
Proof. exact s2s_unloaded. Qed.

(* the zero value Str2Str{} (which LoadFromSlice supports by creating the inner map and store on
   demand) reports every key absent and Len 0 while nothing has been loaded -- also after refused
   loads.  (Was a finding: Get/Len dereferenced the nil inner map; repaired in /repo 0e27a5b.)
   From its first accepted load on it is covered by C07_str2str_spec, which holds for every
   previous state [st], the zero value included. *)
Theorem C07_str2str_zero_value : forall (hash : bytes -> N) s,
  s2s_get hash zero_s2s s = Ok None /\ s2s_len zero_s2s = Ok 0.
Proof. exact s2s_zero_unloaded. Qed.

Theorem C07_str2str_zero_value_refused_load : forall (hash : bytes -> N) sort kk vv s,
  length kk <> length vv ->
  s2s_get hash (fst (s2s_load hash sort zero_s2s kk vv)) s = Ok None /\
  s2s_len (fst (s2s_load hash sort zero_s2s kk vv)) = Ok 0.
Proof. exact s2s_zero_refused. Qed.

(* ---------------- non-vacuity ---------------- *)

(* the hypothesis on sort is satisfiable: the insertion sort that executes the model *)
Theorem C07_sort_hypothesis_satisfiable : forall V, sort_ok (@isort V).
Proof. exact isort_ok. Qed.

(* distinct keys incl. the empty key and prefixes of one another, a constant hash (one chain) *)
Example C07_nonvacuous_get :
  let kk := [[]; [97]; [97; 98]; [97; 98; 0]] in
  let vv := [10; 20; 30; 40]%Z in
  let h := fun _ : bytes => 12345678901 in
  length kk = length vv /\ NoDup kk /\ loadable kk /\
  get h (fst (load h isort new_map kk vv)) [97; 98] = Ok (Some 30%Z) /\
  get h (fst (load h isort new_map kk vv)) [97; 98; 1] = Ok None /\
  map_len (fst (load h isort new_map kk vv)) = 4.
Proof.
  cbv zeta. split; [reflexivity|]. split.
  - repeat constructor; cbn [In]; intros H; repeat (destruct H as [H|H]; try discriminate); exact H.
  - split; [|repeat split; vm_compute; reflexivity].
    split; [repeat constructor; unfold small; vm_compute; discriminate|split; vm_compute; reflexivity].
Qed.

Example C07_nonvacuous_history :
  let h := fun s : bytes => len s in
  let hist := [([[1]; [2]], [7; 8]%Z); ([[3]], []); ([[2]], [9]%Z); ([], [5]%Z)] in
  Forall (fun q : list bytes * list Z =>
            length (fst q) = length (snd q) -> NoDup (fst q) /\ loadable (fst q)) hist /\
  last_accepted None hist = Some ([[2]], [9]%Z) /\
  get h (run_loads h isort new_map hist) [2] = Ok (Some 9%Z) /\
  get h (run_loads h isort new_map hist) [1] = Ok None.
Proof.
  cbv zeta. split; [|repeat split; vm_compute; reflexivity].
  apply Forall_cons; [|apply Forall_cons; [|apply Forall_cons; [|apply Forall_cons; [|apply Forall_nil]]]];
    cbn [fst snd length]; intros Hq; try discriminate Hq.
  - split.
    + repeat constructor; cbn [In]; intros H; repeat (destruct H as [H|H]; try discriminate); exact H.
    + split; [repeat constructor; unfold small; vm_compute; discriminate|split; vm_compute; reflexivity].
  - split.
    + repeat constructor; cbn [In]; tauto.
    + split; [repeat constructor; unfold small; vm_compute; discriminate|split; vm_compute; reflexivity].
Qed.

Example C07_nonvacuous_str2str :
  let h := fun s : bytes => len s in
  let kk := [[107]; []] in
  let vv := [[]; [0; 255; 1]] in
  length kk = length vv /\ NoDup kk /\ loadable kk /\ Forall small vv /\
  s2s_get h (fst (s2s_load h isort new_s2s kk vv)) [] = Ok (Some [0; 255; 1]) /\
  s2s_get h (fst (s2s_load h isort new_s2s kk vv)) [107] = Ok (Some []) /\
  s2s_get h (fst (s2s_load h isort new_s2s kk vv)) [108] = Ok None.
Proof.
  cbv zeta. split; [reflexivity|]. split.
  - repeat constructor; cbn [In]; intros H; repeat (destruct H as [H|H]; try discriminate); exact H.
  - split; [split; [repeat constructor; unfold small; vm_compute; discriminate|split; vm_compute; reflexivity]|].
    split; [repeat constructor; unfold small; vm_compute; discriminate|].
    repeat split; vm_compute; reflexivity.
Qed.

(* ---------- tools/gotrans phase 3: StrMap.Get / Len / Item regenerated from container/strmap/strmap.go and proved equal to Model/StrMap.v (Proofs/GenEquivStrMap.v); the lookup theorems therefore hold of the regenerated definitions ---------- *)
From GV Require Import Lib.GoSem Gen.Funcs Proofs.GenLib Proofs.GenLib3 Proofs.GenEquivStrMap Proofs.GenCorollariesStrMap.

Theorem C07_gen_get_spec :
  forall (V : Type) (zV : V) (hash : bytes -> N) (sort : list (item V) -> list (item V)), sort_ok sort -> forall (st : strmap V) (kk : list bytes) (vv : list V) (s : bytes) (fuel : nat), Datatypes.length kk = Datatypes.length vv -> NoDup kk -> loadable kk -> let st' := fst (load hash sort st kk vv) in glen_ok (data st') -> (S (Datatypes.length kk) < fuel)%nat -> g_strmap_Get V zV (xhash hash) fuel false (data st') (gitems V st') (table st') s = Ok (data st', gitems V st', table st', match assoc kk vv s with | Some v => v | None => zV end, match assoc kk vv s with | Some _ => true | None => false end).
Proof. exact (@g_C07_get_spec). Qed.

Theorem C07_gen_len_spec :
  forall (V : Type) (zV : V) (hash : bytes -> N) (sort : list (item V) -> list (item V)), sort_ok sort -> forall (st : strmap V) (kk : list bytes) (vv : list V), Datatypes.length kk = Datatypes.length vv -> loadable kk -> let st' := fst (load hash sort st kk vv) in g_strmap_Len V zV false (data st') (gitems V st') (table st') = Ok (data st', gitems V st', table st', Z.of_N (len kk)).
Proof. exact (@g_C07_len_spec). Qed.

Theorem C07_gen_item_transfer :
  forall (V : Type) (zV : V) (hash : bytes -> N) (sort : list (item V) -> list (item V)), sort_ok sort -> forall (st : strmap V) (kk : list bytes) (vv : list V) (i : Z) (k : bytes) (v : V), Datatypes.length kk = Datatypes.length vv -> loadable kk -> let st' := fst (load hash sort st kk vv) in glen_ok (data st') -> item_at st' i = Ok (k, v) -> g_strmap_Item V zV false (data st') (gitems V st') (table st') i = Ok (data st', gitems V st', table st', k, v).
Proof. exact (@g_C07_item_transfer). Qed.

Theorem C07_gen_get_unloaded :
  forall (V : Type) (zV : V) (hash : bytes -> N) (s : bytes) (fuel : nat), g_strmap_Get V zV (xhash hash) fuel false [] [] [] s = Ok ([], [], [], zV, false).
Proof. exact (@g_C07_get_unloaded). Qed.
