(* Properties/C07.v — read-only string maps answer exactly like a Go map. (theorems being added) *)
From GV Require Import Lib.Bytes Lib.Res Model.StrMap Model.StrStore Spec.StrMap.
Open Scope N_scope.

Theorem C07_placeholder : forall V (hash : bytes -> N), get hash (@new_map V) [] = Ok None.
Proof. reflexivity. Qed.
