(* Properties/C14.v — concurrent use: separate instances are isolated; maps are safe to read.
   Over Model/Tenants.v: any number of readers, writers and skip decoders (instances of the
   heap-level models of C09) created at any time over ONE shared world (heap, mcache pool,
   outsiders); a run is any interleaving of their operations (each with an arbitrary allocator
   oracle and arbitrary outsider activity at every callback and pool operation), of outsider
   steps and of creations.  What is NOT here: data-race freedom under the Go memory model — that
   is observed by the race detector on the schedules of the stress harness (claims/C14.json). *)
From GV Require Import Lib.Bytes Lib.Res Lib.Heap Model.Own Model.OwnReader Model.OwnWriter Model.OwnSkipDec
  Model.Tenants Model.StrMap Spec.Ownership Spec.OwnRegions
  Proofs.OwnLib Proofs.OwnTrace Proofs.OwnReaderP Proofs.OwnWriterP Proofs.OwnSkipDecP Proofs.TenantsP Proofs.PoolsP.
Open Scope N_scope.

(* ---------- ownership_inv ----------
   in every reachable state of every interleaving, the blocks the tenants stand on (owned, or lent
   by their callers), the pool and the outsiders' blocks are pairwise distinct, and every tenant's
   own trace is accepted by the ownership monitor — every read/write hits a block that tenant
   holds at that moment, every Free is of a whole block it owns — so each trace satisfies the
   trace specifications of C09 *)
Theorem C14_ownership_inv :
  forall (w0 : world) (h : list gstep) (g : gstate),
    wok w0 -> Forall gstep_wf h -> fst (g_run (mkG w0 []) h) = g ->
    NoDup (allfoot (gts g) ++ wpool (gw g) ++ wcot (gw g)) /\
    forall i t tr, nth_error (gts g) i = Some (t, tr) ->
      montr tr <> None /\
      no_use_after_free (rev tr) /\ caller_untouched (rev tr) /\ frees_whole_blocks (rev tr).
Proof. intros w0 h g Wk Hwf E. apply (ownership_inv w0 h g). split; [assumption|split; assumption]. Qed.

(* ---------- noninterference ----------
   (1) whatever the others do, every tenant gets the single-object results of C09 on ITS OWN data:
       a reader's live slices read as its own stream, a writer's windows hold what its own caller
       stored (and are disjoint), a skip decoder's result reads as its own stream *)
Theorem C14_noninterference :
  forall (w0 : world) (h : list gstep) (g : gstate),
    wok w0 -> Forall gstep_wf h -> fst (g_run (mkG w0 []) h) = g ->
    forall i t tr, nth_error (gts g) i = Some (t, tr) ->
      match t with
      | TR st => Forall (fun l => rd (wh (gw g)) (lblk l) (loff l) (llen l) = seg_at (sdata (rsrc st)) (lpos l) (llen l)) (rlive st)
      | TW st => ForallOrdPairs pdisj (wregs st) /\ Forall (region_held st (wh (gw g))) (wregs st)
      | TK st => match kres st with
                 | Some l => rd (wh (gw g)) (lblk l) (loff l) (llen l) = seg_at (sdata (ksrc st)) (lpos l) (llen l)
                 | None => True
                 end
      end.
Proof.
  intros w0 h g Wk Hwf E i t tr Hn.
  pose proof (noninterference_results w0 h g (conj Wk (conj Hwf E)) i t tr Hn) as H.
  destruct t; exact H.
Qed.

(* (2) a step of tenant i changes no other tenant's state or trace, and no byte of any block
       another tenant stands on *)
Theorem C14_noninterference_frame :
  forall (w0 : world) (h : list gstep) (g : gstate) i o al adv padv g' out,
    wok w0 -> Forall gstep_wf h -> fst (g_run (mkG w0 []) h) = g -> top_wf o ->
    g_step g (GOp i o al adv padv) = (g', out) ->
    forall j tj trj, j <> i -> nth_error (gts g) j = Some (tj, trj) ->
      nth_error (gts g') j = Some (tj, trj) /\
      forall b, In b (footprint tj) -> block (wh (gw g')) b = block (wh (gw g)) b.
Proof.
  intros w0 h g i o al adv padv g' out Wk Hwf E Ho Es j tj trj Hne Hj.
  exact (noninterference_frame w0 h g i o al adv padv g' out (conj Wk (conj Hwf E)) Ho Es j tj trj Hne Hj).
Qed.

(* the literal "projection" form — the run seen by tenant i alone is a single-object run of C09
   in which the other tenants' steps are co-tenant scripts — is NOT proved (it needs the written
   bytes in the trace and a replay argument); it is implied informally by (1)+(2), which are what
   the per-tenant results rest on.  Kept visible: *)
Definition C14_noninterference_projection_statement : Prop :=
  forall (w0 : world) (h : list gstep) (g : gstate),
    wok w0 -> Forall gstep_wf h -> fst (g_run (mkG w0 []) h) = g ->
    forall i st tr, nth_error (gts g) i = Some (TR st, tr) ->
      exists (st0 : hreader) (w1 : world) (tr0 : list event) (hi : list hstep) (w' : world) (outs : list hout),
        run (st0, w1, tr0) hi = (st, w', tr, outs) /\ wh w' = wh (gw g) /\ wpool w' = wpool (gw g).

(* ---------- pool_transparent ----------
   an object taken from one of the package's sync.Pools — i.e. ANY object that went through the
   type's Recycle/Release — is turned by the constructor into the very state a zero object gets *)
Theorem C14_pool_transparent_bufreader : forall o r, br_new (br_recycle o) r = br_new br_zero r.
Proof. exact pool_transparent_bufreader. Qed.
Theorem C14_pool_transparent_bufwriter : forall o w, bw_new (bw_recycle o) w = bw_new bw_zero w.
Proof. exact pool_transparent_bufwriter. Qed.
Theorem C14_pool_transparent_skipdec : forall o r, sd_new (sd_release o) r = sd_new sd_zero r.
Proof. exact pool_transparent_skipdec. Qed.
Theorem C14_pool_transparent_bytesskip : forall o b, bs_new (bs_release o) b = bs_new bs_zero b.
Proof. exact pool_transparent_bytesskip. Qed.
(* ReaderSkipDecoder keeps its private buffer (Release resets r and n only): after ANY earlier use
   it answers every later history value for value like a brand-new decoder, whatever the
   allocator and the co-tenants do on either side *)
Theorem C14_pool_transparent_rsd :
  forall src0 w0 h0 st w tr outs0,
    wok w0 -> spos src0 <= len (sdata src0) -> Forall kstep_wf h0 ->
    krun (new_skip src0, w0, []) h0 = (st, w, tr, outs0) ->
    forall src w2 h1 h2 a' w1' tr1' outs1 b' w2' tr2' outs2,
      wok w2 -> spos src <= len (sdata src) -> Forall2 same_shape h1 h2 -> Forall kstep_wf h1 ->
      krun (k_reset st src, w, tr) h1 = (a', w1', tr1', outs1) ->
      krun (new_skip src, w2, []) h2 = (b', w2', tr2', outs2) ->
      map kval outs1 = map kval outs2.
Proof. exact pool_transparent_rsd. Qed.

(* ---------- get_pure ----------
   the Go Get bodies assign nothing through the receiver (counted from the source on every run:
   Gen/Consts.v), so under ANY schedule of any number of goroutines the map stays what it was and
   every goroutine's answers are, in order, the sequential answers *)
Theorem C14_get_pure :
  forall (V : Type) (hash : bytes -> N) (havoc : strmap V -> bytes -> strmap V)
         (m : strmap V) (sched : list nat) (todo : list (list bytes)) (done : list (list (res (option V)))),
    length done = length todo ->
    let r := get_run (strmap V) bytes (res (option V)) (@get V hash) strmap_get_writes havoc m sched todo done in
    fst r = m /\
    forall i, exists n, nth i (snd r) [] = nth i done [] ++ map (@get V hash m) (firstn n (nth i todo [])).
Proof.
  intros V hash havoc m sched todo done Hlen.
  change strmap_get_writes with 0%Z. now apply get_run_pure.
Qed.

(* ---------- non-vacuity ---------- *)
(* a reader, a writer and a skip decoder interleaved over one pool: the writer's freed buffer is
   reused by the reader, slices and windows stay intact *)
Definition ex_run : list gstep :=
  [GNewReader (mkSrc (pat 3 9000) e_eof false [] 0); GNewWriter 0; GNewSkip (mkSrc (pat 5 100) e_eof false [] 0);
   GOp 1 (OpW (WMalloc 10)) [] [] []; GOp 2 (OpK (KNext [4; 30])) [] [] [];
   GOp 1 (OpW (WFill 0 0 (pat 1 10))) [] [] []; GOp 1 (OpW WFlush) [] [] [];
   GOp 0 (OpR (HNext 10)) [Pooled 0] [] []; GCo [CoAlloc 64 (Fresh [])];
   GOp 0 (OpR (HNext 5000)) [] [] []; GOp 0 (OpR (HPeek 100)) [] [] []].
Example C14_nonvacuous :
  let g := fst (g_run (mkG empty_world []) ex_run) in
  (length (gts g), allfoot (gts g), wpool (gw g), wcot (gw g)) = (3%nat, [4; 0; 2]%nat, [1%nat], [3%nat]).
Proof. vm_compute. reflexivity. Qed.
Example C14_get_writes_is_zero : strmap_get_writes = 0%Z.
Proof. reflexivity. Qed.
