(* Properties/C19.v — Apache bridge: buffer transport is the buffer; callbacks pass through
   (protocol/thrift/apache/transport.go, apache.go).  Only statements; proofs in Proofs/ApacheP.v.
   bytes.Buffer's behaviour is a modelled contract (Model/Apache.v: buf_write/buf_read/...). *)
From GV Require Import Lib.Bytes Lib.Res Model.Apache Proofs.ApacheP.
Open Scope N_scope.

(* every history over both handles, from every initial content:
   (1) it equals the same history with every call made on the plain *bytes.Buffer;
   (2) the resulting content is that of ONE bytes.Buffer executing the erased history
       (Close = Reset, other transport-only methods = nothing);
   (3) any other assignment of handles to the same calls gives the same states and results;
   (4) afterwards every buffer method behaves identically through either handle. *)
Theorem C19_handles_same_state : forall h s,
  run h s = run (map on_buffer h) s /\
  fst (run h s) = fst (run_buf (erase h) s) /\
  (forall h', Forall2 same_mod_handle h h' -> run h' s = run h s) /\
  (forall b, exec (Via HBuffer b) (fst (run h s)) = exec (Via HTransport b) (fst (run h s))).
Proof. exact handles_same_state. Qed.

(* histories using only bytes.Buffer methods, through whichever handle: exactly one buffer *)
Theorem C19_via_only_is_one_buffer : forall h bs,
  map bop_of h = map Some bs -> forall s, run h s = run_buf bs s.
Proof. exact run_via_only. Qed.

(* after every history RemainingBytes is the unread length, which is also Len() through either
   handle (len < 2^64: a Go int length always is) *)
Theorem C19_remaining_eq_len : forall h s,
  let s' := fst (run h s) in
  len s' < two64 ->
  snd (exec (Tr RemainingBytes) s') = ORemaining (len s') /\
  fst (exec (Tr RemainingBytes) s') = s' /\
  (forall hd, snd (exec (Via hd Len) s') = OLen (Z.of_N (len s'))).
Proof. exact remaining_eq_len. Qed.

Theorem C19_remaining_mod : forall s, bt_remaining s = len s mod two64.
Proof. exact bt_remaining_mod. Qed.

(* Close returns nil and empties the buffer for both handles *)
Theorem C19_close_empties : forall s,
  let s' := fst (exec (Tr Close) s) in
  s' = [] /\ snd (exec (Tr Close) s) = ONilErr /\
  snd (exec (Tr RemainingBytes) s') = ORemaining 0 /\
  (forall hd, snd (exec (Via hd Len) s') = OLen 0%Z) /\
  (forall hd k, 0 < k -> exec (Via hd (Read k)) s' = ([], ORead [] true)).
Proof. exact close_empties. Qed.

(* defaultTransport.RemainingBytes: the readable length when the object exposes ReadableLen()
   and it is positive, else max uint64; objects without ReadableLen(): max uint64 *)
Theorem C19_default_remaining_spec : forall o,
  match o with
  | RWReadable n =>
      in_signed 64 n ->
      ((0 < n)%Z -> default_remaining o = Z.to_N n) /\
      ((n <= 0)%Z -> default_remaining o = 18446744073709551615)
  | _ => default_remaining o = 18446744073709551615
  end.
Proof. exact default_remaining_spec. Qed.

(* NewDefaultTransport: a *bytes.Buffer becomes a buffer transport (remaining = unread length,
   zero included); everything else a defaultTransport *)
Theorem C19_new_default_transport : forall o,
  match o with
  | RWBuffer s => new_default_transport o = TBuffer s /\
                  (len s < two64 -> transport_remaining (new_default_transport o) = len s)
  | _ => new_default_transport o = TDefault o /\
         transport_remaining (new_default_transport o) = default_remaining o
  end.
Proof. exact new_default_transport_spec. Qed.

(* registered: the callback receives exactly the arguments (it is applied to them, for every
   callback and argument type) and its result is what is returned *)
Theorem C19_callback_passthrough : forall (A E : Type) (r : registry A E) s fn a,
  get r s = Some fn -> dispatch r s a = Ok (RetCallback (fn a)).
Proof. intros A E. exact callback_passthrough. Qed.

(* unregistered (never registered, or nil registered): the slot's own error, and in no state a
   nil function is called *)
Theorem C19_unregistered_specific_error : forall (A E : Type) (r : registry A E) s a,
  (get r s = None -> dispatch r s a = Ok (RetNotRegistered s)) /\
  safe (dispatch r s a) /\
  dispatch empty_registry s a = Ok (RetNotRegistered s : result E).
Proof. intros A E. exact unregistered_spec. Qed.

(* any sequence of Register* calls from the initial state: the last one for the slot decides *)
Theorem C19_registry_history : forall (A E : Type) (l : list (slotid * fnval A E)) s a,
  dispatch (apply_regs l empty_registry) s a =
  match last_for s l None with
  | Some fn => Ok (RetCallback (fn a))
  | None => Ok (RetNotRegistered s)
  end.
Proof. intros A E. exact dispatch_after_regs. Qed.

(* non-vacuity *)
Example C19_nonvacuous_history :
  let h := [Via HBuffer (Write [1; 2; 3]); Via HTransport (Read 2); Tr RemainingBytes;
            Via HTransport (Write [4]); Via HBuffer Len; Tr Close; Via HBuffer (Read 1)] in
  run h [] = ([], [OWrite 3; ORead [1; 2] false; ORemaining 1; OWrite 1; OLen 2%Z; ONilErr; ORead [] true]) /\
  Forall2 same_mod_handle h (map on_buffer h).
Proof. split; [reflexivity|apply on_buffer_smh]. Qed.

Example C19_nonvacuous_default :
  in_signed 64 7%Z /\ default_remaining (RWReadable 7%Z) = 7 /\
  default_remaining (RWReadable 0%Z) = 18446744073709551615 /\
  default_remaining (RWReadable (-1)%Z) = 18446744073709551615.
Proof. repeat split; cbn; lia. Qed.

Example C19_nonvacuous_registry :
  get (register SRead (Some (fun a : nat => S a)) (@empty_registry nat nat)) SRead = Some (fun a => S a) /\
  dispatch (register SRead (Some (fun a : nat => S a)) (@empty_registry nat nat)) SRead 4%nat = Ok (RetCallback 5%nat) /\
  dispatch (register SRead (Some (fun a : nat => S a)) (@empty_registry nat nat)) SWrite 4%nat = Ok (RetNotRegistered SWrite).
Proof. repeat split. Qed.
