(* Properties/C13.v — unknown-field trees convert to and from bytes without loss.
   Only statements; every proof is [exact <lemma>] from Proofs/UnknownP.v. *)
From GV Require Import Lib.Bytes Lib.Res Gen.Consts Model.Binary Spec.Wire Model.Unknown Spec.UnknownSpec Proofs.UnknownP.
Open Scope N_scope.

Theorem C13_d9_regression : convert (enc_fields d9_value) = Ok (tree_of_fields d9_value).
Proof. exact d9_repaired. Qed.
