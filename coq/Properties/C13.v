(* Properties/C13.v — unknown-field trees convert to and from bytes without loss.
   Only statements; every proof is [exact <lemma>] from Proofs/UnknownP.v.

   convert      = ConvertUnknownFields (readUnknownField with the per-member reset of the D9 repair)
   fields_len   = UnknownFieldsLength
   write_fields = WriteUnknownFields into a caller buffer [buf] (in place: result buffer and offset)
   enc_fields / wf_fields / tree_of_fields : Spec/UnknownSpec.v (typed values, their Binary encoding with
   canonical bools, the format's limits, the tree a field sequence denotes)
   canon_fields / enc_tree_fields : canonical trees and the bytes they denote. *)
From GV Require Import Lib.Bytes Lib.Res Gen.Consts Model.Binary Spec.Wire Model.Unknown Spec.UnknownSpec Proofs.UnknownP Proofs.UnknownGrammarP.
Open Scope N_scope.

(* bytes -> tree -> bytes: for EVERY non-empty sequence of well-formed encoded fields (every type, any nesting,
   any ids, empty containers with any element tag): the conversion succeeds and yields exactly the tree the
   sequence denotes (ids of elements = index as int16, KeyType/ValType only where meaningful), that tree is
   canonical, the computed length is the byte count, and writing the tree into any buffer that is long
   enough reproduces the original bytes at its start, touches nothing after them and reports their count. *)
Theorem C13_bytes_tree_bytes : forall fs, fs <> [] -> wf_fields fs = true ->
  let b := enc_fields fs in
  let t := tree_of_fields fs in
  convert b = Ok t /\ canon_fields t = true /\ fields_len t = Ok (len b) /\
  (forall buf, len b <= len buf -> write_fields buf t = Ok (b ++ drop (len b) buf, len b)).
Proof. exact bytes_tree_bytes. Qed.

(* the same over the shared Thrift grammar of the skipper properties (Spec/ThriftGrammar.v: raw unsigned
   patterns, raw type bytes; [G.wt] well-typedness, [G.enc] encoding): the body of EVERY well-typed struct
   value whose bool bytes are 0/1 — its encoding without the closing STOP byte — converts to the tree it
   denotes and is written back byte for byte. *)
Theorem C13_bytes_tree_bytes_grammar : forall fs, fs <> [] ->
  G.wt G.T_STRUCT (G.VStruct fs) = true -> cbools (G.VStruct fs) = true ->
  exists b, G.enc (G.VStruct fs) = b ++ [G.T_STOP] /\
    let t := tree_of_fields (tfields fs) in
    convert b = Ok t /\ canon_fields t = true /\ fields_len t = Ok (len b) /\
    (forall buf, len b <= len buf -> write_fields buf t = Ok (b ++ drop (len b) buf, len b)).
Proof. exact bytes_tree_bytes_grammar. Qed.

(* tree -> bytes -> tree: for EVERY non-empty canonical tree list: the length is that of the bytes written,
   the write fills exactly that prefix of the buffer, and converting what was written gives the tree back. *)
Theorem C13_tree_bytes_tree : forall ts, ts <> [] -> canon_fields ts = true ->
  let b := enc_tree_fields ts in
  fields_len ts = Ok (len b) /\
  (forall buf, len b <= len buf -> write_fields buf ts = Ok (b ++ drop (len b) buf, len b)) /\
  convert b = Ok ts.
Proof. exact tree_bytes_tree. Qed.

(* EVERY accepted byte string (bytes < 256, canonical bools or not): the tree returned is canonical — element
   ids are the index as int16, KeyType/ValType are set exactly where they mean something, values in range —
   it is non-empty and denotes exactly as many bytes as were given; hence (with C13_tree_bytes_tree) the
   computed length is the input's byte count, the write fills exactly that many bytes, and converting what
   was written gives the same tree again (the written bytes differ from the input at most in non-canonical
   bool bytes, which ReadBool maps to false). *)
Theorem C13_convert_canonical : forall b t, wf b -> convert b = Ok t ->
  canon_fields t = true /\ t <> [] /\ len (enc_tree_fields t) = len b.
Proof. exact convert_canonical. Qed.
Theorem C13_accepted_bytes_round_trip : forall b t, wf b -> convert b = Ok t ->
  let w := enc_tree_fields t in
  len w = len b /\ fields_len t = Ok (len b) /\
  (forall buf, len b <= len buf -> write_fields buf t = Ok (w ++ drop (len b) buf, len b)) /\
  convert w = Ok t.
Proof. exact convert_then_write. Qed.

(* ARBITRARY bytes (C03 reuses this): ConvertUnknownFields never panics — no slice beyond the buffer, no
   negative make — whatever the input; the model's recursion and loop budgets are never exhausted (so the
   budget is not what produces an error: every nesting level consumes bytes); and a single value read
   reports a consumed length between 1 and the length of the buffer it was given.  Allocation by declared
   size (make([]UnknownField, size)) is modelled as total. *)
Theorem C13_convert_total : forall b, safe (convert b).
Proof. exact convert_total. Qed.
Theorem C13_convert_fuel_suffices : forall b, convert b <> Err e_fuel.
Proof. exact convert_fuel_suffices. Qed.
Theorem C13_read_field_bounded : forall fuel f0 buf ty id f l,
  (length buf < fuel)%nat -> read_field true fuel f0 buf ty id = Ok (f, l) -> 1 <= l <= len buf.
Proof. exact read_field_bounded. Qed.

(* the type codes the statements fix are the ones the Go source declares *)
Theorem C13_consts :
  thrift_STOP = T_STOP /\ thrift_BOOL = T_BOOL /\ thrift_BYTE = T_BYTE /\ thrift_DOUBLE = T_DOUBLE /\
  thrift_I16 = T_I16 /\ thrift_I32 = T_I32 /\ thrift_I64 = T_I64 /\ thrift_STRING = T_STRING /\
  thrift_STRUCT = T_STRUCT /\ thrift_MAP = T_MAP /\ thrift_SET = T_SET /\ thrift_LIST = T_LIST.
Proof. exact consts_ok_unknown. Qed.

(* D9: the witness converts to its denotation; without the per-member reset the I32 member after the map
   would carry the map's KeyType/ValType, and tree -> bytes -> tree would fail on the canonical tree *)
Theorem C13_d9_regression : convert (enc_fields d9_value) = Ok (tree_of_fields d9_value).
Proof. exact d9_repaired. Qed.
Theorem C13_d9_without_reset_refuted :
  convert_gen false (enc_tree_fields (tree_of_fields d9_value)) <> Ok (tree_of_fields d9_value).
Proof. exact d9_without_reset_refuted. Qed.

(* non-vacuity of the hypotheses *)
Example C13_nonvacuous_fields : d9_value <> [] /\ wf_fields d9_value = true.
Proof. split; [discriminate|reflexivity]. Qed.
Example C13_nonvacuous_grammar :
  let fs := [(12, 1, G.VStruct [(13, 1, G.VMap 8 10 [(G.VI32 5, G.VI64 7)]); (8, 2, G.VI32 9)])] in
  fs <> [] /\ G.wt G.T_STRUCT (G.VStruct fs) = true /\ cbools (G.VStruct fs) = true /\
  tfields fs = d9_value.
Proof. repeat split; try reflexivity. discriminate. Qed.
Example C13_nonvacuous_accepted :
  wf (enc_fields d9_value) /\ convert (enc_fields d9_value) = Ok (tree_of_fields d9_value).
Proof. split; [apply wfbb_wf; reflexivity|exact d9_repaired]. Qed.
Example C13_nonvacuous_trees :
  tree_of_fields d9_value <> [] /\ canon_fields (tree_of_fields d9_value) = true.
Proof. split; [discriminate|reflexivity]. Qed.
