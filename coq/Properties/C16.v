(* Properties/C16.v — decoded values are independent of the input buffer and allocator config.
   Only statements; every proof is [exact <lemma>] from Proofs/SpanP.v / Proofs/SpanThm.v.

   Vocabulary (Spec/Indep.v, Proofs/SpanP.v):
     region            (block, offset, extent); the region of a slice extends over its CAPACITY
     rdisj a b         the regions share no byte
     cinv c bs         allocator invariant over the block sizes bs (read <= size <= cap <= block size,
                       2*size <= 2^32, distinct blocks, class count + minSpanClass <= 32)
     hinv h c          cinv c (sizes of the heap's blocks)
     allocd c r        r does not reach into the unused tail [read, ...) of any span block: true of
                       every caller-owned buffer and of every slice the allocator has handed out
     static_ok h c sb  block sb is the Go runtime's read-only table of one-byte strings *)
From GV Require Import Lib.Bytes Lib.Res Lib.Heap Gen.Consts Model.Binary Model.BufReader Model.Span Spec.Indep
     Proofs.SpanHeap Proofs.SpanP Proofs.SpanThm Proofs.SpanHist Proofs.SpanEx.
Open Scope N_scope.

(* the constants of the Go sources the proofs rely on (regenerated on every run) *)
Theorem C16_consts :
  thrift_spanCache_size = 1048576%Z /\ span_spanCacheSize = 10%Z /\ span_minSpanClass = 8%Z /\
  span_minSpanObject = 128%Z /\ span_maxSpanObject = 131071%Z.
Proof. exact consts_ok_span. Qed.

(* span.NewSpanCache(1024*1024), as package thrift calls it, establishes the invariant *)
Theorem C16_thrift_cache_invariant : forall bs : list N,
  exists c al, new_cache (length bs) thrift_span_size = Ok (c, al) /\ cinv c (bs ++ al).
Proof. exact thrift_cache_inv. Qed.

(* span_disjoint: over ANY sequence of Makes (any sizes a Go int can hold, any outcomes of the
   CAS on the span lock), starting from any state satisfying the invariant: no panic; every
   returned slice has len = the size asked for and cap = len (so append always reallocates);
   all returned regions are pairwise disjoint, inside their blocks, and disjoint from
   everything that was allocated before the sequence began *)
Theorem C16_span_disjoint : forall reqs c bs,
  cinv c bs -> Forall (fun q => go_int (fst q)) reqs ->
  exists c' slices allocs rs,
    run_makes c (length bs) reqs = Ok (c', length (bs ++ allocs), slices, allocs) /\
    cinv c' (bs ++ allocs) /\
    Forall2 (fun q b => slen b = Z.to_N (fst q) /\ scap b = slen b) reqs slices /\
    Forall2 (fun b r => slice_region b = Some r) slices rs /\
    pairwise_disjoint rs /\ Forall (inside (bs ++ allocs)) rs /\ Forall (allocd c') rs /\
    (forall X, (r_blk X < length bs)%nat -> allocd c X -> Forall (rdisj X) rs /\ allocd c' X).
Proof. exact run_makes_spec. Qed.

(* result_fresh (Binary.ReadBinary, both settings): the returned slice's region is disjoint from
   the input's region and from every region allocated before the call — every earlier result
   among them, also when the input itself is an earlier result inside a span block; the
   invariant and "allocated" are re-established, so the statement applies to every later call *)
Theorem C16_result_fresh : forall enable h c inp ct capo dirt h' c' b l,
  hinv h c -> slice_valid h inp -> go_int (Z.of_N (slen inp)) ->
  read_binary enable h c inp ct capo dirt = Ok (h', c', b, l) ->
  exists R, slice_region b = Some R /\ region_valid h' R /\ hinv h' c' /\ allocd c' R /\
    (forall Ri, slice_region inp = Some Ri -> allocd c Ri -> rdisj R Ri) /\
    (forall X, region_valid h X -> allocd c X -> rdisj R X /\ region_valid h' X /\ allocd c' X).
Proof. exact result_fresh_binary. Qed.

(* with the span cache on the result has cap = len *)
Theorem C16_span_cap_eq_len : forall enable h c inp ct capo dirt h' c' b l,
  hinv h c -> slice_valid h inp -> go_int (Z.of_N (slen inp)) ->
  read_binary enable h c inp ct capo dirt = Ok (h', c', b, l) ->
  enable = true -> scap b = slen b.
Proof. exact span_cap_eq_len. Qed.

(* a decode changes neither its input nor any earlier result; and it never panics *)
Theorem C16_decode_keeps_old : forall enable h c inp ct capo dirt h' c' b l,
  hinv h c -> slice_valid h inp -> go_int (Z.of_N (slen inp)) ->
  read_binary enable h c inp ct capo dirt = Ok (h', c', b, l) ->
  forall X, region_valid h X -> allocd c X -> region_bytes h' X = region_bytes h X.
Proof. exact decode_keeps_old. Qed.

(* mutate_input_noeffect: any write inside the input buffer (or inside anything else allocated
   before the call) after the decode leaves the returned value unchanged *)
Theorem C16_mutate_input_noeffect : forall enable h c inp ct capo dirt h' c' b l,
  hinv h c -> slice_valid h inp -> go_int (Z.of_N (slen inp)) ->
  read_binary enable h c inp ct capo dirt = Ok (h', c', b, l) ->
  forall X o w, region_valid h X -> allocd c X -> r_off X <= o -> o + len w <= r_off X + r_ext X ->
  slice_bytes (write h' (r_blk X, o) w) b = slice_bytes h' b.
Proof. exact mutate_input_noeffect_binary. Qed.

(* append_noeffect: append(b, x...) for any x and any runtime growth policy changes neither the
   input nor an earlier result nor anything disjoint from b's region (by C16_result_fresh of the
   later calls: every later result), nor b itself; the appended slice holds b ++ x; with the span
   cache on (cap = len) a non-empty append leaves every existing block untouched *)
Theorem C16_append_noeffect : forall enable h c inp ct capo dirt h' c' b l,
  hinv h c -> slice_valid h inp -> go_int (Z.of_N (slen inp)) ->
  read_binary enable h c inp ct capo dirt = Ok (h', c', b, l) ->
  forall x nc h'' b2, go_append h' b x nc = (h'', b2) ->
    (forall X, region_valid h X -> allocd c X -> region_bytes h'' X = region_bytes h X) /\
    (forall R Y, slice_region b = Some R -> (r_blk Y < length h')%nat -> rdisj R Y ->
                 region_bytes h'' Y = region_bytes h' Y) /\
    slice_bytes h'' b = slice_bytes h' b /\
    slice_bytes h'' b2 = slice_bytes h' b ++ x /\
    (enable = true -> x <> [] -> forall k, (k < length h')%nat -> block h'' k = block h' k).
Proof. exact append_noeffect_binary. Qed.

(* writes through the result touch nothing outside the result's region *)
Theorem C16_write_through_noeffect : forall enable h c inp ct capo dirt h' c' b l,
  hinv h c -> slice_valid h inp -> go_int (Z.of_N (slen inp)) ->
  read_binary enable h c inp ct capo dirt = Ok (h', c', b, l) ->
  forall o w Y R, slice_region b = Some R -> o + len w <= slen b -> rdisj R Y ->
  region_bytes (write h' (r_blk R, r_off R + o) w) Y = region_bytes h' Y.
Proof. exact write_through_noeffect_binary. Qed.

(* span_on_off_equal: the outcome (value and consumed length, or the error) is that of the
   value-level reader of Model/Binary.v whatever the setting and the oracles; never a panic *)
Theorem C16_value_binary : forall enable h c inp ct capo dirt,
  hinv h c -> slice_valid h inp -> go_int (Z.of_N (slen inp)) ->
  value_of (read_binary enable h c inp ct capo dirt) = r_binary (slice_bytes h inp).
Proof. exact value_of_binary. Qed.

Theorem C16_span_on_off_equal : forall h c inp ct1 capo1 dirt1 ct2 capo2 dirt2,
  hinv h c -> slice_valid h inp -> go_int (Z.of_N (slen inp)) ->
  value_of (read_binary true h c inp ct1 capo1 dirt1) = value_of (read_binary false h c inp ct2 capo2 dirt2).
Proof. exact span_on_off_equal_binary. Qed.

(* Binary.ReadString: the same, for the returned string (its region extends over its length).
   With the span cache off a one-byte string may lie in the runtime's read-only table (block sb),
   where equal results share memory; it is disjoint from every region outside that block *)
Theorem C16_result_fresh_string : forall enable sb h c inp ct static dirt h' c' s l,
  hinv h c -> slice_valid h inp -> go_int (Z.of_N (slen inp)) ->
  static_ok h c sb -> wf (slice_bytes h inp) ->
  read_string enable sb h c inp ct static dirt = Ok (h', c', s, l) ->
  exists v,
    r_string (slice_bytes h inp) = Ok (v, l) /\ string_bytes h' s = v /\ tlen s = len v /\
    hinv h' c' /\ static_ok h' c' sb /\ (length h <= length h')%nat /\
    (forall X, region_valid h X -> allocd c X ->
       allocd c' X /\ region_valid h' X /\ region_bytes h' X = region_bytes h X) /\
    (forall R, string_region s = Some R ->
       region_valid h' R /\ allocd c' R /\
       forall X, region_valid h X -> allocd c X -> r_blk X <> sb -> rdisj R X).
Proof. exact rs_facts. Qed.

Theorem C16_mutate_input_noeffect_string : forall enable sb h c inp ct static dirt h' c' s l,
  hinv h c -> slice_valid h inp -> go_int (Z.of_N (slen inp)) ->
  static_ok h c sb -> wf (slice_bytes h inp) ->
  read_string enable sb h c inp ct static dirt = Ok (h', c', s, l) ->
  forall X o w, region_valid h X -> allocd c X -> r_blk X <> sb ->
    r_off X <= o -> o + len w <= r_off X + r_ext X ->
    string_bytes (write h' (r_blk X, o) w) s = string_bytes h' s.
Proof. exact mutate_input_noeffect_string. Qed.

Theorem C16_span_on_off_equal_string : forall sb h c inp ct1 st1 dirt1 ct2 st2 dirt2,
  hinv h c -> slice_valid h inp -> go_int (Z.of_N (slen inp)) -> static_ok h c sb -> wf (slice_bytes h inp) ->
  value_of_s (read_string true sb h c inp ct1 st1 dirt1) = value_of_s (read_string false sb h c inp ct2 st2 dirt2).
Proof. exact span_on_off_equal_string. Qed.

(* the read-only table survives every ReadBinary as well *)
Theorem C16_static_table_kept : forall enable h c inp ct capo dirt h' c' b l sb,
  hinv h c -> slice_valid h inp -> go_int (Z.of_N (slen inp)) ->
  read_binary enable h c inp ct capo dirt = Ok (h', c', b, l) ->
  static_ok h c sb -> static_ok h' c' sb.
Proof. exact read_binary_static. Qed.

(* BufferReader.ReadBinary (stream): the result is a brand-new block with cap = len, no
   existing block changes, and the bytes delivered by the bufiox reader are at its start *)
Theorem C16_stream_fresh : forall h st dirt st' h' b e,
  stream_read_binary h st dirt = (st', Ok (h', b, e)) ->
  sptr b = Some (length h, 0) /\ scap b = slen b /\ length h' = S (length h) /\
  len (block h' (length h)) = slen b /\
  (forall k, (k < length h)%nat -> block h' k = block h k) /\
  exists m bs st1,
    r_readbinary st1 (slen b) = (st', ORead m bs e) /\ len bs <= slen b /\
    take (len bs) (slice_bytes h' b) = bs.
Proof. exact stream_read_binary_spec. Qed.

(* ---------- whole histories (Proofs/SpanHist.v) ----------
   A history is any interleaving of decodes (ReadBinary / ReadString, either setting, any oracle
   choices, from any valid input slice), caller writes into caller-owned buffers, writes through
   returned []byte values and appends to them ([hstep]).  The state records for every caller
   buffer and every returned value the bytes it holds.  [good]: the allocator invariant holds,
   the heap agrees with every record, returned values are pairwise independent (disjoint
   regions, or both immutable one-byte strings out of the runtime's read-only table) and
   disjoint from every caller buffer.  Every step keeps [good], and changes the record of no
   returned value except the one it writes through — so over any history no value is ever
   altered by mutating inputs, by decoding more, or by writing through / appending to others. *)
Theorem C16_history_step : forall sb s s', good sb s -> hstep sb s s' -> good sb s'.
Proof. exact hstep_good. Qed.

Theorem C16_history : forall sb s s', good sb s -> reach sb s s' -> good sb s'.
Proof. exact reach_good. Qed.

Theorem C16_history_keeps : forall sb s s',
  hstep sb s s' ->
  forall j lv, nth_error (hs_lvs s) j = Some lv ->
    (exists k, nth_error (hs_lvs s') k = Some lv) \/
    (exists o w, lv_str lv = false /\ o + len w <= lv_len lv /\
       hs_h s' = write (hs_h s) (r_blk (lv_reg lv), r_off (lv_reg lv) + o) w).
Proof. exact hstep_keeps. Qed.

(* ---------- non-vacuity (a small allocator with 300-byte spans; Proofs/SpanEx.v) ---------- *)
(* the hypothesis set of the ReadBinary / ReadString theorems is satisfiable ... *)
Example C16_hypotheses_satisfiable :
  hinv ex_heap ex_cache /\ static_ok ex_heap ex_cache 0 /\
  slice_valid ex_heap ex_in1 /\ slice_valid ex_heap ex_in2 /\
  go_int (Z.of_N (slen ex_in1)) /\ go_int (Z.of_N (slen ex_in2)) /\
  wf (slice_bytes ex_heap ex_in1) /\ wf (slice_bytes ex_heap ex_in2).
Proof. exact (conj ex_hinv (conj ex_static ex_in_valid)). Qed.

(* ... and both readers succeed there: a one-byte string out of the static table (span cache
   off) and a 200-byte slice at the start of the class-0 span block (span cache on) *)
Example C16_decodes_succeed :
  (exists h' c' s, read_string false 0 ex_heap ex_cache ex_in1 false true [] = Ok (h', c', s, 5) /\
                   string_bytes h' s = [65] /\ tptr s = Some (0%nat, 520)) /\
  (exists h' c' b, read_binary true ex_heap ex_cache ex_in2 false 0 [] = Ok (h', c', b, 204) /\
                   slice_bytes h' b = repeat 7 200 /\ sptr b = Some (1%nat, 0) /\ scap b = 200).
Proof. exact ex_decodes. Qed.

(* the allocator on a concrete sequence: bump, wrap to a new block, out of class, lost CAS, next class *)
Example C16_makes_example :
  match run_makes ex_cache 12 [(200, false); (200, false); (50, false); (100, false); (200, true); (299, false)]%Z with
  | Ok (_, nb, sl, al) =>
    map (fun b => (sptr b, slen b, scap b)) sl =
      [(Some (1%nat, 0), 200, 200); (Some (12%nat, 0), 200, 200); (Some (13%nat, 0), 50, 50);
       (Some (14%nat, 0), 100, 100); (Some (15%nat, 0), 200, 200); (Some (2%nat, 0), 299, 299)] /\
    al = [300; 50; 100; 200] /\ nb = 16%nat
  | _ => False
  end.
Proof. exact ex_makes. Qed.

Example C16_stream_example :
  exists st' h' b,
    stream_read_binary [[1; 2]] (new_reader {| sdata := [0; 0; 0; 3; 9; 8; 7]; sfinal := e_eof; swith := true;
                                              schunks := [2; 1]; spos := 0 |}) [5; 5; 5; 5]
      = (st', Ok (h', b, None)) /\ slice_bytes h' b = [9; 8; 7] /\ sptr b = Some (1%nat, 0).
Proof. exact ex_stream. Qed.

(* a good initial state of a history, and a step from it *)
Example C16_history_nonvacuous :
  good 0 ex_state /\ exists s', hstep 0 ex_state s' /\ length (hs_lvs s') = 1%nat.
Proof. exact (conj ex_good ex_step). Qed.
