(* Properties/C16.v — decoded values are independent of the input buffer and allocator config.
   Only statements; every proof is [exact <lemma>] from Proofs/SpanP.v. *)
From GV Require Import Lib.Bytes Lib.Res Lib.Heap Gen.Consts Model.Span Spec.Indep Proofs.SpanP.
Open Scope N_scope.

Theorem C16_consts : 
  thrift_spanCache_size = 1048576%Z /\ span_spanCacheSize = 10%Z /\ span_minSpanClass = 8%Z /\
  span_minSpanObject = 128%Z /\ span_maxSpanObject = 131071%Z.
Proof. exact consts_ok_span. Qed.
