(* Properties/C11.v — shipped FastCodec structs (base.Base, base.BaseResp, thrift.ApplicationException):
   exact length, round trip, unknown fields skipped.
   Only statements; every proof is [exact <lemma>] from Proofs/FastCodecP.v (and NocopyP.v).

   Reading guide.  A struct's map is [None] (nil) or [Some l], [l] in the enumeration order of the
   `range` that walks it; every theorem is for every [l], i.e. every order.  [base_stream] etc.
   (Spec/FastSpec.v) is the Thrift Binary encoding given by the interface definition.  A struct
   on the wire is a list of fields [ritem] (Spec/FastRead.v): [Known id v] a field of the
   interface definition with a value of its declared type, [Unknown t id v] any other field: raw
   type byte, 16-bit id, typed value tree of Spec/ThriftGrammar.v.  [ritem_ok sch] : Known fields
   belong to the struct and fit the wire format; Unknown fields are well typed, of container
   height <= 63, and (id, type) is not a known pair (a known id with ANOTHER type is allowed).
   [apply_items] assigns the Known fields in order.

   [SK_exact_statement] is what is needed of thrift.Binary.Skip (the default branch of the
   switches): on the encoding of a well-typed value of height <= 63 followed by any bytes it
   returns exactly the encoding's length.  It is property C02's theorem about Model/Skip.v
   (C02P.bskip_exact, same statement); [ENC_wf_statement] (the encoding of a well-typed value
   consists of bytes < 256) is GrammarP.enc_wf; [SK_safe_statement] / [SK_bounded_statement] are
   SkipP.bskip_safe / bskip_bounded.  [wf l]: every element of [l] is a byte (< 256). *)
From GV Require Import Lib.Bytes Lib.Res Gen.Consts Model.Binary Spec.Wire Model.Skip Model.Nocopy Model.FastCodec
                       Spec.FastSpec Spec.FastRead Proofs.NocopyP Proofs.FastCodecLib Proofs.FastCodecP.
From GV Require Spec.ThriftGrammar.
From Coq Require Import Permutation.
Open Scope N_scope.

(* the constants the model takes from the generated code ARE the interface definition *)
Theorem C11_consts_ok :
  base_Base_FastWriteNocopy_fields = [(11, 1); (11, 2); (11, 3); (13, 6)]%Z /\
  base_Base_FastWriteNocopy_mapkv = [(11, 11)]%Z /\
  base_Base_FastRead_cases = [267; 523; 779; 1549]%Z /\
  base_BaseResp_FastWriteNocopy_fields = [(11, 1); (8, 2); (13, 3)]%Z /\
  base_BaseResp_FastWriteNocopy_mapkv = [(11, 11)]%Z /\
  base_BaseResp_FastRead_cases = [267; 520; 781]%Z /\
  thrift_ApplicationException_FastWrite_fields = [(11, 1); (8, 2)]%Z /\
  thrift_ApplicationException_FastRead_conds = [[1; 11]; [2; 8]]%Z.
Proof. exact fast_consts_ok. Qed.

(* the switch key uint32(fid)<<8 | uint32(ftyp) identifies (id, type) exactly, sign extension of
   negative ids and type bytes >= 0x80 included *)
Theorem C11_switch_key_exact : forall fid ftyp cid cty,
  in_signed 16 fid -> in_signed 8 ftyp -> (0 <= cid < 32768)%Z -> (0 <= cty < 128)%Z ->
  (Z.of_N (sw_key fid ftyp) =? cid * 256 + cty)%Z = ((fid =? cid) && (ftyp =? cty))%Z.
Proof. exact sw_key_decode. Qed.

(* ---------- blen_eq: BLength = number of bytes written = length of the stream, every order;
   nil receiver = the single STOP byte ---------- *)
Theorem C11_blen_eq_base : forall thr p b,
  base_blength p <= len b ->
  base_blength p = len (base_stream p) /\
  base_write thr p b = Ok (base_stream p ++ drop (len (base_stream p)) b, base_blength p).
Proof. intros thr p b H. exact (conj (base_blength_eq p) (base_write_ok thr p b H)). Qed.

Theorem C11_blen_eq_baseresp : forall thr p b,
  baseresp_blength p <= len b ->
  baseresp_blength p = len (baseresp_stream p) /\
  baseresp_write thr p b = Ok (baseresp_stream p ++ drop (len (baseresp_stream p)) b, baseresp_blength p).
Proof. intros thr p b H. exact (conj (baseresp_blength_eq p) (baseresp_write_ok thr p b H)). Qed.

Theorem C11_blen_eq_appex : forall e b,
  len (appex_stream (x_msg e) (x_type e)) <= len b ->
  appex_blength (Some e) = Ok (len (appex_stream (x_msg e) (x_type e))) /\
  appex_write (Some e) b =
    Ok (appex_stream (x_msg e) (x_type e) ++ drop (len (appex_stream (x_msg e) (x_type e))) b,
        len (appex_stream (x_msg e) (x_type e))).
Proof. intros e b H. exact (conj (appex_blength_eq e) (appex_write_ok e b H)). Qed.

(* BLength does not depend on the order in which ITS range statement enumerates the map *)
Theorem C11_blen_any_order : forall p q l l',
  Permutation l l' ->
  base_blength (Some (with_extra p (Some l))) = base_blength (Some (with_extra p (Some l'))) /\
  baseresp_blength (Some (with_rextra q (Some l))) = baseresp_blength (Some (with_rextra q (Some l'))).
Proof. intros p q l l' H. exact (conj (base_blength_perm p l l' H) (baseresp_blength_perm q l l' H)). Qed.

Theorem C11_nil_receiver : forall thr b rest p0 q0,
  1 <= len b ->
  (base_blength None = 1 /\ base_write thr None b = Ok ([0] ++ drop 1 b, 1) /\
   base_read p0 ([0] ++ rest) = Ok (p0, 1)) /\
  (baseresp_blength None = 1 /\ baseresp_write thr None b = Ok ([0] ++ drop 1 b, 1) /\
   baseresp_read q0 ([0] ++ rest) = Ok (q0, 1)).
Proof. intros thr b rest p0 q0 H. exact (conj (nil_base thr b rest p0 H) (nil_baseresp thr b rest q0 H)). Qed.

(* ---------- rt: reading what was written gives the value back and consumes exactly BLength;
   an absent map stays absent, an empty one stays empty ([b_extra p] is returned as it is).
   [base_ok]: strings shorter than 2^31, fewer than 2^32 entries, distinct keys (it is a Go map) ---------- *)
Theorem C11_rt_base : forall thr p b rest,
  base_ok p -> len b = base_blength (Some p) ->
  exists bs, base_write thr (Some p) b = Ok (bs, base_blength (Some p)) /\ len bs = base_blength (Some p) /\
             base_read (Some base_zero) (bs ++ rest) = Ok (Some p, base_blength (Some p)).
Proof. exact base_write_read. Qed.

Theorem C11_rt_baseresp : forall thr p b rest,
  baseresp_ok p -> len b = baseresp_blength (Some p) ->
  exists bs, baseresp_write thr (Some p) b = Ok (bs, baseresp_blength (Some p)) /\ len bs = baseresp_blength (Some p) /\
             baseresp_read (Some baseresp_zero) (bs ++ rest) = Ok (Some p, baseresp_blength (Some p)).
Proof. exact baseresp_write_read. Qed.

Theorem C11_rt_appex : forall e b rest e0,
  appex_ok e -> appex_blength (Some e) = Ok (len b) ->
  exists bs, appex_write (Some e) b = Ok (bs, len b) /\ len bs = len b /\
             appex_read (Some e0) (bs ++ rest) = Ok (Some e, len b).
Proof. exact appex_write_read. Qed.

(* into a receiver that already holds a value: everything is replaced except an absent optional map *)
Theorem C11_rt_any_receiver : forall p p0 rest,
  base_ok p ->
  base_read (Some p0) (base_stream (Some p) ++ rest) =
  Ok (Some (with_extra p (match b_extra p with Some l => Some l | None => b_extra p0 end)),
      len (base_stream (Some p))).
Proof. exact base_rt_gen. Qed.
Theorem C11_rt_any_receiver_baseresp : forall p p0 rest,
  baseresp_ok p ->
  baseresp_read (Some p0) (baseresp_stream (Some p) ++ rest) =
  Ok (Some (with_rextra p (match r_extra p with Some l => Some l | None => r_extra p0 end)),
      len (baseresp_stream (Some p))).
Proof. exact baseresp_rt_gen. Qed.

(* FastMarshal yields the stream whatever the uninitialised allocation contained; FastUnmarshal inverts it *)
Theorem C11_marshal : forall thr dirt p q e,
  base_marshal thr dirt p = Ok (base_stream p) /\
  baseresp_marshal thr dirt q = Ok (baseresp_stream q) /\
  appex_marshal dirt (Some e) = Ok (appex_stream (x_msg e) (x_type e)).
Proof.
  intros thr dirt p q e.
  exact (conj (base_marshal_ok thr dirt p) (conj (baseresp_marshal_ok thr dirt q) (appex_marshal_ok dirt e))).
Qed.
Theorem C11_marshal_unmarshal : forall thr dirt p,
  base_ok p ->
  exists bs, base_marshal thr dirt (Some p) = Ok bs /\ fast_unmarshal (base_read (Some base_zero)) bs = Ok (Some p).
Proof. exact base_marshal_unmarshal. Qed.
Theorem C11_marshal_unmarshal_baseresp : forall thr dirt p,
  baseresp_ok p ->
  exists bs, baseresp_marshal thr dirt (Some p) = Ok bs /\ fast_unmarshal (baseresp_read (Some baseresp_zero)) bs = Ok (Some p).
Proof. exact baseresp_marshal_unmarshal. Qed.
Theorem C11_marshal_unmarshal_appex : forall dirt e e0,
  appex_ok e ->
  exists bs, appex_marshal dirt (Some e) = Ok bs /\ fast_unmarshal (appex_read (Some e0)) bs = Ok (Some e).
Proof. exact appex_marshal_unmarshal. Qed.

(* ---------- read_any_order_unknowns: any list of fields — known ones in any order and any
   multiplicity, unknown ones of every type anywhere — then STOP, then anything: the read succeeds,
   consumes exactly fields + STOP, and the struct is the receiver with the known fields assigned
   in order ---------- *)
Theorem C11_read_any_order_unknowns_base : SK_exact_statement -> ENC_wf_statement -> forall p its rest,
  forallb (ritem_ok base_schema) its = true -> wf rest ->
  base_read (Some p) (enc_ritems its ++ rest) = Ok (Some (apply_items base_apply p its), len (enc_ritems its)).
Proof. exact base_read_any_order_unknowns. Qed.

Theorem C11_read_any_order_unknowns_baseresp : SK_exact_statement -> ENC_wf_statement -> forall p its rest,
  forallb (ritem_ok baseresp_schema) its = true -> wf rest ->
  baseresp_read (Some p) (enc_ritems its ++ rest) = Ok (Some (apply_items baseresp_apply p its), len (enc_ritems its)).
Proof. exact baseresp_read_any_order_unknowns. Qed.

(* the D3 repair is what makes this one true *)
Theorem C11_read_any_order_unknowns_appex : SK_exact_statement -> ENC_wf_statement -> forall e its rest,
  forallb (ritem_ok appex_schema) its = true -> wf rest ->
  appex_read (Some e) (enc_ritems its ++ rest) =
  Ok (Some (xrec (apply_items appex_apply (xpair e) its)), len (enc_ritems its)).
Proof. exact appex_read_any_order_unknowns. Qed.

(* ... which leaves each known field equal to its LAST occurrence, and untouched if there is none *)
Theorem C11_last_occurrence_base : forall p its,
  let q := apply_items base_apply p its in
  b_logid q = match last_known 1 F_STRING its None with Some v => fstr v | None => b_logid p end /\
  b_caller q = match last_known 2 F_STRING its None with Some v => fstr v | None => b_caller p end /\
  b_addr q = match last_known 3 F_STRING its None with Some v => fstr v | None => b_addr p end /\
  b_extra q = match last_known 6 F_MAP its None with Some v => fmap v | None => b_extra p end.
Proof. exact base_last. Qed.
Theorem C11_last_occurrence_baseresp : forall p its,
  let q := apply_items baseresp_apply p its in
  r_msg q = match last_known 1 F_STRING its None with Some v => fstr v | None => r_msg p end /\
  r_code q = match last_known 2 F_I32 its None with Some v => fi32 v | None => r_code p end /\
  r_extra q = match last_known 3 F_MAP its None with Some v => fmap v | None => r_extra p end.
Proof. exact baseresp_last. Qed.
Theorem C11_last_occurrence_appex : forall e its,
  let q := apply_items appex_apply e its in
  fst q = match last_known 1 F_STRING its None with Some v => fstr v | None => fst e end /\
  snd q = match last_known 2 F_I32 its None with Some v => fi32 v | None => snd e end.
Proof. exact appex_last. Qed.

(* ---------- FastRead on ARBITRARY bytes (reused by C03): never a panic or an out-of-bounds access,
   never reports more than it was given — provided Binary.Skip is safe and bounded ---------- *)
Theorem C11_fastread_total : SK_safe_statement -> SK_bounded_statement -> forall b, wf b ->
  safe (fastread_base b) /\ safe (fastread_baseresp b) /\ safe (fastread_appex b).
Proof.
  intros S B b W.
  exact (conj (fastread_base_total S B b W) (conj (fastread_baseresp_total S B b W) (fastread_appex_total S B b W))).
Qed.
Theorem C11_fastread_bounded : SK_safe_statement -> SK_bounded_statement -> forall b n, wf b ->
  (forall p, fastread_base b = Ok (p, n) -> n <= len b) /\
  (forall p, fastread_baseresp b = Ok (p, n) -> n <= len b) /\
  (forall p, fastread_appex b = Ok (p, n) -> n <= len b).
Proof.
  intros S B b n W.
  exact (conj (fun p => fastread_base_bounded S B b p n W)
              (conj (fun p => fastread_baseresp_bounded S B b p n W) (fun p => fastread_appex_bounded S B b p n W))).
Qed.

(* ---------- non-vacuity ---------- *)
(* a struct satisfying base_ok, with a two-entry map *)
Example C11_nonvacuous_ok :
  base_ok {| b_logid := [1]; b_caller := []; b_addr := [2; 3]; b_extra := Some [([4], [5]); ([6], [])] |} /\
  baseresp_ok {| r_msg := [1]; r_code := (-5)%Z; r_extra := Some [] |} /\
  appex_ok {| x_msg := [7]; x_type := 6%Z |}.
Proof.
  unfold base_ok, baseresp_ok, appex_ok, smap_ok. cbn.
  repeat split; try reflexivity; try (apply in_signedb_spec; reflexivity);
    repeat constructor; cbn; intuition discriminate.
Qed.

(* a field list satisfying ritem_ok: unknown i64 with a KNOWN id (1), the known fields out of order and
   repeated, an unknown nested container, an unknown struct with id 0xFFFF *)
Definition C11_example_items : list ritem :=
  [Unknown 10 1 (ThriftGrammar.VI64 77);
   Known 3 (FStr [9]);
   Unknown 15 6 (ThriftGrammar.VList 13 [ThriftGrammar.VMap 11 8 [(ThriftGrammar.VStr [1], ThriftGrammar.VI32 2)]]);
   Known 1 (FStr [8; 8]);
   Known 6 (FMap [([1], [2]); ([1], [3])]);
   Unknown 12 65535 (ThriftGrammar.VStruct [(2, 1, ThriftGrammar.VBool 1)]);
   Known 3 (FStr [])].
Example C11_nonvacuous_items : forallb (ritem_ok base_schema) C11_example_items = true.
Proof. vm_compute. reflexivity. Qed.
(* and on it the model does what the theorem says (evaluated, no hypothesis) *)
Example C11_nonvacuous_read :
  base_read (Some base_zero) (enc_ritems C11_example_items ++ [255]) =
  Ok (Some (apply_items base_apply base_zero C11_example_items), len (enc_ritems C11_example_items)) /\
  apply_items base_apply base_zero C11_example_items =
  {| b_logid := [8; 8]; b_caller := []; b_addr := []; b_extra := Some [([1], [3])] |}.
Proof. vm_compute. split; reflexivity. Qed.
(* instances of the three statements assumed of Binary.Skip *)
Example C11_SK_instances :
  binary_skip (ThriftGrammar.enc (ThriftGrammar.VList 11 [ThriftGrammar.VStr [1; 2]; ThriftGrammar.VStr []]) ++ [9; 9]) 15 =
    Ok (len (ThriftGrammar.enc (ThriftGrammar.VList 11 [ThriftGrammar.VStr [1; 2]; ThriftGrammar.VStr []]))) /\
  safe (binary_skip [12; 0] 15) /\ (forall n, binary_skip [0; 0; 0; 1; 7; 7] 11 = Ok n -> 1 <= n <= 6) /\
  wf (ThriftGrammar.enc (ThriftGrammar.VList 11 [ThriftGrammar.VStr [1; 2]; ThriftGrammar.VStr []])).
Proof.
  split; [vm_compute; reflexivity|]. split; [vm_compute; exact I|]. split.
  - intros n H. vm_compute in H. inversion H. lia.
  - apply wfbb_wf. vm_compute. reflexivity.
Qed.

(* ---- the premises about thrift.Binary.Skip discharged (coordinator, after merging C02/C08): they
        are C02's exactness theorem, the grammar's byte well-formedness and C08's safety/extent bound
        for the same model Model/Skip.v ---- *)
From GV Require Proofs.GrammarP Proofs.C02P Proofs.SkipP.

Theorem C11_SK_exact : SK_exact_statement.           Proof. exact C02P.bskip_exact. Qed.
Theorem C11_ENC_wf : ENC_wf_statement.               Proof. exact GrammarP.enc_wf. Qed.
Theorem C11_SK_safe : SK_safe_statement.             Proof. exact SkipP.bskip_safe. Qed.
Theorem C11_SK_bounded : SK_bounded_statement.       Proof. exact SkipP.bskip_bounded. Qed.

Theorem C11_read_any_order_unknowns_base_closed : forall p its rest,
  forallb (ritem_ok base_schema) its = true -> wf rest ->
  base_read (Some p) (enc_ritems its ++ rest) = Ok (Some (apply_items base_apply p its), len (enc_ritems its)).
Proof. exact (C11_read_any_order_unknowns_base C11_SK_exact C11_ENC_wf). Qed.

Theorem C11_read_any_order_unknowns_baseresp_closed : forall p its rest,
  forallb (ritem_ok baseresp_schema) its = true -> wf rest ->
  baseresp_read (Some p) (enc_ritems its ++ rest) = Ok (Some (apply_items baseresp_apply p its), len (enc_ritems its)).
Proof. exact (C11_read_any_order_unknowns_baseresp C11_SK_exact C11_ENC_wf). Qed.

Theorem C11_read_any_order_unknowns_appex_closed : forall e its rest,
  forallb (ritem_ok appex_schema) its = true -> wf rest ->
  appex_read (Some e) (enc_ritems its ++ rest) =
  Ok (Some (xrec (apply_items appex_apply (xpair e) its)), len (enc_ritems its)).
Proof. exact (C11_read_any_order_unknowns_appex C11_SK_exact C11_ENC_wf). Qed.

Theorem C11_fastread_total_closed : forall b, wf b ->
  safe (fastread_base b) /\ safe (fastread_baseresp b) /\ safe (fastread_appex b).
Proof. exact (C11_fastread_total C11_SK_safe C11_SK_bounded). Qed.

Theorem C11_fastread_bounded_closed : forall b n, wf b ->
  (forall p, fastread_base b = Ok (p, n) -> n <= len b) /\
  (forall p, fastread_baseresp b = Ok (p, n) -> n <= len b) /\
  (forall p, fastread_appex b = Ok (p, n) -> n <= len b).
Proof. exact (C11_fastread_bounded C11_SK_safe C11_SK_bounded). Qed.

(* ---- Base.FastRead and BaseResp.FastRead REGENERATED FROM THE GO SOURCE on every run (tools/gotrans
        phase 2: the generated k-base.go code with its for loop, switch on id<<8|type, goto error
        labels, map fill; thrift.Binary.Skip as the parameter [xs], discharged below by the hand
        skipper) are proved equal to the hand model (Proofs/GenEquivFast.v); the order- and
        unknown-field-independence theorem therefore holds of the regenerated definitions ---- *)
From GV Require Import Lib.GoSem Gen.Funcs Proofs.GenLib Proofs.GenEquivFast Proofs.GenCorollariesFast.

Theorem C11_gen_base_read_any_order_unknowns : forall en fuel p its rest,
  forallb (ritem_ok base_schema) its = true -> wf rest ->
  glen_ok (enc_ritems its ++ rest) -> (S (length (enc_ritems its ++ rest)) < fuel)%nat ->
  let p' := apply_items base_apply p its in
  exists ex', g_base_Base_FastRead xskip fuel en false (b_logid p) (b_caller p) (b_addr p) (b_extra p) (enc_ritems its ++ rest)
              = Ok (b_logid p', b_caller p', b_addr p', ex', Z.of_N (len (enc_ritems its)), gnil) /\ mequiv ex' (b_extra p').
Proof. intros en. exact (g_base_read_any_order_unknowns xskip xskip_ok en C11_SK_exact C11_ENC_wf). Qed.

Theorem C11_gen_baseresp_read_any_order_unknowns : forall en fuel p its rest,
  forallb (ritem_ok baseresp_schema) its = true -> wf rest ->
  glen_ok (enc_ritems its ++ rest) -> (S (length (enc_ritems its ++ rest)) < fuel)%nat ->
  let p' := apply_items baseresp_apply p its in
  exists ex', g_base_BaseResp_FastRead xskip fuel en false (r_msg p) (r_code p) (r_extra p) (enc_ritems its ++ rest)
              = Ok (r_msg p', r_code p', ex', Z.of_N (len (enc_ritems its)), gnil) /\ mequiv ex' (r_extra p').
Proof. intros en. exact (g_baseresp_read_any_order_unknowns xskip xskip_ok en C11_SK_exact C11_ENC_wf). Qed.

(* ---------- tools/gotrans phase 3: ApplicationException BLength / FastRead / FastWrite(Nocopy), Base / BaseResp BLength / FastWrite(Nocopy), FastMarshal / FastUnmarshal regenerated from the Go source and proved equal to Model/FastCodec.v, Model/Nocopy.v (Proofs/GenEquivAppEx.v, GenEquivNocopy.v, GenEquivFastCodec.v) ---------- *)
From GV Require Import Proofs.GenLib3 Proofs.GenEquivAppEx Proofs.GenEquivNocopy Proofs.GenEquivFastCodec Proofs.GenCorollariesAppEx Proofs.GenCorollariesNocopy Proofs.GenCorollariesFastCodec.

Theorem C11_gen_blen_eq_appex :
  forall (e : appex) (b : bytes), glen_ok b -> len (appex_stream (x_msg e) (x_type e)) <= len b -> let s := appex_stream (x_msg e) (x_type e) in g_thrift_ApplicationException_BLength false (x_type e) (x_msg e) = Ok (x_type e, x_msg e, Z.of_N (len s)) /\ g_thrift_ApplicationException_FastWrite false (x_type e) (x_msg e) b = Ok (x_type e, x_msg e, s ++ drop (len s) b, Z.of_N (len s)) /\ g_thrift_ApplicationException_FastWriteNocopy false (x_type e) (x_msg e) b = Ok (x_type e, x_msg e, s ++ drop (len s) b, Z.of_N (len s)).
Proof. exact (@g_appex_blen_eq). Qed.

Theorem C11_gen_appex_read_ok :
  forall (en : bool) (fuel : nat) (b : bytes) (e e' : appex) (off : N), wf b -> glen_ok b -> (S (Datatypes.length b) < fuel)%nat -> appex_read (Some e) b = Ok (Some e', off) -> g_thrift_ApplicationException_FastRead xskip fuel en false (x_type e) (x_msg e) b = Ok (x_type e', x_msg e', Z.of_N off, gnil).
Proof. exact (fun en => @g_appex_read_ok xskip xskip_ok en). Qed.

Theorem C11_gen_appex_read_err :
  forall (en : bool) (fuel : nat) (b : bytes) (e : appex) (c : Z), wf b -> glen_ok b -> (S (Datatypes.length b) < fuel)%nat -> appex_read (Some e) b = Err c -> c <> e_fuel -> exists (a1 : Z) (a2 : bytes) (a3 : Z), g_thrift_ApplicationException_FastRead xskip fuel en false (x_type e) (x_msg e) b = Ok (a1, a2, a3, Some c).
Proof. exact (fun en => @g_appex_read_err xskip xskip_ok en). Qed.

Theorem C11_gen_rt_appex :
  forall (en : bool) (fuel : nat) (e : appex) (b rest : bytes) (e0 : appex), appex_ok e -> wf (x_msg e) -> wf rest -> glen_ok (b ++ rest) -> (S (Datatypes.length (b ++ rest)) < fuel)%nat -> g_thrift_ApplicationException_BLength false (x_type e) (x_msg e) = Ok (x_type e, x_msg e, Z.of_N (len b)) -> exists bs : bytes, g_thrift_ApplicationException_FastWrite false (x_type e) (x_msg e) b = Ok (x_type e, x_msg e, bs, Z.of_N (len b)) /\ len bs = len b /\ g_thrift_ApplicationException_FastRead xskip fuel en false (x_type e0) (x_msg e0) (bs ++ rest) = Ok (x_type e, x_msg e, Z.of_N (len b), gnil).
Proof. exact (fun en => @g_appex_rt xskip xskip_ok en). Qed.

Theorem C11_gen_appex_read_any_order_unknowns :
  forall (en : bool) (fuel : nat) (e : appex) (its : list ritem) (rest : bytes), forallb (ritem_ok appex_schema) its = true -> wf rest -> glen_ok (enc_ritems its ++ rest) -> (S (Datatypes.length (enc_ritems its ++ rest)) < fuel)%nat -> let e' := xrec (apply_items appex_apply (xpair e) its) in g_thrift_ApplicationException_FastRead xskip fuel en false (x_type e) (x_msg e) (enc_ritems its ++ rest) = Ok (x_type e', x_msg e', Z.of_N (len (enc_ritems its)), gnil).
Proof. exact (fun en => @g_appex_read_any_order_unknowns xskip xskip_ok en C11_SK_exact C11_ENC_wf). Qed.

Theorem C11_gen_blen_eq_base :
  forall (lg cl ad : bytes) (m : gmap bytes bytes) (ord : list bytes) (b : bytes), let p := gbase lg cl ad m ord in gmap_order_ok m ord -> glen_ok b -> base_blength p <= len b -> g_base_Base_BLength false lg cl ad m ord = Ok (lg, cl, ad, m, Z.of_N (len (base_stream p))) /\ g_base_Base_FastWrite false lg cl ad m b ord = Ok (lg, cl, ad, m, base_stream p ++ drop (len (base_stream p)) b, Z.of_N (len (base_stream p))).
Proof. exact (@g_C11_blen_eq_base). Qed.

Theorem C11_gen_blen_eq_baseresp :
  forall (ms : bytes) (cd : Z) (m : gmap bytes bytes) (ord : list bytes) (b : bytes), let p := gresp ms cd m ord in gmap_order_ok m ord -> glen_ok b -> baseresp_blength p <= len b -> g_base_BaseResp_BLength false ms cd m ord = Ok (ms, cd, m, Z.of_N (len (baseresp_stream p))) /\ g_base_BaseResp_FastWrite false ms cd m b ord = Ok (ms, cd, m, baseresp_stream p ++ drop (len (baseresp_stream p)) b, Z.of_N (len (baseresp_stream p))).
Proof. exact (@g_C11_blen_eq_baseresp). Qed.

Theorem C11_gen_blen_any_order :
  forall (lg cl ad ms : bytes) (cd : Z) (m : gmap bytes bytes) (ord ord' : list bytes), gmap_order_ok m ord -> gmap_order_ok m ord' -> (Z.of_N (base_blength (gbase lg cl ad m ord)) < 2 ^ 63)%Z -> (Z.of_N (baseresp_blength (gresp ms cd m ord)) < 2 ^ 63)%Z -> g_base_Base_BLength false lg cl ad m ord = g_base_Base_BLength false lg cl ad m ord' /\ g_base_BaseResp_BLength false ms cd m ord = g_base_BaseResp_BLength false ms cd m ord'.
Proof. exact (@g_C11_blen_any_order). Qed.

Theorem C11_gen_nil_receiver :
  forall (lg cl ad ms : bytes) (cd : Z) (m : gmap bytes bytes) (ord : list bytes) (b : bytes), 1 <= len b -> g_base_Base_BLength true lg cl ad m ord = Ok (lg, cl, ad, m, 1%Z) /\ g_base_Base_FastWrite true lg cl ad m b ord = Ok (lg, cl, ad, m, [0] ++ drop 1 b, 1%Z) /\ g_base_BaseResp_BLength true ms cd m ord = Ok (ms, cd, m, 1%Z) /\ g_base_BaseResp_FastWrite true ms cd m b ord = Ok (ms, cd, m, [0] ++ drop 1 b, 1%Z).
Proof. exact (@g_C11_nil_receiver). Qed.

Theorem C11_gen_rt_base :
  forall (en : bool) (fuel : nat) (lg cl ad : bytes) (m : gmap bytes (list N)) (ord : list bytes) (b : bytes) (rest : list N), let p := {| b_logid := lg; b_caller := cl; b_addr := ad; b_extra := ordered_map beqb [] m ord |} in gmap_order_ok m ord -> base_ok p -> len b = base_blength (Some p) -> wf (base_stream (Some p) ++ rest) -> glen_ok (b ++ rest) -> (S (Datatypes.length (b ++ rest)) < fuel)%nat -> exists (bs : bytes) (ex' : gmap bytes bytes), g_base_Base_FastWrite false lg cl ad m b ord = Ok (lg, cl, ad, m, bs, Z.of_N (len b)) /\ len bs = len b /\ g_base_Base_FastRead xskip fuel en false [] [] [] None (bs ++ rest) = Ok (lg, cl, ad, ex', Z.of_N (len b), gnil) /\ mequiv ex' (ordered_map beqb [] m ord).
Proof. exact (fun en => @g_C11_rt_base xskip xskip_ok en). Qed.

Theorem C11_gen_rt_baseresp :
  forall (en : bool) (fuel : nat) (ms : bytes) (cd : Z) (m : gmap bytes (list N)) (ord : list bytes) (b : bytes) (rest : list N), let p := {| r_msg := ms; r_code := cd; r_extra := ordered_map beqb [] m ord |} in gmap_order_ok m ord -> baseresp_ok p -> len b = baseresp_blength (Some p) -> wf (baseresp_stream (Some p) ++ rest) -> glen_ok (b ++ rest) -> (S (Datatypes.length (b ++ rest)) < fuel)%nat -> exists (bs : bytes) (ex' : gmap bytes bytes), g_base_BaseResp_FastWrite false ms cd m b ord = Ok (ms, cd, m, bs, Z.of_N (len b)) /\ len bs = len b /\ g_base_BaseResp_FastRead xskip fuel en false [] 0 None (bs ++ rest) = Ok (ms, cd, ex', Z.of_N (len b), gnil) /\ mequiv ex' (ordered_map beqb [] m ord).
Proof. exact (fun en => @g_C11_rt_baseresp xskip xskip_ok en). Qed.

Theorem C11_gen_marshal_appex :
  forall (en : bytes) (e : appex), (glen (x_msg e) + 15 < 2 ^ 62)%Z -> g_thrift_FastMarshal ax_St ax_BL ax_FW (xdirty en) (x_type e, x_msg e) = Ok (x_type e, x_msg e, appex_stream (x_msg e) (x_type e)).
Proof. exact (fun en => @g_C11_marshal_appex xskip xskip_ok en). Qed.

Theorem C11_gen_marshal_unmarshal_appex :
  forall (en : bool) (fuel : nat) (dirt : bytes) (e e0 : appex), appex_ok e -> wf (x_msg e) -> (S (Datatypes.length (appex_stream (x_msg e) (x_type e))) < fuel)%nat -> exists bs : bytes, g_thrift_FastMarshal ax_St ax_BL ax_FW (xdirty dirt) (x_type e, x_msg e) = Ok (x_type e, x_msg e, bs) /\ g_thrift_FastUnmarshal ax_St (ax_FR xskip en fuel) bs (x_type e0, x_msg e0) = Ok (x_type e, x_msg e, gnil).
Proof. exact (fun en => @g_C11_marshal_unmarshal_appex xskip xskip_ok en). Qed.

Theorem C11_gen_marshal_base :
  forall (lg cl ad : bytes) (m : gmap bytes bytes) (ord : list bytes) (dirt : bytes), let p := gbase lg cl ad m ord in gmap_order_ok m ord -> (Z.of_N (base_blength p) < 2 ^ 62)%Z -> g_thrift_FastMarshal unit (bs_BL lg cl ad m ord) (bs_FW lg cl ad m ord) (xdirty dirt) tt = Ok (tt, base_stream p).
Proof. exact (@g_C11_marshal_base). Qed.
