(* Properties/C11.v — shipped FastCodec structs: exact length, round trip, unknown fields skipped.
   Only statements; every proof is [exact <lemma>] from Proofs/FastCodecP.v. *)
From GV Require Import Lib.Bytes Lib.Res Gen.Consts Model.Binary Spec.Wire Model.Nocopy Model.FastCodec
                       Spec.FastSpec Spec.FastRead Proofs.FastCodecP.
Open Scope N_scope.

Theorem C11_consts_ok :
  base_Base_FastWriteNocopy_fields = [(11, 1); (11, 2); (11, 3); (13, 6)]%Z /\
  base_Base_FastWriteNocopy_mapkv = [(11, 11)]%Z /\
  base_Base_FastRead_cases = [267; 523; 779; 1549]%Z /\
  base_BaseResp_FastWriteNocopy_fields = [(11, 1); (8, 2); (13, 3)]%Z /\
  base_BaseResp_FastWriteNocopy_mapkv = [(11, 11)]%Z /\
  base_BaseResp_FastRead_cases = [267; 520; 781]%Z /\
  thrift_ApplicationException_FastWrite_fields = [(11, 1); (8, 2)]%Z /\
  thrift_ApplicationException_FastRead_conds = [[1; 11]; [2; 8]]%Z.
Proof. exact fast_consts_ok. Qed.
