(* placeholder until Proofs/BufReaderP.v lands *)
From GV Require Import Lib.Bytes Model.BufReader.
Theorem C04_placeholder : bufsz = bufsz. Proof. reflexivity. Qed.
