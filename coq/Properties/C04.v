(* Properties/C04.v — the buffered reader delivers the source bytes exactly, in order
   (bufiox/defaultbuf.go: DefaultReader, BytesReader; bufiox/bufreader.go).
   Only statements; proofs are in Proofs/BufReaderP.v.

   Quantification: every source = (data, final error value, error-with-last-bytes flag, fragmentation
   script: any list of chunk sizes incl. 0 = empty read; exhausted script = as much as fits), every
   history of Next/Peek/Skip/ReadBinary/ReadLen/Release with any integer arguments, both constructors.
   Sizes are mathematical integers (64-bit int and "allocation never fails" are assumptions of the
   model, DESIGN 7); bufsz and the empty-read bound come from Gen/Consts.v and only their positivity
   is used.

   Vocabulary:  seg_at D c n = take n (drop c D)   — the n stream bytes at position c;
                may_stall CH = the script contains max_empty consecutive zeros;
                RInv D F CH c st = "st is a reader state over stream D (final error F, script CH) with the
                cursor at c" (Proofs/BufReaderP.v, Inv);
                fails D F CH c n e = (e = F and fewer than n bytes exist after c)
                                     or (e = io.ErrNoProgress and the script can stall). *)
From GV Require Import Lib.Bytes Lib.Res Gen.Consts Model.BufReader Spec.Cursor Proofs.BufReaderP.
Open Scope N_scope.

(* ---- refinement of the executable cursor specification, every history, every source ---- *)
Theorem C04_reader_refines_cursor : forall s ops, spos s = 0 ->
  cursor_run (sdata s) (sfinal s) (schunks s) cursor0 ops (snd (r_run (new_reader s) ops)) = true.
Proof. exact reader_refines_cursor. Qed.

Theorem C04_bytes_reader_refines_cursor : forall data bcap ops, len data <= bcap ->
  cursor_run data e_eof [] cursor0 ops (snd (r_run (new_bytes_reader data bcap) ops)) = true.
Proof. exact bytes_reader_refines_cursor. Qed.

(* ---- the invariant: initially, and after every operation of every history ---- *)
Theorem C04_inv_init_reader : forall s, spos s = 0 -> RInv (sdata s) (sfinal s) (schunks s) 0 (new_reader s).
Proof. exact rinv_new_reader. Qed.

Theorem C04_inv_init_bytes_reader : forall data bcap, len data <= bcap ->
  RInv data e_eof [] 0 (new_bytes_reader data bcap).
Proof. exact rinv_new_bytes_reader. Qed.

Theorem C04_inv_step : forall D F CH c st o st' out,
  RInv D F CH c st -> r_step st o = (st', out) -> exists c', c <= c' /\ RInv D F CH c' st'.
Proof. exact rinv_step. Qed.

Theorem C04_inv_history : forall D F CH ops c st st' outs,
  RInv D F CH c st -> r_run st ops = (st', outs) -> exists c', c <= c' /\ RInv D F CH c' st'.
Proof. exact rinv_run. Qed.

(* ---- Next: exactly the n stream bytes at the cursor (cursor and ReadLen advance by n), or an error and
        then cursor and ReadLen are unchanged ---- *)
Theorem C04_next_exact_or_error : forall D F CH c st n st' out,
  RInv D F CH c st -> (0 <= n)%Z -> r_next st n = (st', out) ->
  (out = OBytes (seg_at D c (Z.to_N n)) /\ len (seg_at D c (Z.to_N n)) = Z.to_N n /\ c + Z.to_N n <= len D /\
   RInv D F CH (c + Z.to_N n) st' /\ r_readlen st' = r_readlen st + Z.to_N n) \/
  (exists e, out = OErr e /\ fails D F CH c (Z.to_N n) e /\ RInv D F CH c st' /\ r_readlen st' = r_readlen st).
Proof. exact rinv_next. Qed.

(* ---- Peek: the same bytes; never moves the cursor, never changes ReadLen ---- *)
Theorem C04_peek_never_advances : forall D F CH c st n st' out,
  RInv D F CH c st -> (0 <= n)%Z -> r_peek st n = (st', out) ->
  RInv D F CH c st' /\ r_readlen st' = r_readlen st /\
  ((out = OBytes (seg_at D c (Z.to_N n)) /\ len (seg_at D c (Z.to_N n)) = Z.to_N n /\ c + Z.to_N n <= len D) \/
   (exists e, out = OErr e /\ fails D F CH c (Z.to_N n) e)).
Proof. exact rinv_peek. Qed.

(* ---- Skip: moves by n, or fails with an error and stays ---- *)
Theorem C04_skip_exact_or_error : forall D F CH c st n st' out,
  RInv D F CH c st -> (0 <= n)%Z -> r_skip st n = (st', out) ->
  (out = OUnit /\ c + Z.to_N n <= len D /\ RInv D F CH (c + Z.to_N n) st' /\
   r_readlen st' = r_readlen st + Z.to_N n) \/
  (exists e, out = OErr e /\ fails D F CH c (Z.to_N n) e /\ RInv D F CH c st' /\ r_readlen st' = r_readlen st).
Proof. exact rinv_skip. Qed.

(* ---- ReadBinary(k-byte slice): m <= k, the m bytes copied are the stream bytes at the cursor, cursor and
        ReadLen advance by exactly m, and m < k only together with an error ---- *)
Theorem C04_readbinary_exact : forall D F CH c st k st' out,
  RInv D F CH c st -> r_readbinary st k = (st', out) ->
  exists m, m <= k /\ c + m <= len D /\ len (seg_at D c m) = m /\
    RInv D F CH (c + m) st' /\ r_readlen st' = r_readlen st + m /\
    ((m = k /\ out = ORead k (seg_at D c k) None) \/
     (m < k /\ exists e, out = ORead m (seg_at D c m) (Some e) /\ fails D F CH c k e)).
Proof. exact rinv_readbinary. Qed.

(* ---- negative counts are rejected without touching the state ---- *)
Theorem C04_negative_count : forall st n, (n < 0)%Z ->
  r_next st n = (st, OErr e_negcount) /\ r_peek st n = (st, OErr e_negcount) /\ r_skip st n = (st, OErr e_negcount).
Proof. exact negative_count. Qed.

(* ---- Release keeps the cursor and resets ReadLen: ReadLen = bytes consumed since the last Release ---- *)
Theorem C04_release_resets_readlen : forall D F CH c st,
  RInv D F CH c st -> RInv D F CH c (r_release st) /\ r_readlen (r_release st) = 0.
Proof. exact rinv_release. Qed.

(* ---- (nil, nil) is never produced (D5), by any operation in any reachable state ---- *)
Theorem C04_never_nil_nil : forall D F CH c st o st',
  RInv D F CH c st -> r_step st o <> (st', ONil).
Proof. exact rinv_never_nil. Qed.

(* ---- the error surfaced is the source's own final error (then fewer than n bytes are left) or
        no-progress (then the script contains max_empty consecutive empty reads); it is non-nil whenever
        the source's error is ---- *)
Theorem C04_error_provenance : forall D F CH c n e, fails D F CH c n e ->
  (e = F /\ len D < c + n) \/ (e = e_noprogress /\ may_stall CH = true).
Proof. exact fails_unfold. Qed.

Theorem C04_error_non_nil : forall D F CH c n e, fails D F CH c n e -> F <> 0%Z -> e <> 0%Z.
Proof. exact fails_nonnil. Qed.

(* ---- progress: under a script with no run of max_empty zeros, a request that fits in the rest of the
        stream succeeds (1-byte reads, short reads, up to max_empty-1 consecutive empty reads: D5) ---- *)
Theorem C04_fitting_request_succeeds : forall D F CH c st n,
  RInv D F CH c st -> may_stall CH = false -> c + n <= len D ->
  (exists st', r_next st (Z.of_N n) = (st', OBytes (seg_at D c n)) /\ RInv D F CH (c + n) st') /\
  (exists st', r_peek st (Z.of_N n) = (st', OBytes (seg_at D c n)) /\ RInv D F CH c st') /\
  (exists st', r_skip st (Z.of_N n) = (st', OUnit) /\ RInv D F CH (c + n) st') /\
  (exists st', r_readbinary st n = (st', ORead n (seg_at D c n) None) /\ RInv D F CH (c + n) st').
Proof. exact fitting_request_succeeds. Qed.

(* ---- a request that does not fit fails (it never returns short or foreign bytes) ---- *)
Theorem C04_overlong_request_fails : forall D F CH c st n,
  RInv D F CH c st -> len D < c + n ->
  exists st' e, r_next st (Z.of_N n) = (st', OErr e) /\ fails D F CH c n e /\ RInv D F CH c st'.
Proof. exact overlong_request_fails. Qed.

(* ---- fuel: the read loop of acquireSlow never runs out of fuel (any larger fuel gives the same result) ---- *)
Theorem C04_loop_fuel_never_exhausted : forall D F CH c st n extra,
  RInv D F CH c st -> len (win st) < n ->
  let st2 := grow_phase (alloc_phase st n) n in
  let s := src st2 in let c0 := cur_of s in
  read_loop (sfinal s) (swith s) (cap st2) (ri st2) n (loop_fuel c0 + extra) O c0 [] (len (win st2)) =
  read_loop (sfinal s) (swith s) (cap st2) (ri st2) n (loop_fuel c0) O c0 [] (len (win st2)).
Proof. exact rinv_loop_fuel_ok. Qed.

(* ---- room: after the allocate/grow phases of acquireSlow the buffer can hold the whole request, so every
        Read of the loop is offered at least one byte while the request is unsatisfied (an empty read is
        never the reader's own doing) ---- *)
Theorem C04_room_for_request : forall D F CH c st n,
  RInv D F CH c st -> len (win st) < n ->
  let st2 := grow_phase (alloc_phase st n) n in
  win st2 = win st /\ ri st2 = ri st /\ ri st2 + n <= cap st2 /\
  (forall wl, wl < n -> 0 < cap st2 - (ri st2 + wl)).
Proof. exact rinv_room. Qed.

(* ---- the loop's source cursor is the reference source semantics src_read (DESIGN 4) ---- *)
Theorem C04_cursor_read_is_src_read : forall s room bs m e c',
  cur_read (sfinal s) (swith s) (cur_of s) room = (bs, m, e, c') ->
  src_read s room = (bs, e, src_at s c') /\ cur_of (src_at s c') = c'.
Proof. exact cur_read_src_read. Qed.

(* ---- non-vacuity ---- *)
(* the hypotheses are satisfiable: a source at position 0; a script that cannot stall; a request that fits *)
Example C04_nonvacuous_hyps :
  let s := {| sdata := pat 3 10; sfinal := e_eof; swith := true; schunks := [1; 0; 0; 3]; spos := 0 |} in
  spos s = 0 /\ may_stall (schunks s) = false /\ 0 + 4 <= len (sdata s) /\
  RInv (sdata s) (sfinal s) (schunks s) 0 (new_reader s) /\ len [1; 2; 3] <= 5.
Proof.
  cbv zeta. split; [reflexivity|]. split; [vm_compute; reflexivity|]. split; [vm_compute; discriminate|].
  split; [apply rinv_new_reader; reflexivity|vm_compute; discriminate].
Qed.

(* a script that can stall exists too (100 consecutive empty reads), and then the model reports
   no-progress, not (nil, nil) *)
Example C04_stall_is_no_progress :
  let s := {| sdata := pat 2 10; sfinal := e_eof; swith := false; schunks := repeat 0 100 ++ [5]; spos := 0 |} in
  may_stall (schunks s) = true /\ snd (r_next (new_reader s) 4) = OErr e_noprogress.
Proof. vm_compute. split; reflexivity. Qed.

(* the D4 witness (DESIGN 1.1): "0123456789" delivered together with io.EOF; ReadBinary(4) reports 4,
   ReadLen 4, and the other 6 bytes stay readable *)
Example C04_D4_witness :
  let s := {| sdata := [48;49;50;51;52;53;54;55;56;57]; sfinal := e_eof; swith := true; schunks := []; spos := 0 |} in
  snd (r_run (new_reader s) [RReadBinary 4; RReadLen; RReadBinary 6; RReadLen]) =
  [ORead 4 [48;49;50;51] None; OLen 4; ORead 6 [52;53;54;55;56;57] None; OLen 10].
Proof. vm_compute. reflexivity. Qed.

(* the D5 witness: a source delivering one byte per Read; Next(bufsz+1) succeeds with exactly those bytes *)
Example C04_D5_witness :
  let s := {| sdata := pat 1 5000; sfinal := e_eof; swith := false; schunks := repeat 1 (N.to_nat 5002); spos := 0 |} in
  snd (r_next (new_reader s) (Z.of_N (bufsz + 1))) = OBytes (pat 1 (bufsz + 1)).
Proof. vm_compute. reflexivity. Qed.

(* ---------- tools/gotrans phase 4: bufiox.DefaultReader (reset, acquireSlow, acquire, Next, Peek, Skip, ReadBinary, ReadLen, Release) and maxSizeStats regenerated from bufiox/defaultbuf.go and proved to refine Model/BufReader.v under the abstraction abs (Proofs/GenEquivBufReader.v), per operation and over every history; mal / fr are any allocator models that satisfy malloc_ok / free_ok (the contract of mcache.Malloc / Free at this level); the headline theorems therefore hold of the regenerated definitions ---------- *)
From GV Require Import Lib.GoSem Gen.Funcs Proofs.GenLib Proofs.GenLib3 Proofs.GenLib4 Proofs.GenEquivBufReader.
From GV Require Proofs.GenCorollariesBufio.

Theorem C04_gen_next_exact_or_error :
  forall (M : Type) (mal : M -> Z -> Z -> res (M * gcslice)) (fuel : nat), malloc_ok mal -> (64 < fuel)%nat -> forall (D : bytes) (F : Z) (CH : list N) (c : N) (g : gst) (n : Z) (mst : M), RInv D F CH c (abs g) -> GenCorollariesBufio.pre fuel g n -> 0 <= n -> exists (g' : gst) (mst' : M) (b : bytes) (e : gerror), g_bufiox_DefaultReader_Next source rd_read M mal fuel false (g_buf g) (g_ro g) (g_pend g) (g_src g) (g_ri g) (g_err g) (g_bk g) (g_bi g) n mst = Ok (gret g', mst', b, e) /\ gwf g' /\ (b = seg_at D c (Z.to_N n) /\ e = None /\ len b = Z.to_N n /\ (c + Z.to_N n <= len D)%N /\ RInv D F CH (c + Z.to_N n) (abs g') /\ GenCorollariesBufio.g_readlen g' = GenCorollariesBufio.g_readlen g + n \/ (exists ev : Z, b = [] /\ e = Some ev /\ fails D F CH c (Z.to_N n) ev /\ RInv D F CH c (abs g') /\ GenCorollariesBufio.g_readlen g' = GenCorollariesBufio.g_readlen g)).
Proof. exact (@GenCorollariesBufio.g_C04_next_exact_or_error). Qed.

Theorem C04_gen_peek_never_advances :
  forall (M : Type) (mal : M -> Z -> Z -> res (M * gcslice)) (fuel : nat), malloc_ok mal -> (64 < fuel)%nat -> forall (D : bytes) (F : Z) (CH : list N) (c : N) (g : gst) (n : Z) (mst : M), RInv D F CH c (abs g) -> GenCorollariesBufio.pre fuel g n -> 0 <= n -> exists (g' : gst) (mst' : M) (b : bytes) (e : gerror), g_bufiox_DefaultReader_Peek source rd_read M mal fuel false (g_buf g) (g_ro g) (g_pend g) (g_src g) (g_ri g) (g_err g) (g_bk g) (g_bi g) n mst = Ok (gret g', mst', b, e) /\ gwf g' /\ RInv D F CH c (abs g') /\ GenCorollariesBufio.g_readlen g' = GenCorollariesBufio.g_readlen g /\ (b = seg_at D c (Z.to_N n) /\ e = None /\ len b = Z.to_N n /\ (c + Z.to_N n <= len D)%N \/ (exists ev : Z, b = [] /\ e = Some ev /\ fails D F CH c (Z.to_N n) ev)).
Proof. exact (@GenCorollariesBufio.g_C04_peek_never_advances). Qed.

Theorem C04_gen_skip_exact_or_error :
  forall (M : Type) (mal : M -> Z -> Z -> res (M * gcslice)) (fuel : nat), malloc_ok mal -> (64 < fuel)%nat -> forall (D : bytes) (F : Z) (CH : list N) (c : N) (g : gst) (n : Z) (mst : M), RInv D F CH c (abs g) -> GenCorollariesBufio.pre fuel g n -> 0 <= n -> exists (g' : gst) (mst' : M) (e : gerror), g_bufiox_DefaultReader_Skip source rd_read M mal fuel false (g_buf g) (g_ro g) (g_pend g) (g_src g) (g_ri g) (g_err g) (g_bk g) (g_bi g) n mst = Ok (gret g', mst', e) /\ gwf g' /\ (e = None /\ (c + Z.to_N n <= len D)%N /\ RInv D F CH (c + Z.to_N n) (abs g') /\ GenCorollariesBufio.g_readlen g' = GenCorollariesBufio.g_readlen g + n \/ (exists ev : Z, e = Some ev /\ fails D F CH c (Z.to_N n) ev /\ RInv D F CH c (abs g') /\ GenCorollariesBufio.g_readlen g' = GenCorollariesBufio.g_readlen g)).
Proof. exact (@GenCorollariesBufio.g_C04_skip_exact_or_error). Qed.

Theorem C04_gen_readbinary_exact :
  forall (M : Type) (mal : M -> Z -> Z -> res (M * gcslice)) (fuel : nat), malloc_ok mal -> (64 < fuel)%nat -> forall (D : bytes) (F : Z) (CH : list N) (c : N) (g : gst) (bs : bytes) (mst : M), RInv D F CH c (abs g) -> GenCorollariesBufio.pre fuel g (glen bs) -> exists (g' : gst) (mst' : M) (m : N) (e : gerror), (m <= len bs)%N /\ (c + m <= len D)%N /\ len (seg_at D c m) = m /\ g_bufiox_DefaultReader_ReadBinary source rd_read M mal fuel false (g_buf g) (g_ro g) (g_pend g) (g_src g) (g_ri g) (g_err g) (g_bk g) (g_bi g) bs mst = Ok (gret g', seg_at D c m ++ drop m bs, mst', Z.of_N m, e) /\ gwf g' /\ RInv D F CH (c + m) (abs g') /\ GenCorollariesBufio.g_readlen g' = GenCorollariesBufio.g_readlen g + Z.of_N m /\ (m = len bs /\ e = None \/ (m < len bs)%N /\ (exists ev : Z, e = Some ev /\ fails D F CH c (len bs) ev)).
Proof. exact (@GenCorollariesBufio.g_C04_readbinary_exact). Qed.

Theorem C04_gen_negative_count :
  forall (M : Type) (mal : M -> Z -> Z -> res (M * gcslice)) (fuel : nat), (64 < fuel)%nat -> forall (g : gst) (n : Z) (mst : M), n < 0 -> g_bufiox_DefaultReader_Next source rd_read M mal fuel false (g_buf g) (g_ro g) (g_pend g) (g_src g) (g_ri g) (g_err g) (g_bk g) (g_bi g) n mst = Ok (gret g, mst, [], Some e_negcount) /\ g_bufiox_DefaultReader_Peek source rd_read M mal fuel false (g_buf g) (g_ro g) (g_pend g) (g_src g) (g_ri g) (g_err g) (g_bk g) (g_bi g) n mst = Ok (gret g, mst, [], Some e_negcount) /\ g_bufiox_DefaultReader_Skip source rd_read M mal fuel false (g_buf g) (g_ro g) (g_pend g) (g_src g) (g_ri g) (g_err g) (g_bk g) (g_bi g) n mst = Ok (gret g, mst, Some e_negcount).
Proof. exact (@GenCorollariesBufio.g_C04_negative_count). Qed.

Theorem C04_gen_release_resets_readlen :
  forall (M : Type) (fr : M -> gcslice -> res M) (fuel : nat), free_ok fr -> (64 < fuel)%nat -> forall (D : bytes) (F : Z) (CH : list N) (c : N) (g : gst) (e : gerror) (mst : M), RInv D F CH c (abs g) -> gwf g -> gcs_cap (g_buf g) < 2 ^ 62 -> exists (g' : gst) (mst' : M), g_bufiox_DefaultReader_Release source M fr false (g_buf g) (g_ro g) (g_pend g) (g_src g) (g_ri g) (g_err g) (g_bk g) (g_bi g) e mst = Ok (gret g', mst', gnil) /\ gwf g' /\ RInv D F CH c (abs g') /\ GenCorollariesBufio.g_readlen g' = 0.
Proof. exact (@GenCorollariesBufio.g_C04_release_resets_readlen). Qed.

Theorem C04_gen_inv_history :
  forall (M : Type) (mal : M -> Z -> Z -> res (M * gcslice)) (fr : M -> gcslice -> res M) (fuel : nat), malloc_ok mal -> free_ok fr -> (64 < fuel)%nat -> forall (D : bytes) (F : Z) (CH : list N) (ops : list rop) (c : N) (g : gst) (mst : M), RInv D F CH c (abs g) -> gwf g -> fuel_ok fuel g -> run_small (abs g) ops -> exists (g' : gst) (mst' : M) (outs : list rout) (c' : N), g_run mal fr fuel (g, mst) ops = Ok (g', mst', map (fun p : rop * rout => obs_of (fst p) (snd p)) (combine ops outs)) /\ Datatypes.length outs = Datatypes.length ops /\ gwf g' /\ (c <= c')%N /\ RInv D F CH c' (abs g').
Proof. exact (@GenCorollariesBufio.g_C04_inv_history). Qed.

Theorem C04_gen_reader_refines_cursor :
  forall (M : Type) (mal : M -> Z -> Z -> res (M * gcslice)) (fr : M -> gcslice -> res M) (fuel : nat), malloc_ok mal -> free_ok fr -> (64 < fuel)%nat -> forall (s : source) (ops : list rop) (mst : M), spos s = 0%N -> (loop_fuel (cur_of s) <= fuel)%nat -> run_small (new_reader s) ops -> exists (g' : gst) (mst' : M) (outs : list rout), g_run mal fr fuel (g_fresh s gcs_nil, mst) ops = Ok (g', mst', map (fun p : rop * rout => obs_of (fst p) (snd p)) (combine ops outs)) /\ Datatypes.length outs = Datatypes.length ops /\ cursor_run (sdata s) (sfinal s) (schunks s) cursor0 ops outs = true.
Proof. exact (@GenCorollariesBufio.g_C04_reader_refines_cursor). Qed.

Theorem C04_gen_bytes_reader_refines_cursor :
  forall (M : Type) (mal : M -> Z -> Z -> res (M * gcslice)) (fr : M -> gcslice -> res M) (fuel : nat), malloc_ok mal -> free_ok fr -> (64 < fuel)%nat -> forall (mem : bytes) (l : N) (ops : list rop) (mst : M), (l <= len mem)%N -> run_small (new_bytes_reader (take l mem) (len mem)) ops -> exists (g' : gst) (mst' : M) (outs : list rout), g_run mal fr fuel (g_fresh fake_source (Some (mem, Z.of_N l)), mst) ops = Ok (g', mst', map (fun p : rop * rout => obs_of (fst p) (snd p)) (combine ops outs)) /\ Datatypes.length outs = Datatypes.length ops /\ cursor_run (take l mem) e_eof [] cursor0 ops outs = true.
Proof. exact (@GenCorollariesBufio.g_C04_bytes_reader_refines_cursor). Qed.

Theorem C04_gen_fitting_next_succeeds :
  forall (M : Type) (mal : M -> Z -> Z -> res (M * gcslice)) (fuel : nat), malloc_ok mal -> (64 < fuel)%nat -> forall (D : bytes) (F : Z) (CH : list N) (c : N) (g : gst) (n : N) (mst : M), RInv D F CH c (abs g) -> GenCorollariesBufio.pre fuel g (Z.of_N n) -> may_stall CH = false -> (c + n <= len D)%N -> exists (g' : gst) (mst' : M), g_bufiox_DefaultReader_Next source rd_read M mal fuel false (g_buf g) (g_ro g) (g_pend g) (g_src g) (g_ri g) (g_err g) (g_bk g) (g_bi g) (Z.of_N n) mst = Ok (gret g', mst', seg_at D c n, None) /\ gwf g' /\ RInv D F CH (c + n) (abs g').
Proof. exact (@GenCorollariesBufio.g_C04_fitting_next_succeeds). Qed.

Theorem C04_gen_overlong_next_fails :
  forall (M : Type) (mal : M -> Z -> Z -> res (M * gcslice)) (fuel : nat), malloc_ok mal -> (64 < fuel)%nat -> forall (D : bytes) (F : Z) (CH : list N) (c : N) (g : gst) (n : N) (mst : M), RInv D F CH c (abs g) -> GenCorollariesBufio.pre fuel g (Z.of_N n) -> (len D < c + n)%N -> exists (g' : gst) (mst' : M) (ev : Z), g_bufiox_DefaultReader_Next source rd_read M mal fuel false (g_buf g) (g_ro g) (g_pend g) (g_src g) (g_ri g) (g_err g) (g_bk g) (g_bi g) (Z.of_N n) mst = Ok (gret g', mst', [], Some ev) /\ gwf g' /\ fails D F CH c n ev /\ RInv D F CH c (abs g').
Proof. exact (@GenCorollariesBufio.g_C04_overlong_next_fails). Qed.
