(* Properties/C17.v — decode failures carry the Thrift exception type for their cause
   (groundwork: the in-memory thrift.Binary readers, ReadMessageBegin, and the stream reader's
   wrapping of source errors; the skip entry points are added from the skipper models).
   Only statements; every proof is [exact <lemma>] from Proofs/ErrTypesP.v. *)
From GV Require Import Lib.Bytes Lib.Res Gen.Consts Model.Binary Model.BufReader Model.ErrTypes Spec.ErrKinds
     Proofs.ErrTypesP.
Open Scope N_scope.

(* the exception codes the property names, as exception.go defines them now *)
Theorem C17_codes :
  thrift_INVALID_DATA = 1%Z /\ thrift_NEGATIVE_SIZE = 2%Z /\ thrift_BAD_VERSION = 4%Z /\
  thrift_DEPTH_LIMIT = 6%Z /\ thrift_UNKNOWN_PROTOCOL_EXCEPTION = 0%Z.
Proof. exact consts_ok_errtypes. Qed.

(* the type id of every predeclared error value of binary.go / exception.go *)
Theorem C17_predeclared_types :
  etype e_read_message = thrift_INVALID_DATA /\ etype e_bad_version = thrift_BAD_VERSION /\
  etype e_read_field = thrift_INVALID_DATA /\ etype e_read_map = thrift_INVALID_DATA /\
  etype e_read_list = thrift_INVALID_DATA /\ etype e_read_set = thrift_INVALID_DATA /\
  etype e_read_str = thrift_INVALID_DATA /\ etype e_read_bin = thrift_INVALID_DATA /\
  etype e_read_bool = thrift_INVALID_DATA /\ etype e_read_byte = thrift_INVALID_DATA /\
  etype e_read_i16 = thrift_INVALID_DATA /\ etype e_read_i32 = thrift_INVALID_DATA /\
  etype e_read_i64 = thrift_INVALID_DATA /\ etype e_read_double = thrift_INVALID_DATA /\
  etype e_depth = thrift_DEPTH_LIMIT /\ etype e_too_short = thrift_INVALID_DATA /\
  etype e_neg_size = thrift_NEGATIVE_SIZE /\ etype e_unknown_type = thrift_INVALID_DATA.
Proof. exact etype_values. Qed.

(* readers (every kind, every byte string): every error carries the type id its cause demands —
   truncation => INVALID_DATA, negative length => NEGATIVE_SIZE — where the cause is classified
   from the bytes alone (Spec/ErrKinds.v) *)
Theorem C17_reader_err_typed : forall k buf c,
  r_item k buf = Err c -> exists cz, ref_cause k buf = Some cz /\ etype c = cause_type cz.
Proof. exact r_item_err_cause. Qed.

(* ... they succeed exactly on a complete item, and never panic *)
Theorem C17_reader_ok_iff : forall k buf, ref_cause k buf = None <-> exists v, r_item k buf = Ok v.
Proof. exact r_item_ok_iff. Qed.

Theorem C17_reader_safe : forall k buf, safe (r_item k buf).
Proof. exact r_item_safe. Qed.

(* Binary.ReadMessageBegin: every error carries the type id its cause demands — truncation =>
   INVALID_DATA, bad version word => BAD_VERSION, negative name length => NEGATIVE_SIZE.  (The last
   clause was refuted by the code as first found — "80 01 00 01 ff ff ff ff" was reported as
   INVALID_DATA — and holds since the repair /repo 0c7ba6f; the witness is a corpus regression.) *)
Theorem C17_message_begin_err_typed : forall buf c,
  r_message_begin buf = Err c ->
  exists cz, ref_msg buf = Some cz /\ etype c = cause_type cz.
Proof. exact msg_err_typed. Qed.

Theorem C17_message_begin_negative_name_regression :
  r_message_begin [128; 1; 0; 1; 255; 255; 255; 255] = Err e_neg_size /\ etype e_neg_size = thrift_NEGATIVE_SIZE.
Proof. exact msg_negative_name_regression. Qed.

Theorem C17_message_begin_ok_iff : forall buf, ref_msg buf = None <-> exists v, r_message_begin buf = Ok v.
Proof. exact msg_ok_iff. Qed.

(* stream reader: a wrapped error is found by errors.Is / errors.Unwrap *)
Theorem C17_wrap_matches : forall x,
  s_is (SWrap x) x = true /\ s_unwrap (SWrap x) = Some x /\
  s_typeid (SWrap x) = thrift_UNKNOWN_PROTOCOL_EXCEPTION.
Proof. exact s_wrap_matches. Qed.

(* stream_err_wraps: every failure of a stream item reader is NEGATIVE_SIZE (the reader's own
   check, binary/string only) or wraps the error the bufiox reader holds (io.EOF, the source's
   error, io.ErrNoProgress: C04 says which) *)
Theorem C17_stream_err_wraps : forall k st st' e,
  s_item k st = (st', SErr e) ->
  (e = SProto thrift_NEGATIVE_SIZE /\ (k = KBinary \/ k = KString)) \/
  (exists x, e = SWrap x /\ rerr st' = Some x).
Proof. exact s_item_err. Qed.

Theorem C17_stream_message_begin_err : forall st st' e,
  s_message_begin st = (st', SErr e) ->
  e = SProto thrift_BAD_VERSION \/ e = SProto thrift_NEGATIVE_SIZE \/
  (exists x, e = SWrap x /\ rerr st' = Some x).
Proof. exact s_message_begin_err. Qed.

(* non-vacuity: each cause occurs *)
Example C17_causes_occur :
  ref_cause KI32 [1; 2; 3] = Some CTrunc /\ r_item KI32 [1; 2; 3] = Err e_read_i32 /\
  ref_cause KString [255; 255; 255; 255] = Some CNeg /\ r_item KString [255; 255; 255; 255] = Err e_neg_size /\
  ref_msg [128; 2; 0; 1; 0; 0; 0; 0; 0; 0; 0; 0] = Some CBadVersion /\
  r_message_begin [128; 2; 0; 1; 0; 0; 0; 0; 0; 0; 0; 0] = Err e_bad_version /\
  ref_msg [128; 1; 0; 1; 0; 0; 0; 0; 0; 0; 0; 7] = None.
Proof. repeat split; reflexivity. Qed.

Example C17_stream_wrap_occurs :
  snd (s_item KI32 (new_reader {| sdata := [1; 2]; sfinal := e_eof; swith := false; schunks := []; spos := 0 |}))
  = SErr (SWrap e_eof).
Proof. vm_compute. reflexivity. Qed.
