(* Properties/C17.v — decode failures carry the Thrift exception type for their cause:
   the in-memory thrift.Binary readers, ReadMessageBegin, the stream reader's wrapping of source
   errors, and the skippers (Binary.Skip; BytesSkipDecoder / SkipDecoder / ReaderSkipDecoder;
   BufferReader.Skip).
   Only statements; every proof is [exact <lemma>] from Proofs/ErrTypesP.v, ErrTypesSkip*.v. *)
From GV Require Import Lib.Bytes Lib.Res Gen.Consts Model.Binary Model.BufReader Model.ErrTypes Spec.ErrKinds
     Proofs.ErrTypesP.
From GV Require Spec.ThriftGrammar.
From GV Require Import Model.Skip Model.StreamSkip Model.SkipDecoders Spec.RefParse Spec.SkipCauses
     Proofs.StreamSkipInst Proofs.ErrTypesSkipP Proofs.ErrTypesSkipExactP Proofs.ErrTypesSkipStreamP Proofs.ErrTypesSkipInst.
Open Scope N_scope.

(* the exception codes the property names, as exception.go defines them now *)
Theorem C17_codes :
  thrift_INVALID_DATA = 1%Z /\ thrift_NEGATIVE_SIZE = 2%Z /\ thrift_BAD_VERSION = 4%Z /\
  thrift_DEPTH_LIMIT = 6%Z /\ thrift_UNKNOWN_PROTOCOL_EXCEPTION = 0%Z.
Proof. exact consts_ok_errtypes. Qed.

(* the type id of every predeclared error value of binary.go / exception.go *)
Theorem C17_predeclared_types :
  etype e_read_message = thrift_INVALID_DATA /\ etype e_bad_version = thrift_BAD_VERSION /\
  etype e_read_field = thrift_INVALID_DATA /\ etype e_read_map = thrift_INVALID_DATA /\
  etype e_read_list = thrift_INVALID_DATA /\ etype e_read_set = thrift_INVALID_DATA /\
  etype e_read_str = thrift_INVALID_DATA /\ etype e_read_bin = thrift_INVALID_DATA /\
  etype e_read_bool = thrift_INVALID_DATA /\ etype e_read_byte = thrift_INVALID_DATA /\
  etype e_read_i16 = thrift_INVALID_DATA /\ etype e_read_i32 = thrift_INVALID_DATA /\
  etype e_read_i64 = thrift_INVALID_DATA /\ etype e_read_double = thrift_INVALID_DATA /\
  etype e_depth = thrift_DEPTH_LIMIT /\ etype e_too_short = thrift_INVALID_DATA /\
  etype e_neg_size = thrift_NEGATIVE_SIZE /\ etype e_unknown_type = thrift_INVALID_DATA.
Proof. exact etype_values. Qed.

(* readers (every kind, every byte string): every error carries the type id its cause demands —
   truncation => INVALID_DATA, negative length => NEGATIVE_SIZE — where the cause is classified
   from the bytes alone (Spec/ErrKinds.v) *)
Theorem C17_reader_err_typed : forall k buf c,
  r_item k buf = Err c -> exists cz, ref_cause k buf = Some cz /\ etype c = cause_type cz.
Proof. exact r_item_err_cause. Qed.

(* ... they succeed exactly on a complete item, and never panic *)
Theorem C17_reader_ok_iff : forall k buf, ref_cause k buf = None <-> exists v, r_item k buf = Ok v.
Proof. exact r_item_ok_iff. Qed.

Theorem C17_reader_safe : forall k buf, safe (r_item k buf).
Proof. exact r_item_safe. Qed.

(* Binary.ReadMessageBegin: every error carries the type id its cause demands — truncation =>
   INVALID_DATA, bad version word => BAD_VERSION, negative name length => NEGATIVE_SIZE.  (The last
   clause was refuted by the code as first found — "80 01 00 01 ff ff ff ff" was reported as
   INVALID_DATA — and holds since the repair /repo 0c7ba6f; the witness is a corpus regression.) *)
Theorem C17_message_begin_err_typed : forall buf c,
  r_message_begin buf = Err c ->
  exists cz, ref_msg buf = Some cz /\ etype c = cause_type cz.
Proof. exact msg_err_typed. Qed.

Theorem C17_message_begin_negative_name_regression :
  r_message_begin [128; 1; 0; 1; 255; 255; 255; 255] = Err e_neg_size /\ etype e_neg_size = thrift_NEGATIVE_SIZE.
Proof. exact msg_negative_name_regression. Qed.

Theorem C17_message_begin_ok_iff : forall buf, ref_msg buf = None <-> exists v, r_message_begin buf = Ok v.
Proof. exact msg_ok_iff. Qed.

(* stream reader: a wrapped error is found by errors.Is / errors.Unwrap *)
Theorem C17_wrap_matches : forall x,
  s_is (SWrap x) x = true /\ s_unwrap (SWrap x) = Some x /\
  s_typeid (SWrap x) = thrift_UNKNOWN_PROTOCOL_EXCEPTION.
Proof. exact s_wrap_matches. Qed.

(* stream_err_wraps: every failure of a stream item reader is NEGATIVE_SIZE (the reader's own
   check, binary/string only) or wraps the error the bufiox reader holds (io.EOF, the source's
   error, io.ErrNoProgress: C04 says which) *)
Theorem C17_stream_err_wraps : forall k st st' e,
  s_item k st = (st', SErr e) ->
  (e = SProto thrift_NEGATIVE_SIZE /\ (k = KBinary \/ k = KString)) \/
  (exists x, e = SWrap x /\ rerr st' = Some x).
Proof. exact s_item_err. Qed.

Theorem C17_stream_message_begin_err : forall st st' e,
  s_message_begin st = (st', SErr e) ->
  e = SProto thrift_BAD_VERSION \/ e = SProto thrift_NEGATIVE_SIZE \/
  (exists x, e = SWrap x /\ rerr st' = Some x).
Proof. exact s_message_begin_err. Qed.

(* non-vacuity: each cause occurs *)
Example C17_causes_occur :
  ref_cause KI32 [1; 2; 3] = Some CTrunc /\ r_item KI32 [1; 2; 3] = Err e_read_i32 /\
  ref_cause KString [255; 255; 255; 255] = Some CNeg /\ r_item KString [255; 255; 255; 255] = Err e_neg_size /\
  ref_msg [128; 2; 0; 1; 0; 0; 0; 0; 0; 0; 0; 0] = Some CBadVersion /\
  r_message_begin [128; 2; 0; 1; 0; 0; 0; 0; 0; 0; 0; 0] = Err e_bad_version /\
  ref_msg [128; 1; 0; 1; 0; 0; 0; 0; 0; 0; 0; 7] = None.
Proof. repeat split; reflexivity. Qed.

Example C17_stream_wrap_occurs :
  snd (s_item KI32 (new_reader {| sdata := [1; 2]; sfinal := e_eof; swith := false; schunks := []; spos := 0 |}))
  = SErr (SWrap e_eof).
Proof. vm_compute. reflexivity. Qed.

(* ======================= the skippers ======================= *)

(* What [skip_causes] is: the set of causes at the failure point of the C08 reference parse [rp]
   (budget 64), exactly.  Where rp says "truncated" or "negative size" the set is that single
   cause; an unknown type may also be called truncation when no byte is left for the value; an
   exhausted budget may also be called truncation when no byte is left, and unknown type when the
   value's type byte is unknown.  Nothing else is tolerated. *)
Theorem C17_skip_causes_exact : forall i t b,
  match rp i ref_depth t b with
  | Ok _ => skip_causes i t b = []
  | Err e =>
    (e = ThriftGrammar.E_TRUNC /\ skip_causes i t b = [CTrunc]) \/
    (e = ThriftGrammar.E_NEGSIZE /\ skip_causes i t b = [CNeg]) \/
    (e = ThriftGrammar.E_BADTYPE /\ (skip_causes i t b = [CUnknownType] \/ skip_causes i t b = [CTrunc; CUnknownType])) \/
    (e = E_DEPTH /\ (skip_causes i t b = [CDepth] \/ skip_causes i t b = [CTrunc; CDepth] \/
                     skip_causes i t b = [CUnknownType; CDepth] \/ skip_causes i t b = [CTrunc; CUnknownType; CDepth]))
  | _ => False
  end.
Proof. exact skip_causes_exact. Qed.

(* no plain misclassification is tolerated *)
Theorem C17_skip_negative_only_negative : forall i t b, cause_allowed i t b CNeg = true ->
  rp i ref_depth t b = Err ThriftGrammar.E_NEGSIZE /\ skip_causes i t b = [CNeg].
Proof. exact skip_causes_neg_only. Qed.
Theorem C17_skip_negative_never_truncation : forall i t b, rp i ref_depth t b = Err ThriftGrammar.E_NEGSIZE ->
  cause_allowed i t b CTrunc = false.
Proof. exact skip_causes_trunc_when_neg. Qed.
Theorem C17_skip_depth_only_without_budget : forall i t b, cause_allowed i t b CDepth = true ->
  rp i ref_depth t b = Err E_DEPTH.
Proof. exact skip_causes_depth_only. Qed.
Theorem C17_skip_truncation_only_truncation : forall i t b, rp i ref_depth t b = Err ThriftGrammar.E_TRUNC ->
  skip_causes i t b = [CTrunc].
Proof. exact skip_causes_trunc_only. Qed.

(* skip_err_typed (DESIGN 5 C17): every failure of thrift.Binary.Skip, for every byte string and
   every type byte, is a protocol exception of type INVALID_DATA, NEGATIVE_SIZE or DEPTH_LIMIT, the
   type its cause demands, and the cause it names is one that applies at the failure point of the
   reference parse *)
Theorem C17_skip_err_typed : forall b t c, wf b -> t < 256 -> binary_skip b t = Err c ->
  In (etype c) [thrift_INVALID_DATA; thrift_NEGATIVE_SIZE; thrift_DEPTH_LIMIT] /\
  exists cz, code_cause c = Some cz /\ etype c = cause_type cz /\ cause_allowed inl_all t b cz = true.
Proof. exact skip_err_typed. Qed.

Theorem C17_skip_ok_iff_no_cause : forall b t, wf b -> t < 256 ->
  ((exists n, binary_skip b t = Ok n) <-> skip_causes inl_all t b = []).
Proof. exact skip_ok_iff_no_cause. Qed.

(* The skippers that read through a source.  [skip_fail_ok i t b Src c]: the failure [c] is one of
   the skipper's own protocol errors (typed and allowed as above) or an error of the source, and
   then the reference parse fails by truncation and by nothing else.
   BytesSkipDecoder.Next: the "source" is the slice, its end-of-input error is io.EOF, handed out
   as it is. *)
Theorem C17_bytes_decoder_err_typed : forall b t s c, wf b -> t < 256 ->
  bs_next (bs_new b) t = (s, Err c) -> skip_fail_ok inl_none t b (fun x => x = e_eof) c.
Proof. exact bs_next_err_typed. Qed.

(* ReaderSkipDecoder.Next, for EVERY scripted source (any fragmentation incl. empty reads, any
   final error value, data delivered with the error): the source's error is handed out as it is *)
Theorem C17_readfull_decoder_err_typed : forall src blen t s c,
  wf (sdata src) -> spos src <= len (sdata src) -> t < 256 ->
  rf_next (rf_new src blen) t = (s, Err c) ->
  skip_fail_ok inl_none t (drop (spos src) (sdata src)) (fun x => x = sfinal src) c.
Proof. exact rf_next_err_typed. Qed.

(* SkipDecoder.Next over the buffered reader (SAt: a reachable reader state at cursor c of stream
   S over a script that cannot stall): the reader's error is handed out as it is *)
Theorem C17_peek_decoder_err_typed : forall S c st rn0 t s' e,
  wf S -> SAt S c st -> c <= len S -> t < 256 ->
  pk_next {| pk_r := st; pk_rn := rn0 |} t = (s', Err e) ->
  skip_fail_ok inl_none t (drop c S) (fun x => (0 <= x < 99)%Z) e.
Proof. exact pk_next_err_typed. Qed.

(* BufferReader.Skip: the reader's error arrives wrapped by NewProtocolExceptionWithErr
   (code 100 + e of the skipper model = SWrap e of Model/ErrTypes.v: C17_wrap_matches) *)
Theorem C17_bufferreader_skip_err_typed : forall S c st t st' e,
  wf S -> SAt S c st -> c <= len S -> t < 256 ->
  br_skip st t = (st', Err e) ->
  skip_fail_ok inl_br t (drop c S) (fun x => exists y, x = e_wrap y /\ (0 <= y < 99)%Z) e.
Proof. exact br_skip_err_typed. Qed.

(* non-vacuity: each cause occurs on Binary.Skip; the seeded misclassification witness (a LIST<I32>
   with count -1) demands NEGATIVE_SIZE and nothing else; the tolerated ambiguities occur *)
Example C17_skip_causes_occur :
  binary_skip [8; 255; 255; 255; 255] 15 = Err e_neg_size /\ skip_causes inl_all 15 [8; 255; 255; 255; 255] = [CNeg] /\
  binary_skip [8; 255; 255; 255] 15 = Err e_too_short /\ skip_causes inl_all 15 [8; 255; 255; 255] = [CTrunc] /\
  binary_skip [1; 0; 0; 0; 1; 0] 15 = Err e_unknown_type /\ skip_causes inl_all 15 [1; 0; 0; 0; 1; 0] = [CUnknownType] /\
  binary_skip [1; 0; 0; 0; 1] 15 = Err e_too_short /\ skip_causes inl_all 15 [1; 0; 0; 0; 1] = [CTrunc; CUnknownType] /\
  snd (bs_next (bs_new [1; 0; 0; 0; 1]) 15) = Err e_unknown_type /\
  binary_skip [0] 1 = Err e_unknown_type /\ binary_skip [8; 0; 0; 0; 0] 15 = Ok 5.
Proof. vm_compute. repeat split; reflexivity. Qed.

Example C17_skip_depth_occurs :
  let nest n := concat (repeat [15; 0; 0; 0; 1] n) in
  binary_skip (nest 64%nat ++ [2; 0; 0; 0; 0]) 15 = Err e_depth /\
  skip_causes inl_all 15 (nest 64%nat ++ [2; 0; 0; 0; 0]) = [CDepth] /\
  binary_skip (nest 64%nat) 15 = Err e_too_short /\
  skip_causes inl_all 15 (nest 64%nat) = [CTrunc; CDepth] /\
  snd (bs_next (bs_new (nest 64%nat)) 15) = Err e_depth /\
  binary_skip (nest 63%nat ++ [2; 0; 0; 0; 0]) 15 = Ok 320.
Proof. vm_compute. repeat split; reflexivity. Qed.

Example C17_skip_stream_occurs :
  let s d := {| sdata := d; sfinal := e_injected; swith := false; schunks := [2; 1]; spos := 0 |} in
  SAt [8; 0; 0; 0; 2; 0; 0] 0 (new_reader (s [8; 0; 0; 0; 2; 0; 0])) /\
  snd (br_skip (new_reader (s [8; 0; 0; 0; 2; 0; 0])) 15) = Err (e_wrap e_injected) /\
  snd (pk_next (pk_new (new_reader (s [8; 0; 0; 0; 2; 0; 0]))) 15) = Err e_injected /\
  snd (rf_next (rf_new (s [11; 0; 0; 0; 1; 0; 0]) 0) 15) = Err e_injected /\
  snd (br_skip (new_reader (s [8; 255; 255; 255; 255])) 15) = Err e_neg_size /\
  snd (bs_next (bs_new [8; 0; 0; 0; 2; 0; 0]) 15) = Err e_eof.
Proof.
  cbv zeta. split.
  { apply (sat_new_reader {| sdata := [8; 0; 0; 0; 2; 0; 0]; sfinal := e_injected; swith := false;
                             schunks := [2; 1]; spos := 0 |}); [reflexivity|reflexivity|].
    split; [discriminate|reflexivity]. }
  vm_compute. repeat split; reflexivity.
Qed.
