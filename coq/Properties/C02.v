(* Properties/C02.v — Skip consumes exactly one well-formed value, on every skipper.
   Only statements; every proof is [exact <lemma>] (Proofs/GrammarP.v, Proofs/C02P.v). *)
From GV Require Import Lib.Bytes Lib.Res Spec.ThriftGrammar Spec.RefParse Model.Skip.
From GV Require Import Proofs.GrammarP Proofs.C02P.
Open Scope N_scope.

(* ---------- the grammar (shared spec): encodings parse back, exactly ---------- *)
(* enc v followed by ANY bytes parses as one value of extent |enc v| and height ch v *)
Theorem C02_gparse_enc : forall t v rest,
  wt t v = true -> gparse t (enc v ++ rest) = Ok (len (enc v), ch v).
Proof. exact gparse_enc. Qed.

(* the unbounded parser never runs out of fuel *)
Theorem C02_gparse_fuel : forall t r, gparse t r <> Err E_FUEL.
Proof. exact gparse_fuel. Qed.

(* locality: the verdict depends only on the bytes consumed *)
Theorem C02_gparse_local : forall t r r' n h,
  gparse t r = Ok (n, h) -> take n r' = take n r -> gparse t r' = Ok (n, h).
Proof. exact gparse_take. Qed.

(* prefix-freeness: no strict prefix of an encoding is a complete value of that type *)
Theorem C02_enc_prefix_free : forall t v p s,
  wt t v = true -> enc v = p ++ s -> s <> [] -> forall n h, gparse t p <> Ok (n, h).
Proof. exact enc_prefix_free. Qed.

(* the extent of a well-typed value at the front of a byte string is unique *)
Theorem C02_enc_unique_extent : forall t v1 v2 r1 r2,
  wt t v1 = true -> wt t v2 = true -> enc v1 ++ r1 = enc v2 ++ r2 -> enc v1 = enc v2 /\ r1 = r2.
Proof. exact enc_unique_extent. Qed.

(* ---------- exactness, skipper by skipper ---------- *)
(* Binary.Skip: every well-typed tree of container height <= 63, any trailing bytes *)
Theorem C02_bskip_exact : forall t v rest,
  wt t v = true -> (ch v <= 63)%nat -> wf rest ->
  binary_skip (enc v ++ rest) t = Ok (len (enc v)).
Proof. exact bskip_exact. Qed.

(* ---------- non-vacuity ---------- *)
(* list<struct{1: i32, 2: string}> with two elements, one of them the empty struct; and an
   empty map whose type bytes are 0x80 / 0xff *)
Example C02_nonvacuous :
  let v := VList 12 [VStruct [(8, 1, VI32 5); (11, 2, VStr [1; 2; 3])]; VStruct []] in
  let e := VMap 128 255 [] in
  wt T_LIST v = true /\ (ch v <= 63)%nat /\ wf [9; 9] /\
  binary_skip (enc v ++ [9; 9]) T_LIST = Ok 24 /\
  wt T_MAP e = true /\ binary_skip (enc e) T_MAP = Ok 6.
Proof. vm_compute. repeat split; try reflexivity; repeat constructor. Qed.
