(* Properties/C02.v — Skip consumes exactly one well-formed value, on every skipper.
   Only statements; every proof is [exact <lemma>] (Proofs/GrammarP.v, Proofs/C02P.v). *)
From GV Require Import Lib.Bytes Lib.Res Spec.ThriftGrammar Spec.RefParse Spec.Cursor.
From GV Require Import Model.BufReader Model.Skip Model.StreamSkip Model.SkipDecoders.
From GV Require Import Proofs.GrammarP Proofs.C02P Proofs.BufReaderP Proofs.TskipExactP Proofs.PeekExactP Proofs.BrExactP.
Open Scope N_scope.

(* ---------- the grammar (shared spec): encodings parse back, exactly ---------- *)
(* enc v followed by ANY bytes parses as one value of extent |enc v| and height ch v *)
Theorem C02_gparse_enc : forall t v rest,
  wt t v = true -> gparse t (enc v ++ rest) = Ok (len (enc v), ch v).
Proof. exact gparse_enc. Qed.

(* conversely, whatever the grammar accepts IS the encoding of a well-typed tree of that height:
   the grammar's language is exactly { enc v ++ anything | wt t v } *)
Theorem C02_gparse_sound : forall t r n h,
  gparse t r = Ok (n, h) -> wf r -> exists v, wt t v = true /\ enc v = take n r /\ ch v = h.
Proof. exact gparse_sound. Qed.

(* the unbounded parser never runs out of fuel *)
Theorem C02_gparse_fuel : forall t r, gparse t r <> Err E_FUEL.
Proof. exact gparse_fuel. Qed.

(* locality: the verdict depends only on the bytes consumed *)
Theorem C02_gparse_local : forall t r r' n h,
  gparse t r = Ok (n, h) -> take n r' = take n r -> gparse t r' = Ok (n, h).
Proof. exact gparse_take. Qed.

(* prefix-freeness: no strict prefix of an encoding is a complete value of that type *)
Theorem C02_enc_prefix_free : forall t v p s,
  wt t v = true -> enc v = p ++ s -> s <> [] -> forall n h, gparse t p <> Ok (n, h).
Proof. exact enc_prefix_free. Qed.

(* the extent of a well-typed value at the front of a byte string is unique *)
Theorem C02_enc_unique_extent : forall t v1 v2 r1 r2,
  wt t v1 = true -> wt t v2 = true -> enc v1 ++ r1 = enc v2 ++ r2 -> enc v1 = enc v2 /\ r1 = r2.
Proof. exact enc_unique_extent. Qed.

(* ---------- exactness, skipper by skipper ---------- *)
(* Binary.Skip: every well-typed tree of container height <= 63, any trailing bytes *)
Theorem C02_bskip_exact : forall t v rest,
  wt t v = true -> (ch v <= 63)%nat -> wf rest ->
  binary_skip (enc v ++ rest) t = Ok (len (enc v)).
Proof. exact bskip_exact. Qed.

(* BufferReader.Skip over a bufiox reader standing at stream position c where enc v ++ rest
   begins (RInv: C04's refinement invariant — the reader refines the cursor at c of the stream D
   delivered by a source with final error F under the fragmentation script CH), for every
   script that cannot stall and any length of the stream: succeeds, the cursor and ReadLen
   advance by exactly |enc v| *)
Theorem C02_bufferreader_exact : forall D F CH c st t v rest,
  RInv D F CH c st -> may_stall CH = false -> wf D -> drop c D = enc v ++ rest ->
  wt t v = true -> (ch v <= 63)%nat ->
  exists st', br_skip st t = (st', Ok tt) /\
              RInv D F CH (c + len (enc v)) st' /\
              r_readlen st' = r_readlen st + len (enc v).
Proof. exact br_skip_exact. Qed.

(* BytesSkipDecoder.Next: returns exactly enc v; the decoder keeps exactly the bytes that follow *)
Theorem C02_bytes_decoder_exact : forall t v rest,
  wt t v = true -> (ch v <= 63)%nat -> wf rest ->
  bs_next (bs_new (enc v ++ rest)) t = ({| bs_b := rest; bs_n := 0 |}, Ok (enc v)).
Proof. exact bs_next_exact. Qed.

(* ReaderSkipDecoder.Next over ANY scripted io.Reader that is about to deliver enc v ++ rest
   (every fragmentation: 1-byte reads, empty reads, oversized chunks; every final error; final
   data delivered together with the error or not; any length of the stream): returns exactly
   enc v and the io.Reader's position has advanced by EXACTLY |enc v| — nothing beyond the
   value is read — and what the reader delivers next is rest *)
Theorem C02_reader_decoder_exact : forall (s : rf_state) t v rest,
  spos (rf_src s) <= len (sdata (rf_src s)) -> wf (sdata (rf_src s)) ->
  drop (spos (rf_src s)) (sdata (rf_src s)) = enc v ++ rest ->
  wt t v = true -> (ch v <= 63)%nat ->
  exists s', rf_next s t = (s', Ok (enc v)) /\
             sdata (rf_src s') = sdata (rf_src s) /\
             spos (rf_src s') = spos (rf_src s) + len (enc v) /\
             drop (spos (rf_src s')) (sdata (rf_src s')) = rest.
Proof. exact rf_next_exact. Qed.

(* SkipDecoder.Next over a bufiox reader standing at stream position c where enc v ++ rest
   begins (RInv: the reader refines the cursor at c of the stream D delivered by a source with
   final error F and fragmentation script CH), for every script that cannot stall: returns
   exactly enc v; cursor and ReadLen advance by exactly |enc v| *)
Theorem C02_peek_decoder_exact : forall D F CH c (s : pk_state) t v rest,
  RInv D F CH c (pk_r s) -> may_stall CH = false -> wf D -> drop c D = enc v ++ rest ->
  wt t v = true -> (ch v <= 63)%nat ->
  exists s', pk_next s t = (s', Ok (enc v)) /\
             RInv D F CH (c + len (enc v)) (pk_r s') /\
             r_readlen (pk_r s') = r_readlen (pk_r s) + len (enc v).
Proof. exact pk_next_exact. Qed.

(* ---------- non-vacuity ---------- *)
(* list<struct{1: i32, 2: string}> with two elements, one of them the empty struct; and an
   empty map whose type bytes are 0x80 / 0xff *)
Example C02_nonvacuous :
  let v := VList 12 [VStruct [(8, 1, VI32 5); (11, 2, VStr [1; 2; 3])]; VStruct []] in
  let e := VMap 128 255 [] in
  wt T_LIST v = true /\ (ch v <= 63)%nat /\ wf [9; 9] /\
  binary_skip (enc v ++ [9; 9]) T_LIST = Ok 24 /\
  wt T_MAP e = true /\ binary_skip (enc e) T_MAP = Ok 6.
Proof. vm_compute. repeat split; try reflexivity; repeat constructor. Qed.

(* the D6 witness as an instance of C02_reader_decoder_exact: the I32 value 00000005 delivered in
   one Read together with io.EOF (and under a script with empty and 1-byte reads) *)
Example C02_nonvacuous_reader_decoder :
  let src := {| sdata := [0; 0; 0; 5]; sfinal := e_eof; swith := true; schunks := []; spos := 0 |} in
  let src2 := {| sdata := [0; 0; 0; 5; 9]; sfinal := e_injected; swith := true; schunks := [0; 1; 0; 0; 2; 7]; spos := 0 |} in
  (exists s', rf_next (rf_new src 0) T_I32 = (s', Ok [0; 0; 0; 5]) /\ spos (rf_src s') = 4) /\
  (exists s', rf_next (rf_new src2 0) T_I32 = (s', Ok [0; 0; 0; 5]) /\ spos (rf_src s') = 4).
Proof. split; eexists; split; vm_compute; reflexivity. Qed.

(* the hypotheses of C02_peek_decoder_exact hold for a fresh bufiox reader over any source
   whose script cannot stall *)
Example C02_nonvacuous_peek_decoder :
  let src := {| sdata := [0; 0; 0; 5; 9]; sfinal := e_eof; swith := true; schunks := [1; 0; 3]; spos := 0 |} in
  RInv (sdata src) (sfinal src) (schunks src) 0 (pk_r (pk_new (new_reader src))) /\
  may_stall (schunks src) = false /\
  (exists s', pk_next (pk_new (new_reader src)) T_I32 = (s', Ok [0; 0; 0; 5]) /\ r_readlen (pk_r s') = 4).
Proof.
  split; [apply rinv_new_reader; reflexivity|]. split; [vm_compute; reflexivity|].
  eexists; split; vm_compute; reflexivity.
Qed.

Example C02_nonvacuous_bufferreader :
  let src := {| sdata := [0; 0; 0; 5; 9]; sfinal := e_eof; swith := true; schunks := [1; 0; 3]; spos := 0 |} in
  RInv (sdata src) (sfinal src) (schunks src) 0 (new_reader src) /\
  may_stall (schunks src) = false /\
  (exists st', br_skip (new_reader src) T_I32 = (st', Ok tt) /\ r_readlen st' = 4).
Proof.
  split; [apply rinv_new_reader; reflexivity|]. split; [vm_compute; reflexivity|].
  eexists; split; vm_compute; reflexivity.
Qed.
