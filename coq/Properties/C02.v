(* Properties/C02.v — Skip consumes exactly one well-formed value, on every skipper.
   Only statements; every proof is [exact <lemma>]. (Being filled in: grammar facts first.) *)
From GV Require Import Lib.Bytes Lib.Res Spec.ThriftGrammar Proofs.GrammarP.
Open Scope N_scope.

(* every value the grammar accepts is non-empty and lies inside the input *)
Theorem C02_grammar_extent_bounded : forall t r n h, gparse t r = Ok (n, h) -> 1 <= n <= len r.
Proof. exact gparse_bounds. Qed.
