(* Properties/C06.v — TTHeader encode/decode round-trips and conforms to the frame layout
   (protocol/ttheader/encode.go, decode.go, utils.go, metakey.go).  Only statements; proofs are
   in Proofs/TTHeaderEnc.v (on top of TTHeaderSec.v / TTHeaderDec.v).

   [encode tl p] is the model of Encode / EncodeToBytes: [p_int p] and [p_str p] list the two Go
   maps IN THE ORDER `range` ENUMERATES THEM (so quantifying over the lists, or over all
   permutations [io]/[so] of given maps, is quantifying over every iteration order); [tl] is
   whatever the four total-length bytes held before the caller sets them ([set_total]).
   [decode] is Decode (bytes consumed = ReadLen, result).  The writer and reader themselves
   (bytes-backed or stream-backed, any fragmentation) are C05 / C04; the correspondence run
   exercises both.
   Hypotheses:  NoDup keys — the lists denote Go maps;  [params_wf] — the Go types (uint16
   flags and int keys, int32 sequence id, uint8 protocol id, strings are byte strings);
   [info_size < 2^32] — kept where the proofs were first made under it: Encode used to compare
   uint32(size) with MaxHeaderSize; since the repair of /repo it compares the int, and
   [C06_enc_fail_iff] / [C06_enc_size_statement_holds] state the size clause without it.  The limits the format
   itself imposes on a frame (every key/value shorter than 65536 bytes, fewer than 65536
   entries: [fits16b]) are CONSEQUENCES of a successful Encode (C06_enc_ok_fits16), so the
   uint16 truncations in writeKVInfo / WriteString2BLen never act on a frame Encode returns. *)
From GV Require Import Lib.Bytes Lib.Res Gen.Consts Model.TTHeader Spec.FrameLayout Proofs.TTHeaderP.
From Coq Require Import Permutation.
Open Scope N_scope.

Theorem C06_consts :
  c_meta = L_meta /\ c_magic = L_magic16 * 65536 /\ c_mask = 65535 * 65536 /\ c_max = L_max /\
  c_s32 = 4 /\ c_s16 = 2 /\ id_pad = 0 /\ id_kv = 1 /\ id_intkv = 16 /\ id_acl = 17 /\
  size_bits = 32 /\ ttheader_Decode_headerInfoSize_signed = 0%Z /\
  map Z.to_N ttheader_checkProtocolID_cases = [0; 4; 3; 16; 17] /\ gdpr_key = gdpr /\
  c_streaming = L_streaming.
Proof. exact consts_ok. Qed.

(* Encode never panics; it fails exactly when the header-info size exceeds 65536, where the size
   is 2 + the sections + padding to a multiple of 4 ([info_size], Spec/FrameLayout.v) — for EVERY
   size (no 32-bit truncation any more) *)
Theorem C06_enc_fail_iff : forall tl p,
  NoDup (keys (p_str p)) ->
  ((exists e, encode tl p = Err e) <-> L_max < info_size (p_int p) (p_str p)) /\
  ((exists b, encode tl p = Ok b) <-> info_size (p_int p) (p_str p) <= L_max).
Proof. exact p_enc_fail_iff. Qed.

Theorem C06_enc_fail_iff_nowrap : forall tl p,
  NoDup (keys (p_str p)) -> info_size (p_int p) (p_str p) < two32 ->
  ((exists e, encode tl p = Err e) <-> L_max < info_size (p_int p) (p_str p)).
Proof. exact p_enc_fail_iff_nowrap. Qed.

(* a produced header follows the documented layout, its length is 14 + 4 * the size field *)
Theorem C06_enc_layout : forall tl p b,
  NoDup (keys (p_str p)) -> params_wf p -> info_size (p_int p) (p_str p) < two32 ->
  encode tl p = Ok b ->
  frame (p_flags p) (p_seq p) (p_pid p) (p_int p) (p_str p) b /\
  len b = L_meta + 4 * field_at b 12 2 /\ len b = L_meta + info_size (p_int p) (p_str p) /\
  info_size (p_int p) (p_str p) <= L_max.
Proof. exact enc_layout. Qed.

(* the size clause of the layout, unconditionally.  It was FALSE of the code as first pinned (Encode
   compared uint32(size): with 65536 int keys carrying 65532-byte values the header info is 2^32 + 8
   bytes and Encode reported success; this file then carried C06_enc_size_statement_refuted and
   C06_enc_wrap) and holds since the repair of /repo (the comparison is made on the int) *)
Definition C06_enc_size_statement : Prop :=
  forall tl p b, NoDup (keys (p_str p)) -> params_wf p -> encode tl p = Ok b ->
                 info_size (p_int p) (p_str p) <= L_max.

Theorem C06_enc_size_statement_holds : C06_enc_size_statement.
Proof. exact enc_size_statement_holds. Qed.

(* success implies that every length and count fits its 16-bit field *)
Theorem C06_enc_ok_fits16 : forall tl p b,
  NoDup (keys (p_str p)) -> info_size (p_int p) (p_str p) < two32 ->
  encode tl p = Ok b -> fits16b p = true.
Proof. exact enc_ok_fits16. Qed.

(* every frame that follows the layout, with any payload appended and the total-length field
   set for it, decodes to its parameters: same flags / sequence id / protocol id, the two maps
   as finite maps (an empty map comes back nil), HeaderLen = bytes consumed = |header|,
   PayloadLen = |payload| *)
Theorem C06_frame_decodes : forall fl sq pid im sm b payload,
  frame fl sq pid im sm b -> fl < 65536 -> in_signed 32 sq -> In pid L_pids ->
  NoDup (keys im) -> NoDup (keys sm) -> len b + len payload - 4 < two32 ->
  exists r, decode (set_total b (len b + len payload - 4) ++ payload) = (len b, Ok r) /\
            d_flags r = fl /\ d_seq r = sq /\ d_pid r = pid /\
            map_back N.eqb (d_int r) im /\ map_back beqb (d_str r) sm /\
            d_hlen r = Z.of_N (len b) /\ d_plen r = Z.of_N (len payload).
Proof. exact frame_decodes. Qed.

(* the executable layout judge the correspondence run applies to the bytes the real Encode
   produced (Spec.FrameLayout.frame_b) is sound for [frame]: whatever it accepts follows the
   layout (and therefore decodes back, C06_frame_decodes) *)
Theorem C06_frame_b_sound : forall fl sq pid im sm b,
  wf b -> frame_b fl sq pid im sm b = true ->
  frame fl sq pid im sm b /\ NoDup (keys im) /\ fl < 65536 /\ in_signed 32 sq.
Proof. exact frame_b_sound. Qed.

(* round trip: for all parameters, EVERY enumeration order [io], [so] of the two maps [im], [sm],
   every payload, every header-info size up to and including 65536 *)
Theorem C06_roundtrip : forall fl sq pid im sm io so tl b payload,
  let p := {| p_flags := fl; p_seq := sq; p_pid := pid; p_int := io; p_str := so |} in
  Permutation io im -> Permutation so sm -> NoDup (keys im) -> NoDup (keys sm) ->
  params_wf p -> In pid L_pids -> info_size io so < two32 ->
  encode tl p = Ok b -> len b + len payload - 4 < two32 ->
  exists r, decode (set_total b (len b + len payload - 4) ++ payload) = (len b, Ok r) /\
            d_flags r = fl /\ d_seq r = sq /\ d_pid r = pid /\
            map_back N.eqb (d_int r) im /\ map_back beqb (d_str r) sm /\
            d_hlen r = Z.of_N (len b) /\ d_plen r = Z.of_N (len payload).
Proof. exact roundtrip. Qed.

(* IsTTHeader / IsStreaming agree with the bytes they inspect (4..5 magic, 6..7 flags);
   IsTTHeader indexes unconditionally: on fewer than 8 bytes it panics *)
Theorem C06_is_ttheader_spec : forall b,
  wf (take 8 b) -> 8 <= len b -> is_ttheader b = Ok (field_at b 4 2 =? L_magic16).
Proof. exact is_ttheader_spec. Qed.

Theorem C06_is_ttheader_short : forall b, len b < 8 -> exists w, is_ttheader b = Panic w.
Proof. exact is_ttheader_short. Qed.

Theorem C06_is_streaming_spec : forall b,
  is_streaming b =
  Ok ((8 <=? len b) && (field_at b 4 2 =? L_magic16)
      && negb (N.land (field_at b 6 2) L_streaming =? 0)).
Proof. exact is_streaming_spec. Qed.

Theorem C06_enc_is_ttheader : forall tl p b,
  NoDup (keys (p_str p)) -> params_wf p -> info_size (p_int p) (p_str p) < two32 ->
  encode tl p = Ok b ->
  is_ttheader b = Ok true /\ is_streaming b = Ok (negb (N.land (p_flags p) L_streaming =? 0)).
Proof. exact enc_is_ttheader. Qed.

(* ---------- non-vacuity ---------- *)
(* token key + two more string keys (one empty) + two int keys, two different enumeration
   orders: every hypothesis holds, both orders encode (to different bytes) *)
Definition ex_im : list (N * bytes) := [(1, [97]); (65535, [])].
Definition ex_sm : list (bytes * bytes) := [([107], [118]); (gdpr, [116; 111; 107]); ([], [])].
Definition ex_p (io : list (N * bytes)) (so : list (bytes * bytes)) : eparam :=
  {| p_flags := 2; p_seq := (-5)%Z; p_pid := 4; p_int := io; p_str := so |}.

Example C06_nonvacuous_orders :
  let p1 := ex_p ex_im ex_sm in
  let p2 := ex_p (rev ex_im) (rev ex_sm) in
  nodupk N.eqb (keys ex_im) = true /\ nodupk beqb (keys ex_sm) = true /\
  Permutation (rev ex_im) ex_im /\ Permutation (rev ex_sm) ex_sm /\
  params_wfb p1 = true /\ params_wfb p2 = true /\ fits16b p1 = true /\ In 4 L_pids /\
  info_size ex_im ex_sm = 36 /\
  exists b1 b2, encode 0 p1 = Ok b1 /\ encode 0 p2 = Ok b2 /\ b1 <> b2 /\ len b1 = 50 /\ len b2 = 50.
Proof.
  cbv zeta. repeat split; try (vm_compute; reflexivity).
  - apply Permutation_sym, Permutation_rev.
  - apply Permutation_sym, Permutation_rev.
  - vm_compute. tauto.
  - eexists. eexists. split; [vm_compute; reflexivity|]. split; [vm_compute; reflexivity|].
    split; [discriminate|]. split; vm_compute; reflexivity.
Qed.

(* the 65536-byte boundary: one int-keyed value of 65,527 bytes gives a header info of exactly
   65536 bytes — Encode succeeds (frame of 65,550 bytes, size field 0x4000) and all hypotheses
   of the round trip hold; one byte more and Encode fails *)
Definition ex_big (n : N) : eparam :=
  {| p_flags := 0; p_seq := 1%Z; p_pid := 0; p_int := [(7, repeat 1 (N.to_nat n))]; p_str := [] |}.

Example C06_nonvacuous_boundary :
  params_wfb (ex_big 65527) = true /\ fits16b (ex_big 65527) = true /\
  info_size (p_int (ex_big 65527)) [] = 65536 /\
  match encode 0 (ex_big 65527) with
  | Ok b =>
    let d := decode (set_total b (len b + 3 - 4) ++ [9; 9; 9]) in
    (len b =? 65550) && (field_at b 12 2 =? 16384) && (fst d =? 65550)
    && match snd d with
       | Ok r => (d_hlen r =? 65550)%Z && (d_plen r =? 3)%Z
                 && match d_int r with Some [(7, v)] => len v =? 65527 | _ => false end
                 && match d_str r with None => true | _ => false end
       | _ => false
       end
  | _ => false
  end = true /\
  info_size (p_int (ex_big 65528)) [] = 65540 /\
  encode 0 (ex_big 65528) = Err e_toolarge.
Proof. repeat split; vm_compute; reflexivity. Qed.

(* ---------- tools/gotrans phase 3: ttheader.Encode, writeKVInfo and the Write* helpers regenerated from protocol/ttheader/encode.go, utils.go and proved equal to Model/TTHeader.v over the hand model's writer (Proofs/GenEquivTTHEnc.v); map iteration orders are parameters (os, oi) ---------- *)
From GV Require Import Lib.GoSem Gen.Funcs Proofs.GenLib Proofs.GenLib3 Proofs.GenEquivTTHEnc Proofs.GenCorollariesTTHEnc.

Theorem C06_gen_encode_ok :
  forall dirt : bytes -> Z -> bytes, (forall (st : bytes) (n : Z), (0 <= n)%Z -> glen (dirt st n) = n) -> (forall (st : bytes) (n : Z), wf (dirt st n)) -> forall (fuel : nat) (fl sq pid : Z) (mi : gmap Z bytes) (ms : gmap bytes bytes) (st0 : bytes) (os : list bytes) (oi : list Z), (0 <= fl < 65536)%Z -> (0 <= pid < 256)%Z -> gmap_order_ok ms os -> gmap_order_ok mi oi -> (forall k : Z, In k oi -> (0 <= k < 65536)%Z) -> (4 < fuel)%nat -> (Z.of_nat (Datatypes.length os) < 2 ^ 62)%Z -> (Z.of_nat (Datatypes.length oi) < 2 ^ 62)%Z -> info_size (p_int (gparam fl sq pid mi ms os oi)) (p_str (gparam fl sq pid mi ms os oi)) < two32 -> forall b : bytes, encode (unbe (take 4 (dirt st0 14%Z))) (gparam fl sq pid mi ms os oi) = Ok b -> g_ttheader_Encode bytes (xmalloc dirt) xwb xpoke fuel fl sq pid mi ms st0 os oi = Ok (st0 ++ b, (glen st0, 4%Z), gnil).
Proof. exact (@g_encode_ok). Qed.

Theorem C06_gen_encode_err :
  forall dirt : bytes -> Z -> bytes, (forall (st : bytes) (n : Z), (0 <= n)%Z -> glen (dirt st n) = n) -> (forall (st : bytes) (n : Z), wf (dirt st n)) -> forall (fuel : nat) (fl sq pid : Z) (mi : gmap Z bytes) (ms : gmap bytes bytes) (st0 : bytes) (os : list bytes) (oi : list Z), (0 <= fl < 65536)%Z -> (0 <= pid < 256)%Z -> gmap_order_ok ms os -> gmap_order_ok mi oi -> (forall k : Z, In k oi -> (0 <= k < 65536)%Z) -> (4 < fuel)%nat -> (Z.of_nat (Datatypes.length os) < 2 ^ 62)%Z -> (Z.of_nat (Datatypes.length oi) < 2 ^ 62)%Z -> info_size (p_int (gparam fl sq pid mi ms os oi)) (p_str (gparam fl sq pid mi ms os oi)) < two32 -> forall e : Z, encode (unbe (take 4 (dirt st0 14%Z))) (gparam fl sq pid mi ms os oi) = Err e -> exists st' : bytes, g_ttheader_Encode bytes (xmalloc dirt) xwb xpoke fuel fl sq pid mi ms st0 os oi = Ok (st', gregion_nil, Some e).
Proof. exact (@g_encode_err). Qed.

Theorem C06_gen_enc_fail_iff_nowrap :
  forall dirt : bytes -> Z -> bytes, (forall (st : bytes) (n : Z), (0 <= n)%Z -> glen (dirt st n) = n) -> (forall (st : bytes) (n : Z), wf (dirt st n)) -> forall (fuel : nat) (fl sq pid : Z) (mi : gmap Z bytes) (ms : gmap bytes bytes) (st0 : bytes) (os : list bytes) (oi : list Z), (0 <= fl < 65536)%Z -> (0 <= pid < 256)%Z -> gmap_order_ok ms os -> gmap_order_ok mi oi -> (forall k : Z, In k oi -> (0 <= k < 65536)%Z) -> (4 < fuel)%nat -> (Z.of_nat (Datatypes.length os) < 2 ^ 62)%Z -> (Z.of_nat (Datatypes.length oi) < 2 ^ 62)%Z -> info_size (p_int (gparam fl sq pid mi ms os oi)) (p_str (gparam fl sq pid mi ms os oi)) < two32 -> (L_max < info_size (p_int (gparam fl sq pid mi ms os oi)) (p_str (gparam fl sq pid mi ms os oi)) -> exists st' : bytes, g_ttheader_Encode bytes (xmalloc dirt) xwb xpoke fuel fl sq pid mi ms st0 os oi = Ok (st', gregion_nil, Some e_toolarge)) /\ (info_size (p_int (gparam fl sq pid mi ms os oi)) (p_str (gparam fl sq pid mi ms os oi)) <= L_max -> exists b : list N, g_ttheader_Encode bytes (xmalloc dirt) xwb xpoke fuel fl sq pid mi ms st0 os oi = Ok (st0 ++ b, (glen st0, 4%Z), gnil) /\ encode (unbe (take 4 (dirt st0 14%Z))) (gparam fl sq pid mi ms os oi) = Ok b).
Proof. exact (@g_C06_enc_fail_iff_nowrap). Qed.

Theorem C06_gen_enc_layout :
  forall dirt : bytes -> Z -> bytes, (forall (st : bytes) (n : Z), (0 <= n)%Z -> glen (dirt st n) = n) -> (forall (st : bytes) (n : Z), wf (dirt st n)) -> forall (fuel : nat) (fl sq pid : Z) (mi : gmap Z bytes) (ms : gmap bytes bytes) (st0 : bytes) (os : list bytes) (oi : list Z), (0 <= fl < 65536)%Z -> (0 <= pid < 256)%Z -> gmap_order_ok ms os -> gmap_order_ok mi oi -> (forall k : Z, In k oi -> (0 <= k < 65536)%Z) -> (4 < fuel)%nat -> (Z.of_nat (Datatypes.length os) < 2 ^ 62)%Z -> (Z.of_nat (Datatypes.length oi) < 2 ^ 62)%Z -> info_size (p_int (gparam fl sq pid mi ms os oi)) (p_str (gparam fl sq pid mi ms os oi)) < two32 -> forall b : bytes, params_wf (gparam fl sq pid mi ms os oi) -> encode (unbe (take 4 (dirt st0 14%Z))) (gparam fl sq pid mi ms os oi) = Ok b -> g_ttheader_Encode bytes (xmalloc dirt) xwb xpoke fuel fl sq pid mi ms st0 os oi = Ok (st0 ++ b, (glen st0, 4%Z), gnil) /\ frame (Z.to_N fl) sq (Z.to_N pid) (p_int (gparam fl sq pid mi ms os oi)) (p_str (gparam fl sq pid mi ms os oi)) b /\ len b = L_meta + 4 * field_at b 12 2 /\ len b = L_meta + info_size (p_int (gparam fl sq pid mi ms os oi)) (p_str (gparam fl sq pid mi ms os oi)) /\ info_size (p_int (gparam fl sq pid mi ms os oi)) (p_str (gparam fl sq pid mi ms os oi)) <= L_max.
Proof. exact (@g_C06_enc_layout). Qed.

Theorem C06_gen_roundtrip :
  forall dirt : bytes -> Z -> bytes, (forall (st : bytes) (n : Z), (0 <= n)%Z -> glen (dirt st n) = n) -> (forall (st : bytes) (n : Z), wf (dirt st n)) -> forall (fuel : nat) (fl sq pid : Z) (mi : gmap Z bytes) (ms : gmap bytes bytes) (st0 : bytes) (os : list bytes) (oi : list Z), (0 <= fl < 65536)%Z -> (0 <= pid < 256)%Z -> gmap_order_ok ms os -> gmap_order_ok mi oi -> (forall k : Z, In k oi -> (0 <= k < 65536)%Z) -> (4 < fuel)%nat -> (Z.of_nat (Datatypes.length os) < 2 ^ 62)%Z -> (Z.of_nat (Datatypes.length oi) < 2 ^ 62)%Z -> info_size (p_int (gparam fl sq pid mi ms os oi)) (p_str (gparam fl sq pid mi ms os oi)) < two32 -> forall (os0 : list bytes) (oi0 : list Z) (b : bytes) (payload : list N), gmap_order_ok ms os0 -> gmap_order_ok mi oi0 -> NoDup (map Z.to_N oi0) -> params_wf (gparam fl sq pid mi ms os oi) -> In (Z.to_N pid) L_pids -> encode (unbe (take 4 (dirt st0 14%Z))) (gparam fl sq pid mi ms os oi) = Ok b -> len b + len payload - 4 < two32 -> g_ttheader_Encode bytes (xmalloc dirt) xwb xpoke fuel fl sq pid mi ms st0 os oi = Ok (st0 ++ b, (glen st0, 4%Z), gnil) /\ (exists r : dparam, decode (set_total b (len b + len payload - 4) ++ payload) = (len b, Ok r) /\ d_flags r = Z.to_N fl /\ d_seq r = sq /\ d_pid r = Z.to_N pid /\ map_back N.eqb (d_int r) (int_entries mi oi0) /\ map_back beqb (d_str r) (str_entries ms os0) /\ d_hlen r = Z.of_N (len b) /\ d_plen r = Z.of_N (len payload)).
Proof. exact (@g_C06_roundtrip). Qed.
