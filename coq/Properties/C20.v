(* Properties/C20.v — zero-copy conversions keep content, expose no spare capacity.
   Only statements; every proof is [exact <lemma>] from Proofs/UnsafexP.v. *)
From GV Require Import Lib.Bytes Lib.Heap Model.Unsafex Proofs.UnsafexP.
Open Scope N_scope.

(* content and length are preserved, memory is shared, for every slice incl. nil and empty *)
Theorem C20_binary_to_string : forall h b,
  string_bytes h (binary_to_string b) = slice_bytes h b /\
  tlen (binary_to_string b) = slen b /\ tptr (binary_to_string b) = sptr b.
Proof. intros h b. exact (conj (b2s_content h b) (conj (b2s_len b) (b2s_shares b))). Qed.

Theorem C20_string_to_binary : forall h s,
  slice_bytes h (string_to_binary s) = string_bytes h s /\
  slen (string_to_binary s) = tlen s /\ scap (string_to_binary s) = tlen s /\
  sptr (string_to_binary s) = tptr s.
Proof.
  intros h s.
  exact (conj (s2b_content h s) (conj (proj1 (s2b_len_cap s)) (conj (proj2 (s2b_len_cap s)) (s2b_shares s)))).
Qed.

(* capacity = length, hence appending can never write into the string's memory *)
Theorem C20_append_never_writes_string : forall h s x newcap,
  x <> [] -> string_valid h s ->
  forall h' r, go_append h (string_to_binary s) x newcap = (h', r) ->
  (forall b, (b < length h)%nat -> block h' b = block h b) /\
  slice_bytes h' r = string_bytes h s ++ x.
Proof. exact append_after_s2b_fresh. Qed.

Theorem C20_nil_and_empty : forall h,
  string_bytes h (binary_to_string nil_slice) = [] /\
  slen (string_to_binary empty_string) = 0 /\ scap (string_to_binary empty_string) = 0.
Proof. exact nil_empty. Qed.

(* non-vacuity: a valid substring of a larger block *)
Example C20_nonvacuous :
  string_valid [[1;2;3;4;5]] {| tptr := Some (O, 1); tlen := 3 |} /\
  string_bytes [[1;2;3;4;5]] {| tptr := Some (O, 1); tlen := 3 |} = [2;3;4].
Proof. split; [split; cbn; lia | reflexivity]. Qed.
