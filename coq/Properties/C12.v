(* Properties/C12.v — message envelope round-trips; strict version; exceptions surface as errors.
   Only statements; proofs are in Proofs/BinaryP.v / Proofs/MessageP.v. *)
From GV Require Import Lib.Bytes Lib.Res Gen.Consts Model.Binary Spec.Wire Proofs.BinaryP.
Open Scope N_scope.

Theorem C12_append_writer : forall buf name ty seq,
  a_message_begin buf name ty seq = buf ++ be 4 (msg_first_word ty) ++ be 4 (len name mod two32) ++ name ++ be 4 (u32 seq).
Proof. exact a_message_begin_enc. Qed.
