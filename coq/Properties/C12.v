(* Properties/C12.v — message envelope round-trips; strict version; exceptions surface as errors
   (protocol/thrift/binary.go:43-49,145-149,218-220,245-273; bufferreader.go:168-194;
   bufferwriter.go:49-59; fastcodec.go:58-89; exception.go:59-106).
   Only statements; proofs are in Proofs/MessageP.v, Proofs/StreamWriterP.v, Proofs/StreamReaderP.v.

   Quantification: every method name (any byte string), every message type and sequence id (any
   integer; the writers take them modulo the int32 they are), every buffer / prefix / trailing
   bytes, every first word, every truncation point; an abstract payload struct given by the
   model functions of its three FastCodec methods under a round-trip contract.  The stream
   theorems are parametric in the contracts of the buffered writer / reader (C05 / C04). *)
From GV Require Import Lib.Bytes Lib.Res Gen.Consts Spec.Log Model.Binary Model.BufWriter Model.BufReader
     Model.StreamCodec Model.Message Spec.Wire Proofs.BinaryP Proofs.MessageP Proofs.StreamWriterP Proofs.StreamReaderP.
From GV Require Model.FastCodec Proofs.MessageFullP.
Open Scope N_scope.

(* ---------- msg_writers_agree: all three writers emit enc_msg (type masked to 16 bits) ---------- *)
Theorem C12_inplace_writer : forall buf off name ty seq,
  off + len (enc_msg name ty seq) <= len buf ->
  w_message_begin_at buf off name ty seq =
    Ok (take off buf ++ enc_msg name ty seq ++ drop (off + len (enc_msg name ty seq)) buf, len (enc_msg name ty seq)).
Proof. exact w_message_begin_at_enc. Qed.

Theorem C12_append_writer : forall buf name ty seq, a_message_begin buf name ty seq = buf ++ enc_msg name ty seq.
Proof. exact a_message_begin_enc_msg. Qed.

Theorem C12_length : forall name ty seq, l_message_begin name = len (enc_msg name ty seq).
Proof. exact l_message_begin_enc_msg. Qed.

Theorem C12_stream_writer : forall Sim, writer_contract Sim ->
  forall dirty name ty seq st s,
  Sim st s -> lerr s = None -> (lfake s = true \/ lcalls s + 1 <> lfail s) ->
  exists st1, bw_message_begin dirty st name ty seq = Ok (st1, E_NONE) /\
              written_len st1 = written_len st + len (enc_msg name ty seq) /\
              exists B, matches (lL s) B /\
                        o_sink (snd (wstep dirty st1 OFlush)) = Some (B ++ enc_msg name ty seq) /\
                        o_err (snd (wstep dirty st1 OFlush)) = E_NONE.
Proof. exact sw_msg_eq_enc. Qed.

(* ---------- msg_rt: both readers return name, type (low 16 bits), seq and the exact length ---------- *)
Theorem C12_msg_rt_buffer : forall name ty seq rest,
  len name < two31 -> in_signed 32 seq ->
  r_message_begin (enc_msg name ty seq ++ rest) = Ok (name, (ty mod 65536)%Z, seq, len (enc_msg name ty seq)).
Proof. exact r_message_begin_enc. Qed.

Theorem C12_msg_rt_stream : forall At, reader_contract At ->
  forall S c st name ty seq rest,
  At S c st -> drop c S = enc_msg name ty seq ++ rest -> len name < two31 -> in_signed 32 seq ->
  exists st', sr_message_begin st = (st', Ok (name, (ty mod 65536)%Z, seq)) /\
              At S (c + len (enc_msg name ty seq)) st' /\
              r_readlen st' = r_readlen st + len (enc_msg name ty seq) /\
              drop (c + len (enc_msg name ty seq)) S = rest.
Proof. exact sr_msg_rt. Qed.

(* ---------- bad_version: a first word whose upper half is not 0x8001 is BAD_VERSION ---------- *)
Theorem C12_bad_version_buffer : forall buf,
  4 <= len buf -> N.land (unbe (take 4 buf)) 4294901760 <> 2147549184 ->
  r_message_begin buf = Err e_bad_version /\ etype e_bad_version = thrift_BAD_VERSION.
Proof. intros buf H4 Hv. split; [now apply r_message_begin_bad_version|reflexivity]. Qed.

Theorem C12_bad_version_stream : forall At, reader_contract At ->
  forall S c st w rest,
  At S c st -> drop c S = be 4 w ++ rest -> w < 4294967296 -> N.land w 4294901760 <> 2147549184 ->
  exists st', sr_message_begin st = (st', Err e_bad_version) /\ At S (c + 4) st'.
Proof. exact sr_msg_bad_version. Qed.

(* the masks are the ones of the Go source *)
Theorem C12_masks : Z.to_N thrift_msgVersionMask = 4294901760 /\ Z.to_N thrift_msgVersion1 = 2147549184 /\
                    thrift_msgTypeMask = 65535%Z /\ thrift_EXCEPTION = 3%Z.
Proof. repeat split; reflexivity. Qed.

(* ---------- truncated: every strict prefix of an encoded header is an error ---------- *)
Theorem C12_truncated_buffer : forall name ty seq k,
  len name < two31 -> k < len (enc_msg name ty seq) ->
  exists e, r_message_begin (take k (enc_msg name ty seq)) = Err e.
Proof. exact r_message_begin_truncated. Qed.

Theorem C12_truncated_stream : forall At, reader_contract At ->
  forall S c st name ty seq k,
  At S c st -> c <= len S -> drop c S = take k (enc_msg name ty seq) ->
  len name < two31 -> k < len (enc_msg name ty seq) ->
  exists st' e, sr_message_begin st = (st', Err e).
Proof. exact sr_msg_truncated. Qed.

(* the buffer reader never panics and never reports more than it was given, on any bytes *)
Theorem C12_reader_total : forall b, safe (r_message_begin b).
Proof. exact r_message_begin_total. Qed.
Theorem C12_reader_bounded : forall b name ty seq n, r_message_begin b = Ok (name, ty, seq, n) -> n <= len b.
Proof. exact r_message_begin_bounded. Qed.

(* ---------- marshal_rt: any payload struct whose three methods round-trip ---------- *)
Theorem C12_marshal_rt :
  forall (P : Type) (p_blen : P -> N) (p_write : P -> bytes -> res (bytes * N)) (p_read : P -> bytes -> P * res N)
         (p_enc : P -> bytes) (p_target : P -> Prop),
  (forall m, p_blen m = len (p_enc m)) ->
  (forall m s, len (p_enc m) <= len s -> p_write m s = Ok (p_enc m ++ drop (len (p_enc m)) s, len (p_enc m))) ->
  (forall m0 m rest, p_target m0 -> p_read m0 (p_enc m ++ rest) = (m, Ok (len (p_enc m)))) ->
  forall dirty skipf name ty seq m m0,
  name <> [] -> len name < two31 -> in_signed 32 seq -> (ty mod 65536)%Z <> thrift_EXCEPTION -> p_target m0 ->
  exists b, marshal_fast_msg P p_blen p_write dirty name ty seq m = Ok (Some b) /\
            b = enc_msg name ty seq ++ p_enc m /\
            unmarshal_fast_msg P p_read skipf b m0 = Ok (mkures name seq UNil m).
Proof. exact marshal_rt. Qed.

(* an empty method name: MarshalFastMsg itself reports an error (the code's documented guard) *)
Theorem C12_marshal_empty_name :
  forall (P : Type) (p_blen : P -> N) (p_write : P -> bytes -> res (bytes * N)) dirty ty seq m,
  marshal_fast_msg P p_blen p_write dirty [] ty seq m = Ok None.
Proof. intros. reflexivity. Qed.

(* ---------- exception_surfaces ---------- *)
(* an application exception marshalled under an EXCEPTION type comes back from UnmarshalFastMsg as
   the error, with the written type id and text; the caller's struct (of any payload type) is
   untouched; Binary.Skip is never consulted *)
Theorem C12_exception_surfaces :
  forall (P : Type) (p_read : P -> bytes -> P * res N) dirty skipf name ty seq ex (m0 : P),
  name <> [] -> len name < two31 -> in_signed 32 seq -> (ty mod 65536)%Z = thrift_EXCEPTION -> appex_ok ex ->
  exists b, marshal_fast_msg appex appex_blen appex_write dirty name ty seq ex = Ok (Some b) /\
            unmarshal_fast_msg P p_read skipf b m0 = Ok (mkures name seq (UAppEx ex) m0).
Proof. exact exception_surfaces. Qed.

(* whatever the payload bytes of an EXCEPTION-typed message are: the caller's struct is untouched
   and the result is an error (the exception read, or the decode error of reading it) *)
Theorem C12_exception_never_decodes :
  forall (P : Type) (p_read : P -> bytes -> P * res N) skipf b (m0 : P) u,
  (forall s t, safe (skipf s t)) ->
  unmarshal_fast_msg P p_read skipf b m0 = Ok u ->
  forall name ty seq n, r_message_begin b = Ok (name, ty, seq, n) -> ty = thrift_EXCEPTION ->
  u_msg u = m0 /\ u_err u <> UNil /\ u_method u = name /\ u_seq u = seq.
Proof. exact unmarshal_exception_never_decodes. Qed.

(* UnmarshalFastMsg and ApplicationException.FastRead never panic on any bytes (for a Skip and a
   payload FastRead that never panic and never over-report); the loop fuel is never exhausted *)
Theorem C12_unmarshal_no_panic :
  forall (P : Type) (p_read : P -> bytes -> P * res N) skipf b (m0 : P),
  skip_ok skipf -> (forall m s, safe (snd (p_read m s))) ->
  safe (unmarshal_fast_msg P p_read skipf b m0).
Proof. exact unmarshal_total. Qed.
Theorem C12_appex_read_no_panic : forall skipf e b, skip_ok skipf ->
  safe (snd (appex_read skipf e b)) /\ (forall n, snd (appex_read skipf e b) = Ok n -> n <= len b).
Proof. intros skipf e b H. now apply appex_read_total. Qed.
Theorem C12_appex_read_fuel : forall skipf e b, skip_ok skipf -> (forall s t, skipf s t <> Err e_fuel) ->
  snd (appex_read skipf e b) <> Err e_fuel.
Proof. exact appex_read_fuel_ok. Qed.

(* ... and closed for the skipper the code calls: with the model of thrift.Binary.Skip itself (Model/Skip.v,
   the subject of C02/C03/C08, containers and the depth limit included) as the skip function, on every
   byte string: no panic, no over-report, the loop fuel is never exhausted *)
Theorem C12_appex_read_no_panic_full : forall e b, wf b ->
  safe (snd (appex_read GV.Model.FastCodec.skipf e b)) /\
  (forall n, snd (appex_read GV.Model.FastCodec.skipf e b) = Ok n -> n <= len b).
Proof. exact MessageFullP.appex_read_full_no_panic. Qed.

Theorem C12_appex_read_fuel_full : forall e b, wf b ->
  snd (appex_read GV.Model.FastCodec.skipf e b) <> Err e_fuel.
Proof. exact MessageFullP.appex_read_full_fuel. Qed.

Theorem C12_unmarshal_no_panic_full :
  forall (P : Type) (p_read : P -> bytes -> P * res N) b (m0 : P),
  (forall m s, wf s -> safe (snd (p_read m s))) -> wf b ->
  safe (unmarshal_fast_msg P p_read GV.Model.FastCodec.skipf b m0).
Proof. exact MessageFullP.unmarshal_full_no_panic. Qed.

Theorem C12_unmarshal_appex_no_panic_full : forall b e0, wf b ->
  safe (unmarshal_fast_msg appex (appex_read GV.Model.FastCodec.skipf) GV.Model.FastCodec.skipf b e0).
Proof. exact MessageFullP.unmarshal_appex_full_no_panic. Qed.

(* ApplicationException's own three methods satisfy the payload contract, for any target *)
Theorem C12_appex_contract : forall skipf e0 e rest s,
  appex_ok e ->
  appex_blen e = len (appex_enc e) /\
  (len (appex_enc e) <= len s -> appex_write e s = Ok (appex_enc e ++ drop (len (appex_enc e)) s, len (appex_enc e))) /\
  appex_read skipf e0 (appex_enc e ++ rest) = (e, Ok (len (appex_enc e))).
Proof.
  intros skipf e0 e rest s He. split; [apply appex_blen_enc|]. split; [apply appex_write_enc|now apply appex_read_enc].
Qed.

(* non-vacuity *)
Example C12_nonvacuous_skip_ok : skip_ok skip_scalar /\ (forall s t, skip_scalar s t <> Err e_fuel).
Proof.
  split; [exact skip_scalar_ok|]. intros s t. unfold skip_scalar.
  repeat match goal with |- context [if ?c then _ else _] => destruct c end; discriminate.
Qed.

Example C12_nonvacuous_rt :
  let name := [69; 99; 104; 111] in      (* "Echo" *)
  len name < two31 /\ in_signed 32 1 /\ name <> [] /\ (1 mod 65536)%Z <> thrift_EXCEPTION /\
  r_message_begin (enc_msg name 1 1 ++ [0]) = Ok (name, 1%Z, 1%Z, 16) /\
  (exists e, r_message_begin (take 15 (enc_msg name 1 1)) = Err e).
Proof.
  cbv zeta. split; [vm_compute; reflexivity|]. split; [unfold in_signed; cbn; lia|]. split; [discriminate|].
  split; [discriminate|]. split; [reflexivity|]. eexists. reflexivity.
Qed.

Example C12_nonvacuous_exception :
  let ex := mkex 6 [98; 111; 111; 109] in
  appex_ok ex /\ ((65536 + 3) mod 65536)%Z = thrift_EXCEPTION /\
  unmarshal_fast_msg appex (appex_read skip_scalar) skip_scalar
    (enc_msg [109] (65536 + 3) 7 ++ appex_enc ex) (mkex 77 [])
  = Ok (mkures [109] 7%Z (UAppEx ex) (mkex 77 [])).
Proof.
  cbv zeta. split; [split; [unfold in_signed; cbn; lia|vm_compute; reflexivity]|]. split; reflexivity.
Qed.

Example C12_nonvacuous_bad_version :
  let buf := [128; 2; 0; 1; 0; 0; 0; 0; 0; 0; 0; 0] in
  4 <= len buf /\ N.land (unbe (take 4 buf)) 4294901760 <> 2147549184 /\ r_message_begin buf = Err e_bad_version.
Proof. cbv zeta. split; [vm_compute; discriminate|]. split; [vm_compute; discriminate|reflexivity]. Qed.

(* ---- closed form of the stream round trip (coordinator, after merging C04): every source whose
        script cannot stall; the reader contract is discharged in Proofs/StreamInst.v ---- *)
From GV Require Import Spec.Cursor Proofs.BufWriterRef Proofs.BufReaderP Proofs.StreamInst.

Theorem C12_msg_rt_stream_closed : forall s name ty seq rest,
  spos s = 0 -> may_stall (schunks s) = false -> sdata s = enc_msg name ty seq ++ rest ->
  len name < two31 -> in_signed 32 seq ->
  exists st', sr_message_begin (new_reader s) = (st', Ok (name, (ty mod 65536)%Z, seq)) /\
              r_readlen st' = len (enc_msg name ty seq).
Proof. exact sr_msg_rt_closed. Qed.

(* ---- the envelope theorems for the definitions regenerated from the Go source on every run
        (Gen/Funcs.v by tools/gotrans; equivalences in Proofs/GenEquiv.v) ---- *)
From GV Require Import Lib.GoSem Gen.Funcs Proofs.GenCorollariesMsg.

Theorem C12_gen_append_writer : forall buf name ty seq,
  g_thrift_AppendMessageBegin buf name ty seq = Ok (buf ++ enc_msg name ty seq).
Proof. exact g_msg_append. Qed.

Theorem C12_gen_length : forall name ty seq,
  len name < two31 -> g_thrift_MessageBeginLength name = Ok (Z.of_N (len (enc_msg name ty seq))).
Proof. exact g_msg_length. Qed.

Theorem C12_gen_inplace_writer : forall buf name ty seq,
  len name < two31 -> len (enc_msg name ty seq) <= len buf ->
  g_thrift_WriteMessageBegin buf name ty seq =
    Ok (enc_msg name ty seq ++ drop (len (enc_msg name ty seq)) buf, Z.of_N (len (enc_msg name ty seq))).
Proof. exact g_msg_inplace. Qed.

Theorem C12_gen_msg_rt_buffer : forall en name ty seq rest,
  len name < two31 -> in_signed 32 seq -> wf name -> wf rest ->
  g_thrift_ReadMessageBegin en (enc_msg name ty seq ++ rest) =
    Ok (name, (ty mod 65536)%Z, seq, Z.of_N (len (enc_msg name ty seq)), gnil).
Proof. exact g_msg_rt_buffer. Qed.

Theorem C12_gen_bad_version : forall en buf,
  wf buf -> 4 <= len buf -> N.land (unbe (take 4 buf)) 4294901760 <> 2147549184 ->
  exists x, g_thrift_ReadMessageBegin en buf = Ok (x, Some e_bad_version).
Proof. exact g_msg_bad_version. Qed.

Theorem C12_gen_reader_total : forall en b, wf b -> safe (g_thrift_ReadMessageBegin en b).
Proof. exact g_msg_reader_total. Qed.

Theorem C12_gen_reader_bounded : forall en b name ty seq n,
  wf b -> g_thrift_ReadMessageBegin en b = Ok (name, ty, seq, n, gnil) -> (0 <= n <= glen b)%Z.
Proof. exact g_msg_reader_bounded. Qed.

(* ---------- tools/gotrans phase 3: MarshalFastMsg / FastMarshal regenerated from protocol/thrift/fastcodec.go over an abstract FastCodec and proved equal to Model/Message.v marshal_fast_msg (Proofs/GenEquivFastCodec.v) ---------- *)
From GV Require Import Lib.GoSem Gen.Funcs Proofs.GenLib Proofs.GenLib3 Proofs.GenEquivFastCodec Proofs.GenCorollariesFastCodec.

Theorem C12_gen_marshal_rt :
  forall (St : Type) (mBL : St -> res (St * Z)) (mFW : St -> bytes -> res (St * bytes * Z)) (P : Type) (p_blen : P -> N) (p_write : P -> bytes -> res (bytes * N)) (p_read : P -> bytes -> P * res N) (p_enc : P -> bytes) (p_target : P -> Prop), (forall m : P, p_blen m = len (p_enc m)) -> (forall (m : P) (s : list N), len (p_enc m) <= len s -> p_write m s = Ok (p_enc m ++ drop (len (p_enc m)) s, len (p_enc m))) -> (forall (m0 m : P) (rest : list N), p_target m0 -> p_read m0 (p_enc m ++ rest) = (m, Ok (len (p_enc m)))) -> forall repr : St -> P -> Prop, (forall (st : St) (msg : P), repr st msg -> exists st1 : St, mBL st = Ok (st1, Z.of_N (p_blen msg)) /\ repr st1 msg) -> (forall (st : St) (msg : P) (buf : list N), repr st msg -> glen_ok buf -> rrel (fun (bk : bytes * N) (r : St * bytes * Z) => snd (fst r) = fst bk /\ snd r = Z.of_N (snd bk) /\ repr (fst (fst r)) msg) (p_write msg buf) (mFW st buf)) -> forall (dirt : bytes) (skipf : bytes -> Z -> res N) (name : list N) (ty seq : Z) (m m0 : P) (st : St), repr st m -> (glen name + 12 + Z.of_N (len (p_enc m)) < 2 ^ 63)%Z -> name <> [] -> len name < two31 -> in_signed 32 seq -> (ty mod 65536)%Z <> thrift_EXCEPTION -> p_target m0 -> exists (st' : St) (b : bytes), g_thrift_MarshalFastMsg St mBL mFW (xdirtbuf dirt) name ty seq st = Ok (st', b, gnil) /\ repr st' m /\ b = enc_msg name ty seq ++ p_enc m /\ unmarshal_fast_msg P p_read skipf b m0 = Ok {| u_method := name; u_seq := seq; u_err := UNil; u_msg := m |}.
Proof. exact (@g_C12_marshal_rt). Qed.

Theorem C12_gen_marshal_empty_name :
  forall (St : Type) (mBL : St -> res (St * Z)) (mFW : St -> bytes -> res (St * bytes * Z)) (xd : Z -> Z -> res bytes) (ty seq : Z) (st : St), g_thrift_MarshalFastMsg St mBL mFW xd [] ty seq st = Ok (st, [], Some (ecode "thrift.MarshalFastMsg#errors.New")).
Proof. exact (@g_C12_marshal_empty_name). Qed.
