(* Properties/C05.v — buffered writer flushes exactly what was written, once, in order. *)
From GV Require Import Lib.Bytes Lib.Res Lib.Heap Spec.Log Model.BufWriter Proofs.BufWriterP.
Open Scope N_scope.

Theorem C05_bufsz_pos : 0 < bufsz.
Proof. exact bufsz_pos. Qed.
