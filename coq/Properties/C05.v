(* Properties/C05.v — buffered writer flushes exactly what was written, once, in order
   (bufiox/defaultbuf.go: DefaultWriter, BytesWriter).  Only statements; proofs are in
   Proofs/BufWriter{Lib,P,Inv,Ops,Log,Ref,Thm}.v.

   Quantification: every dirty-memory oracle [dirty] (initial contents of every buffer the
   allocator hands out), every constructor ([init_pair]: NewDefaultWriter over a sink failing at
   its k-th Write for every k incl. never; NewBytesWriter over nil and over every slice
   (contents, len <= cap)), every history [h : list wop] of Malloc n (every integer n) /
   WriteBinary bs (every byte string) / caller stores OFill k off data (any region, offset and
   data, at any time, in any order, also invalid ones) / Flush / WrittenLen — no bound on sizes,
   on the number of growths or on the length of the history.  [wrun] / [log_run] fold the step
   functions of the model (Model/BufWriter.v) and of the specification (Spec/Log.v) over h. *)
From GV Require Import Lib.Bytes Lib.Res Lib.Heap Spec.Log Model.BufWriter
  Proofs.BufWriterLib Proofs.BufWriterP Proofs.BufWriterInv Proofs.BufWriterLog Proofs.BufWriterRef
  Proofs.BufWriterThm.
Open Scope N_scope.

Theorem C05_bufsz_pos : 0 < bufsz.
Proof. exact bufsz_pos. Qed.

(* The writer refines the log.  Operation by operation the model shows what the specification
   shows ([obs_ok]: same error class, same WrittenLen = |L|, and at a Flush that reaches the sink
   the sink receives exactly L — undetermined positions, i.e. region bytes the caller never
   stored, may hold anything); at the end the unflushed string, the sink log K (one entry per
   successful sink write, in order), the published target of a bytes-backed writer and the sticky
   error agree. *)
Theorem C05_writer_refines_log : forall dirty w0 l0 h,
  init_pair w0 l0 ->
  let wf := fst (wrun dirty w0 h) in
  let mo := snd (wrun dirty w0 h) in
  let lf := fst (log_run l0 h) in
  let so := snd (log_run l0 h) in
  Forall2 obs_ok so mo /\
  matches (lL lf) (Lof wf) /\ written_len wf = len (lL lf) /\
  Forall2 matches (lK lf) (klog (sink wf)) /\
  matches (ltarget lf) (target_bytes wf) /\
  werr wf = lerr lf.
Proof. exact writer_refines_log. Qed.

(* The invariant behind it (DESIGN A.2), in every reachable state: the parked buffers have
   ordered lengths inside pairwise distinct blocks ([chain]); parked buffer j holds
   L[l_(j-1) : l_j] at those offsets and the current buffer holds L[l_k :] ([stitched] is that
   concatenation); the live regions are exactly the windows of L, each lies in the buffer that
   was current when it was handed out ([region_owned]), and they are pairwise disjoint. *)
Theorem C05_writer_invariant : forall dirty w0 l0 h,
  init_pair w0 l0 ->
  let wf := fst (wrun dirty w0 h) in
  let lf := fst (log_run l0 h) in
  match cur wf with
  | Some (c, l) =>
    chain (store wf) (pend wf) 0 c l /\ matches (lL lf) (stitched (store wf) (pend wf) 0 c l) /\ len (lL lf) = l
  | None => pend wf = [] /\ lL lf = []
  end /\
  lwin lf = map win_of (live wf) /\
  Forall (region_owned wf) (live wf) /\
  ForallOrdPairs (fun r r' => roff r' + rlen r' <= roff r) (live wf) /\
  Forall (fun r => roff r + rlen r <= len (lL lf)) (live wf).
Proof. exact writer_invariant. Qed.

(* The executable predicate the correspondence run evaluates on the real implementation's
   observations ([specok] in Corr/C05.v) holds of the model's observations for every history. *)
Theorem C05_spec_check_holds : forall dirty w0 l0 h,
  init_pair w0 l0 ->
  Forall2 (fun sp im => obs_okb sp im = true) (snd (log_run l0 h)) (snd (wrun dirty w0 h)) /\
  matches_b (ltarget (fst (log_run l0 h))) (target_bytes (fst (wrun dirty w0 h))) = true.
Proof. exact writer_obs_okb. Qed.

(* No slice-bounds panic in Malloc/WriteBinary/Flush's stitch loop, the doubling loops never run
   out of fuel, WriteBinary never writes short: every error class shown is nil, negative count,
   the sink's error, or an ignored invalid caller store. *)
Theorem C05_no_crash : forall dirty w0 l0 h,
  init_pair w0 l0 ->
  Forall (fun ob => err_known (o_err ob) /\ o_err ob <> E_PANIC /\ o_err ob <> E_FUEL /\ o_err ob <> E_SHORT)
         (snd (wrun dirty w0 h)).
Proof. exact writer_no_crash_classes. Qed.

(* Exactly once, in order.  [written h] reads the history without its flushes: one string, in
   call order, of all Malloc'd regions (patched by every caller store, whenever it happened) and
   all WriteBinary payloads (as they were at the call).  If no call of h failed (no sink error,
   no store outside a live region; a negative Malloc is allowed and adds nothing), then the byte
   strings accepted by the sink, concatenated over all flushes, followed by what is still
   unflushed, are the initial contents (bytes-backed; empty otherwise) followed by [written h]
   — whatever the sizes, however many growths and flushes lie in between. *)
Theorem C05_sink_concat : forall dirty w0 l0 h,
  init_pair w0 l0 ->
  let wf := fst (wrun dirty w0 h) in
  clean (snd (wrun dirty w0 h)) ->
  matches (lL l0 ++ written h) (concat (klog (sink wf)) ++ Lof wf).
Proof. exact writer_sink_concat. Qed.

(* ... and when every region was stored completely the sink bytes are that string, exactly *)
Theorem C05_sink_concat_exact : forall dirty w0 l0 h,
  init_pair w0 l0 ->
  let wf := fst (wrun dirty w0 h) in
  clean (snd (wrun dirty w0 h)) -> determined (lL l0 ++ written h) = true ->
  map Some (concat (klog (sink wf)) ++ Lof wf) = lL l0 ++ written h.
Proof. exact writer_sink_concat_exact. Qed.

(* Bytes-backed writer: after the first Flush the target slice is the initial contents followed
   by the written bytes (nil target: lL l0 = []; a Flush with nothing acquired leaves it nil). *)
Theorem C05_bytes_target : forall dirty w0 l0 h1,
  init_pair w0 l0 -> kfake (sink w0) = true ->
  forallb (fun o => negb (is_flush o)) h1 = true ->
  clean (snd (wrun dirty w0 h1)) ->
  matches (lL l0 ++ written h1) (target_bytes (fst (wrun dirty w0 (h1 ++ [OFlush])))).
Proof. exact writer_bytes_target. Qed.

(* WrittenLen = |L| after every operation is part of C05_writer_refines_log ([obs_ok]); a Flush
   that returns nil leaves WrittenLen = 0 and no error recorded. *)
Theorem C05_flush_success_resets : forall dirty st,
  reachable dirty st ->
  let st' := fst (wstep dirty st OFlush) in
  let ob := snd (wstep dirty st OFlush) in
  o_err ob = E_NONE -> written_len st' = 0 /\ o_len ob = 0 /\ werr st' = None.
Proof. exact flush_success_resets. Qed.

(* A Flush that returns an error has recorded it, and the sink log is unchanged ... *)
Theorem C05_flush_error_recorded : forall dirty st,
  reachable dirty st ->
  let st' := fst (wstep dirty st OFlush) in
  let ob := snd (wstep dirty st OFlush) in
  o_err ob <> E_NONE ->
  werr st' = Some (o_err ob) /\ o_sink ob = None /\ klog (sink st') = klog (sink st).
Proof. exact flush_error_recorded. Qed.

(* ... and from then on, for every further history: every Malloc, WriteBinary and Flush returns
   that error, nothing reaches the sink, the sink (its log, its call count) never changes again,
   and WrittenLen stays. *)
Theorem C05_error_sticky : forall dirty h st e,
  werr st = Some e ->
  let st' := fst (wrun dirty st h) in
  let obs := snd (wrun dirty st h) in
  werr st' = Some e /\ sink st' = sink st /\ written_len st' = written_len st /\
  Forall2 (fun o ob => o_sink ob = None /\
                       match o with OMalloc _ | OWrite _ | OFlush => o_err ob = e | _ => True end) h obs.
Proof. exact error_sticky. Qed.

(* Negative n: an error (the recorded one if any, else "negative count") and no state change. *)
Theorem C05_malloc_negative : forall dirty st n,
  (n < 0)%Z ->
  wstep dirty st (OMalloc n) =
  (st, mkobs (match werr st with Some e => e | None => E_NEG end) (written_len st) None).
Proof. exact malloc_negative. Qed.

(* ---------- non-vacuity ---------- *)
Definition C05_ex_dirty (_ : nat) : bytes := [].

(* init_pair, clean, determined: a default writer, two growths in the first flush, regions
   stored lazily and out of order, a negative Malloc, two flushes *)
Definition C05_ex_h : list wop :=
  [OMalloc 3; OWrite [1; 2]; OMalloc 5000; OFill 0 0 [7; 8; 9]; OMalloc 1; OFill 2 0 [5];
   OFill 1 0 (repeat 6 5000); OFlush; OWrite [4]; OMalloc (-1); OFlush].

Example C05_example_history :
  init_pair (new_writer 0) (log_new 0) /\
  clean (snd (wrun C05_ex_dirty (new_writer 0) C05_ex_h)) /\
  determined (lL (log_new 0) ++ written C05_ex_h) = true /\
  klog (sink (fst (wrun C05_ex_dirty (new_writer 0) C05_ex_h))) = [[7; 8; 9; 1; 2] ++ repeat 6 5000 ++ [5]; [4]] /\
  length (store (fst (wrun C05_ex_dirty (new_writer 0) C05_ex_h))) = 3%nat.
Proof.
  split; [constructor|]. split.
  - vm_compute. repeat (apply Forall_cons; [first [left; reflexivity | right; reflexivity]|]). apply Forall_nil.
  - split; [vm_compute; reflexivity|]. split; vm_compute; reflexivity.
Qed.

(* bytes-backed: a partly filled target with spare capacity, then a growth *)
Example C05_example_bytes :
  let w0 := new_bytes_writer (Some ([1; 2; 3; 0; 0], 3)) in
  let h1 := [OMalloc 4; OWrite [5]; OFill 0 0 [9; 9; 9; 9]] in
  init_pair w0 (log_new_bytes (Some [1; 2; 3])) /\ kfake (sink w0) = true /\
  forallb (fun o => negb (is_flush o)) h1 = true /\
  clean (snd (wrun C05_ex_dirty w0 h1)) /\
  target_bytes (fst (wrun C05_ex_dirty w0 (h1 ++ [OFlush]))) = [1; 2; 3; 9; 9; 9; 9; 5].
Proof.
  cbn zeta. split.
  - apply (init_bytes [1; 2; 3; 0; 0] 3). vm_compute. discriminate.
  - split; [reflexivity|]. split; [reflexivity|]. split.
    + vm_compute. repeat (apply Forall_cons; [first [left; reflexivity | right; reflexivity]|]). apply Forall_nil.
    + vm_compute. reflexivity.
Qed.

(* a sink failing at its 2nd Write: reachable state with a recorded error; the log stops *)
Example C05_example_sink_error :
  let r := wrun C05_ex_dirty (new_writer 2) [OWrite [1]; OFlush; OWrite [2]; OFlush; OWrite [3]; OMalloc 1; OFlush] in
  reachable C05_ex_dirty (fst r) /\ werr (fst r) = Some E_SINK /\
  map o_err (snd r) = [0; 0; 0; 2; 2; 2; 2]%Z /\ klog (sink (fst r)) = [[1]].
Proof.
  cbn zeta. split.
  - exists (new_writer 2), (log_new 2), [OWrite [1]; OFlush; OWrite [2]; OFlush; OWrite [3]; OMalloc 1; OFlush].
    split; [constructor | reflexivity].
  - split; [vm_compute; reflexivity|]. split; vm_compute; reflexivity.
Qed.

(* ---------- tools/gotrans phase 4: bufiox.DefaultWriter (reset, acquireSlow, acquire, Malloc, WriteBinary, WrittenLen, Flush) regenerated from bufiox/defaultbuf.go; for every history the regenerated methods, run on the generated state conc st that a model state st stands for, follow the heap model Model/BufWriter.v step by step (Proofs/GenEquivBufWriter.v): same outputs, same next state; the allocator is the model's new_block for every dirty-memory oracle, Write is the model's sink ---------- *)
From GV Require Import Lib.GoSem Gen.Funcs Proofs.GenLib Proofs.GenLib3 Proofs.GenLib4 Proofs.GenEquivBufWriter.
From GV Require Proofs.GenCorollariesBufio.

Theorem C05_gen_malloc :
  forall (dirty : nat -> bytes) (fuel : nat), (64 < fuel)%nat -> forall (st : wstate) (n : Z), Inv st -> wsmall st -> werr st = None -> 0 <= n < 2 ^ 59 -> exists (st' : wstate) (b : bytes) (d : list N), g_bufiox_DefaultWriter_Malloc sinkst nat (w_bytes dirty) (w_malloc dirty) fuel false (w_buf (conc st)) (w_pend (conc st)) (w_wd (conc st)) (w_err (conc st)) (w_bk (conc st)) (w_bi (conc st)) (w_nc (conc st)) n (Datatypes.length (store st)) = Ok (wret (conc st'), Datatypes.length (store st'), b, None) /\ Inv st' /\ len b = Z.to_N n /\ GenCorollariesBufio.g_L (conc st') = GenCorollariesBufio.g_L (conc st) ++ d /\ len d = Z.to_N n /\ GenCorollariesBufio.g_written_len (conc st') = GenCorollariesBufio.g_written_len (conc st) + n.
Proof. exact (@GenCorollariesBufio.g_C05_malloc). Qed.

Theorem C05_gen_write_binary :
  forall (dirty : nat -> bytes) (fuel : nat), (64 < fuel)%nat -> forall (st : wstate) (bs : bytes), Inv st -> wsmall st -> werr st = None -> (len bs < 2 ^ 59)%N -> exists st' : wstate, g_bufiox_DefaultWriter_WriteBinary sinkst nat (w_bytes dirty) (w_malloc dirty) fuel false (w_buf (conc st)) (w_pend (conc st)) (w_wd (conc st)) (w_err (conc st)) (w_bk (conc st)) (w_bi (conc st)) (w_nc (conc st)) bs (Datatypes.length (store st)) = Ok (wret (conc st'), Datatypes.length (store st'), glen bs, None) /\ Inv st' /\ GenCorollariesBufio.g_L (conc st') = GenCorollariesBufio.g_L (conc st) ++ bs /\ GenCorollariesBufio.g_written_len (conc st') = GenCorollariesBufio.g_written_len (conc st) + glen bs.
Proof. exact (@GenCorollariesBufio.g_C05_write_binary). Qed.

Theorem C05_gen_malloc_negative :
  forall (dirty : nat -> bytes) (fuel : nat), (64 < fuel)%nat -> forall (st : wstate) (n : Z), werr st = None -> n < 0 -> exists e : gerror, g_bufiox_DefaultWriter_Malloc sinkst nat (w_bytes dirty) (w_malloc dirty) fuel false (w_buf (conc st)) (w_pend (conc st)) (w_wd (conc st)) (w_err (conc st)) (w_bk (conc st)) (w_bi (conc st)) (w_nc (conc st)) n (Datatypes.length (store st)) = Ok (wret (conc st), Datatypes.length (store st), [], e) /\ GenCorollariesBufio.wclass e = E_NEG.
Proof. exact (@GenCorollariesBufio.g_C05_malloc_negative). Qed.

Theorem C05_gen_error_sticky :
  forall (dirty : nat -> bytes) (fuel : nat) (st : wstate) (e n : Z) (bs : bytes), werr st = Some e -> g_bufiox_DefaultWriter_Malloc sinkst nat (w_bytes dirty) (w_malloc dirty) fuel false (w_buf (conc st)) (w_pend (conc st)) (w_wd (conc st)) (w_err (conc st)) (w_bk (conc st)) (w_bi (conc st)) (w_nc (conc st)) n (Datatypes.length (store st)) = Ok (wret (conc st), Datatypes.length (store st), [], Some e) /\ g_bufiox_DefaultWriter_WriteBinary sinkst nat (w_bytes dirty) (w_malloc dirty) fuel false (w_buf (conc st)) (w_pend (conc st)) (w_wd (conc st)) (w_err (conc st)) (w_bk (conc st)) (w_bi (conc st)) (w_nc (conc st)) bs (Datatypes.length (store st)) = Ok (wret (conc st), Datatypes.length (store st), 0, Some e) /\ g_bufiox_DefaultWriter_Flush sinkst wd_write nat w_free false (w_buf (conc st)) (w_pend (conc st)) (w_wd (conc st)) (w_err (conc st)) (w_bk (conc st)) (w_bi (conc st)) (w_nc (conc st)) (Datatypes.length (store st)) = Ok (wret (conc st), Datatypes.length (store st), Some e).
Proof. exact (@GenCorollariesBufio.g_C05_error_sticky). Qed.

Theorem C05_gen_flush :
  forall st : wstate, Inv st -> wsmall st -> werr st = None -> cur st <> None -> exists (st' : wstate) (e : gerror), g_bufiox_DefaultWriter_Flush sinkst wd_write nat w_free false (w_buf (conc st)) (w_pend (conc st)) (w_wd (conc st)) (w_err (conc st)) (w_bk (conc st)) (w_bi (conc st)) (w_nc (conc st)) (Datatypes.length (store st)) = Ok (wret (conc st'), Datatypes.length (store st'), e) /\ (e = None /\ klog (w_wd (conc st')) = klog (w_wd (conc st)) ++ [GenCorollariesBufio.g_L (conc st)] /\ GenCorollariesBufio.g_written_len (conc st') = 0 /\ w_err (conc st') = None /\ GenCorollariesBufio.g_L (conc st') = [] \/ (exists ev : Z, e = Some ev /\ w_err (conc st') = Some ev /\ klog (w_wd (conc st')) = klog (w_wd (conc st)) /\ GenCorollariesBufio.g_L (conc st') = GenCorollariesBufio.g_L (conc st))).
Proof. exact (@GenCorollariesBufio.g_C05_flush). Qed.

Theorem C05_gen_follows :
  forall (dirty : nat -> bytes) (fuel : nat), (64 < fuel)%nat -> forall (h : list wop) (st : wstate) (s : lstate), Sim st s -> GenCorollariesBufio.w_run_ok dirty st h -> GenCorollariesBufio.g_follows dirty fuel st h.
Proof. exact (@GenCorollariesBufio.g_C05_follows). Qed.

Theorem C05_gen_writer_follows_model :
  forall (dirty : nat -> bytes) (fuel : nat), (64 < fuel)%nat -> forall (w0 : wstate) (l0 : lstate) (h : list wop), init_pair w0 l0 -> GenCorollariesBufio.w_run_ok dirty w0 h -> GenCorollariesBufio.g_follows dirty fuel w0 h.
Proof. exact (@GenCorollariesBufio.g_C05_writer_follows_model). Qed.
