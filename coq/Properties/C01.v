(* Properties/C01.v — Thrift binary codec: every writer and reader agrees with the wire format.
   Only statements; proofs are in Proofs/BinaryP.v. *)
From GV Require Import Lib.Bytes Lib.Res Gen.Consts Model.Binary Spec.Wire Proofs.BinaryP.
Open Scope N_scope.

Theorem C01_a_eq_enc : forall buf it, a_item buf it = buf ++ enc it.
Proof. exact a_item_enc. Qed.

Theorem C01_len_eq : forall it, l_item it = len (enc it).
Proof. exact l_item_enc. Qed.
