(* Properties/C01.v — Thrift binary codec: every writer and reader agrees with the wire format
   (protocol/thrift/binary.go, bufferwriter.go, bufferreader.go).  Only statements; proofs are in
   Proofs/BinaryP.v (buffer codec), Proofs/StreamWriterP.v and Proofs/StreamReaderP.v (stream codec).

   Quantification: every item (13 constructors: bool, i8, i16, i32, i64, double bit pattern,
   binary, string, field begin, field stop, map / list / set begin) with any parameters, every
   buffer, offset, prefix and trailing bytes.  [item_ok] = the format's own limits (value in the
   range of its Go type, string shorter than 2^31, size in 0..2^32-1, field type <> STOP).

   The stream theorems are parametric in the contract of the buffered writer / reader (the
   refinement theorems of C05 / C04): they quantify over every writer state related to a log
   state, every sink, every dirty-memory oracle; over every reader state positioned on a stream,
   i.e. every source, fragmentation script and history. *)
From GV Require Import Lib.Bytes Lib.Res Gen.Consts Spec.Log Model.Binary Model.BufWriter Model.BufReader
     Model.StreamCodec Spec.Wire Proofs.BinaryP Proofs.StreamWriterP Proofs.StreamReaderP.
Open Scope N_scope.

(* the constants the wire format fixes, as the Go source has them now *)
Theorem C01_consts :
  thrift_STOP = 0%Z /\ thrift_msgVersion1 = 2147549184%Z /\
  thrift_msgVersionMask = 4294901760%Z /\ thrift_msgTypeMask = 65535%Z.
Proof. exact consts_ok_binary. Qed.

(* w_eq_enc: the in-place writer called on buf[off:] stores exactly enc it at off, returns its
   length ... *)
Theorem C01_w_eq_enc : forall buf off it,
  off + len (enc it) <= len buf ->
  w_at buf off it = Ok (take off buf ++ enc it ++ drop (off + len (enc it)) buf, len (enc it)).
Proof. exact w_at_enc. Qed.

(* ... and leaves every other position of the buffer, and its length, unchanged *)
Theorem C01_w_frame : forall buf off it b' n i d,
  off + len (enc it) <= len buf -> w_at buf off it = Ok (b', n) ->
  (N.of_nat i < off \/ off + len (enc it) <= N.of_nat i) -> nth i b' d = nth i buf d.
Proof. exact w_at_frame. Qed.
Theorem C01_w_len : forall buf off it b' n,
  off + len (enc it) <= len buf -> w_at buf off it = Ok (b', n) -> len b' = len buf.
Proof. exact w_at_len. Qed.

(* a sequence of values written at increasing offsets (off += n) *)
Theorem C01_w_seq_eq_enc : forall its buf off,
  off + len (concat (map enc its)) <= len buf ->
  w_seq buf off its =
    Ok (take off buf ++ concat (map enc its) ++ drop (off + len (concat (map enc its))) buf,
        map (fun it => len (enc it)) its).
Proof. exact w_seq_enc. Qed.

(* a_eq_enc: the appending writer, with the code's shift-and-truncate expressions *)
Theorem C01_a_eq_enc : forall buf it, a_item buf it = buf ++ enc it.
Proof. exact a_item_enc. Qed.

(* len_eq: the advertised length *)
Theorem C01_len_eq : forall it, l_item it = len (enc it).
Proof. exact l_item_enc. Qed.

(* r_enc: the buffer reader returns the value and consumes exactly its encoding, whatever follows *)
Theorem C01_r_enc : forall it rest,
  item_ok it = true -> r_item (kind_of it) (enc it ++ rest) = Ok (it, len (enc it)).
Proof. exact r_item_enc. Qed.

(* a bool reads back as "byte = 1": non-canonical bytes decode to false *)
Theorem C01_bool_decodes : forall x rest, r_bool (x :: rest) = Ok (x =? 1, 1).
Proof. exact r_bool_decodes. Qed.

(* on arbitrary bytes the buffer readers never panic and never report more than they were given *)
Theorem C01_r_total : forall k b, safe (r_item k b).
Proof. exact r_item_total. Qed.
Theorem C01_r_bounded : forall k b it n, r_item k b = Ok (it, n) -> n <= len b.
Proof. exact r_item_bounded. Qed.

(* sw_eq_enc: for every writer state related to a log state without a sticky error, under every
   dirty-memory oracle: the BufferWriter method returns nil, WrittenLen grows by |enc it|, and the
   next Flush (on a sink that accepts the write) hands the sink the previously written bytes
   followed by exactly enc it.  [writer_contract Sim] is the refinement of the buffered writer
   (C05): Sim is preserved by every operation with equal observations, and related states have
   handed out the same number of regions. *)
Theorem C01_sw_eq_enc : forall Sim, writer_contract Sim ->
  forall dirty it st s,
  Sim st s -> lerr s = None -> (lfake s = true \/ lcalls s + 1 <> lfail s) ->
  exists st1, bw_item dirty st it = Ok (st1, E_NONE) /\
              written_len st1 = written_len st + len (enc it) /\
              exists B, matches (lL s) B /\
                        o_sink (snd (wstep dirty st1 OFlush)) = Some (B ++ enc it) /\
                        o_err (snd (wstep dirty st1 OFlush)) = E_NONE.
Proof. exact sw_eq_enc. Qed.

(* a sequence of values through the stream writer: every method returns nil and the logical
   unflushed string grows by the concatenated encodings *)
Theorem C01_sw_seq_eq_enc : forall Sim, writer_contract Sim ->
  forall dirty its st s,
  Sim st s -> lerr s = None ->
  exists st1 s1, bw_items dirty st its = Ok (st1, map (fun _ => E_NONE) its) /\ Sim st1 s1 /\
                 lL s1 = lL s ++ map Some (concat (map enc its)) /\ lerr s1 = None.
Proof. exact sw_seq_eq_enc. Qed.

(* sr_enc: for every reader state positioned at cursor c of a stream that holds enc it there
   (every source, every fragmentation script that cannot stall, every history): the BufferReader
   method returns the value, the cursor and ReadLen advance by exactly |enc it|.
   [reader_contract At] is the refinement of the buffered reader (C04): Next / ReadBinary return
   exactly the stream bytes at the cursor and advance it, or fail with the cursor unchanged. *)
Theorem C01_sr_enc : forall At, reader_contract At ->
  forall S c st it rest,
  At S c st -> drop c S = enc it ++ rest -> item_ok it = true ->
  exists st', sr_item (kind_of it) st = (st', Ok it) /\ At S (c + len (enc it)) st' /\
              r_readlen st' = r_readlen st + len (enc it) /\ drop (c + len (enc it)) S = rest.
Proof. exact sr_enc. Qed.

(* non-vacuity: the hypotheses are satisfiable for every kind of item, with boundary values *)
Example C01_nonvacuous_items :
  forallb item_ok
    [IBool true; IByte (-128); II16 32767; II32 (-2147483648); II64 9223372036854775807;
     IDouble 18446744073709551615; IBinary []; IString [255; 0; 128]; IFieldBegin (-1) (-32768);
     IFieldStop; IMapBegin 11 12 4294967295; IListBegin 8 2147483647; ISetBegin (-128) 0] = true.
Proof. reflexivity. Qed.

Example C01_nonvacuous_fit :
  let buf := [9; 9; 9; 9; 9; 9; 9] in let it := II32 (-2) in
  2 + len (enc it) <= len buf /\ w_at buf 2 it = Ok ([9; 9; 255; 255; 255; 254; 9], 4) /\
  r_item KI32 (enc it ++ [7]) = Ok (it, 4).
Proof. cbv zeta. split; [vm_compute; discriminate|]. split; reflexivity. Qed.

(* ---- the stream theorems closed (coordinator, after merging C04/C05): the two contracts are
        discharged in Proofs/StreamInst.v by the buffered reader's invariant lemmas (C04) and the
        buffered writer's simulation (C05).  Stream reader: EVERY source (data, final error, error
        with/after the last bytes, fragmentation script incl. 1-byte, short and empty reads) whose
        script cannot stall (no run of maxConsecutiveEmptyReads empty reads); stream writer: after
        EVERY history on every kind of writer. ---- *)
From GV Require Import Spec.Cursor Proofs.BufWriterRef Proofs.BufReaderP Proofs.StreamInst.

Theorem C01_sr_enc_closed : forall s it rest,
  spos s = 0 -> may_stall (schunks s) = false -> sdata s = enc it ++ rest -> item_ok it = true ->
  exists st', sr_item (kind_of it) (new_reader s) = (st', Ok it) /\ r_readlen st' = len (enc it).
Proof. exact sr_enc_closed. Qed.

Theorem C01_sw_eq_enc_closed : forall dirty w0 l0 h it,
  init_pair w0 l0 ->
  let st := fst (wrun dirty w0 h) in let s := fst (log_run l0 h) in
  lerr s = None -> (lfake s = true \/ lcalls s + 1 <> lfail s) ->
  exists st1, bw_item dirty st it = Ok (st1, E_NONE) /\
              written_len st1 = written_len st + len (enc it) /\
              exists B, matches (lL s) B /\
                        o_sink (snd (wstep dirty st1 OFlush)) = Some (B ++ enc it) /\
                        o_err (snd (wstep dirty st1 OFlush)) = E_NONE.
Proof. exact sw_eq_enc_closed. Qed.

Theorem C01_reader_contract_holds : reader_contract At.
Proof. exact reader_contract_holds. Qed.

Theorem C01_writer_contract_holds : writer_contract Sim.
Proof. exact writer_contract_holds. Qed.

(* ---- the same headline theorems for the definitions REGENERATED FROM THE GO SOURCE on every run
        (coq/Gen/Funcs.v, written by tools/gotrans from /repo's current protocol/thrift/binary.go;
        Proofs/GenEquiv.v proves each generated function equal to the hand model above).  A change of
        any of these 59 Go functions changes Gen/Funcs.v and breaks its equivalence lemma — a proof
        obligation of this property — whether or not the random correspondence run reaches it.
        [en] is the package-level switch spanCacheEnable (either value). ---- *)
From GV Require Import Lib.GoSem Gen.Funcs Proofs.GenCorollaries.

Theorem C01_gen_r_enc : forall en it rest,
  item_ok it = true -> wf rest ->
  g_r_item en (kind_of it) (enc it ++ rest) = Ok (it, Z.of_N (len (enc it)), gnil).
Proof. exact g_r_enc. Qed.

Theorem C01_gen_read_i32_enc : forall v rest,
  in_signed 32 v -> g_thrift_ReadI32 (be 4 (u32 v) ++ rest) = Ok (v, 4, gnil)%Z.
Proof. exact g_read_i32_enc. Qed.

Theorem C01_gen_bool_decodes : forall x rest, g_thrift_ReadBool (x :: rest) = Ok (x =? 1, 1%Z, gnil).
Proof. exact g_bool_decodes. Qed.

Theorem C01_gen_r_total : forall en k b, wf b -> safe (g_r_item en k b).
Proof. exact g_r_total. Qed.

Theorem C01_gen_r_bounded : forall en k b it n,
  wf b -> g_r_item en k b = Ok (it, n, gnil) -> (0 <= n <= glen b)%Z.
Proof. exact g_r_bounded. Qed.

Theorem C01_gen_a_eq_enc : forall buf it, item_ok it = true -> g_a_item buf it = Ok (buf ++ enc it).
Proof. exact g_a_eq_enc. Qed.

Theorem C01_gen_len_eq : forall it, item_ok it = true -> g_l_item it = Ok (Z.of_N (len (enc it))).
Proof. exact g_len_eq. Qed.

Theorem C01_gen_w_eq_enc : forall buf it,
  item_ok it = true -> len (enc it) <= len buf ->
  g_w_item buf it = Ok (enc it ++ drop (len (enc it)) buf, Z.of_N (len (enc it))).
Proof. exact g_w_eq_enc. Qed.
