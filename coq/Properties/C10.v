(* Properties/C10.v — TTHeader decode validates hostile frames and keeps the framing arithmetic. *)
From GV Require Import Lib.Bytes Lib.Res Gen.Consts Model.TTHeader Spec.FrameLayout Proofs.TTHeaderP.
Open Scope N_scope.

Theorem C10_consts : c_meta = L_meta /\ c_max = L_max /\ size_bits = 32 /\ gdpr_key = gdpr.
Proof. pose proof consts_ok as H. tauto. Qed.
