(* Properties/C10.v — TTHeader decode validates hostile frames and keeps the framing arithmetic
   (protocol/ttheader/decode.go, utils.go).  Only statements; proofs are in
   Proofs/TTHeaderSec.v (section grammar, DESIGN A.6), Proofs/TTHeaderDec.v, Proofs/TTHeaderP.v.

   [decode b] is the model of Decode over a reader that can deliver exactly the byte string [b]
   (bufiox.NewBytesReader(b), or any stream fragmentation of b — C04): it returns the number of
   bytes consumed (Reader.ReadLen) and the result.  [decode_from_bytes] is DecodeFromBytes.
   Quantification: every [b : list N]; [wf b] says that its elements are bytes (< 256).
   Spec/FrameLayout.v: [declared b] = 4 * the 16-bit size field, a mathematical product;
   [info_of b] = the [declared b] bytes after the 14-byte meta block; [accepts]; the section
   grammar [sec]/[enc_secs]/[secs_ok] and its meaning [ointerp] (later sections override
   earlier ones; a map exists iff a section of its kind occurs). *)
From GV Require Import Lib.Bytes Lib.Res Gen.Consts Model.TTHeader Spec.FrameLayout Proofs.TTHeaderP.
Open Scope N_scope.

(* the values the property names are the ones in the Go source (regenerated on every run) *)
Theorem C10_consts :
  c_meta = L_meta /\ c_magic = L_magic16 * 65536 /\ c_mask = 65535 * 65536 /\ c_max = L_max /\
  c_s32 = 4 /\ c_s16 = 2 /\ id_pad = 0 /\ id_kv = 1 /\ id_intkv = 16 /\ id_acl = 17 /\
  size_bits = 32 /\ ttheader_Decode_headerInfoSize_signed = 0%Z /\
  map Z.to_N ttheader_checkProtocolID_cases = [0; 4; 3; 16; 17] /\ gdpr_key = gdpr /\
  c_streaming = L_streaming.
Proof. exact consts_ok. Qed.

(* no panic, no out-of-bounds access, no exhausted fuel for ANY list (bytes or not); never
   more consumed than the input holds nor than 14 + the declared size *)
Theorem C10_decode_total : forall b,
  safe (snd (decode b)) /\ snd (decode b) <> Err e_fuel /\
  fst (decode b) <= N.min (len b) (L_meta + declared b).
Proof. exact p_decode_total. Qed.

(* success exactly on the frames the layout admits: long enough for 14 + declared, magic
   0x1000, 2 <= declared <= 65536, protocol id in the allow-list, transform count within the
   info, and the remaining info bytes are [enc_secs secs] for some list of complete,
   representable sections (padding may interleave; a zero-count section is 3 bytes; a section
   cut anywhere is an error) *)
Theorem C10_decode_ok_iff : forall b, wf b -> ((exists r, snd (decode b) = Ok r) <-> accepts b).
Proof. exact decode_ok_iff. Qed.

(* ... and then: everything declared is consumed, HeaderLen = 14 + declared, PayloadLen =
   total length + 4 - HeaderLen, flags/sequence id as in the frame, and for EVERY way of
   reading the info as protocol id, transform ids and sections, the protocol id and the two
   maps are the ones those sections denote *)
Theorem C10_decode_ok_values : forall b r,
  wf b -> snd (decode b) = Ok r ->
  fst (decode b) = L_meta + declared b /\
  d_hlen r = Z.of_N (L_meta + declared b) /\
  d_plen r = (Z.of_N (field_at b 0 4) + 4 - d_hlen r)%Z /\
  d_flags r = field_at b 6 2 /\ d_seq r = to_signed 32 (field_at b 8 4) /\
  forall pid nt rest secs,
    info_of b = pid :: nt :: rest -> secs_ok secs -> drop nt rest = enc_secs secs ->
    d_pid r = pid /\ d_int r = fst (ointerp secs) /\ d_str r = snd (ointerp secs).
Proof. exact p_decode_ok_values. Qed.

(* the section reader against the grammar (DESIGN A.6), both directions, from any index *)
Theorem C10_sections_parse : forall secs fuel buf idx im sm,
  secs_ok secs -> drop idx buf = enc_secs secs -> (length (enc_secs secs) < fuel)%nat ->
  read_kv_info fuel buf idx im sm = Ok (ointerp_from (im, sm) secs).
Proof. exact kv_fwd. Qed.

Theorem C10_sections_only : forall fuel buf idx im sm r,
  wf buf -> read_kv_info fuel buf idx im sm = Ok r ->
  exists secs, secs_ok secs /\ drop idx buf = enc_secs secs /\ r = ointerp_from (im, sm) secs.
Proof. exact kv_bwd. Qed.

(* the executable reference the correspondence run judges the implementation with
   (Spec/FrameLayout.v: parse_secs, spec_decode) decides exactly the declarative grammar and
   [accepts], and the model of Decode is the same function as the reference decoder on every
   byte string: result, bytes consumed, and failure *)
Theorem C10_parse_secs_iff : forall b secs,
  wf b -> (parse_secs b = Some secs <-> secs_ok secs /\ b = enc_secs secs).
Proof. exact parse_secs_iff. Qed.

Theorem C10_spec_decode_accepts : forall b, wf b -> ((exists s, spec_decode b = Some s) <-> accepts b).
Proof. exact spec_decode_accepts. Qed.

Theorem C10_decode_refines_spec : forall b,
  wf b ->
  match spec_decode b with
  | Some s => decode b = (L_meta + declared b, Ok (of_spec s))
  | None => exists e, snd (decode b) = Err e
  end.
Proof. exact decode_refines_spec. Qed.

(* DecodeFromBytes (also the entry point C03 exercises): total, and a successful result never
   reports a header longer than the input *)
Theorem C10_decode_from_bytes_total : forall b,
  safe (decode_from_bytes b) /\ decode_from_bytes b <> Err e_fuel.
Proof. exact p_decode_from_bytes_total. Qed.

Theorem C10_decode_from_bytes_hlen : forall b r,
  wf b -> decode_from_bytes b = Ok r ->
  (Z.of_N L_meta + 2 <= d_hlen r <= Z.of_N (len b))%Z /\ d_hlen r = Z.of_N (L_meta + declared b).
Proof. exact p_decode_from_bytes_hlen. Qed.

(* ---------- non-vacuity ---------- *)
(* a frame with three transform ids, interleaved padding, repeated sections (the later "a"
   overrides the earlier, the string-keyed token overrides the ACL section), an empty string
   section and a 5-byte payload: accepted, with exactly these values *)
Definition ex_secs : list sec :=
  [Pad; KV [([97], [49])]; Pad; Pad; IntKV [(1, [120]); (1, [121])]; ACL [116; 49];
   KV [([97], [50]); (gdpr, [116; 50])]; KV []].
Definition ex_info : bytes := [4; 3; 9; 8; 7] ++ enc_secs ex_secs ++ [0].
Definition ex_frame : bytes :=
  be 4 (14 + len ex_info + 5 - 4) ++ be 2 L_magic16 ++ be 2 2 ++ be 4 4294967295
     ++ be 2 (len ex_info / 4) ++ ex_info ++ [1; 2; 3; 4; 5].

Example C10_nonvacuous_accept :
  wf ex_frame /\ accepts ex_frame /\ secs_ok ex_secs /\
  exists r, decode ex_frame = (14 + len ex_info, Ok r) /\
            d_hlen r = Z.of_N (14 + len ex_info) /\ d_plen r = 5%Z /\ d_seq r = (-1)%Z /\
            d_flags r = 2 /\ d_pid r = 4 /\
            d_int r = Some [(1, [121]); (1, [120])] /\
            option_map (slookup [97]) (d_str r) = Some (Some [50]) /\
            option_map (slookup gdpr) (d_str r) = Some (Some [116; 50]).
Proof.
  assert (Hw : wf ex_frame) by (apply wfbb_wf; vm_compute; reflexivity).
  split; [exact Hw|]. split.
  - apply (decode_ok_iff ex_frame Hw). vm_compute. eexists. reflexivity.
  - split.
    + apply Forall_forall. intros s Hs. vm_compute in Hs.
      repeat (destruct Hs as [<-|Hs]; [cbn; repeat constructor; cbn; try lia|]); try contradiction.
    + eexists. split; [vm_compute; reflexivity|]. vm_compute. repeat split.
Qed.

(* rejected: size field 0x4001 (the former 16-bit wrap-around accepted it as 4 bytes), a
   section cut in the middle, an unknown info id, an unsupported protocol id, fewer bytes
   than declared *)
Example C10_nonvacuous_reject :
  let fr sf info := be 4 100 ++ be 2 L_magic16 ++ be 2 0 ++ be 4 1 ++ be 2 sf ++ info in
  decode (fr 16385 [0; 0; 0; 0; 0; 0; 0; 0]) = (14, Err e_size) /\
  decode (fr 0 [0; 0; 0; 0]) = (14, Err e_size) /\
  decode (fr 2 [0; 0; 1; 0; 1; 0; 1; 97]) = (22, Err e_kv) /\
  decode (fr 1 [0; 0; 2; 0]) = (18, Err e_infoid) /\
  decode (fr 1 [2; 0; 0; 0]) = (18, Err e_pid) /\
  decode (fr 1 [0; 3; 0; 0]) = (18, Err e_trans) /\
  decode (fr 2 [0; 0; 0; 0; 0; 0; 0]) = (14, Err e_short2) /\
  decode [0; 0; 0; 0; 16; 0] = (0, Err e_short) /\
  decode (be 4 100 ++ be 2 4097 ++ be 2 0 ++ be 4 1 ++ be 2 1 ++ [0; 0; 0; 0]) = (14, Err e_magic).
Proof. vm_compute. repeat split. Qed.

(* ---- the checked readers of utils.go and the protocol-id allow-list, for the definitions
        REGENERATED FROM THE GO SOURCE on every run (Gen/Funcs.v by tools/gotrans from
        protocol/ttheader/utils.go and decode.go; equivalences in Proofs/GenEquivTTH.v): a change of
        Bytes2Uint8/16, ReadString2BLen, IsTTHeader, IsStreaming or checkProtocolID changes the
        generated definition and breaks its equivalence lemma, a proof obligation of this property ---- *)
From GV Require Import Lib.GoSem Gen.Funcs Proofs.GenLib Proofs.GenCorollariesTTH.

Theorem C10_gen_bytes2uint16 : forall buf off,
  glen_ok buf -> (Z.of_N off < 2 ^ 63)%Z ->
  unerr (g_ttheader_Bytes2Uint16 buf (Z.of_N off)) =
  match drop off buf with a :: b :: _ => Ok (Z.of_N (a * 256 + b)) | _ => Err e_eof end.
Proof. exact g_b2u16_spec. Qed.

Theorem C10_gen_bytes2uint8 : forall buf off,
  glen_ok buf -> (Z.of_N off < 2 ^ 63)%Z ->
  unerr (g_ttheader_Bytes2Uint8 buf (Z.of_N off)) =
  match drop off buf with [] => Err e_eof | x :: _ => Ok (Z.of_N x) end.
Proof. exact g_b2u8_spec. Qed.

Theorem C10_gen_read_string_safe : forall buf off,
  wf buf -> glen_ok buf -> (Z.of_N off < 2 ^ 63)%Z -> safe (g_ttheader_ReadString2BLen buf (Z.of_N off)).
Proof. exact g_read_str2_safe. Qed.

Theorem C10_gen_check_protocol_id : forall pid,
  g_ttheader_checkProtocolID (Z.of_N pid) = Ok gnil <-> In (Z.of_N pid) ttheader_checkProtocolID_cases.
Proof. exact g_check_protocol_id. Qed.

(* ---- phase 2 of the translator: the WHOLE decoder regenerated from the Go source — readKVInfo,
        readIntKVInfo, readStrKVInfo, readACLToken (loops on fuel over the info bytes, *int index
        threaded, Go maps as association lists) and Decode over an abstract bufiox.Reader — is
        proved equal to the hand model (Proofs/GenEquivTTH2.v), so C10's headline theorems hold of
        the regenerated definitions for EVERY fuel above the input length ([er]: the reader's
        error code when the stream is too short) ---- *)
From GV Require Import Proofs.GenEquivTTH2 Proofs.GenCorollariesTTH2.

Theorem C10_gen_decode_total : forall er b fuel,
  wf b -> glen_ok b -> (length b < fuel)%nat ->
  match g_decode er fuel b with
  | Ok (st, _, _, _, _, _, _, _, _) =>
    snd st <= N.min (len b) (L_meta + declared b) /\ fst st = drop (snd st) b
  | Err _ | Panic _ | OOB => False
  end.
Proof. exact g_decode_total. Qed.

Theorem C10_gen_decode_ok_iff : forall er b fuel,
  wf b -> glen_ok b -> (length b < fuel)%nat ->
  ((exists st fl sq pid im sm hl pl, g_decode er fuel b = Ok (st, fl, sq, pid, im, sm, hl, pl, gnil)) <-> accepts b).
Proof. exact g_decode_ok_iff. Qed.

Theorem C10_gen_sections_parse : forall secs fuel buf idx,
  wf buf -> glen_ok buf -> idx <= len buf -> (length buf < fuel)%nat ->
  secs_ok secs -> drop idx buf = enc_secs secs ->
  g_ttheader_readKVInfo fuel (Z.of_N idx) buf = Ok (kvemb (ointerp secs), gnil).
Proof. exact g_sections_parse. Qed.

Theorem C10_gen_sections_only : forall fuel buf idx r,
  wf buf -> glen_ok buf -> idx <= len buf -> (length buf < fuel)%nat ->
  g_ttheader_readKVInfo fuel (Z.of_N idx) buf = Ok (r, gnil) ->
  exists secs, secs_ok secs /\ drop idx buf = enc_secs secs /\ r = kvemb (ointerp secs).
Proof. exact g_sections_only. Qed.
