(* Properties/C08.v — interim: regression facts by computation (theorems follow) *)
From GV Require Import Lib.Bytes Lib.Res Model.Binary Model.Skip.
Theorem C08_d2_regression : binary_skip (hx "0b0a000000010000000161ee") 13 = Err e_too_short.
Proof. vm_compute. reflexivity. Qed.
