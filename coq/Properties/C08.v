(* Properties/C08.v — skippers reject malformed input and agree with the grammar; recursion is
   bounded.  Statements only; proofs are in Proofs/{RefP,SkipP,SkipDecodersP,SkipInstP,StreamSkipP,
   StreamSkipInst,C08P}.v (and Proofs/GrammarP.v, ReadFullP.v by engineer skipv, BufReaderP.v by
   engineer reader).

   gparse t r        the unbounded Thrift Binary grammar: Ok (extent, container height) or Err
   refparse i d t r  the reference parser with a recursion budget d, spending it like
                     implementation i (inl_all: Binary.Skip, inl_br: BufferReader.Skip,
                     inl_none: SkipDecoderTpl)
   acc_iff_ref x i t r   "outcome x : res N is Ok n exactly when refparse i 64 t r = Ok n, and
                     otherwise a real error (not a panic, an out-of-bounds load or exhausted fuel)" *)
From GV Require Import Lib.Bytes Lib.Res Gen.Consts Spec.Cursor Model.Binary Model.BufReader Model.Skip
  Model.StreamSkip Model.SkipDecoders Spec.ThriftGrammar Spec.RefParse
  Proofs.RefLib Proofs.RefP Proofs.SkipLib Proofs.SkipP Proofs.SkipDecodersP Proofs.ReadFullP Proofs.SkipInstP
  Proofs.StreamSkipP Proofs.BufReaderP Proofs.StreamSkipInst Proofs.GrammarP Proofs.C08P.
Open Scope N_scope.

(* ================= the recursion budget is the property's 64 ================= *)
Theorem C08_depth_is_64 : depth0 = 64%nat.
Proof. exact depth_ok. Qed.

(* ================= reference parser vs grammar, for every inlining policy ================= *)
Theorem C08_ref_agrees_le63 : forall i t r n h,
  gparse t r = Ok (n, h) -> (h <= 63)%nat -> refparse i 64 t r = Ok n.
Proof. intros i t r n h G H. exact (ref_agrees i 64 t r n h G ltac:(lia)). Qed.

Theorem C08_ref_sound : forall i t r n,
  refparse i 64 t r = Ok n -> exists h, (h <= 64)%nat /\ gparse t r = Ok (n, h).
Proof. intros i t r n. exact (ref_sound i 64 t r n). Qed.

Theorem C08_ref_rejects_ge65 : forall i t r n h,
  gparse t r = Ok (n, h) -> (65 <= h)%nat -> exists e, refparse i 64 t r = Err e.
Proof. intros i t r n h G H. exact (ref_rejects i 64 t r n h G ltac:(lia)). Qed.

(* ================= each model is its reference instance ================= *)
(* Binary.Skip: all byte strings, all type bytes — full strength *)
Theorem C08_bskip_is_ref : forall b t n, wf b -> t < 256 ->
  (binary_skip b t = Ok n <-> refparse inl_all 64 t b = Ok n).
Proof. exact bskip_is_ref. Qed.

(* never a panic, never a load outside the slice *)
Theorem C08_bskip_safe : forall b t, wf b -> t < 256 -> safe (binary_skip b t).
Proof. exact bskip_safe. Qed.

(* Ok or a real error: the loop fuel of the model is never exhausted *)
Theorem C08_bskip_total : forall b t, wf b -> t < 256 ->
  (exists n, binary_skip b t = Ok n) \/ (exists c, binary_skip b t = Err c /\ c <> e_fuel).
Proof. exact bskip_total. Qed.

Theorem C08_bskip_bounded : forall b t n, wf b -> t < 256 -> binary_skip b t = Ok n -> 1 <= n <= len b.
Proof. exact bskip_bounded. Qed.

(* skipType with any budget d (the verif hook) *)
Theorem C08_bskip_depth_is_ref : forall b t d n, wf b -> t < 256 ->
  (skip_type_depth b t d = Ok n <-> refparse inl_all d t b = Ok n).
Proof. exact bskip_depth_is_ref. Qed.

Theorem C08_binary_acc : forall b t, wf b -> t < 256 -> acc_iff_ref (binary_skip b t) inl_all t b.
Proof. exact binary_acc. Qed.

(* The generic template over ANY SkipN that satisfies the contract (Rep s r: "s delivers exactly r
   next"), any budget, inputs of any length *)
Theorem C08_tskip_is_ref :
  forall (St : Type) (skipN : St -> N -> sres St bytes) (Rep : St -> bytes -> Prop),
  (forall s r n, Rep s r -> n <= len r -> exists s', skipN s n = (s', Ok (take n r)) /\ Rep s' (drop n r)) ->
  (forall s r n, Rep s r -> len r < n -> exists s' c, skipN s n = (s', Err c) /\ c <> e_fuel) ->
  (forall s r, Rep s r -> wf r) ->
  forall fu d s r t, Rep s r -> t < 256 -> (length r < fu)%nat ->
  match rp inl_none d t r with
  | Ok (n, _) => exists s', tskip skipN d fu s t = (s', Ok tt) /\ Rep s' (drop n r)
  | Err _ => exists s' c, tskip skipN d fu s t = (s', Err c) /\ c <> e_fuel
  | _ => False
  end.
Proof. exact tskip_sim. Qed.

(* BytesSkipDecoder.Next: returns exactly the first n bytes, keeps the rest *)
Theorem C08_bytes_decoder_is_ref : forall b t d, wf b -> t < 256 ->
  match rp inl_none d t b with
  | Ok (n, _) => bs_next_depth (bs_new b) t d = ({| bs_b := drop n b; bs_n := 0 |}, Ok (take n b))
  | Err _ => exists s c, bs_next_depth (bs_new b) t d = (s, Err c) /\ c <> e_fuel
  | _ => False
  end.
Proof. exact bs_next_is_ref. Qed.

Theorem C08_bytes_decoder_acc : forall b t, wf b -> t < 256 ->
  acc_iff_ref (bs_extent b t) inl_none t b.
Proof. exact bs_acc. Qed.

Theorem C08_bytes_decoder_safe : forall b t, wf b -> t < 256 ->
  safe (snd (bs_next (bs_new b) t)).
Proof. exact bs_next_safe. Qed.

(* ReaderSkipDecoder.Next over EVERY scripted source: any fragmentation incl. empty reads, any final
   error (delivered with the last bytes or after them); the source is advanced by exactly n *)
Theorem C08_readfull_decoder_is_ref : forall src blen t d,
  wf (sdata src) -> spos src <= len (sdata src) -> sfinal src <> e_fuel -> t < 256 ->
  match rp inl_none d t (drop (spos src) (sdata src)) with
  | Ok (n, _) => exists s', rf_next_depth (rf_new src blen) t d
                              = (s', Ok (take n (drop (spos src) (sdata src)))) /\
                            spos (rf_src s') = spos src + n /\ sdata (rf_src s') = sdata src
  | Err _ => exists s' c, rf_next_depth (rf_new src blen) t d = (s', Err c) /\ c <> e_fuel
  | _ => False
  end.
Proof. exact rf_next_is_ref. Qed.

Theorem C08_readfull_decoder_acc : forall src blen t,
  wf (sdata src) -> spos src <= len (sdata src) -> sfinal src <> e_fuel -> t < 256 ->
  acc_iff_ref (rf_extent src blen t) inl_none t (drop (spos src) (sdata src)).
Proof. exact rf_acc. Qed.

(* The two bufiox-backed skippers, for every reachable reader state [SAt S c st]: any source, any
   fragmentation script that cannot stall, any history (Proofs/BufReaderP.v, property C04) *)
Theorem C08_bufferreader_is_ref : forall S c st t d,
  wf S -> SAt S c st -> c <= len S -> t < 256 ->
  match rp inl_br d t (drop c S) with
  | Ok (n, _) => exists st', br_skip_depth st t d = (st', Ok tt) /\ SAt S (c + n) st' /\
                             r_readlen st' = r_readlen st + n
  | Err _ => exists st' e, br_skip_depth st t d = (st', Err e) /\ e <> e_fuel
  | _ => False
  end.
Proof. exact brskip_is_ref_closed. Qed.

Theorem C08_bufferreader_acc : forall S c st t,
  wf S -> SAt S c st -> t < 256 -> acc_iff_ref (br_extent st t) inl_br t (drop c S).
Proof. exact br_acc. Qed.

Theorem C08_peek_decoder_is_ref : forall S c st t d rn0,
  wf S -> SAt S c st -> c <= len S -> t < 256 ->
  match rp inl_none d t (drop c S) with
  | Ok (n, _) => exists st', pk_next_depth {| pk_r := st; pk_rn := rn0 |} t d
                               = ({| pk_r := st'; pk_rn := n |}, Ok (take n (drop c S))) /\
                             SAt S (c + n) st' /\ r_readlen st' = r_readlen st + n
  | Err _ => exists s' e, pk_next_depth {| pk_r := st; pk_rn := rn0 |} t d = (s', Err e) /\ e <> e_fuel
  | _ => False
  end.
Proof. exact pk_next_is_ref_closed. Qed.

Theorem C08_peek_decoder_acc : forall S c st rn0 t,
  wf S -> SAt S c st -> t < 256 -> acc_iff_ref (pk_extent st rn0 t) inl_none t (drop c S).
Proof. exact pk_acc. Qed.

(* The same two theorems parametric in the reader contract (what they need from the reader) *)
Theorem C08_bufferreader_is_ref_contract :
  forall At : bytes -> N -> rstate -> Prop,
  (forall S c st n, At S c st -> c + n <= len S ->
     exists st', r_next st (Z.of_N n) = (st', OBytes (take n (drop c S))) /\ At S (c + n) st' /\
                 r_readlen st' = r_readlen st + n) ->
  (forall S c st n, At S c st -> len S < c + n ->
     exists st' e, r_next st (Z.of_N n) = (st', OErr e) /\ At S c st' /\ r_readlen st' = r_readlen st /\
                   (0 <= e < 99)%Z) ->
  (forall S c st n, At S c st -> c + n <= len S ->
     exists st', r_skip st (Z.of_N n) = (st', OUnit) /\ At S (c + n) st' /\
                 r_readlen st' = r_readlen st + n) ->
  (forall S c st n, At S c st -> len S < c + n ->
     exists st' e, r_skip st (Z.of_N n) = (st', OErr e) /\ At S c st' /\ r_readlen st' = r_readlen st /\
                   (0 <= e < 99)%Z) ->
  (forall S c st n, At S c st -> c + n <= len S ->
     exists st', r_peek st (Z.of_N n) = (st', OBytes (take n (drop c S))) /\ At S c st' /\
                 r_readlen st' = r_readlen st) ->
  (forall S c st n, At S c st -> len S < c + n ->
     exists st' e, r_peek st (Z.of_N n) = (st', OErr e) /\ At S c st' /\ r_readlen st' = r_readlen st /\
                   (0 <= e < 99)%Z) ->
  (forall S c st, At S c st -> (length (drop c S) <= length (win st) + length (sdata (src st)))%nat) ->
  forall S c st t d, wf S -> At S c st -> c <= len S -> t < 256 ->
  match rp inl_br d t (drop c S) with
  | Ok (n, _) => exists st', br_skip_depth st t d = (st', Ok tt) /\ At S (c + n) st' /\
                             r_readlen st' = r_readlen st + n
  | Err _ => exists st' e, br_skip_depth st t d = (st', Err e) /\ e <> e_fuel
  | _ => False
  end.
Proof. exact brskip_is_ref. Qed.

(* ================= negative declared sizes: the repaired finding (/repo 2c7f196) =================
   Before the repair SkipDecoderTpl read a STRING length, and BufferReader the container counts, as
   int(uint32): with the sign bit set and >= 2^31 bytes following, the value was accepted (the five
   skippers disagreed; the unbounded statements C08_bytes_decoder_acc / C08_bufferreader_acc were
   refuted by 80000000 ++ 2^31 bytes and 02 80000000 ++ 2^31 bytes).  They are now theorems for inputs
   of any length; the former witnesses are rejected whatever (and however much) follows: *)
Theorem C08_negative_string_rejected : forall tail, wf tail ->
  let b := be 4 two31 ++ tail in
  gparse T_STRING b = Err E_NEGSIZE /\ (exists c, bs_extent b T_STRING = Err c /\ c <> e_fuel) /\
  (exists c, binary_skip b T_STRING = Err c /\ c <> e_fuel).
Proof. exact neg_string_rejected. Qed.

Theorem C08_negative_count_rejected : forall tail, wf tail ->
  let S := 2 :: be 4 two31 ++ tail in
  let st := new_bytes_reader S (len S) in
  gparse T_LIST S = Err E_NEGSIZE /\ (exists c, br_extent st T_LIST = Err c /\ c <> e_fuel).
Proof. exact neg_count_rejected. Qed.

(* small-scale regression: a sign-bit size is rejected AS NEGATIVE by every model (before the repair
   the stream models answered "source exhausted" here, and accepted when 2^31 bytes followed) *)
Example C08_ex_sign_bit_sizes :
  let s := hx "8000000000" in let l := hx "0280000000ff" in let m := hx "0b0280000000ff" in
  let src d := {| sdata := d; sfinal := e_eof; swith := false; schunks := [2; 0; 1]; spos := 0 |} in
  binary_skip s 11 = Err e_neg_size /\ snd (bs_next (bs_new s) 11) = Err e_neg_size /\
  snd (rf_next (rf_new (src s) 0) 11) = Err e_neg_size /\ snd (pk_next (pk_new (new_reader (src s))) 11) = Err e_neg_size /\
  snd (br_skip (new_reader (src s)) 11) = Err e_neg_size /\
  binary_skip l 15 = Err e_neg_size /\ snd (bs_next (bs_new l) 15) = Err e_neg_size /\
  snd (br_skip (new_reader (src l)) 15) = Err e_neg_size /\ snd (br_skip (new_reader (src l)) 14) = Err e_neg_size /\
  snd (br_skip (new_reader (src m)) 13) = Err e_neg_size /\ snd (pk_next (pk_new (new_reader (src m))) 13) = Err e_neg_size.
Proof. cbv zeta. repeat split; vm_compute; reflexivity. Qed.

(* spelled out for Binary.Skip (instances of C08_rejects_malformed through C08_binary_acc) *)
Theorem C08_binary_rejects_negative_size : forall b t, wf b -> t < 256 ->
  gparse t b = Err E_NEGSIZE -> exists c, binary_skip b t = Err c /\ c <> e_fuel.
Proof. intros b t W Ht G. exact (z_rejects_malformed _ _ _ _ (binary_acc b t W Ht) E_NEGSIZE G). Qed.

Theorem C08_binary_rejects_unknown_tag : forall b t, wf b -> t < 256 ->
  gparse t b = Err E_BADTYPE -> exists c, binary_skip b t = Err c /\ c <> e_fuel.
Proof. intros b t W Ht G. exact (z_rejects_malformed _ _ _ _ (binary_acc b t W Ht) E_BADTYPE G). Qed.

(* ================= the property, for every skipper that is its reference instance ================= *)
(* exact up to 63 levels *)
Theorem C08_exact_le63 : forall x i t r, acc_iff_ref x i t r -> forall n h,
  gparse t r = Ok (n, h) -> (h <= 63)%nat -> x = Ok n.
Proof. exact z_exact_le63. Qed.

(* never a shorter or longer extent; never accepts what the grammar rejects; at most 64 levels *)
Theorem C08_never_wrong_extent : forall x i t r, acc_iff_ref x i t r -> forall n,
  x = Ok n -> exists h, (h <= 64)%nat /\ gparse t r = Ok (n, h).
Proof. exact z_sound. Qed.

(* 65 levels or more: always rejected with an error *)
Theorem C08_rejects_ge65 : forall x i t r, acc_iff_ref x i t r -> forall n h,
  gparse t r = Ok (n, h) -> (65 <= h)%nat -> exists c, x = Err c /\ c <> e_fuel.
Proof. exact z_rejects_ge65. Qed.

(* everything the grammar rejects — truncation (E_TRUNC), every negative declared size the parse
   reaches (E_NEGSIZE), every unknown type tag that has to be parsed (E_BADTYPE) — is rejected *)
Theorem C08_rejects_malformed : forall x i t r, acc_iff_ref x i t r -> forall e,
  gparse t r = Err e -> exists c, x = Err c /\ c <> e_fuel.
Proof. exact z_rejects_malformed. Qed.

(* every strict prefix of the encoding of a well-typed value is rejected *)
Theorem C08_prefix_rejected : forall (f : bytes -> res N) i t v p s,
  acc_iff_ref (f p) i t p -> wt t v = true -> enc v = p ++ s -> s <> [] ->
  exists c, f p = Err c /\ c <> e_fuel.
Proof. exact z_prefix_rejected. Qed.

(* what is accepted is the encoding of a well-typed value of container height <= 64 *)
Theorem C08_accepts_only_values : forall x i t r n, acc_iff_ref x i t r -> wf r ->
  x = Ok n -> exists v, wt t v = true /\ enc v = take n r /\ (ch v <= 64)%nat.
Proof. intros x i t r n H W E. exact (z_accepts_values x i t r H n W E). Qed.

(* spelled out for Binary.Skip (full strength: all byte strings, all type bytes) *)
Theorem C08_binary_prefix_rejected : forall t v p s,
  wt t v = true -> enc v = p ++ s -> s <> [] -> exists c, binary_skip p t = Err c /\ c <> e_fuel.
Proof.
  intros t v p s Hw He Hs.
  apply (z_prefix_rejected (fun p => binary_skip p t) inl_all t v p s); try assumption.
  apply binary_acc; [|eapply wt_lt256; eauto].
  pose proof (enc_wf v t Hw) as W. rewrite He in W. unfold wf in *. apply Forall_app in W. tauto.
Qed.

(* ================= non-vacuity ================= *)
(* wf b, t < 256: a map<string,i64> with one entry *)
Example C08_ex_binary : exists b t, wf b /\ t < 256 /\ binary_skip b t = Ok 19 /\
                                    bs_extent b t = Ok 19 /\ gparse t b = Ok (19, 1%nat).
Proof.
  exists (hx "0b0a0000000100000001610000000000000001ff"), 13.
  split; [apply wfbb_wf; reflexivity|]. repeat split; vm_compute; reflexivity.
Qed.

(* the rejection zones are inhabited: a negative size, an unknown tag that has to be parsed *)
Example C08_ex_malformed :
  gparse 15 (hx "0880000000") = Err E_NEGSIZE /\ gparse 15 (hx "800000000100") = Err E_BADTYPE /\
  binary_skip (hx "0880000000") 15 = Err e_neg_size /\ binary_skip (hx "800000000100") 15 = Err e_unknown_type.
Proof. repeat split; vm_compute; reflexivity. Qed.

(* heights 64 and 65: one list level around n-1 nested empty-struct fields *)
Fixpoint C08_nest (n : nat) : bytes :=
  match n with O => [0] | S n' => [12; 0; 1] ++ C08_nest n' ++ [0] end.
Example C08_ex_depth :
  gparse 12 (C08_nest 62) = Ok (249, 63%nat) /\ binary_skip (C08_nest 62) 12 = Ok 249 /\
  gparse 12 (C08_nest 64) = Ok (257, 65%nat) /\ binary_skip (C08_nest 64) 12 = Err e_depth.
Proof. repeat split; vm_compute; reflexivity. Qed.

(* the SkipN contract is satisfiable: the BytesSkipDecoder instance *)
Example C08_ex_contract : forall b0,
  (forall s r n, bs_rep b0 s r -> n <= len r -> exists s', bs_skipN s n = (s', Ok (take n r)) /\ bs_rep b0 s' (drop n r)) /\
  (forall s r n, bs_rep b0 s r -> len r < n -> exists s' c, bs_skipN s n = (s', Err c) /\ c <> e_fuel) /\
  (forall s r, bs_rep b0 s r -> wf r).
Proof. intros b0. split; [apply bs_SN_ok|]. split; [apply bs_SN_fail|apply bs_rep_wf]. Qed.

(* reachable reader states exist (a bytes-backed reader and a 1-byte-per-Read source), and both
   bufiox-backed skippers accept there; a scripted source for the ReadFull decoder *)
Example C08_ex_readers :
  let data := hx "0b0a0000000100000001610000000000000001ff" in
  let s := {| sdata := data; sfinal := e_eof; swith := true; schunks := repeat 1 30; spos := 0 |} in
  SAt data 0 (new_bytes_reader data (len data)) /\ SAt data 0 (new_reader s) /\
  br_extent (new_reader s) 13 = Ok 19 /\ pk_extent (new_bytes_reader data (len data)) 0 13 = Ok 19 /\
  rf_extent s 0 13 = Ok 19.
Proof.
  cbv zeta. split; [apply sat_new_bytes_reader; lia|]. split.
  - apply (sat_new_reader {| sdata := hx "0b0a0000000100000001610000000000000001ff"; sfinal := e_eof; swith := true; schunks := repeat 1 30; spos := 0 |});
      [reflexivity|vm_compute; reflexivity|unfold e_eof; cbn; lia].
  - repeat split; vm_compute; reflexivity.
Qed.

(* ---- the generic skip template and BufferReader.Skip REGENERATED FROM THE GO SOURCE on every run
        (tools/gotrans phase 2: SkipDecoderTpl.Skip as a function parametric in the SkipN model, with
        structural recursion on the depth budget and loops on fuel; BufferReader.skipType/Skip over
        the bufiox reader model) are proved equal to the hand models tskip / br_skip
        (Proofs/GenEquivSkip.v, GenEquivBR.v); C08's agreement with the reference parser therefore
        holds of the regenerated definitions, for every fuel large enough ---- *)
From GV Require Import Lib.GoSem Gen.Funcs Proofs.GenLib Proofs.GenCorollariesSkip Proofs.GenCorollariesBR.

Theorem C08_gen_bytes_decoder_is_ref : forall b t rfuel fuel,
  wf b -> t < 256 -> (depth0 < rfuel)%nat -> (S (length b) < fuel)%nat ->
  match rp inl_none depth0 t b with
  | Ok (n, _) => g_tskip bs_skipN rfuel fuel (bs_new b) t depth0 = Ok ({| bs_b := b; bs_n := n |}, gnil)
  | Err _ => exists s c, g_tskip bs_skipN rfuel fuel (bs_new b) t depth0 = Ok (s, Some c) /\ c <> e_fuel
  | _ => False
  end.
Proof. exact g_bs_skip_depth0. Qed.

Theorem C08_gen_bufferreader_skip_ok : forall D F CH, wf D -> forall c st t st' rfuel fuel,
  RInv D F CH c st -> (depth0 < rfuel)%nat -> (r_fuel st < fuel)%nat -> t < 256 ->
  br_skip st t = (st', Ok tt) -> g_br_skip rfuel fuel st t = Ok (st', gnil).
Proof. exact g_br_skip_ok. Qed.

Theorem C08_gen_bufferreader_skip_err : forall D F CH, wf D -> forall c st t st' e rfuel fuel,
  RInv D F CH c st -> (depth0 < rfuel)%nat -> (r_fuel st < fuel)%nat -> t < 256 ->
  br_skip st t = (st', Err e) -> e <> e_fuel -> g_br_skip rfuel fuel st t = Ok (st', Some e).
Proof. exact g_br_skip_err. Qed.

(* BytesSkipDecoder.Next starts from offset 0 of what is left, whatever an earlier Next that failed
   part-way left behind (repair of /repo: p.n = 0 at entry) *)
Theorem C08_bytes_decoder_forgets_stale_offset : forall b k t,
  bs_next {| bs_b := b; bs_n := k |} t = bs_next (bs_new b) t.
Proof. exact bs_next_forgets_offset. Qed.
