(* Properties/C09.v — zero-copy slices stay valid until Release/Flush; caller memory is never
   touched.  Statements over the heap-level models (Model/Own*.v): every history interleaves
   operations of the object (each with an arbitrary allocator oracle and arbitrary co-tenant
   scripts for every io callback and every pool operation inside it) with arbitrary co-tenant
   activity between operations, starting in an arbitrary well-formed world. *)
From GV Require Import Lib.Bytes Lib.Heap Model.Own Model.OwnReader Spec.Ownership
  Proofs.OwnLib Proofs.OwnTrace Proofs.OwnReaderP.
Open Scope N_scope.

(* every slice handed out by Next/Peek (and thrift.SkipDecoder.Next) since the last Release
   still reads as the stream bytes it was returned with *)
Theorem C09_reader_slices_stable :
  forall (src : source) (w0 : world) (h : list hstep) st w tr outs,
    wok w0 -> spos src = 0 ->
    run (new_reader src, w0, []) h = (st, w, tr, outs) ->
    Forall (fun l => rd (wh w) (lblk l) (loff l) (llen l) = seg_at (sdata src) (lpos l) (llen l)) (rlive st).
Proof. exact reader_slices_stable. Qed.

Theorem C09_bytes_reader_slices_stable :
  forall (w0 : world) (pre data spare : bytes) st0 e0 (h : list hstep) st w tr outs,
    wok w0 -> new_bytes_reader (mkE w0 [] [] [] []) pre data spare = (st0, e0) ->
    run (st0, ew e0, eev e0) h = (st, w, tr, outs) ->
    Forall (fun l => rd (wh w) (lblk l) (loff l) (llen l) = seg_at data (lpos l) (llen l)) (rlive st).
Proof. exact bytes_reader_slices_stable. Qed.

(* no reader step writes or frees the caller's buffer (any capacity, any offset), only whole
   allocator blocks are ever freed, and a freed block is never read, written or freed again
   unless the allocator hands it back *)
Theorem C09_reader_caller_untouched_no_use_after_free :
  forall (src : source) (w0 : world) (h : list hstep) st w tr outs,
    wok w0 -> spos src = 0 ->
    run (new_reader src, w0, []) h = (st, w, tr, outs) ->
    no_use_after_free (rev tr) /\ caller_untouched (rev tr) /\ frees_whole_blocks (rev tr).
Proof. exact reader_trace_ok. Qed.

Theorem C09_bytes_reader_caller_untouched_no_use_after_free :
  forall (w0 : world) (pre data spare : bytes) st0 e0 (h : list hstep) st w tr outs,
    wok w0 -> new_bytes_reader (mkE w0 [] [] [] []) pre data spare = (st0, e0) ->
    run (st0, ew e0, eev e0) h = (st, w, tr, outs) ->
    no_use_after_free (rev tr) /\ caller_untouched (rev tr) /\ frees_whole_blocks (rev tr).
Proof. exact bytes_reader_trace_ok. Qed.

(* non-vacuity: slices retained across two growths (two parked buffers) while the co-tenant is
   active; then Releases that free, a co-tenant that takes a freed block, scribbles over it
   and frees it, and the reader getting a pooled block back from the allocator *)
Definition ex_src : source := mkSrc (pat 3 20000) e_eof false [] 0.
Definition ex_hist1 : list hstep :=
  [SOp (HNext 10) [] [] []; SOp (HNext 5000) [] [] []; SCo [CoAlloc 64 (Fresh [])];
   SOp (HPeek 9000) [] [] []].
Definition ex_hist2 : list hstep :=
  ex_hist1 ++
  [SOp HRelease [] [] [];
   SCo [CoAlloc 4096 (Pooled 0); CoWrite 0 0 [1; 2; 3]; CoFree 0];
   SOp (HNext 14990) [] [] []; SOp HRelease [] [] []; SOp (HPeek 1) [Pooled 3] [] []].
Definition is_free (e : event) := match e with EvFree _ _ _ _ => true | _ => false end.
Definition is_alloc3 (e : event) := match e with EvAlloc 3%nat => true | _ => false end.
Example C09_reader_nonvacuous_live :
  let '(st, w, tr, outs) := run (new_reader ex_src, empty_world, []) ex_hist1 in
  (length (rlive st), length (rpend st)) = (3%nat, 2%nat).
Proof. vm_compute. reflexivity. Qed.
Example C09_reader_nonvacuous_reuse :
  let '(st, w, tr, outs) := run (new_reader ex_src, empty_world, []) ex_hist2 in
  (length (filter is_free tr), length (filter is_alloc3 tr)) = (3%nat, 2%nat).
Proof. vm_compute. reflexivity. Qed.
