(* Properties/C09.v — zero-copy slices stay valid until Release/Flush; caller memory is never
   touched.  Statements over the heap-level models (Model/Own*.v).  A history interleaves
   operations of the object — each with an ARBITRARY allocator oracle and ARBITRARY co-tenant
   scripts for every io.Reader/io.Writer callback and every mcache.Malloc/Free inside it — with
   arbitrary co-tenant activity between operations, starting in an arbitrary well-formed world
   (any pool contents, any blocks already in the co-tenant's hands). *)
From GV Require Import Lib.Bytes Lib.Heap Model.Own Model.OwnReader Model.OwnWriter Model.OwnSkipDec
  Spec.Ownership Spec.OwnRegions
  Proofs.OwnLib Proofs.OwnTrace Proofs.OwnReaderP Proofs.OwnWriterP Proofs.OwnSkipDecP.
Open Scope N_scope.

(* ---------- reader_slices_stable ----------
   every slice handed out by Next/Peek (and by thrift.SkipDecoder.Next over the reader) since the
   last Release still reads as the stream bytes it was returned with *)
Theorem C09_reader_slices_stable :
  forall (src : source) (w0 : world) (h : list hstep) st w tr outs,
    wok w0 -> spos src = 0 ->
    run (new_reader src, w0, []) h = (st, w, tr, outs) ->
    Forall (fun l => rd (wh w) (lblk l) (loff l) (llen l) = seg_at (sdata src) (lpos l) (llen l)) (rlive st).
Proof. exact reader_slices_stable. Qed.

Theorem C09_bytes_reader_slices_stable :
  forall (w0 : world) (pre data spare : bytes) st0 e0 (h : list hstep) st w tr outs,
    wok w0 -> new_bytes_reader (mkE w0 [] [] [] []) pre data spare = (st0, e0) ->
    run (st0, ew e0, eev e0) h = (st, w, tr, outs) ->
    Forall (fun l => rd (wh w) (lblk l) (loff l) (llen l) = seg_at data (lpos l) (llen l)) (rlive st).
Proof. exact bytes_reader_slices_stable. Qed.

(* the result of the last ReaderSkipDecoder.Next (valid until the next Next / Reset) still reads as
   the bytes of the value in the current source's stream, across growSlow and pooled reuse *)
Theorem C09_skipdec_result_stable :
  forall (src : source) (w0 : world) (h : list kstep) st w tr outs,
    wok w0 -> spos src <= len (sdata src) -> Forall kstep_wf h ->
    krun (new_skip src, w0, []) h = (st, w, tr, outs) ->
    match kres st with
    | Some l => rd (wh w) (lblk l) (loff l) (llen l) = seg_at (sdata (ksrc st)) (lpos l) (llen l)
    | None => True
    end.
Proof. exact skipdec_result_stable. Qed.

(* ---------- writer_regions_disjoint_stable ----------
   the windows handed out since the last Flush are pairwise disjoint in memory, each lies inside a
   block the writer holds (current or parked) and still holds what the caller last stored ... *)
Theorem C09_writer_regions_disjoint_stable :
  forall (failk : N) (w0 : world) (h : list wstep) st w tr outs,
    wok w0 -> wrun (new_writer failk, w0, []) h = (st, w, tr, outs) ->
    ForallOrdPairs pdisj (wregs st) /\ Forall (region_held st (wh w)) (wregs st).
Proof. exact writer_regions_disjoint_stable. Qed.

(* ... and that is what a Flush hands to the sink: every window at its logical offset *)
Theorem C09_writer_flush_content :
  forall (failk : N) (w0 : world) (h : list wstep) st w tr outs al adv padv st' e' ob content,
    wok w0 -> wrun (new_writer failk, w0, []) h = (st, w, tr, outs) ->
    h_flush st (mkE w al adv padv tr) = (st', e', ob) -> oflushed ob = Some content ->
    len content = wlen st /\
    Forall (fun r => take (gln r) (drop (glog r) content) = gval r) (wregs st).
Proof. exact writer_flush_content. Qed.

Theorem C09_bytes_writer_regions_disjoint_stable :
  forall (w0 : world) (isnil : bool) (pre data spare : bytes) st0 e0 (h : list wstep) st w tr outs,
    wok w0 -> new_bytes_writer (mkE w0 [] [] [] []) isnil pre data spare = (st0, e0) ->
    wrun (st0, ew e0, eev e0) h = (st, w, tr, outs) ->
    ForallOrdPairs pdisj (wregs st) /\ Forall (region_held st (wh w)) (wregs st).
Proof. exact bytes_writer_regions_disjoint_stable. Qed.

Theorem C09_bytes_writer_flush_content :
  forall (w0 : world) (isnil : bool) (pre data spare : bytes) st0 e0 (h : list wstep) st w tr outs
         al adv padv st' e' ob content,
    wok w0 -> new_bytes_writer (mkE w0 [] [] [] []) isnil pre data spare = (st0, e0) ->
    wrun (st0, ew e0, eev e0) h = (st, w, tr, outs) ->
    h_flush st (mkE w al adv padv tr) = (st', e', ob) -> oflushed ob = Some content ->
    len content = wlen st /\
    Forall (fun r => take (gln r) (drop (glog r) content) = gval r) (wregs st).
Proof. exact bytes_writer_flush_content. Qed.

(* ---------- caller_untouched, no_use_after_free ----------
   on the trace of every history: a block the caller lent read-only (the NewBytesReader buffer, a
   WriteBinary payload; any capacity, any offset) is never written nor given to mcache.Free, a
   block lent for writing (the NewBytesWriter target) is never freed, only whole allocator
   blocks are ever freed, and after a block was freed the same object never reads, writes or
   frees it again unless the allocator hands it back *)
Theorem C09_caller_untouched_reader :
  forall (src : source) (w0 : world) (h : list hstep) st w tr outs,
    wok w0 -> spos src = 0 -> run (new_reader src, w0, []) h = (st, w, tr, outs) ->
    caller_untouched (rev tr) /\ frees_whole_blocks (rev tr).
Proof. intros. eapply reader_trace_ok; eassumption. Qed.

Theorem C09_no_use_after_free_reader :
  forall (src : source) (w0 : world) (h : list hstep) st w tr outs,
    wok w0 -> spos src = 0 -> run (new_reader src, w0, []) h = (st, w, tr, outs) ->
    no_use_after_free (rev tr).
Proof. intros. eapply reader_trace_ok; eassumption. Qed.

Theorem C09_caller_untouched_bytes_reader :
  forall (w0 : world) (pre data spare : bytes) st0 e0 (h : list hstep) st w tr outs,
    wok w0 -> new_bytes_reader (mkE w0 [] [] [] []) pre data spare = (st0, e0) ->
    run (st0, ew e0, eev e0) h = (st, w, tr, outs) ->
    caller_untouched (rev tr) /\ frees_whole_blocks (rev tr).
Proof. intros. eapply bytes_reader_trace_ok; eassumption. Qed.

Theorem C09_no_use_after_free_bytes_reader :
  forall (w0 : world) (pre data spare : bytes) st0 e0 (h : list hstep) st w tr outs,
    wok w0 -> new_bytes_reader (mkE w0 [] [] [] []) pre data spare = (st0, e0) ->
    run (st0, ew e0, eev e0) h = (st, w, tr, outs) ->
    no_use_after_free (rev tr).
Proof. intros. eapply bytes_reader_trace_ok; eassumption. Qed.

Theorem C09_caller_untouched_writer :
  forall (failk : N) (w0 : world) (h : list wstep) st w tr outs,
    wok w0 -> wrun (new_writer failk, w0, []) h = (st, w, tr, outs) ->
    caller_untouched (rev tr) /\ frees_whole_blocks (rev tr).
Proof. intros. eapply writer_trace_ok; eassumption. Qed.

Theorem C09_no_use_after_free_writer :
  forall (failk : N) (w0 : world) (h : list wstep) st w tr outs,
    wok w0 -> wrun (new_writer failk, w0, []) h = (st, w, tr, outs) ->
    no_use_after_free (rev tr).
Proof. intros. eapply writer_trace_ok; eassumption. Qed.

Theorem C09_caller_untouched_bytes_writer :
  forall (w0 : world) (isnil : bool) (pre data spare : bytes) st0 e0 (h : list wstep) st w tr outs,
    wok w0 -> new_bytes_writer (mkE w0 [] [] [] []) isnil pre data spare = (st0, e0) ->
    wrun (st0, ew e0, eev e0) h = (st, w, tr, outs) ->
    caller_untouched (rev tr) /\ frees_whole_blocks (rev tr).
Proof. intros. eapply bytes_writer_trace_ok; eassumption. Qed.

Theorem C09_no_use_after_free_bytes_writer :
  forall (w0 : world) (isnil : bool) (pre data spare : bytes) st0 e0 (h : list wstep) st w tr outs,
    wok w0 -> new_bytes_writer (mkE w0 [] [] [] []) isnil pre data spare = (st0, e0) ->
    wrun (st0, ew e0, eev e0) h = (st, w, tr, outs) ->
    no_use_after_free (rev tr).
Proof. intros. eapply bytes_writer_trace_ok; eassumption. Qed.

Theorem C09_caller_untouched_skipdec :
  forall (src : source) (w0 : world) (h : list kstep) st w tr outs,
    wok w0 -> spos src <= len (sdata src) -> Forall kstep_wf h ->
    krun (new_skip src, w0, []) h = (st, w, tr, outs) ->
    caller_untouched (rev tr) /\ frees_whole_blocks (rev tr).
Proof. intros. eapply skipdec_trace_ok; eassumption. Qed.

Theorem C09_no_use_after_free_skipdec :
  forall (src : source) (w0 : world) (h : list kstep) st w tr outs,
    wok w0 -> spos src <= len (sdata src) -> Forall kstep_wf h ->
    krun (new_skip src, w0, []) h = (st, w, tr, outs) ->
    no_use_after_free (rev tr).
Proof. intros. eapply skipdec_trace_ok; eassumption. Qed.

(* ---------- non-vacuity ---------- *)
(* reader: slices retained across two growths (two parked buffers) while the co-tenant is active;
   then Releases that free, a co-tenant that takes a freed block, scribbles over it and frees it,
   and the reader getting a pooled block back from the allocator *)
Definition ex_src : source := mkSrc (pat 3 20000) e_eof false [] 0.
Definition ex_hist1 : list hstep :=
  [SOp (HNext 10) [] [] []; SOp (HNext 5000) [] [] []; SCo [CoAlloc 64 (Fresh [])];
   SOp (HPeek 9000) [] [] []].
Definition ex_hist2 : list hstep :=
  ex_hist1 ++
  [SOp HRelease [] [] [];
   SCo [CoAlloc 4096 (Pooled 0); CoWrite 0 0 [1; 2; 3]; CoFree 0];
   SOp (HNext 14990) [] [] []; SOp HRelease [] [] []; SOp (HPeek 1) [Pooled 3] [] []].
Definition is_free (e : event) := match e with EvFree _ _ _ _ => true | _ => false end.
Definition is_alloc3 (e : event) := match e with EvAlloc 3%nat => true | _ => false end.
Example C09_reader_nonvacuous_live :
  let '(st, w, tr, outs) := run (new_reader ex_src, empty_world, []) ex_hist1 in
  (length (rlive st), length (rpend st)) = (3%nat, 2%nat).
Proof. vm_compute. reflexivity. Qed.
Example C09_reader_nonvacuous_reuse :
  let '(st, w, tr, outs) := run (new_reader ex_src, empty_world, []) ex_hist2 in
  (length (filter is_free tr), length (filter is_alloc3 tr)) = (3%nat, 2%nat).
Proof. vm_compute. reflexivity. Qed.
(* bytes reader: the caller's block is lent read-only, growth leaves it alone *)
Example C09_bytes_reader_nonvacuous :
  let '(st0, e0) := new_bytes_reader (mkE empty_world [] [] [] []) [7; 7] (pat 1 100) (pat 2 28) in
  let '(st, w, tr, outs) := run (st0, ew e0, eev e0) [SOp (HNext 10) [] [] []; SOp (HPeek 200) [] [] []] in
  (length (rlive st), rcaller st, rro st) = (1%nat, [0%nat], false).
Proof. vm_compute. reflexivity. Qed.
(* writer: three windows over two growths, filled late and out of order, then flushed and freed *)
Definition ex_whist : list wstep :=
  [WOp (WMalloc 10) [] [] []; WOp (WMalloc 5000) [] [] []; WOp (WWriteBinary (pat 9 20) 12) [] [] [];
   WOp (WMalloc 9000) [] [] []; WOp (WFill 1 0 (pat 4 5000)) [] [] []; WOp (WFill 0 3 [1; 2]) [] [] []].
Example C09_writer_nonvacuous :
  let '(st, w, tr, outs) := wrun (new_writer 0, empty_world, []) ex_whist in
  (length (wregs st), length (wpend st), wlen st) = (4%nat, 2%nat, 14030).
Proof. vm_compute. reflexivity. Qed.
Example C09_writer_nonvacuous_flush :
  let '(st, w, tr, outs) := wrun (new_writer 0, empty_world, []) (ex_whist ++ [WOp WFlush [] [] []]) in
  (length (filter is_free tr), wlen st, match rev outs with o :: _ => match oflushed o with Some c => len c | None => 0 end | [] => 0 end)
  = (3%nat, 0, 14030).
Proof. vm_compute. reflexivity. Qed.
(* skip decoder: growSlow three times (copy, then free), the result retained *)
Example C09_skipdec_nonvacuous :
  let src := mkSrc (pat 5 100) e_eof false [] 0 in
  let '(st, w, tr, outs) := krun (new_skip src, empty_world, []) [KOp (KNext [4; 30; 1]) [] [] []] in
  (match kres st with Some l => llen l | None => 0 end, length (filter is_free tr)) = (35, 2%nat).
Proof. vm_compute. reflexivity. Qed.
