(* Properties/C09.v — zero-copy slices stay valid until Release/Flush; caller memory untouched. *)
From GV Require Import Lib.Bytes Lib.Heap Model.Own Proofs.OwnLib.

Theorem C09_memb_spec : forall b l, memb b l = true <-> In b l.
Proof. exact memb_In. Qed.
