(* Properties/C18.v — exception helpers preserve kind, type id and cause
   (protocol/thrift/exception.go).  Only statements; proofs are in Proofs/ErrorsP.v.
   Quantification: every fresh id, every prefix and message (byte strings incl. empty), every
   type id (any integer, hence every int32), every error value of the model incl. chains. *)
From GV Require Import Lib.Bytes Lib.Res Gen.Consts Model.Errors Proofs.ErrorsP.
Open Scope N_scope.

(* PrependError: kind (foreign -> application, plain/wrapped -> plain) and type id preserved;
   new text = prefix ++ old text — except in the single corner where the code departs from the
   property text: a foreign exception with empty text and an empty prefix, where the result
   shows the default application-exception message (which is never the empty text). *)
Theorem C18_prepend_kind_type_text : forall nid p e,
  kind_of (prepend nid p e) = kind_after_prepend (kind_of e) /\
  type_id (prepend nid p e) = type_id e /\
  (kind_of e <> KForeign \/ p ++ text e <> [] -> text (prepend nid p e) = p ++ text e) /\
  (forall t, kind_of e = KForeign -> type_id e = Some t -> p ++ text e = [] ->
             text (prepend nid p e) = default_text t /\ default_text t <> p ++ text e).
Proof. exact prepend_spec. Qed.

(* the text clause exactly as the property words it, and its refutation on the model of the
   code as written (witness: PrependError("", foreign{t = 0, text = ""})) *)
Definition C18_prepend_text_statement : Prop :=
  forall nid p e, text (prepend nid p e) = p ++ text e.

Theorem C18_prepend_text_statement_refuted : ~ C18_prepend_text_statement.
Proof. exact prepend_text_statement_false. Qed.

(* what remains true of the text clause: it holds under the hypothesis excluding that corner *)
Theorem C18_prepend_text_partial : forall nid p e,
  kind_of e <> KForeign \/ p ++ text e <> [] -> text (prepend nid p e) = p ++ text e.
Proof. exact prepend_text_general. Qed.

(* the three thrift kinds always have a non-empty text, so for them (and for plain errors)
   the text clause holds for all prefixes and messages, empty included *)
Theorem C18_prepend_text_thrift_and_plain : forall nid p e,
  kind_of e <> KForeign -> text (prepend nid p e) = p ++ text e.
Proof. exact prepend_text_not_foreign. Qed.

(* NewProtocolExceptionWithErr is the identity on protocol exceptions *)
Theorem C18_wrap_identity_on_protocol : forall nid i t m c,
  wrap_protocol nid (Protocol i t m c) = Protocol i t m c.
Proof. exact wrap_identity_on_protocol. Qed.

(* ... and on anything else yields a protocol exception (UNKNOWN_PROTOCOL_EXCEPTION, message =
   the cause's text) whose cause is the argument: errors.Unwrap returns it, errors.Is finds it
   and everything the cause itself matches *)
Theorem C18_wrap_keeps_cause : forall nid e, kind_of e <> KProtocol ->
  let r := wrap_protocol nid e in
  kind_of r = KProtocol /\
  type_id r = Some thrift_UNKNOWN_PROTOCOL_EXCEPTION /\
  msg_of r = Some (text e) /\
  unwrap r = Some e /\
  (comparable e = true -> is r e = true) /\
  (forall x, is e x = true -> is r x = true).
Proof. exact wrap_keeps_cause. Qed.

(* errors.Is on a protocol exception: the target is the exception itself, or an exception whose
   type id and text equal its type id and message, or else exactly when the cause matches *)
Theorem C18_is_spec : forall i t m c x,
  is (Protocol i t m c) x = true <->
  same (Protocol i t m c) x = true \/
  (type_id x = Some t /\ text x = m) \/
  (exists c', c = Some c' /\ is c' x = true).
Proof. exact is_protocol_iff. Qed.

(* errors.Is in general: some object on the Unwrap chain is the target or is a protocol
   exception matching the target's type id and text *)
Theorem C18_is_chain : forall e x,
  is e x = existsb (fun y => link_match y x) (chain e).
Proof. exact is_chain. Qed.

(* [comparable c]: Go's errors.Is applies [==] only to targets of a comparable dynamic type; a cause of a
   non-comparable type (a slice-typed error: [Opaque]) is still returned by errors.Unwrap, but nothing
   — in the standard library itself — matches it with errors.Is, and no comparison may panic *)
Theorem C18_cause_chain_reachable : forall e c x,
  In c (chain e) -> (comparable c = true -> is e c = true) /\ (is c x = true -> is e x = true).
Proof. exact cause_chain_reachable. Qed.

Theorem C18_uncomparable_target_never_matches : forall e i s, is e (Opaque i s) = false.
Proof. exact is_opaque_target. Qed.

(* non-vacuity *)
Example C18_nonvacuous_foreign_corner :
  let e := Foreign true 0 77%Z [] in
  kind_of e = KForeign /\ type_id e = Some 77%Z /\ [] ++ text e = [] /\
  text (prepend 1 [] e) = [117; 110; 107; 110; 111; 119; 110; 32; 101; 120; 99; 101; 112; 116; 105;
                           111; 110; 32; 116; 121; 112; 101; 32; 91; 55; 55; 93].
Proof. repeat split. Qed.

Example C18_nonvacuous_wrap :
  let e := Wrapped 1 [120] (Plain 0 [121]) in
  kind_of e <> KProtocol /\ is (wrap_protocol 2 e) (Plain 0 [121]) = true /\
  is (wrap_protocol 2 e) (Plain 3 [121]) = false.
Proof. repeat split. discriminate. Qed.

Example C18_nonvacuous_is :
  is (Protocol 0 1%Z [97] None) (App 1 1%Z [97]) = true /\
  is (Protocol 0 1%Z [] None) (Protocol 1 1%Z [] None) = false /\
  is (Protocol 0 1%Z [] None) (Protocol 0 1%Z [] None) = true.
Proof. repeat split. Qed.
