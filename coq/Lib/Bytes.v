(* Lib/Bytes.v — bytes as [list N], big-endian packing, hex literals for the correspondence cases.
   Definitions only plus the basic lemmas every model proof uses. Stdlib only. *)
From Coq Require Export Ascii String.
From Coq Require Export List NArith ZArith Lia Bool.
From Coq Require Import ZifyN ZifyNat ZifyBool.
Export ListNotations.
Open Scope N_scope.

Definition byte := N.
Definition bytes := list N.

Definition wfb (b : N) : Prop := b < 256.
Definition wf (l : bytes) : Prop := Forall wfb l.
Definition wfbb (l : bytes) : bool := forallb (fun b => b <? 256) l.

Lemma wfbb_wf l : wfbb l = true <-> wf l.
Proof.
  unfold wfbb, wf, wfb. rewrite forallb_forall, Forall_forall.
  split; intros H x Hx; specialize (H x Hx); lia.
Qed.

(* length as N *)
Definition len {A} (l : list A) : N := N.of_nat (length l).

Lemma len_app {A} (a b : list A) : len (a ++ b) = len a + len b.
Proof. unfold len. rewrite app_length. lia. Qed.
Lemma len_nil {A} : len (@nil A) = 0.
Proof. reflexivity. Qed.
Lemma len_cons {A} (x : A) l : len (x :: l) = 1 + len l.
Proof. unfold len. cbn [length]. lia. Qed.

(* ---------- segments ---------- *)
Definition seg {A} (l : list A) (off n : nat) : list A := firstn n (skipn off l).
Definition drop {A} (n : N) (l : list A) : list A := skipn (N.to_nat n) l.
Definition take {A} (n : N) (l : list A) : list A := firstn (N.to_nat n) l.

Lemma skipn_skipn' {A} (a b : nat) (l : list A) : skipn a (skipn b l) = skipn (b + a) l.
Proof.
  revert l; induction b as [|b IH]; intros l; cbn [skipn Nat.add]; [reflexivity|].
  destruct l as [|x l]; [now rewrite skipn_nil|]. apply IH.
Qed.

Lemma firstn_plus {A} (n m : nat) (l : list A) :
  firstn (n + m) l = firstn n l ++ firstn m (skipn n l).
Proof.
  revert l; induction n as [|n IH]; intros l; cbn [firstn skipn Nat.add app]; [reflexivity|].
  destruct l as [|x l]; [now rewrite firstn_nil|]. cbn [app]. f_equal. apply IH.
Qed.

Lemma seg_app_next {A} (l : list A) a n m : seg l a n ++ seg l (a + n) m = seg l a (n + m).
Proof. unfold seg. rewrite firstn_plus, skipn_skipn'. reflexivity. Qed.

Lemma seg_length_le {A} (l : list A) a n : (length (seg l a n) <= n)%nat.
Proof. unfold seg. rewrite firstn_length. lia. Qed.

Lemma seg_length {A} (l : list A) a n : (a + n <= length l)%nat -> length (seg l a n) = n.
Proof. intros H. unfold seg. rewrite firstn_length, skipn_length. lia. Qed.

Lemma drop_len {A} n (l : list A) : n <= len l -> len (drop n l) = len l - n.
Proof. unfold drop, len. intros H. rewrite skipn_length. lia. Qed.
Lemma take_len {A} n (l : list A) : n <= len l -> len (take n l) = n.
Proof. unfold take, len. intros H. rewrite firstn_length. lia. Qed.
Lemma take_drop {A} n (l : list A) : take n l ++ drop n l = l.
Proof. apply firstn_skipn. Qed.
Lemma drop_drop {A} a b (l : list A) : drop a (drop b l) = drop (b + a) l.
Proof. unfold drop. rewrite skipn_skipn'. f_equal. lia. Qed.
Lemma drop_app_len {A} (a b : list A) : drop (len a) (a ++ b) = b.
Proof.
  unfold drop, len. rewrite Nat2N.id, skipn_app, Nat.sub_diag, skipn_all. reflexivity.
Qed.
Lemma take_app_len {A} (a b : list A) : take (len a) (a ++ b) = a.
Proof.
  unfold take, len. rewrite Nat2N.id, firstn_app, Nat.sub_diag, firstn_all. cbn [firstn].
  now rewrite app_nil_r.
Qed.
Lemma drop_0 {A} (l : list A) : drop 0 l = l.
Proof. reflexivity. Qed.

(* ---------- big-endian ---------- *)
Fixpoint be (k : nat) (x : N) : bytes :=
  match k with
  | O => []
  | S k' => be k' (x / 256) ++ [x mod 256]
  end.

Definition unbe (l : bytes) : N := fold_left (fun a b => a * 256 + b) l 0.

Lemma be_length k x : length (be k x) = k.
Proof. revert x; induction k as [|k IH]; intros x; cbn [be]; [reflexivity|].
  rewrite app_length, IH. cbn [length]. lia. Qed.

Lemma be_len k x : len (be k x) = N.of_nat k.
Proof. unfold len. now rewrite be_length. Qed.

Lemma be_wf k x : wf (be k x).
Proof.
  revert x; induction k as [|k IH]; intros x; cbn [be]; [constructor|].
  apply Forall_app. split; [apply IH|]. constructor; [|constructor].
  unfold wfb. apply N.mod_lt. lia.
Qed.

Lemma fold_unbe_app a l1 l2 :
  fold_left (fun a b => a * 256 + b) (l1 ++ l2) a =
  fold_left (fun a b => a * 256 + b) l2 (fold_left (fun a b => a * 256 + b) l1 a).
Proof. apply fold_left_app. Qed.

Lemma unbe_app l1 l2 : unbe (l1 ++ l2) = unbe l1 * 256 ^ N.of_nat (length l2) + unbe l2.
Proof.
  unfold unbe. rewrite fold_left_app.
  generalize (fold_left (fun a b : N => a * 256 + b) l1 0) as a.
  induction l2 as [|y l2 IH] using rev_ind; intros a.
  - cbn. lia.
  - rewrite !fold_left_app. cbn [fold_left]. rewrite IH.
    rewrite app_length. cbn [length].
    replace (N.of_nat (length l2 + 1)) with (N.succ (N.of_nat (length l2))) by lia.
    rewrite N.pow_succ_r'. lia.
Qed.

Lemma unbe_snoc l b : unbe (l ++ [b]) = unbe l * 256 + b.
Proof. unfold unbe. rewrite fold_left_app. reflexivity. Qed.

Lemma unbe_be k x : unbe (be k x) = x mod 256 ^ N.of_nat k.
Proof.
  revert x; induction k as [|k IH]; intros x; cbn [be].
  - cbn. now rewrite N.mod_1_r.
  - rewrite unbe_snoc, IH.
    replace (N.of_nat (S k)) with (N.succ (N.of_nat k)) by lia.
    rewrite N.pow_succ_r'.
    rewrite (N.mod_mul_r x 256 (256 ^ N.of_nat k)) by (try apply N.pow_nonzero; lia).
    lia.
Qed.

Lemma unbe_lt l : wf l -> unbe l < 256 ^ len l.
Proof.
  induction l as [|b l IH] using rev_ind; intros H.
  - cbn. lia.
  - apply Forall_app in H as [Hl Hb]. inversion Hb as [|? ? Hb' _]; subst. unfold wfb in Hb'.
    rewrite unbe_snoc, len_app. change (len [b]) with 1.
    replace (len l + 1) with (N.succ (len l)) by lia. rewrite N.pow_succ_r'.
    specialize (IH Hl). lia.
Qed.

Lemma be_unbe l : wf l -> be (length l) (unbe l) = l.
Proof.
  induction l as [|b l IH] using rev_ind; intros H; [reflexivity|].
  apply Forall_app in H as [Hl Hb]. inversion Hb as [|? ? Hb' _]; subst. unfold wfb in Hb'.
  rewrite app_length. cbn [length]. rewrite Nat.add_1_r. cbn [be].
  rewrite unbe_snoc.
  replace ((unbe l * 256 + b) / 256) with (unbe l)
    by (apply (N.div_unique _ 256 _ b); lia).
  replace ((unbe l * 256 + b) mod 256) with b
    by (apply (N.mod_unique _ 256 (unbe l) b); lia).
  now rewrite IH.
Qed.

Lemma be_inj k x y : x < 256 ^ N.of_nat k -> y < 256 ^ N.of_nat k -> be k x = be k y -> x = y.
Proof.
  intros Hx Hy H. apply (f_equal unbe) in H. rewrite !unbe_be in H.
  rewrite !N.mod_small in H by assumption. exact H.
Qed.

(* ---------- Go integer conversions ---------- *)
Definition two8 : N := 256.
Definition two16 : N := 65536.
Definition two31 : N := 2147483648.
Definition two32 : N := 4294967296.
Definition two63 : N := 9223372036854775808.
Definition two64 : N := 18446744073709551616.

(* intK(u) for an unsigned K-bit pattern u *)
Definition to_signed (bits : N) (u : N) : Z :=
  if u <? 2 ^ (bits - 1) then Z.of_N u else (Z.of_N u - Z.of_N (2 ^ bits))%Z.
(* uintK(z) for any integer z *)
Definition to_unsigned (bits : N) (z : Z) : N := Z.to_N (z mod Z.of_N (2 ^ bits))%Z.

Definition in_signed (bits : N) (z : Z) : Prop :=
  (- Z.of_N (2 ^ (bits - 1)) <= z < Z.of_N (2 ^ (bits - 1)))%Z.
Definition in_signedb (bits : N) (z : Z) : bool :=
  ((- Z.of_N (2 ^ (bits - 1)) <=? z) && (z <? Z.of_N (2 ^ (bits - 1))))%Z.

Lemma in_signedb_spec bits z : in_signedb bits z = true <-> in_signed bits z.
Proof. unfold in_signedb, in_signed. lia. Qed.

Lemma to_unsigned_lt bits z : to_unsigned bits z < 2 ^ bits.
Proof.
  unfold to_unsigned.
  assert (0 < Z.of_N (2 ^ bits))%Z by (pose proof (N.pow_nonzero 2 bits); lia).
  pose proof (Z.mod_pos_bound z (Z.of_N (2 ^ bits)) H). lia.
Qed.

Lemma pow2_split bits : 0 < bits -> 2 ^ bits = 2 * 2 ^ (bits - 1).
Proof. intros H. rewrite <- N.pow_succ_r'. f_equal. lia. Qed.

Lemma signed_unsigned bits z : 0 < bits -> in_signed bits z -> to_signed bits (to_unsigned bits z) = z.
Proof.
  intros Hb [Hlo Hhi]. unfold to_signed, to_unsigned.
  pose proof (pow2_split bits Hb) as Hs.
  set (h := 2 ^ (bits - 1)) in *. rewrite Hs.
  assert (0 < h) by (unfold h; pose proof (N.pow_nonzero 2 (bits - 1)); lia).
  destruct (Z.ltb_spec z 0).
  - replace (z mod Z.of_N (2 * h))%Z with (z + Z.of_N (2 * h))%Z.
    2:{ symmetry. rewrite <- (Z.mod_add _ 1) by lia. rewrite Z.mod_small; lia. }
    destruct (N.ltb_spec (Z.to_N (z + Z.of_N (2 * h))) h); lia.
  - rewrite Z.mod_small by lia.
    destruct (N.ltb_spec (Z.to_N z) h); lia.
Qed.

Lemma unsigned_signed bits u : 0 < bits -> u < 2 ^ bits -> to_unsigned bits (to_signed bits u) = u.
Proof.
  intros Hb Hu. unfold to_signed, to_unsigned.
  pose proof (pow2_split bits Hb) as Hs.
  set (h := 2 ^ (bits - 1)) in *. rewrite Hs in *.
  destruct (N.ltb_spec u h).
  - rewrite Z.mod_small by lia. lia.
  - replace ((Z.of_N u - Z.of_N (2 * h)) mod Z.of_N (2 * h))%Z with (Z.of_N u - Z.of_N (2 * h) + Z.of_N (2 * h))%Z.
    2:{ symmetry. rewrite <- (Z.mod_add _ 1) by lia. rewrite Z.mod_small; lia. }
    lia.
Qed.

Lemma to_signed_range bits u : 0 < bits -> u < 2 ^ bits -> in_signed bits (to_signed bits u).
Proof.
  intros Hb Hu. unfold to_signed, in_signed.
  pose proof (pow2_split bits Hb) as Hs.
  set (h := 2 ^ (bits - 1)) in *. rewrite Hs in *.
  destruct (N.ltb_spec u h); lia.
Qed.

(* ---------- hex literals (used only by the correspondence cases) ---------- *)
Definition hexval (c : ascii) : N :=
  let n := N_of_ascii c in
  if (48 <=? n) && (n <=? 57) then n - 48
  else if (97 <=? n) && (n <=? 102) then n - 87
  else if (65 <=? n) && (n <=? 70) then n - 55
  else 0.

Fixpoint hx_acc (s : string) (acc : bytes) : bytes :=
  match s with
  | String a (String b r) => hx_acc r ((hexval a * 16 + hexval b) :: acc)
  | _ => acc
  end.
Definition hx (s : string) : bytes := rev' (hx_acc s []).

(* deterministic position-dependent content, computed identically by the Go harness:
   pat seed i = (i*7 + i/251 + seed) mod 256 *)
Definition patb (seed i : N) : N := (i * 7 + i / 251 + seed) mod 256.
Fixpoint pat_from (seed : N) (i : N) (n : nat) : bytes :=
  match n with O => [] | S n' => patb seed i :: pat_from seed (i + 1) n' end.
Definition pat (seed : N) (n : N) : bytes := pat_from seed 0 (N.to_nat n).

(* boolean list equality on N lists *)
Fixpoint beqb (a b : bytes) : bool :=
  match a, b with
  | [], [] => true
  | x :: a', y :: b' => (x =? y) && beqb a' b'
  | _, _ => false
  end.
Lemma beqb_eq a b : beqb a b = true <-> a = b.
Proof.
  revert b; induction a as [|x a IH]; intros [|y b]; cbn [beqb]; try (split; congruence).
  rewrite andb_true_iff, IH, N.eqb_eq. split; [intros [-> ->]; reflexivity|intros H; inversion H; auto].
Qed.
