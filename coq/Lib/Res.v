(* Lib/Res.v — outcomes of modelled Go functions.
     Ok a      normal return
     Err e     Go error return; [e] is a small class code chosen by the model
     Panic w   where Go would panic (index out of range, b[off:] with off > len, nil call, div by zero)
     OOB       where unsafe code would load or store outside the slice it was given *)
From GV Require Import Lib.Bytes.

Inductive res (A : Type) : Type :=
| Ok (a : A)
| Err (e : Z)
| Panic (why : Z)
| OOB.
Arguments Ok {A} a.
Arguments Err {A} e.
Arguments Panic {A} why.
Arguments OOB {A}.

Definition bind {A B} (r : res A) (f : A -> res B) : res B :=
  match r with
  | Ok a => f a
  | Err e => Err e
  | Panic w => Panic w
  | OOB => OOB
  end.

Notation "'do' x <- r ; k" := (bind r (fun x => k)) (at level 200, x pattern, r at level 100, k at level 200, right associativity).

Definition is_ok {A} (r : res A) : bool := match r with Ok _ => true | _ => false end.
Definition is_err {A} (r : res A) : bool := match r with Err _ => true | _ => false end.
Definition is_crash {A} (r : res A) : bool := match r with Panic _ | OOB => true | _ => false end.

Definition safe {A} (r : res A) : Prop := match r with Panic _ | OOB => False | _ => True end.

(* Go slicing b[off:] : panics when off > len *)
Definition slice_from {A} (b : list A) (off : N) : res (list A) :=
  if off <=? len b then Ok (drop off b) else Panic 1.
(* Go slicing b[lo:hi] : panics when lo > hi or hi > len (cap = len assumed) *)
Definition slice_range {A} (b : list A) (lo hi : N) : res (list A) :=
  if (lo <=? hi) && (hi <=? len b) then Ok (take (hi - lo) (drop lo b)) else Panic 1.
(* Go indexing b[i] *)
Definition index {A} (b : list A) (i : N) : res A :=
  match nth_error b (N.to_nat i) with Some x => Ok x | None => Panic 2 end.
