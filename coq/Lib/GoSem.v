(* Lib/GoSem.v — support library of the source-to-Gallina translator tools/gotrans.

   Gen/Funcs.v (GENERATED from the Go source of /repo on every run) is written in terms of the
   definitions below and of Lib/Bytes.v, Lib/Res.v only.  Together with the translator this file
   IS the Go semantics the generated definitions assume; it contains definitions and a few basic
   lemmas, no axioms.

   Representation (one, everywhere in Gen/Funcs.v):
     every Go integer type (int8..int64, uint8..uint64, int, uint, byte, named types over them)
                         : Z, the mathematical value; `int`/`uint` are 64 bits wide
     bool                : bool
     []byte and string   : bytes = list N (contents only; cap = len; no sharing between values)
     float64             : Z, its IEEE bit pattern (only math.Float64bits / Float64frombits and
                           the constant 0 are translated)
     error               : gerror = option Z; nil is None; a non-nil error is Some code where the
                           code abstracts the identity of the error value (table [ecode_table])
     a Go function       : args -> res (mutated []byte parameters * results); Panic w where Go
                           panics.  Panic codes follow the hand models: 1 slicing and stores,
                           2 index loads, 3 encoding/binary loads from a short slice, 4 integer
                           division by zero, 9 an explicit panic(...) call. *)
From GV Require Import Lib.Bytes Lib.Res.
From Coq Require Import ZifyN ZifyNat ZifyBool.
Open Scope Z_scope.

(* ---------- errors ---------- *)
Definition gerror := option Z.
Definition gnil : gerror := None.
Definition is_nil (e : gerror) : bool := match e with None => true | Some _ => false end.
(* err == <package-level error variable with code c> (the translator checks that no other error
   value that can reach the comparison has the same code) *)
Definition gerr_is (e : gerror) (c : Z) : bool := match e with Some c' => c' =? c | None => false end.

(* Identity of error values, by the qualified NAME of the Go variable that holds them
   ("<pkg>.<var>"), or "<pkg>.<func>#<constructor>" for an error built on the spot
   (fmt.Errorf(...)): the code the hand models use for that error (Model/Binary.v e_*,
   Model/TTHeader.v e_*; Proofs/GenEquiv*.v prove by reflexivity that they coincide).
   The translator reads the names between the two marker comments and refuses (fails loudly) to
   translate a function that mentions an error value not listed here. *)
(* ECODE-TABLE-BEGIN *)
Definition ecode_table : list (string * Z) := [
  ("thrift.errReadMessage", 1); ("thrift.errBadVersion", 2); ("thrift.errReadField", 3);
  ("thrift.errReadMap", 4); ("thrift.errReadList", 5); ("thrift.errReadSet", 6);
  ("thrift.errReadStr", 7); ("thrift.errReadBin", 8); ("thrift.errReadBool", 9);
  ("thrift.errReadByte", 10); ("thrift.errReadI16", 11); ("thrift.errReadI32", 12);
  ("thrift.errReadI64", 13); ("thrift.errReadDouble", 14); ("thrift.errDepthLimitExceeded", 15);
  ("thrift.errBufferTooShort", 16); ("thrift.errNegativeSize", 17);
  ("io.EOF", 1);
  ("ttheader.checkProtocolID#fmt.Errorf", 6);
  ("ttheader.readIntKVInfo#fmt.Errorf#1", 8); ("ttheader.readIntKVInfo#fmt.Errorf#2", 8);
  ("ttheader.readIntKVInfo#fmt.Errorf#3", 8);
  ("ttheader.readStrKVInfo#fmt.Errorf#1", 8); ("ttheader.readStrKVInfo#fmt.Errorf#2", 8);
  ("ttheader.readStrKVInfo#fmt.Errorf#3", 8);
  ("ttheader.readACLToken#fmt.Errorf", 8); ("ttheader.readKVInfo#fmt.Errorf", 9);
  ("ttheader.Decode#errors.New", 3); ("ttheader.Decode#fmt.Errorf#1", 4);
  ("ttheader.Decode#fmt.Errorf#2", 7); ("ttheader.Decode#fmt.Errorf#3", 8);
  (* Encode: a failing writer (1..5; the hand model's writer never fails: code 11), the size check (6: Model/TTHeader.v e_toolarge) *)
  ("ttheader.Encode#fmt.Errorf#1", 11); ("ttheader.Encode#fmt.Errorf#2", 11); ("ttheader.Encode#fmt.Errorf#3", 11);
  ("ttheader.Encode#fmt.Errorf#4", 11); ("ttheader.Encode#fmt.Errorf#5", 11); ("ttheader.Encode#fmt.Errorf#6", 10);
  ("thrift.MarshalFastMsg#errors.New", 30);
  ("thrift.SkipDecoderTpl.Skip#thrift.NewProtocolException", 18); ("thrift.skipType#thrift.NewProtocolException", 18);
  (* the labels thrift.PrependError adds in the FastRead methods of base/k-base.go (the labels lbl_begin, lbl_field, lbl_skip of Model/FastCodec.v) *)
  ("base.Base.FastRead#thrift.PrependError#1", 100); ("base.Base.FastRead#thrift.PrependError#2", 200);
  ("base.Base.FastRead#thrift.PrependError#3", 300);
  ("base.BaseResp.FastRead#thrift.PrependError#1", 100); ("base.BaseResp.FastRead#thrift.PrependError#2", 200);
  ("base.BaseResp.FastRead#thrift.PrependError#3", 300);
  (* used by the translator's differential self-test (tools/gotrans/testdata/sem) only *)
  ("sem.inner#fmt.Errorf", 201); ("sem.ErrWrap#errors.New", 202); ("sem.ErrWrap#fmt.Errorf#1", 203);
  ("sem.ErrWrap#fmt.Errorf#2", 204); ("sem.ErrNilDeref#errors.New", 205); ("sem.ErrNilDeref#fmt.Errorf", 206);
  (* phase 4, bufiox (Model/BufReader.v e_noprogress, e_negcount; Model/BufWriter.v E_NEG is Spec/Log.v's) *)
  ("io.ErrNoProgress", 22); ("bufiox.errNegativeCount", 23)
]%string.
(* ECODE-TABLE-END *)
Fixpoint ecode_find (l : list (string * Z)) (s : string) : Z :=
  match l with
  | [] => (-1)
  | (k, c) :: r => if String.eqb k s then c else ecode_find r s
  end.
Definition ecode (s : string) : Z := ecode_find ecode_table s.

(* ---------- fixed-width integers ---------- *)
(* the value of an unsigned / signed w-bit Go integer holding the mathematical result x *)
Definition wrapu (w x : Z) : Z := x mod 2 ^ w.
Definition wraps (w x : Z) : Z :=
  let m := x mod 2 ^ w in if m <? 2 ^ (w - 1) then m else m - 2 ^ w.

(* x >> k and x << k (before wrapping) for a shift count k >= 0; on signed x, >> is the
   arithmetic shift = floor division *)
Definition gshr (x k : Z) : Z := x / 2 ^ k.
Definition gshl (x k : Z) : Z := x * 2 ^ k.
(* ^x *)
Definition gnotu (w x : Z) : Z := 2 ^ w - 1 - x.
Definition gnots (x : Z) : Z := - x - 1.
(* x / y and x % y : Go truncates towards zero; panics on y = 0 *)
Definition gquot (x y : Z) : res Z := if y =? 0 then Panic 4 else Ok (Z.quot x y).
Definition grem (x y : Z) : res Z := if y =? 0 then Panic 4 else Ok (Z.rem x y).

(* ---------- byte slices and strings ---------- *)
Definition glen {A} (l : list A) : Z := Z.of_N (len l).
Definition gbyte (x : Z) : N := Z.to_N x.          (* a byte value stored into a slice *)

(* x[i] *)
Definition gindex (b : bytes) (i : Z) : res Z :=
  if i <? 0 then Panic 2 else do x <- index b (Z.to_N i); Ok (Z.of_N x).
(* x[lo:], x[:hi], x[lo:hi]  (cap = len) *)
Definition gslice_from (b : bytes) (lo : Z) : res bytes :=
  if lo <? 0 then Panic 1 else slice_from b (Z.to_N lo).
Definition gslice_range (b : bytes) (lo hi : Z) : res bytes :=
  if (lo <? 0) || (hi <? 0) then Panic 1 else slice_range b (Z.to_N lo) (Z.to_N hi).
Definition gslice_to (b : bytes) (hi : Z) : res bytes := gslice_range b 0 hi.

(* binary.BigEndian.Uint16/32/64(b) : k = 2/4/8; panics when b is shorter *)
Definition gbe_load (k : nat) (b : bytes) : res Z :=
  if (len b <? N.of_nat k)%N then Panic 3 else Ok (Z.of_N (unbe (take (N.of_nat k) b))).
(* the k bytes binary.BigEndian.PutUint16/32/64 stores for the value v of the unsigned type *)
Definition gbe (k : nat) (v : Z) : bytes := be k (Z.to_N v).

(* stores into a []byte parameter, threading the updated contents:
     gput buf off bs   is   buf[off] = b (bs = [b])   or   binary.BigEndian.PutUintK(buf[off:], v)
     (bs = gbe K v); both panic unless the bytes fit (and buf[off:] panics when off > len) *)
Definition gput (buf : bytes) (off : Z) (bs : bytes) : res bytes :=
  if off <? 0 then Panic 1
  else let o := Z.to_N off in
       if (o + len bs <=? len buf)%N then Ok (take o buf ++ bs ++ drop (o + len bs) buf)%list
       else Panic 1.
Definition gstore (buf : bytes) (i : Z) (x : Z) : res bytes := gput buf i [gbyte x].
(* n := copy(buf[off:], v) : min(len v, len buf - off) bytes are copied; v does not alias buf *)
Definition gcopy (buf : bytes) (off : Z) (v : bytes) : res (bytes * Z) :=
  if off <? 0 then Panic 1
  else let o := Z.to_N off in
       if (o <=? len buf)%N then
         let m := N.min (len v) (len buf - o) in
         Ok ((take o buf ++ take m v ++ drop (o + m) buf)%list, Z.of_N m)
       else Panic 1.

(* ---------- conversions of outcomes, used to state the equivalences ---------- *)
(* a Go result list (..., err): a non-nil error makes the call an [Err]; the values returned
   beside it are dropped (the hand models do not model them) *)
Definition unerr {A} (r : res (A * gerror)) : res A :=
  match r with
  | Ok (a, None) => Ok a
  | Ok (_, Some e) => Err e
  | Err e => Err e
  | Panic w => Panic w
  | OOB => OOB
  end.
Definition rmap {A B} (f : A -> B) (r : res A) : res B :=
  match r with Ok a => Ok (f a) | Err e => Err e | Panic w => Panic w | OOB => OOB end.

(* ---------- basic facts ---------- *)
Definition in_u (w x : Z) : Prop := 0 <= x < 2 ^ w.
Definition in_s (w x : Z) : Prop := - 2 ^ (w - 1) <= x < 2 ^ (w - 1).

Lemma wrapu_id w x : in_u w x -> wrapu w x = x.
Proof. unfold in_u, wrapu. intros H. apply Z.mod_small. exact H. Qed.

Lemma wrapu_range w x : 0 <= w -> in_u w (wrapu w x).
Proof.
  intros Hw. unfold in_u, wrapu. apply Z.mod_pos_bound. apply Z.pow_pos_nonneg; lia.
Qed.

Lemma pow2_splitZ w : 0 < w -> 2 ^ w = 2 * 2 ^ (w - 1).
Proof. intros H. rewrite <- Z.pow_succ_r by lia. f_equal. lia. Qed.

Lemma wraps_id w x : 0 < w -> in_s w x -> wraps w x = x.
Proof.
  intros Hw [Hlo Hhi]. unfold wraps. pose proof (pow2_splitZ w Hw) as Hs.
  assert (0 < 2 ^ (w - 1)) as Hp by (apply Z.pow_pos_nonneg; lia).
  set (h := 2 ^ (w - 1)) in *. rewrite Hs. cbv zeta.
  destruct (Z.ltb_spec x 0) as [Hn|Hn].
  - replace (x mod (2 * h)) with (x + 2 * h).
    2:{ symmetry. rewrite <- (Z.mod_add _ 1) by lia. rewrite Z.mod_small; lia. }
    destruct (Z.ltb_spec (x + 2 * h) h); lia.
  - rewrite Z.mod_small by lia. destruct (Z.ltb_spec x h); lia.
Qed.

Lemma wraps_range w x : 0 < w -> in_s w (wraps w x).
Proof.
  intros Hw. unfold in_s, wraps. pose proof (pow2_splitZ w Hw) as Hs.
  assert (0 < 2 ^ (w - 1)) as Hp by (apply Z.pow_pos_nonneg; lia).
  set (h := 2 ^ (w - 1)) in *. rewrite Hs. cbv zeta.
  pose proof (Z.mod_pos_bound x (2 * h)) as Hb.
  destruct (Z.ltb_spec (x mod (2 * h)) h); lia.
Qed.

(* the Go conversion intW(u) of an unsigned W-bit value is Lib.Bytes.to_signed *)
Lemma wraps_to_signed (w : N) (u : N) :
  (0 < w)%N -> (u < 2 ^ w)%N -> wraps (Z.of_N w) (Z.of_N u) = to_signed w u.
Proof.
  intros Hw Hu. unfold wraps, to_signed. cbv zeta.
  assert (2 ^ Z.of_N w = Z.of_N (2 ^ w)) as E1 by (rewrite N2Z.inj_pow; reflexivity).
  assert (2 ^ (Z.of_N w - 1) = Z.of_N (2 ^ (w - 1))) as E2.
  { rewrite N2Z.inj_pow. f_equal. lia. }
  rewrite E1, E2. rewrite Z.mod_small by lia.
  destruct (Z.ltb_spec (Z.of_N u) (Z.of_N (2 ^ (w - 1)))); destruct (N.ltb_spec u (2 ^ (w - 1))); lia.
Qed.

(* the Go conversion uintW(z) is Lib.Bytes.to_unsigned *)
Lemma wrapu_to_unsigned (w : N) z : Z.to_N (wrapu (Z.of_N w) z) = to_unsigned w z.
Proof.
  unfold wrapu, to_unsigned. rewrite N2Z.inj_pow. reflexivity.
Qed.

Lemma unerr_ok_inv {A} (r : res (A * gerror)) a : unerr r = Ok a -> r = Ok (a, gnil).
Proof.
  destruct r as [[x [e|]]| | |]; cbn; intros H; inversion H; reflexivity.
Qed.

(* =====================================================================================
   Phase 2 of the translator: loops, recursion, pointers, maps, tables, abstract objects
   ===================================================================================== *)

(* A generated function never returns [Err] for a Go error (a Go error is a value of the result
   tuple); [Err gfuel] is the one exception: a for statement ran out of its fuel, or the
   recursion out of its recursion fuel.  The equivalence lemmas show that enough fuel exists. *)
Definition gfuel : Z := 99.

(* err.Error() (as an argument of an error constructor): a nil-interface method call panics *)
Definition gerr_deref (e : gerror) : res unit := match e with None => Panic 5 | Some _ => Ok tt end.

(* Go maps: [None] is the nil map; otherwise the entries in the order in which they were
   assigned, newest first.  A lookup returns the first match (the value assigned last), the
   zero value [d] when there is none or the map is nil.  A store into the nil map panics.
   A map is a reference: the translator threads a map that a callee stores into like a []byte
   parameter, and refuses every assignment that would make two variables refer to one map. *)
Definition gmap (K V : Type) : Type := option (list (K * V)).
Definition gmap_is_nil {K V} (m : gmap K V) : bool := match m with None => true | Some _ => false end.
Definition gmap_set {K V} (m : gmap K V) (k : K) (v : V) : res (gmap K V) :=
  match m with None => Panic 6 | Some l => Ok (Some ((k, v) :: l)) end.
Fixpoint alist_get {K V} (eqb : K -> K -> bool) (l : list (K * V)) (k : K) : option V :=
  match l with
  | [] => None
  | (k', v) :: r => if eqb k' k then Some v else alist_get eqb r k
  end.
Definition gmap_get {K V} (eqb : K -> K -> bool) (m : gmap K V) (k : K) (d : V) : V :=
  match m with
  | None => d
  | Some l => match alist_get eqb l k with Some v => v | None => d end
  end.

(* make([]byte, n): n zero bytes; panics when n < 0 (allocation itself never fails: DESIGN §7) *)
Definition gmake_bytes (n : Z) : res bytes :=
  if n <? 0 then Panic 7 else Ok (repeat 0%N (Z.to_nat n)).

(* t[i] for a package-level array of integers that is never written (its current contents are a
   leading parameter gv_<name> : list Z of the generated function) *)
Definition gtable (t : list Z) (i : Z) : res Z :=
  if i <? 0 then Panic 2
  else match nth_error t (Z.to_nat i) with Some x => Ok x | None => Panic 2 end.

(* thrift.NewProtocolExceptionWithErr(err): panics on nil (err.Error()); otherwise the
   ProtocolException that wraps err, identified by [gwrapped c] where c identifies err.  (An err
   that is a *ProtocolException already would be returned as it is; the translator's users are the
   readers over bufiox, whose errors are not.)  Model/StreamSkip.v e_wrap is the same function. *)
Definition gwrapped (c : Z) : Z := 100 + c.
Definition gpe_wrap (e : gerror) : res gerror :=
  match e with None => Panic 5 | Some c => Ok (Some (gwrapped c)) end.

(* a pointer receiver *T (T a struct with fields): [isnil] says whether the pointer is nil; p.f
   panics then (reads: gptr_check; an assignment p.f = x: gptr_set) *)
Definition gptr_check (isnil : bool) : res unit := if isnil then Panic 5 else Ok tt.
Definition gptr_set {A} (isnil : bool) (x : A) : res A := if isnil then Panic 5 else Ok x.

(* thrift.PrependError(text, err): panics on nil (err.Error()); otherwise a new error of the same
   Thrift exception kind as err, identified by the label [k] of the call site plus the code of
   err (Model/FastCodec.v relabel) *)
Definition gerr_prepend (k : Z) (e : gerror) : res gerror :=
  match e with None => Panic 5 | Some c => Ok (Some (k + c)) end.

(* =====================================================================================
   Phase 3 of the translator: the write / encode side
   ===================================================================================== *)

(* f(p[off:], ...) for a callee f that stores into its parameter: the callee works on the tail
   [drop off p] (after the bounds check of the slice expression, gslice_from) and cannot change
   its length; its final contents [sub] replace the tail of p *)
Definition gsplice (buf : bytes) (off : Z) (sub : bytes) : bytes := (take (Z.to_N off) buf ++ sub)%list.

(* len(m) for a Go map: the number of DISTINCT keys among the assignments *)
Fixpoint alist_count {K V} (eqb : K -> K -> bool) (l : list (K * V)) : nat :=
  match l with
  | [] => O
  | (k, _) :: r => if existsb (fun kv => eqb (fst kv) k) r then alist_count eqb r else S (alist_count eqb r)
  end.
Definition gmap_len {K V} (eqb : K -> K -> bool) (m : gmap K V) : Z :=
  match m with None => 0 | Some l => Z.of_nat (alist_count eqb l) end.

(* `for k, v := range m`: Go does not specify the enumeration order.  The generated definition
   takes it as an explicit parameter ord : list K and looks v up in the map; the theorems assume
   that ord enumerates each key of the map exactly once ([] for the nil or empty map). *)
Definition gmap_keys {K V} (m : gmap K V) : list K := match m with None => [] | Some l => map fst l end.
Definition gmap_order_ok {K V} (m : gmap K V) (ord : list K) : Prop :=
  NoDup ord /\ forall k, In k ord <-> In k (gmap_keys m).

(* v, ok := m[k] *)
Definition gmap_find {K V} (eqb : K -> K -> bool) (m : gmap K V) (k : K) : option V :=
  match m with None => None | Some l => alist_get eqb l k end.

(* WINDOWS into memory owned by an abstract object (the []byte a bufiox.Writer's Malloc(n)
   returns): (start, length) in the object's own address space.  Stores through a window are the
   object's poke operation, a parameter r_<obj>_poke : St -> Z -> bytes -> res St of the generated
   definition (position, bytes); the translator refuses every other use of a window (reading an
   element, copying, handing it to a callee), so a window never stands for its contents. *)
Definition gregion := (Z * Z)%type.
Definition gregion_nil : gregion := (0, 0).
Definition gregion_len (r : gregion) : Z := snd r.
(* w[lo:hi]  (cap = len) *)
Definition gregion_slice (r : gregion) (lo hi : Z) : res gregion :=
  if (lo <? 0) || (hi <? lo) || (snd r <? hi) then Panic 1 else Ok (fst r + lo, hi - lo).
(* the position of w[i] *)
Definition gregion_at (r : gregion) (i : Z) : res Z :=
  if (i <? 0) || (snd r <=? i) then Panic 1 else Ok (fst r + i).
(* binary.BigEndian.PutUintK(w, v): panics when w is shorter than k bytes *)
Definition gregion_need (r : gregion) (k : nat) : res Z :=
  if snd r <? Z.of_nat k then Panic 1 else Ok (fst r).

(* x[i] for a slice that the function only reads (a list): panics out of range *)
Definition gelem {A} (l : list A) (i : Z) : res A :=
  if i <? 0 then Panic 2 else match nth_error l (Z.to_nat i) with Some x => Ok x | None => Panic 2 end.

(* =====================================================================================
   Phase 4 of the translator: slices with spare capacity (bufiox)
   ===================================================================================== *)

(* A []byte whose CAPACITY matters (a []byte field of one of the structs listed in the translator's
   table csStructs, a local variable or parameter that such a value flows into): None is the nil
   slice; Some (mem, l): mem = the contents of the backing array from the slice's first element up
   to its capacity (cap = the length of mem), l = len, 0 <= l <= cap.  Values, not references:
   the translator's sharing discipline (ext4.go) refuses a function in which two live variables
   could refer to one backing array while one of them is stored into; slices handed out to the
   caller ([]byte results, which are contents: [gcs_bytes]) are NOT tracked. *)
Definition gcslice := option (bytes * Z).
Definition gcs_nil : gcslice := None.
Definition gcs_is_nil (s : gcslice) : bool := match s with None => true | Some _ => false end.
Definition gcs_len (s : gcslice) : Z := match s with None => 0 | Some (_, l) => l end.
Definition gcs_mem (s : gcslice) : bytes := match s with None => [] | Some (m, _) => m end.
Definition gcs_cap (s : gcslice) : Z := glen (gcs_mem s).
(* the contents s[0:len]: what the []byte VALUES of the earlier phases stand for *)
Definition gcs_bytes (s : gcslice) : bytes := take (Z.to_N (gcs_len s)) (gcs_mem s).
(* s[lo:hi] needs 0 <= lo <= hi <= cap(s) (s[lo:] is s[lo:len(s)], s[:hi] is s[0:hi]); a slice of the
   nil slice is nil *)
Definition gcs_slice (s : gcslice) (lo hi : Z) : res gcslice :=
  if (lo <? 0) || (hi <? lo) || (gcs_cap s <? hi) then Panic 1
  else match s with
       | None => Ok None
       | Some (m, _) => Ok (Some (drop (Z.to_N lo) m, hi - lo))
       end.
(* n := copy(s[lo:hi], v): the slice expression is checked, min(len v, hi - lo) bytes are stored at
   lo; v is a value (evaluated before the store: Go's copy handles overlap like memmove) *)
Definition gcs_copy (s : gcslice) (lo hi : Z) (v : bytes) : res (gcslice * Z) :=
  if (lo <? 0) || (hi <? lo) || (gcs_cap s <? hi) then Panic 1
  else let n := N.min (len v) (Z.to_N (hi - lo)) in
       match s with
       | None => Ok (None, 0)
       | Some (m, l) => Ok (Some ((take (Z.to_N lo) m ++ take n v ++ drop (Z.to_N lo + n) m)%list, l), Z.of_N n)
       end.
(* obj.M(s[lo:hi]) for a method that stores into its argument (io.Reader.Read): the method's model
   is given the contents of the window and returns its final contents [p] (trusted: of the same
   length), which replace the window in the backing array *)
Definition gcs_splice (s : gcslice) (lo : Z) (p : bytes) : gcslice :=
  match s with
  | None => None
  | Some (m, l) => Some ((take (Z.to_N lo) m ++ p ++ drop (Z.to_N lo + len p) m)%list, l)
  end.

(* a [][]byte field (parked buffers): None is nil *)
Definition gcslist := option (list gcslice).
Definition gcsl_nil : gcslist := None.
Definition gcsl_is_nil (l : gcslist) : bool := match l with None => true | Some _ => false end.
Definition gcsl_items (l : gcslist) : list gcslice := match l with None => [] | Some x => x end.
Definition gcsl_len (l : gcslist) : Z := glen (gcsl_items l).
(* append(l, s): capacity of the outer slice is not modelled (appending never fails) *)
Definition gcsl_append (l : gcslist) (s : gcslice) : gcslist := Some (gcsl_items l ++ [s])%list.

(* an array field [N]T of integers is a list Z of length N (the theorems assume the length);
   a[i] = x panics out of range like a[i] (gelem) *)
Definition garr_set (a : list Z) (i : Z) (x : Z) : res (list Z) :=
  if (i <? 0) || (glen a <=? i) then Panic 2
  else Ok (firstn (Z.to_nat i) a ++ x :: skipn (S (Z.to_nat i)) a)%list.
