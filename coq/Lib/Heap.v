(* Lib/Heap.v — a small block heap: blocks of bytes addressed by (block id, offset).
   Go slices are (pointer, len, cap), strings (pointer, len); a nil pointer is [None]. *)
From GV Require Import Lib.Bytes.
Open Scope N_scope.

Definition ptr : Type := (nat * N)%type.            (* block id, byte offset *)
Definition heap : Type := list bytes.               (* block id = index *)

Record gslice := { sptr : option ptr; slen : N; scap : N }.
Record gstring := { tptr : option ptr; tlen : N }.

Definition nil_slice : gslice := {| sptr := None; slen := 0; scap := 0 |}.
Definition empty_string : gstring := {| tptr := None; tlen := 0 |}.

Definition block (h : heap) (b : nat) : bytes := nth b h [].

Definition read (h : heap) (p : option ptr) (n : N) : bytes :=
  match p with
  | None => []
  | Some (b, off) => take n (drop off (block h b))
  end.

Definition slice_bytes (h : heap) (s : gslice) : bytes := read h (sptr s) (slen s).
Definition string_bytes (h : heap) (s : gstring) : bytes := read h (tptr s) (tlen s).

(* a slice is valid when it lies inside its block *)
Definition slice_valid (h : heap) (s : gslice) : Prop :=
  slen s <= scap s /\
  match sptr s with
  | None => scap s = 0
  | Some (b, off) => (b < length h)%nat /\ off + scap s <= len (block h b)
  end.

Fixpoint set_nth {A} (i : nat) (x : A) (l : list A) : list A :=
  match l, i with
  | [], _ => []
  | _ :: r, O => x :: r
  | y :: r, S i' => y :: set_nth i' x r
  end.

Lemma set_nth_length {A} i (x : A) l : length (set_nth i x l) = length l.
Proof. revert i; induction l as [|y l IH]; intros [|i]; cbn; auto. Qed.

Lemma nth_set_nth_eq {A} i (x d : A) l : (i < length l)%nat -> nth i (set_nth i x l) d = x.
Proof. revert i; induction l as [|y l IH]; intros [|i] H; cbn in *; try lia; auto. apply IH. lia. Qed.

Lemma nth_set_nth_ne {A} i j (x d : A) l : i <> j -> nth j (set_nth i x l) d = nth j l d.
Proof.
  revert i j; induction l as [|y l IH]; intros [|i] [|j] H; cbn; try congruence; auto.
Qed.

(* write bytes [v] at offset [off] of block [b] *)
Definition splice (l : bytes) (off : N) (v : bytes) : bytes :=
  take off l ++ v ++ drop (off + len v) l.

Definition write (h : heap) (p : ptr) (v : bytes) : heap :=
  let '(b, off) := p in set_nth b (splice (block h b) off v) h.

(* allocation: a fresh block appended at the end *)
Definition alloc (h : heap) (contents : bytes) : heap * nat := (h ++ [contents], length h).

(* Go's append(s, x...) for a slice: in place when it fits, otherwise a fresh block of
   capacity [newcap] >= len+|x| chosen by the runtime (an oracle argument). *)
Definition go_append (h : heap) (s : gslice) (x : bytes) (newcap : N) : heap * gslice :=
  if slen s + len x <=? scap s then
    match sptr s with
    | Some (b, off) =>
      (write h (b, off + slen s) x, {| sptr := sptr s; slen := slen s + len x; scap := scap s |})
    | None => (h, s)   (* only when x is empty *)
    end
  else
    let nc := N.max newcap (slen s + len x) in
    let contents := slice_bytes h s ++ x ++ repeat 0 (N.to_nat (nc - (slen s + len x))) in
    let '(h', b) := alloc h contents in
    (h', {| sptr := Some (b, 0); slen := slen s + len x; scap := nc |}).
