(* Corr/C01.v — Thrift binary codec: three writer families and two reader families against the
   models and against Spec/Wire.enc / ref_dec.

   mode 0  (0 items off0 slack seed pre rest script failk rounds)
     items   the values (see Corr/CodecC.v); written in sequence by each writer family, then read
             back in sequence by each reader family
     in-place: buf = pat seed (off0 + total + slack); n := Binary.WriteX(buf[off:], v); off += n
     append:   buf = pre; buf = Binary.AppendX(buf, v)
     length:   Binary.XLength(v)
     stream writer: BufferWriter over bufiox.NewDefaultWriter(sink failing at its failk-th Write);
             [rounds] times: (first round only: Malloc(|pre|), filled with pre) WriteX(v)..., Flush
     readers read  data = pre ++ (append writer's bytes) ++ rest:
             buffer reader on data[|pre|:], stream reader over the scripted source after Next(|pre|)
     output (W A Ln SW BR SR)
       W  = (buf ns)               A = bytes            Ln = (n...)
       SW = ((errs wlen flusherr sink)...)   per round; errs: one class per method called (the
            caller stops at the first error); wlen = WrittenLen before Flush; sink = () | (bytes)
       BR = (((val l)...) err)     SR = (((val readlen)...) err finalReadLen)
   mode 1  (1 kinds data prelen script)       decode arbitrary bytes;  output (BR SR)
   mode 2  (2 item buflen seed)               in-place writer into a buffer of exactly buflen bytes;
           output (0 n buf) or (1) when the call panicked
   mode 3  (3 lo n)                           the harness itself runs every i32 whose bit pattern is in
           [lo, lo+n) through the three writers and two readers against encoding/binary (thorough:
           all 2^32 values); output (disagreements ((v bytes)...)): a few samples, checked against enc

   specok (mode 0): every writer's bytes = concat (map enc items) in place / after pre; every
   returned and advertised length = |enc item|; a successful flush hands the sink exactly the
   bytes; both readers return what the format's reference decoder [ref_dec] reads from the bytes,
   with the same extents, and an error exactly where it fails; when every item is within the
   format's limits ([item_ok]) that is the items themselves.  Stream-reader clauses are required
   only for scripts that cannot stall. *)
From GV Require Import Lib.Bytes Lib.Res Lib.Heap Corr.Val Gen.Consts Spec.Log Spec.Cursor Spec.Wire
     Model.Binary Model.BufWriter Model.BufReader Model.StreamCodec Corr.CodecC.
Open Scope N_scope.

(* ---------- stream writer rounds (model) ---------- *)
Definition flush_obs (st : wstate) : wstate * cval * cval :=   (* state, flush error class, sink *)
  let '(st1, ob) := wstep no_dirt st OFlush in
  (st1, werr_cls (o_err ob), match o_sink ob with Some b => L [B b] | None => L [] end).

Definition sw_round (st : wstate) (pre : bytes) (its : list item) : option (wstate * cval) :=
  let r0 := if 0 <? len pre then bw_run no_dirt st [SMalloc (len pre) [(0, pre)]] else Ok (st, E_NONE) in
  match r0 with
  | Ok (st0, e0) =>
    match (if (e0 =? E_NONE)%Z then bw_items no_dirt st0 its else Ok (st0, [])) with
    | Ok (st1, es) =>
      let wl := written_len st1 in
      let '(st2, fe, sk) := flush_obs st1 in
      Some (st2, L [L (map werr_cls ((if 0 <? len pre then [e0] else []) ++ es)); I (Z.of_N wl); fe; sk])
    | _ => None
    end
  | _ => None
  end.

Fixpoint sw_rounds (n : nat) (st : wstate) (pre : bytes) (its : list item) : option (list cval) :=
  match n with
  | O => Some []
  | S n' =>
    match sw_round st pre its with
    | Some (st1, c) => match sw_rounds n' st1 [] its with Some r => Some (c :: r) | None => None end
    | None => None
    end
  end.

(* ---------- readers (model and reference) ---------- *)
Definition br_out (ks : list kind) (buf : bytes) : cval :=
  let '(l, e) := br_seq ks buf in
  L [vals_cval l; match e with None => L [] | Some x => cls_of_code x end].

Definition sr_out (ks : list kind) (ost : option rstate) (prelen : N) : cval * bool :=   (* output, failed *)
  match ost with
  | None => (L [], false)             (* no stream reader in this case *)
  | Some st =>
    (* positioning: the harness calls the bufiox reader's own Next(prelen) *)
    let '(st0, r0) := if 0 <? prelen
                      then (let '(s, o) := r_next st (Z.of_N prelen) in
                            (s, match o with OBytes _ => None | OErr e => Some (L [I (-2)%Z; I e]) | _ => Some crash_cls end))
                      else (st, None) in
    match r0 with
    | None =>
      let '(l, e, st1) := sr_seq ks st0 in
      (L [vals_cval l; match e with None => L [] | Some x => cls_of_code x end; I (Z.of_N (r_readlen st1))],
       match e with None => false | Some _ => true end)
    | Some c => (L [L []; c; I (Z.of_N (r_readlen st0))], true)
    end
  end.

(* the reference reading of data[prelen:] *)
Definition ref_br (ks : list kind) (buf : bytes) (out : cval) : bool :=
  let '(l, okk) := ref_seq ks buf in
  match out with
  | L [vals; e] => cval_eqb vals (vals_cval l) && Bool.eqb (is_nil_cls e) okk
  | _ => false
  end.
Definition ref_sr (ks : list kind) (buf : bytes) (prelen : N) (avail : bool) (out : cval) : bool :=
  let '(l, okk) := ref_seq ks buf in
  match out with
  | L [] => true                      (* no stream reader in this case *)
  | L [vals; e; I rl] =>
    if avail then
      cval_eqb vals (vals_cval (cumul prelen l)) && Bool.eqb (is_nil_cls e) okk
      && (if okk then Z.eqb rl (Z.of_N (prelen + fold_left (fun a p => a + snd p) l 0)) else true)
    else negb (is_nil_cls e)      (* fewer than prelen bytes exist: the positioning Next must fail *)
  | _ => false
  end.

Definition first_kind_code (ks : list kind) : Z := match ks with k :: _ => kind_code k | [] => 13%Z end.

Definition check (c : cval) : verdict :=
  match c with
  (* ---------------- mode 0 ---------------- *)
  | L [L [I 0%Z; L itemsv; I off0; I slack; I seed; prev; restv; script; I failk; I rounds];
       L [L [B wbuf; L wns]; B abuf; L lns; L swr; brv; srv]] =>
    match all_some (map dec_item itemsv) with
    | Some items =>
      if (off0 <? 0)%Z || (slack <? 0)%Z || (seed <? 0)%Z || (failk <? 0)%Z || (rounds <? 1)%Z || (2 <? rounds)%Z
      then bad_case else
      let pre := vbytes prev in let rest := vbytes restv in
      let encs := map enc items in
      let total := concat encs in
      let buf0 := pat (Z.to_N seed) (Z.to_N off0 + len total + Z.to_N slack) in
      let ks := map kind_of items in
      (* model *)
      let m_w := match w_seq buf0 (Z.to_N off0) items with
                 | Ok (b, ns) => L [B b; L (map (fun n => I (Z.of_N n)) ns)]
                 | _ => crash_cls end in
      let m_a := a_seq pre items in
      let m_l := L (map (fun it => I (Z.of_N (l_item it))) items) in
      let m_sw := match sw_rounds (Z.to_nat rounds) (new_writer (Z.to_N failk)) pre items with
                  | Some r => L r | None => crash_cls end in
      let data := m_a ++ rest in
      let m_br := br_out ks (drop (len pre) data) in
      match mk_reader script data with
      | None | Some (None, _) => bad_case
      | Some (Some st, stall) =>
        let '(m_sr, srfail) := sr_out ks (Some st) (len pre) in
        let a := cval_eqb m_w (L [B wbuf; L wns]) && beqb m_a abuf && cval_eqb m_l (L lns)
                 && cval_eqb m_sw (L swr) && cval_eqb m_br brv && cval_eqb m_sr srv in
        (* spec, from enc / ref_dec only *)
        let lens := L (map (fun e => I (Z.of_N (len e))) encs) in
        let s_w := beqb wbuf (take (Z.to_N off0) buf0 ++ total ++ drop (Z.to_N off0 + len total) buf0)
                   && cval_eqb (L wns) lens in
        let s_a := beqb abuf (pre ++ total) in
        let s_l := cval_eqb (L lns) lens in
        let nils := L (map (fun _ => L []) ((if 0 <? len pre then [tt] else []) ++ map (fun _ => tt) items)) in
        let nils2 := L (map (fun _ => L []) items) in
        let s_sw :=
          match swr with
          | [L [e1; I wl1; fe1; sk1]] =>
            if (failk =? 1)%Z then negb (is_nil_cls fe1) && is_nil_cls sk1
            else cval_eqb e1 nils && (wl1 =? Z.of_N (len pre + len total))%Z && is_nil_cls fe1
                 && cval_eqb sk1 (L [B (pre ++ total)])
          | [L [e1; I wl1; fe1; sk1]; L [e2; I wl2; fe2; sk2]] =>
            if (failk =? 1)%Z then negb (is_nil_cls fe1) && is_nil_cls sk1 && negb (is_nil_cls fe2) && is_nil_cls sk2
            else cval_eqb e1 nils && (wl1 =? Z.of_N (len pre + len total))%Z && is_nil_cls fe1
                 && cval_eqb sk1 (L [B (pre ++ total)])
                 && (if (failk =? 2)%Z then negb (is_nil_cls fe2) && is_nil_cls sk2
                     else cval_eqb e2 nils2 && (wl2 =? Z.of_N (len total))%Z && is_nil_cls fe2
                          && cval_eqb sk2 (L [B total]))
          | _ => false
          end in
        let rdata := total ++ rest in
        let allok := forallb item_ok items in
        let rt := vals_cval (map (fun it => (it, len (enc it))) items) in
        let s_br := ref_br ks rdata brv
                    && (if allok then match brv with L [vals; e] => cval_eqb vals rt && is_nil_cls e | _ => false end else true) in
        let s_sr := if stall then true else
                    ref_sr ks rdata (len pre) true srv
                    && (if allok then match srv with
                                      | L [vals; e; _] => cval_eqb vals (vals_cval (cumul (len pre) (map (fun it => (it, len (enc it))) items)))
                                                          && is_nil_cls e
                                      | _ => false end else true) in
        mk a (s_w && s_a && s_l && s_sw && s_br && s_sr)
           (1 + first_kind_code ks * 16 + (if srfail then 1 else 0) + (if allok then 0 else 2)
            + (match script with L (I 1%Z :: _) => 4 | _ => 0 end) + (if (failk =? 0)%Z then 0 else 8))%Z
      end
    | None => bad_case
    end
  (* ---------------- mode 1 ---------------- *)
  | L [L [I 1%Z; L kindsv; datav; I prelen; script]; L [brv; srv]] =>
    match all_some (map dec_kind kindsv) with
    | Some ks =>
      let data := vbytes datav in
      let pl := Z.to_N prelen in
      if (prelen <? 0)%Z || (len data <? pl) then bad_case else
      match mk_reader script data with
      | None => bad_case
      | Some (st, stall) =>
        let m_br := br_out ks (drop pl data) in
        let '(m_sr, srfail) := sr_out ks st pl in
        let a := cval_eqb m_br brv && cval_eqb m_sr srv in
        let s := ref_br ks (drop pl data) brv
                 && (if stall then true else ref_sr ks (drop pl data) pl (pl <=? len data) srv) in
        mk a s (1000 + first_kind_code ks * 16 + (if srfail then 1 else 0)
                + (match brv with L [_; L []] => 0 | _ => 2 end)
                + (match script with L (I 1%Z :: _) => 4 | _ => 0 end))%Z
      end
    | None => bad_case
    end
  (* ---------------- mode 2 ---------------- *)
  | L [L [I 2%Z; itemv; I buflen; I seed]; out] =>
    match dec_item itemv with
    | Some it =>
      if (buflen <? 0)%Z || (seed <? 0)%Z then bad_case else
      let buf0 := pat (Z.to_N seed) (Z.to_N buflen) in
      let m := match w_item buf0 it with
               | Ok (b, n) => L [I 0%Z; I (Z.of_N n); B b]
               | _ => L [I 1%Z] end in
      (* spec: when the encoding fits, the buffer holds it and n is its length; nothing is said otherwise *)
      let e := enc it in
      let s := if len e <=? Z.to_N buflen
               then cval_eqb out (L [I 0%Z; I (Z.of_N (len e)); B (e ++ drop (len e) buf0)])
               else true in
      mk (cval_eqb m out) s (2000 + kind_code (kind_of it) * 16 + (match m with L [I 1%Z] => 1 | _ => 0 end))%Z
    | None => bad_case
    end
  (* ---------------- mode 3: i32 range sweep run inside the harness ---------------- *)
  | L [L [I 3%Z; I lo; I n]; L [I nbad; L samples]] =>
    if (lo <? 0)%Z || (n <? 1)%Z || (Z.of_N two32 <? lo + n)%Z then bad_case else
    let okk := forallb (fun sv => match sv with
                                  | L [I v; B b] => fitsb 32 v && beqb b (enc (II32 v))
                                                    && (lo <=? Z.of_N (u32 v))%Z && (Z.of_N (u32 v) <? lo + n)%Z
                                  | _ => false end) samples in
    let r := (nbad =? 0)%Z && okk && negb (Nat.eqb (length samples) 0) in
    mk r r 3000%Z
  | _ => bad_case
  end.
