(* Corr/TTHeaderC.v — shared by Corr/C06.v and Corr/C10.v: decoding of the harness' cvals and
   the comparison of one observed Decode result with the model and with the spec.

   dec ::= (status errclass flags seq pid intmap strmap hlen plen readlen intnil strnil)
     status 0 ok | 1 error | 2 panic;  maps: ((key value) ...) sorted by key, keys distinct;
     intnil/strnil = 1: the map is nil (absent), 0: a map (possibly empty) *)
From GV Require Import Lib.Bytes Lib.Res Corr.Val Model.TTHeader Spec.FrameLayout.
Open Scope N_scope.

Definition vikv (v : cval) : N * bytes :=
  match v with L [k; s] => (vN k, vbytes s) | _ => (0, []) end.
Definition vskv (v : cval) : bytes * bytes :=
  match v with L [k; s] => (vbytes k, vbytes s) | _ => ([], []) end.
Definition vimap (v : cval) : list (N * bytes) := map vikv (vlist v).
Definition vsmap (v : cval) : list (bytes * bytes) := map vskv (vlist v).

Record obs := {
  o_st : Z; o_ec : Z; o_fl : Z; o_sq : Z; o_pid : Z;
  o_im : list (N * bytes); o_sm : list (bytes * bytes);
  o_hlen : Z; o_plen : Z; o_rl : Z; o_inil : Z; o_snil : Z
}.

Definition vobs (v : cval) : option obs :=
  match v with
  | L [I st; I ec; I fl; I sq; I pid; im; sm; I hl; I pl; I rl; I inil; I snil] =>
    Some {| o_st := st; o_ec := ec; o_fl := fl; o_sq := sq; o_pid := pid;
            o_im := vimap im; o_sm := vsmap sm; o_hlen := hl; o_plen := pl; o_rl := rl;
            o_inil := inil; o_snil := snil |}
  | _ => None
  end.

(* both Next failures are the reader's error (io.EOF ...): one class on the Go side *)
Definition norm_err (e : Z) : Z := if (e =? e_short2)%Z then e_short else e.

Definition imap_eqb (a b : list (N * bytes)) : bool := fm_eqb N.eqb a b.
Definition smap_eqb (a b : list (bytes * bytes)) : bool := fm_eqb beqb a b.

(* an observed map (entries + nil flag) against an optional association list *)
Definition omap_eqb {K} (keq : K -> K -> bool) (nilflag : Z) (obs : list (K * bytes))
           (m : option (list (K * bytes))) : bool :=
  match m with
  | None => (nilflag =? 1)%Z && match obs with [] => true | _ => false end
  | Some l => (nilflag =? 0)%Z && fm_eqb keq obs l
  end.

Definition dec_agree (m : N * res dparam) (o : obs) : bool :=
  let '(c, r) := m in
  match r with
  | Ok d =>
    (o_st o =? 0)%Z && (o_rl o =? Z.of_N c)%Z
    && (o_fl o =? Z.of_N (d_flags d))%Z && (o_sq o =? d_seq d)%Z && (o_pid o =? Z.of_N (d_pid d))%Z
    && omap_eqb N.eqb (o_inil o) (o_im o) (d_int d) && omap_eqb beqb (o_snil o) (o_sm o) (d_str d)
    && nodupk N.eqb (keys (o_im o)) && nodupk beqb (keys (o_sm o))
    && (o_hlen o =? d_hlen d)%Z && (o_plen o =? d_plen d)%Z
  | Err e => (o_st o =? 1)%Z && (o_ec o =? norm_err e)%Z && (o_rl o =? Z.of_N c)%Z
  | Panic _ | OOB => (o_st o =? 2)%Z
  end.

(* C10's demand on one observation, from the layout spec alone *)
Definition dec_spec (b : bytes) (o : obs) : bool :=
  negb (o_st o =? 2)%Z
  && (0 <=? o_rl o)%Z && (o_rl o <=? Z.of_N (N.min (len b) (L_meta + declared b)))%Z
  && match spec_decode b with
     | Some s =>
       (o_st o =? 0)%Z
       && (o_fl o =? Z.of_N (s_flags s))%Z && (o_sq o =? s_seq s)%Z && (o_pid o =? Z.of_N (s_pid s))%Z
       && omap_eqb N.eqb (o_inil o) (o_im o) (s_int s) && omap_eqb beqb (o_snil o) (o_sm o) (s_str s)
       && nodupk N.eqb (keys (o_im o)) && nodupk beqb (keys (o_sm o))
       && (o_hlen o =? s_hlen s)%Z && (o_plen o =? s_plen s)%Z
     | None => (o_st o =? 1)%Z
     end.

Definition dec_tag (m : N * res dparam) : Z :=
  match snd m with
  | Ok d => (1 + (match d_int d with None => 0 | Some [] => 1 | _ => 2 end)
              + (match d_str d with None => 0 | Some [] => 3 | _ => 6 end))%Z
  | Err e => (10 + e)%Z
  | Panic _ => 30%Z
  | OOB => 31%Z
  end.
