(* Corr/C11.v — correspondence for the shipped FastCodec structs.

   sk      0 base.Base   1 base.BaseResp   2 thrift.ApplicationException
   struct  0 (nil pointer) | Base (logid caller addr extra) | BaseResp (msg code extra) | AppEx (msg type)
           extra: 0 = nil map | ((k v) ...)      every string: a byte-string specification of Corr/Val.v
   result of a FastRead   rv = (0 n struct) ok | (1 code) error | (2) panic | (3) not run
           code = label + underlying error code (Model/FastCodec.v), maps sorted by key

   input  (0 sk struct rest)            the write side, then reading back
   output (bl w m rv uv)
            bl   BLength()              (-1: panicked)
            w    (n bytes order) | (-1) FastWrite into a BLength-sized buffer pre-filled with 0xEE;
                                        order = map enumeration order recovered from the bytes
            m    (bytes order)   | (-1) FastMarshal
            rv   FastRead(bytes ++ rest) into a fresh zero-valued receiver
            uv   FastUnmarshal(marshalled) into a fresh receiver: (0 0 struct) | (1 code) | (2) | (3)

   input  (1 sk recv items rest)        structured read: recv = receiver's prior value
            item (0 id (11 s))  (0 id (8 v))  (0 id (13 ((k v) ...)))     known-typed field
                 (1 t id tree)                                            any field: type byte, 16-bit id, value tree
            tree (2 b) (3 b) (4 bits) (6 u) (8 u) (10 u) (11 s) (12 (ft id tree) ...)
                 (13 kt vt (tree tree) ...) (14 et tree ...) (15 et tree ...)
   output (bytes rv)                    bytes = the fields encoded by the harness's own encoder ++ STOP ++ rest

   input  (2 sk recv bytes)             arbitrary / damaged bytes
   output (rv)

   agree: same BLength, bytes, n, error code / panic class, resulting struct as the model.
   spec : write side: BLength = |bytes| = n, bytes = the struct's stream in its order (Spec/FastSpec.v),
          reading back returns the value (nil map stays nil, empty stays empty) and consumes exactly
          BLength; structured read (all fields well-formed, receiver non-nil): succeeds, consumes
          exactly fields + STOP, result = reference semantics of Spec/FastRead.v;
          arbitrary bytes (receiver non-nil): never a panic, n <= |bytes|. *)
From GV Require Import Lib.Bytes Lib.Res Corr.Val Gen.Consts Model.Binary Spec.Wire Model.Skip Model.Nocopy
                       Model.FastCodec Spec.FastSpec Spec.FastRead.
Open Scope Z_scope.

Definition thr : Z := thrift_nocopyWriteThreshold.

(* ---------- decoding ---------- *)
Fixpoint dec_all {A} (f : cval -> option A) (l : list cval) : option (list A) :=
  match l with
  | [] => Some []
  | c :: r => match f c, dec_all f r with
              | Some a, Some ar => Some (a :: ar)
              | _, _ => None
              end
  end.

Definition dec_kv (c : cval) : option (bytes * bytes) :=
  match c with L [k; v] => Some (vbytes k, vbytes v) | _ => None end.
Definition dec_extra (c : cval) : option smap :=
  match c with
  | I 0 => Some None
  | L l => match dec_all dec_kv l with Some kvs => Some (Some kvs) | None => None end
  | _ => None
  end.

Inductive sval : Type :=
| SB (p : option base)
| SR (p : option baseresp)
| SX (p : option appex).

Definition dec_sval (sk : Z) (c : cval) : option sval :=
  match sk, c with
  | 0, I 0 => Some (SB None)
  | 1, I 0 => Some (SR None)
  | 2, I 0 => Some (SX None)
  | 0, L [a; b; c'; e] =>
      match dec_extra e with
      | Some m => Some (SB (Some {| b_logid := vbytes a; b_caller := vbytes b; b_addr := vbytes c'; b_extra := m |}))
      | None => None
      end
  | 1, L [a; I code; e] =>
      match dec_extra e with
      | Some m => if in_signedb 32 code then Some (SR (Some {| r_msg := vbytes a; r_code := code; r_extra := m |})) else None
      | None => None
      end
  | 2, L [a; I t] => if in_signedb 32 t then Some (SX (Some {| x_msg := vbytes a; x_type := t |})) else None
  | _, _ => None
  end.

Definition dec_idx (c : cval) : option nat :=
  match c with I z => if z <? 0 then None else Some (Z.to_nat z) | _ => None end.
Definition dec_order (c : cval) : option (list nat) :=
  match c with L l => dec_all dec_idx l | _ => None end.
Fixpoint mem_nat (x : nat) (l : list nat) : bool :=
  match l with [] => false | y :: r => (x =? y)%nat || mem_nat x r end.
Fixpoint nodup_nat (l : list nat) : bool :=
  match l with [] => true | x :: r => negb (mem_nat x r) && nodup_nat r end.
Fixpoint pick {A} (l : list A) (o : list nat) : option (list A) :=
  match o with
  | [] => Some []
  | i :: r => match nth_error l i, pick l r with
              | Some a, Some ar => Some (a :: ar)
              | _, _ => None
              end
  end.
Definition permute {A} (l : list A) (o : list nat) : option (list A) :=
  if (length o =? length l)%nat && nodup_nat o then pick l o else None.
Definition permute_map (m : smap) (o : option (list nat)) : option smap :=
  match m, o with
  | None, Some [] => Some None
  | Some l, Some o' => match permute l o' with Some l' => Some (Some l') | None => None end
  | _, _ => None
  end.
Definition reorder (s : sval) (o : option (list nat)) : option sval :=
  match s with
  | SB (Some p) =>
      match permute_map (b_extra p) o with
      | Some m => Some (SB (Some (set_extra m p)))
      | None => None
      end
  | SR (Some p) =>
      match permute_map (r_extra p) o with
      | Some m => Some (SR (Some (set_rextra m p)))
      | None => None
      end
  | _ => match o with Some [] => Some s | _ => None end
  end.

(* value trees *)
Fixpoint dec_tree (f : nat) (c : cval) : option ThriftGrammar.value :=
  match f with
  | O => None
  | S f' =>
    let n z := Z.to_N z in
    match c with
    | L [I 2; I b] => Some (ThriftGrammar.VBool (n b))
    | L [I 3; I b] => Some (ThriftGrammar.VByte (n b))
    | L [I 4; I x] => Some (ThriftGrammar.VDouble (n x))
    | L [I 6; I x] => Some (ThriftGrammar.VI16 (n x))
    | L [I 8; I x] => Some (ThriftGrammar.VI32 (n x))
    | L [I 10; I x] => Some (ThriftGrammar.VI64 (n x))
    | L [I 11; s] => Some (ThriftGrammar.VStr (vbytes s))
    | L (I 12 :: fs) =>
        option_map ThriftGrammar.VStruct
          (dec_all (fun x => match x with
                             | L [I ft; I id; v] =>
                                 match dec_tree f' v with Some v' => Some (n ft, n id, v') | None => None end
                             | _ => None end) fs)
    | L (I 13 :: I kt :: I vt :: kvs) =>
        option_map (ThriftGrammar.VMap (n kt) (n vt))
          (dec_all (fun x => match x with
                             | L [k; v] =>
                                 match dec_tree f' k, dec_tree f' v with
                                 | Some k', Some v' => Some (k', v') | _, _ => None end
                             | _ => None end) kvs)
    | L (I 14 :: I et :: vs) => option_map (ThriftGrammar.VSet (n et)) (dec_all (dec_tree f') vs)
    | L (I 15 :: I et :: vs) => option_map (ThriftGrammar.VList (n et)) (dec_all (dec_tree f') vs)
    | _ => None
    end
  end.

Definition dec_fval (c : cval) : option fval :=
  match c with
  | L [I 11; s] => Some (FStr (vbytes s))
  | L [I 8; I v] => Some (FI32 v)
  | L [I 13; L es] => option_map FMap (dec_all dec_kv es)
  | _ => None
  end.
Definition dec_ritem (c : cval) : option ritem :=
  match c with
  | L [I 0; I id; fv] => option_map (Known id) (dec_fval fv)
  | L [I 1; I t; I id; tr] =>
      if (t <? 0) || (255 <? t) || (id <? 0) then None
      else option_map (Unknown (Z.to_N t) (Z.to_N id)) (dec_tree 80 tr)
  | _ => None
  end.

(* results *)
Inductive rv : Type :=
| ROk (n : Z) (s : sval)
| RErr (code : Z)
| RPanic
| RSkipped.
Definition dec_rv (sk : Z) (c : cval) : option rv :=
  match c with
  | L [I 0; I n; s] => option_map (ROk n) (dec_sval sk s)
  | L [I 1; I code] => Some (RErr code)
  | L [I 2] => Some RPanic
  | L [I 3] => Some RSkipped
  | _ => None
  end.

(* ---------- comparing structs: maps as finite maps ---------- *)
Definition kv_eqb (a b : bytes * bytes) : bool := beqb (fst a) (fst b) && beqb (snd a) (snd b).
Definition map_eqb (a b : list (bytes * bytes)) : bool :=
  (length a =? length b)%nat && forallb (fun x => existsb (kv_eqb x) b) a.
Definition smap_eqb (a b : smap) : bool := opt_eqb map_eqb a b.
Definition base_eqb (a b : base) : bool :=
  beqb (b_logid a) (b_logid b) && beqb (b_caller a) (b_caller b) && beqb (b_addr a) (b_addr b) &&
  smap_eqb (b_extra a) (b_extra b).
Definition baseresp_eqb (a b : baseresp) : bool :=
  beqb (r_msg a) (r_msg b) && (r_code a =? r_code b) && smap_eqb (r_extra a) (r_extra b).
Definition appex_eqb (a b : appex) : bool := beqb (x_msg a) (x_msg b) && (x_type a =? x_type b).
Definition sval_eqb (a b : sval) : bool :=
  match a, b with
  | SB x, SB y => opt_eqb base_eqb x y
  | SR x, SR y => opt_eqb baseresp_eqb x y
  | SX x, SX y => opt_eqb appex_eqb x y
  | _, _ => false
  end.

(* ---------- the model ---------- *)
Definition m_read (recv : sval) (b : bytes) : res (sval * N) :=
  match recv with
  | SB p => do (p', n) <- base_read p b; Ok (SB p', n)
  | SR p => do (p', n) <- baseresp_read p b; Ok (SR p', n)
  | SX p => do (p', n) <- appex_read p b; Ok (SX p', n)
  end.
Definition m_blength (s : sval) : res N :=
  match s with
  | SB p => Ok (base_blength p)
  | SR p => Ok (baseresp_blength p)
  | SX p => appex_blength p
  end.
Definition m_write (s : sval) (buf : bytes) : res (bytes * N) :=
  match s with
  | SB p => base_write thr p buf
  | SR p => baseresp_write thr p buf
  | SX p => appex_write p buf
  end.
Definition m_marshal (s : sval) : res bytes :=
  match s with
  | SB p => base_marshal thr [] p
  | SR p => baseresp_marshal thr [] p
  | SX p => appex_marshal [] p
  end.
Definition zero_of (sk : Z) : sval :=
  if sk =? 0 then SB (Some base_zero) else if sk =? 1 then SR (Some baseresp_zero) else SX (Some appex_zero).
Definition is_nil (s : sval) : bool :=
  match s with SB None | SR None | SX None => true | _ => false end.

Definition rv_agree (m : res (sval * N)) (o : rv) : bool :=
  match m, o with
  | Ok (s, n), ROk n' s' => (Z.of_N n =? n') && sval_eqb s s'
  | Err e, RErr e' => e =? e'
  | Panic _, RPanic => true
  | _, _ => false
  end.
Definition rv_tag (m : res (sval * N)) : Z :=
  match m with Ok _ => 0 | Err e => e | Panic _ => 9000 | OOB => 9001 end.

(* ---------- the spec ---------- *)
Definition s_stream (s : sval) : bytes :=
  match s with
  | SB p => base_stream p
  | SR p => baseresp_stream p
  | SX (Some e) => appex_stream (x_msg e) (x_type e)
  | SX None => []
  end.
(* what reading the stream of [s] into a fresh receiver must give *)
Definition s_readback (sk : Z) (s : sval) : sval := if is_nil s then zero_of sk else s.

Definition s_schema (s : sval) : schema :=
  match s with SB _ => base_schema | SR _ => baseresp_schema | SX _ => appex_schema end.
Definition s_apply (recv : sval) (its : list ritem) : sval :=
  match recv with
  | SB (Some p) => SB (Some (apply_items base_apply p its))
  | SR (Some p) => SR (Some (apply_items baseresp_apply p its))
  | SX (Some e) =>
      let r := apply_items appex_apply (x_msg e, x_type e) its in
      SX (Some {| x_msg := fst r; x_type := snd r |})
  | _ => recv
  end.

Definition spec_rv_exact (o : rv) (n : N) (s : sval) : bool :=
  match o with
  | ROk n' s' => (Z.of_N n =? n') && sval_eqb s s'
  | _ => false
  end.

(* ---------- the three kinds of case ---------- *)
Definition check_write (sk : Z) (s : sval) (rest : bytes) (out : list cval) : verdict :=
  match out with
  | [I bl; w; m; rvc; uvc] =>
    match dec_rv sk rvc, dec_rv sk uvc with
    | Some rvo, Some uvo =>
      (* BLength *)
      let mbl := m_blength s in
      let a_bl := match mbl with Ok n => Z.of_N n =? bl | Panic _ => bl =? -1 | _ => false end in
      let buf := repeat 238%N (Z.to_nat bl) in
      (* FastWrite *)
      let '(a_w, s_w, wbytes) :=
        match w with
        | L [I (-1)] => (is_crash (m_write s buf), false, None)
        | L [I n; bs; ord] =>
            match reorder s (dec_order ord) with
            | Some s1 =>
                let bs' := vbytes bs in
                (match m_write s1 buf with
                 | Ok (b', n') => (Z.of_N n' =? n) && beqb b' bs'
                 | _ => false
                 end,
                 (n =? bl) && beqb bs' (s_stream s1) && (bl =? Z.of_N (len bs')),
                 Some bs')
            | None => (false, false, None)
            end
        | _ => (false, false, None)
        end in
      (* FastMarshal *)
      let '(a_m, s_m, mbytes) :=
        match m with
        | L [I (-1)] => (is_crash (m_marshal s), false, None)
        | L [bs; ord] =>
            match reorder s (dec_order ord) with
            | Some s2 =>
                let bs' := vbytes bs in
                (match m_marshal s2 with Ok b' => beqb b' bs' | _ => false end,
                 beqb bs' (s_stream s2), Some bs')
            | None => (false, false, None)
            end
        | _ => (false, false, None)
        end in
      (* reading back *)
      let '(a_r, s_r) :=
        match wbytes with
        | Some bs =>
            (rv_agree (m_read (zero_of sk) (bs ++ rest)) rvo,
             spec_rv_exact rvo (len bs) (s_readback sk s))
        | None => (match rvo with RSkipped => true | _ => false end, false)
        end in
      let '(a_u, s_u) :=
        match mbytes with
        | Some bs =>
            (match m_read (zero_of sk) bs, uvo with
             | Ok (s', _), ROk _ s'' => sval_eqb s' s''
             | Err e, RErr e' => e =? e'
             | Panic _, RPanic => true
             | _, _ => false
             end,
             match uvo with ROk _ s'' => sval_eqb (s_readback sk s) s'' | _ => false end)
        | None => (match uvo with RSkipped => true | _ => false end, false)
        end in
      let nilx := match s with SX None => true | _ => false end in   (* every method of a nil exception panics *)
      mk (a_bl && a_w && a_m && a_r && a_u)
         (nilx || (s_w && s_m && s_r && s_u))
         (1 + sk * 10000 + (if is_nil s then 5000 else 0))
    | _, _ => bad_case
    end
  | _ => bad_case
  end.

Definition check_read (sk : Z) (recv : sval) (its : list ritem) (rest : bytes) (out : list cval) : verdict :=
  match out with
  | [bs; rvc] =>
    match dec_rv sk rvc with
    | Some rvo =>
      let b := vbytes bs in
      let mine := enc_ritems its ++ rest in
      if negb (beqb b mine) then bad_case else       (* the two encoders disagree: a harness problem *)
      let m := m_read recv b in
      let covered := negb (is_nil recv) && forallb (ritem_ok (s_schema recv)) its in
      mk (rv_agree m rvo)
         (if covered then spec_rv_exact rvo (len (enc_ritems its)) (s_apply recv its) else true)
         (100000 + sk * 10000 + rv_tag m + (if covered then 0 else 20000))
    | None => bad_case
    end
  | _ => bad_case
  end.

Definition check_raw (sk : Z) (recv : sval) (b : bytes) (out : list cval) : verdict :=
  match out with
  | [rvc] =>
    match dec_rv sk rvc with
    | Some rvo =>
      let m := m_read recv b in
      mk (rv_agree m rvo)
         (is_nil recv ||
          match rvo with
          | ROk n _ => (0 <=? n) && (n <=? Z.of_N (len b))
          | RErr _ => true
          | _ => false
          end)
         (200000 + sk * 10000 + rv_tag m)
    | None => bad_case
    end
  | _ => bad_case
  end.

Definition check (c : cval) : verdict :=
  match c with
  | L [L [I 0; I sk; sv; rest]; L out] =>
      match dec_sval sk sv with
      | Some s => check_write sk s (vbytes rest) out
      | None => bad_case
      end
  | L [L [I 1; I sk; rc; L items; rest]; L out] =>
      match dec_sval sk rc, dec_all dec_ritem items with
      | Some recv, Some its => check_read sk recv its (vbytes rest) out
      | _, _ => bad_case
      end
  | L [L [I 2; I sk; rc; bs]; L out] =>
      match dec_sval sk rc with
      | Some recv => check_raw sk recv (vbytes bs) out
      | None => bad_case
      end
  | _ => bad_case
  end.
