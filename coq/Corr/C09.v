(* Corr/C09.v — ownership: the heap-level models run with the block ids the implementation
   really used (as allocator oracle) and with the co-tenant's real catches (as adversary
   scripts); compared per operation: output, where the returned slice lives, the object's
   buffers (block, offset, len, cap), ri / flags, parked buffers.
   specok: every retained slice intact (observed), caller memory intact (observed), and — as
   long as model and implementation agree — no block the model considers held (or a caller's)
   shows up in foreign hands and every block the implementation obtains is fresh or
   legitimately pooled (an illegal oracle answer makes the model fall back to a fresh block,
   which shows as a heap longer than the number of blocks the harness has seen). *)
From GV Require Import Lib.Bytes Lib.Res Lib.Heap Corr.Val Model.Own Model.OwnReader Model.OwnWriter Model.OwnSkipDec.
Open Scope N_scope.

Fixpoint cv_eqb (a b : cval) : bool :=
  match a, b with
  | I x, I y => Z.eqb x y
  | B x, B y => beqb x y
  | L x, L y =>
    (fix go (l1 l2 : list cval) : bool :=
       match l1, l2 with
       | [], [] => true
       | p :: r1, q :: r2 => cv_eqb p q && go r1 r2
       | _, _ => false
       end) x y
  | _, _ => false
  end.

Definition expand_chunks (l : list cval) : list N :=
  concat (map (fun v => match v with
                        | L [I c; I k] => repeat (Z.to_N c) (Z.to_nat k)
                        | I c => [Z.to_N c]
                        | _ => [] end) l).

Definition dec_src (p : list cval) : option source :=
  match p with
  | [d; I fin; I wd; L chunks] => Some (mkSrc (vbytes d) fin (vbool (I wd)) (expand_chunks chunks) 0)
  | _ => None
  end.

Definition cN (n : N) : cval := I (Z.of_N n).
Definition cNat (n : nat) : cval := I (Z.of_nat n).
Definition enc_slice (s : option bslice) : cval :=
  match s with
  | Some s => if scp s =? 0 then L [] else L [cNat (sblk s); cN (soff s); cN (sln s); cN (scp s)]
  | None => L []
  end.
Definition enc_bool (b : bool) : cval := I (if b then 1 else 0)%Z.

(* oracle answer for "the implementation now holds block x": the pooled block x when that is legal
   at the moment of the allocation; otherwise the model allocates a fresh block, whose id is x
   exactly when x is the next unseen id *)
Definition choice_of (v : cval) : achoice := Pooled (vnat v).

(* the co-tenant obtained these known blocks, a list of (class id off).  It takes them, overwrites
   them (the model: the first 64 KiB — the contents of a block in foreign hands are dirt, the
   bound only keeps the MiB-sized blocks of the big-value histories cheap) and frees them.
   An interior pointer can never be legitimate. *)
Definition dec_cot (v : cval) : list costep :=
  concat (map (fun x => match x with
                        | L [I cl; I id; I off] =>
                          let c := 2 ^ Z.to_N cl in
                          if (off =? 0)%Z
                          then [CoAlloc c (Pooled (Z.to_nat id)); CoWrite (Z.to_nat id) 0 (repeat 199 (N.to_nat (N.min c 65536))); CoFree (Z.to_nat id)]
                          else [CoAlloc c (Fresh [])]
                        | _ => [CoAlloc 1 (Fresh [])] end) (vlist v)).

(* ---------- readers ---------- *)
Definition dec_hop (v : cval) : option hop :=
  match v with
  | L [I 0%Z; I n] => Some (HNext n)
  | L [I 1%Z; I n] => Some (HPeek n)
  | L [I 2%Z; I n] => Some (HSkip n)
  | L [I 3%Z; I k] => Some (HReadBinary (Z.to_N k))
  | L [I 4%Z] => Some HReadLen
  | L [I 5%Z] => Some HRelease
  | L [I 6%Z; I _; L sizes] => Some (HSdNext (map vN sizes))
  | _ => None
  end.
Definition enc_loc (l : option lslice) : list cval :=
  match l with Some x => [cNat (lblk x); cN (loff x)] | None => [I (-1)%Z; I 0%Z] end.
Definition enc_hout (o : hout) : cval :=
  match o with
  | HBytes v l => L (I 0%Z :: B v :: enc_loc l)
  | HNil => L [I 2%Z]
  | HErr e => L [I 1%Z; I e]
  | HUnit => L [I 3%Z]
  | HRead m b e => L [I 4%Z; cN m; B b; I (match e with Some x => x | None => 0%Z end)]
  | HLen n => L [I 5%Z; cN n]
  end.
Definition enc_rstate (st : hreader) : cval :=
  L [enc_slice (rbuf st); cN (rri st); enc_bool (rro st); L (map (fun s => enc_slice (Some s)) (rpend st))].

(* ---------- writers ---------- *)
Definition dec_wop (v : cval) : option wop :=
  match v with
  | L [I 0%Z; I n] => Some (WMalloc n)
  | L [I 1%Z; d; I extra] => Some (WWriteBinary (vbytes d) (Z.to_N extra))
  | L [I 2%Z; I k; I off; d] => Some (WFill (Z.to_nat k) (Z.to_N off) (vbytes d))
  | L [I 3%Z] => Some WFlush
  | L [I 4%Z] => Some WLen
  | _ => None
  end.
Definition enc_wobs (o : wop) (r : wobs) : cval :=
  match o with
  | WMalloc _ =>
    match oreg r with
    | Some (b, off, n) =>
      if n =? 0 then L [I 0%Z; I (oerr r); cN (owl r); I (-1)%Z; I 0%Z; I 0%Z]
      else L [I 0%Z; I (oerr r); cN (owl r); cNat b; cN off; cN n]
    | None => L [I 0%Z; I (oerr r); cN (owl r); I (-1)%Z; I 0%Z; I 0%Z]
    end
  | WFlush => L [I 1%Z; I (oerr r); cN (owl r); L (match oflushed r with Some b => [B b] | None => [] end)]
  | _ => L [I 0%Z; I (oerr r); cN (owl r)]
  end.
Definition enc_wstate (st : hwriter) : cval :=
  L [enc_slice (wbuf st); L (map (fun s => enc_slice (Some s)) (wpend st)); enc_bool (wnocache st);
     enc_bool (match werr st with Some _ => true | None => false end);
     (if kfake (wsink st) then enc_slice (ktarget (wsink st)) else L [])].

(* ---------- skip decoder ---------- *)
Definition dec_kop (v : cval) : option kop :=
  match v with
  | L [I 0%Z; I _; L sizes] => Some (KNext (map vN sizes))
  | L [I 1%Z; I n] => Some (KSkipN (Z.to_N n))
  | L (I 2%Z :: p) => match dec_src p with Some s => Some (KReset s) | None => None end
  (* Release(): Reset(nil) + sync.Pool.Put — the decoder keeps p.b, n = 0, no reader (an exhausted source) *)
  | L [I 3%Z] => Some (KReset (done_source []))
  (* NewReaderSkipDecoder(r) handing the released object out again: sync.Pool.Get + Reset(r) *)
  | L (I 4%Z :: p) => match dec_src p with Some s => Some (KReset s) | None => None end
  | _ => None
  end.
Definition enc_kout (o : kout) : cval :=
  match o with
  | KBytes v l => L (I 0%Z :: B v :: enc_loc l)
  | KErr e => L [I 1%Z; I e]
  | KPanic => L [I 9%Z]
  | KUnit => L [I 3%Z]
  end.
Definition enc_kstate (st : hskip) : cval := L [enc_slice (kb st); cN (kn st)].

Definition is_born (e : event) := match e with EvAlloc _ | EvLend _ _ => true | _ => false end.

(* ---------- the generic per-operation loop ---------- *)
Section Loop.
  Variables (S O : Type).
  Variable dec : cval -> option O.
  Variable step : S -> env -> O -> S * env * cval.    (* model output already encoded *)
  Variable enc_state : S -> cval.

  (* accumulator: state, world, trace, still agreeing, agree, spec, any error output, pooled reuse seen *)
  Record acc := mkA { a_st : S; a_w : world; a_tr : list event; a_live : bool; a_agree : bool; a_spec : bool; a_reuse : bool }.

  Definition one (a : acc) (opv outv : cval) : acc :=
    match outv with
    | L [out; stv; L allocs; L cots; L pcots; after; I live; I nids] =>
      let spec_obs := a_spec a && negb (live =? 0)%Z in
      if a_live a then
        match dec opv with
        | Some o =>
          let w := a_w a in
          let al := map choice_of allocs in
          let '(st', e', mout) := step (a_st a) (mkE w al (map dec_cot cots) (map dec_cot pcots) (a_tr a)) o in
          let w1 := co_run (ew e') (dec_cot after) in
          (* every callback and every pool operation the implementation made was one of the model's
           (a surplus mcache.Malloc/Free or io call leaves its co-tenant script unconsumed) *)
        let used := match eadv e', epool e' with [], [] => true | _, _ => false end in
        let ag := cv_eqb mout out && cv_eqb (enc_state st') stv && used in
          let sp := (Z.of_nat (length (wh w1)) =? nids)%Z in
          mkA st' w1 (eev e') ag (a_agree a && ag) (spec_obs && sp)
              (a_reuse a || (length (wh w1) <? length (filter is_born (eev e')))%nat)
        | None => mkA (a_st a) (a_w a) (a_tr a) false false false (a_reuse a)
        end
      else mkA (a_st a) (a_w a) (a_tr a) false false spec_obs (a_reuse a)
    | _ => mkA (a_st a) (a_w a) (a_tr a) false false false (a_reuse a)
    end.

  Fixpoint loop (a : acc) (ops outs : list cval) : acc :=
    match ops, outs with
    | [], [] => a
    | o :: r, x :: r' => loop (one a o x) r r'
    | _, _ => mkA (a_st a) (a_w a) (a_tr a) false false false (a_reuse a)
    end.
End Loop.
Arguments mkA {S}.
Arguments a_st {S}. Arguments a_w {S}. Arguments a_tr {S}. Arguments a_agree {S}. Arguments a_spec {S}. Arguments a_reuse {S}.

Definition count_ev (f : event -> bool) (tr : list event) : Z := Z.of_nat (length (filter f tr)).
Definition is_alloc (e : event) := match e with EvAlloc _ => true | _ => false end.
Definition is_free (e : event) := match e with EvFree _ _ cp _ => is_pow2 cp | _ => false end.
Definition is_freeign (e : event) := match e with EvFree _ _ cp _ => negb (is_pow2 cp) | _ => false end.

Definition finish {S} (kind : Z) (a : acc S) (callerok : Z) : verdict :=
  let tr := rev (a_tr a) in
  let monok := match mon m0 tr with Some _ => true | None => false end in
  mk (a_agree a) (a_spec a && negb (callerok =? 0)%Z && monok)
     (1 + kind + 8 * Z.min 3 (count_ev is_alloc tr) + 32 * Z.min 3 (count_ev is_free tr)
      + (if a_reuse a then 128 else 0) + (if existsb is_freeign tr then 256 else 0))%Z.

Definition rstep_enc (st : hreader) (e : env) (o : hop) : hreader * env * cval :=
  let '(st', e', out) := h_step st e o in (st', e', enc_hout out).
Definition wstep_enc (st : hwriter) (e : env) (o : wop) : hwriter * env * cval :=
  let '(st', e', out) := w_step st e o in (st', e', enc_wobs o out).
Definition kstep_enc (st : hskip) (e : env) (o : kop) : hskip * env * cval :=
  let '(st', e', out) := k_step st e o in (st', e', enc_kout out).

Definition env0 : env := mkE empty_world [] [] [] [].

Definition check (c : cval) : verdict :=
  match c with
  | L [L [I kind; L p; L ops]; L [L outs; I callerok]] =>
    match kind with
    | 0%Z =>
      match dec_src p with
      | Some s =>
        finish kind (loop _ _ dec_hop rstep_enc enc_rstate (mkA (new_reader s) empty_world [] true true true false) ops outs) callerok
      | None => bad_case
      end
    | 1%Z =>
      match p with
      | [pre; d; sp] =>
        let '(st, e) := new_bytes_reader env0 (vbytes pre) (vbytes d) (vbytes sp) in
        finish kind (loop _ _ dec_hop rstep_enc enc_rstate (mkA st (ew e) (eev e) true true true false) ops outs) callerok
      | _ => bad_case
      end
    | 2%Z =>
      match p with
      | [I failk] =>
        finish kind (loop _ _ dec_wop wstep_enc enc_wstate (mkA (new_writer (Z.to_N failk)) empty_world [] true true true false) ops outs) callerok
      | _ => bad_case
      end
    | 3%Z =>
      match p with
      | [I isnil; pre; d; sp] =>
        let '(st, e) := new_bytes_writer env0 (negb (isnil =? 0)%Z) (vbytes pre) (vbytes d) (vbytes sp) in
        finish kind (loop _ _ dec_wop wstep_enc enc_wstate (mkA st (ew e) (eev e) true true true false) ops outs) callerok
      | _ => bad_case
      end
    | 4%Z =>
      match dec_src p with
      | Some s =>
        finish kind (loop _ _ dec_kop kstep_enc enc_kstate (mkA (new_skip s) empty_world [] true true true false) ops outs) callerok
      | None => bad_case
      end
    | _ => bad_case
    end
  | _ => bad_case
  end.
