(* Corr/C05.v — correspondence for the buffered writer.
   input   (kind cfg ops)
             kind 0: DefaultWriter over a logging sink, cfg = (failk)          sink fails at its failk-th Write (0: never)
             kind 1: BytesWriter,                        cfg = (nil len cap seed)  *target = Pat(seed,cap)[:len], or nil
             op: (0 n) Malloc | (1 bytes) WriteBinary | (2 k off bytes) caller stores into region k at off
                 | (3) Flush | (4) WrittenLen
   output  ((err wlen sink)* target)    one triple per op: error class, WrittenLen after the op,
             sink = () or (xBYTES): what the sink received in this Flush (bytes-backed: *target right after a Flush that called the fake sink)
   agree:  the model's observations equal the implementation's.
   specok: the implementation's observations satisfy the Log specification (Spec/Log.v), run
           independently of the model. *)
From GV Require Import Lib.Bytes Lib.Res Lib.Heap Corr.Val Spec.Log Model.BufWriter.
Open Scope Z_scope.

Definition dec_op (v : cval) : option wop :=
  match v with
  | L [I 0; I n] => Some (OMalloc n)
  | L [I 1; b] => Some (OWrite (vbytes b))
  | L [I 2; I k; I off; b] =>
    if (k <? 0) || (off <? 0) then None else Some (OFill (Z.to_nat k) (Z.to_N off) (vbytes b))
  | L [I 3] => Some OFlush
  | L [I 4] => Some OLen
  | _ => None
  end.

Fixpoint dec_ops (l : list cval) : option (list wop) :=
  match l with
  | [] => Some []
  | v :: r =>
    match dec_op v, dec_ops r with
    | Some o, Some os => Some (o :: os)
    | _, _ => None
    end
  end.

Definition dec_obs (v : cval) : option (obs N) :=
  match v with
  | L [I e; I wl; L []] => if wl <? 0 then None else Some (mkobs e (Z.to_N wl) None)
  | L [I e; I wl; L [B b]] => if wl <? 0 then None else Some (mkobs e (Z.to_N wl) (Some b))
  | _ => None
  end.

Fixpoint dec_obss (l : list cval) : option (list (obs N)) :=
  match l with
  | [] => Some []
  | v :: r =>
    match dec_obs v, dec_obss r with
    | Some o, Some os => Some (o :: os)
    | _, _ => None
    end
  end.

Definition obs_eqb (a b : obs N) : bool :=
  (o_err a =? o_err b) && (o_len a =? o_len b)%N && opt_eqb beqb (o_sink a) (o_sink b).

Fixpoint all2 {A B} (f : A -> B -> bool) (a : list A) (b : list B) : bool :=
  match a, b with
  | [], [] => true
  | x :: a', y :: b' => f x y && all2 f a' b'
  | _, _ => false
  end.

(* initial states of model and spec *)
Definition dec_init (kind : Z) (cfg : list cval) : option (wstate * lstate) :=
  match kind, cfg with
  | 0, [I failk] =>
    if failk <? 0 then None else Some (new_writer (Z.to_N failk), log_new (Z.to_N failk))
  | 1, [I nilf; I ln; I cp; I seed] =>
    if negb (nilf =? 0) then Some (new_bytes_writer None, log_new_bytes None)
    else if (ln <? 0) || (cp <? ln) || (seed <? 0) then None
    else
      let blk := pat (Z.to_N seed) (Z.to_N cp) in
      Some (new_bytes_writer (Some (blk, Z.to_N ln)), log_new_bytes (Some (take (Z.to_N ln) blk)))
  | _, _ => None
  end.

(* every region is filled by the harness before it is flushed, so the dirty contents are irrelevant *)
Definition no_dirt (_ : nat) : bytes := [].

Definition check (c : cval) : verdict :=
  match c with
  | L [L [I kind; L cfg; L ops]; L [L iobs; B itarget]] =>
    match dec_init kind cfg, dec_ops ops, dec_obss iobs with
    | Some (w0, l0), Some h, Some io =>
      let '(wf_, mo) := wrun no_dirt w0 h in
      let '(lf, so) := log_run l0 h in
      let a := all2 obs_eqb mo io && beqb (target_bytes wf_) itarget in
      let s := all2 obs_okb so io && matches_b (ltarget lf) itarget in
      let g := Z.min 9 (Z.of_nat (length (store wf_))) in
      let e := match werr wf_ with Some _ => 2 | None => 0 end in
      let ng := if existsb (fun o => o_err o =? E_NEG) mo then 1 else 0 in
      mk a s (1 + kind * 100 + g * 4 + e + ng)
    | _, _, _ => bad_case
    end
  | _ => bad_case
  end.
