(* Corr/C08.v — correspondence for C08: the five real skippers on one input against the five
   models (agree) and against the grammar (specok).

   input   (t b chunks with fin depth t2 flags)
     t       type byte 0..255 (passed to Go as int8(t))
     b       the input bytes (also the data of the scripted sources)
     chunks  fragmentation script of the sources (items c or (c k)), with/fin: error delivery
     depth   0: public entry points (budget defaultRecursionDepth);  k > 0: budget k through the
             verif hooks / the exported template (decoders: Skip only, no Next)
     t2      -1, or the type byte of a second call on the same reader / decoder
     flags   informational (bit 0: the harness ran only the non-allocating skippers)
   output  (binary bufferreader peekdecoder bytesdecoder readfulldecoder), each a list of call
           results:  (9) not run | (0 n eq pos) ok | (1 code typeid) error | (2 ..) crash
     n    extent reported by the call (Binary.Skip's n; ReadLen delta; len of the returned bytes;
          for depth > 0 on the decoders: the decoder's own counter)
     eq   1 iff the returned bytes are b[base : base+n] (1 when the skipper returns no bytes)
     pos  cumulative position after the call (ReadLen / source position / base+n), -1 if not observable
   Error code and Thrift type id are emitted for C17; C08 compares accept/reject, extent,
   returned bytes and position only. *)
From GV Require Import Lib.Bytes Lib.Res Corr.Val Gen.Consts Model.Binary Model.BufReader Spec.Cursor Model.Skip
  Model.StreamSkip Model.SkipDecoders Spec.ThriftGrammar Spec.RefParse.
Open Scope N_scope.

(* one call result, both sides *)
Inductive cres := CNot | COk (n : N) (eq : bool) (pos : Z) | CErr (code : Z) | CCrash.

Definition dec_cres (v : cval) : option cres :=
  match v with
  | L [I 9%Z] => Some CNot
  | L [I 0%Z; I n; I e; I p] => Some (COk (Z.to_N n) (negb (e =? 0)%Z) p)
  | L (I 1%Z :: I c :: _) => Some (CErr c)
  | L (I 2%Z :: _) => Some CCrash
  | _ => None
  end.
Fixpoint all_some {A} (l : list (option A)) : option (list A) :=
  match l with
  | [] => Some []
  | Some x :: r => match all_some r with Some r' => Some (x :: r') | None => None end
  | None :: _ => None
  end.
Definition dec_calls (v : cval) : option (list cres) :=
  match v with L l => all_some (map dec_cres l) | _ => None end.

Definition expand_chunks (l : list cval) : list N :=
  concat (map (fun v => match v with
                        | L [I c; I k] => repeat (Z.to_N c) (Z.to_nat k)
                        | I c => [Z.to_N c]
                        | _ => [] end) l).

(* agreement of one call: class, and for ok the extent, the bytes flag and the position *)
Definition cres_agree (m i : cres) : bool :=
  match m, i with
  | _, CNot => true
  | COk n e p, COk n' e' p' => (n =? n') && Bool.eqb e e' && ((p' =? -1)%Z || (p =? p')%Z)
  | CErr _, CErr _ => true
  | _, _ => false
  end.
Fixpoint calls_agree (m i : list cres) : bool :=
  match m, i with
  | _, [CNot] => true
  | _, [] => true          (* calls the harness did not make (gated second call) *)
  | x :: m', y :: i' => cres_agree x y && calls_agree m' i'
  | _, _ => false
  end.

Definition of_res {A} (r : res A) (f : A -> cres) : cres :=
  match r with Ok a => f a | Err e => CErr e | _ => CCrash end.

Definition same_bytes (out : bytes) (b : bytes) (base : N) : bool :=
  beqb out (take (len out) (drop base b)).

Section Run.
  Variables (t : N) (b : bytes) (chs : list N) (wd : bool) (fin : Z) (depth : nat) (t2 : Z).
  Definition dep : nat := match depth with O => depth0 | _ => depth end.
  Definition mksrc : source := {| sdata := b; sfinal := fin; swith := wd; schunks := chs; spos := 0 |}.

  (* 1. Binary.Skip / skipType with a budget *)
  Definition m_binary : list cres :=
    match depth with
    | O => [of_res (binary_skip b t) (fun n => COk n true (Z.of_N n))]
    | _ => if len b =? 0 then [CNot]
           else [of_res (skip_type_depth b t depth) (fun n => COk n true (Z.of_N n))]
    end.

  (* 2. BufferReader.Skip, twice *)
  Definition m_br : list cres :=
    let st0 := new_reader mksrc in
    let '(st1, r1) := br_skip_depth st0 t dep in
    let c1 := of_res r1 (fun _ => COk (ri st1) true (Z.of_N (ri st1))) in
    if (t2 <? 0)%Z then [c1]
    else
      let '(st2, r2) := br_skip_depth st1 (Z.to_N t2) dep in
      [c1; of_res r2 (fun _ => COk (ri st2 - ri st1) true (Z.of_N (ri st2)))].

  (* base of the second call: bytes handed out by successful calls so far *)
  Definition base_of (c : cres) : N := match c with COk n _ _ => n | _ => 0 end.

  (* 3. SkipDecoder *)
  Definition m_pk : list cres :=
    let s0 := pk_new (new_reader mksrc) in
    match depth with
    | O =>
      let '(s1, r1) := pk_next s0 t in
      let c1 := of_res r1 (fun out => COk (len out) (same_bytes out b 0) (Z.of_N (ri (pk_r s1)))) in
      if (t2 <? 0)%Z then [c1]
      else
        let '(s2, r2) := pk_next s1 (Z.to_N t2) in
        [c1; of_res r2 (fun out => COk (len out) (same_bytes out b (base_of c1)) (Z.of_N (ri (pk_r s2))))]
    | _ =>
      let '(s1, r1) := tskip pk_skipN depth (pk_fuel (pk_r s0)) s0 t in
      [of_res r1 (fun _ => COk (pk_rn s1) true (-1)%Z)]
    end.

  (* 4. BytesSkipDecoder *)
  Definition m_bs : list cres :=
    let s0 := bs_new b in
    match depth with
    | O =>
      let '(s1, r1) := bs_next s0 t in
      let c1 := of_res r1 (fun out => COk (len out) (same_bytes out b 0) (Z.of_N (len out))) in
      if (t2 <? 0)%Z then [c1]
      else
        let '(s2, r2) := bs_next s1 (Z.to_N t2) in
        [c1; of_res r2 (fun out => COk (len out) (same_bytes out b (base_of c1)) (Z.of_N (base_of c1 + len out)))]
    | _ =>
      let '(s1, r1) := tskip bs_skipN depth (S (length b)) s0 t in
      [of_res r1 (fun _ => COk (bs_n s1) true (-1)%Z)]
    end.

  (* 5. ReaderSkipDecoder *)
  Definition m_rf : list cres :=
    let s0 := rf_new mksrc 0 in
    match depth with
    | O =>
      let '(s1, r1) := rf_next s0 t in
      let c1 := of_res r1 (fun out => COk (len out) (same_bytes out b 0) (Z.of_N (spos (rf_src s1)))) in
      if (t2 <? 0)%Z then [c1]
      else
        let '(s2, r2) := rf_next s1 (Z.to_N t2) in
        [c1; of_res r2 (fun out => COk (len out) (same_bytes out b (base_of c1)) (Z.of_N (spos (rf_src s2))))]
    | _ =>
      let '(s1, r1) := tskip rf_skipN depth (S (length b)) s0 t in
      [of_res r1 (fun _ => COk (rf_n s1) true (Z.of_N (spos (rf_src s1))))]
    end.

  (* ---- the spec: the grammar with the 64-level zones ---- *)
  (* budget D: height <= D-1 must be accepted exactly; height >= D+1 must be rejected; height = D
     is the boundary zone (either, but never a wrong extent) *)
  Definition D : nat := match depth with O => 64%nat | _ => depth end.
  (* [st]: the script contains max_empty consecutive empty reads, so a bufiox-backed skipper may
     give up with io.ErrNoProgress (C04); that rejection (code 22, or 100+22 when wrapped by
     BufferReader) is then allowed whatever the bytes are *)
  Definition zone_ok (st : bool) (ty : N) (base : N) (c : cres) : bool :=
    (st && match c with CErr e => (e =? e_noprogress)%Z || (e =? 100 + e_noprogress)%Z | _ => false end) ||
    match c with
    | CNot => true
    | CCrash => false
    | COk n e p =>
      match gparse ty (drop base b) with
      | Ok (n', h) => (n =? n') && e && Nat.leb h D && ((p =? -1)%Z || (p =? Z.of_N (base + n))%Z)
      | _ => false
      end
    | CErr _ =>
      match gparse ty (drop base b) with
      | Ok (_, h) => Nat.leb D h
      | _ => true
      end
    end.
  (* retry0: a decoder over a byte slice does not move on a failed call, so a second call after a failure
     is judged like a first call at offset 0 (BytesSkipDecoder since the repair of its stale offset);
     for the stream skippers the position after a failure is unspecified: only "no crash" is asked *)
  Definition calls_ok (st retry0 : bool) (cs : list cres) : bool :=
    match cs with
    | [c1] => zone_ok st t 0 c1
    | [c1; c2] => zone_ok st t 0 c1 && match c1 with COk n _ _ => zone_ok st (Z.to_N t2) n c2
                                     | _ => if retry0 then zone_ok st (Z.to_N t2) 0 c2
                                            else negb (match c2 with CCrash => true | _ => false end) end
    | _ => false
    end.
End Run.

Definition kind_code (t : N) : Z :=
  match kind_of t with KFixed _ => 0 | KString => 1 | KStruct => 2 | KMap => 3 | KList => 4 | KBad => 5 end%Z.
Definition first_code (cs : list cres) : Z :=
  match cs with
  | COk _ _ _ :: _ => 0
  | CErr e :: _ => (if (e =? e_depth) then 1 else if (e =? e_too_short) then 2 else if (e =? e_neg_size) then 3
                    else if (e =? e_unknown_type) then 4 else 5)
  | _ => 6
  end%Z.
Definition is_okc (cs : list cres) : bool := match cs with COk _ _ _ :: _ => true | _ => false end.

(* ---- the >= 2 GiB witnesses of the (repaired, /repo 2c7f196) negative-size finding ----
   input (t head chunks with fin depth t2 2 tail): the bytes are head followed by [tail] zero bytes.
   The models are NOT evaluated on such inputs (a 2^31-element list); what they do there is
   Properties/C08.v C08_negative_string_rejected / C08_negative_count_rejected and, in general,
   C08_rejects_malformed: a negative declared size that the parse reaches within [head] is
   rejected by every skipper whatever follows.  So: model prediction = spec = "all reject". *)
Definition is_errc (i : list cres) : bool := match i with [CErr _] => true | [CNot] => true | _ => false end.

Definition check (c : cval) : verdict :=
  match c with
  | L [L [I t; bv; L _; I _; I _; I 0%Z; I _; I 2%Z; I tail]; L [o1; o2; o3; o4; o5]] =>
    let head := vbytes bv in
    match dec_calls o1, dec_calls o2, dec_calls o3, dec_calls o4 with
    | Some i1, Some i2, Some i3, Some i4 =>
      let neg := match gparse (Z.to_N t) head with Err e => (e =? E_NEGSIZE)%Z | _ => false end in
      let a := neg && is_errc i1 && is_errc i2 && is_errc i3 && is_errc i4 in
      mk a a 3000
    | _, _, _, _ => bad_case
    end
  | L [L [I t; bv; L chunks; I wd; I fin; I depth; I t2; I flags]; L [o1; o2; o3; o4; o5]] =>
    let b := vbytes bv in
    let chs := expand_chunks chunks in
    let ty := Z.to_N t in
    let dp := Z.to_nat depth in
    match dec_calls o1, dec_calls o2, dec_calls o3, dec_calls o4, dec_calls o5 with
    | Some i1, Some i2, Some i3, Some i4, Some i5 =>
      let m1 := m_binary ty b dp in
      let m2 := m_br ty b chs (vbool (I wd)) fin dp t2 in
      let m3 := m_pk ty b chs (vbool (I wd)) fin dp t2 in
      let m4 := m_bs ty b dp t2 in
      let m5 := m_rf ty b chs (vbool (I wd)) fin dp t2 in
      let a := calls_agree m1 i1 && calls_agree m2 i2 && calls_agree m3 i3 && calls_agree m4 i4
               && calls_agree m5 i5 in
      let stall := may_stall chs in
      let s := calls_ok ty b dp t2 false false i1 && calls_ok ty b dp t2 stall false i2 && calls_ok ty b dp t2 stall false i3
               && calls_ok ty b dp t2 false true i4 && calls_ok ty b dp t2 false false i5 in
      let zone := match gparse ty b with
                  | Ok (_, h) => if Nat.ltb h (D dp) then 0 else if Nat.eqb h (D dp) then 1 else 2
                  | Err e => 2 + e
                  | _ => 9 end%Z in
      let split := if Bool.eqb (is_okc m1) (is_okc m4) && Bool.eqb (is_okc m1) (is_okc m2) then 0%Z else 1%Z in
      mk a s (1 + kind_code ty + 6 * zone + 72 * first_code m1 + 504 * split + (if (depth =? 0)%Z then 0 else 1008))%Z
    | _, _, _, _, _ => bad_case
    end
  | _ => bad_case
  end.
