(* Corr/C17.v — correspondence for "decode failures carry the Thrift exception type for their cause".

   input   (hint tag args...)      entry points are selected by [tag]; further ones (Binary.Skip,
                                   the skip decoders, ...) are added as new tags
     tag 0   (hint 0 kind bytes)             thrift.Binary.Read<kind>(bytes)
     tag 1   (hint 1 bytes)                  thrift.Binary.ReadMessageBegin(bytes)
     tag 2   (hint 2 kind bytes src)         BufferReader over bufiox.DefaultReader over the scripted
                                             source src = (final with chunks) delivering bytes;
                                             kind 12 = ReadMessageBegin
     kind    0 Bool 1 Byte 2 I16 3 I32 4 I64 5 Double 6 Binary 7 String 8 FieldBegin 9 MapBegin
             10 ListBegin 11 SetBegin
     hint    77 exactly when tag = 1 and the name length of the message is negative (the one input
             class on which the code departs from the property, see known findings); validated here
   output  (0)                                   success
           (1 isproto tid hascause iseof isinj isnoprog)
             isproto   the error's dynamic type is *thrift.ProtocolException
             tid       TypeId()
             hascause  errors.Unwrap(err) != nil
             iseof / isinj / isnoprog   errors.Is(err, io.EOF / the injected error / io.ErrNoProgress) *)
From GV Require Import Lib.Bytes Lib.Res Corr.Val Gen.Consts Model.Binary Model.BufReader Model.ErrTypes Spec.ErrKinds.
Open Scope Z_scope.

(* type ids of the predeclared errors, evaluated from the regenerated Gen/Consts.v when this file
   is compiled (keeps Coq strings out of the extracted code) *)
Definition etype_tab : list (Z * Z) :=
  Eval vm_compute in map (fun e => (e, Binary.etype e)) [1; 2; 3; 4; 5; 6; 7; 8; 9; 10; 11; 12; 13; 14; 15; 16; 17; 18].
Definition etype (e : Z) : Z :=
  match find (fun kv => fst kv =? e) etype_tab with Some kv => snd kv | None => -1 end.

Definition kind_of_z (k : Z) : option kind :=
  if k =? 0 then Some KBool else if k =? 1 then Some KByte else if k =? 2 then Some KI16
  else if k =? 3 then Some KI32 else if k =? 4 then Some KI64 else if k =? 5 then Some KDouble
  else if k =? 6 then Some KBinary else if k =? 7 then Some KString else if k =? 8 then Some KFieldBegin
  else if k =? 9 then Some KMapBegin else if k =? 10 then Some KListBegin else if k =? 11 then Some KSetBegin
  else None.

Definition out_ok : cval := L [I 0].
Definition out_proto (t : Z) : cval := L [I 1; I 1; I t; I 0; I 0; I 0; I 0].
Definition b2z (b : bool) : Z := if b then 1 else 0.
Definition out_wrap (x : Z) : cval :=
  L [I 1; I 1; I thrift_UNKNOWN_PROTOCOL_EXCEPTION; I 1; I (b2z (x =? e_eof)); I (b2z (x =? e_injected)); I (b2z (x =? e_noprogress))].

Fixpoint cval_eqb (a b : cval) : bool :=
  match a, b with
  | I x, I y => x =? y
  | B x, B y => beqb x y
  | L x, L y =>
      (fix go (x y : list cval) : bool :=
         match x, y with
         | [], [] => true
         | a' :: x', b' :: y' => cval_eqb a' b' && go x' y'
         | _, _ => false
         end) x y
  | _, _ => false
  end.

(* in-memory entry points: the model's outcome and the reference cause *)
Definition mem_out {A} (r : res A) : option cval :=
  match r with
  | Ok _ => Some out_ok
  | Err c => Some (out_proto (etype c))
  | _ => None
  end.
Definition mem_spec (rc : option cause) (out : cval) : bool :=
  match rc with
  | None => cval_eqb out out_ok
  | Some cz => cval_eqb out (out_proto (cause_type cz))
  end.

Definition cause_code (rc : option cause) : Z :=
  match rc with
  | None => 0 | Some CTrunc => 1 | Some CNeg => 2 | Some CBadVersion => 3 | Some CDepth => 4 | Some CUnknownType => 5
  end.

Definition check_mem {A} (hint : Z) (want_hint : Z) (r : res A) (rc : option cause) (out : cval) (tg : Z) : verdict :=
  if negb (hint =? want_hint) then bad_case
  else
    match mem_out r with
    | Some m => mk (cval_eqb m out) (mem_spec rc out) (tg + cause_code rc)
    | None => mk false (mem_spec rc out) (tg + cause_code rc)
    end.

(* stream entry points *)
Definition stream_out (r : sout unit) : option cval :=
  match r with
  | SOk _ => Some out_ok
  | SErr (SProto t) => Some (out_proto t)
  | SErr (SWrap x) => Some (out_wrap x)
  | SCrash => None
  end.

Definition has_zero (chunks : list cval) : bool := existsb (fun c => vint c =? 0) chunks.

(* the failure is the source's: wrapped, and matchable with errors.Is *)
Definition src_fail_ok (final : Z) (stall : bool) (out : cval) : bool :=
  match out with
  | L [I 1; I isp; I _; I hc; I iseof; I isinj; I isnp] =>
    (isp =? 1) && (hc =? 1) &&
    (((iseof =? 1) && (final =? e_eof)) || ((isinj =? 1) && (final =? e_injected)) || ((isnp =? 1) && stall))
  | _ => false
  end.

Definition stream_spec (rc : option cause) (final : Z) (stall : bool) (out : cval) : bool :=
  match rc with
  | None => cval_eqb out out_ok || (stall && src_fail_ok final stall out)
  | Some CTrunc => src_fail_ok final stall out
  | Some cz => cval_eqb out (out_proto (cause_type cz)) || (stall && src_fail_ok final stall out)
  end.

Definition check (c : cval) : verdict :=
  match c with
  | L [L [I hint; I 0; I k; bs]; out] =>
    match kind_of_z k with
    | Some kd => let buf := vbytes bs in check_mem hint 0 (r_item kd buf) (ref_cause kd buf) out (100 + 8 * k)
    | None => bad_case
    end
  | L [L [I hint; I 1; bs]; out] =>
    let buf := vbytes bs in
    let rc := ref_msg buf in
    check_mem hint (if cause_eqb (match rc with Some z => z | None => CTrunc end) CNeg then 77 else 0)
              (r_message_begin buf) rc out 300
  | L [L [I hint; I 2; I k; bs; L [I final; I wth; L chunks]]; out] =>
    if negb (hint =? 0) then bad_case else
    let data := vbytes bs in
    let st0 := new_reader {| sdata := data; sfinal := final; swith := negb (wth =? 0);
                             schunks := map vN chunks; spos := 0%N |} in
    let stall := has_zero chunks in
    if k =? 12 then
      let '(_, r) := s_message_begin st0 in
      let rc := ref_msg data in
      match stream_out r with
      | Some m => mk (cval_eqb m out) (stream_spec rc final stall out) (600 + cause_code rc)
      | None => mk false (stream_spec rc final stall out) (600 + cause_code rc)
      end
    else
      match kind_of_z k with
      | Some kd =>
        let '(_, r) := s_item kd st0 in
        let rc := ref_cause kd data in
        match stream_out r with
        | Some m => mk (cval_eqb m out) (stream_spec rc final stall out) (400 + 8 * k + cause_code rc)
        | None => mk false (stream_spec rc final stall out) (400 + 8 * k + cause_code rc)
        end
      | None => bad_case
      end
  | _ => bad_case
  end.
