(* Corr/C17.v — correspondence for "decode failures carry the Thrift exception type for their cause".

   input   (hint tag args...)      entry points are selected by [tag]; further ones (Binary.Skip,
                                   the skip decoders, ...) are added as new tags
     tag 0   (hint 0 kind bytes)             thrift.Binary.Read<kind>(bytes)
     tag 1   (hint 1 bytes)                  thrift.Binary.ReadMessageBegin(bytes)
     tag 2   (hint 2 kind bytes src)         BufferReader over bufiox.DefaultReader over the scripted
                                             source src = (final with chunks) delivering bytes;
                                             kind 12 = ReadMessageBegin
     tag 3   (hint 3 t bytes)                thrift.Binary.Skip(bytes, TType(int8(t)))
     tag 4   (hint 4 t bytes)                BytesSkipDecoder.Next
     tag 5   (hint 5 t bytes src)            BufferReader.Skip over bufiox.DefaultReader over the scripted source
     tag 6   (hint 6 t bytes src)            SkipDecoder.Next over bufiox.DefaultReader over the scripted source
     tag 7   (hint 7 t bytes src)            ReaderSkipDecoder.Next over the scripted source
             spec of tags 3..7: Spec/SkipCauses.v [skip_causes] (the causes applicable at the failure
             point of the reference parse with budget 64; instance inl_all / inl_none / inl_br /
             inl_none / inl_none).  The skipper's own failures must be *ProtocolException values
             whose type id is the one an allowed cause demands; a failure caused by the source
             (possible only where truncation is an allowed cause, or when the script stalls) must be
             the source's error: wrapped in a ProtocolException with Unwrap by BufferReader (tag 5),
             handed through by the decoders (tags 6, 7; BytesSkipDecoder's own end-of-input error
             is io.EOF), in all cases matchable with errors.Is.
     kind    0 Bool 1 Byte 2 I16 3 I32 4 I64 5 Double 6 Binary 7 String 8 FieldBegin 9 MapBegin
             10 ListBegin 11 SetBegin
     hint    77 exactly when tag = 1 and the name length of the message is negative (the one input
             class on which the code departs from the property, see known findings); validated here
   output  (0)                                   success
           (1 isproto tid hascause iseof isinj isnoprog)
             isproto   the error's dynamic type is *thrift.ProtocolException
             tid       TypeId()
             hascause  errors.Unwrap(err) != nil
             iseof / isinj / isnoprog   errors.Is(err, io.EOF / the injected error / io.ErrNoProgress)
           tags 3..7: hascause is reported as 0 for an error that is not a *ProtocolException *)
From GV Require Import Lib.Bytes Lib.Res Corr.Val Gen.Consts Model.Binary Model.BufReader Model.ErrTypes Spec.ErrKinds
  Model.Skip Model.StreamSkip Model.SkipDecoders Spec.RefParse Spec.SkipCauses.
Open Scope Z_scope.

(* type ids of the predeclared errors, evaluated from the regenerated Gen/Consts.v when this file
   is compiled (keeps Coq strings out of the extracted code) *)
Definition etype_tab : list (Z * Z) :=
  Eval vm_compute in map (fun e => (e, Binary.etype e)) [1; 2; 3; 4; 5; 6; 7; 8; 9; 10; 11; 12; 13; 14; 15; 16; 17; 18].
Definition etype (e : Z) : Z :=
  match find (fun kv => fst kv =? e) etype_tab with Some kv => snd kv | None => -1 end.

Definition kind_of_z (k : Z) : option kind :=
  if k =? 0 then Some KBool else if k =? 1 then Some KByte else if k =? 2 then Some KI16
  else if k =? 3 then Some KI32 else if k =? 4 then Some KI64 else if k =? 5 then Some KDouble
  else if k =? 6 then Some KBinary else if k =? 7 then Some KString else if k =? 8 then Some KFieldBegin
  else if k =? 9 then Some KMapBegin else if k =? 10 then Some KListBegin else if k =? 11 then Some KSetBegin
  else None.

Definition out_ok : cval := L [I 0].
Definition out_proto (t : Z) : cval := L [I 1; I 1; I t; I 0; I 0; I 0; I 0].
Definition b2z (b : bool) : Z := if b then 1 else 0.
Definition out_wrap (x : Z) : cval :=
  L [I 1; I 1; I thrift_UNKNOWN_PROTOCOL_EXCEPTION; I 1; I (b2z (x =? e_eof)); I (b2z (x =? e_injected)); I (b2z (x =? e_noprogress))].

Fixpoint cval_eqb (a b : cval) : bool :=
  match a, b with
  | I x, I y => x =? y
  | B x, B y => beqb x y
  | L x, L y =>
      (fix go (x y : list cval) : bool :=
         match x, y with
         | [], [] => true
         | a' :: x', b' :: y' => cval_eqb a' b' && go x' y'
         | _, _ => false
         end) x y
  | _, _ => false
  end.

(* in-memory entry points: the model's outcome and the reference cause *)
Definition mem_out {A} (r : res A) : option cval :=
  match r with
  | Ok _ => Some out_ok
  | Err c => Some (out_proto (etype c))
  | _ => None
  end.
Definition mem_spec (rc : option cause) (out : cval) : bool :=
  match rc with
  | None => cval_eqb out out_ok
  | Some cz => cval_eqb out (out_proto (cause_type cz))
  end.

Definition cause_code (rc : option cause) : Z :=
  match rc with
  | None => 0 | Some CTrunc => 1 | Some CNeg => 2 | Some CBadVersion => 3 | Some CDepth => 4 | Some CUnknownType => 5
  end.

Definition check_mem {A} (hint : Z) (want_hint : Z) (r : res A) (rc : option cause) (out : cval) (tg : Z) : verdict :=
  if negb (hint =? want_hint) then bad_case
  else
    match mem_out r with
    | Some m => mk (cval_eqb m out) (mem_spec rc out) (tg + cause_code rc)
    | None => mk false (mem_spec rc out) (tg + cause_code rc)
    end.

(* stream entry points *)
Definition stream_out (r : sout unit) : option cval :=
  match r with
  | SOk _ => Some out_ok
  | SErr (SProto t) => Some (out_proto t)
  | SErr (SWrap x) => Some (out_wrap x)
  | SCrash => None
  end.

Definition has_zero (chunks : list cval) : bool := existsb (fun c => vint c =? 0) chunks.

(* the failure is the source's: wrapped, and matchable with errors.Is *)
Definition src_fail_ok (final : Z) (stall : bool) (out : cval) : bool :=
  match out with
  | L [I 1; I isp; I _; I hc; I iseof; I isinj; I isnp] =>
    (isp =? 1) && (hc =? 1) &&
    (((iseof =? 1) && (final =? e_eof)) || ((isinj =? 1) && (final =? e_injected)) || ((isnp =? 1) && stall))
  | _ => false
  end.

Definition stream_spec (rc : option cause) (final : Z) (stall : bool) (out : cval) : bool :=
  match rc with
  | None => cval_eqb out out_ok || (stall && src_fail_ok final stall out)
  | Some CTrunc => src_fail_ok final stall out
  | Some cz => cval_eqb out (out_proto (cause_type cz)) || (stall && src_fail_ok final stall out)
  end.


(* ---------- tags 3..7: the skippers ---------- *)
(* a source error handed through unwrapped (SkipDecoder, ReaderSkipDecoder; io.EOF of BytesSkipDecoder) *)
Definition out_raw (x : Z) : cval :=
  L [I 1; I 0; I (-1); I 0; I (b2z (x =? e_eof)); I (b2z (x =? e_injected)); I (b2z (x =? e_noprogress))].

(* the model's error code -> observables.  wrapped = BufferReader (100 + e = NewProtocolExceptionWithErr) *)
Definition skip_out {A} (wrapped : bool) (r : res A) : option cval :=
  match r with
  | Ok _ => Some out_ok
  | Err c =>
    if (c =? e_depth) || (c =? e_too_short) || (c =? e_neg_size) || (c =? e_unknown_type) then Some (out_proto (etype c))
    else if wrapped then (if (100 <=? c) && (c <? 199) then Some (out_wrap (c - 100)) else None)
    else if (20 <=? c) && (c <? 99) then Some (out_raw c) else None
  | _ => None
  end.

(* an own failure: a *ProtocolException without cause whose type id an allowed cause demands *)
Definition own_fail_ok (cs : list cause) (out : cval) : bool :=
  match out with
  | L [I 1; I 1; I t; I 0; I 0; I 0; I 0] => tid_allowed cs t
  | _ => false
  end.
(* the failure is the source's and matches it under errors.Is (any dynamic type) *)
Definition src_match_ok (final : Z) (stall : bool) (out : cval) : bool :=
  match out with
  | L [I 1; I _; I _; I _; I iseof; I isinj; I isnp] =>
    ((iseof =? 1) && (final =? e_eof)) || ((isinj =? 1) && (final =? e_injected)) || ((isnp =? 1) && stall)
  | _ => false
  end.
Definition has_trunc (cs : list cause) : bool := existsb (cause_eqb CTrunc) cs.

(* in memory (Binary.Skip): every failure is an own failure *)
Definition skip_mem_spec (cs : list cause) (out : cval) : bool :=
  match cs with
  | [] => cval_eqb out out_ok
  | _ => own_fail_ok cs out
  end.
(* over a source: srcfail says how a source failure must look.  strict: running out of input is
   the source's failure and must be reported as such (matchable with errors.Is), so an own
   protocol error may only name a cause other than truncation; not strict (BytesSkipDecoder, in
   memory): a protocol exception INVALID_DATA for truncation would be as good as its io.EOF *)
Definition not_trunc (c : cause) : bool := negb (cause_eqb CTrunc c).
Definition skip_src_spec (strict : bool) (srcfail : cval -> bool) (stall : bool) (cs : list cause) (out : cval) : bool :=
  match cs with
  | [] => cval_eqb out out_ok || (stall && srcfail out)
  | _ => own_fail_ok (if strict then filter not_trunc cs else cs) out || ((has_trunc cs || stall) && srcfail out)
  end.

Definition err_class {A} (r : res A) : Z :=
  match r with
  | Ok _ => 0
  | Err c => if c =? e_depth then 1 else if c =? e_too_short then 2 else if c =? e_neg_size then 3
             else if c =? e_unknown_type then 4 else 5
  | _ => 6
  end.
Definition mask_of (i : inl) (t : N) (b : bytes) : Z :=
  match rc i ref_depth t b with Err m => m | _ => 0 end.

Definition check_skip {A} (wrapped : bool) (r : res A) (spec : cval -> bool) (out : cval) (tg : Z) : verdict :=
  match skip_out wrapped r with
  | Some m => mk (cval_eqb m out) (spec out) (tg + 16 * err_class r)
  | None => mk false (spec out) (tg + 16 * err_class r)
  end.

Definition mk_src (data : bytes) (final wth : Z) (chunks : list cval) : source :=
  {| sdata := data; sfinal := final; swith := negb (wth =? 0); schunks := map vN chunks; spos := 0%N |}.

Definition check (c : cval) : verdict :=
  match c with
  | L [L [I 0; I 3; I t; bs]; out] =>
    let b := vbytes bs in let ty := Z.to_N t in
    check_skip false (binary_skip b ty) (skip_mem_spec (skip_causes inl_all ty b)) out (1000 + mask_of inl_all ty b)
  | L [L [I 0; I 4; I t; bs]; out] =>
    let b := vbytes bs in let ty := Z.to_N t in
    check_skip false (snd (bs_next (bs_new b) ty))
      (skip_src_spec false (src_match_ok e_eof false) false (skip_causes inl_none ty b)) out (1100 + mask_of inl_none ty b)
  | L [L [I 0; I 5; I t; bs; L [I final; I wth; L chunks]]; out] =>
    let b := vbytes bs in let ty := Z.to_N t in
    let stall := has_zero chunks in
    check_skip true (snd (br_skip (new_reader (mk_src b final wth chunks)) ty))
      (skip_src_spec true (src_fail_ok final stall) stall (skip_causes inl_br ty b)) out (1200 + mask_of inl_br ty b)
  | L [L [I 0; I 6; I t; bs; L [I final; I wth; L chunks]]; out] =>
    let b := vbytes bs in let ty := Z.to_N t in
    let stall := has_zero chunks in
    check_skip false (snd (pk_next (pk_new (new_reader (mk_src b final wth chunks))) ty))
      (skip_src_spec true (src_match_ok final stall) stall (skip_causes inl_none ty b)) out (1300 + mask_of inl_none ty b)
  | L [L [I 0; I 7; I t; bs; L [I final; I wth; L chunks]]; out] =>
    let b := vbytes bs in let ty := Z.to_N t in
    let stall := has_zero chunks in
    check_skip false (snd (rf_next (rf_new (mk_src b final wth chunks) 0) ty))
      (skip_src_spec true (src_match_ok final stall) stall (skip_causes inl_none ty b)) out (1400 + mask_of inl_none ty b)
  | L [L [I hint; I 0; I k; bs]; out] =>
    match kind_of_z k with
    | Some kd => let buf := vbytes bs in check_mem hint 0 (r_item kd buf) (ref_cause kd buf) out (100 + 8 * k)
    | None => bad_case
    end
  | L [L [I hint; I 1; bs]; out] =>
    let buf := vbytes bs in
    let rc := ref_msg buf in
    check_mem hint (if cause_eqb (match rc with Some z => z | None => CTrunc end) CNeg then 77 else 0)
              (r_message_begin buf) rc out 300
  | L [L [I hint; I 2; I k; bs; L [I final; I wth; L chunks]]; out] =>
    if negb (hint =? 0) then bad_case else
    let data := vbytes bs in
    let st0 := new_reader {| sdata := data; sfinal := final; swith := negb (wth =? 0);
                             schunks := map vN chunks; spos := 0%N |} in
    let stall := has_zero chunks in
    if k =? 12 then
      let '(_, r) := s_message_begin st0 in
      let rc := ref_msg data in
      match stream_out r with
      | Some m => mk (cval_eqb m out) (stream_spec rc final stall out) (600 + cause_code rc)
      | None => mk false (stream_spec rc final stall out) (600 + cause_code rc)
      end
    else
      match kind_of_z k with
      | Some kd =>
        let '(_, r) := s_item kd st0 in
        let rc := ref_cause kd data in
        match stream_out r with
        | Some m => mk (cval_eqb m out) (stream_spec rc final stall out) (400 + 8 * k + cause_code rc)
        | None => mk false (stream_spec rc final stall out) (400 + 8 * k + cause_code rc)
        end
      | None => bad_case
      end
  | _ => bad_case
  end.
