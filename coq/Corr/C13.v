(* Corr/C13.v — correspondence for protocol/thrift/unknownfields.

   values on the line
     tree   (id ty kt vt val)      one UnknownField; val =
              (0 k)   nil interface / a dynamic type the code never asserts (k picks which one in Go)
              (1 b) bool  (2 z) int8  (3 z) int16  (4 z) int32  (5 z) int64  (6 bits) float64
              (7 x..) string       (8 tree ...) []UnknownField (nil and empty identified)
     tval   (2 b) (3 z) (6 z) (8 z) (10 z) (4 bits) (11 x..) (12 (id tval) ...)
            (13 kt vt (k v) ...) (14 et tval ...) (15 et tval ...)           typed values, by type code

   input
     (0 ((id tval) ...) x<bytes>)   well-formed typed field sequence and its encoding by the harness's own encoder
     (3 ((id tval) ...) x<bytes>)   same, big: the model does not replay the write (too slow); spec unchanged
     (1 x<bytes>)                   arbitrary / malformed bytes
     (2 (tree ...) bufsize)         tree direction: UnknownFieldsLength, WriteUnknownFields into a 0xAA-filled
                                    buffer of bufsize bytes, ConvertUnknownFields of what was written
   outcome  (0 ...) ok   (1) error   (2) panic   (3) not run
   output for 0/1/3   (conv getsame len write reconvsame)
              conv   (0 tree ...)         ConvertUnknownFields(bytes)
              getsame 1 iff GetUnknownFields(&struct{_unknownFields []byte}) gave the same outcome and tree
              len    (0 n)                UnknownFieldsLength(tree)
              write  (0 off x<buf>)       WriteUnknownFields(buf, tree), buf = n+2 bytes of 0xAA
              reconvsame 1 iff ConvertUnknownFields(buf[:off]) gave the same tree again
   output for 2       (len write reconv)  reconv = (0 tree ...) | (1) | (2) | (3)                         *)
From GV Require Import Lib.Bytes Lib.Res Corr.Val Gen.Consts Model.Binary Model.Unknown Spec.UnknownSpec.
Open Scope Z_scope.

Fixpoint cveq (a b : cval) : bool :=
  match a, b with
  | I x, I y => x =? y
  | B x, B y => beqb x y
  | L x, L y =>
      (fix go (x y : list cval) : bool :=
         match x, y with
         | [], [] => true
         | a' :: x', b' :: y' => cveq a' b' && go x' y'
         | _, _ => false
         end) x y
  | _, _ => false
  end.

(* ---------- trees <-> cval ---------- *)
Fixpoint uf_of (c : cval) : ufield :=
  match c with
  | L [I id; I ty; I kt; I vt; v] =>
    UF id ty kt vt
       match v with
       | L [I 1; I b] => VBool (negb (b =? 0))
       | L [I 2; I z] => VI8 z
       | L [I 3; I z] => VI16 z
       | L [I 4; I z] => VI32 z
       | L [I 5; I z] => VI64 z
       | L [I 6; I z] => VDouble (Z.to_N z)
       | L [I 7; B s] => VStr s
       | L (I 8 :: kids) => VFields (map uf_of kids)
       | _ => VNil
       end
  | _ => uf_zero
  end.

Fixpoint cv_of (f : ufield) : cval :=
  match f with
  | UF id ty kt vt v =>
    L [I id; I ty; I kt; I vt;
       match v with
       | VNil => L [I 0; I 0]
       | VBool b => L [I 1; I (if b then 1 else 0)]
       | VI8 z => L [I 2; I z]
       | VI16 z => L [I 3; I z]
       | VI32 z => L [I 4; I z]
       | VI64 z => L [I 5; I z]
       | VDouble b => L [I 6; I (Z.of_N b)]
       | VStr s => L [I 7; B s]
       | VFields l => L (I 8 :: map cv_of l)
       end]
  end.

(* ---------- typed values <- cval ---------- *)
Fixpoint tv_of (c : cval) : tval :=
  match c with
  | L [I 2; I b] => TBool (negb (b =? 0))
  | L [I 3; I z] => TByte z
  | L [I 6; I z] => TI16 z
  | L [I 8; I z] => TI32 z
  | L [I 10; I z] => TI64 z
  | L [I 4; I z] => TDouble (Z.to_N z)
  | L [I 11; B s] => TString s
  | L (I 12 :: fs) =>
    TStruct (map (fun p => match p with L [I id; v] => (id, tv_of v) | _ => (0, TBool false) end) fs)
  | L (I 13 :: I kt :: I vt :: kvs) =>
    TMap kt vt (map (fun p => match p with L [k; v] => (tv_of k, tv_of v) | _ => (TBool false, TBool false) end) kvs)
  | L (I 14 :: I et :: l) => TSet et (map tv_of l)
  | L (I 15 :: I et :: l) => TList et (map tv_of l)
  | _ => TBool false
  end.
Definition tfields_of (c : cval) : list (Z * tval) :=
  map (fun p => match p with L [I id; v] => (id, tv_of v) | _ => (0, TBool false) end) (vlist c).

(* ---------- outcomes ---------- *)
Definition o_err : cval := L [I 1].
Definition o_panic : cval := L [I 2].
Definition o_norun : cval := L [I 3].
Definition out_conv (r : res (list ufield)) : cval :=
  match r with Ok t => L (I 0 :: map cv_of t) | Err _ => o_err | _ => o_panic end.
Definition out_len (r : res N) : cval :=
  match r with Ok n => L [I 0; I (Z.of_N n)] | Err _ => o_err | _ => o_panic end.
Definition out_write (r : res (bytes * N)) : cval :=
  match r with Ok (b, n) => L [I 0; I (Z.of_N n); B b] | Err _ => o_err | _ => o_panic end.
Definition cls (c : cval) : Z := match c with L (I k :: _) => k | _ => 9 end.

Definition fill (n : N) : bytes := repeat 170%N (N.to_nat n).

Fixpoint depth_fuel (fuel : nat) (f : ufield) : Z :=
  match fuel with
  | O => 0
  | S k => match f with
           | UF _ _ _ _ (VFields l) => 1 + fold_left (fun a x => Z.max a (depth_fuel k x)) l 0
           | _ => 0
           end
  end.
Definition depth_of (t : list ufield) : Z := fold_left (fun a x => Z.max a (depth_fuel 12 x)) t 0.

(* bytes direction; [big]: the model skips write / reconvert *)
Definition check_bytes (kind : Z) (fields : list (Z * tval)) (b : bytes) (out : cval) : verdict :=
  match out with
  | L [oconv; I getf; olen; owrite; I reconvf] =>
    let big := kind =? 3 in
    let mconv := convert b in
    let a_conv := cveq (out_conv mconv) oconv in
    let a_rest :=
      match mconv with
      | Ok t =>
        let mlen := fields_len t in
        cveq (out_len mlen) olen &&
        (if big then true
         else match mlen with
              | Ok n =>
                let mw := write_fields (fill (n + 2)) t in
                cveq (out_write mw) owrite &&
                match mw with
                | Ok (b', off) =>
                  (reconvf =? (if cveq (out_conv (convert (take off b'))) (out_conv mconv) then 1 else 0))
                | _ => reconvf =? 0
                end
              | _ => cveq owrite o_norun && (reconvf =? 0)
              end)
      | _ => cveq olen o_norun && cveq owrite o_norun && (reconvf =? 0)
      end in
    let nb := Z.of_N (len b) in
    (* what the property demands of the observation, computed without the model *)
    let rt_ok :=
      cveq olen (L [I 0; I nb]) &&
      match owrite with
      | L [I 0; I off; B w] => (off =? nb) && (Z.of_N (len w) =? nb + 2) && beqb (drop (len b) w) [170%N; 170%N]
      | _ => false
      end && (reconvf =? 1) in
    let canon_ok := match oconv with L (I 0 :: ts) => canon_fields (map uf_of ts) | _ => true end in
    let s :=
      if kind =? 1 then
        negb (cls oconv =? 2) && (getf =? 1) && canon_ok && (if cls oconv =? 0 then rt_ok else true)
      else
        wf_fields fields && negb (len b =? 0)%N && beqb (enc_fields fields) b &&
        cveq oconv (L (I 0 :: map cv_of (tree_of_fields fields))) && (getf =? 1) && canon_ok && rt_ok &&
        match owrite with L [I 0; _; B w] => beqb (take (len b) w) b | _ => false end in
    let tg := match mconv with
              | Ok t => 100 + Z.min 20 (depth_of t)
              | Err e => e
              | _ => 98
              end in
    mk (a_conv && (getf =? 1) && a_rest) s (1000 * (kind + 1) + tg)
  | _ => bad_case
  end.

Definition check_tree (ts : list ufield) (tsc : list cval) (bufsize : Z) (out : cval) : verdict :=
  match out with
  | L [olen; owrite; oreconv] =>
    let mlen := fields_len ts in
    let mw := write_fields (fill (Z.to_N bufsize)) ts in
    let mre := match mw with Ok (b', off) => out_conv (convert (take off b')) | _ => o_norun end in
    let a := cveq (out_len mlen) olen && cveq (out_write mw) owrite && cveq mre oreconv in
    let e := enc_tree_fields ts in
    let n := len e in
    let s :=
      if canon_fields ts && negb (n =? 0)%N && (n <=? Z.to_N bufsize)%N then
        cveq olen (L [I 0; I (Z.of_N n)]) &&
        cveq owrite (L [I 0; I (Z.of_N n); B (e ++ fill (Z.to_N bufsize - n))]) &&
        cveq oreconv (L (I 0 :: tsc))
      else true in
    mk a s (3000 + 100 * cls (out_len mlen) + 10 * cls (out_write mw) + cls mre
            + (if canon_fields ts then 500 else 0))
  | _ => bad_case
  end.

Definition check (c : cval) : verdict :=
  match c with
  | L [L [I 0; fs; B b]; out] => check_bytes 0 (tfields_of fs) b out
  | L [L [I 3; fs; B b]; out] => check_bytes 3 (tfields_of fs) b out
  | L [L [I 1; B b]; out] => check_bytes 1 [] b out
  | L [L [I 2; L tsc; I bufsize]; out] =>
    if (bufsize <? 0) || (1048576 <? bufsize) then bad_case
    else check_tree (map uf_of tsc) tsc bufsize out
  | _ => bad_case
  end.
