(* Corr/C07.v — correspondence for the read-only string maps.

   A case is a history on ONE instance, or a sweep of calcHashtableSlots.

   history input   (variant (step ...))
     variant 0  StrMap[int]    from New()            values  I z
             1  StrMap[string] from New()            values  B bytes
             2  Str2Str        from NewStr2Str()     values  B bytes
             3  Str2Str        zero value Str2Str{}  values  B bytes
             4  StrMap[struct] from New()            values  I z (the harness builds the struct from z)
     step = (kind (key ...) (value ...) (probe ...))
       kind 0 LoadFromSlice(keys, values)   kind 1 LoadFromMap(map of the pairs)   kind 2 no load
   history output  (stepout ...),  stepout = (err len (probe-result ...) items nslots maxchain)
       err           0 nil, 1 error returned, 2 panic
       len           Len(), -2 if it panicked
       probe-result  (found value): found 0 absent (value reported as 0), 1 found, 2 panic
       items         ((key value) ...) sorted by key, from Item(0..Len()-1); -2 if a call panicked;
                     () for Str2Str (no Item method)
       nslots        len(hashtable) through the verif hook (-1: inner map is nil)
       maxchain      longest run of items in one slot, through the hook (not compared: it depends
                     on the unobservable random seed)

   sweep input     (9 lo count)         output (calcHashtableSlots(lo) ... ), -1 where it panics

   big input       (8 variant n seed shape n2)   output (nmismatch len1 slots1 len2 slots2 maxchain)
     key sets of 10^3..10^5 keys are compared with a Go map inside the harness (the list-encoded
     model is quadratic); the model side checks the verdict, Len and the slot counts against [slots].

   The implementation hashes with a random seed; the model runs with a fixed arbitrary hash
   (by C07_get_spec the observables do not depend on it) and the stable insertion sort, and for
   small histories again with deliberately bad hashes -- all keys of one length in one slot with
   the within-slot order reversed (an "unstable" sort result) and LoadFromMap visiting the pairs
   in reverse order, and one constant hash (a single chain holding every item).  [specok] is computed from the plain association list of the last
   successful load, never from the model. *)
From GV Require Import Lib.Bytes Lib.Res Corr.Val Model.StrMap Model.StrStore Spec.StrMap.
Open Scope Z_scope.

Definition poly_hash (s : bytes) : N :=
  fold_left (fun h b => N.land (h * 33 + b + 7) 1099511627775)%N s 5381%N.
(* all keys of one length collide; the high half exercises the uint32 truncation *)
Definition len_hash (s : bytes) : N := (len s * 4294967296 + len s)%N.

(* every key in one slot: Get degenerates to a scan of all items; 2^32+... exercises uint32() *)
Definition const_hash (s : bytes) : N := 4294967296 * 77 + 5.
(* a sorted permutation whose equal-slot runs are in the reverse order of [isort]'s *)
Definition rsort {V} (l : list (item V)) : list (item V) := isort (rev l).

Definition val_eqb (a b : cval) : bool :=
  match a, b with
  | I x, I y => x =? y
  | B x, B y => beqb x y
  | _, _ => false
  end.

(* observation of one step *)
Record sobs := mksobs {
  o_err : Z; o_len : Z; o_probes : list (Z * cval);
  o_items : option (list (bytes * cval)); o_slots : Z }.

Definition probe_eqb (a b : Z * cval) : bool := (fst a =? fst b) && val_eqb (snd a) (snd b).
Definition kv_eqb (a b : bytes * cval) : bool := beqb (fst a) (fst b) && val_eqb (snd a) (snd b).
Definition sobs_eqb (with_slots : bool) (a b : sobs) : bool :=
  (o_err a =? o_err b) && (o_len a =? o_len b)
  && list_eqb probe_eqb (o_probes a) (o_probes b)
  && opt_eqb (list_eqb kv_eqb) (o_items a) (o_items b)
  && (if with_slots then o_slots a =? o_slots b else true).

(* ---- decoding ---- *)
Definition vkey (v : cval) : bytes := match v with B b => b | _ => [] end.

Record step := mkstep { s_kind : Z; s_keys : list bytes; s_vals : list cval; s_probes : list bytes }.
Definition dec_step (v : cval) : option step :=
  match v with
  | L [I k; L kk; L vv; L pp] => Some (mkstep k (map vkey kk) vv (map vkey pp))
  | _ => None
  end.
Fixpoint dec_all {A} (f : cval -> option A) (l : list cval) : option (list A) :=
  match l with
  | [] => Some []
  | x :: r => match f x, dec_all f r with Some a, Some b => Some (a :: b) | _, _ => None end
  end.

Definition dec_probe (v : cval) : option (Z * cval) :=
  match v with L [I f; x] => Some (f, x) | _ => None end.
Definition dec_kv (v : cval) : option (bytes * cval) :=
  match v with L [B k; x] => Some (k, x) | _ => None end.
Definition dec_sobs (v : cval) : option sobs :=
  match v with
  | L [I e; I n; L pp; its; I ns; I _] =>
    match dec_all dec_probe pp with
    | Some pr =>
      match its with
      | L l => match dec_all dec_kv l with
               | Some kvs => Some (mksobs e n pr (Some kvs) ns)
               | None => None end
      | _ => Some (mksobs e n pr None ns)
      end
    | None => None
    end
  | _ => None
  end.

(* ---- model side ---- *)
Definition rcode {A} (r : res A) : Z :=
  match r with Ok _ => 0 | Err _ => 1 | Panic _ => 2 | OOB => 3 end.

Inductive inst :=
| IMap (m : strmap cval)
| IS2S (s : str2str).

Definition obs_get {A} (inj : A -> cval) (r : res (option A)) : Z * cval :=
  match r with
  | Ok None => (0, I 0)
  | Ok (Some v) => (1, inj v)
  | Err _ => (4, I 0)
  | Panic _ => (2, I 0)
  | OOB => (3, I 0)
  end.

Definition model_step (hash : bytes -> N) (rv : bool) (st : inst) (s : step) : inst * sobs :=
  match st with
  | IMap m =>
    let '(m', r) :=
      if s_kind s =? 2 then (m, Ok tt)
      else if (s_kind s =? 1) && rv
      then load_map hash rsort m (rev (combine (s_keys s) (s_vals s)))    (* some other visiting order *)
      else load hash (if rv then rsort else isort) m (s_keys s) (s_vals s) in
    (IMap m',
     mksobs (rcode r) (Z.of_N (map_len m'))
            (map (fun p => obs_get (fun v => v) (get hash m' p)) (s_probes s))
            (match enumerate m' with Ok l => Some (key_sort l) | _ => None end)
            (Z.of_N (len (table m'))))
  | IS2S t =>
    let '(t', r) :=
      if s_kind s =? 2 then (t, Ok tt)
      else if (s_kind s =? 1) && rv
      then s2s_load_map hash rsort t (rev (combine (s_keys s) (map vkey (s_vals s))))
      else s2s_load hash (if rv then rsort else isort) t (s_keys s) (map vkey (s_vals s)) in
    (IS2S t',
     mksobs (rcode r) (match s2s_len t' with Ok n => Z.of_N n | _ => -2 end)
            (map (fun p => obs_get B (s2s_get hash t' p)) (s_probes s))
            (Some [])
            (match s2s_map t' with Some m => Z.of_N (len (table m)) | None => -1 end))
  end.

Fixpoint model_run (hash : bytes -> N) (rv : bool) (st : inst) (ss : list step) : list sobs * inst :=
  match ss with
  | [] => ([], st)
  | s :: r => let '(st', o) := model_step hash rv st s in
              let '(os, fin) := model_run hash rv st' r in (o :: os, fin)
  end.

(* ---- spec side: a Go map ---- *)
Definition spec_step (is_map : bool) (cur : list (bytes * cval)) (s : step) : list (bytes * cval) * sobs :=
  let fails := negb (s_kind s =? 2) && negb (length (s_keys s) =? length (s_vals s))%nat in
  let cur' := if (s_kind s =? 2) || fails then cur else combine (s_keys s) (s_vals s) in
  (cur',
   mksobs (if fails then 1 else 0) (Z.of_nat (length cur'))
          (map (fun p => match assoc_pairs cur' p with Some v => (1, v) | None => (0, I 0) end) (s_probes s))
          (Some (if is_map then key_sort cur' else [])) 0).

Fixpoint spec_run (is_map : bool) (cur : list (bytes * cval)) (ss : list step) : list sobs :=
  match ss with
  | [] => []
  | s :: r => let '(cur', o) := spec_step is_map cur s in o :: spec_run is_map cur' r
  end.

(* ---- classification (model side) ---- *)
Fixpoint max_run (prev : option N) (run best : Z) (its : list (item cval)) : Z :=
  match its with
  | [] => best
  | e :: r =>
    let run' := match prev with
                | Some q => if (q =? islot e)%N then run + 1 else 1
                | None => 1 end in
    max_run (Some (islot e)) run' (Z.max best run') r
  end.
Fixpoint max_runZ (prev : option N) (run best : Z) (its : list (item Z)) : Z :=
  match its with
  | [] => best
  | e :: r =>
    let run' := match prev with
                | Some q => if (q =? islot e)%N then run + 1 else 1
                | None => 1 end in
    max_runZ (Some (islot e)) run' (Z.max best run') r
  end.
Definition inst_chain (st : inst) : Z :=
  match st with
  | IMap m => max_run None 0 0 (items m)
  | IS2S t => match s2s_map t with Some m => max_runZ None 0 0 (items m) | None => 0 end
  end.

Definition total_keys (ss : list step) : nat :=
  fold_left (fun a s => (a + length (s_keys s))%nat) ss O.

Definition slots_obs (n : N) : Z := match slots n with Ok s => s | _ => -1 end.
Fixpoint sweep (n : N) (k : nat) : list Z :=
  match k with O => [] | S k' => slots_obs n :: sweep (n + 1) k' end.
Fixpoint sweep_spec (n : N) (l : list Z) : bool :=
  match l with
  | [] => true
  | s :: r => (if s =? -1 then (1073741824 <=? n)%N else 1 <=? s) && sweep_spec (n + 1) r
  end.

Definition vints (l : list cval) : option (list Z) :=
  dec_all (fun v => match v with I z => Some z | _ => None end) l.

Definition check (c : cval) : verdict :=
  match c with
  (* (10 variant): a load with one key of 2^32 bytes (untouched zero memory; the models are not evaluated
     on it) after a successful load: it must be refused and every key of the earlier load must still
     answer (a failed load changes nothing); self-checked by the harness *)
  | L [L [I 10; I _]; L [I ok]] => mk (ok =? 1)%Z (ok =? 1)%Z 1000
  | L [L [I 9; I lo; I cnt]; L outs] =>
    match vints outs with
    | Some zs =>
      let m := sweep (Z.to_N lo) (Z.to_nat cnt) in
      mk (list_eqb Z.eqb m zs) ((length zs =? Z.to_nat cnt)%nat && sweep_spec (Z.to_N lo) zs)
         (1000 + (if existsb (fun z => z =? -1) m then 1 else 0))
    | None => bad_case
    end
  | L [L [I 8; I variant; I n; I seed; I shape; I n2]; L [I mism; I l1; I s1; I l2; I s2; I mc]] =>
    let ok := (mism =? 0) && (l1 =? n) && (l2 =? n2) in
    mk (ok && (s1 =? slots_obs (Z.to_N n)) && (s2 =? slots_obs (Z.to_N n2))) ok
       (2000 + Z.log2 (Z.max 1 n) + (if mc <=? 1 then 0 else 100))
  | L [L [I variant; L steps]; L outs] =>
    match dec_all dec_step steps, dec_all dec_sobs outs with
    | Some ss, Some impl =>
      let is_map := (variant <? 2) || (variant =? 4) || (variant =? 5) in
      let init := if is_map then IMap new_map
                  else if variant =? 2 then IS2S new_s2s else IS2S zero_s2s in
      let '(m1, fin) := model_run poly_hash false init ss in
      let a1 := list_eqb (sobs_eqb true) m1 impl in
      let a2 := if (total_keys ss <=? 150)%nat
                then list_eqb (sobs_eqb true) (fst (model_run len_hash true init ss)) impl else true in
      let a3 := if (total_keys ss <=? 40)%nat
                then list_eqb (sobs_eqb true) (fst (model_run const_hash false init ss)) impl else true in
      let sp := list_eqb (sobs_eqb false) (spec_run is_map [] ss) impl in
      let nfail := existsb (fun o => negb (o_err o =? 0)) m1 in
      mk (a1 && a2 && a3) sp
         (1 + variant + 8 * Z.min (inst_chain fin) 7
          + (if nfail then 64 else 0)
          + (if (2 <=? length ss)%nat then 128 else 0))
    | _, _ => bad_case
    end
  | _ => bad_case
  end.
