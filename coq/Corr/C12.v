(* Corr/C12.v — message envelope: three MessageBegin writers, two readers, MarshalFastMsg /
   UnmarshalFastMsg, against the models and against Spec/Wire.enc_msg / ref_msg.

   mode 0  (0 name ty seq off0 slack seed pre rest script)
     in-place: buf = pat seed (off0 + MessageBeginLength + slack); n := WriteMessageBegin(buf[off0:], ..)
     append:   AppendMessageBegin(pre, ..);   length: MessageBeginLength(name)
     stream writer: Malloc(|pre|) filled with pre (when non-empty), WriteMessageBegin, Flush
     readers read data = (append writer's bytes) ++ rest: buffer reader on data[|pre|:], stream
     reader over the scripted source after Next(|pre|)
     output (W A Ln SW BR SR):  W = (buf n)  A = bytes  Ln = n  SW = (errs wlen flusherr sink)
       BR = ((name ty seq l) err) | (() err)      SR = ((name ty seq readlen) err finalReadLen) | (() err rl)
   mode 1  (1 data prelen script)        both readers on arbitrary bytes; output (BR SR)
   mode 2  (2 name ty seq pk payload rfail)   MarshalFastMsg, then UnmarshalFastMsg into a fresh target
     pk 0: payload = (t m), thrift.ApplicationException; target NewApplicationException(77, "untouched")
     pk 1: payload = (logid caller addr client), base.Base (opaque: its encoding is taken from the
           implementation's FastMarshal, the round trip of the struct itself is property C11's)
     pk 2: payload = (bytes), a recording FastCodec stub: BLength = |bytes|, FastWriteNocopy copies
           them, FastRead records its argument and returns (len, nil), or an error when rfail <> 0
     output (merr mbytes pbytes (method seq err) tstate)
       merr 1 = MarshalFastMsg returned an error; pbytes = FastMarshal(payload)
       tstate: pk 0 (t m) of the target; pk 1 (flag): 1 target deep-equals the payload, 2 target
       still equals the fresh sentinel struct, 0 neither; pk 2 (called recorded)
   mode 3  (3 data pk rfail)             UnmarshalFastMsg on arbitrary bytes, pk 0 or 2
     output ((method seq err) tstate)
   mode 4  (4 name ty seq buflen seed)   WriteMessageBegin into a buffer of exactly buflen bytes:
     (0 n buf) | (1) panicked
   err classes: see Corr/CodecC.v; (-4 t m) = a *thrift.ApplicationException with type id t, text m;
   (-3 50) = the stub's own error. *)
From GV Require Import Lib.Bytes Lib.Res Lib.Heap Corr.Val Gen.Consts Spec.Log Spec.Cursor Spec.Wire
     Model.Binary Model.BufWriter Model.BufReader Model.StreamCodec Model.Message Corr.CodecC.
From GV Require Model.FastCodec.
(* thrift.Binary.Skip inside ApplicationException.FastRead: the FULL skipper model of C02/C03/C08
   (Model/Skip.v binary_skip through FastCodec.skipf), containers included *)
Notation skip_full := GV.Model.FastCodec.skipf.
Open Scope N_scope.

Definition msg_val (name : bytes) (ty seq : Z) (n : N) : cval := L [B name; I ty; I seq; I (Z.of_N n)].

Definition ecls (o : option Z) : cval := match o with None => L [] | Some x => cls_of_code x end.

(* stream reader on a message header *)
Definition srm_out (ost : option rstate) (prelen : N) : cval * bool :=
  match ost with
  | None => (L [], false)
  | Some st =>
    let '(st0, r0) := if 0 <? prelen
                      then (let '(s, o) := r_next st (Z.of_N prelen) in
                            (s, match o with OBytes _ => None | OErr e => Some (L [I (-2)%Z; I e]) | _ => Some crash_cls end))
                      else (st, None) in
    match r0 with
    | None =>
      let '(st1, r) := sr_message_begin st0 in
      match r with
      | Ok (name, ty, seq) => (L [msg_val name ty seq (r_readlen st1); L []; I (Z.of_N (r_readlen st1))], false)
      | x => (L [L []; ecls (res_err x); I (Z.of_N (r_readlen st1))], true)
      end
    | Some c => (L [L []; c; I (Z.of_N (r_readlen st0))], true)
    end
  end.

Definition brm_out (buf : bytes) : cval :=
  match r_message_begin buf with
  | Ok (name, ty, seq, n) => L [msg_val name ty seq n; L []]
  | x => L [L []; ecls (res_err x)]
  end.

Definition is_bad_version_cls (c : cval) : bool :=
  match c with L [I t; I 0%Z] => (t =? thrift_BAD_VERSION)%Z | _ => false end.

(* the format's reading of a header: 0 too short for the first word, 1 bad version, 2 truncated
   or negative name length, 3 well formed *)
Definition ref_class (buf : bytes) : Z * option (bytes * Z * Z * N) :=
  match ref_version_ok buf with
  | None => (0%Z, None)
  | Some false => (1%Z, None)
  | Some true => match ref_msg buf with None => (2%Z, None) | Some m => (3%Z, Some m) end
  end.

Definition ref_brm (buf : bytes) (out : cval) : bool :=
  match out, ref_class buf with
  | L [v; e], (_, Some (name, ty, seq, n)) => cval_eqb v (msg_val name ty seq n) && is_nil_cls e
  | L [L []; e], (1%Z, None) => is_bad_version_cls e
  | L [L []; e], (_, None) => negb (is_nil_cls e)
  | _, _ => false
  end.
Definition ref_srm (buf : bytes) (prelen : N) (out : cval) : bool :=
  match out, ref_class buf with
  | L [], _ => true
  | L [v; e; I rl], (_, Some (name, ty, seq, n)) =>
    cval_eqb v (msg_val name ty seq (prelen + n)) && is_nil_cls e && Z.eqb rl (Z.of_N (prelen + n))
  | L [L []; e; _], (1%Z, None) => is_bad_version_cls e
  | L [L []; e; _], (_, None) => negb (is_nil_cls e)
  | _, _ => false
  end.

(* ---------- payloads ---------- *)
(* recording stub / opaque struct: the struct is its encoding; FastRead records its argument *)
Definition stub_write (pb : bytes) (s : bytes) : res (bytes * N) := do b <- put s 0 pb; Ok (b, len pb).
Definition stub_read (rfail : bool) (st : option bytes) (b : bytes) : option bytes * res N :=
  (Some b, if rfail then Err 50%Z else Ok (len b)).

Definition uerr_cls (u : uerr) : cval :=
  match u with
  | UNil => L []
  | UErr e => cls_of_code e
  | UAppEx ex => L [I (-4)%Z; I (ex_t ex); B (ex_m ex)]
  end.

Definition fresh_ex : appex := mkex 77 [117; 110; 116; 111; 117; 99; 104; 101; 100].   (* "untouched" *)

Definition has_unmodelled {A} (r : res A) : bool := match r with Err e => (e =? e_unmodelled)%Z | _ => false end.

(* spec-level encoding of an application exception *)
Definition enc_appex (t : Z) (m : bytes) : bytes :=
  enc (IFieldBegin 11 1) ++ enc (IString m) ++ enc (IFieldBegin 8 2) ++ enc (II32 t) ++ enc IFieldStop.

Definition check (c : cval) : verdict :=
  match c with
  (* ---------------- mode 0 ---------------- *)
  | L [L [I 0%Z; namev; I ty; I seq; I off0; I slack; I seed; prev; restv; script];
       L [L [B wbuf; I wn]; B abuf; I ln; L [L swe; I swl; swf; sws]; brv; srv]] =>
    if (off0 <? 0)%Z || (slack <? 0)%Z || (seed <? 0)%Z || negb (fitsb 32 ty) || negb (fitsb 32 seq) then bad_case else
    let name := vbytes namev in let pre := vbytes prev in let rest := vbytes restv in
    let buf0 := pat (Z.to_N seed) (Z.to_N off0 + l_message_begin name + Z.to_N slack) in
    let m_w := match w_message_begin_at buf0 (Z.to_N off0) name ty seq with
               | Ok (b, n) => L [B b; I (Z.of_N n)] | _ => crash_cls end in
    let m_a := a_message_begin pre name ty seq in
    let m_l := l_message_begin name in
    let m_sw :=
      let st := new_writer 0 in
      let r0 := if 0 <? len pre then bw_run no_dirt st [SMalloc (len pre) [(0, pre)]] else Ok (st, E_NONE) in
      match r0 with
      | Ok (st0, e0) =>
        match (if (e0 =? E_NONE)%Z then bw_message_begin no_dirt st0 name ty seq else Ok (st0, e0)) with
        | Ok (st1, e1) =>
          let '(st2, ob) := wstep no_dirt st1 OFlush in
          L [L (map werr_cls ((if 0 <? len pre then [e0] else []) ++ (if (e0 =? E_NONE)%Z then [e1] else [])));
             I (Z.of_N (written_len st1)); werr_cls (o_err ob);
             match o_sink ob with Some b => L [B b] | None => L [] end]
        | _ => crash_cls
        end
      | _ => crash_cls
      end in
    let data := m_a ++ rest in
    let m_br := brm_out (drop (len pre) data) in
    match mk_reader script data with
    | None | Some (None, _) => bad_case
    | Some (Some st, stall) =>
      let '(m_sr, srfail) := srm_out (Some st) (len pre) in
      let a := cval_eqb m_w (L [B wbuf; I wn]) && beqb m_a abuf && Z.eqb (Z.of_N m_l) ln
               && cval_eqb m_sw (L [L swe; I swl; swf; sws]) && cval_eqb m_br brv && cval_eqb m_sr srv in
      (* spec *)
      let e := enc_msg name ty seq in
      let s_w := beqb wbuf (take (Z.to_N off0) buf0 ++ e ++ drop (Z.to_N off0 + len e) buf0) && Z.eqb wn (Z.of_N (len e)) in
      let s_a := beqb abuf (pre ++ e) in
      let s_l := Z.eqb ln (Z.of_N (len e)) in
      let s_sw := forallb is_nil_cls swe && Z.eqb swl (Z.of_N (len pre + len e)) && is_nil_cls swf
                  && cval_eqb sws (L [B (pre ++ e)]) in
      let inlim := len name <? two31 in
      let want := msg_val name (ty mod 65536)%Z seq in
      let s_br := ref_brm (e ++ rest) brv
                  && (if inlim then match brv with L [v; er] => cval_eqb v (want (len e)) && is_nil_cls er | _ => false end else true) in
      let s_sr := if stall then true else
                  ref_srm (e ++ rest) (len pre) srv
                  && (if inlim then match srv with L [v; er; _] => cval_eqb v (want (len pre + len e)) && is_nil_cls er | _ => false end else true) in
      mk a (s_w && s_a && s_l && s_sw && s_br && s_sr)
         (1 + (if srfail then 1 else 0) + (if (ty mod 65536 =? 3)%Z then 2 else 0)
          + (match script with L (I 1%Z :: _) => 4 | _ => 0 end) + (if N.eqb (len name) 0 then 8 else 0))%Z
    end
  (* ---------------- mode 1 ---------------- *)
  | L [L [I 1%Z; datav; I prelen; script]; L [brv; srv]] =>
    let data := vbytes datav in
    let pl := Z.to_N prelen in
    if (prelen <? 0)%Z || (len data <? pl) then bad_case else
    match mk_reader script data with
    | None => bad_case
    | Some (st, stall) =>
      let buf := drop pl data in
      let m_br := brm_out buf in
      let '(m_sr, srfail) := srm_out st pl in
      let a := cval_eqb m_br brv && cval_eqb m_sr srv in
      let s := ref_brm buf brv && (if stall then true else ref_srm buf pl srv) in
      mk a s (100 + fst (ref_class buf) * 8 + (if srfail then 1 else 0)
              + (match script with L (I 1%Z :: _) => 4 | _ => 0 end))%Z
    end
  (* ---------------- mode 2 ---------------- *)
  | L [L [I 2%Z; namev; I ty; I seq; I pk; L payload; I rfail];
       L [I merr; B mbytes; B pbytes; L [B umeth; I useq; uerrv]; L tstate]] =>
    if negb (fitsb 32 ty) || negb (fitsb 32 seq) then bad_case else
    let name := vbytes namev in
    let rf := negb (rfail =? 0)%Z in
    (* model: (marshal result, unmarshal result as cvals) *)
    let mres : option (res (option bytes) * (bytes -> option (cval * cval)) * bool) :=
      match pk, payload with
      | 0%Z, [I t; mv] =>
        if negb (fitsb 32 t) then None else
        let ex := mkex t (vbytes mv) in
        Some (marshal_fast_msg appex appex_blen appex_write [] name ty seq ex,
              (fun mb => match unmarshal_fast_msg appex (appex_read skip_full) skip_full mb fresh_ex with
                         | Ok u => Some (L [B (u_method u); I (u_seq u); uerr_cls (u_err u)],
                                         L [I (ex_t (u_msg u)); B (ex_m (u_msg u))])
                         | _ => None end),
              true)
      | 1%Z, _ | 2%Z, _ =>
        let pb := if (pk =? 2)%Z then match payload with [b] => vbytes b | _ => [] end else pbytes in
        Some (marshal_fast_msg bytes (fun p => len p) stub_write [] name ty seq pb,
              (fun mb => match unmarshal_fast_msg (option bytes) (stub_read rf) skip_full mb None with
                         | Ok u =>
                           Some (L [B (u_method u); I (u_seq u); uerr_cls (u_err u)],
                                 if (pk =? 2)%Z
                                 then match u_msg u with Some r => L [I 1%Z; B r] | None => L [I 0%Z; B []] end
                                 else match u_msg u with
                                      | Some r => L [I (if beqb r pb then 1 else 0)%Z]
                                      | None => L [I 2%Z] end)
                         | _ => None end),
              (pk =? 2)%Z)
      | _, _ => None
      end in
    match mres with
    | None => bad_case
    | Some (mr, um, knows_pb) =>
      match mr with
      | Ok None =>
        (* "method not set" *)
        mk ((merr =? 1)%Z && (len name =? 0)) (merr =? 1)%Z 201%Z
      | Ok (Some mb) =>
        match um mb with
        | None => bad_case       (* a model crash *)
        | Some (L [_; _; L [I (-3)%Z; I 40%Z]], _) => bad_case     (* the limited skip met a container *)
        | Some (mu, mt) =>
          let a := (merr =? 0)%Z && beqb mb mbytes && cval_eqb mu (L [B umeth; I useq; uerrv]) && cval_eqb mt (L tstate) in
          (* spec *)
          let isex := (ty mod 65536 =? 3)%Z in
          let s_m := (merr =? 0)%Z && negb (len name =? 0) && beqb mbytes (enc_msg name ty seq ++ pbytes)
                     && match pk, payload with
                        | 0%Z, [I t; mv] => beqb pbytes (enc_appex t (vbytes mv))
                        | 2%Z, [b] => beqb pbytes (vbytes b)
                        | _, _ => true end in
          let inlim := len name <? two31 in
          let s_u :=
            if negb inlim then true else
            beqb umeth name && Z.eqb useq seq &&
            (if isex then
               (* never decoded into the caller's struct; an application exception (or a decode error) comes back *)
               negb (is_nil_cls uerrv)
               && match pk, payload, tstate with
                  | 0%Z, [I t; mv], [I t2; B tm] =>
                    cval_eqb uerrv (L [I (-4)%Z; I t; B (vbytes mv)]) && Z.eqb t2 77 && beqb tm (ex_m fresh_ex)
                  | 1%Z, _, [I f] => Z.eqb f 2
                  | 2%Z, _, [I called; _] => Z.eqb called 0
                  | _, _, _ => false end
             else
               match pk, payload, tstate with
               | 0%Z, [I t; mv], [I t2; B tm] => is_nil_cls uerrv && Z.eqb t2 t && beqb tm (vbytes mv)
               | 1%Z, _, [I f] => is_nil_cls uerrv && Z.eqb f 1
               | 2%Z, _, [I called; B r] => Z.eqb called 1 && beqb r pbytes && Bool.eqb (is_nil_cls uerrv) (negb rf)
               | _, _, _ => false end) in
          mk a (s_m && s_u) (200 + pk * 16 + (if isex then 2 else 0) + (match uerrv with L [] => 0 | _ => 4 end) + 2 * 0 + 8 * (if rf then 1 else 0) + 1)%Z
        end
      | _ => bad_case
      end
    end
  (* ---------------- mode 3 ---------------- *)
  | L [L [I 3%Z; datav; I pk; I rfail]; L [L [B umeth; I useq; uerrv]; L tstate]] =>
    let data := vbytes datav in
    let rf := negb (rfail =? 0)%Z in
    let m : option (cval * cval * bool) :=
      if (pk =? 0)%Z then
        match unmarshal_fast_msg appex (appex_read skip_full) skip_full data fresh_ex with
        | Ok u => Some (L [B (u_method u); I (u_seq u); uerr_cls (u_err u)],
                        L [I (ex_t (u_msg u)); B (ex_m (u_msg u))],
                        match u_err u with UErr e => (e =? e_unmodelled)%Z | _ => false end)
        | _ => None end
      else if (pk =? 2)%Z then
        match unmarshal_fast_msg (option bytes) (stub_read rf) skip_full data None with
        | Ok u => Some (L [B (u_method u); I (u_seq u); uerr_cls (u_err u)],
                        match u_msg u with Some r => L [I 1%Z; B r] | None => L [I 0%Z; B []] end,
                        match u_err u with UErr e => (e =? e_unmodelled)%Z | _ => false end)
        | _ => None end
      else None in
    match m with
    | None => bad_case
    | Some (_, _, true) => bad_case
    | Some (mu, mt, false) =>
      let a := cval_eqb mu (L [B umeth; I useq; uerrv]) && cval_eqb mt (L tstate) in
      let '(cl, rm) := ref_class data in
      let s :=
        match rm with
        | None => (if (cl =? 1)%Z then is_bad_version_cls uerrv else negb (is_nil_cls uerrv))
                  && (len umeth =? 0) && Z.eqb useq 0
                  && match pk, tstate with
                     | 0%Z, [I t2; B tm] => Z.eqb t2 77 && beqb tm (ex_m fresh_ex)
                     | 2%Z, [I called; _] => Z.eqb called 0
                     | _, _ => false end
        | Some (name, ty, seq, n) =>
          beqb umeth name && Z.eqb useq seq &&
          (if (ty =? 3)%Z then
             negb (is_nil_cls uerrv)
             && match pk, tstate with
                | 0%Z, [I t2; B tm] => Z.eqb t2 77 && beqb tm (ex_m fresh_ex)
                | 2%Z, [I called; _] => Z.eqb called 0
                | _, _ => false end
           else
             match pk, tstate with
             | 2%Z, [I called; B r] => Z.eqb called 1 && beqb r (drop n data) && Bool.eqb (is_nil_cls uerrv) (negb rf)
             | 0%Z, _ => true
             | _, _ => false end)
        end in
      mk a s (300 + cl * 16 + pk + (match uerrv with L [] => 0 | L (I (-4)%Z :: _) => 4 | _ => 8 end))%Z
    end
  (* ---------------- mode 4 ---------------- *)
  | L [L [I 4%Z; namev; I ty; I seq; I buflen; I seed]; out] =>
    if (buflen <? 0)%Z || (seed <? 0)%Z || negb (fitsb 32 ty) || negb (fitsb 32 seq) then bad_case else
    let name := vbytes namev in
    let buf0 := pat (Z.to_N seed) (Z.to_N buflen) in
    let m := match w_message_begin buf0 name ty seq with
             | Ok (b, n) => L [I 0%Z; I (Z.of_N n); B b]
             | _ => L [I 1%Z] end in
    let e := enc_msg name ty seq in
    let s := if len e <=? Z.to_N buflen
             then cval_eqb out (L [I 0%Z; I (Z.of_N (len e)); B (e ++ drop (len e) buf0)])
             else true in
    mk (cval_eqb m out) s (400 + (match m with L [I 1%Z] => 1 | _ => 0 end))%Z
  | _ => bad_case
  end.
