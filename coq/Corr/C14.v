(* Corr/C14.v — concurrent stress: every goroutine's results against the SEQUENTIAL heap-level
   models (bufiox readers/writers, ReaderSkipDecoder taken from its pool), the observed state of a
   recycled object of every pooled type against the model's Recycle/Release, and the harness's own
   verdicts (results equal to the sequential run of the same scripts, all repetitions equal,
   self-checks of the codec / header / skip-decoder / map cycles). *)
From GV Require Import Lib.Bytes Lib.Res Lib.Heap Corr.Val Corr.C09 Model.Own Model.OwnReader Model.OwnWriter Model.OwnSkipDec Model.Tenants.
Open Scope N_scope.

(* value of an output: drop the location of the returned slice / region *)
Definition strip_r (v : cval) : cval :=
  match v with
  | L (I 0%Z :: B b :: _) => L [I 0%Z; B b]
  | x => x
  end.
Definition strip_w (v : cval) : cval :=
  match v with
  | L [I 0%Z; e; wl; _; _; _] => L [I 0%Z; e; wl]
  | x => x
  end.

Section Seq.
  Variables (S O : Type).
  Variable dec : cval -> option O.
  Variable step : S -> env -> O -> S * env * cval.
  Variable strip : cval -> cval.
  (* run the object alone: empty oracle (fresh blocks), nobody else *)
  Fixpoint seq_run (st : S) (w : world) (tr : list event) (ops : list cval) : option (list cval) :=
    match ops with
    | [] => Some []
    | o :: r =>
      match dec o with
      | Some op =>
        let '(st', e', out) := step st (mkE w [] [] [] tr) op in
        match seq_run st' (ew e') (eev e') r with
        | Some outs => Some (strip out :: outs)
        | None => None
        end
      | None => None
      end
    end.
End Seq.

(* the RSD cycle of C14: op 2 is Release + New (the model's Reset); the cycle ends with Release *)
Definition cycle_model (c : cval) : option (option (list cval)) :=   (* None: bad case; Some None: not modelled *)
  match c with
  | L [I kind; L p; L ops] =>
    match kind with
    | 0%Z => match dec_src p with
             | Some s => Some (seq_run _ _ dec_hop rstep_enc strip_r (new_reader s) empty_world [] ops)
             | None => None end
    | 1%Z => match p with
             | [pre; d; sp] =>
               let '(st, e) := new_bytes_reader env0 (vbytes pre) (vbytes d) (vbytes sp) in
               Some (seq_run _ _ dec_hop rstep_enc strip_r st (ew e) (eev e) ops)
             | _ => None end
    | 2%Z => match p with
             | [I failk] => Some (seq_run _ _ dec_wop wstep_enc strip_w (new_writer (Z.to_N failk)) empty_world [] ops)
             | _ => None end
    | 3%Z => match p with
             | [I isnil; pre; d; sp] =>
               let '(st, e) := new_bytes_writer env0 (negb (isnil =? 0)%Z) (vbytes pre) (vbytes d) (vbytes sp) in
               Some (seq_run _ _ dec_wop wstep_enc strip_w st (ew e) (eev e) ops)
             | _ => None end
    | 4%Z => match dec_src p with
             | Some s => Some (seq_run _ _ dec_kop kstep_enc strip_r (new_skip s) empty_world [] ops)
             | None => None end
    | _ => Some None
    end
  | _ => None
  end.

(* cycles that are not modelled here carry their own verdict: (ok detail ...) — kinds 5..9 and the
   pool-heavy kinds 10 (pooled ReaderSkipDecoder with big values), 11/12 (readers whose slices are all
   retained until Release) with their in-goroutine co-tenant of the mcache pool *)
Definition cycle_selfok (c out : cval) : bool :=
  match c with
  | L (I kind :: _) =>
    if (kind <? 5)%Z then true
    else match out with L (I ok :: _) => (ok =? 1)%Z | _ => false end
  | _ => false
  end.

Definition is_modelled (c : cval) : bool :=
  match c with L (I kind :: _) => (kind <? 5)%Z | _ => false end.

Fixpoint cycles_check (cs outs : list cval) : option (bool * bool * Z) :=   (* agree, selfok, #modelled *)
  match cs, outs with
  | [], [] => Some (true, true, 0%Z)
  | c :: cr, o :: or =>
    match cycles_check cr or with
    | Some (a, s, n) =>
      let so := cycle_selfok c o in
      if is_modelled c then
        match cycle_model c with
        | Some (Some mouts) => Some (a && cv_eqb (L mouts) o, s && so, (n + 1)%Z)
        | _ => None
        end
      else Some (a, s && so, n)
    | None => None
    end
  | _, _ => None
  end.

Fixpoint scripts_check (ss outs : list cval) : option (bool * bool * Z) :=
  match ss, outs with
  | [], [] => Some (true, true, 0%Z)
  | L cs :: sr, L os :: or =>
    match cycles_check cs os, scripts_check sr or with
    | Some (a, s, n), Some (a', s', n') => Some (a && a', s && s', (n + n')%Z)
    | _, _ => None
    end
  | _, _ => None
  end.

(* a recycled object of every pooled type, as the models of Recycle/Release leave it:
   (BufferReader reset, BufferWriter reset, SkipDecoder (r nil, rn), BytesSkipDecoder (n, len b), RSD (r nil, n)) *)
Definition model_resets : cval :=
  let sdo := sd_obs (sd_release (sd_skipn_ok (sd_new sd_zero O) 5)) in
  let bso := bs_obs (bs_release (mkBS 7 (Some (pat 3 40)))) in
  L [I (br_obs (br_recycle (br_new br_zero O))); I (bw_obs (bw_recycle (bw_new bw_zero O)));
     L [I (fst sdo); I (Z.of_N (snd sdo))]; L [I (Z.of_N (fst bso)); I (Z.of_N (snd bso))];
     L [I 1%Z; I (Z.of_N (kn (k_reset (mkK None 11 (done_source []) None 0) (done_source []))))]].

Definition check (c : cval) : verdict :=
  match c with
  | L [L [I G; I R; L scripts; L _]; L [L outs; I seqeq; I repseq; resets]] =>
    match scripts_check scripts outs with
    | Some (a, s, n) =>
      mk (a && cv_eqb model_resets resets)
         (s && negb (seqeq =? 0)%Z && negb (repseq =? 0)%Z)
         (1 + Z.min 3 n + 4 * Z.min 3 (Z.log2 (Z.max 1 G)))%Z
    | None => bad_case
    end
  | _ => bad_case
  end.
