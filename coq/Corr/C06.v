(* Corr/C06.v — TTHeader encode/decode round trip against the real Encode / EncodeToBytes /
   Decode / DecodeFromBytes.

   input  (flags seq pid ((key val) ...) ((key val) ...) payload chunk)
          byte strings are Val.vbytes specifications; keys distinct
   output encode failed:  (1 st2)              st2: status of the stream-backed Encode
          encode ok:      (0 bytes iord sord wl (st2 wl2 same bytes2 iord2 sord2) isTT isStreaming
                             dec sameFromBytes sameStream)
     bytes   frame from EncodeToBytes with the total-length field set to |frame|+|payload|-4
     iord/sord  the map iteration order Go used, as indices into the input lists, recovered
             from the frame by the harness' own section parser (GDPR entry first in sord)
     wl      WrittenLen before Flush
     (...)   the same for Encode over a stream-backed DefaultWriter; same=1: identical frame
     dec     Decode of frame++payload over a BytesReader, with ReadLen (TTHeaderC.obs)
     sameFromBytes / sameStream  DecodeFromBytes / Decode over a chunked DefaultReader gave the
             same observation *)
From GV Require Import Lib.Bytes Lib.Res Corr.Val Model.TTHeader Spec.FrameLayout Corr.TTHeaderC.
Open Scope N_scope.

Definition apply_order {A} (l : list A) (ord : list N) : option (list A) :=
  if (length ord =? length l)%nat && nodupk N.eqb ord && forallb (fun i => i <? len l) ord
  then Some (flat_map (fun i => match nth_error l (N.to_nat i) with Some x => [x] | None => [] end) ord)
  else None.

Definition vord (v : cval) : list N := map vN (vlist v).

(* one produced frame against model (first) and layout spec (second) *)
Definition enc_one (fl : N) (sq : Z) (pid : N) (im : list (N * bytes)) (sm : list (bytes * bytes))
           (payload : bytes) (bs : bytes) (io so : list N) (wl : Z) : bool * bool :=
  let a :=
    match apply_order im io, apply_order sm so with
    | Some imo, Some smo =>
      match encode 0 {| p_flags := fl; p_seq := sq; p_pid := pid; p_int := imo; p_str := smo |} with
      | Ok mb => beqb (set_total mb (len mb + len payload - 4)) bs && (wl =? Z.of_N (len mb))%Z
      | _ => false
      end
    | _, _ => false
    end in
  let s := frame_b fl sq pid im sm bs && (wl =? Z.of_N (len bs))%Z
           && (field_at bs 0 4 =? len bs + len payload - 4)
           && (info_size im sm <=? L_max) && (L_meta + info_size im sm =? len bs) in
  (a, s).

Definition check (c : cval) : verdict :=
  match c with
  (* (9 nkeys vlen): nkeys int keys sharing one value of vlen bytes, encoded over a counting writer (the
     bytes are never materialised; the models are not evaluated on them).  The header info is
     2 + (1 + 2 + nkeys * (2 + 2 + vlen)) bytes padded to a multiple of 4: Encode must fail exactly when
     that exceeds 65536 — at 4 GiB and beyond as well (repair of /repo: the comparison was made on
     uint32(size)) *)
  | L [L [I 9%Z; I nk; I vl]; L [I failed; I _]] =>
    let raw := (2 + (if nk =? 0 then 0 else 3 + nk * (4 + vl)))%Z in
    let size := ((raw + 3) / 4 * 4)%Z in
    let want := (65536 <? size)%Z in
    mk (Bool.eqb (negb (failed =? 0)%Z) want) (Bool.eqb (negb (failed =? 0)%Z) want) 900
  | L [L [I fl; I sq; I pid; ims; sms; pl; I chunk]; out] =>
    let fl := Z.to_N fl in
    let pid := Z.to_N pid in
    let im := vimap ims in
    let sm := vsmap sms in
    let payload := vbytes pl in
    let p0 := {| p_flags := fl; p_seq := sq; p_pid := pid; p_int := im; p_str := sm |} in
    match out with
    | L [I 1%Z; I st2] =>
      (* encode refused: the model refuses for every order (it does not depend on it), the
         spec demands refusal exactly when the info does not fit *)
      let a := match encode 0 p0 with Err _ => true | _ => false end in
      mk (a && (st2 =? 1)%Z) ((L_max <? info_size im sm) && (st2 =? 1)%Z) 100
    | L [I 0%Z; bs; io; so; I wl; L [I st2; I wl2; I same; bs2; io2; so2]; I istt; I isstr;
         dec; I sameFB; I sameST] =>
      let bs := vbytes bs in
      let '(a1, s1) := enc_one fl sq pid im sm payload bs (vord io) (vord so) wl in
      let '(a2, s2) :=
        if (st2 =? 0)%Z then
          if (same =? 1)%Z then ((wl2 =? wl)%Z, (wl2 =? wl)%Z)
          else enc_one fl sq pid im sm payload (vbytes bs2) (vord io2) (vord so2) wl2
        else (false, false) in
      let a3 := match is_ttheader bs with Ok t => Bool.eqb t (negb (istt =? 0)%Z) | _ => false end
                && match is_streaming bs with Ok t => Bool.eqb t (negb (isstr =? 0)%Z) | _ => false end in
      let s3 := negb (istt =? 0)%Z
                && Bool.eqb (negb (isstr =? 0)%Z) (negb (N.land fl L_streaming =? 0)) in
      match vobs dec with
      | Some o =>
        let m := decode (bs ++ payload) in
        let a4 := dec_agree m o in
        let s4 :=
          if existsb (N.eqb pid) L_pids then
            (o_st o =? 0)%Z && (o_fl o =? Z.of_N fl)%Z && (o_sq o =? sq)%Z && (o_pid o =? Z.of_N pid)%Z
            && imap_eqb (o_im o) im && smap_eqb (o_sm o) sm
            (* an empty (or nil) input map comes back nil, a non-empty one as a map *)
            && (o_inil o =? (match im with [] => 1 | _ => 0 end))%Z
            && (o_snil o =? (match sm with [] => 1 | _ => 0 end))%Z
            && nodupk N.eqb (keys (o_im o)) && nodupk beqb (keys (o_sm o))
            && (o_hlen o =? Z.of_N (len bs))%Z && (o_plen o =? Z.of_N (len payload))%Z
            && (o_rl o =? Z.of_N (len bs))%Z
          else (o_st o =? 1)%Z in
        let both := negb (sameFB =? 0)%Z && negb (sameST =? 0)%Z in
        mk (a1 && a2 && a3 && a4 && both) (s1 && s2 && s3 && s4 && both)
           (1 + (match slookup gdpr sm with Some _ => 1 | None => 0 end)
            + (match filter not_gdpr sm with [] => 0 | _ => 2 end)
            + (match im with [] => 0 | _ => 4 end)
            + 8 * Z.of_N (raw_info_size im sm mod 4)
            + (if existsb (N.eqb pid) L_pids then 0 else 32)
            + (if 65000 <? info_size im sm then 64 else 0))
      | None => bad_case
      end
    | _ => bad_case
    end
  | _ => bad_case
  end.
