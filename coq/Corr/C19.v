(* Corr/C19.v — correspondence for protocol/thrift/apache.

   (0 init hist)   buf := bytes.NewBuffer(init); tr := NewBufferTransport(buf); the history is
                   executed op by op through the named handle (h = 0: buf, 1: tr)
       op  (0 h data) Write   (1 h k) Read into a k-byte slice   (2 h) Reset   (3 h) Len
           (4) tr.Close   (5) tr.RemainingBytes   (6 w) w = 0 IsOpen, 1 Open, 2 Flush
       output (ptrSame (obs ...) bytesViaBuf bytesViaTr)
         every obs ends with the two views AFTER the op:  buf.Len()  tr.RemainingBytes()
           Write (n errNil lb rt)   Read (data errcode lb rt)   errcode 0 nil, 1 io.EOF, 2 other
           Reset (lb rt)   Len (n lb rt)   Close (errNil lb rt)   RemainingBytes (n lb rt)
           IsOpen/Open/Flush (v lb rt)     v: IsOpen 1/0, Open/Flush 1 when the error is nil
   (1 cls n)       NewDefaultTransport over: cls 0 object with ReadableLen() = n; 1 object with
                   Len() = n only; 2 plain ReadWriter; 3 *bytes.Buffer holding n bytes;
                   4 a buffer transport (over n bytes) passed in again; 5 / 6 objects that have the whole
                   TTransport method set themselves (RemainingBytes() = 3), with ReadableLen() = n / without;
                   7 an object whose ReadableLen() is n at the first look and 0 at every later one
       output (remaining isBufferTransport forwardsOK closeNil)
   (2 steps)       registry; every case starts (and ends) with all three slots nil
       step (0 slot fid) Register<slot>(callback fid), fid = -1: Register<slot>(nil)
            (1 slot arg) call <slot> with argument object number arg
       slot 0 CheckTStruct, 1 ThriftRead, 2 ThriftWrite
       callback fid returns error number (fid + arg) mod 8 of a fixed table, 0 = nil
       output one item per step: () for a registration, for a call
            (class code gotFid gotArg gotRW)
            class 0 nil, 1 the slot's own not-registered error (exact text, same value on a
            second call), 2 the very error value the callback returned, 3 anything else *)
From GV Require Import Lib.Bytes Lib.Res Corr.Val Model.Apache.
Open Scope Z_scope.

Fixpoint cval_eqb (a b : cval) : bool :=
  match a, b with
  | I x, I y => x =? y
  | B x, B y => beqb x y
  | L x, L y =>
      (fix go (x y : list cval) : bool :=
         match x, y with
         | [], [] => true
         | a' :: x', b' :: y' => cval_eqb a' b' && go x' y'
         | _, _ => false
         end) x y
  | _, _ => false
  end.

Definition bz (b : bool) : cval := I (if b then 1 else 0).

(* ---------- histories ---------- *)
Definition dec_handle (z : Z) : option handle :=
  if z =? 0 then Some HBuffer else if z =? 1 then Some HTransport else None.

Definition dec_op (c : cval) : option op :=
  match c with
  | L [I 0; I h; B d] => option_map (fun h' => Via h' (Write d)) (dec_handle h)
  | L [I 1; I h; I k] => if k <? 0 then None else option_map (fun h' => Via h' (Read (Z.to_N k))) (dec_handle h)
  | L [I 2; I h] => option_map (fun h' => Via h' Reset) (dec_handle h)
  | L [I 3; I h] => option_map (fun h' => Via h' Len) (dec_handle h)
  | L [I 4] => Some (Tr Close)
  | L [I 5] => Some (Tr RemainingBytes)
  | L [I 6; I 0] => Some (Tr IsOpen)
  | L [I 6; I 1] => Some (Tr Open)
  | L [I 6; I 2] => Some (Tr Flush)
  | _ => None
  end.

Fixpoint dec_ops (l : list cval) : option (list op) :=
  match l with
  | [] => Some []
  | c :: r => match dec_op c, dec_ops r with
              | Some o, Some os => Some (o :: os)
              | _, _ => None
              end
  end.

(* the model's observation of one op, with both views after it *)
Definition show_obs (x : obs) (s : buffer) : cval :=
  let views := [I (buf_len s); I (Z.of_N (bt_remaining s))] in
  match x with
  | OWrite n => L ([I (Z.of_N n); I 1] ++ views)
  | ORead d e => L ([B d; I (if e then 1 else 0)] ++ views)
  | OUnit => L views
  | OLen n => L (I n :: views)
  | ORemaining n => L (I (Z.of_N n) :: views)
  | OBool b => L (bz b :: views)
  | ONilErr => L (I 1 :: views)
  end.

Fixpoint model_hist (h : list op) (s : buffer) : buffer * list cval :=
  match h with
  | [] => (s, [])
  | o :: r => let '(s1, x) := exec o s in
              let '(s2, xs) := model_hist r s1 in (s2, show_obs x s1 :: xs)
  end.

(* the property on the implementation's observations: one reference content [ref], advanced
   with the implementation's own results, whatever handle an op went through *)
Definition views_ok (ref : bytes) (lb rt : Z) : bool :=
  (lb =? Z.of_N (len ref)) && (rt =? lb).

Definition spec_step (o : op) (out : cval) (ref : bytes) : option bytes :=
  match o, out with
  | Via _ (Write d), L [I n; I en; I lb; I rt] =>
      let ref' := ref ++ d in
      if (n =? Z.of_N (len d)) && (en =? 1) && views_ok ref' lb rt then Some ref' else None
  | Via _ (Read k), L [B got; I ec; I lb; I rt] =>
      let n := N.min k (len ref) in
      let ref' := drop n ref in
      if beqb got (take n ref)
         && (ec =? (if (len ref =? 0)%N && negb (k =? 0)%N then 1 else 0))
         && views_ok ref' lb rt then Some ref' else None
  | Via _ Reset, L [I lb; I rt] => if views_ok [] lb rt then Some [] else None
  | Via _ Len, L [I n; I lb; I rt] =>
      if (n =? Z.of_N (len ref)) && views_ok ref lb rt then Some ref else None
  | Tr Close, L [I en; I lb; I rt] => if (en =? 1) && views_ok [] lb rt then Some [] else None
  | Tr RemainingBytes, L [I n; I lb; I rt] =>
      if (n =? Z.of_N (len ref)) && views_ok ref lb rt then Some ref else None
  | Tr _, L [I v; I lb; I rt] => if (v =? 1) && views_ok ref lb rt then Some ref else None
  | _, _ => None
  end.

Fixpoint spec_hist (h : list op) (outs : list cval) (ref : bytes) : option bytes :=
  match h, outs with
  | [], [] => Some ref
  | o :: r, x :: xs => match spec_step o x ref with
                       | Some ref' => spec_hist r xs ref'
                       | None => None
                       end
  | _, _ => None
  end.

Definition hist_tag (h : list op) : Z :=
  let has f := existsb f h in
  1 + (if has (fun o => match o with Via HBuffer _ => true | _ => false end) then 1 else 0)
    + (if has (fun o => match o with Via HTransport _ => true | _ => false end) then 2 else 0)
    + (if has (fun o => match o with Tr Close => true | Via _ Reset => true | _ => false end) then 4 else 0)
    + (if has (fun o => match o with Via _ (Read _) => true | _ => false end) then 8 else 0).

Definition check_hist (init : bytes) (hl : list cval) (out : cval) : verdict :=
  match dec_ops hl with
  | None => bad_case
  | Some h =>
    let '(sf, xs) := model_hist h init in
    let a := cval_eqb (L [I 1; L xs; B sf; B sf]) out in
    let s :=
      match out with
      | L [I ps; L outs; B fb; B ft] =>
          (ps =? 1) &&
          match spec_hist h outs init with
          | Some ref => beqb fb ref && beqb ft ref
          | None => false
          end
      | _ => false
      end in
    mk a s (hist_tag h)
  end.

(* ---------- default transport ---------- *)
Definition check_default (cls n : Z) (out : cval) : verdict :=
  if negb (in_signedb 64 n) || (cls <? 0) || (7 <? cls) || (((cls =? 3) || (cls =? 4)) && (n <? 0)) then bad_case else
  let o : rw :=
    if (cls =? 0) || (cls =? 5) || (cls =? 7) then RWReadable n
    else if cls =? 3 then RWBuffer (repeat 0%N (Z.to_nat n))
    else RWOther in
  let t := new_default_transport o in
  let isbt := match t with TBuffer _ => true | TDefault _ => false end in
  let a := cval_eqb (L [I (Z.of_N (transport_remaining t)); bz isbt; I 1; I 1]) out in
  let s :=
    match out with
    | L [I r; I bt; I fw; I cl] =>
        (* readable length when a positive one is exposed, else unknown = max uint64;
           a *bytes.Buffer becomes a buffer transport: the unread length, zero included *)
        (r =? (if (cls =? 0) || (cls =? 5) || (cls =? 7) then (if 0 <? n then n else 18446744073709551615)
               else if cls =? 3 then n else 18446744073709551615))
        && (bt =? (if cls =? 3 then 1 else 0)) && (fw =? 1) && (cl =? 1)
    | _ => false
    end in
  mk a s (20 + cls * 3 + (if 0 <? n then 2 else if n =? 0 then 1 else 0)).

(* ---------- registry ---------- *)
Definition dec_slot (z : Z) : option slotid :=
  if z =? 0 then Some SCheck else if z =? 1 then Some SRead else if z =? 2 then Some SWrite else None.
Definition slot_code (s : slotid) : Z := match s with SCheck => 0 | SRead => 1 | SWrite => 2 end.

(* callback number fid: receives the argument number, reports (fid, arg) and the error number *)
Definition cb (fid : Z) (arg : Z) : Z * Z * Z := ((fid + arg) mod 8, fid, arg).

Definition show_result (r : res (result (Z * Z * Z))) : cval :=
  match r with
  | Ok (RetCallback (code, fid, arg)) => L [I (if code =? 0 then 0 else 2); I code; I fid; I arg; I 1]
  | Ok (RetNotRegistered s) => L [I 1; I (slot_code s); I (-1); I (-1); I (-1)]
  | _ => L [I (-99)]
  end.

Fixpoint model_reg (steps : list cval) (r : registry Z (Z * Z * Z)) : option (list cval) :=
  match steps with
  | [] => Some []
  | L [I 0; I sl; I fid] :: rest =>
      match dec_slot sl with
      | Some s => option_map (cons (L [])) (model_reg rest (register s (if fid <? 0 then None else Some (cb fid)) r))
      | None => None
      end
  | L [I 1; I sl; I arg] :: rest =>
      match dec_slot sl with
      | Some s => option_map (cons (show_result (dispatch r s arg))) (model_reg rest r)
      | None => None
      end
  | _ => None
  end.

(* the property on the observations: the last registration of the slot decides *)
Fixpoint spec_reg (steps outs : list cval) (regs : list (Z * Z)) : bool :=
  match steps, outs with
  | [], [] => true
  | L [I 0; I sl; I fid] :: rest, L [] :: xs => spec_reg rest xs ((sl, fid) :: regs)
  | L [I 1; I sl; I arg] :: rest, L [I cls; I code; I gf; I ga; I grw] :: xs =>
      let cur := match find (fun p => fst p =? sl) regs with Some (_, fid) => fid | None => -1 end in
      (if cur <? 0
       then (cls =? 1) && (code =? sl) && (gf =? -1) && (ga =? -1) && (grw =? -1)      (* specific error, nothing called *)
       else (code =? (cur + arg) mod 8) && (cls =? (if code =? 0 then 0 else 2))       (* the callback's result *)
            && (gf =? cur) && (ga =? arg) && (grw =? 1))                                 (* exactly the arguments *)
      && spec_reg rest xs regs
  | _, _ => false
  end.

Definition check_reg (steps : list cval) (out : cval) : verdict :=
  match model_reg steps empty_registry with
  | None => bad_case
  | Some xs =>
    let a := cval_eqb (L xs) out in
    let s := match out with L outs => spec_reg steps outs [] | _ => false end in
    mk a s (40 + (if existsb (fun x => match x with L [I 1; _; _; _; _] => true | _ => false end) xs then 1 else 0)
               + (if existsb (fun x => match x with L [I 0; _; _; _; _] | L [I 2; _; _; _; _] => true | _ => false end) xs then 2 else 0))
  end.

Definition check (c : cval) : verdict :=
  match c with
  | L [L [I 0; B init; L hl]; out] => check_hist init hl out
  | L [L [I 1; I cls; I n]; out] => check_default cls n out
  | L [L [I 2; L steps]; out] => check_reg steps out
  (* (3 rounds): three goroutines register the three DIFFERENT hooks at the same time, then each hook is
     called: self-checked by the harness (every registration that returned is in effect) *)
  | L [L [I 3; I _]; L [I ok]] => mk (ok =? 1) (ok =? 1) 60
  | _ => bad_case
  end.
