(* Corr/C03.v — decoders never panic or over-report on arbitrary bytes.
   input  (entry t bytes)      output (class n [xmsg])  |  (-97)  |  (-98 xreason)
   see harness/c03.go for the entry numbers.  The spec predicate looks at the implementation's
   output only: never class 2 (panic / guard-page fault), never a crashed child process, and on
   success a reported length that is at most the input length. *)
From GV Require Import Lib.Bytes Lib.Res Corr.Val Model.Entries.
Open Scope Z_scope.

Definition check (c : cval) : verdict :=
  match c with
  | L [L [I entry; I t; bv]; L (I cl :: rest)] =>
    let b := vbytes bv in
    if cl =? -97 then mk true true 0      (* not run: declared size above the cap where it is allocated *)
    else if cl =? -98 then mk false false (-2)   (* the implementation killed its process *)
    else
      let n := match rest with I n :: _ => n | _ => 0 end in
      let '(mc, mn) := run_entry entry (Z.to_N t) b in
      let a := known_entry entry && (mc =? cl) && (if cl =? 0 then (mn =? n) else true) in
      let s := negb (cl =? 2) && ((cl =? 0) || (cl =? 1)) && (if cl =? 0 then n <=? Z.of_N (len b) else true) in
      mk a s (1 + entry * 4 + mc)
  | _ => bad_case
  end.
