(* Corr/C04.v — buffered reader: model vs implementation per operation, and the cursor spec on
   the implementation's outputs. *)
From GV Require Import Lib.Bytes Lib.Res Corr.Val Model.BufReader Spec.Cursor.
Open Scope N_scope.

(* ops:  (0 n) Next  (1 n) Peek  (2 n) Skip  (3 k) ReadBinary  (4) ReadLen  (5) Release *)
Definition dec_op (v : cval) : option rop :=
  match v with
  | L [I 0%Z; I n] => Some (RNext n)
  | L [I 1%Z; I n] => Some (RPeek n)
  | L [I 2%Z; I n] => Some (RSkip n)
  | L [I 3%Z; I k] => Some (RReadBinary (Z.to_N k))
  | L [I 4%Z] => Some RReadLen
  | L [I 5%Z] => Some RRelease
  | _ => None
  end.
(* outputs:  (0 bytes) slice  (1 e) error  (2) nil,nil  (3) ok  (4 m bytes e) ReadBinary (e = 0: nil)  (5 n) ReadLen *)
Definition dec_out (v : cval) : option rout :=
  match v with
  | L [I 0%Z; b] => Some (OBytes (vbytes b))
  | L [I 1%Z; I e] => Some (OErr e)
  | L [I 2%Z] => Some ONil
  | L [I 3%Z] => Some OUnit
  | L [I 4%Z; I m; b; I e] => Some (ORead (Z.to_N m) (vbytes b) (if (e =? 0)%Z then None else Some e))
  | L [I 5%Z; I n] => Some (OLen (Z.to_N n))
  | _ => None
  end.

Fixpoint all_some {A} (l : list (option A)) : option (list A) :=
  match l with
  | [] => Some []
  | Some x :: r => match all_some r with Some r' => Some (x :: r') | None => None end
  | None :: _ => None
  end.

(* chunk scripts: an item is a chunk size or (size count) *)
Definition expand_chunks (l : list cval) : list N :=
  concat (map (fun v => match v with
                        | L [I c; I k] => repeat (Z.to_N c) (Z.to_nat k)
                        | I c => [Z.to_N c]
                        | _ => [] end) l).

Definition rout_eqb (a b : rout) : bool :=
  match a, b with
  | OBytes x, OBytes y => beqb x y
  | ONil, ONil => true
  | OErr x, OErr y => (x =? y)%Z
  | OUnit, OUnit => true
  | ORead m x e, ORead m' y e' => (m =? m') && beqb x y && opt_eqb Z.eqb e e'
  | OLen x, OLen y => x =? y
  | _, _ => false
  end.

Definition is_fail (o : rout) : bool :=
  match o with OErr _ | ONil => true | ORead _ _ (Some _) => true | _ => false end.

(* model-side events of one step (which branches of the modelled code the case went through);
   the tag of a case is the union over its history:
     1 allocate   2 allocate more than bufsz   4 grow   8 caller's (read-only) buffer replaced
     16 source error stored while the request was satisfied   32 request failed with the source error
     64 no-progress   128 failure on an already stored error   256 Release frees the buffer
     512 Release re-slices a read-only buffer   1024 Release compacts   2048 negative count
     4096 ReadBinary short (0 < m < k)   8192 old buffer parked   16384 allocation sized by the statistics
     32768 fast path (request served from the window) *)
Definition ev_step (st : rstate) (o : rop) (st' : rstate) (out : rout) : N :=
  let b (c : bool) (v : N) := if c then v else 0 in
  b ((cap st =? 0) && negb (cap st' =? 0)) 1
  + b ((cap st =? 0) && (bufsz <? cap st')) 2
  + b (negb (cap st =? 0) && (cap st <? cap st')) 4
  + b (ro st && negb (ro st') && negb (cap st' =? 0)) 8
  + match rerr st, rerr st' with
    | None, Some e => if (e =? e_noprogress)%Z then 64 else if is_fail out then 32 else 16
    | Some _, _ => b (is_fail out) 128
    | _, _ => 0
    end
  + match o with
    | RRelease => match win st with [] => 256 | _ => if ro st then 512 else 1024 end
    | RNext n | RPeek n | RSkip n => b (n <? 0)%Z 2048
    | RReadBinary k => match out with ORead m _ (Some _) => b (0 <? m) 4096 | _ => 0 end
    | _ => 0
    end
  + b (npend st <? npend st') 8192
  + b ((cap st =? 0) && negb (cap st' =? 0) && (bufsz <? stats_max (stats st))) 16384
  + match o with
    | RNext n | RPeek n | RSkip n => b ((0 <=? n)%Z && (Z.to_N n <=? len (win st)) && negb (is_fail out)) 32768
    | RReadBinary k => b (k <=? len (win st)) 32768
    | _ => 0
    end.

Fixpoint ev_run (st : rstate) (ops : list rop) (acc : N) : N :=
  match ops with
  | [] => acc
  | o :: r => let '(st', out) := r_step st o in ev_run st' r (N.lor acc (ev_step st o st' out))
  end.

(* input (kind data final with chunks ops extra_cap)
     kind 0: io.Reader backed   kind 1: bytes backed (cap = len data + extra_cap) *)
Definition check (c : cval) : verdict :=
  match c with
  | L [L [I kind; d; I fin; I wd; L chunks; L ops; I extra]; L outs] =>
    let data := vbytes d in
    match all_some (map dec_op ops), all_some (map dec_out outs) with
    | Some ops', Some outs' =>
      let chs := expand_chunks chunks in
      let st0 :=
        if (kind =? 0)%Z then
          new_reader {| sdata := data; sfinal := fin; swith := vbool (I wd); schunks := chs; spos := 0 |}
        else new_bytes_reader data (len data + Z.to_N extra) in
      let '(_, mouts) := r_run st0 ops' in
      let a := list_eqb rout_eqb mouts outs' in
      let fin' := if (kind =? 0)%Z then fin else e_eof in
      let chs' := if (kind =? 0)%Z then chs else [] in
      let s := cursor_run data fin' chs' {| cpos := 0; crl := 0 |} ops' outs' in
      mk a s (Z.of_N (ev_run st0 ops' 0) * 2 + 1 + kind)
    | _, _ => bad_case
    end
  | _ => bad_case
  end.
