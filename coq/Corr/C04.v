(* Corr/C04.v — buffered reader: model vs implementation per operation, and the cursor spec on
   the implementation's outputs. *)
From GV Require Import Lib.Bytes Lib.Res Corr.Val Model.BufReader Spec.Cursor.
Open Scope N_scope.

(* ops:  (0 n) Next  (1 n) Peek  (2 n) Skip  (3 k) ReadBinary  (4) ReadLen  (5) Release *)
Definition dec_op (v : cval) : option rop :=
  match v with
  | L [I 0%Z; I n] => Some (RNext n)
  | L [I 1%Z; I n] => Some (RPeek n)
  | L [I 2%Z; I n] => Some (RSkip n)
  | L [I 3%Z; I k] => Some (RReadBinary (Z.to_N k))
  | L [I 4%Z] => Some RReadLen
  | L [I 5%Z] => Some RRelease
  | _ => None
  end.
(* outputs:  (0 bytes) slice  (1 e) error  (2) nil,nil  (3) ok  (4 m bytes e) ReadBinary (e = 0: nil)  (5 n) ReadLen *)
Definition dec_out (v : cval) : option rout :=
  match v with
  | L [I 0%Z; b] => Some (OBytes (vbytes b))
  | L [I 1%Z; I e] => Some (OErr e)
  | L [I 2%Z] => Some ONil
  | L [I 3%Z] => Some OUnit
  | L [I 4%Z; I m; b; I e] => Some (ORead (Z.to_N m) (vbytes b) (if (e =? 0)%Z then None else Some e))
  | L [I 5%Z; I n] => Some (OLen (Z.to_N n))
  | _ => None
  end.

Fixpoint all_some {A} (l : list (option A)) : option (list A) :=
  match l with
  | [] => Some []
  | Some x :: r => match all_some r with Some r' => Some (x :: r') | None => None end
  | None :: _ => None
  end.

(* chunk scripts: an item is a chunk size or (size count) *)
Definition expand_chunks (l : list cval) : list N :=
  concat (map (fun v => match v with
                        | L [I c; I k] => repeat (Z.to_N c) (Z.to_nat k)
                        | I c => [Z.to_N c]
                        | _ => [] end) l).

Definition rout_eqb (a b : rout) : bool :=
  match a, b with
  | OBytes x, OBytes y => beqb x y
  | ONil, ONil => true
  | OErr x, OErr y => (x =? y)%Z
  | OUnit, OUnit => true
  | ORead m x e, ORead m' y e' => (m =? m') && beqb x y && opt_eqb Z.eqb e e'
  | OLen x, OLen y => x =? y
  | _, _ => false
  end.

Definition is_fail (o : rout) : bool :=
  match o with OErr _ | ONil => true | ORead _ _ (Some _) => true | _ => false end.

(* input (kind data final with chunks ops extra_cap)
     kind 0: io.Reader backed   kind 1: bytes backed (cap = len data + extra_cap) *)
Definition check (c : cval) : verdict :=
  match c with
  | L [L [I kind; d; I fin; I wd; L chunks; L ops; I extra]; L outs] =>
    let data := vbytes d in
    match all_some (map dec_op ops), all_some (map dec_out outs) with
    | Some ops', Some outs' =>
      let chs := expand_chunks chunks in
      let st0 :=
        if (kind =? 0)%Z then
          new_reader {| sdata := data; sfinal := fin; swith := vbool (I wd); schunks := chs; spos := 0 |}
        else new_bytes_reader data (len data + Z.to_N extra) in
      let '(_, mouts) := r_run st0 ops' in
      let a := list_eqb rout_eqb mouts outs' in
      let fin' := if (kind =? 0)%Z then fin else e_eof in
      let chs' := if (kind =? 0)%Z then chs else [] in
      let s := cursor_run data fin' chs' {| cpos := 0; crl := 0 |} ops' outs' in
      mk a s (1 + kind + (if existsb is_fail mouts then 2 else 0) + (if bufsz <? len data then 4 else 0)
              + (if existsb (N.eqb 0) chs then 8 else 0))
    | _, _ => bad_case
    end
  | _ => bad_case
  end.
