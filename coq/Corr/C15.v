(* Corr/C15.v — correspondence for the no-copy write path.

   input   (kind hw fill slack payload...)
     kind 0  Base       payload  logid caller addr extra
          1  BaseResp   payload  msg code extra
          2  Binary.WriteStringNocopy   payload v
          3  Binary.WriteBinaryNocopy   payload v
          4  nil Base pointer      5  nil BaseResp pointer
     hw     0: nil NocopyWriter, 1: the repository's reference direct writer (recording)
     fill   the byte the buffer is pre-filled with
     slack  buffer length = advertised length + slack   (may be negative: buffer too small)
     extra  0 = nil map | ((k v) ...) entries (keys distinct); every string is a byte-string
            specification of Corr/Val.v (literal / pattern / repeat / concatenation)
   output  (bl bl2 nocopy copy)
     bl bl2   Base/BaseResp: BLength() called twice; strings: StringLengthNocopy / StringLength
     nocopy   (-1) panicked | (n lin pairs spl order)
                n      value returned by FastWriteNocopy / Write*Nocopy
                lin    the whole buffer afterwards
                pairs  ((v remainCap) ...) as received by WriteDirect, in order
                spl    0: no writer | -1: Bytes() panicked | the spliced stream returned by Bytes()
                order  the map enumeration order this run used, recovered from its bytes (indices
                       into the input entries); () when there is no map; -1 when unrecoverable
     copy     (-1) | (n cp order)    FastWrite / WriteString / WriteBinary on an equal buffer

   agree : the model, run with the recovered orders on a buffer of the same size and fill, gives
           the same lengths, buffer, pairs and splice (or panics where the code panicked).
   spec  : (buffer large enough) both runs succeed; copy = the struct's stream in ITS order;
           no writer: buffer identical to the copying path, no pairs; writer: the pieces handed
           over are exactly the strings >= threshold in stream order, n = BLength - sum of their
           lengths, and the first n bytes with the pieces inserted at |buf| - remainCap ARE the
           copying path's stream; the reference splicer returns that stream. *)
From GV Require Import Lib.Bytes Lib.Res Corr.Val Gen.Consts Model.Binary Spec.Wire Model.Nocopy Spec.FastSpec.
Open Scope Z_scope.

Definition thr : Z := thrift_nocopyWriteThreshold.

(* Byte-string specifications as in Corr/Val.v ([vbytes]); the pattern is produced incrementally
   (same bytes as [Lib.Bytes.pat], without a division per byte: these cases carry 12 KiB strings). *)
Fixpoint fpat (n : nat) (v r : N) : bytes :=
  match n with
  | O => []
  | S n' =>
    v :: (let r' := (r + 1)%N in
          if (r' =? 251)%N then fpat n' (let x := (v + 8)%N in if (256 <=? x)%N then (x - 256)%N else x) 0%N
          else fpat n' (let x := (v + 7)%N in if (256 <=? x)%N then (x - 256)%N else x) r')
  end.
Fixpoint xbytes_fuel (f : nat) (v : cval) : bytes :=
  match f with
  | O => []
  | S f' =>
    match v with
    | B b => b
    | L [I 0%Z; I seed; I n] => fpat (Z.to_nat n) (Z.to_N seed mod 256)%N 0%N
    | L [I 2%Z; I b; I n] => repeat (Z.to_N b) (Z.to_nat n)
    | L (I 1%Z :: parts) => concat (map (xbytes_fuel f') parts)
    | _ => []
    end
  end.
Definition xbytes (v : cval) : bytes := xbytes_fuel 8 v.

Fixpoint dec_all {A} (f : cval -> option A) (l : list cval) : option (list A) :=
  match l with
  | [] => Some []
  | c :: r => match f c, dec_all f r with
              | Some a, Some ar => Some (a :: ar)
              | _, _ => None
              end
  end.

Definition dec_kv (c : cval) : option (bytes * bytes) :=
  match c with
  | L [k; v] => Some (xbytes k, xbytes v)
  | _ => None
  end.

Definition dec_extra (c : cval) : option smap :=
  match c with
  | I 0 => Some None
  | L l => match dec_all dec_kv l with Some kvs => Some (Some kvs) | None => None end
  | _ => None
  end.

Definition dec_idx (c : cval) : option nat :=
  match c with I z => if z <? 0 then None else Some (Z.to_nat z) | _ => None end.
Definition dec_order (c : cval) : option (list nat) :=
  match c with L l => dec_all dec_idx l | _ => None end.

Fixpoint mem_nat (x : nat) (l : list nat) : bool :=
  match l with [] => false | y :: r => (x =? y)%nat || mem_nat x r end.
Fixpoint nodup_nat (l : list nat) : bool :=
  match l with [] => true | x :: r => negb (mem_nat x r) && nodup_nat r end.

(* the entries in the order given by a list of indices, if that list is a permutation of all indices *)
Fixpoint pick {A} (l : list A) (o : list nat) : option (list A) :=
  match o with
  | [] => Some []
  | i :: r => match nth_error l i, pick l r with
              | Some a, Some ar => Some (a :: ar)
              | _, _ => None
              end
  end.
Definition permute {A} (l : list A) (o : list nat) : option (list A) :=
  if (length o =? length l)%nat && nodup_nat o then pick l o else None.

Definition permute_map (m : smap) (o : option (list nat)) : option smap :=
  match m, o with
  | None, Some [] => Some None
  | Some l, Some o' => match permute l o' with Some l' => Some (Some l') | None => None end
  | _, _ => None
  end.

(* ---------- what a case is about, after decoding ---------- *)
Inductive subject : Type :=
| SBase (p : option base)
| SResp (p : option baseresp)
| SStr (v : bytes)
| SBin (v : bytes).

Definition dec_subject (kind : Z) (payload : list cval) : option subject :=
  match kind, payload with
  | 0, [a; b; c; e] =>
      match dec_extra e with
      | Some m => Some (SBase (Some {| b_logid := xbytes a; b_caller := xbytes b; b_addr := xbytes c; b_extra := m |}))
      | None => None
      end
  | 1, [a; I code; e] =>
      match dec_extra e with
      | Some m => if in_signedb 32 code then Some (SResp (Some {| r_msg := xbytes a; r_code := code; r_extra := m |})) else None
      | None => None
      end
  | 2, [v] => Some (SStr (xbytes v))
  | 3, [v] => Some (SBin (xbytes v))
  | 4, [] => Some (SBase None)
  | 5, [] => Some (SResp None)
  | _, _ => None
  end.

(* the same subject with its map enumerated in another order *)
Definition reorder (s : subject) (o : option (list nat)) : option subject :=
  match s with
  | SBase (Some p) =>
      match permute_map (b_extra p) o with
      | Some m => Some (SBase (Some {| b_logid := b_logid p; b_caller := b_caller p; b_addr := b_addr p; b_extra := m |}))
      | None => None
      end
  | SResp (Some p) =>
      match permute_map (r_extra p) o with
      | Some m => Some (SResp (Some {| r_msg := r_msg p; r_code := r_code p; r_extra := m |}))
      | None => None
      end
  | _ => match o with Some [] => Some s | _ => None end
  end.

(* model *)
Definition m_len (s : subject) : N * N :=
  match s with
  | SBase p => (base_blength p, base_blength p)
  | SResp p => (baseresp_blength p, baseresp_blength p)
  | SStr v => (string_length_nocopy v, string_length v)
  | SBin v => (binary_length_nocopy v, binary_length v)
  end.
Definition m_nocopy (s : subject) (buf : bytes) (w : dwriter) : res (bytes * N * dwriter) :=
  match s with
  | SBase p => base_write_nocopy thr p buf w
  | SResp p => baseresp_write_nocopy thr p buf w
  | SStr v => w_string_nocopy thr buf w v
  | SBin v => w_binary_nocopy thr buf w v
  end.
Definition m_copy (s : subject) (buf : bytes) : res (bytes * N) :=
  match s with
  | SBase p => base_write thr p buf
  | SResp p => baseresp_write thr p buf
  | SStr v | SBin v => w_binary buf v          (* WriteString / WriteBinary *)
  end.

(* spec *)
Definition s_stream (s : subject) : bytes :=
  match s with
  | SBase p => base_stream p
  | SResp p => baseresp_stream p
  | SStr v => enc (IString v)
  | SBin v => enc (IBinary v)
  end.
Definition s_strings (s : subject) : list bytes :=
  match s with
  | SBase p => base_strings p
  | SResp p => baseresp_strings p
  | SStr v | SBin v => [v]
  end.

(* ---------- decoding the implementation's observations ---------- *)
Definition dec_pair (c : cval) : option dpair :=
  match c with
  | L [v; I rc] => if rc <? 0 then None else Some (xbytes v, Z.to_N rc)
  | _ => None
  end.

Inductive spl_obs := SplNone | SplPanic | SplBytes (b : bytes).
Definition dec_spl (c : cval) : spl_obs :=
  match c with
  | I 0 => SplNone
  | I _ => SplPanic
  | _ => SplBytes (xbytes c)
  end.

Record nobs := { no_n : Z; no_lin : bytes; no_pairs : list dpair; no_spl : spl_obs; no_order : option (list nat) }.
Record cobs := { co_n : Z; co_buf : bytes; co_order : option (list nat) }.

(* None = malformed; Some None = panicked *)
Definition dec_nobs (c : cval) : option (option nobs) :=
  match c with
  | L [I (-1)] => Some None
  | L [I n; lin; L pairs; spl; ord] =>
      match dec_all dec_pair pairs with
      | Some ps => Some (Some {| no_n := n; no_lin := xbytes lin; no_pairs := ps; no_spl := dec_spl spl; no_order := dec_order ord |})
      | None => None
      end
  | _ => None
  end.
Definition dec_cobs (c : cval) : option (option cobs) :=
  match c with
  | L [I (-1)] => Some None
  | L [I n; cp; ord] => Some (Some {| co_n := n; co_buf := xbytes cp; co_order := dec_order ord |})
  | _ => None
  end.

Definition pair_eqb (a b : dpair) : bool := beqb (fst a) (fst b) && (snd a =? snd b)%N.
Definition log_of (w : dwriter) : list dpair := match w with Some l => l | None => [] end.

Definition spl_eqb (m : res bytes) (o : spl_obs) : bool :=
  match m, o with
  | Ok b, SplBytes b' => beqb b b'
  | Panic _, SplPanic => true
  | _, _ => false
  end.

(* ---------- agreement of the model with one observed run ---------- *)
Definition agree_nocopy (s : subject) (hw : bool) (buf : bytes) (o : option nobs) : bool :=
  match o with
  | None => (* the code panicked *)
      is_crash (m_nocopy s buf (if hw then Some [] else None))
  | Some ob =>
      match reorder s (no_order ob) with
      | None => false
      | Some s1 =>
        match m_nocopy s1 buf (if hw then Some [] else None) with
        | Ok (b', n, w') =>
            (Z.of_N n =? no_n ob) && beqb b' (no_lin ob) && list_eqb pair_eqb (log_of w') (no_pairs ob) &&
            (if hw then spl_eqb (splice b' (log_of w')) (no_spl ob)
             else match no_spl ob with SplNone => true | _ => false end)
        | _ => false
        end
      end
  end.

Definition agree_copy (s : subject) (buf : bytes) (o : option cobs) : bool :=
  match o with
  | None => is_crash (m_copy s buf)
  | Some ob =>
      match reorder s (co_order ob) with
      | None => false
      | Some s2 =>
        match m_copy s2 buf with
        | Ok (b', n) => (Z.of_N n =? co_n ob) && beqb b' (co_buf ob)
        | _ => false
        end
      end
  end.

(* ---------- the property on the observations alone ---------- *)
Definition spec_copy (s : subject) (fill : N) (slack : Z) (bl : Z) (o : option cobs) : bool :=
  match o with
  | None => false
  | Some ob =>
      match reorder s (co_order ob) with
      | None => false
      | Some s2 =>
          (co_n ob =? bl) && beqb (co_buf ob) (s_stream s2 ++ repeat fill (Z.to_nat slack))
      end
  end.

Definition spec_nocopy (s : subject) (hw : bool) (fill : N) (slack : Z) (bl : Z) (o : option nobs) : bool :=
  match o with
  | None => false
  | Some ob =>
      match reorder s (no_order ob) with
      | None => false
      | Some s1 =>
          let st := s_stream s1 in
          (bl =? Z.of_N (len st)) &&
          if hw then
            let big := large thr (s_strings s1) in
            let n := Z.to_N (no_n ob) in
            list_eqb beqb (map fst (no_pairs ob)) big &&
            (no_n ob =? bl - Z.of_N (pieces_len (no_pairs ob))) &&
            beqb (ins (take n (no_lin ob)) 0 (positions (len (no_lin ob)) (no_pairs ob))) st &&
            match no_spl ob with
            | SplBytes b => beqb b (st ++ take (Z.to_N slack) (drop n (no_lin ob)))
            | _ => false
            end
          else
            (no_n ob =? bl) && beqb (no_lin ob) (st ++ repeat fill (Z.to_nat slack)) &&
            match no_pairs ob, no_spl ob with [], SplNone => true | _, _ => false end
      end
  end.

Definition check (c : cval) : verdict :=
  match c with
  | L [L (I kind :: I hwz :: I fillz :: I slack :: payload); L [I bl; I bl2; nc; cp]] =>
    match dec_subject kind payload, dec_nobs nc, dec_cobs cp with
    | Some s, Some nob, Some cob =>
      if (bl <? 0) || (fillz <? 0) || (255 <? fillz) || (bl + slack <? 0) then bad_case else
      let hw := negb (hwz =? 0) in
      let fill := Z.to_N fillz in
      let buf := repeat fill (Z.to_nat (bl + slack)) in
      let '(mbl, mbl2) := m_len s in
      let a := (Z.of_N mbl =? bl) && (Z.of_N mbl2 =? bl2) &&
               agree_nocopy s hw buf nob && agree_copy s buf cob in
      let sp := (bl =? bl2) &&
                if slack <? 0 then true   (* buffer smaller than advertised: outside the property *)
                else spec_nocopy s hw fill slack bl nob && spec_copy s fill slack bl cob in
      let np := match nob with Some ob => Z.of_nat (length (no_pairs ob)) | None => 0 end in
      mk a sp (1 + kind + 8 * (if hw then 1 else 0) + 16 * (Z.min np 7) +
               128 * (match nob with None => 1 | _ => 0 end) + 256 * (match cob with None => 1 | _ => 0 end))
    | _, _, _ => bad_case
    end
  | _ => bad_case
  end.
