(* Corr/C20.v — correspondence for unsafex: the model's (pointer, len, cap) against the
   pointers the implementation really returned, and the spec predicate on the observation. *)
From GV Require Import Lib.Bytes Lib.Heap Corr.Val Model.Unsafex.
Open Scope Z_scope.

(* op 2: (2 workers rounds 0 0 0 variant) -> (0 0 0 ok 1 1)
   input  (op baseLen off len cap nilflag variant)   variant 0: the compiled build variant, 1: the
          !go1.21 file (generated copy); Model/Unsafex.v is the model of both

   output (ptrOff len cap contentEqual appendKeptOriginal appendContentOK) *)
Definition check (c : cval) : verdict :=
  match c with
  | L [L [I op; I bl; I off; I ln; I cp; I nilf; I vr]; L [I po; I rl; I rc; I ceq; I kept; I appok]] =>
    if negb ((vr =? 0) || (vr =? 1)) then bad_case else
    if op =? 2 then
      (* conversions running concurrently in bl goroutines, off rounds each, self-checked by the harness:
         every result is the view of its own argument (the model is a pure function of the argument) *)
      mk ((po =? 0) && (rl =? 0) && (rc =? 0)) (negb (ceq =? 0)) (100 + vr)
    else
    let isnil := negb (nilf =? 0) in
    let p : option ptr := if isnil then None else Some (O, Z.to_N off) in
    let '(mptr, mlen, mcap) :=
      if op =? 0 then
        let s := binary_to_string {| sptr := p; slen := Z.to_N ln; scap := Z.to_N cp |} in
        (tptr s, tlen s, tlen s)
      else
        let b := string_to_binary {| tptr := p; tlen := Z.to_N ln |} in
        (sptr b, slen b, scap b) in
    let mpo := match mptr with
               | Some (_, o) => if (mlen =? 0)%N then -1 else Z.of_N o
               | None => -1 end in
    let a := (mpo =? po) && (Z.of_N mlen =? rl) && (Z.of_N mcap =? rc) in
    (* spec: content and length preserved, memory shared (same address when non-empty),
       capacity = length for StringToBinary, append never writes the string *)
    let s := negb (ceq =? 0) && (rl =? (if isnil then 0 else ln))
             && (if (0 <? rl) then po =? off else true)
             && (if op =? 0 then true else (rc =? rl) && negb (kept =? 0) && negb (appok =? 0)) in
    mk a s (1 + op * 4 + (if isnil then 2 else 0) + (if ln =? 0 then 0 else 1) + 8 * vr)
  | _ => bad_case
  end.
