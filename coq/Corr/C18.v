(* Corr/C18.v — correspondence for protocol/thrift/exception.go.

   A case builds a small population of error objects with the real constructors, applies one
   helper to one of them and then observes EVERY object (result included): dynamic kind,
   TypeId(), Msg(), Error(), which object errors.Unwrap returns, and the full matrices
   [a == b] and [errors.Is(a, b)] over all pairs.

   input   (hint nodes op)
     node  (0 s)            errors.New(s)
           (1 s j)          fmt.Errorf("%s%w", s, obj[j])
           (2 t m)          NewTransportException(t, m)
           (3 t m j ov)     j = -1: NewProtocolException(t, m)
                            j >= 0: NewProtocolExceptionWithErr(obj[j]) (obj[j] not itself a protocol
                                    exception); ov <> 0: then t, m overwritten through FastRead
           (4 t m)          NewApplicationException(t, m)
           (5 bv t s)       foreign type with TypeId() = t, Error() = s; bv = 1: struct by value, else a pointer
                            (bv 2 / 3: a pointer to a struct that EMBEDS a library application / transport
                            exception and overrides TypeId, Error, Msg)
           (6 s)            an error of a slice type (not comparable) with Error() = s
     op    (0 p i)          PrependError(p, obj[i])
           (1 i)            NewProtocolExceptionWithErr(obj[i])
           (2)              nothing
           (3 p)            PrependError(p, nil)                (Go panics)
           (4)              NewProtocolExceptionWithErr(nil)    (Go panics)
     hint  77 when the op prepends an empty prefix to a foreign exception whose text is empty
           (the one input class on which the code departs from the property text), else 0;
           checked here, a wrong hint is a bad case.
   output  (obs same is)    obs  : one (kind tid hasTid msg text unwrapIdx) per object, the op's result last
                            same : rows of 0/1,  is : rows of 0/1
           (-1)             the helper panicked
   kind: 0 errorString 1 wrapError 2 Transport 3 Protocol 4 Application 5 foreign pointer 6 foreign value
         7 slice-typed error ([a == b] is reported 0 when Go's comparison panics) *)
From GV Require Import Lib.Bytes Lib.Res Corr.Val Gen.Consts Model.Errors.
Open Scope Z_scope.

Fixpoint cval_eqb (a b : cval) : bool :=
  match a, b with
  | I x, I y => x =? y
  | B x, B y => beqb x y
  | L x, L y =>
      (fix go (x y : list cval) : bool :=
         match x, y with
         | [], [] => true
         | a' :: x', b' :: y' => cval_eqb a' b' && go x' y'
         | _, _ => false
         end) x y
  | _, _ => false
  end.

Definition nth_obj (objs : list err) (j : Z) : option err :=
  if j <? 0 then None else nth_error objs (Z.to_nat j).

(* effect of FastRead on a protocol exception: t and m replaced, err kept *)
Definition set_tm (t : Z) (m : bytes) (e : err) : err :=
  match e with
  | Protocol i _ _ c => Protocol i t m c
  | _ => e
  end.

Definition mk_node (objs : list err) (d : cval) : option err :=
  let id := len objs in
  match d with
  | L [I 0; B s] => Some (Plain id s)
  | L [I 1; B s; I j] =>
      match nth_obj objs j with Some c => Some (Wrapped id s c) | None => None end
  | L [I 2; I t; B m] => if in_signedb 32 t then Some (new_transport id t m) else None
  | L [I 3; I t; B m; I j; I ov] =>
      if negb (in_signedb 32 t) then None
      else if j =? -1 then Some (new_protocol id t m)
      else match nth_obj objs j with
           | Some (Protocol _ _ _ _) => None
           | Some c => let w := wrap_protocol id c in
                       Some (if ov =? 0 then w else set_tm t m w)
           | None => None
           end
  | L [I 4; I t; B m] => if in_signedb 32 t then Some (new_app id t m) else None
  | L [I 5; I bv; I t; B s] => if in_signedb 32 t then Some (Foreign (bv =? 1) id t s) else None
  | L [I 6; B s] => Some (Opaque id s)
  | _ => None
  end.

Fixpoint mk_nodes (objs : list err) (ds : list cval) : option (list err) :=
  match ds with
  | [] => Some objs
  | d :: r => match mk_node objs d with
              | Some e => mk_nodes (objs ++ [e]) r
              | None => None
              end
  end.

(* ---------- the model's observation ---------- *)
Definition kind_code (e : err) : Z :=
  match e with
  | Plain _ _ => 0 | Wrapped _ _ _ => 1 | Transport _ _ _ => 2 | Protocol _ _ _ _ => 3
  | App _ _ _ => 4 | Foreign false _ _ _ => 5 | Foreign true _ _ _ => 6 | Opaque _ _ => 7
  end.

Fixpoint find_idx (f : err -> bool) (l : list err) (k : Z) : Z :=
  match l with
  | [] => -2
  | e :: r => if f e then k else find_idx f r (k + 1)
  end.

Definition bz (b : bool) : cval := I (if b then 1 else 0).

(* object identity as the harness observes it: [==] where Go defines it, the address of the backing
   array for the slice-typed error *)
Definition ident (a b : err) : bool :=
  match a, b with
  | Opaque i _, Opaque j _ => (i =? j)%N
  | _, _ => same a b
  end.

Definition observe1 (all : list err) (e : err) : cval :=
  L [I (kind_code e);
     I (match type_id e with Some t => t | None => 0 end);
     bz (match type_id e with Some _ => true | None => false end);
     B (match msg_of e with Some m => m | None => [] end);
     B (text e);
     I (match unwrap e with None => -1 | Some u => find_idx (fun o => ident o u) all 0 end)].

Definition observe (all : list err) : cval :=
  L [L (map (observe1 all) all);
     L (map (fun a => L (map (fun b => bz (same a b)) all)) all);
     L (map (fun a => L (map (fun b => bz (is a b)) all)) all)].

(* ---------- the property, evaluated on the implementation's observation only ---------- *)
Record ob := { okind : Z; otid : option Z; omsg : bytes; otext : bytes; ounw : Z }.

Definition dec_ob (c : cval) : option ob :=
  match c with
  | L [I k; I t; I h; B m; B x; I u] =>
      Some {| okind := k; otid := if h =? 0 then None else Some t; omsg := m; otext := x; ounw := u |}
  | _ => None
  end.

Fixpoint dec_all {A} (f : cval -> option A) (l : list cval) : option (list A) :=
  match l with
  | [] => Some []
  | c :: r => match f c, dec_all f r with
              | Some a, Some ar => Some (a :: ar)
              | _, _ => None
              end
  end.

Definition dec_row (c : cval) : option (list bool) :=
  match c with
  | L l => dec_all (fun x => match x with I 0 => Some false | I 1 => Some true | _ => None end) l
  | _ => None
  end.

Definition square (n : nat) (m : list (list bool)) : bool :=
  (length m =? n)%nat && forallb (fun r => (length r =? n)%nat) m.

(* only used after [square] has been checked and with indices below the dimension *)
Definition at_ (m : list (list bool)) (i j : nat) : bool := nth j (nth i m []) false.

Definition tid_eqb (a b : option Z) : bool := opt_eqb Z.eqb a b.

Definition kind_after_prepend (k : Z) : Z :=
  if (k =? 0) || (k =? 1) then 0          (* plain stays plain *)
  else if k =? 2 then 2
  else if k =? 3 then 3
  else if k =? 4 then 4
  else if (k =? 5) || (k =? 6) then 4     (* foreign exception with a type id becomes an application exception *)
  else if k =? 7 then 0                   (* any other error: plain *)
  else -1.

Definition idxs (n : nat) : list nat := seq 0 n.

(* is_spec on every protocol exception p and every target j *)
Definition spec_is (obs : list ob) (sm im : list (list bool)) : bool :=
  let n := length obs in
  forallb (fun p =>
    match nth_error obs p with
    | Some op =>
      if okind op =? 3 then
        forallb (fun j =>
          match nth_error obs j with
          | Some oj =>
            let viaCause :=
              if ounw op =? -1 then Some false
              else if (0 <=? ounw op) && (ounw op <? Z.of_nat n) then Some (at_ im (Z.to_nat (ounw op)) j)
              else None in
            match viaCause with
            | Some vc =>
              Bool.eqb (at_ im p j)
                       (at_ sm p j || (tid_eqb (otid oj) (otid op) && beqb (otext oj) (omsg op)) || vc)
            | None => false
            end
          | None => false
          end) (idxs n)
      else true
    | None => false
    end) (idxs n).

Definition spec_prepend (obs : list ob) (p : bytes) (i : nat) : bool :=
  match nth_error obs i, last (map Some obs) None with
  | Some oi, Some orr =>
      (okind orr =? kind_after_prepend (okind oi)) && tid_eqb (otid orr) (otid oi)
      && beqb (otext orr) (p ++ otext oi)
  | _, _ => false
  end.

Definition spec_wrap (obs : list ob) (sm im : list (list bool)) (i : nat) : bool :=
  let r := (length obs - 1)%nat in
  match nth_error obs i, nth_error obs r with
  | Some oi, Some orr =>
      if okind oi =? 3 then at_ sm r i                       (* identity on protocol exceptions *)
      else if okind oi =? 7 then
           (* a non-comparable cause: errors.Unwrap returns that very object; errors.Is never matches it
              (and must not panic: a panic is reported as 2, which no row decodes) *)
           (okind orr =? 3) && (ounw orr =? Z.of_nat i) && negb (at_ im r i)
           && forallb (fun j => implb (at_ im i j) (at_ im r j)) (idxs (length obs))
      else (okind orr =? 3)
           (* errors.Unwrap(r) == obj[i]; for by-value foreign exceptions == is structural, so the
              first equal object may have a smaller index *)
           && (0 <=? ounw orr) && at_ sm (Z.to_nat (ounw orr)) i
           && at_ im r i
           && forallb (fun j => implb (at_ im i j) (at_ im r j)) (idxs (length obs))
  | _, _ => false
  end.

Definition is_panic_out (o : cval) : bool :=
  match o with L [I (-1)] => true | _ => false end.

Definition check (c : cval) : verdict :=
  match c with
  | L [L [I hint; L nodes; L opd]; out] =>
    match mk_nodes [] nodes with
    | None => bad_case
    | Some objs =>
      let n := length objs in
      let nid := len objs in
      (* model: result object (if any) appended last *)
      let mres : option (res (list err) * Z * Z) :=     (* outcome, opcode, target kind *)
        match opd with
        | [I 0; B p; I i] =>
            match nth_obj objs i with
            | Some e => Some (Ok (objs ++ [prepend nid p e]), 0, kind_code e)
            | None => None
            end
        | [I 1; I i] =>
            match nth_obj objs i with
            | Some e => Some (Ok (objs ++ [wrap_protocol nid e]), 1, kind_code e)
            | None => None
            end
        | [I 2] => Some (Ok objs, 2, 0)
        | [I 3; B p] => Some (do r <- prepend_o nid p None; Ok (objs ++ [r]), 3, 0)
        | [I 4] => Some (do r <- wrap_protocol_o nid None; Ok (objs ++ [r]), 4, 0)
        | _ => None
        end in
      let want_hint :=
        match opd with
        | [I 0; B []; I i] =>
            match nth_obj objs i with
            | Some (Foreign _ _ _ []) => 77
            | _ => 0
            end
        | _ => 0
        end in
      match mres with
      | None => bad_case
      | Some (mr, opc, tk) =>
        if negb (hint =? want_hint) then bad_case else
        let tg := 1 + opc * 10 + tk in
        match mr with
        | Ok all =>
          let a := cval_eqb (observe all) out in
          let s :=
            match out with
            | L [L ol; L sl; L il] =>
              match dec_all dec_ob ol, dec_all dec_row sl, dec_all dec_row il with
              | Some obs, Some sm, Some im =>
                let N := length obs in
                square N sm && square N im
                && Nat.eqb N (if opc =? 2 then n else S n)
                && spec_is obs sm im
                && match opd with
                   | [I 0; B p; I i] => spec_prepend obs p (Z.to_nat i)
                   | [I 1; I i] => spec_wrap obs sm im (Z.to_nat i)
                   | _ => true
                   end
              | _, _, _ => false
              end
            | _ => false
            end in
          mk a s tg
        | Panic _ =>
          (* nil is not an error value: the property is silent, the model predicts the panic *)
          mk (is_panic_out out) true tg
        | _ => bad_case
        end
      end
    end
  | _ => bad_case
  end.
