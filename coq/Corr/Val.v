(* Corr/Val.v — the universal case value exchanged between the Go harness and the
   model.  One case per line in the harness output; the generic OCaml driver parses the line
   into a [cval] and calls the property's [check]; the in-Coq sample prints the same [cval] as
   a Coq term.  Every property-specific decoding happens here in Gallina, so the driver
   contains no per-property code. *)
From GV Require Import Lib.Bytes.
Open Scope N_scope.

Inductive cval : Type :=
| I (z : Z)            (* any integer *)
| B (b : bytes)        (* literal bytes *)
| L (l : list cval).    (* tuple / list / tagged record: L (I tag :: fields) *)

(* Result of checking one case:
   agree  — the model's projected observables equal the implementation's
   specok — the implementation's observables satisfy the executable spec predicate
   tag    — model-side class of the case (outcome x branch), for coverage statistics; 0 = trivial *)
Record verdict := { agree : bool; specok : bool; tag : Z }.
Definition bad_case : verdict := {| agree := false; specok := false; tag := (-1)%Z |}.
Definition mk (a s : bool) (t : Z) : verdict := {| agree := a; specok := s; tag := t |}.

(* Byte-string specifications: literal, pattern or concatenation.
     B b                      literal
     L [I 0; I seed; I n]     pat seed n   (position-dependent content, same formula in Go)
     L (I 1 :: parts)         concatenation
     L [I 2; I byte; I n]     n copies of byte *)
Fixpoint vbytes_fuel (f : nat) (v : cval) : bytes :=
  match f with
  | O => []
  | S f' =>
    match v with
    | B b => b
    | L [I 0%Z; I seed; I n] => pat (Z.to_N seed) (Z.to_N n)
    | L [I 2%Z; I b; I n] => repeat (Z.to_N b) (Z.to_nat n)
    | L (I 1%Z :: parts) => concat (map (vbytes_fuel f') parts)
    | _ => []
    end
  end.
Definition vbytes (v : cval) : bytes := vbytes_fuel 8 v.

Definition vint (v : cval) : Z := match v with I z => z | _ => 0%Z end.
Definition vnat (v : cval) : nat := Z.to_nat (vint v).
Definition vN (v : cval) : N := Z.to_N (vint v).
Definition vbool (v : cval) : bool := negb (vint v =? 0)%Z.
Definition vlist (v : cval) : list cval := match v with L l => l | _ => [] end.

Definition eqbZ := Z.eqb.
Fixpoint list_eqb {A} (e : A -> A -> bool) (a b : list A) : bool :=
  match a, b with
  | [], [] => true
  | x :: a', y :: b' => e x y && list_eqb e a' b'
  | _, _ => false
  end.

Definition opt_eqb {A} (e : A -> A -> bool) (a b : option A) : bool :=
  match a, b with
  | None, None => true
  | Some x, Some y => e x y
  | _, _ => false
  end.
