(* Corr/C10.v — TTHeader Decode on hostile frames against the real Decode / DecodeFromBytes.

   input  (frame chunk)      frame: a Val.vbytes specification of the whole input
   output (dec sameFromBytes sameStream)
     dec   Decode over a BytesReader holding exactly the input, with ReadLen (TTHeaderC.obs);
           a panic is caught inside Run and reported as status 2
     sameFromBytes / sameStream   DecodeFromBytes / Decode over a DefaultReader fed in chunks of
           [chunk] bytes gave the same observation
   agree : the model's decode equals the observation (status, error class, every field, ReadLen)
   specok: the observation is what Spec.FrameLayout demands (spec_decode: magic, declared size
           as a product, protocol id, transform count, section grammar, interp), no panic,
           ReadLen <= min |input| (14 + declared) *)
From GV Require Import Lib.Bytes Lib.Res Corr.Val Model.TTHeader Spec.FrameLayout Corr.TTHeaderC.
Open Scope N_scope.

Definition check (c : cval) : verdict :=
  match c with
  | L [L [fr; I chunk]; L [dec; I sameFB; I sameST]] =>
    let b := vbytes fr in
    match vobs dec with
    | Some o =>
      let m := decode b in
      let both := negb (sameFB =? 0)%Z && negb (sameST =? 0)%Z in
      mk (dec_agree m o && both) (dec_spec b o && both) (dec_tag m)
    | None => bad_case
    end
  | _ => bad_case
  end.
