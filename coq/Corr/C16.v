(* Corr/C16.v — correspondence for the memory side of ReadBinary / ReadString.

   A case is a script of decodes executed under one SetSpanCache setting by one reader; the
   harness keeps every input buffer and every result alive, observes where each result was
   placed, and afterwards mutates the inputs, writes through the results and appends to them.

   input   (enable reader ops src)
     enable  0/1                      SetSpanCache(enable) for the case
     reader  0 thrift.Binary (buffer)   1 thrift.BufferReader over bufiox.DefaultReader (stream)
     op      (kind from off inb cont)
               kind 0 ReadBinary  1 ReadString
               from -1: the input is a new caller buffer holding the bytes [inb] (byte spec)
               from j >= 0 (buffer reader only): the input is result_j[off:]  (result j a []byte)
               cont <> 0: every span lock is held by "another goroutine" during the call
               stream reader: the stream is the concatenation of all [inb]
             (9 class read)           fixture: set spans[class].read := read before the next op
     src     (final with chunks)      stream only: Model/BufReader.v source; final 20 EOF / 21 injected
   output  (pre outs post glob)
     pre     (reads caps sizes)       state of the span classes before the case (reflection hook)
     out     (0 inspan class ord off len cap l bits moved)    success
                inspan 1: the result lies in the current block of span class [class]; [ord] counts
                          the blocks that class has used since the case began; off = ptr - block base
                inspan 0: class = ord = off = -1
                inspan 2: a one-byte string inside the Go runtime's read-only table of single-byte
                          strings (string(b) does not allocate then); off = ptr - table base
                l      bytes consumed (buffer reader), -1 for the stream reader
                bits   1 content right after the decode and at the end of the decodes
                       2 content unchanged after every caller input buffer was overwritten
                       4 writing through this result changed no other result and no input
                       8 appending to this result changed no result (itself included when it moved)
                       16 the appended slice holds result ++ suffix
                moved  append returned a different pointer (1/0); -1 for strings
             (1 typeid [twin])        protocol exception without a cause; buffer reader: twin = 1 when the same
                                      input under the OPPOSITE SetSpanCache setting returned the same
                                      (no value, reported length, error value)
             (2 code)                 stream: error of the underlying reader, wrapped (20 EOF, 21 injected, 22 no progress)
             (9)                      fixture op
     post    (reads)
     glob    (disjoint)               1: the address ranges [ptr, ptr+cap) of all results are pairwise
                                      disjoint and disjoint from every caller input buffer *)
From GV Require Import Lib.Bytes Lib.Res Lib.Heap Corr.Val Gen.Consts Model.Binary Model.BufReader Model.Span Spec.Indep.
Open Scope Z_scope.

(* type ids of the three errors these readers return, evaluated from the regenerated
   Gen/Consts.v when this file is compiled (keeps Coq strings out of the extracted code) *)
Definition etype_tab : list (Z * Z) :=
  Eval vm_compute in map (fun e => (e, Binary.etype e)) [e_read_bin; e_read_str; e_neg_size].
Definition etype (e : Z) : Z :=
  match find (fun kv => fst kv =? e) etype_tab with Some kv => snd kv | None => -1 end.

Definition zlist (v : cval) : list Z := map vint (vlist v).

(* model-side record of a result: placement and value *)
Record mres := { m_ptr : option ptr; m_len : N; m_cap : N; m_val : bytes; m_isbin : bool }.

Record mstate := {
  m_c : cache; m_nb : nat; m_wraps : list Z; m_results : list (option mres);
  m_rd : rstate; m_tag : Z
}.

Inductive mout :=
| MOk (inspan : Z) (cls ord off ln cp l : Z) (isbin : bool)
| MErrP (tid : Z)
| MErrS (code : Z)
| MPreset
| MBad.

Fixpoint find_blk (c : cache) (blk : nat) (k : Z) : option Z :=
  match c with
  | [] => None
  | sp :: r => if Nat.eqb (s_blk sp) blk then Some k else find_blk r blk (k + 1)
  end.

Fixpoint upd_wraps (c c' : cache) (w : list Z) : list Z :=
  match c, c', w with
  | sp :: c1, sp' :: c1', x :: w1 =>
      (if Nat.eqb (s_blk sp) (s_blk sp') then x else x + 1) :: upd_wraps c1 c1' w1
  | _, _, _ => w
  end.

Definition wrapped (c c' : cache) : bool :=
  negb (list_eqb Nat.eqb (map s_blk c) (map s_blk c')).

Definition in_class (c : cache) (n : Z) : bool :=
  let k := span_class n - span_minSpanClass in (0 <=? k) && (k <? Z.of_nat (length c)).

Definition bor (a b : Z) : Z := Z.lor a b.

(* heap layout of a case: block 0 is the runtime's static table, blocks 1.. the span blocks *)
Definition sb : nat := 0.

(* placement of a result, as the harness reports it *)
Definition place (c' : cache) (w' : list Z) (p : option ptr) (ln cp : N) (l : Z) (isbin : bool) : mout :=
  match p with
  | Some (blk, off) =>
    if Nat.eqb blk sb then MOk 2 (-1) (-1) (Z.of_N off) (Z.of_N ln) (Z.of_N cp) l isbin else
    match find_blk c' blk 0 with
    | Some k => MOk 1 k (nth (Z.to_nat k) w' 0) (Z.of_N off) (Z.of_N ln) (Z.of_N cp) l isbin
    | None => MOk 0 (-1) (-1) (-1) (Z.of_N ln) (Z.of_N cp) l isbin
    end
  | None => MOk 0 (-1) (-1) (-1) (Z.of_N ln) (Z.of_N cp) l isbin
  end.

Definition obs_cap (iout : cval) : N :=
  match iout with
  | L (I 0 :: _ :: _ :: _ :: _ :: _ :: I cp :: _) => Z.to_N cp
  | _ => 0%N
  end.

Definition obs_static (iout : cval) : bool :=
  match iout with L (I 0 :: I 2 :: _) => true | _ => false end.

Definition push (st : mstate) (c : cache) (nb : nat) (w : list Z) (r : option mres) (rd : rstate) (t : Z) : mstate :=
  {| m_c := c; m_nb := nb; m_wraps := w; m_results := m_results st ++ [r]; m_rd := rd; m_tag := bor (m_tag st) t |}.

Definition next_nb (nb : nat) (a : option N) : nat := match a with Some _ => S nb | None => nb end.

Definition tag_of (enable : bool) (c c' : cache) (o : mout) (n : Z) (cont : bool) : Z :=
  if negb enable then 0 else
  match o with
  | MOk 1 k _ off ln _ _ _ =>
      bor (if wrapped c c' then 8 else 4)
          (if off + ln =? Z.of_N (match nth_error c' (Z.to_nat k) with Some sp => s_size sp | None => 0%N end) then 256 else 0)
  | MOk 0 _ _ _ _ _ _ _ => if in_class c n then (if cont then 32 else 512) else 16
  | _ => 0
  end.

(* one decode by the buffer reader *)
Definition step_buf (enable : bool) (st : mstate) (op iout : cval) : mstate * mout :=
  match op with
  | L [I 9; I cls; I rd] =>
    if (0 <=? cls) && (cls <? Z.of_nat (length (m_c st))) && (0 <=? rd) then
      match nth_error (m_c st) (Z.to_nat cls) with
      | Some sp =>
        ({| m_c := set_nth (Z.to_nat cls) (set_span sp (Z.to_N rd) (s_blk sp) (s_cap sp)) (m_c st);
            m_nb := m_nb st; m_wraps := m_wraps st; m_results := m_results st ++ [None];
            m_rd := m_rd st; m_tag := bor (m_tag st) 1024 |}, MPreset)
      | None => (st, MBad)
      end
    else (st, MBad)
  | L [I kind; I from; I off; inb; I cont] =>
    let buf : option bytes :=
      if from <? 0 then Some (vbytes inb)
      else match nth_error (m_results st) (Z.to_nat from) with
           | Some (Some r) =>
             if m_isbin r && (0 <=? off) && (off <=? Z.of_N (m_len r)) then Some (drop (Z.to_N off) (m_val r)) else None
           | _ => None
           end in
    let ct := negb (cont =? 0) in
    let nest := if from <? 0 then 0 else 128 in
    match buf with
    | None => (st, MBad)
    | Some buf =>
      if kind =? 0 then
        match rb_plan enable (m_c st) (m_nb st) buf ct (obs_cap iout) with
        | Ok (c', b, a, v, l) =>
          let w' := upd_wraps (m_c st) c' (m_wraps st) in
          let o := place c' w' (sptr b) (slen b) (scap b) (Z.of_N l) true in
          (push st c' (next_nb (m_nb st) a) w'
                (Some {| m_ptr := sptr b; m_len := slen b; m_cap := scap b; m_val := v; m_isbin := true |})
                (m_rd st) (bor nest (tag_of enable (m_c st) c' o (Z.of_N (len v)) ct)), o)
        | Err e => (push st (m_c st) (m_nb st) (m_wraps st) None (m_rd st) 64, MErrP (etype e))
        | _ => (st, MBad)
        end
      else if kind =? 1 then
        match rs_plan enable (m_c st) sb (m_nb st) buf ct (obs_static iout) with
        | Ok (c', s, a, _, v, l) =>
          let w' := upd_wraps (m_c st) c' (m_wraps st) in
          let o := place c' w' (tptr s) (tlen s) (tlen s) (Z.of_N l) false in
          (push st c' (next_nb (m_nb st) a) w'
                (Some {| m_ptr := tptr s; m_len := tlen s; m_cap := tlen s; m_val := v; m_isbin := false |})
                (m_rd st) (bor nest (tag_of enable (m_c st) c' o (Z.of_N (len v)) ct)), o)
        | Err e => (push st (m_c st) (m_nb st) (m_wraps st) None (m_rd st) 64, MErrP (etype e))
        | _ => (st, MBad)
        end
      else (st, MBad)
    end
  | _ => (st, MBad)
  end.

(* one decode by the stream reader *)
Definition step_stream (st : mstate) (op : cval) : mstate * mout :=
  match op with
  | L [I kind; I _; I _; _; I _] =>
    if (kind =? 0) || (kind =? 1) then
      let '(rd', r) := sr_plan_binary (m_rd st) (m_nb st) in
      match r with
      | Ok (b, a, bs, None) =>
        (push st (m_c st) (S (m_nb st)) (m_wraps st)
              (Some {| m_ptr := sptr b; m_len := slen b; m_cap := scap b; m_val := bs; m_isbin := kind =? 0 |})
              rd' 2048,
         MOk 0 (-1) (-1) (-1) (Z.of_N (slen b)) (Z.of_N (slen b)) (-1) (kind =? 0))
      | Ok (b, a, bs, Some e) => (push st (m_c st) (S (m_nb st)) (m_wraps st) None rd' 64, MErrS e)
      | Err e =>
        if e =? e_neg_size then (push st (m_c st) (m_nb st) (m_wraps st) None rd' 64, MErrP (etype e))
        else (push st (m_c st) (m_nb st) (m_wraps st) None rd' 64, MErrS e)
      | _ => (st, MBad)
      end
    else (st, MBad)
  | _ => (st, MBad)
  end.

(* model prediction against the implementation's report of one op *)
Definition out_agree (m : mout) (i : cval) : bool :=
  match m, i with
  | MOk insp cls ord off ln cp l isbin,
    L [I 0; I insp'; I cls'; I ord'; I off'; I ln'; I cp'; I l'; I _; I moved'] =>
      (insp =? insp') && (cls =? cls') && (ord =? ord') && (off =? off') &&
      (ln =? ln') && (cp =? cp') && (l =? l') &&
      (moved' =? (if isbin then (if cp <? ln + 2 then 1 else 0) else -1))
  | MErrP t, L [I 1; I t'] => t =? t'
  | MErrP t, L [I 1; I t'; I _] => t =? t'
  | MErrS e, L [I 2; I e'] => e =? e'
  | MPreset, L [I 9] => true
  | _, _ => false
  end.

Fixpoint run_ops (stream enable : bool) (st : mstate) (ops outs : list cval) : mstate * bool :=
  match ops, outs with
  | [], [] => (st, true)
  | op :: ops', io :: outs' =>
    let '(st', m) := if stream then step_stream st op else step_buf enable st op io in
    let '(st'', ok) := run_ops stream enable st' ops' outs' in
    (st'', out_agree m io && ok)
  | _, _ => (st, false)
  end.

Fixpoint set_reads (c : cache) (reads : list Z) : cache :=
  match c, reads with
  | sp :: c', r :: reads' => set_span sp (Z.to_N r) (s_blk sp) (s_cap sp) :: set_reads c' reads'
  | _, _ => c
  end.

Definition stream_data (ops : list cval) : bytes :=
  concat (map (fun op => match op with L [_; _; _; inb; _] => vbytes inb | _ => [] end) ops).

Definition mk_source (ops : list cval) (src : cval) : source :=
  match src with
  | L [I final; I wth; L chunks] =>
    {| sdata := stream_data ops; sfinal := final; swith := negb (wth =? 0);
       schunks := map vN chunks; spos := 0%N |}
  | _ => fake_source
  end.

(* ---------- spec predicate on the implementation's report (Spec/Indep.v) ---------- *)
Definition out_spec (sizes : list Z) (o : cval) : bool :=
  match o with
  | L [I 0; I insp; I cls; I ord; I off; I ln; I cp; I l; I bits; I moved] =>
    (bits =? 31) && (0 <=? ln) && (ln <=? cp) &&
    (if insp =? 0 then true
     else if insp =? 2 then (ln =? 1) && (cp =? 1) && (moved =? -1) && (0 <=? off) && (off <? 2048) && (off mod 8 =? 0)
     else (cp =? ln) && (0 <=? cls) && (0 <=? ord) && (0 <=? off) &&
          match nth_error sizes (Z.to_nat cls) with Some sz => off + cp <=? sz | None => false end)
  | L [I 1; I _] | L [I 2; I _] | L [I 9] => true
  | L [I 1; I _; I twin] => twin =? 1        (* identical under both allocator settings *)
  | _ => false
  end.

Definition out_region (o : cval) : list region :=
  match o with
  | L [I 0; I insp; I cls; I ord; I off; I ln; I cp; I l; I bits; I moved] =>
    if negb (insp =? 1) || (cls <? 0) || (ord <? 0) || (off <? 0) then []
    else [{| r_blk := Z.to_nat (cls + 64 * ord); r_off := Z.to_N off; r_ext := Z.to_N cp |}]
  | _ => []
  end.

Definition spec_case (pre : cval) (outs : list cval) (glob : cval) : bool :=
  match pre, glob with
  | L [L reads; L caps; L sizes], L [I dj] =>
    let sz := map vint sizes in
    forallb (out_spec sz) outs &&
    pairwise_disjointb (concat (map out_region outs)) &&
    (dj =? 1) &&
    list_eqb Z.eqb (map vint caps) sz &&
    list_eqb (fun r s => (0 <=? r) && (r <=? s)) (map vint reads) sz
  | _, _ => false
  end.

Definition check (c : cval) : verdict :=
  match c with
  | L [L [I enable; I reader; L ops; src]; L [L [L reads; L caps; L sizes]; L outs; L [L reads']; glob]] =>
    let en := negb (enable =? 0) in
    let stream := negb (reader =? 0) in
    match new_cache 1 thrift_span_size with
    | Ok (c0, allocs) =>
      let c1 := set_reads c0 (map vint reads) in
      let st0 := {| m_c := c1; m_nb := S (length c0); m_wraps := map (fun _ => 0) c0; m_results := [];
                    m_rd := new_reader (mk_source ops src); m_tag := 0 |} in
      let '(st, ok) := run_ops stream en st0 ops outs in
      let pre_ok :=
        (Nat.eqb (length reads) (length c0)) &&
        list_eqb Z.eqb (map vint caps) (map (fun sp => Z.of_N (s_cap sp)) c0) &&
        list_eqb Z.eqb (map vint sizes) (map (fun sp => Z.of_N (s_size sp)) c0) in
      let post_ok := list_eqb Z.eqb (map vint reads') (map (fun sp => Z.of_N (s_read sp)) (m_c st)) in
      mk (ok && pre_ok && post_ok)
         (spec_case (L [L reads; L caps; L sizes]) outs glob)
         ((if en then 1 else 0) + (if stream then 2 else 0) + m_tag st)
    | _ => bad_case
    end
  | _ => bad_case
  end.
