(* Corr/C02.v — correspondence for C02: the five skippers on  enc v1 ++ ... ++ enc vk ++ trailing.

   input   ((tree ...) trailing (final with (chunk ...)) opts)
             tree       (2 b) (3 b) (4 bits) (6 u) (8 u) (10 u)        scalars, unsigned patterns
                        (11 bytespec)                                   string
                        (12 (field ...))     field = (ft id tree)       struct
                        (13 kt vt (pair ...)) pair = (ktree vtree)      map, raw type bytes
                        (14 et (tree ...))  (15 et (tree ...))          set / list, raw type byte
                        inside any member list  (99 k member)  stands for k copies of member
             trailing   bytespec (Corr/Val.v vbytes)
             final      20 = io.EOF, 21 = injected error; with = 1: delivered together with the last bytes
             chunk      c | (c k)  = k times c      (fragmentation script, Model/BufReader.v source)
             opts       bit 0: Release/Recycle and re-New the decoder between the values
                        bit 1: ReaderSkipDecoder is a fresh zero value (empty buffer), not from the pool
   output  ((xenc ...)                         the HARNESS's own encoding of every tree
            ((err n) ...)                      Binary.Skip on data[off:]           err 0 = nil
            ((err readlen) ...) follow         BufferReader.Skip, bufiox ReadLen after each call
            ((err ret readlen) ...) follow     SkipDecoder.Next        ret = 1: returned bytes = harness encoding, else (0 xbytes)
            ((err ret) ...) follow             BytesSkipDecoder.Next
            ((err ret srcpos) ...) follow)     ReaderSkipDecoder.Next, position of the io.Reader after each call
           a list stops after the first error; follow = 1: the bytes read next through the same
           reader/decoder are the bytes that follow the skipped values (a prefix of trailing).

   specok: the trees are well typed with height <= 63, the harness encoding equals [enc], the
   grammar parses every value at its offset with exactly that extent and height, and every
   skipper consumed exactly |enc v|, returned exactly enc v, ReadLen / source position advanced
   by exactly |enc v| (bufiox-backed skippers are excused when the script stalls: a run of
   maxConsecutiveEmptyReads empty reads makes bufiox give up — C04's no_stall premise).
   When a tree is ill-typed or higher than 63 the spec demands nothing (tag 90; not generated).
   agree: every observable (incl. error/ok under stalling scripts, which specok excuses) against
   the five executable models: Model/Skip.binary_skip, Model/StreamSkip.br_skip over the bufiox
   reader model, Model/SkipDecoders bs_next / pk_next / rf_next, threaded through the sequence of
   values exactly as the harness threads the real decoders (Release + re-New = pk_new / bs_new /
   rf_new on the same reader / remaining bytes / source).
   A harness entry (-98) = the skipper did not return (hang), (-97) = not run after 10
   deviating cases; both count as disagreement and spec failure. *)
From GV Require Import Lib.Bytes Lib.Res Gen.Consts Corr.Val Spec.ThriftGrammar.
From GV Require Import Model.Binary Model.BufReader Model.Skip Model.StreamSkip Model.SkipDecoders.
Open Scope N_scope.

(* ---------- decoding trees ---------- *)
Fixpoint expand {A} (dec : cval -> option A) (l : list cval) : option (list A) :=
  match l with
  | [] => Some []
  | L [I 99%Z; I k; c] :: l' =>
    match dec c, expand dec l' with
    | Some a, Some r => Some (repeat a (Z.to_nat k) ++ r)
    | _, _ => None
    end
  | c :: l' =>
    match dec c, expand dec l' with
    | Some a, Some r => Some (a :: r)
    | _, _ => None
    end
  end.

Fixpoint vtree (f : nat) (c : cval) : option value :=
  match f with
  | O => None
  | S f' =>
    match c with
    | L [I 2%Z; I b] => Some (VBool (Z.to_N b))
    | L [I 3%Z; I b] => Some (VByte (Z.to_N b))
    | L [I 4%Z; I x] => Some (VDouble (Z.to_N x))
    | L [I 6%Z; I x] => Some (VI16 (Z.to_N x))
    | L [I 8%Z; I x] => Some (VI32 (Z.to_N x))
    | L [I 10%Z; I x] => Some (VI64 (Z.to_N x))
    | L [I 11%Z; s] => Some (VStr (vbytes s))
    | L [I 12%Z; L fs] =>
      option_map VStruct
        (expand (fun c => match c with
                          | L [I ft; I id; t] => option_map (fun v => (Z.to_N ft, Z.to_N id, v)) (vtree f' t)
                          | _ => None end) fs)
    | L [I 13%Z; I kt; I vt; L kvs] =>
      option_map (VMap (Z.to_N kt) (Z.to_N vt))
        (expand (fun c => match c with
                          | L [k; v] => match vtree f' k, vtree f' v with
                                        | Some k', Some v' => Some (k', v') | _, _ => None end
                          | _ => None end) kvs)
    | L [I 14%Z; I et; L vs] => option_map (VSet (Z.to_N et)) (expand (vtree f') vs)
    | L [I 15%Z; I et; L vs] => option_map (VList (Z.to_N et)) (expand (vtree f') vs)
    | _ => None
    end
  end.

Fixpoint opt_all {A} (l : list (option A)) : option (list A) :=
  match l with
  | [] => Some []
  | Some a :: l' => option_map (cons a) (opt_all l')
  | None :: _ => None
  end.

(* chunk script *)
Fixpoint vchunks (l : list cval) : list N :=
  match l with
  | [] => []
  | L [I c; I k] :: l' => repeat (Z.to_N c) (Z.to_nat k) ++ vchunks l'
  | I c :: l' => Z.to_N c :: vchunks l'
  | _ :: l' => vchunks l'
  end.

(* no run of [m] consecutive empty reads *)
Fixpoint no_stall_from (m : nat) (run : nat) (l : list N) : bool :=
  match l with
  | [] => true
  | c :: l' => if c =? 0 then (if Nat.ltb (S run) m then no_stall_from m (S run) l' else false)
               else no_stall_from m O l'
  end.
Definition no_stall (l : list N) : bool :=
  no_stall_from (Z.to_nat bufiox_maxConsecutiveEmptyReads) O l.

(* ---------- expected observations ---------- *)
(* cumulative end offsets of the values *)
Fixpoint cums (acc : N) (ls : list N) : list N :=
  match ls with [] => [] | n :: r => (acc + n) :: cums (acc + n) r end.

(* the grammar accepts value v at the front of r with exactly |enc v| and ch v *)
Definition gram_ok (v : value) (r : bytes) : bool :=
  match gparse (tyof v) r with
  | Ok (n, h) => (n =? len (enc v)) && Nat.eqb h (ch v)
  | _ => false
  end.

Fixpoint gram_all (vs : list value) (data : bytes) : bool :=
  match vs with
  | [] => true
  | v :: vs' => gram_ok v data && gram_all vs' (drop (len (enc v)) data)
  end.

Definition ret_ok (c : cval) (e : bytes) : bool :=
  match c with
  | I 1%Z => true
  | L [I 0%Z; B b] => beqb b e
  | _ => false
  end.

Definition is1 (c : cval) : bool := match c with I 1%Z => true | _ => false end.

(* observed lists against expected lengths / cumulative offsets / encodings *)
Fixpoint ok_bskip (obs : list cval) (lens : list N) : bool :=
  match obs, lens with
  | [], [] => true
  | L [I 0%Z; I n] :: o', l :: l' => (n =? Z.of_N l)%Z && ok_bskip o' l'
  | _, _ => false
  end.
Fixpoint ok_brskip (obs : list cval) (cum : list N) : bool :=
  match obs, cum with
  | [], [] => true
  | L [I 0%Z; I rl] :: o', c :: c' => (rl =? Z.of_N c)%Z && ok_brskip o' c'
  | _, _ => false
  end.
Fixpoint ok_dec3 (obs : list cval) (encs : list bytes) (cum : list N) : bool :=
  match obs, encs, cum with
  | [], [], [] => true
  | L [I 0%Z; r; I p] :: o', e :: e', c :: c' => ret_ok r e && (p =? Z.of_N c)%Z && ok_dec3 o' e' c'
  | _, _, _ => false
  end.
Fixpoint ok_dec2 (obs : list cval) (encs : list bytes) : bool :=
  match obs, encs with
  | [], [] => true
  | L [I 0%Z; r] :: o', e :: e' => ret_ok r e && ok_dec2 o' e'
  | _, _ => false
  end.

Fixpoint xencs_ok (xs : list cval) (encs : list bytes) : bool :=
  match xs, encs with
  | [], [] => true
  | B b :: x', e :: e' => beqb b e && xencs_ok x' e'
  | _, _ => false
  end.

(* ---------- the executable models on the same case ---------- *)
Definition obs_err1 (obs : list cval) : bool :=
  match obs with [L (I 1%Z :: _)] => true | _ => false end.

(* Binary.Skip on data[off:] *)
Fixpoint ag_bs (obs : list cval) (vs : list value) (data : bytes) : bool :=
  match vs with
  | [] => match obs with [] => true | _ => false end
  | v :: vs' =>
    match binary_skip data (tyof v) with
    | Ok n => match obs with
              | L [I 0%Z; I n'] :: o' => (Z.of_N n =? n')%Z && ag_bs o' vs' (drop n data)
              | _ => false end
    | Err _ => obs_err1 obs
    | _ => false
    end
  end.

Definition follow_flag (ok : bool) (f : cval) : bool :=
  match f with I z => Z.eqb z (if ok then 1 else 0) | _ => false end.

(* BufferReader.Skip; then Next(|follow|) on the bufiox reader *)
Fixpoint ag_br (obs : list cval) (vs : list value) (st : rstate) (fl : bytes) (f : cval) : bool :=
  match vs with
  | [] => match obs with
          | [] => let '(_, o) := r_next st (Z.of_N (len fl)) in
                  follow_flag (match o with OBytes b => beqb b fl | _ => false end) f
          | _ => false end
  | v :: vs' =>
    let '(st', r) := br_skip st (tyof v) in
    match r with
    | Ok _ => match obs with
              | L [I 0%Z; I rl] :: o' => (Z.of_N (ri st') =? rl)%Z && ag_br o' vs' st' fl f
              | _ => false end
    | Err _ => obs_err1 obs && follow_flag false f
    | _ => false
    end
  end.

Definition ret_agrees (c : cval) (x m : bytes) : bool :=
  match c with
  | I 1%Z => beqb m x
  | L [I 0%Z; B b] => beqb b m
  | _ => false
  end.

(* SkipDecoder.Next over bufiox; [xs] = the harness encodings the "ret = 1" flag refers to *)
Fixpoint ag_pk (obs : list cval) (vs : list value) (xs : list bytes) (s : pk_state) (rel : bool) (fl : bytes) (f : cval) : bool :=
  match vs, xs with
  | [], _ => match obs with
          | [] => let '(_, o) := r_next (pk_r s) (Z.of_N (len fl)) in
                  follow_flag (match o with OBytes b => beqb b fl | _ => false end) f
          | _ => false end
  | v :: vs', x :: xs' =>
    let '(s', r) := pk_next s (tyof v) in
    match r with
    | Ok b => match obs with
              | L [I 0%Z; rt; I rl] :: o' =>
                ret_agrees rt x b && (Z.of_N (ri (pk_r s')) =? rl)%Z &&
                ag_pk o' vs' xs' (if rel then pk_new (pk_r s') else s') rel fl f
              | _ => false end
    | Err _ => obs_err1 obs && follow_flag false f
    | _ => false
    end
  | _, _ => false
  end.

Fixpoint ag_bsd (obs : list cval) (vs : list value) (xs : list bytes) (s : bs_state) (rel : bool) (fl : bytes) (f : cval) : bool :=
  match vs, xs with
  | [], _ => match obs with
          | [] => let '(_, r) := bs_skipN s (len fl) in
                  follow_flag (match r with Ok b => beqb b fl | _ => false end) f
          | _ => false end
  | v :: vs', x :: xs' =>
    let '(s', r) := bs_next s (tyof v) in
    match r with
    | Ok b => match obs with
              | L [I 0%Z; rt] :: o' =>
                ret_agrees rt x b && ag_bsd o' vs' xs' (if rel then bs_new (bs_b s') else s') rel fl f
              | _ => false end
    | Err _ => obs_err1 obs && follow_flag false f
    | _ => false
    end
  | _, _ => false
  end.

Fixpoint ag_rf (obs : list cval) (vs : list value) (xs : list bytes) (s : rf_state) (rel : bool) (fl : bytes) (f : cval) : bool :=
  match vs, xs with
  | [], _ => match obs with
          | [] => let '(_, r) := rf_skipN s (len fl) in
                  follow_flag (match r with Ok b => beqb b fl | _ => false end) f
          | _ => false end
  | v :: vs', x :: xs' =>
    let '(s', r) := rf_next s (tyof v) in
    match r with
    | Ok b => match obs with
              | L [I 0%Z; rt; I p] :: o' =>
                ret_agrees rt x b && (Z.of_N (spos (rf_src s')) =? p)%Z &&
                ag_rf o' vs' xs' (if rel then rf_new (rf_src s') (rf_len s') else s') rel fl f
              | _ => false end
    | Err _ => obs_err1 obs && follow_flag false f
    | _ => false
    end
  | _, _ => false
  end.

Fixpoint xbytes (xs : list cval) : list bytes :=
  match xs with B b :: x' => b :: xbytes x' | _ => [] end.

Definition kind_tag (v : value) : Z :=
  match v with
  | VStruct fs => if (len fs =? 0) then 120%Z else 121%Z
  | VMap kt vt kvs =>
      if len kvs =? 0 then 130%Z
      else if (0 <? fixed_width kt) && (0 <? fixed_width vt) then 131%Z
      else if (0 <? fixed_width kt) then 132%Z
      else if (0 <? fixed_width vt) then 133%Z else 134%Z
  | VSet et vs => if len vs =? 0 then 140%Z else if 0 <? fixed_width et then 141%Z else 142%Z
  | VList et vs => if len vs =? 0 then 150%Z else if 0 <? fixed_width et then 151%Z else 152%Z
  | VStr s => if len s <? 4092 then 110%Z else if len s <? 8188 then 111%Z else 112%Z
  | _ => Z.of_N (tyof v)
  end.

Definition check (c : cval) : verdict :=
  match c with
  | L [L [L trees; trailing; L [I fin; I wth; L chunks]; I opts];
       L [L xencs; L o_bs; L o_br; f_br; L o_sd; f_sd; L o_bsd; f_bsd; L o_rsd; f_rsd]] =>
    match opt_all (map (vtree 200) trees) with
    | None => bad_case
    | Some vs =>
      let encs := map enc vs in
      let lens := map (@len N) encs in
      let cum := cums 0 lens in
      let data := concat encs ++ vbytes trailing in
      let premise := forallb (fun v => wt (tyof v) v && Nat.leb (ch v) 63) vs in
      let infra := xencs_ok xencs encs && gram_all vs data in
      let stall := negb (no_stall (vchunks chunks)) in
      let s_bs := ok_bskip o_bs lens in
      let s_br := stall || (ok_brskip o_br cum && is1 f_br) in
      let s_sd := stall || (ok_dec3 o_sd encs cum && is1 f_sd) in
      let s_bsd := ok_dec2 o_bsd encs && is1 f_bsd in
      let s_rsd := ok_dec3 o_rsd encs cum && is1 f_rsd in
      let s := negb premise || (infra && s_bs && s_br && s_sd && s_bsd && s_rsd) in
      let tr := vbytes trailing in
      let fl := take (N.min 16 (len tr)) tr in
      let rel := Z.odd opts in
      let xs := xbytes xencs in
      let srcm := {| sdata := data; sfinal := fin; swith := negb (wth =? 0)%Z;
                     schunks := vchunks chunks; spos := 0 |} in
      let a := xencs_ok xencs encs
               && ag_bs o_bs vs data
               && ag_br o_br vs (new_reader srcm) fl f_br
               && ag_pk o_sd vs xs (pk_new (new_reader srcm)) rel fl f_sd
               && ag_bsd o_bsd vs xs (bs_new data) rel fl f_bsd
               && ag_rf o_rsd vs xs (rf_new srcm 0) rel fl f_rsd in
      let t := match vs with
               | [v] => kind_tag v
               | _ => (1000 + Z.of_nat (length vs))%Z
               end in
      mk a s (if negb premise then 90 else if stall then 2000 + t else t)%Z
    end
  | _ => bad_case
  end.
