(* Corr/CodecC.v — helpers shared by the C01 and C12 correspondence checks: cval equality, item
   and value codecs, error classes, source scripts, sequential runs of writers and readers. *)
From GV Require Import Lib.Bytes Lib.Res Lib.Heap Corr.Val Gen.Consts Spec.Log Spec.Cursor Spec.Wire
     Model.Binary Model.BufWriter Model.BufReader Model.StreamCodec.
Open Scope N_scope.

Fixpoint cval_eqb (a b : cval) : bool :=
  match a, b with
  | I x, I y => (x =? y)%Z
  | B x, B y => beqb x y
  | L x, L y =>
      (fix go (x y : list cval) : bool :=
         match x, y with
         | [], [] => true
         | a' :: x', b' :: y' => cval_eqb a' b' && go x' y'
         | _, _ => false
         end) x y
  | _, _ => false
  end.

Fixpoint all_some {A} (l : list (option A)) : option (list A) :=
  match l with
  | [] => Some []
  | Some x :: r => match all_some r with Some r' => Some (x :: r') | None => None end
  | None :: _ => None
  end.

(* ---------- items ----------
   (0 b) bool  (1 v) byte  (2 v) i16  (3 v) i32  (4 v) i64  (5 bits) double  (6 bytes) binary
   (7 bytes) string  (8 t id) field begin  (9) field stop  (10 kt vt size) map begin
   (11 et size) list begin  (12 et size) set begin.
   Integers must fit the Go parameter type (the harness converts without wrapping): int8/int16/
   int32/int64, TType = int8, size = int (64-bit). *)
Definition fitsb (bits : N) (z : Z) : bool := in_signedb bits z.

Definition dec_item (v : cval) : option item :=
  match v with
  | L [I 0%Z; I b] => if (b =? 0)%Z then Some (IBool false) else if (b =? 1)%Z then Some (IBool true) else None
  | L [I 1%Z; I x] => if fitsb 8 x then Some (IByte x) else None
  | L [I 2%Z; I x] => if fitsb 16 x then Some (II16 x) else None
  | L [I 3%Z; I x] => if fitsb 32 x then Some (II32 x) else None
  | L [I 4%Z; I x] => if fitsb 64 x then Some (II64 x) else None
  | L [I 5%Z; I x] => if (0 <=? x)%Z && (x <? Z.of_N two64)%Z then Some (IDouble (Z.to_N x)) else None
  | L [I 6%Z; b] => Some (IBinary (vbytes b))
  | L [I 7%Z; b] => Some (IString (vbytes b))
  | L [I 8%Z; I t; I id] => if fitsb 8 t && fitsb 16 id then Some (IFieldBegin t id) else None
  | L [I 9%Z] => Some IFieldStop
  | L [I 10%Z; I kt; I vt; I sz] => if fitsb 8 kt && fitsb 8 vt && fitsb 64 sz then Some (IMapBegin kt vt sz) else None
  | L [I 11%Z; I et; I sz] => if fitsb 8 et && fitsb 64 sz then Some (IListBegin et sz) else None
  | L [I 12%Z; I et; I sz] => if fitsb 8 et && fitsb 64 sz then Some (ISetBegin et sz) else None
  | _ => None
  end.

Definition kind_code (k : kind) : Z :=
  match k with
  | KBool => 0 | KByte => 1 | KI16 => 2 | KI32 => 3 | KI64 => 4 | KDouble => 5 | KBinary => 6 | KString => 7
  | KFieldBegin => 8 | KMapBegin => 10 | KListBegin => 11 | KSetBegin => 12
  end%Z.
Definition dec_kind (v : cval) : option kind :=
  match v with
  | I 0%Z => Some KBool | I 1%Z => Some KByte | I 2%Z => Some KI16 | I 3%Z => Some KI32 | I 4%Z => Some KI64
  | I 5%Z => Some KDouble | I 6%Z => Some KBinary | I 7%Z => Some KString | I 8%Z => Some KFieldBegin
  | I 10%Z => Some KMapBegin | I 11%Z => Some KListBegin | I 12%Z => Some KSetBegin
  | _ => None
  end.

Definition bz (b : bool) : cval := I (if b then 1 else 0)%Z.

(* a decoded value as the harness prints it *)
Definition val_of (it : item) : cval :=
  match it with
  | IBool b => bz b
  | IByte v | II16 v | II32 v | II64 v => I v
  | IDouble bits => I (Z.of_N bits)
  | IBinary v | IString v => B v
  | IFieldBegin t id => L [I t; I id]
  | IFieldStop => L [I 0%Z; I 0%Z]
  | IMapBegin kt vt sz => L [I kt; I vt; I sz]
  | IListBegin et sz | ISetBegin et sz => L [I et; I sz]
  end.

(* ---------- error classes ----------
   ()                 nil
   (tid cause)        *ProtocolException with TypeId tid; cause = class of errors.Unwrap: 0 none,
                      20 io.EOF, 21 injected source error, 22 io.ErrNoProgress, 23 bufiox negative count
   (-2 c)             any other error: c = 1 bufiox negative count, 2 injected sink error, 20.. as above
   (-99 0)            the model predicts a Go panic (never equal to an implementation output) *)
Definition err_cls (e : Z) : cval :=
  if (e =? 0)%Z then L []
  else if (100 <=? e)%Z then L [I thrift_UNKNOWN_PROTOCOL_EXCEPTION; I (e - 100)%Z]
  else if (1 <=? e)%Z && (e <=? 18)%Z then L [I (etype e); I 0%Z]
  else L [I (-3)%Z; I e].
Definition werr_cls (e : Z) : cval := if (e =? 0)%Z then L [] else L [I (-2)%Z; I e].
Definition crash_cls : cval := L [I (-99)%Z; I 0%Z].
Definition oerr_cls (e : option Z) : cval := match e with None => L [] | Some x => err_cls x end.

Definition res_err {A} (r : res A) : option Z :=
  match r with Ok _ => None | Err e => Some e | _ => Some (-99)%Z end.
Definition cls_of_code (e : Z) : cval := if (e =? -99)%Z then crash_cls else err_cls e.

(* ---------- sources ----------
   (0 fin with chunks)   io.Reader-backed: final error fin (20 EOF / 21 injected), with_data flag,
                         chunk script (items: size or (size count))
   (1 extra)             bytes-backed reader, cap = len + extra
   (2)                   no stream reader in this case (declared sizes the real reader would allocate) *)
Definition expand_chunks (l : list cval) : list N :=
  concat (map (fun v => match v with
                        | L [I c; I k] => repeat (Z.to_N c) (Z.to_nat k)
                        | I c => [Z.to_N c]
                        | _ => [] end) l).

Definition mk_reader (script : cval) (data : bytes) : option (option rstate * bool) :=   (* state, may stall *)
  match script with
  | L [I 0%Z; I fin; I wd; L chunks] =>
    let chs := expand_chunks chunks in
    Some (Some (new_reader {| sdata := data; sfinal := fin; swith := negb (wd =? 0)%Z; schunks := chs; spos := 0 |}),
          may_stall chs)
  | L [I 1%Z; I extra] => Some (Some (new_bytes_reader data (len data + Z.to_N extra)), false)
  | L [I 2%Z] => Some (None, false)
  | _ => None
  end.

(* ---------- sequential runs ---------- *)
Definition a_seq (buf : bytes) (its : list item) : bytes := fold_left a_item its buf.

(* buffer reader: v, l, err := Binary.ReadX(buf[off:]); off += l; stop at the first error *)
Fixpoint br_seq (ks : list kind) (buf : bytes) : list (item * N) * option Z :=
  match ks with
  | [] => ([], None)
  | k :: r =>
    match r_item k buf with
    | Ok (it, n) => let '(l, e) := br_seq r (drop n buf) in ((it, n) :: l, e)
    | x => ([], res_err x)
    end
  end.

(* stream reader: v, err := r.ReadX(); record ReadLen after each success; stop at the first error *)
Fixpoint sr_seq (ks : list kind) (st : rstate) : list (item * N) * option Z * rstate :=
  match ks with
  | [] => ([], None, st)
  | k :: r =>
    let '(st1, x) := sr_item k st in
    match x with
    | Ok it => let '(l, e, st2) := sr_seq r st1 in ((it, r_readlen st1) :: l, e, st2)
    | _ => ([], res_err x, st1)
    end
  end.

(* reference: the format's own reading of the bytes, item by item *)
Fixpoint ref_seq (ks : list kind) (buf : bytes) : list (item * N) * bool :=    (* parsed prefix, all parsed *)
  match ks with
  | [] => ([], true)
  | k :: r =>
    match ref_dec k buf with
    | Some (it, n) => let '(l, okk) := ref_seq r (drop n buf) in ((it, n) :: l, okk)
    | None => ([], false)
    end
  end.

Definition vals_cval (l : list (item * N)) : cval :=
  L (map (fun p => L [val_of (fst p); I (Z.of_N (snd p))]) l).

(* running sums: [base + n1; base + n1 + n2; ...] *)
Fixpoint cumul (base : N) (l : list (item * N)) : list (item * N) :=
  match l with
  | [] => []
  | (it, n) :: r => (it, base + n) :: cumul (base + n) r
  end.

Definition no_dirt (_ : nat) : bytes := [].

Definition is_nil_cls (c : cval) : bool := match c with L [] => true | _ => false end.
