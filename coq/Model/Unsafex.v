(* Model/Unsafex.v — unsafex.BinaryToString / StringToBinary (both build variants).
   go1.21 file:  unsafe.String(unsafe.SliceData(b), len(b));  unsafe.Slice(unsafe.StringData(s), len(s))
   pre-1.21 file: reinterpret the slice header as a string header; copy the string header into
   a slice header and set Cap = len(s).
   Both variants produce the same (pointer, len[, cap]) triple, which is what is modelled. *)
From GV Require Import Lib.Bytes Lib.Heap.
Open Scope N_scope.

(* unsafe.String(nil, 0) is ""; for len 0 the data pointer of the result is unspecified by Go,
   so observables are compared only through [string_bytes] and, for len > 0, the pointer. *)
Definition binary_to_string (b : gslice) : gstring :=
  {| tptr := sptr b; tlen := slen b |}.

Definition string_to_binary (s : gstring) : gslice :=
  {| sptr := tptr s; slen := tlen s; scap := tlen s |}.
