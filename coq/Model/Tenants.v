(* Model/Tenants.v — many objects at once (C14): k tenants, each an instance of one of the
   heap-level models (reader, writer, skip decoder) with its own state and its own trace, over
   ONE shared world (heap + mcache pool + outsiders).  A global step is one tenant's next
   operation (pool Get/Put are atomic: the sync.Pool contract), an outsider's activity, or the
   creation of a new tenant.  Plus: the package's OBJECT pools (sync.Pool of BufferReader,
   BufferWriter and the three skip decoders) with the resets their Recycle/Release really do, and
   concurrent Get on a shared read-only map. *)
From GV Require Import Lib.Bytes Lib.Res Lib.Heap Gen.Consts Model.Own Model.OwnReader Model.OwnWriter Model.OwnSkipDec.
Open Scope N_scope.

(* ---------- tenants over a shared world ---------- *)
Inductive tenant : Type := TR (st : hreader) | TW (st : hwriter) | TK (st : hskip).
Inductive top : Type := OpR (o : hop) | OpW (o : wop) | OpK (o : kop).
Inductive tout : Type := OutR (o : hout) | OutW (o : wobs) | OutK (o : kout) | OutNone.

Definition t_step (t : tenant) (e : env) (o : top) : tenant * env * tout :=
  match t, o with
  | TR st, OpR op => let '(st', e', out) := h_step st e op in (TR st', e', OutR out)
  | TW st, OpW op => let '(st', e', out) := w_step st e op in (TW st', e', OutW out)
  | TK st, OpK op => let '(st', e', out) := k_step st e op in (TK st', e', OutK out)
  | _, _ => (t, e, OutNone)      (* an operation of the wrong kind is not an operation *)
  end.

Record gstate := mkG { gw : world; gts : list (tenant * list event) }.

Inductive gstep : Type :=
| GOp (i : nat) (o : top) (al : list achoice) (adv padv : list (list costep))
| GCo (l : list costep)
| GNewReader (s : source)
| GNewBytesReader (pre data spare : bytes)
| GNewWriter (failk : N)
| GNewBytesWriter (isnil : bool) (pre data spare : bytes)
| GNewSkip (s : source).

Definition g_step (g : gstate) (s : gstep) : gstate * tout :=
  match s with
  | GOp i o al adv padv =>
    match nth_error (gts g) i with
    | Some (t, tr) =>
      let '(t', e', out) := t_step t (mkE (gw g) al adv padv tr) o in
      (mkG (ew e') (set_nth i (t', eev e') (gts g)), out)
    | None => (g, OutNone)
    end
  | GCo l => (mkG (co_run (gw g) l) (gts g), OutNone)
  | GNewReader src => (mkG (gw g) (gts g ++ [(TR (new_reader src), [])]), OutNone)
  | GNewBytesReader pre data spare =>
    let '(st, e) := new_bytes_reader (mkE (gw g) [] [] [] []) pre data spare in
    (mkG (ew e) (gts g ++ [(TR st, eev e)]), OutNone)
  | GNewWriter failk => (mkG (gw g) (gts g ++ [(TW (new_writer failk), [])]), OutNone)
  | GNewBytesWriter isnil pre data spare =>
    let '(st, e) := new_bytes_writer (mkE (gw g) [] [] [] []) isnil pre data spare in
    (mkG (ew e) (gts g ++ [(TW st, eev e)]), OutNone)
  | GNewSkip src => (mkG (gw g) (gts g ++ [(TK (new_skip src), [])]), OutNone)
  end.

Fixpoint g_run (g : gstate) (h : list gstep) : gstate * list tout :=
  match h with
  | [] => (g, [])
  | s :: r => let '(g', o) := g_step g s in let '(g'', outs) := g_run g' r in (g'', o :: outs)
  end.

(* the blocks a tenant stands on: what it owns, what its caller lent it *)
Definition r_owned (st : hreader) : list nat :=
  match rbuf st with Some s => if rro st then [] else [sblk s] | None => [] end ++ map sblk (rpend st).
Definition w_blocks (st : hwriter) : list nat :=
  match wbuf st with Some s => if 0 <? scp s then [sblk s] else [] | None => [] end ++ map sblk (wpend st).
Definition w_owned (st : hwriter) : list nat := filter (fun b => negb (memb b (wlent st))) (w_blocks st).
Definition k_owned (st : hskip) : list nat := match kb st with Some s => [sblk s] | None => [] end.

Definition footprint (t : tenant) : list nat :=
  match t with
  | TR st => r_owned st ++ [] ++ rcaller st
  | TW st => w_owned st ++ wlent st ++ wgiven st
  | TK st => k_owned st ++ [] ++ []
  end.

(* ---------- the object pools ----------
   Each pooled type is a record of its Go fields; [*_new] is what the constructor does to the
   object it got from sync.Pool (ANY previously recycled object, or a zero one), [*_recycle]
   what Recycle/Release does before Put. *)
(* BufferReader{r}: NewBufferReader: ret.r = r ; Recycle: r.r = nil *)
Record bufreader := mkBR { br_r : option nat }.
Definition br_zero : bufreader := mkBR None.
Definition br_new (o : bufreader) (r : nat) : bufreader := mkBR (Some r).
Definition br_recycle (o : bufreader) : bufreader := mkBR None.
(* BufferWriter{w}: NewBufferWriter: w.w = iw ; Recycle: w.w = nil *)
Record bufwriter := mkBW { bw_w : option nat }.
Definition bw_zero : bufwriter := mkBW None.
Definition bw_new (o : bufwriter) (w : nat) : bufwriter := mkBW (Some w).
Definition bw_recycle (o : bufwriter) : bufwriter := mkBW None.
(* SkipDecoder{r, rn}: NewSkipDecoder: p.r = r (rn untouched) ; Release: *p = SkipDecoder{} *)
Record skipdec := mkSD { sd_r : option nat; sd_rn : N }.
Definition sd_zero : skipdec := mkSD None 0.
Definition sd_new (o : skipdec) (r : nat) : skipdec := mkSD (Some r) (sd_rn o).
Definition sd_release (o : skipdec) : skipdec := mkSD None 0.
(* SkipN: Peek(rn+n) ok => rn += n *)
Definition sd_skipn_ok (o : skipdec) (n : N) : skipdec := mkSD (sd_r o) (sd_rn o + n).
(* BytesSkipDecoder{n, b}: New: Reset(b) ; Release: Reset(nil) ; Reset: p.n = 0; p.b = b *)
Record bytesskip := mkBS { bs_n : N; bs_b : option bytes }.
Definition bs_zero : bytesskip := mkBS 0 None.
Definition bs_reset (o : bytesskip) (b : option bytes) : bytesskip := mkBS 0 b.
Definition bs_new (o : bytesskip) (b : bytes) : bytesskip := bs_reset o (Some b).
Definition bs_release (o : bytesskip) : bytesskip := bs_reset o None.
(* ReaderSkipDecoder{r, n, b}: New: Reset(r) ; Release: Reset(nil) ; Reset: p.r = r; p.n = 0 — p.b is KEPT:
   on the heap-level model that is [k_reset] (Model/OwnSkipDec.v) *)

(* observations used by the correspondence: (r == nil, n / rn, len b) after Release/Recycle *)
Definition br_obs (o : bufreader) : Z := match br_r o with None => 1 | Some _ => 0 end.
Definition bw_obs (o : bufwriter) : Z := match bw_w o with None => 1 | Some _ => 0 end.
Definition sd_obs (o : skipdec) : Z * N := (match sd_r o with None => 1%Z | Some _ => 0%Z end, sd_rn o).
Definition bs_obs (o : bytesskip) : N * N := (bs_n o, match bs_b o with Some b => len b | None => 0 end).

(* ---------- concurrent Get on a shared map ----------
   [writes]: how many statements of the Go Get body assign through the receiver (regenerated from
   the source into Gen/Consts.v); were there any, a Get could change the map arbitrarily
   ([havoc]).  [getf] is the lookup (Model/StrMap.v get for the real thing). *)
Section SharedMap.
  Variables (M K A : Type).
  Variable getf : M -> K -> A.
  Variable writes : Z.
  Variable havoc : M -> K -> M.

  Definition get_step (m : M) (k : K) : M * A :=
    (if (writes =? 0)%Z then m else havoc m k, getf m k).

  (* goroutine i asks for its keys in order; the schedule says whose turn it is *)
  Fixpoint get_run (m : M) (sched : list nat) (todo : list (list K)) (done : list (list A)) : M * list (list A) :=
    match sched with
    | [] => (m, done)
    | i :: r =>
      match nth_error todo i with
      | Some (k :: ks) =>
        let '(m', a) := get_step m k in
        get_run m' r (set_nth i ks todo) (set_nth i (nth i done [] ++ [a]) done)
      | _ => get_run m r todo done
      end
    end.
End SharedMap.

Definition strmap_get_writes : Z := (strmap_StrMap_Get_receiver_writes + strmap_Str2Str_Get_receiver_writes)%Z.
