(* Model/BufWriter.v — bufiox.DefaultWriter / BytesWriter (bufiox/defaultbuf.go:229-404),
   executable model at buffer-list level.

   Memory is a [Heap.heap]: every buffer the writer ever held is a block (block id = index,
   contents = cap bytes).  All writer slices start at offset 0 of their block (mcache.Malloc,
   dirtmake.Bytes, the caller's target slice; [nbuf[:len(w.buf)]] keeps offset 0), so a slice
   is (block id, len) and its capacity is the length of the block.  A region handed out by
   Malloc is (block id, offset, n); the caller stores through it LATER with [fill], into THAT
   block, which may meanwhile have been parked by a growth: growth copies nothing, the copy
   happens in Flush ([stitch]).  New blocks start with DIRTY contents taken from the oracle
   [dirty] (indexed by block id), so every theorem quantifies over all initial contents.

   Outcomes: [Ok] normal return, [Err e] Go error return WITHOUT state change (sticky error,
   negative count) or the distinguished out-of-fuel error [E_FUEL], [Panic] where Go would
   panic (slice bounds).  Theorems show [E_FUEL] and [Panic] are unreachable.
   Sizes are unbounded [N] (64-bit int overflow of the doubling loops is out of scope). *)
From GV Require Import Lib.Bytes Lib.Res Lib.Heap Gen.Consts Spec.Log.
Open Scope N_scope.

Definition bufsz : N := Z.to_N bufiox_defaultBufSize.
Definition nbuckets : N := Z.to_N bufiox_statsBucketNum.

Definition E_FUEL : Z := (-2)%Z.     (* a doubling loop ran out of fuel (never happens) *)
Definition E_PANIC : Z := (-1)%Z.    (* observation class of a Go panic (never happens) *)
Definition E_SHORT : Z := 8%Z.       (* WriteBinary returned n < len(bs) with a nil error (never happens) *)

Record region : Type := mkreg { rid : nat; roff : N; rlen : N }.

(* the io.Writer: log of the byte strings of successful Writes, number of Write calls so far,
   the call that fails (1-based, 0 = never).  [kfake]: fakeIOWriter of BytesWriter, which
   publishes the slice it is given into *flushBytes ([ktarget]) and never fails. *)
Record sinkst : Type := mksink {
  kfake : bool; klog : list bytes; kcalls : N; kfail : N; ktarget : option (nat * N) }.

Record wstate : Type := mkw {
  store : heap;                 (* all blocks *)
  cur : option (nat * N);       (* w.buf: block id, len; None = nil slice *)
  pend : list (nat * N);        (* w.pendingBuf: parked buffers with their len at parking time, oldest first *)
  werr : option Z;              (* w.err *)
  nocache : bool;               (* w.disableCache *)
  buckets : list N;             (* maxSizeStats.buckets *)
  bidx : N;                     (* maxSizeStats.bucketIdx *)
  sink : sinkst;                (* w.wd *)
  live : list region;           (* ghost: regions handed out since the last successful Flush, newest first *)
  nstale : nat;                 (* ghost: number of regions handed out before the last successful Flush *)
  freed : list nat              (* ghost: blocks given to mcache.Free (and accepted by it), in order *)
}.

Definition with_mem (st : wstate) (h : heap) (c : option (nat * N)) (p : list (nat * N)) : wstate :=
  mkw h c p (werr st) (nocache st) (buckets st) (bidx st) (sink st) (live st) (nstale st) (freed st).
Definition with_live (st : wstate) (lv : list region) : wstate :=
  mkw (store st) (cur st) (pend st) (werr st) (nocache st) (buckets st) (bidx st) (sink st) lv (nstale st) (freed st).

Definition cur_len (st : wstate) : N := match cur st with Some (_, l) => l | None => 0 end.
Definition cur_cap (st : wstate) : N := match cur st with Some (c, _) => len (block (store st) c) | None => 0 end.

(* ---------- allocator ---------- *)
(* mcache.Malloc(size, capacity): cap = 1 << calcIndex(c) = the next power of two >= c (1 for c = 0) *)
Definition pow2ceil (c : N) : N := 2 ^ N.log2_up c.
(* mcache.isPowerOfTwo: x != 0 && x & -x == x ; Free ignores every other capacity *)
Definition is_pow2 (c : N) : bool := (0 <? c) && (c =? 2 ^ N.log2 c).

(* a new block of capacity [c] with dirty contents [d] (cut or zero-padded to exactly c bytes) *)
Definition mkbuf (c : N) (d : bytes) : bytes := take c (d ++ repeat 0 (N.to_nat c)).

Definition new_block (dirty : nat -> bytes) (nc : bool) (h : heap) (c : N) : heap * nat :=
  (* disableCache: dirtmake.Bytes(_, c), cap exactly c ; else mcache.Malloc, cap = pow2ceil c *)
  alloc h (mkbuf (if nc then c else pow2ceil c) (dirty (length h))).

(* maxSizeStats.maxSize *)
Definition stat_max (bk : list N) : N := fold_left (fun m s => if m <? s then s else m) bk 0.
(* maxSizeStats.update *)
Definition stat_update (bk : list N) (i : N) (size : N) : list N * N :=
  (set_nth (N.to_nat i) size bk, (i + 1) mod nbuckets).

(* for ; m < n; m *= 2 {} *)
Fixpoint double_until (fuel : nat) (m n : N) : option N :=
  if m <? n then match fuel with O => None | S f => double_until f (2 * m) n end else Some m.
(* for ncap = ...; ncap-len < n; ncap *= 2 {}   (ncap >= len throughout, so N subtraction is exact) *)
Fixpoint grow_until (fuel : nat) (ncap l n : N) : option N :=
  if ncap - l <? n then match fuel with O => None | S f => grow_until f (2 * ncap) l n end else Some ncap.

(* doubling from m >= 1 reaches n after at most log2 n + 1 steps *)
Definition loop_fuel (n : N) : nat := S (N.to_nat (N.log2 n)).

(* ---------- acquire / acquireSlow ---------- *)
Definition acquire_slow (dirty : nat -> bytes) (st : wstate) (n : N) : res wstate :=
  do st1 <-
    (if cur_cap st =? 0 then
       let m0 := stat_max (buckets st) in
       let m0 := if m0 <? bufsz then bufsz else m0 in
       match double_until (loop_fuel n) m0 n with
       | None => Err E_FUEL
       | Some m =>
         let '(h, id) := new_block dirty (nocache st) (store st) m in
         Ok (with_mem st h (Some (id, 0)) (pend st))
       end
     else Ok st);
  if cur_cap st1 - cur_len st1 <? n then
    (* grow buffer: the old one is parked, nothing is copied *)
    match grow_until (loop_fuel n) (cur_cap st1 * 2) (cur_len st1) n with
    | None => Err E_FUEL
    | Some ncap =>
      let '(h, id) := new_block dirty (nocache st1) (store st1) ncap in
      match cur st1 with
      | Some (oc, ol) => Ok (with_mem st1 h (Some (id, ol)) (pend st1 ++ [(oc, ol)]))
      | None => Panic 9   (* w.buf nil here is impossible: the first phase made cap > 0 *)
      end
    end
  else Ok st1.

Definition acquire (dirty : nat -> bytes) (st : wstate) (n : N) : res wstate :=
  if cur_len st + n <=? cur_cap st then Ok st else acquire_slow dirty st n.

(* ---------- Malloc / WriteBinary / WrittenLen ---------- *)
Definition malloc (dirty : nat -> bytes) (st : wstate) (n : Z) : res (wstate * region) :=
  match werr st with
  | Some e => Err e
  | None =>
    if (n <? 0)%Z then Err E_NEG
    else
      let n := Z.to_N n in
      do st1 <- acquire dirty st n;
      (* buf = w.buf[len(w.buf) : len(w.buf)+n] ; w.buf = w.buf[:len(w.buf)+n] *)
      if cur_len st1 + n <=? cur_cap st1 then
        match cur st1 with
        | Some (c, l) =>
          let r := mkreg c l n in
          Ok (with_live (with_mem st1 (store st1) (Some (c, l + n)) (pend st1)) (r :: live st1), r)
        | None =>
          (* nil[0:0] is nil: only n = 0 gets here; the region has no block (rid is meaningless) *)
          let r := mkreg O 0 0 in
          Ok (with_live st1 (r :: live st1), r)
        end
      else Panic 1
  end.

Definition write_binary (dirty : nat -> bytes) (st : wstate) (bs : bytes) : res (wstate * N) :=
  match werr st with
  | Some e => Err e
  | None =>
    do st1 <- acquire dirty st (len bs);
    (* n = copy(w.buf[len(w.buf):cap(w.buf)], bs) ; w.buf = w.buf[:len(w.buf)+n] *)
    let n := N.min (cur_cap st1 - cur_len st1) (len bs) in
    match cur st1 with
    | Some (c, l) =>
      Ok (with_mem st1 (write (store st1) (c, l) (take n bs)) (Some (c, l + n)) (pend st1), n)
    | None => Ok (st1, n)
    end
  end.

Definition written_len (st : wstate) : N := cur_len st.

(* ---------- Flush ---------- *)
(* for _, oldBuf := range w.pendingBuf { offset += copy(w.buf[offset:], oldBuf[offset:]) } *)
Fixpoint stitch (h : heap) (pd : list (nat * N)) (c : nat) (l : N) (offset : N) : res (heap * N) :=
  match pd with
  | [] => Ok (h, offset)
  | (ob, ol) :: rest =>
    if (offset <=? l) && (offset <=? ol) then
      let m := N.min (l - offset) (ol - offset) in
      stitch (write h (c, offset) (take m (drop offset (block h ob)))) rest c l (offset + m)
    else Panic 1
  end.

Definition sink_write (k : sinkst) (p : nat * N) (content : bytes) : sinkst * option Z :=
  if kfake k then
    (mksink true (klog k ++ [content]) (kcalls k + 1) (kfail k) (Some p), None)
  else if kcalls k + 1 =? kfail k then
    (mksink false (klog k) (kcalls k + 1) (kfail k) (ktarget k), Some E_SINK)
  else
    (mksink false (klog k ++ [content]) (kcalls k + 1) (kfail k) (ktarget k), None).

(* mcache.Free(buf): pooled only when cap is a power of two *)
Definition free1 (h : heap) (id : nat) : list nat := if is_pow2 (len (block h id)) then [id] else [].

(* result: new state, returned error, bytes accepted by the sink (None: sink not called or failed) *)
Definition flush (st : wstate) : res (wstate * option Z * option bytes) :=
  match werr st with
  | Some e => Ok (st, Some e, None)
  | None =>
    match cur st with
    | None => Ok (st, None, None)
    | Some (c, l) =>
      do hs <- stitch (store st) (pend st) c l 0;
      let h := fst hs in
      let content := take l (block h c) in
      let '(k', e) := sink_write (sink st) (c, l) content in
      match e with
      | Some e =>
        Ok (mkw h (cur st) (pend st) (Some e) (nocache st) (buckets st) (bidx st) k' (live st) (nstale st) (freed st),
            Some e, None)
      | None =>
        let cp := len (block h c) in
        let '(bk, bi) := stat_update (buckets st) (bidx st) cp in
        let fr := if nocache st then []
                  else (if 0 <? cp then free1 h c else []) ++ flat_map (fun p => free1 h (fst p)) (pend st) in
        Ok (mkw h None [] None (nocache st) bk bi k' [] (nstale st + length (live st)) (freed st ++ fr),
            None, Some content)
      end
    end
  end.

(* ---------- constructors ---------- *)
Definition new_writer (failk : N) : wstate :=
  mkw [] None [] None false (repeat 0 (N.to_nat nbuckets)) 0 (mksink false [] 0 failk None) [] 0 [].

(* NewBytesWriter(&t): t = None (nil) or a block of cap bytes of which the first [l] are the slice *)
Definition new_bytes_writer (t : option (bytes * N)) : wstate :=
  match t with
  | None => mkw [] None [] None true (repeat 0 (N.to_nat nbuckets)) 0 (mksink true [] 0 0 None) [] 0 []
  | Some (contents, l) =>
    mkw [contents] (Some (O, l)) [] None true (repeat 0 (N.to_nat nbuckets)) 0 (mksink true [] 0 0 (Some (O, l))) [] 0 []
  end.

(* ---------- the caller ---------- *)
Definition region_at (st : wstate) (k : nat) : option region :=
  if (k <? nstale st)%nat then None else nth_error (rev (live st)) (k - nstale st).

(* copy(region_k[off:], data) with off+len(data) <= n; anything else (stale or unknown region,
   out of range) is a caller contract violation and is ignored *)
Definition fill (st : wstate) (k : nat) (off : N) (data : bytes) : option wstate :=
  match region_at st k with
  | Some r =>
    if off + len data <=? rlen r
    then Some (with_mem st (write (store st) (rid r, roff r + off) data) (cur st) (pend st))
    else None
  | None => None
  end.

Definition target_bytes (st : wstate) : bytes :=
  match ktarget (sink st) with
  | Some (b, l) => take l (block (store st) b)
  | None => []
  end.

(* ---------- histories ---------- *)
Definition crash_obs {A} (r : res A) : Z :=
  match r with Err e => e | _ => E_PANIC end.

Definition wstep (dirty : nat -> bytes) (st : wstate) (o : wop) : wstate * obs N :=
  match o with
  | OMalloc n =>
    match malloc dirty st n with
    | Ok (st', _) => (st', mkobs E_NONE (written_len st') None)
    | r => (st, mkobs (crash_obs r) (written_len st) None)
    end
  | OWrite bs =>
    match write_binary dirty st bs with
    | Ok (st', n) => (st', mkobs (if n =? len bs then E_NONE else E_SHORT) (written_len st') None)
    | r => (st, mkobs (crash_obs r) (written_len st) None)
    end
  | OFill k off data =>
    match fill st k off data with
    | Some st' => (st', mkobs E_NONE (written_len st') None)
    | None => (st, mkobs E_INVALID (written_len st) None)
    end
  | OFlush =>
    match flush st with
    | Ok (st', e, wr) =>
      (st', mkobs (match e with Some e => e | None => E_NONE end) (written_len st') wr)
    | r => (st, mkobs (crash_obs r) (written_len st) None)
    end
  | OLen => (st, mkobs E_NONE (written_len st) None)
  end.

Fixpoint wrun (dirty : nat -> bytes) (st : wstate) (h : list wop) : wstate * list (obs N) :=
  match h with
  | [] => (st, [])
  | o :: h' =>
    let '(s1, ob) := wstep dirty st o in
    let '(s2, obs') := wrun dirty s1 h' in
    (s2, ob :: obs')
  end.
