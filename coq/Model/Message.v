(* Model/Message.v — the message envelope and thrift.MarshalFastMsg / UnmarshalFastMsg
   (protocol/thrift/fastcodec.go:58-89), thrift.ApplicationException's FastCodec methods
   (exception.go:59-106).

   The three MessageBegin writers and the two readers are in Model/Binary.v
   ([w_message_begin], [a_message_begin], [l_message_begin], [r_message_begin]) and
   Model/StreamCodec.v ([sw_message_begin], [sr_message_begin]).

   A payload struct is abstract: a type [P] with the model functions of its three FastCodec
   methods.  FastRead mutates its receiver, so its model returns the new struct value next to
   the outcome. *)
From GV Require Import Lib.Bytes Lib.Res Gen.Consts Model.Binary.
Open Scope N_scope.

Definition e_fuel : Z := 41.         (* a loop ran out of fuel (never happens) *)
Definition e_unmodelled : Z := 40.   (* the limited skip function used by the correspondence met a container *)

(* ---------- ApplicationException ---------- *)
Record appex := mkex { ex_t : Z; ex_m : bytes }.     (* t int32, m string *)

(* BLength *)
Definition appex_blen (e : appex) : N := 3 + (4 + len (ex_m e)) + 3 + 4 + 1.

(* FastWrite: five in-place writes at increasing offsets; WriteByte(b[off:], STOP) *)
Definition appex_items (e : appex) : list item :=
  [IFieldBegin thrift_STRING 1; IString (ex_m e); IFieldBegin thrift_I32 2; II32 (ex_t e); IByte thrift_STOP].
Definition appex_write (e : appex) (b : bytes) : res (bytes * N) :=
  do (b', ns) <- w_seq b 0 (appex_items e);
  Ok (b', fold_left N.add ns 0).

(* FastRead.  [skipf] is Binary.Skip (its model belongs to the skip properties). *)
Fixpoint appex_read_loop (skipf : bytes -> Z -> res N) (fuel : nat) (e : appex) (b : bytes) (off : N)
  : appex * res N :=
  match fuel with
  | O => (e, Err e_fuel)
  | S f =>
    match (do s <- slice_from b off; r_field_begin s) with
    | Ok (tp, id, l) =>
      let off := off + l in
      if (tp =? thrift_STOP)%Z then (e, Ok off)
      else
        match slice_from b off with
        | Ok s =>
          if (id =? 1)%Z && (tp =? thrift_STRING)%Z then
            match r_string s with
            | Ok (m, l2) => appex_read_loop skipf f (mkex (ex_t e) m) b (off + l2)
            | Err x => (mkex (ex_t e) [], Err x)        (* e.m, l, err = ReadString(..): "" on error *)
            | Panic w => (e, Panic w) | OOB => (e, OOB)
            end
          else if (id =? 2)%Z && (tp =? thrift_I32)%Z then
            match r_i32 s with
            | Ok (t, l2) => appex_read_loop skipf f (mkex t (ex_m e)) b (off + l2)
            | Err x => (mkex 0 (ex_m e), Err x)
            | Panic w => (e, Panic w) | OOB => (e, OOB)
            end
          else
            match skipf s tp with
            | Ok l2 => appex_read_loop skipf f e b (off + l2)
            | Err x => (e, Err x)
            | Panic w => (e, Panic w) | OOB => (e, OOB)
            end
        | Err x => (e, Err x) | Panic w => (e, Panic w) | OOB => (e, OOB)
        end
    | Err x => (e, Err x)
    | Panic w => (e, Panic w)
    | OOB => (e, OOB)
    end
  end.
(* every iteration consumes at least the one byte of a field header *)
Definition appex_read (skipf : bytes -> Z -> res N) (e : appex) (b : bytes) : appex * res N :=
  appex_read_loop skipf (S (length b)) e b 0.

(* Binary.Skip restricted to scalar types and strings (enough for the correspondence runs of
   C12; the full skipper is the subject of C02/C03/C08) *)
Definition skip_scalar (b : bytes) (t : Z) : res N :=
  if len b =? 0 then Err e_too_short
  else
    let n := Z.to_N (nth (N.to_nat (u8 t)) thrift_typeToSize 0%Z) in
    if 0 <? n then (if len b <? n then Err e_too_short else Ok n)
    else if (t =? thrift_STRING)%Z then
      if 4 <=? len b then
        let sz := i32 (unbe (take 4 b)) in
        if (sz <? 0)%Z then Err e_neg_size
        else if 4 + Z.to_N sz <=? len b then Ok (4 + Z.to_N sz) else Err e_too_short
      else Err e_too_short
    else if (t =? thrift_STRUCT)%Z || (t =? thrift_MAP)%Z || (t =? thrift_SET)%Z || (t =? thrift_LIST)%Z
    then Err e_unmodelled
    else Err e_unknown_type.

(* ---------- MarshalFastMsg ---------- *)
(* dirtmake.Bytes(sz, sz): sz bytes of arbitrary content *)
Definition dirtbuf (dirty : bytes) (sz : N) : bytes := take sz (dirty ++ repeat 0 (N.to_nat sz)).

Section Payload.
  Variable P : Type.
  Variable p_blen : P -> N.                                (* msg.BLength() *)
  Variable p_write : P -> bytes -> res (bytes * N).        (* msg.FastWriteNocopy(buf, nil) : buf', n *)
  Variable p_read : P -> bytes -> P * res N.               (* msg.FastRead(buf) : msg', (n, err) *)

  (* Ok None = the "method not set" error *)
  Definition marshal_fast_msg (dirty : bytes) (method : bytes) (ty seq : Z) (msg : P) : res (option bytes) :=
    if len method =? 0 then Ok None
    else
      let sz := l_message_begin method + p_blen msg in
      let b := dirtbuf dirty sz in
      do (b1, i) <- w_message_begin b method ty seq;
      do s <- slice_from b1 i;
      do (s', _) <- p_write msg s;
      Ok (Some (take i b1 ++ s')).

  (* ---------- UnmarshalFastMsg ---------- *)
  Inductive uerr : Type :=
  | UNil                         (* nil *)
  | UErr (e : Z)                 (* a decode error *)
  | UAppEx (ex : appex).         (* the *ApplicationException read from the message, returned as the error *)

  Record ures : Type := mkures { u_method : bytes; u_seq : Z; u_err : uerr; u_msg : P }.

  Definition unmarshal_fast_msg (skipf : bytes -> Z -> res N) (b : bytes) (msg : P) : res ures :=
    match r_message_begin b with
    | Ok (method, ty, seq, i) =>
      do b' <- slice_from b i;
      if (ty =? thrift_EXCEPTION)%Z then
        let '(ex, r) := appex_read skipf (mkex thrift_UNKNOWN_APPLICATION_EXCEPTION []) b' in
        match r with
        | Ok _ => Ok (mkures method seq (UAppEx ex) msg)
        | Err e => Ok (mkures method seq (UErr e) msg)
        | Panic w => Panic w
        | OOB => OOB
        end
      else
        let '(msg', r) := p_read msg b' in
        match r with
        | Ok _ => Ok (mkures method seq UNil msg')
        | Err e => Ok (mkures method seq (UErr e) msg')
        | Panic w => Panic w
        | OOB => OOB
        end
    | Err e => Ok (mkures [] 0%Z (UErr e) msg)
    | Panic w => Panic w
    | OOB => OOB
    end.
End Payload.

Arguments mkures {P} _ _ _ _.
Arguments u_method {P} _.
Arguments u_seq {P} _.
Arguments u_err {P} _.
Arguments u_msg {P} _.
