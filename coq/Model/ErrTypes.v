(* Model/ErrTypes.v — C17: the error values the stream reader (protocol/thrift/bufferreader.go)
   returns, and which of its operations can return which.

   BufferReader.next / readBinary / skipn wrap every error of the underlying bufiox.Reader with
   NewProtocolExceptionWithErr (exception.go:184-193): a *ProtocolException with type id
   UNKNOWN_PROTOCOL_EXCEPTION whose Unwrap is the reader's error and whose Is delegates to it.
   The reader's own checks return the predeclared exceptions errNegativeSize / errBadVersion.
   The in-memory readers (thrift.Binary) are modelled in Model/Binary.v ([r_*], codes [e_*],
   [etype]); here only the stream side is added. *)
From GV Require Import Lib.Bytes Lib.Res Gen.Consts Model.Binary Model.BufReader.
Open Scope N_scope.

(* type ids of the two predeclared errors the stream reader returns itself, evaluated from the
   regenerated Gen/Consts.v when this file is compiled (keeps Coq strings out of extracted code) *)
Definition t_neg_size : Z := Eval vm_compute in etype e_neg_size.        (* errNegativeSize *)
Definition t_bad_version : Z := Eval vm_compute in etype e_bad_version.  (* errBadVersion *)

Inductive serr :=
| SProto (tid : Z)       (* a predeclared *ProtocolException, no cause *)
| SWrap (src : Z).       (* NewProtocolExceptionWithErr(src): src is an error code of Model/BufReader.v *)

Definition s_typeid (e : serr) : Z :=
  match e with SProto t => t | SWrap _ => thrift_UNKNOWN_PROTOCOL_EXCEPTION end.
Definition s_unwrap (e : serr) : option Z :=
  match e with SProto _ => None | SWrap s => Some s end.
(* errors.Is(err, target) for a plain sentinel target (io.EOF, io.ErrNoProgress, an injected
   error value): err != target; ProtocolException.Is: the target has no TypeId, so it answers
   errors.Is(e.err, target); sentinels match by identity *)
Definition s_is (e : serr) (target : Z) : bool :=
  match e with SProto _ => false | SWrap s => (s =? target)%Z end.

Inductive sout (A : Type) := SOk (a : A) | SErr (e : serr) | SCrash.
Arguments SOk {A} a.
Arguments SErr {A} e.
Arguments SCrash {A}.

(* r.next(n) *)
Definition s_next (st : rstate) (n : Z) : rstate * sout bytes :=
  let '(st', o) := r_next st n in
  match o with
  | OBytes b => (st', SOk b)
  | OErr e => (st', SErr (SWrap e))
  | _ => (st', SCrash)
  end.

Definition s_skip_ok (r : rstate * sout bytes) : rstate * sout unit :=
  match r with
  | (st, SOk _) => (st, SOk tt)
  | (st, SErr e) => (st, SErr e)
  | (st, SCrash) => (st, SCrash)
  end.

(* ReadBinary / ReadString:
     sz, err := r.ReadI32(); if err != nil { return nil, err }        (next(4), wrapped)
     if sz < 0 { return nil, errNegativeSize }
     b = dirtmake.Bytes(int(sz), int(sz)); _, err = r.readBinary(b)   (wrapped) *)
Definition s_binary (st : rstate) : rstate * sout unit :=
  match s_next st 4 with
  | (st1, SOk b) =>
    let sz := i32 (unbe b) in
    if (sz <? 0)%Z then (st1, SErr (SProto t_neg_size))
    else
      let '(st2, o) := r_readbinary st1 (Z.to_N sz) in
      match o with
      | ORead _ _ (Some e) => (st2, SErr (SWrap e))
      | ORead _ _ None => (st2, SOk tt)
      | _ => (st2, SCrash)
      end
  | (st1, SErr e) => (st1, SErr e)
  | (st1, SCrash) => (st1, SCrash)
  end.

(* ReadFieldBegin: next(1); STOP ends; next(2) *)
Definition s_field_begin (st : rstate) : rstate * sout unit :=
  match s_next st 1 with
  | (st1, SOk b) =>
    if Z.eqb (i8 (nth 0 b 0)) thrift_STOP then (st1, SOk tt) else s_skip_ok (s_next st1 2)
  | (st1, SErr e) => (st1, SErr e)
  | (st1, SCrash) => (st1, SCrash)
  end.

(* the item readers of BufferReader *)
Definition s_item (k : kind) (st : rstate) : rstate * sout unit :=
  match k with
  | KBool | KByte => s_skip_ok (s_next st 1)
  | KI16 => s_skip_ok (s_next st 2)
  | KI32 => s_skip_ok (s_next st 4)
  | KI64 | KDouble => s_skip_ok (s_next st 8)
  | KBinary | KString => s_binary st
  | KFieldBegin => s_field_begin st
  | KMapBegin => s_skip_ok (s_next st 6)
  | KListBegin | KSetBegin => s_skip_ok (s_next st 5)
  end.

(* ReadMessageBegin: header, err = r.ReadI32(); version check -> errBadVersion;
   name, err = r.ReadString(); seq, err = r.ReadI32() *)
Definition s_message_begin (st : rstate) : rstate * sout unit :=
  match s_next st 4 with
  | (st1, SOk b) =>
    let header := unbe b in
    if negb (N.land header (Z.to_N thrift_msgVersionMask) =? Z.to_N thrift_msgVersion1)
    then (st1, SErr (SProto t_bad_version))
    else
      match s_binary st1 with
      | (st2, SOk _) => s_skip_ok (s_next st2 4)
      | r => r
      end
  | (st1, SErr e) => (st1, SErr e)
  | (st1, SCrash) => (st1, SCrash)
  end.
