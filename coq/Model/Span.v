(* Model/Span.v — memory side of the decoders' ReadBinary / ReadString (C16).

   Go sources mirrored here
     github.com/bytedance/gopkg/lang/dirtmake   Bytes(len, cap)
     github.com/bytedance/gopkg/lang/span       spanClass, span.Make, spanCache.Make/Copy, NewSpan(Cache)
     protocol/thrift/binary.go:29-37            spanCache = span.NewSpanCache(1024*1024), SetSpanCache
     protocol/thrift/binary.go:326-365          Binary.ReadBinary / ReadString
     protocol/thrift/bufferreader.go:145-166    BufferReader.ReadBinary / ReadString

   Two layers share every definition:
     * the PLAN layer (no heap contents): which block / offset / len / cap a call returns, how the
       bump pointers move, whether a new block is allocated — pure arithmetic, cheap enough to run
       over 1 MiB spans in the correspondence check;
     * the HEAP layer ([Lib/Heap.v]): the plan applied to a block heap — the new block (dirty
       contents from an oracle) is appended and the value bytes are stored through the slice.
   Block ids are heap indices: the id of a block allocated by a call is the heap length [nb]
   at the call.  Oracles: [contended] (the CAS on span.lock lost against another goroutine),
   [capo] (capacity the Go runtime gives to []byte(string)), [dirt] (old contents of memory
   handed out by mallocgc(needzero=false)). *)
From GV Require Import Lib.Bytes Lib.Res Lib.Heap Gen.Consts Model.Binary Model.Unsafex Model.BufReader.
Open Scope N_scope.

(* ---------- dirtmake.Bytes(len, cap) ----------
   if len < 0 || len > cap { panic }; p := mallocgc(cap, nil, false); slice{p, len, cap}.
   A fresh block of [cap] bytes; returns the slice and the size of the block to allocate. *)
Definition dirtmake (nb : nat) (ln cp : Z) : res (gslice * N) :=
  if (ln <? 0)%Z || (cp <? ln)%Z then Panic 3
  else Ok ({| sptr := Some (nb, 0); slen := Z.to_N ln; scap := Z.to_N cp |}, Z.to_N cp).

(* ---------- span ---------- *)
Record span := {
  s_read : N;      (* read  uint32 : bump pointer *)
  s_size : N;      (* size  uint32 *)
  s_blk : nat;     (* block of b.buffer *)
  s_cap : N        (* cap(b.buffer) *)
}.

(* NewSpan(size): sp.size = uint32(size); sp.buffer = dirtmake.Bytes(0, size) *)
Definition new_span (nb : nat) (size : Z) : res (span * N) :=
  do (b, a) <- dirtmake nb 0 size;
  Ok ({| s_read := 0; s_size := u32 size; s_blk := nb; s_cap := scap b |}, a).

(* b.buffer[lo:hi:max] : panics unless lo <= hi <= max <= cap(b.buffer) *)
Definition slice3 (blk : nat) (bcap lo hi mx : N) : res gslice :=
  if (lo <=? hi) && (hi <=? mx) && (mx <=? bcap)
  then Ok {| sptr := Some (blk, lo); slen := hi - lo; scap := mx - lo |}
  else Panic 1.

Definition set_span (sp : span) (rd : N) (blk : nat) (cp : N) : span :=
  {| s_read := rd; s_size := s_size sp; s_blk := blk; s_cap := cp |}.

(* func (b *span) Make(_n int) []byte {
     n := uint32(_n)
     if n >= b.size || !atomic.CompareAndSwapUint32(&b.lock, 0, 1) { return dirtmake.Bytes(int(n), int(n)) }
   START:
     b.read += n                                            // uint32: wraps at 2^32
     if b.read <= b.size { buf := b.buffer[b.read-n : b.read : b.read]; unlock; return buf }
     b.buffer = dirtmake.Bytes(int(b.size), int(b.size)); b.read = 0; goto START }
   Returns the new span state, the slice and the size of the block allocated by the call (if any). *)
Definition span_make (sp : span) (n_ : Z) (contended : bool) (nb : nat) : res (span * gslice * option N) :=
  let n := u32 n_ in
  if (s_size sp <=? n) || contended then
    do (b, a) <- dirtmake nb (Z.of_N n) (Z.of_N n); Ok (sp, b, Some a)
  else
    let rd := (s_read sp + n) mod two32 in
    if rd <=? s_size sp then
      do b <- slice3 (s_blk sp) (s_cap sp) ((rd + two32 - n) mod two32) rd rd;
      Ok (set_span sp rd (s_blk sp) (s_cap sp), b, None)
    else
      do (nbuf, a) <- dirtmake nb (Z.of_N (s_size sp)) (Z.of_N (s_size sp));
      let rd2 := (0 + n) mod two32 in
      if rd2 <=? s_size sp then
        do b <- slice3 nb (scap nbuf) ((rd2 + two32 - n) mod two32) rd2 rd2;
        Ok (set_span sp rd2 nb (scap nbuf), b, Some a)
      else Panic 9.   (* Go would allocate again and loop; excluded because n < size here *)

(* func spanClass(size int) int { if size == 0 { return 0 }; return bits.Len(uint(size)) } *)
Definition span_class (n : Z) : Z :=
  if (n =? 0)%Z then 0%Z else Z.of_N (N.size (to_unsigned 64 n)).

Definition cache : Type := list span.

(* func (c *spanCache) Make(n int) []byte {
     sclass := spanClass(n) - minSpanClass
     if sclass < 0 || sclass >= len(c.spans) { return dirtmake.Bytes(n, n) }
     return c.spans[sclass].Make(n) } *)
Definition cache_make (c : cache) (n : Z) (contended : bool) (nb : nat) : res (cache * gslice * option N) :=
  let sclass := (span_class n - span_minSpanClass)%Z in
  if (sclass <? 0)%Z || (Z.of_nat (length c) <=? sclass)%Z then
    do (b, a) <- dirtmake nb n n; Ok (c, b, Some a)
  else
    match nth_error c (Z.to_nat sclass) with
    | Some sp =>
      do (sp', b, a) <- span_make sp n contended nb;
      Ok (set_nth (Z.to_nat sclass) sp' c, b, a)
    | None => Panic 2
    end.

(* NewSpanCache(spanSize): spanCacheSize spans, each with its own block; blocks nb, nb+1, ... *)
Fixpoint new_spans (k : nat) (nb : nat) (size : Z) : res (cache * list N) :=
  match k with
  | O => Ok ([], [])
  | S k' =>
    do (sp, a) <- new_span nb size;
    do (c, al) <- new_spans k' (S nb) size;
    Ok (sp :: c, a :: al)
  end.
Definition new_cache (nb : nat) (size : Z) : res (cache * list N) :=
  new_spans (Z.to_nat span_spanCacheSize) nb size.

(* the allocator of package thrift: span.NewSpanCache(1024 * 1024) *)
Definition thrift_span_size : Z := thrift_spanCache_size.

(* ---------- Binary.ReadBinary / ReadString: header checks (binary.go:326-339, 345-358) ----------
     sz, _, err := p.ReadI32(buf); if err != nil { return errReadBin }
     if sz < 0 { return errNegativeSize }
     l = 4 + int(sz); if len(buf) < l { return errReadBin }
     ... buf[4:l] ...                                                                   *)
Definition rb_header (ebase : Z) (buf : bytes) : res (bytes * N) :=
  match r_i32 buf with
  | Ok (sz, _) =>
    if (sz <? 0)%Z then Err e_neg_size
    else
      let l := 4 + Z.to_N sz in
      if len buf <? l then Err ebase
      else do v <- slice_range buf 4 l; Ok (v, l)
  | Err _ => Err ebase
  | Panic w => Panic w
  | OOB => OOB
  end.

(* []byte(string(v)): the runtime returns a new allocation of some capacity >= len (contract) *)
Definition go_bytes_copy (nb : nat) (v : bytes) (capo : N) : gslice * option N :=
  let cp := N.max capo (len v) in
  ({| sptr := Some (nb, 0); slen := len v; scap := cp |}, Some cp).
(* string(v): "" for an empty v; for a one-byte v the runtime may return a pointer into its
   read-only table of single-byte strings (runtime.staticuint64s: entry x is the little-endian
   uint64 x, so the byte x sits at offset 8*x; block [sb] of the heap) instead of allocating
   — [static] is that choice; otherwise a new allocation of exactly len v bytes (contract) *)
Definition static_table : bytes :=
  concat (map (fun x => N.of_nat x :: repeat 0 7) (seq 0 256)).
Definition go_string_copy (sb nb : nat) (v : bytes) (static : bool) : gstring * option N :=
  match v with
  | [] => (empty_string, None)
  | [x] => if static then ({| tptr := Some (sb, 8 * x); tlen := 1 |}, None)
           else ({| tptr := Some (nb, 0); tlen := 1 |}, Some 1)
  | _ => ({| tptr := Some (nb, 0); tlen := len v |}, Some (len v))
  end.

(* plan of ReadBinary(buf): (cache', result slice, block allocated, value bytes to copy, l)
     if spanCacheEnable { b = spanCache.Copy(buf[4:l]) } else { b = []byte(string(buf[4:l])) } *)
Definition rb_plan (enable : bool) (c : cache) (nb : nat) (buf : bytes) (contended : bool) (capo : N)
  : res (cache * gslice * option N * bytes * N) :=
  do (v, l) <- rb_header e_read_bin buf;
  if enable then
    do (c', b, a) <- cache_make c (Z.of_N (len v)) contended nb;
    Ok (c', b, a, v, l)
  else
    let '(b, a) := go_bytes_copy nb v capo in Ok (c, b, a, v, l).

(* plan of ReadString(buf): (cache', result, block allocated, where the bytes are copied to, value, l)
     if spanCacheEnable { data := spanCache.Copy(buf[4:l]); s = unsafex.BinaryToString(data) }
     else { s = string(buf[4:l]) }
   (nothing is written when string(v) is "" or comes from the static table) *)
Definition rs_plan (enable : bool) (c : cache) (sb nb : nat) (buf : bytes) (contended static : bool)
  : res (cache * gstring * option N * option ptr * bytes * N) :=
  do (v, l) <- rb_header e_read_str buf;
  if enable then
    do (c', b, a) <- cache_make c (Z.of_N (len v)) contended nb;
    Ok (c', binary_to_string b, a, sptr b, v, l)
  else
    let '(s, a) := go_string_copy sb nb v static in
    Ok (c, s, a, match a with Some _ => tptr s | None => None end, v, l).

(* ---------- heap effect of a plan ---------- *)
(* contents of a block handed out by mallocgc(needzero = false) *)
Definition fit (k : N) (dirt : bytes) : bytes := take k (dirt ++ repeat 0 (N.to_nat k)).
Definition apply_alloc (h : heap) (a : option N) (dirt : bytes) : heap :=
  match a with Some k => h ++ [fit k dirt] | None => h end.
(* copy(p, v) with len(p) = len(v) *)
Definition store (h : heap) (p : option ptr) (v : bytes) : heap :=
  match p with Some q => write h q v | None => h end.

(* Binary.ReadBinary(buf) on the heap: returns (heap', cache', b, l) *)
Definition read_binary (enable : bool) (h : heap) (c : cache) (inp : gslice)
           (contended : bool) (capo : N) (dirt : bytes) : res (heap * cache * gslice * N) :=
  do (c', b, a, v, l) <- rb_plan enable c (length h) (slice_bytes h inp) contended capo;
  Ok (store (apply_alloc h a dirt) (sptr b) (take (slen b) v), c', b, l).   (* copy(p, v) copies min(len p, len v) *)

(* Binary.ReadString(buf) on the heap *)
Definition read_string (enable : bool) (sb : nat) (h : heap) (c : cache) (inp : gslice)
           (contended static : bool) (dirt : bytes) : res (heap * cache * gstring * N) :=
  do (c', s, a, w, v, l) <- rs_plan enable c sb (length h) (slice_bytes h inp) contended static;
  Ok (store (apply_alloc h a dirt) w (take (tlen s) v), c', s, l).

(* a sequence of Makes on one cache: (n, contended) requests; block ids continue from nb *)
Fixpoint run_makes (c : cache) (nb : nat) (reqs : list (Z * bool)) : res (cache * nat * list gslice * list N) :=
  match reqs with
  | [] => Ok (c, nb, [], [])
  | (n, ct) :: r =>
    do (c1, b, a) <- cache_make c n ct nb;
    let nb1 := match a with Some _ => S nb | None => nb end in
    do (c2, nb2, bs, al) <- run_makes c1 nb1 r;
    Ok (c2, nb2, b :: bs, match a with Some k => k :: al | None => al end)
  end.

(* ---------- BufferReader (stream) ---------- *)
(* ReadI32: b, err := r.next(4) (errors of the bufiox reader are wrapped, code kept);
   v = int32(binary.BigEndian.Uint32(b)) *)
Definition sr_read_i32 (st : rstate) : rstate * res Z :=
  let '(st', o) := r_next st 4 in
  match o with
  | OBytes bs => (st', Ok (i32 (unbe bs)))
  | OErr e => (st', Err e)
  | _ => (st', Panic 4)       (* (nil, nil) from Next: BigEndian.Uint32(nil) would panic *)
  end.

(* ReadBinary:  sz, err := r.ReadI32(); if err != nil { return nil, err }
                if sz < 0 { return nil, errNegativeSize }
                b = dirtmake.Bytes(int(sz), int(sz)); _, err = r.readBinary(b); return
   plan: (b, block size, bytes copied to the start of b, error of the copy-read).
   Note: on a read error the (partly filled) slice is returned together with the error. *)
Definition sr_plan_binary (st : rstate) (nb : nat) : rstate * res (gslice * N * bytes * option Z) :=
  let '(st1, r) := sr_read_i32 st in
  match r with
  | Ok sz =>
    if (sz <? 0)%Z then (st1, Err e_neg_size)
    else
      match dirtmake nb sz sz with
      | Ok (b, a) =>
        let '(st2, o) := r_readbinary st1 (Z.to_N sz) in
        match o with
        | ORead _ bs e => (st2, Ok (b, a, bs, e))
        | _ => (st2, Panic 5)
        end
      | Err e => (st1, Err e)
      | Panic w => (st1, Panic w)
      | OOB => (st1, OOB)
      end
  | Err e => (st1, Err e)
  | Panic w => (st1, Panic w)
  | OOB => (st1, OOB)
  end.

(* BufferReader.ReadBinary on the heap: (heap', b, err) *)
Definition stream_read_binary (h : heap) (st : rstate) (dirt : bytes)
  : rstate * res (heap * gslice * option Z) :=
  let '(st', r) := sr_plan_binary st (length h) in
  (st', do (b, a, bs, e) <- r; Ok (store (apply_alloc h (Some a) dirt) (sptr b) bs, b, e)).

(* BufferReader.ReadString: b, err := r.ReadBinary(); if err != nil { return "", err };
   return unsafex.BinaryToString(b), nil *)
Definition stream_read_string (h : heap) (st : rstate) (dirt : bytes)
  : rstate * res (heap * gstring * option Z) :=
  let '(st', r) := stream_read_binary h st dirt in
  (st', do (h', b, e) <- r;
        match e with
        | Some _ => Ok (h', empty_string, e)
        | None => Ok (h', binary_to_string b, None)
        end).
