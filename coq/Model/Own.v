(* Model/Own.v — the shared world of the heap-level (ownership) models (C09, C14).

   A [world] is a block heap (Lib/Heap.v: block id = index, capacity = length of the block),
   the modelled mcache pool (ids of the blocks mcache.Free accepted and nobody took since) and
   the blocks currently in the hands of the ADVERSARIAL CO-TENANT (any other user of the
   process-wide pool).  Allocation takes its answer from an ORACLE ([achoice]): a fresh block
   with arbitrary dirty contents, or any block currently in the pool whose capacity is the
   requested size class, with whatever contents it has.  mcache.Free moves a block into the
   pool and — as the real one — ignores every capacity that is not a power of two.
   The co-tenant may, at every point where foreign code can run (between two operations and
   inside every io.Reader/io.Writer callback), allocate from the pool, scribble over blocks it
   holds and free them.

   Every memory access, allocation and free of a modelled object is logged as an [event]
   (ghost output); [mon] is the executable ownership monitor over such a trace.
   Definitions only — lemmas are in Proofs/OwnLib.v. *)
From GV Require Import Lib.Bytes Lib.Res Lib.Heap Gen.Consts.
Open Scope N_scope.

(* ---------- slices with block identity ---------- *)
Record bslice := mkS { sblk : nat; soff : N; sln : N; scp : N }.   (* block, offset, len, cap *)

(* ---------- world ---------- *)
Record world := mkW { wh : heap; wpool : list nat; wcot : list nat }.

Definition empty_world : world := mkW [] [] [].

Definition memb (b : nat) (l : list nat) : bool := existsb (Nat.eqb b) l.
Fixpoint remove1 (b : nat) (l : list nat) : list nat :=
  match l with
  | [] => []
  | x :: r => if Nat.eqb x b then r else x :: remove1 b r
  end.

(* mcache.Malloc: cap = 1 << calcIndex(c) = the next power of two >= c (1 for c = 0) *)
Definition pow2ceil (c : N) : N := 2 ^ N.log2_up c.
(* mcache.isPowerOfTwo: x != 0 && x & -x == x *)
Definition is_pow2 (c : N) : bool := (0 <? c) && (c =? 2 ^ N.log2 c).

(* a new block of capacity [c] with dirty contents [d] (cut or zero-padded to exactly c bytes) *)
Definition mkbuf (c : N) (d : bytes) : bytes := take c (d ++ repeat 0 (N.to_nat c)).

(* allocator oracle *)
Inductive achoice : Type :=
| Fresh (dirty : bytes)      (* sync.Pool.New / the GC heap: a block nobody has seen, dirty contents *)
| Pooled (b : nat).          (* sync.Pool.Get: a block of the pool (must have the right capacity) *)

Definition w_fresh (w : world) (c : N) (d : bytes) : world * nat :=
  (mkW (wh w ++ [mkbuf c d]) (wpool w) (wcot w), length (wh w)).

(* a block of capacity exactly [c]; an illegal oracle answer falls back to a fresh block *)
Definition w_alloc (w : world) (c : N) (ch : achoice) : world * nat :=
  match ch with
  | Pooled b =>
    if memb b (wpool w) && (len (block (wh w) b) =? c)
    then (mkW (wh w) (remove1 b (wpool w)) (wcot w), b)
    else w_fresh w c []
  | Fresh d => w_fresh w c d
  end.
(* dirtmake.Bytes / make: the GC never hands out a block anybody still references *)
Definition w_gcalloc (w : world) (c : N) (ch : achoice) : world * nat :=
  match ch with
  | Pooled _ => w_fresh w c []
  | Fresh d => w_fresh w c d
  end.

(* mcache.Free(buf): looks only at cap(buf) and the data pointer *)
Definition w_free (w : world) (s : bslice) : world :=
  if is_pow2 (scp s) then mkW (wh w) (sblk s :: wpool w) (wcot w) else w.

(* ---------- the co-tenant ---------- *)
Inductive costep : Type :=
| CoAlloc (c : N) (ch : achoice)              (* take a block of capacity c *)
| CoWrite (b : nat) (off : N) (v : bytes)     (* scribble over a block it holds *)
| CoFree (b : nat).                            (* mcache.Free it (or just drop it when not a power of two) *)

Definition co_step (w : world) (s : costep) : world :=
  match s with
  | CoAlloc c ch =>
    let '(w', b) := w_alloc w c ch in mkW (wh w') (wpool w') (b :: wcot w')
  | CoWrite b off v =>
    if memb b (wcot w) && (off + len v <=? len (block (wh w) b))
    then mkW (write (wh w) (b, off) v) (wpool w) (wcot w) else w
  | CoFree b =>
    if memb b (wcot w)
    then mkW (wh w) (if is_pow2 (len (block (wh w) b)) then b :: wpool w else wpool w) (remove1 b (wcot w))
    else w
  end.
Definition co_run (w : world) (l : list costep) : world := fold_left co_step l w.

(* ---------- ghost trace ---------- *)
Inductive event : Type :=
| EvAlloc (b : nat)                       (* block obtained from the allocator (mcache or GC) *)
| EvRead (b : nat) (off n : N)
| EvWrite (b : nat) (off n : N)
| EvFree (b : nat) (off cp blen : N)      (* mcache.Free of a slice (off, cap cp) of block b whose real capacity is blen *)
| EvLend (b : nat) (ro : bool)            (* the caller passes a block: read-only (ro) or writable but never to be freed *)
| EvGive (b : nat)                        (* the object hands a block over to the caller for good (BytesWriter flush) *)
| EvDrop (b : nat).                       (* the object forgets a block without freeing it (left to the GC) *)

(* environment threaded through one operation: world, remaining oracle answers, remaining
   co-tenant scripts — one per io callback point ([eadv]) and one per pool operation ([epool]:
   the co-tenant may act between any two operations on the shared pool) — and the trace (newest
   first) *)
Record env := mkE { ew : world; eal : list achoice; eadv : list (list costep); epool : list (list costep);
                    eev : list event }.

Definition emit (e : env) (ev : event) : env := mkE (ew e) (eal e) (eadv e) (epool e) (ev :: eev e).
Definition pop_choice (e : env) : achoice * env :=
  match eal e with
  | [] => (Fresh [], e)
  | c :: r => (c, mkE (ew e) r (eadv e) (epool e) (eev e))
  end.
(* a point where foreign code runs (io.Reader.Read / io.Writer.Write of the user): the
   co-tenant executes its next script *)
Definition e_callback (e : env) : env :=
  match eadv e with
  | [] => e
  | s :: r => mkE (co_run (ew e) s) (eal e) r (epool e) (eev e)
  end.
(* a pool operation boundary: other users of the pool may have run since the last one *)
Definition e_poolpoint (e : env) : env :=
  match epool e with
  | [] => e
  | s :: r => mkE (co_run (ew e) s) (eal e) (eadv e) r (eev e)
  end.
(* mcache.Malloc(size, cap): block of capacity pow2ceil (max size cap) *)
Definition e_malloc (e : env) (c : N) : env * nat :=
  let e0 := e_poolpoint e in
  let '(ch, e1) := pop_choice e0 in
  let '(w', b) := w_alloc (ew e1) (pow2ceil c) ch in
  (mkE w' (eal e1) (eadv e1) (epool e1) (EvAlloc b :: eev e1), b).
(* dirtmake.Bytes(len, cap): block of capacity exactly c from the GC heap *)
Definition e_gcalloc (e : env) (c : N) : env * nat :=
  let '(ch, e1) := pop_choice e in
  let '(w', b) := w_gcalloc (ew e1) c ch in
  (mkE w' (eal e1) (eadv e1) (epool e1) (EvAlloc b :: eev e1), b).
Definition e_free (e : env) (s : bslice) : env :=
  let e1 := mkE (w_free (ew e) s) (eal e) (eadv e) (epool e)
                (EvFree (sblk s) (soff s) (scp s) (len (block (wh (ew e)) (sblk s))) :: eev e) in
  (* the pool is touched only when mcache accepts the buffer *)
  if is_pow2 (scp s) then e_poolpoint e1 else e1.
(* copy into block b at offset off; an empty copy touches nothing *)
Definition e_write (e : env) (b : nat) (off : N) (v : bytes) : env :=
  match v with
  | [] => e
  | _ => mkE (mkW (write (wh (ew e)) (b, off) v) (wpool (ew e)) (wcot (ew e))) (eal e) (eadv e) (epool e)
             (EvWrite b off (len v) :: eev e)
  end.
Definition e_read (e : env) (b : nat) (off n : N) : env * bytes :=
  let v := read (wh (ew e)) (Some (b, off)) n in
  (if n =? 0 then e else emit e (EvRead b off n), v).
(* the caller materialises a buffer of its own (NewBytesReader argument, WriteBinary payload,
   NewBytesWriter target) and lends it *)
Definition e_lend (e : env) (contents : bytes) (ro : bool) : env * nat :=
  let w := ew e in
  (mkE (mkW (wh w ++ [contents]) (wpool w) (wcot w)) (eal e) (eadv e) (epool e) (EvLend (length (wh w)) ro :: eev e),
   length (wh w)).

(* ---------- the ownership monitor ----------
   owned: blocks the object obtained from an allocator and has not freed/given away
   lent : caller blocks it may write but must never free   ro: caller blocks it may only read *)
Record mstate := mkM { mowned : list nat; mlent : list nat; mro : list nat }.
Definition m0 : mstate := mkM [] [] [].

Definition mon_step (m : mstate) (ev : event) : option mstate :=
  match ev with
  | EvAlloc b =>
    if memb b (mowned m) || memb b (mlent m) || memb b (mro m) then None
    else Some (mkM (b :: mowned m) (mlent m) (mro m))
  | EvRead b _ _ =>
    if memb b (mowned m) || memb b (mlent m) || memb b (mro m) then Some m else None
  | EvWrite b _ _ =>
    if memb b (mowned m) || memb b (mlent m) then Some m else None
  | EvFree b off cp blen =>
    (* only owned blocks, only whole blocks (data pointer = block base, capacity = real capacity);
       whether or not mcache accepts it, the object gives the block up *)
    if memb b (mowned m) && (off =? 0) && (cp =? blen)
    then Some (mkM (remove1 b (mowned m)) (mlent m) (mro m)) else None
  | EvLend b ro =>
    if memb b (mowned m) || memb b (mlent m) || memb b (mro m) then None
    else Some (if ro then mkM (mowned m) (mlent m) (b :: mro m) else mkM (mowned m) (b :: mlent m) (mro m))
  | EvGive b =>
    if memb b (mowned m) then Some (mkM (remove1 b (mowned m)) (mlent m) (b :: mro m))
    else if memb b (mlent m) then Some m else None
  | EvDrop b =>
    if memb b (mowned m) then Some (mkM (remove1 b (mowned m)) (mlent m) (mro m))
    else if memb b (mlent m) then Some m else None
  end.

Fixpoint mon (m : mstate) (tr : list event) : option mstate :=
  match tr with
  | [] => Some m
  | ev :: r => match mon_step m ev with Some m' => mon m' r | None => None end
  end.

(* ---------- sources (io.Reader), as in DESIGN §4 ---------- *)
Definition e_eof : Z := 20.          (* io.EOF *)
Definition e_injected : Z := 21.     (* an error value injected by the test source *)
Definition e_noprogress : Z := 22.   (* io.ErrNoProgress *)
Definition e_negcount : Z := 23.     (* errNegativeCount *)
Definition e_sink : Z := 24.         (* error injected by the test sink *)

Record source := mkSrc {
  sdata : bytes;        (* everything the source will ever deliver *)
  sfinal : Z;           (* error reported once the data is exhausted *)
  swith : bool;         (* true: the error accompanies the last bytes *)
  schunks : list N;     (* fragmentation script *)
  spos : N              (* bytes delivered so far *)
}.

(* One Read(p) with len(p) = room.  Returns (bytes, error option, source'). *)
Definition src_read (s : source) (room : N) : bytes * option Z * source :=
  let remaining := len (sdata s) - spos s in
  let '(c, rest) := match schunks s with [] => (room, []) | c :: r => (c, r) end in
  if remaining =? 0 then
    ([], Some (sfinal s), mkSrc (sdata s) (sfinal s) (swith s) rest (spos s))
  else
    let m := N.min c (N.min room remaining) in
    let bs := take m (drop (spos s) (sdata s)) in
    let s' := mkSrc (sdata s) (sfinal s) (swith s) rest (spos s + m) in
    if swith s && (m =? remaining) && negb (m =? 0) then (bs, Some (sfinal s), s') else (bs, None, s').

(* a source that is already exhausted: exactly fakeIOReader (Read = 0, io.EOF); [sdata] is kept
   as the ghost stream of a bytes-backed reader *)
Definition done_source (data : bytes) : source := mkSrc data e_eof false [] (len data).

Definition bufsz : N := Z.to_N bufiox_defaultBufSize.
Definition max_empty : nat := Z.to_nat bufiox_maxConsecutiveEmptyReads.
Definition nbuckets : N := Z.to_N bufiox_statsBucketNum.

(* maxSizeStats *)
Definition stat_max (bk : list N) : N := fold_left (fun m s => if m <? s then s else m) bk 0.
Definition stat_update (bk : list N) (i : N) (size : N) : list N * N :=
  (set_nth (N.to_nat i) size bk, (i + 1) mod nbuckets).

(* for ; m < n; m *= 2 {} *)
Fixpoint double_until (fuel : nat) (m n : N) : N :=
  if m <? n then match fuel with O => m | S f => double_until f (2 * m) n end else m.
(* for ncap = ...; ncap-r < n; ncap *= 2 {} *)
Fixpoint grow_until (fuel : nat) (ncap r n : N) : N :=
  if ncap - r <? n then match fuel with O => ncap | S f => grow_until f (2 * ncap) r n end else ncap.
Definition loop_fuel (n : N) : nat := S (N.to_nat (N.log2 n)).
