(* Model/Errors.v — protocol/thrift/exception.go: the exception types, PrependError,
   NewProtocolExceptionWithErr, ProtocolException.Is/Unwrap, ApplicationException.Error,
   and the part of the standard [errors] package they interact with (errors.Is, errors.Unwrap).

   Go strings are byte strings: [bytes] (= list N).  Type ids are Go int32 values, carried as [Z].

   Identity.  Every error value the Go code handles here is a pointer (or, for foreign
   exceptions, possibly a comparable struct value), and errors.Is starts with [err == target].
   A model value therefore carries the identity of the object it stands for: an [id] (think:
   the address).  Functions that allocate ([prepend], [wrap_protocol]) take the fresh id as an
   argument.  [same a b] is Go's interface equality [a == b]: equal dynamic types and equal
   pointers (ids) — for a foreign exception passed by value, equal field values.

     Plain id s           *errors.errorString            errors.New(s)
     Wrapped id s c       *fmt.wrapError                 fmt.Errorf("%s%w", s, c): text s ++ text c, Unwrap() = c
     Transport id t m     *thrift.TransportException     {t, m}
     Protocol id t m c    *thrift.ProtocolException      {t, m, err = c}   (c = None: nil)
     App id t m           *thrift.ApplicationException   {t, m}
     Foreign bv id t s    any other type with Error() string = s and TypeId() int32 = t
                          (bv = true: a comparable struct passed by value; false: a pointer)
     Opaque id s          an error of a NON-comparable dynamic type (e.g. a slice type) with Error() = s
                          and no other method: Go's errors.Is never applies [==] to it, and [==]
                          between two such values panics, so [same] is false for it — even against
                          itself — and code that compares it with [==] is outside the model (a panic
                          the harness reports). *)
From GV Require Import Lib.Bytes Lib.Res Gen.Consts.
Open Scope N_scope.

Inductive err : Type :=
| Plain (id : N) (s : bytes)
| Wrapped (id : N) (s : bytes) (c : err)
| Transport (id : N) (t : Z) (m : bytes)
| Protocol (id : N) (t : Z) (m : bytes) (c : option err)
| App (id : N) (t : Z) (m : bytes)
| Foreign (byval : bool) (id : N) (t : Z) (s : bytes)
| Opaque (id : N) (s : bytes).

(* dynamic type as seen by a type switch *)
Inductive kind : Type := KPlain | KWrapped | KTransport | KProtocol | KApp | KForeign | KOpaque.

Definition kind_of (e : err) : kind :=
  match e with
  | Plain _ _ => KPlain
  | Wrapped _ _ _ => KWrapped
  | Transport _ _ _ => KTransport
  | Protocol _ _ _ _ => KProtocol
  | App _ _ _ => KApp
  | Foreign _ _ _ _ => KForeign
  | Opaque _ _ => KOpaque
  end.

(* ---------- strings ---------- *)
Fixpoint str_bytes (s : string) : bytes :=
  match s with
  | EmptyString => []
  | String a r => N_of_ascii a :: str_bytes r
  end.

(* fmt %d of an integer (decimal digits of Z.to_int, '-' for negatives) *)
Fixpoint uint_bytes (d : Decimal.uint) : bytes :=
  match d with
  | Decimal.Nil => []
  | Decimal.D0 r => 48 :: uint_bytes r
  | Decimal.D1 r => 49 :: uint_bytes r
  | Decimal.D2 r => 50 :: uint_bytes r
  | Decimal.D3 r => 51 :: uint_bytes r
  | Decimal.D4 r => 52 :: uint_bytes r
  | Decimal.D5 r => 53 :: uint_bytes r
  | Decimal.D6 r => 54 :: uint_bytes r
  | Decimal.D7 r => 55 :: uint_bytes r
  | Decimal.D8 r => 56 :: uint_bytes r
  | Decimal.D9 r => 57 :: uint_bytes r
  end.
Definition dec (z : Z) : bytes :=
  match Z.to_int z with
  | Decimal.Pos d => uint_bytes d
  | Decimal.Neg d => 45 :: uint_bytes d
  end.

(* The generated table and the format literal as byte strings.  Evaluated when this file is
   compiled (i.e. on every run, from the regenerated Gen/Consts.v), so that the extracted model
   carries plain byte lists; Proofs/ErrorsP.v proves the equations [default_table_ok]. *)
Definition default_table : list (Z * bytes) :=
  Eval vm_compute in map (fun kv => (fst kv, str_bytes (snd kv))) thrift_defaultApplicationExceptionMessage.
Definition unknown_pre : bytes := Eval vm_compute in str_bytes "unknown exception type [".
Definition unknown_post : bytes := Eval vm_compute in str_bytes "]".

(* Go map lookup defaultApplicationExceptionMessage[t] (keys of a map literal are distinct) *)
Fixpoint lookup (t : Z) (tbl : list (Z * bytes)) : option bytes :=
  match tbl with
  | [] => None
  | (k, v) :: r => if (k =? t)%Z then Some v else lookup t r
  end.

(* ApplicationException.Error — promoted to Transport/ProtocolException by embedding:
     if e.m != "" { return e.m }
     if m, ok := defaultApplicationExceptionMessage[e.t]; ok { return m }
     return fmt.Sprintf("unknown exception type [%d]", e.t) *)
Definition default_text (t : Z) : bytes :=
  match lookup t default_table with
  | Some s => s
  | None => unknown_pre ++ dec t ++ unknown_post
  end.

Definition app_text (t : Z) (m : bytes) : bytes :=
  match m with
  | _ :: _ => m
  | [] => default_text t
  end.

(* err.Error() *)
Fixpoint text (e : err) : bytes :=
  match e with
  | Plain _ s => s
  | Wrapped _ s c => s ++ text c
  | Transport _ t m => app_text t m
  | Protocol _ t m _ => app_text t m
  | App _ t m => app_text t m
  | Foreign _ _ _ s => s
  | Opaque _ s => s
  end.

(* Msg() of the three thrift kinds: the stored field, without the default-message fallback *)
Definition msg_of (e : err) : option bytes :=
  match e with
  | Transport _ _ m | Protocol _ _ m _ | App _ _ m => Some m
  | _ => None
  end.

(* err.(tException): has Error() and TypeId() *)
Definition type_id (e : err) : option Z :=
  match e with
  | Transport _ t _ | Protocol _ t _ _ | App _ t _ | Foreign _ _ t _ => Some t
  | Plain _ _ | Wrapped _ _ _ | Opaque _ _ => None
  end.

(* Go interface equality err == target *)
Definition same (a b : err) : bool :=
  match a, b with
  | Plain i _, Plain j _ => i =? j
  | Wrapped i _ _, Wrapped j _ _ => i =? j
  | Transport i _ _, Transport j _ _ => i =? j
  | Protocol i _ _ _, Protocol j _ _ _ => i =? j
  | App i _ _, App j _ _ => i =? j
  | Foreign false i _ _, Foreign false j _ _ => i =? j
  | Foreign true _ t s, Foreign true _ t' s' => (t =? t')%Z && beqb s s'
  | _, _ => false
  end.

(* ---------- constructors of exception.go ---------- *)
Definition new_transport (id : N) (t : Z) (m : bytes) : err := Transport id t m.
Definition new_protocol (id : N) (t : Z) (m : bytes) : err := Protocol id t m None.
Definition new_app (id : N) (t : Z) (m : bytes) : err := App id t m.

(* NewProtocolExceptionWithErr(err):
     e, ok := err.(ptr ProtocolException); if ok { return e }
     ret := NewProtocolException(UNKNOWN_PROTOCOL_EXCEPTION, err.Error()); ret.err = err *)
Definition wrap_protocol (nid : N) (e : err) : err :=
  match e with
  | Protocol _ _ _ _ => e
  | _ => Protocol nid thrift_UNKNOWN_PROTOCOL_EXCEPTION (text e) (Some e)
  end.

(* PrependError(prepend, err): the four type tests in source order, then errors.New *)
Definition prepend (nid : N) (p : bytes) (e : err) : err :=
  match e with
  | Transport _ t _ => new_transport nid t (p ++ text e)
  | Protocol _ t _ _ => new_protocol nid t (p ++ text e)
  | App _ t _ => new_app nid t (p ++ text e)
  | Foreign _ _ t _ => new_app nid t (p ++ text e)
  | Plain _ _ | Wrapped _ _ _ | Opaque _ _ => Plain nid (p ++ text e)
  end.

(* a nil error: every type test fails and err.Error() dereferences nil *)
Definition prepend_o (nid : N) (p : bytes) (e : option err) : res err :=
  match e with
  | None => Panic 3
  | Some e => Ok (prepend nid p e)
  end.
Definition wrap_protocol_o (nid : N) (e : option err) : res err :=
  match e with
  | None => Panic 3
  | Some e => Ok (wrap_protocol nid e)
  end.

(* ---------- errors.Unwrap / errors.Is ---------- *)
(* errors.Unwrap: the Unwrap() error method when present, else nil *)
Definition unwrap (e : err) : option err :=
  match e with
  | Wrapped _ _ c => Some c
  | Protocol _ _ _ c => c
  | _ => None
  end.

(* the first half of ProtocolException.Is:  t, ok := err.(tException); ok && t.TypeId() == e.t && t.Error() == e.m *)
Definition texc_match (t : Z) (m : bytes) (x : err) : bool :=
  match type_id x with
  | Some tx => (tx =? t)%Z && beqb (text x) m
  | None => false
  end.

(* errors.Is(err, target) for non-nil err and target (the loop of errors.is, one iteration per
   constructor):
     if err == target { return true }
     if x has Is(error) bool && x.Is(target) { return true }       -- only *ProtocolException
     if x has Unwrap() error { err = x.Unwrap(); if err == nil { return false }; continue }
     return false
   ProtocolException.Is(target) = texc_match || errors.Is(e.err, target), and
   errors.Is(nil, target) = false for a non-nil target. *)
Fixpoint is (e x : err) : bool :=
  same e x ||
  match e with
  | Protocol _ t m c =>
      (texc_match t m x || match c with Some c' => is c' x | None => false end)
      || match c with Some c' => is c' x | None => false end
  | Wrapped _ _ c => is c x
  | _ => false
  end.

Definition is_o (c : option err) (x : err) : bool :=
  match c with Some c' => is c' x | None => false end.
