(* Model/StreamCodec.v — thrift.BufferWriter (protocol/thrift/bufferwriter.go:49-179) and
   thrift.BufferReader (protocol/thrift/bufferreader.go:54-242), method by method, as the exact
   sequence of bufiox.Writer / bufiox.Reader operations each Go method performs, executed on the
   writer model (Model/BufWriter.v) and the reader model (Model/BufReader.v).

   Writer side.  Every Write* method is: buf, err := w.w.Malloc(k); if err != nil { return err };
   a few stores through buf; (WriteBinary only) w.w.WriteBinary(v).  A method is a list of [swop];
   [bw_run] performs them in order on a writer state and returns at the first error, exactly as
   the Go code does.  The stores go through the region the Malloc returned, i.e. region number
   [nregions st] of the writer model (the result of the k-th successful Malloc).

   Reader side.  next / readBinary / skipn wrap a source error e into a protocol exception
   (NewProtocolExceptionWithErr): error code [wrap e].  The slice returned by Next is indexed with
   Go's checked operations ([index], [get_be]: Panic when too short), so a reader that returned
   fewer bytes than requested without an error would show up as a Panic, not as a value. *)
From GV Require Import Lib.Bytes Lib.Res Lib.Heap Gen.Consts Spec.Log Model.Binary Model.BufWriter Model.BufReader.
Open Scope N_scope.

(* ====================== BufferWriter ====================== *)

Inductive swop : Type :=
| SMalloc (n : N) (stores : list (N * bytes))   (* buf := Malloc(n); then copy(buf[off:], bs) for each (off, bs), in order *)
| SWriteBinary (v : bytes).                     (* w.w.WriteBinary(v) *)

(* byte(uint16(id>>8)) : arithmetic shift of the int16 *)
Definition id_hi (id : Z) : N := (u16 (id / 256)%Z) mod 256.

Definition sw_item (it : item) : list swop :=
  match it with
  | IBool v => [SMalloc 1 [(0, [if v then 1 else 0])]]
  | IByte v => [SMalloc 1 [(0, [u8 v])]]
  | II16 v => [SMalloc 2 [(0, be 2 (u16 v))]]
  | II32 v => [SMalloc 4 [(0, be 4 (u32 v))]]
  | II64 v => [SMalloc 8 [(0, be 8 (u64 v))]]
  | IDouble v => [SMalloc 8 [(0, be 8 (v mod two64))]]
  | IBinary v | IString v => [SMalloc 4 [(0, be 4 (len v mod two32))]; SWriteBinary v]
  | IFieldBegin t id => [SMalloc 3 [(0, [u8 t; id_hi id; u8 id])]]       (* buf[0], buf[1], buf[2] = ... *)
  | IFieldStop => [SMalloc 1 [(0, [u8 thrift_STOP])]]
  | IMapBegin kt vt sz => [SMalloc 6 [(0, [u8 kt; u8 vt]); (2, be 4 (u32 sz))]]
  | IListBegin et sz | ISetBegin et sz => [SMalloc 5 [(0, [u8 et]); (1, be 4 (u32 sz))]]
  end.

(* buf := Malloc(MessageBeginLength(name)); PutUint32(buf, ..); PutUint32(buf[4:], len);
   copy(buf[8:], name); PutUint32(buf[8+len(name):], seq) *)
Definition sw_message_begin (name : bytes) (ty seq : Z) : list swop :=
  [SMalloc (l_message_begin name)
     [(0, be 4 (msg_first_word ty)); (4, be 4 (len name mod two32)); (8, name); (8 + len name, be 4 (u32 seq))]].

(* number of regions handed out so far = index of the next one *)
Definition nregions (st : wstate) : nat := (nstale st + length (live st))%nat.

(* the bufiox.Writer history one swop amounts to, when the next region has index k *)
Definition swop_hist (k : nat) (o : swop) : list wop :=
  match o with
  | SMalloc n stores => OMalloc (Z.of_N n) :: map (fun p => OFill k (fst p) (snd p)) stores
  | SWriteBinary v => [OWrite v]
  end.

(* the stores of one method through region k; a store outside the region is a Go panic *)
Fixpoint bw_stores (dirty : nat -> bytes) (st : wstate) (k : nat) (stores : list (N * bytes)) : res wstate :=
  match stores with
  | [] => Ok st
  | (off, bs) :: r =>
    let '(st1, ob) := wstep dirty st (OFill k off bs) in
    if (o_err ob =? E_NONE)%Z then bw_stores dirty st1 k r else Panic 1
  end.

(* one BufferWriter method: the first error is returned at once; WriteBinary's byte count is ignored *)
Fixpoint bw_run (dirty : nat -> bytes) (st : wstate) (ops : list swop) : res (wstate * Z) :=
  match ops with
  | [] => Ok (st, E_NONE)
  | SMalloc n stores :: r =>
    let k := nregions st in
    let '(st1, ob) := wstep dirty st (OMalloc (Z.of_N n)) in
    if (o_err ob =? E_PANIC)%Z || (o_err ob =? E_FUEL)%Z then Panic 2
    else if (o_err ob =? E_NONE)%Z then
      do st2 <- bw_stores dirty st1 k stores;
      bw_run dirty st2 r
    else Ok (st1, o_err ob)
  | SWriteBinary v :: r =>
    let '(st1, ob) := wstep dirty st (OWrite v) in
    if (o_err ob =? E_PANIC)%Z || (o_err ob =? E_FUEL)%Z then Panic 2
    else if (o_err ob =? E_NONE)%Z || (o_err ob =? E_SHORT)%Z then bw_run dirty st1 r
    else Ok (st1, o_err ob)
  end.

Definition bw_item (dirty : nat -> bytes) (st : wstate) (it : item) : res (wstate * Z) :=
  bw_run dirty st (sw_item it).
Definition bw_message_begin (dirty : nat -> bytes) (st : wstate) (name : bytes) (ty seq : Z) : res (wstate * Z) :=
  bw_run dirty st (sw_message_begin name ty seq).

(* a sequence of methods; the caller stops at the first error *)
Fixpoint bw_items (dirty : nat -> bytes) (st : wstate) (its : list item) : res (wstate * list Z) :=
  match its with
  | [] => Ok (st, [])
  | it :: r =>
    do (st1, e) <- bw_item dirty st it;
    if (e =? E_NONE)%Z then
      do (st2, es) <- bw_items dirty st1 r; Ok (st2, e :: es)
    else Ok (st1, [e])
  end.

(* ====================== BufferReader ====================== *)

(* NewProtocolExceptionWithErr(err) for an err that is not a protocol exception *)
Definition wrap (e : Z) : Z := (100 + e)%Z.
Definition e_short_nil : Z := 30.   (* ReadBinary: fewer bytes than requested and a nil error (never happens) *)

Definition srd (A : Type) : Type := (rstate * res A)%type.

(* r.next(n) *)
Definition sr_next (st : rstate) (n : Z) : srd bytes :=
  let '(st', o) := r_next st n in
  match o with
  | OBytes b => (st', Ok b)
  | OErr e => (st', Err (wrap e))
  | ONil => (st', Ok [])              (* (nil, nil) *)
  | _ => (st', Panic 3)
  end.

(* r.skipn(n) *)
Definition sr_skipn (st : rstate) (n : Z) : srd unit :=
  if (n <? 0)%Z then (st, Err e_neg_size)
  else
    let '(st', o) := r_skip st n in
    match o with
    | OUnit => (st', Ok tt)
    | OErr e => (st', Err (wrap e))
    | _ => (st', Panic 3)
    end.

(* binary.BigEndian.UintK(b) : panics unless len(b) >= k *)
Definition get_be (k : N) (b : bytes) : res N :=
  if len b <? k then Panic 2 else Ok (unbe (take k b)).

Definition sr_bool (st : rstate) : srd bool :=
  let '(st1, r) := sr_next st 1 in
  (st1, do b <- r; do x <- index b 0; Ok (x =? 1)).
Definition sr_byte (st : rstate) : srd Z :=
  let '(st1, r) := sr_next st 1 in
  (st1, do b <- r; do x <- index b 0; Ok (i8 x)).
Definition sr_i16 (st : rstate) : srd Z :=
  let '(st1, r) := sr_next st 2 in
  (st1, do b <- r; do x <- get_be 2 b; Ok (i16 x)).
Definition sr_i32 (st : rstate) : srd Z :=
  let '(st1, r) := sr_next st 4 in
  (st1, do b <- r; do x <- get_be 4 b; Ok (i32 x)).
Definition sr_i64 (st : rstate) : srd Z :=
  let '(st1, r) := sr_next st 8 in
  (st1, do b <- r; do x <- get_be 8 b; Ok (i64 x)).
Definition sr_double (st : rstate) : srd N :=
  let '(st1, r) := sr_next st 8 in
  (st1, do b <- r; get_be 8 b).

(* ReadBinary: sz := ReadI32(); sz < 0 -> errNegativeSize; b := dirtmake.Bytes(sz, sz); _, err = r.readBinary(b) *)
Definition sr_binary (st : rstate) : srd bytes :=
  let '(st1, r) := sr_i32 st in
  match r with
  | Ok sz =>
    if (sz <? 0)%Z then (st1, Err e_neg_size)
    else
      let '(st2, o) := r_readbinary st1 (Z.to_N sz) in
      match o with
      | ORead m bs None => if m =? Z.to_N sz then (st2, Ok bs) else (st2, Err e_short_nil)
      | ORead _ _ (Some e) => (st2, Err (wrap e))
      | _ => (st2, Panic 3)
      end
  | Err e => (st1, Err e)
  | Panic w => (st1, Panic w)
  | OOB => (st1, OOB)
  end.
(* ReadString: b, err := r.ReadBinary(); err != nil -> "", err *)
Definition sr_string (st : rstate) : srd bytes := sr_binary st.

Definition sr_field_begin (st : rstate) : srd (Z * Z) :=
  let '(st1, r) := sr_next st 1 in
  match (do b <- r; index b 0) with
  | Ok x =>
    let t := i8 x in
    if (t =? thrift_STOP)%Z then (st1, Ok (thrift_STOP, 0%Z))
    else
      let '(st2, r2) := sr_next st1 2 in
      (st2, do b <- r2; do y <- get_be 2 b; Ok (t, i16 y))
  | Err e => (st1, Err e)
  | Panic w => (st1, Panic w)
  | OOB => (st1, OOB)
  end.

Definition sr_map_begin (st : rstate) : srd (Z * Z * Z) :=
  let '(st1, r) := sr_next st 6 in
  (st1, do b <- r; do k <- index b 0; do v <- index b 1; do b2 <- slice_from b 2; do sz <- get_be 4 b2;
        Ok (i8 k, i8 v, Z.of_N sz)).
Definition sr_list_begin (st : rstate) : srd (Z * Z) :=
  let '(st1, r) := sr_next st 5 in
  (st1, do b <- r; do e <- index b 0; do b1 <- slice_from b 1; do sz <- get_be 4 b1; Ok (i8 e, Z.of_N sz)).
Definition sr_set_begin := sr_list_begin.

(* ReadMessageBegin *)
Definition sr_message_begin (st : rstate) : srd (bytes * Z * Z) :=
  let '(st1, r) := sr_i32 st in
  match r with
  | Ok header =>
    let h := u32 header in
    if negb (N.land h (Z.to_N thrift_msgVersionMask) =? Z.to_N thrift_msgVersion1) then (st1, Err e_bad_version)
    else
      let ty := Z.of_N (N.land h (Z.to_N thrift_msgTypeMask)) in
      let '(st2, r2) := sr_string st1 in
      match r2 with
      | Ok name =>
        let '(st3, r3) := sr_i32 st2 in
        (st3, do seq <- r3; Ok (name, ty, seq))
      | Err e => (st2, Err e)
      | Panic w => (st2, Panic w)
      | OOB => (st2, OOB)
      end
  | Err e => (st1, Err e)
  | Panic w => (st1, Panic w)
  | OOB => (st1, OOB)
  end.

Definition sr_map {A B} (f : A -> B) (x : srd A) : srd B :=
  (fst x, do a <- snd x; Ok (f a)).

Definition sr_item (k : kind) (st : rstate) : srd item :=
  match k with
  | KBool => sr_map IBool (sr_bool st)
  | KByte => sr_map IByte (sr_byte st)
  | KI16 => sr_map II16 (sr_i16 st)
  | KI32 => sr_map II32 (sr_i32 st)
  | KI64 => sr_map II64 (sr_i64 st)
  | KDouble => sr_map IDouble (sr_double st)
  | KBinary => sr_map IBinary (sr_binary st)
  | KString => sr_map IString (sr_string st)
  | KFieldBegin => sr_map (fun p => if (fst p =? thrift_STOP)%Z then IFieldStop else IFieldBegin (fst p) (snd p))
                          (sr_field_begin st)
  | KMapBegin => sr_map (fun p => IMapBegin (fst (fst p)) (snd (fst p)) (snd p)) (sr_map_begin st)
  | KListBegin => sr_map (fun p => IListBegin (fst p) (snd p)) (sr_list_begin st)
  | KSetBegin => sr_map (fun p => ISetBegin (fst p) (snd p)) (sr_set_begin st)
  end.
