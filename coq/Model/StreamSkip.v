(* Model/StreamSkip.v — BufferReader.Skip / skipType / skipstr / skipn and the header readers it
   uses (protocol/thrift/bufferreader.go:54-78, 116-123, 197-242, 244-345), over the bufiox
   reader model (Model/BufReader.v: r_next, r_skip).

   Errors coming from the bufiox reader are wrapped by NewProtocolExceptionWithErr: [e_wrap e]
   (a ProtocolException of type UNKNOWN_PROTOCOL_EXCEPTION whose Unwrap is the source error [e]).
   A (nil, nil) answer of Next ([ONil], which the repaired reader never gives) is modelled as
   the nil slice with no error, so that the following b[0] / BigEndian.Uint32(b) panics as in Go.

   Container counts are [int(binary.BigEndian.Uint32(..))] (0 .. 2^32-1 on 64-bit platforms);
   skipType tests [int32(sz) < 0], i.e. the sign bit of the 32-bit wire value. *)
From GV Require Import Lib.Bytes Lib.Res Gen.Consts Model.Binary Model.BufReader Model.Skip.
Open Scope N_scope.

Definition e_wrap (e : Z) : Z := (100 + e)%Z.

(* r.next(n) *)
Definition br_next (st : rstate) (n : N) : sres rstate bytes :=
  let '(st', o) := r_next st (Z.of_N n) in
  match o with
  | OBytes b => (st', Ok b)
  | OErr e => (st', Err (e_wrap e))
  | ONil => (st', Ok [])
  | _ => (st', Panic 9)
  end.

(* r.skipn(n) *)
Definition br_skipn (st : rstate) (n : Z) : sres rstate unit :=
  if (n <? 0)%Z then (st, Err e_neg_size)
  else
    let '(st', o) := r_skip st n in
    match o with
    | OUnit => (st', Ok tt)
    | OErr e => (st', Err (e_wrap e))
    | _ => (st', Panic 9)
    end.

(* ReadI32: the uint32 pattern; the caller applies int32(..) *)
Definition br_read_u32 (st : rstate) : sres rstate N :=
  sbind (br_next st 4) (fun st' b => (st', be_u32 b)).

(* r.skipstr() *)
Definition br_skipstr (st : rstate) : sres rstate unit :=
  sbind (br_read_u32 st) (fun st' u => br_skipn st' (i32 u)).

(* ReadMapBegin: kt, vt, size = b[0], b[1], int(Uint32(b[2:])) *)
Definition br_map_begin (st : rstate) : sres rstate (N * N * N) :=
  sbind (br_next st 6) (fun st' b =>
    (st', do kt <- index b 0; do vt <- index b 1; do b2 <- slice_from b 2; do u <- be_u32 b2; Ok (kt, vt, u))).

(* ReadListBegin / ReadSetBegin *)
Definition br_list_begin (st : rstate) : sres rstate (N * N) :=
  sbind (br_next st 5) (fun st' b =>
    (st', do et <- index b 0; do b1 <- slice_from b 1; do u <- be_u32 b1; Ok (et, u))).

(* ReadFieldBegin: the type byte; the 2-byte id is read (and decoded) unless the type is STOP *)
Definition br_field_begin (st : rstate) : sres rstate N :=
  sbind (br_next st 1) (fun st1 b =>
    match index b 0 with
    | Ok ft =>
      if is_ty ft thrift_STOP then (st1, Ok ft)
      else sbind (br_next st1 2) (fun st2 b2 => (st2, do _ <- be_u16 b2; Ok ft))
    | Err e => (st1, Err e) | Panic w => (st1, Panic w) | OOB => (st1, OOB)
    end).

(* counted loops: for j := 0; j < sz; j++ { err = body(); if err != nil { return err } } *)
Fixpoint br_loop (body : rstate -> sres rstate unit) (fuel : nat) (cnt : N) (st : rstate) : sres rstate unit :=
  if cnt =? 0 then (st, Ok tt) else
  match fuel with
  | O => (st, Err e_fuel)
  | S f => sbind (body st) (fun st' _ => br_loop body f (cnt - 1) st')
  end.

(* struct loop *)
Fixpoint br_struct_loop (fld : N -> rstate -> sres rstate unit) (fuel : nat) (st : rstate) : sres rstate unit :=
  match fuel with
  | O => (st, Err e_fuel)
  | S f =>
    sbind (br_field_begin st) (fun st1 ft =>
      if is_ty ft thrift_STOP then (st1, Ok tt)
      else sbind (fld ft st1) (fun st2 _ => br_struct_loop fld f st2))
  end.

(* key / value of the map slow path:
     if sz > 0 { skipn(sz) } else if t == STRING { skipstr() } else { skipType(t, maxdepth-1) } *)
Definition br_kv (self : rstate -> N -> sres rstate unit) (sz : Z) (t : N) (st : rstate) : sres rstate unit :=
  if (0 <? sz)%Z then br_skipn st sz
  else if is_ty t thrift_STRING then br_skipstr st
  else self st t.

(* element of the list slow path: if vt == STRING { skipstr() } else { skipType(vt, maxdepth-1) } *)
Definition br_lelem (self : rstate -> N -> sres rstate unit) (t : N) (st : rstate) : sres rstate unit :=
  if is_ty t thrift_STRING then br_skipstr st else self st t.

(* struct field: if fsz := typeToSize[uint8(ft)]; fsz > 0 { skipn(fsz) } else { skipType(ft, maxdepth-1) } *)
Definition br_field (self : rstate -> N -> sres rstate unit) (ft : N) (st : rstate) : sres rstate unit :=
  sbind (sret st (tts SBufferReader ft)) (fun st fsz =>
    if (0 <? fsz)%Z then br_skipn st fsz else self st ft).

Fixpoint brskip (d : nat) (fu : nat) (st : rstate) (t : N) {struct d} : sres rstate unit :=
  match d with
  | O => (st, Err e_depth)
  | S d' =>
    sbind (sret st (tts SBufferReader t)) (fun st n =>
    if (0 <? n)%Z then br_skipn st n
    else if is_ty t thrift_STRING then br_skipstr st
    else if is_ty t thrift_MAP then
      sbind (br_map_begin st) (fun st1 h =>
        let '(kt, vt, sz) := h in
        if (i32 sz <? 0)%Z then (st1, Err e_neg_size) else           (* if int32(sz) < 0 *)
        sbind (sret st1 (tts SBufferReader kt)) (fun st1 ksz =>
        sbind (sret st1 (tts SBufferReader vt)) (fun st1 vsz =>
        if (0 <? ksz)%Z && (0 <? vsz)%Z then br_skipn st1 (Z.of_N sz * (ksz + vsz))
        else
          let self := fun s t' => brskip d' fu s t' in
          br_loop (fun s => sbind (br_kv self ksz kt s) (fun s1 _ => br_kv self vsz vt s1)) fu sz st1)))
    else if is_ty t thrift_LIST || is_ty t thrift_SET then
      sbind (br_list_begin st) (fun st1 h =>
        let '(vt, sz) := h in
        if (i32 sz <? 0)%Z then (st1, Err e_neg_size) else           (* if int32(sz) < 0 *)
        sbind (sret st1 (tts SBufferReader vt)) (fun st1 vsz =>
        if (0 <? vsz)%Z then br_skipn st1 (Z.of_N sz * vsz)
        else
          let self := fun s t' => brskip d' fu s t' in
          br_loop (br_lelem self vt) fu sz st1))
    else if is_ty t thrift_STRUCT then
      let self := fun s t' => brskip d' fu s t' in
      br_struct_loop (br_field self) fu st
    else (st, Err e_unknown_type))
  end.

(* fuel: one more than the bytes that can still be delivered *)
Definition r_fuel (st : rstate) : nat := S (length (win st) + length (sdata (src st))).

Definition br_skip_depth (st : rstate) (t : N) (d : nat) : sres rstate unit :=
  brskip d (r_fuel st) st t.

(* BufferReader.Skip *)
Definition br_skip (st : rstate) (t : N) : sres rstate unit := br_skip_depth st t depth0.
