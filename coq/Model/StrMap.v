(* Model/StrMap.v — container/strmap.StrMap[V] (strmap.go, utils.go).
   Executable model only.  Go functions modelled, branch by branch:
     calcHashtableSlots            [slots]
     StrMap.LoadFromSlice       [load]  (LoadFromMap = LoadFromSlice on the map's pairs in some order)
     StrMap.makeHashtable       [make_hashtable]
     StrMap.Get / Len / Item    [get] / [map_len] / [item_at]
   External behaviour is a section variable:
     hash : bytes -> N             maphash.String(m.seed, .) for the instance's seed — any function
     sort : list item -> list item sort.Sort(itemsBySlot(items)) — any function; the proofs assume
                                   only that its result is a permutation sorted by slot
   [isort] is a concrete stable insertion sort by slot used to execute the model. *)
From GV Require Import Lib.Bytes Lib.Res Gen.Consts.
From Coq Require Import Permutation Sorted.
Open Scope N_scope.

(* math.MaxUint32 (Go standard library constant) *)
Definition max_uint32 : N := 4294967295.

(* calcHashtableSlots(n):
     bits := bits.Len64(uint64(float64(n) / loadfactor)); panic if bits >= len(bits2primes)
     return bits2primes[bits]
   loadfactor = num/den = 3/4 is a dyadic rational, float64(n) is exact for n < 2^53, and the
   correctly rounded quotient differs from the true value 4n/3 by at most half an ulp, which
   is <= 1/8 while 4n/3 < 2^51.  The fractional part of 4n/3 is 0, 1/3 or 2/3; when it is 0
   the quotient is an integer below 2^53 and is exact, otherwise the distance to the next
   integer is >= 1/3 > 1/8, so truncation by uint64() yields exactly floor(4n/3) for every
   n < 2^50.  For n >= 2^50 (in fact for n >= 3*2^29) both sides have bit length >= 32 and
   panic.  bits.Len64 x = N.size x. *)
Definition slots (n : N) : res Z :=
  let x := (n * Z.to_N strmap_loadfactor_den) / Z.to_N strmap_loadfactor_num in
  match nth_error strmap_bits2primes (N.to_nat (N.size x)) with
  | Some p => Ok p
  | None => Panic 5          (* panic("too many items") *)
  end.

(* what LoadFromSlice accepts: no key longer than math.MaxUint32 ("key too large"), a key count
   that fits the int32 indices of the hashtable, and one for which calcHashtableSlots does not
   panic "too many items": floor(n / loadfactor) has at most 31 bits.  With the present load
   factor 3/4 the last condition is n < 3 * 2^29 and implies the second. *)
Definition small (k : bytes) : Prop := len k <= max_uint32.
Definition count_ok (n : N) : Prop :=
  n < two31 /\ n * Z.to_N strmap_loadfactor_den / Z.to_N strmap_loadfactor_num < two31.
Definition loadable (kk : list bytes) : Prop := Forall small kk /\ count_ok (len kk).

(* n copies of x, n : N *)
Definition nrepeat {A} (x : A) (n : N) : list A := N.iter n (cons x) [].

(* l[i] = x  (no effect when i is out of range; callers check the index first) *)
Fixpoint upd {A} (l : list A) (i : nat) (x : A) : list A :=
  match l, i with
  | [], _ => []
  | _ :: r, O => x :: r
  | y :: r, S i' => y :: upd r i' x
  end.

Definition is_nil {A} (l : list A) : bool := match l with [] => true | _ => false end.

Section StrMap.
Variable V : Type.
Variable hash : bytes -> N.

(* mapItem[V]{off int; sz uint32; slot uint32; v V} *)
Record item := mkitem { ioff : N; isz : N; islot : N; ival : V }.

(* StrMap[V]: data, items, hashtable.  Capacities: [dcap], [icap] are cap(data), cap(items)
   (they only select the reuse/reallocate branch); [tspare] is the content of the hashtable's
   backing array between len and cap, which comes back into view on reuse. *)
Record strmap := mkmap {
  data : bytes; dcap : N;
  items : list item; icap : N;
  table : list Z; tspare : list Z }.

(* New[V]() *)
Definition new_map : strmap := mkmap [] 0 [] 0 [] [].

(* ---- concrete sort used for execution: stable insertion sort by slot ---- *)
Fixpoint insert_by_slot (e : item) (l : list item) : list item :=
  match l with
  | [] => [e]
  | x :: r => if islot e <=? islot x then e :: l else x :: insert_by_slot e r
  end.
Definition isort (l : list item) : list item := fold_right insert_by_slot [] l.

Variable sort : list item -> list item.
(* the order sort.Sort(itemsBySlot) establishes *)
Definition slot_le (a b : item) : Prop := islot a <= islot b.
(* all that is assumed of sort.Sort: some permutation of its input, ordered by slot; the order
   inside a run of equal slots is left open (pdqsort is not stable) *)
Definition sort_ok : Prop :=
  (forall l, Permutation l (sort l)) /\ (forall l, Sorted slot_le (sort l)).

(* The loop of LoadFromSlice: returns the bytes appended to data, the items appended, and how
   the loop ended.  [off] = len(m.data) at this iteration. *)
Fixpoint build (off : N) (kk : list bytes) (vv : list V) : bytes * list item * res unit :=
  match kk with
  | [] => ([], [], Ok tt)
  | k :: kk' =>
    (* the "key too large" test is made by the caller's first loop, before anything is reset
       (since the repair of /repo: it used to sit here and return mid-way, after the reset) *)
    match vv with
    | [] => ([], [], Panic 2)                         (* vv[i] out of range *)
    | v :: vv' =>
      let '(d, its, r) := build (off + len k) kk' vv' in
      (k ++ d, mkitem off (len k mod two32) (hash k mod two32) v :: its, r)
    end
  end.

(* m.items[i].slot = m.items[i].slot % uint32(slots) *)
Definition set_slot (u : N) (e : item) : item :=
  mkitem (ioff e) (isz e) (islot e mod u) (ival e).

(* for i := range m.items { e := &m.items[i]; if m.hashtable[e.slot] < 0 { m.hashtable[e.slot] = int32(i) } } *)
Fixpoint fill (tbl : list Z) (i : N) (its : list item) : res (list Z) :=
  match its with
  | [] => Ok tbl
  | e :: r =>
    do cur <- index tbl (islot e);
    let tbl' := if (cur <? 0)%Z then upd tbl (N.to_nat (islot e)) (to_signed 32 (i mod two32)) else tbl in
    fill tbl' (i + 1) r
  end.

(* makeHashtable, on the state (d, dc, its, ic) with the hashtable already truncated to length 0
   over the backing content [backing]. *)
Definition make_hashtable (d : bytes) (dc : N) (its : list item) (ic : N) (backing : list Z)
  : strmap * res unit :=
  match slots (len its) with
  | Ok s =>
    if (s <? 0)%Z then (mkmap d dc its ic [] backing, Panic 3)   (* make / reslice with a negative length *)
    else
      let sn := Z.to_N s in
      let '(tb, sp) :=
        if len backing <? sn then (nrepeat 0%Z sn, [])             (* make([]int32, slots) *)
        else (take sn backing, drop sn backing) in                   (* m.hashtable[:slots] *)
      let u := sn mod two32 in                                       (* uint32(slots) *)
      if (u =? 0) && negb (is_nil its) then (mkmap d dc its ic tb sp, Panic 4)   (* integer divide by zero *)
      else
        let its1 := map (set_slot u) its in
        let its2 := sort its1 in
        let tb1 := map (fun _ => (-1)%Z) tb in
        match fill tb1 0 its2 with
        | Ok tb2 => (mkmap d dc its2 ic tb2 sp, Ok tt)
        | Err e => (mkmap d dc its2 ic tb1 sp, Err e)
        | Panic w => (mkmap d dc its2 ic tb1 sp, Panic w)
        | OOB => (mkmap d dc its2 ic tb1 sp, OOB)
        end
  | Err e => (mkmap d dc its ic [] backing, Err e)
  | Panic w => (mkmap d dc its ic [] backing, Panic w)
  | OOB => (mkmap d dc its ic [] backing, OOB)
  end.

Definition total_len (kk : list bytes) : N := fold_left (fun a k => a + len k) kk 0.

(* LoadFromSlice(kk, vv): the state after the call and its outcome (Ok tt = nil error). *)
Definition load (st : strmap) (kk : list bytes) (vv : list V) : strmap * res unit :=
  if negb (len kk =? len vv) then (st, Err 1)                       (* "kv len not match" *)
  else if existsb (fun k => max_uint32 <? len k) kk then (st, Err 2) (* "key too large", nothing touched yet *)
  else
    let backing := table st ++ tspare st in                         (* m.hashtable[:0] keeps the array *)
    let sz := total_len kk in
    let dc := if dcap st <? sz then sz else dcap st in              (* make([]byte, 0, sz) or reuse *)
    let ic := if icap st <? len vv then len vv else icap st in      (* make([]mapItem, 0, len(vv)) or reuse *)
    let '(d, its, r) := build 0 kk vv in
    match r with
    | Ok _ => make_hashtable d dc its ic backing
    | _ => (mkmap d dc its ic [] backing, r)
    end.

(* LoadFromMap(m): the pairs of m in the order the range loop visits them (Go leaves it
   unspecified: any order, a different one on every call), then LoadFromSlice.  The two slices it
   builds always have equal lengths. *)
Definition load_map (st : strmap) (visit : list (bytes * V)) : strmap * res unit :=
  load st (map fst visit) (map snd visit).

(* a history of LoadFromSlice calls on one instance (failed ones included) *)
Fixpoint run_loads (st : strmap) (h : list (list bytes * list V)) : strmap :=
  match h with
  | [] => st
  | (kk, vv) :: r => run_loads (fst (load st kk vv)) r
  end.

(* m.data[e.off : e.off+int(e.sz)].  Bounds are checked against len(data); Go checks a slice
   expression against cap(data), the difference is reachable only from states no load produces. *)
Definition key_of (d : bytes) (e : item) : res bytes :=
  slice_range d (ioff e) (ioff e + isz e).

(* the collision loop of Get over m.items[i+1 : int32(len(m.items))] *)
Fixpoint scan (d : bytes) (s : bytes) (slot : N) (its : list item) : res (option V) :=
  match its with
  | [] => Ok None
  | e :: r =>
    if negb (islot e =? slot) then Ok None
    else do k <- key_of d e;
         if beqb k s then Ok (Some (ival e)) else scan d s slot r
  end.

Definition get (st : strmap) (s : bytes) : res (option V) :=
  if len (table st) =? 0 then Ok None                               (* never loaded *)
  else
    let u := len (table st) mod two32 in                            (* uint32(len(m.hashtable)) *)
    if u =? 0 then Panic 4                                           (* integer divide by zero *)
    else
      let slot := (hash s mod two32) mod u in                       (* uint32(hash) % u *)
      do i <- index (table st) slot;
      if (i <? 0)%Z then Ok None
      else
        do e <- index (items st) (Z.to_N i);
        do k <- key_of (data st) e;
        if beqb k s then Ok (Some (ival e))
        else
          let hi := to_signed 32 (len (items st) mod two32) in      (* int32(len(m.items)) *)
          scan (data st) s slot
               (take (Z.to_N (hi - (i + 1))) (drop (Z.to_N (i + 1)) (items st))).

Definition map_len (st : strmap) : N := len (items st).

(* Item(i) *)
Definition item_at (st : strmap) (i : Z) : res (bytes * V) :=
  if (i <? 0)%Z then Panic 2
  else do e <- index (items st) (Z.to_N i);
       do k <- key_of (data st) e;
       Ok (k, ival e).

(* all items in index order (what a caller enumerating 0..Len()-1 sees) *)
Fixpoint enumerate_from (st : strmap) (i : Z) (n : nat) : res (list (bytes * V)) :=
  match n with
  | O => Ok []
  | S n' => do kv <- item_at st i; do r <- enumerate_from st (i + 1) n'; Ok (kv :: r)
  end.
Definition enumerate (st : strmap) : res (list (bytes * V)) :=
  enumerate_from st 0 (length (items st)).

End StrMap.

Arguments mkitem {V}.
Arguments ioff {V}. Arguments isz {V}. Arguments islot {V}. Arguments ival {V}.
Arguments mkmap {V}.
Arguments data {V}. Arguments dcap {V}. Arguments items {V}. Arguments icap {V}.
Arguments table {V}. Arguments tspare {V}.
Arguments new_map {V}.
Arguments slot_le {V}. Arguments sort_ok {V}. Arguments insert_by_slot {V}. Arguments isort {V}.
Arguments build {V}. Arguments set_slot {V}. Arguments fill {V}. Arguments make_hashtable {V}.
Arguments load {V}. Arguments load_map {V}. Arguments run_loads {V}. Arguments key_of {V}. Arguments scan {V}. Arguments get {V}.
Arguments map_len {V}. Arguments item_at {V}. Arguments enumerate_from {V}. Arguments enumerate {V}.
