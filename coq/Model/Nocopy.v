(* Model/Nocopy.v — the no-copy write path (C15) and the generated writers of base.Base /
   base.BaseResp (shared with C11).

     protocol/thrift/binary.go      WriteBinaryNocopy, WriteStringNocopy, *LengthNocopy
     protocol/thrift/fastcodec.go   nocopyWriteThreshold (Gen.Consts.thrift_nocopyWriteThreshold), NocopyWriter
     protocol/thrift/base/k-base.go BLength, FastWrite, FastWriteNocopy of Base and BaseResp
     internal/testutils/netpoll/netpoll.go   the reference direct writer: WriteDirect and Bytes() (the splice)

   The threshold is a PARAMETER [thr] of every function here (the theorems hold for every value);
   Corr/C15.v instantiates it with the regenerated Go constant.
   A Go map[string]string is [option (list (bytes * bytes))]: [None] is the nil map, the list is
   the enumeration order of the `range` statement that walks it — the order is an INPUT.
   Field header constants come from Gen.Consts (read off the generated writer by the translator). *)
From GV Require Import Lib.Bytes Lib.Res Gen.Consts Model.Binary.
Open Scope N_scope.

Definition e_model : Z := 99%Z.      (* a table of Gen.Consts lacks an entry the model needs *)

(* ---------- the structs ---------- *)
Definition smap := option (list (bytes * bytes)).
Record base := { b_logid : bytes; b_caller : bytes; b_addr : bytes; b_extra : smap }.
Record baseresp := { r_msg : bytes; r_code : Z; r_extra : smap }.

(* ---------- advertised lengths (binary.go:234-237) ---------- *)
Definition string_length (v : bytes) : N := 4 + len v.
Definition binary_length (v : bytes) : N := 4 + len v.
Definition string_length_nocopy (v : bytes) : N := 4 + len v.
Definition binary_length_nocopy (v : bytes) : N := 4 + len v.

(* ---------- the direct writer ---------- *)
(* one WriteDirect call: the slice handed over and the remainCap argument *)
Definition dpair := (bytes * N)%type.
(* NocopyWriter interface value: None = nil; Some log = the reference writer with its record
   (wbuf[i], wend[i]) so far *)
Definition dwriter := option (list dpair).
(* netpoll.go WriteDirect: panics when remainCap < len(b), else records *)
Definition write_direct (log : list dpair) (v : bytes) (rc : N) : res (list dpair) :=
  if rc <? len v then Panic 5 else Ok (log ++ [(v, rc)]).

(* ---------- WriteStringNocopy / WriteBinaryNocopy (binary.go:125-141) ----------
     if w == nil || len(v) < nocopyWriteThreshold { return p.WriteString(buf, v) }
     binary.BigEndian.PutUint32(buf, uint32(len(v)))
     _ = w.WriteDirect(v, len(buf[4:]))
     return 4                                                                          *)
Definition w_string_nocopy (thr : Z) (buf : bytes) (w : dwriter) (v : bytes) : res (bytes * N * dwriter) :=
  match w with
  | None => do (b, n) <- w_binary buf v; Ok (b, n, None)
  | Some log =>
    if (Z.of_N (len v) <? thr)%Z then do (b, n) <- w_binary buf v; Ok (b, n, Some log)
    else
      do b <- put buf 0 (be 4 (len v mod two32));
      do tail <- slice_from b 4;
      do log' <- write_direct log v (len tail);
      Ok (b, 4, Some log')
  end.

Definition w_binary_nocopy (thr : Z) (buf : bytes) (w : dwriter) (v : bytes) : res (bytes * N * dwriter) :=
  match w with
  | None => do (b, n) <- w_binary buf v; Ok (b, n, None)
  | Some log =>
    if (Z.of_N (len v) <? thr)%Z then do (b, n) <- w_binary buf v; Ok (b, n, Some log)
    else
      do b <- put buf 0 (be 4 (len v mod two32));
      do tail <- slice_from b 4;
      do log' <- write_direct log v (len tail);
      Ok (b, 4, Some log')
  end.

(* ---------- BLength (k-base.go:27-56, 176-201) ---------- *)
(* for k, v := range p.Extra { off += 4 + len(k); off += 4 + len(v) } *)
Fixpoint entries_blength (l : list (bytes * bytes)) (off : N) : N :=
  match l with
  | [] => off
  | (k, v) :: r => entries_blength r (off + (4 + len k) + (4 + len v))
  end.

Definition map_blength (m : smap) (off : N) : N :=
  match m with
  | None => off
  | Some l => entries_blength l (off + 3 + 6)
  end.

Definition base_blength (p : option base) : N :=
  match p with
  | None => 1
  | Some p =>
    let off := 0 in
    let off := off + 3 + (4 + len (b_logid p)) in
    let off := off + 3 + (4 + len (b_caller p)) in
    let off := off + 3 + (4 + len (b_addr p)) in
    let off := map_blength (b_extra p) off in
    off + 1
  end.

Definition baseresp_blength (p : option baseresp) : N :=
  match p with
  | None => 1
  | Some p =>
    let off := 0 in
    let off := off + 3 + (4 + len (r_msg p)) in
    let off := off + 3 + 4 in
    let off := map_blength (r_extra p) off in
    off + 1
  end.

(* ---------- FastWriteNocopy (k-base.go:58-101, 203-241) ---------- *)
(* the writer's state: the whole buffer b, the running offset, the direct writer *)
Record wst := { wbuf : bytes; woff : N; wdw : dwriter }.

Definition fld (tbl : list (Z * Z)) (i : nat) : res (Z * Z) :=
  match nth_error tbl i with Some x => Ok x | None => Err e_model end.

(* b[off] = T; binary.BigEndian.PutUint16(b[off+1:], ID); off += 3 *)
Definition st_hdr (s : wst) (tid : Z * Z) : res wst :=
  do b1 <- put (wbuf s) (woff s) [u8 (fst tid)];
  do b2 <- put b1 (woff s + 1) (be 2 (u16 (snd tid)));
  Ok {| wbuf := b2; woff := woff s + 3; wdw := wdw s |}.

(* off += thrift.Binary.WriteStringNocopy(b[off:], w, v) *)
Definition st_str (thr : Z) (s : wst) (v : bytes) : res wst :=
  do sub <- slice_from (wbuf s) (woff s);
  do (sub', n, w') <- w_string_nocopy thr sub (wdw s) v;
  Ok {| wbuf := take (woff s) (wbuf s) ++ sub'; woff := woff s + n; wdw := w' |}.

(* binary.BigEndian.PutUint32(b[off:], uint32(v)); off += 4 *)
Definition st_i32 (s : wst) (v : Z) : res wst :=
  do b1 <- put (wbuf s) (woff s) (be 4 (u32 v));
  Ok {| wbuf := b1; woff := woff s + 4; wdw := wdw s |}.

(* b[off] = K; b[off+1] = V; binary.BigEndian.PutUint32(b[off+2:], uint32(len(p.Extra))); off += 6 *)
Definition st_maphdr (s : wst) (kv : Z * Z) (n : N) : res wst :=
  do b1 <- put (wbuf s) (woff s) [u8 (fst kv)];
  do b2 <- put b1 (woff s + 1) [u8 (snd kv)];
  do b3 <- put b2 (woff s + 2) (be 4 (n mod two32));
  Ok {| wbuf := b3; woff := woff s + 6; wdw := wdw s |}.

(* for k, v := range p.Extra { off += WriteStringNocopy(b[off:], w, k); off += WriteStringNocopy(b[off:], w, v) } *)
Fixpoint st_entries (thr : Z) (l : list (bytes * bytes)) (s : wst) : res wst :=
  match l with
  | [] => Ok s
  | (k, v) :: r =>
    do s1 <- st_str thr s k;
    do s2 <- st_str thr s1 v;
    st_entries thr r s2
  end.

(* if p.Extra != nil { header; map header; entries } *)
Definition st_map (thr : Z) (s : wst) (tid kv : res (Z * Z)) (m : smap) : res wst :=
  match m with
  | None => Ok s
  | Some l =>
    do tid' <- tid;
    do kv' <- kv;
    do s1 <- st_hdr s tid';
    do s2 <- st_maphdr s1 kv' (len l);
    st_entries thr l s2
  end.

(* b[off] = 0; return off + 1 *)
Definition st_stop (s : wst) : res (bytes * N * dwriter) :=
  do b1 <- put (wbuf s) (woff s) [0];
  Ok (b1, woff s + 1, wdw s).

Definition base_write_nocopy (thr : Z) (p : option base) (b : bytes) (w : dwriter) : res (bytes * N * dwriter) :=
  match p with
  | None => do b1 <- put b 0 [0]; Ok (b1, 1, w)
  | Some p =>
    let tbl := base_Base_FastWriteNocopy_fields in
    let s := {| wbuf := b; woff := 0; wdw := w |} in
    do h0 <- fld tbl 0;
    do s <- st_hdr s h0;
    do s <- st_str thr s (b_logid p);
    do h1 <- fld tbl 1;
    do s <- st_hdr s h1;
    do s <- st_str thr s (b_caller p);
    do h2 <- fld tbl 2;
    do s <- st_hdr s h2;
    do s <- st_str thr s (b_addr p);
    do s <- st_map thr s (fld tbl 3) (fld base_Base_FastWriteNocopy_mapkv 0) (b_extra p);
    st_stop s
  end.

Definition baseresp_write_nocopy (thr : Z) (p : option baseresp) (b : bytes) (w : dwriter) : res (bytes * N * dwriter) :=
  match p with
  | None => do b1 <- put b 0 [0]; Ok (b1, 1, w)
  | Some p =>
    let tbl := base_BaseResp_FastWriteNocopy_fields in
    let s := {| wbuf := b; woff := 0; wdw := w |} in
    do h0 <- fld tbl 0;
    do s <- st_hdr s h0;
    do s <- st_str thr s (r_msg p);
    do h1 <- fld tbl 1;
    do s <- st_hdr s h1;
    do s <- st_i32 s (r_code p);
    do s <- st_map thr s (fld tbl 2) (fld base_BaseResp_FastWriteNocopy_mapkv 0) (r_extra p);
    st_stop s
  end.

(* func (p *Base) FastWrite(b []byte) int { return p.FastWriteNocopy(b, nil) } *)
Definition base_write (thr : Z) (p : option base) (b : bytes) : res (bytes * N) :=
  do (b', n, _) <- base_write_nocopy thr p b None; Ok (b', n).
Definition baseresp_write (thr : Z) (p : option baseresp) (b : bytes) : res (bytes * N) :=
  do (b', n, _) <- baseresp_write_nocopy thr p b None; Ok (b', n).

(* ---------- the splice: netpoll.go Bytes() ----------
     ret := make([]byte, 0, len(p.data)); start := 0
     for i := range p.wend { end := len(p.data) - p.wend[i]
                             ret = append(ret, p.data[start:end]...); ret = append(ret, p.wbuf[i]...); start = end }
     ret = append(ret, p.data[start:start+len(p.data)-len(ret)]...)
     if len(ret) != len(p.data) { panic("size not match") }                               *)
Fixpoint splice_loop (data : bytes) (pairs : list dpair) (start : N) (ret : bytes) : res (bytes * N) :=
  match pairs with
  | [] => Ok (ret, start)
  | (w, rc) :: r =>
    if len data <? rc then Panic 1        (* end < 0 *)
    else
      let e := len data - rc in
      do piece <- slice_range data start e;
      splice_loop data r e (ret ++ piece ++ w)
  end.

Definition splice (data : bytes) (pairs : list dpair) : res bytes :=
  do (ret, start) <- splice_loop data pairs 0 [];
  let hi := (Z.of_N start + Z.of_N (len data) - Z.of_N (len ret))%Z in
  if (hi <? 0)%Z then Panic 1
  else
    do piece <- slice_range data start (Z.to_N hi);
    let ret' := ret ++ piece in
    if len ret' =? len data then Ok ret' else Panic 3.
