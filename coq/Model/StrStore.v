(* Model/StrStore.v — internal/strstore.StrStore (strstore.go) and container/strmap.Str2Str.
   Executable model only.
     StrStore.Load   [store_load]   packed values: 4-byte native-endian (amd64/arm64: little-endian)
                                    length, then the bytes; returns the offset of every value
     StrStore.Get    [store_get]
     Str2Str.LoadFromSlice / Get / Len   [s2s_load] / [s2s_get] / [s2s_len] *)
From GV Require Import Lib.Bytes Lib.Res Gen.Consts Model.StrMap.
Open Scope N_scope.

Definition strlen_size : N := Z.to_N strstore_strlenSize.

(* store / load of a uint32 through an unsafe pointer, on a little-endian machine *)
Definition le32 (x : N) : bytes := rev (be 4 x).
Definition unle (l : bytes) : N := unbe (rev l).

(* StrStore{buf}: [sbuf] is buf[:len], [sspare] the backing array between len and cap *)
Record strstore := mkstore { sbuf : bytes; sspare : bytes }.
Definition new_store : strstore := mkstore [] [].

(* first loop of Load: totalLen, panicking on a value longer than math.MaxUint32 *)
Fixpoint store_total (acc : N) (ss : list bytes) : res N :=
  match ss with
  | [] => Ok acc
  | s :: r => if max_uint32 <? len s then Panic 7 else store_total (acc + len s) r
  end.

(* second loop of Load.  [rest] is the part of buf from [offset] on (not yet written: zeros of a
   fresh array or stale content of a reused one).  Returns buf[offset:] after the loop and the
   indexes.  &s.buf[offset] is a checked index; the 4-byte store goes through unsafe.Pointer;
   s.buf[offset+4 : offset+4+len] is a checked slice expression (checked against len here, cap in Go;
   they coincide for the exactly-sized buffer Load prepares). *)
Fixpoint store_write (rest : bytes) (offset : N) (ss : list bytes) : res (bytes * list Z) :=
  match ss with
  | [] => Ok (rest, [])
  | s :: r =>
    if len rest =? 0 then Panic 2
    else if len rest <? strlen_size then OOB
    else if len rest <? strlen_size + len s then Panic 1
    else
      do br <- store_write (drop (strlen_size + len s) rest) (offset + strlen_size + len s) r;
      let '(b, ids) := br in
      Ok (le32 (len s mod two32) ++ s ++ b, Z.of_N offset :: ids)
  end.

Definition store_load (st : strstore) (ss : list bytes) : strstore * res (list Z) :=
  match store_total (strlen_size * len ss) ss with
  | Ok total =>
    let backing := sbuf st ++ sspare st in
    let '(buf, sp) :=
      if len backing <? total then (nrepeat 0 total, [])           (* make([]byte, totalLen) *)
      else (take total backing, drop total backing) in               (* s.buf[:totalLen] *)
    match store_write buf 0 ss with
    | Ok (b, ids) => (mkstore b sp, Ok ids)
    | Err e => (mkstore buf sp, Err e)
    | Panic w => (mkstore buf sp, Panic w)
    | OOB => (mkstore buf sp, OOB)
    end
  | Err e => (st, Err e)
  | Panic w => (st, Panic w)
  | OOB => (st, OOB)
  end.

(* Get(idx): "" when idx is outside buf; otherwise a 4-byte load through unsafe.Pointer at idx
   (outside the slice when fewer than 4 bytes remain) and a slice expression, which Go checks
   against the capacity: it can reach into the spare part of the backing array. *)
Definition store_get (st : strstore) (idx : Z) : res bytes :=
  if ((idx <? 0) || (Z.of_N (len (sbuf st)) <=? idx))%Z then Ok []
  else
    let i := Z.to_N idx in
    if len (sbuf st) <? i + strlen_size then OOB
    else
      let n := unle (take strlen_size (drop i (sbuf st))) in
      slice_range (sbuf st ++ sspare st) (i + strlen_size) (i + strlen_size + n).

(* ---------------- Str2Str ---------------- *)
Section Str2Str.
Variable hash : bytes -> N.
Variable sort : list (item Z) -> list (item Z).

(* Str2Str{strMap *StrMap[int]; strStore *StrStore}; None = nil pointer (the zero value) *)
Record str2str := mks2s { s2s_map : option (strmap Z); s2s_store : option strstore }.

(* NewStr2Str() *)
Definition new_s2s : str2str := mks2s (Some new_map) (Some new_store).
(* Str2Str{} *)
Definition zero_s2s : str2str := mks2s None None.

Definition s2s_load (st : str2str) (kk vv : list bytes) : str2str * res unit :=
  if negb (len kk =? len vv) then (st, Err 1)
  else if existsb (fun k => max_uint32 <? len k) kk then (st, Err 2)   (* "key too large": before the value store is replaced *)
  else
    let store := match s2s_store st with Some s => s | None => new_store end in
    let '(store', r) := store_load store vv in
    match r with
    | Ok ids =>
      let m := match s2s_map st with Some m => m | None => new_map end in
      let '(m', r') := load hash sort m kk ids in
      (mks2s (Some m') (Some store'), r')
    | Err e => (mks2s (s2s_map st) (Some store'), Err e)
    | Panic w => (mks2s (s2s_map st) (Some store'), Panic w)
    | OOB => (mks2s (s2s_map st) (Some store'), OOB)
    end.

(* Str2Str.LoadFromMap: the pairs in the order the range loop visits them, then LoadFromSlice *)
Definition s2s_load_map (st : str2str) (visit : list (bytes * bytes)) : str2str * res unit :=
  s2s_load st (map fst visit) (map snd visit).

Definition s2s_get (st : str2str) (k : bytes) : res (option bytes) :=
  match s2s_map st with
  | None => Ok None                                   (* if sm.strMap == nil { return "", false } *)
  | Some m =>
    do r <- get hash m k;
    match r with
    | None => Ok None
    | Some idx =>
      match s2s_store st with
      | None => Panic 6                               (* nil *StrStore dereferenced by Get *)
      | Some s => do v <- store_get s idx; Ok (Some v)
      end
    end
  end.

Definition s2s_len (st : str2str) : res N :=
  match s2s_map st with
  | None => Ok 0                                      (* if sm.strMap == nil { return 0 } *)
  | Some m => Ok (map_len m)
  end.

End Str2Str.
