(* Model/OwnWriter.v — HEAP-LEVEL model of bufiox.DefaultWriter / BytesWriter
   (bufiox/defaultbuf.go:229-381) in the shared world of Model/Own.v.  Regions handed out by
   Malloc are (block, physical offset, len) and are filled by the CALLER later ([fill]), also
   after the buffer they live in has been parked by a growth.  WriteBinary payloads and the
   NewBytesWriter target are caller blocks lent to the writer.  Every allocation takes its
   block from the oracle, the io.Writer.Write call is a callback point, copies and Frees are
   logged. *)
From GV Require Import Lib.Bytes Lib.Res Lib.Heap Gen.Consts Model.Own.
Open Scope N_scope.

(* a window of the unflushed output: where it lives, its logical offset in the output, what
   was last stored through it, and whether the caller may still store through it (Malloc
   regions) or not (WriteBinary copies, the initial contents of a BytesWriter target) *)
Record region := mkReg { gblk : nat; gphys : N; gln : N; glog : N; gval : bytes; gopen : bool }.

Record sinkst := mkSink {
  kfake : bool;             (* fakeIOWriter of BytesWriter: publishes the slice, never fails *)
  klog : list bytes;        (* byte strings of the successful Writes *)
  kcalls : N; kfail : N;    (* Write calls so far; the call that fails (1-based, 0 = never) *)
  ktarget : option bslice   (* *flushBytes *)
}.

Record hwriter := mkWr {
  wbuf : option bslice;        (* w.buf *)
  wpend : list bslice;         (* w.pendingBuf, oldest first *)
  werr : option Z;             (* w.err *)
  wnocache : bool;             (* w.disableCache *)
  wstats : list N; wsidx : N;
  wsink : sinkst;
  (* ghost *)
  wregs : list region;         (* windows since the last successful Flush, newest first *)
  wnstale : nat;               (* number of Malloc regions handed out before the last successful Flush *)
  wlent : list nat;            (* the caller's block lent for writing (NewBytesWriter target), if any *)
  wgiven : list nat            (* caller blocks the writer may only read: WriteBinary payloads, flushed BytesWriter buffers *)
}.

Definition wlen (st : hwriter) : N := match wbuf st with Some s => sln s | None => 0 end.
Definition wcap (st : hwriter) : N := match wbuf st with Some s => scp s | None => 0 end.

Definition wset_buf (st : hwriter) (b : option bslice) (pd : list bslice) : hwriter :=
  mkWr b pd (werr st) (wnocache st) (wstats st) (wsidx st) (wsink st) (wregs st) (wnstale st) (wlent st) (wgiven st).
Definition wset_regs (st : hwriter) (rg : list region) : hwriter :=
  mkWr (wbuf st) (wpend st) (werr st) (wnocache st) (wstats st) (wsidx st) (wsink st) rg (wnstale st) (wlent st) (wgiven st).
Definition wadd_given (st : hwriter) (b : nat) : hwriter :=
  mkWr (wbuf st) (wpend st) (werr st) (wnocache st) (wstats st) (wsidx st) (wsink st) (wregs st) (wnstale st) (wlent st) (b :: wgiven st).

Definition new_writer (failk : N) : hwriter :=
  mkWr None [] None false (repeat 0 (N.to_nat nbuckets)) 0 (mkSink false [] 0 failk None) [] 0 [] [].

(* NewBytesWriter(&t): t = block[|pre| : |pre|+|data| : cap]; a target without capacity is not kept *)
Definition new_bytes_writer (e : env) (isnil : bool) (pre data spare : bytes) : hwriter * env :=
  if 0 <? len data + len spare then
    let '(e1, b) := e_lend e (pre ++ data ++ spare) false in
    let s := mkS b (len pre) (len data) (len data + len spare) in
    (mkWr (Some s) [] None true (repeat 0 (N.to_nat nbuckets)) 0 (mkSink true [] 0 0 (Some s))
          [mkReg b (len pre) (len data) 0 data false] 0 [b] [], e1)
  else
    (* a non-nil target without capacity stays in w.buf (len 0, cap 0, no memory behind it) until the
       first acquire replaces it; Flush then still calls the sink *)
    (mkWr (if isnil then None else Some (mkS O 0 0 0)) [] None true (repeat 0 (N.to_nat nbuckets)) 0
          (mkSink true [] 0 0 None) [] 0 [] [], e).

Definition w_newbuf (e : env) (nc : bool) (c : N) : env * nat * N :=
  (* disableCache: dirtmake.Bytes(_, c), capacity exactly c ; else mcache.Malloc, capacity pow2ceil c *)
  if nc then let '(e', b) := e_gcalloc e c in (e', b, c)
  else let '(e', b) := e_malloc e c in (e', b, pow2ceil c).

Definition wacquire_slow (st : hwriter) (e : env) (n : N) : hwriter * env :=
  let '(st1, e1) :=
    if wcap st =? 0 then
      let m0 := stat_max (wstats st) in
      let m0 := if m0 <? bufsz then bufsz else m0 in
      let m := double_until (loop_fuel n) m0 n in
      let '(e', b, c) := w_newbuf e (wnocache st) m in
      (wset_buf st (Some (mkS b 0 0 c)) (wpend st), e')
    else (st, e) in
  match wbuf st1 with
  | None => (st1, e1)
  | Some s =>
    if scp s - sln s <? n then
      (* grow: the old buffer is parked, nothing is copied until Flush *)
      let ncap := grow_until (loop_fuel n) (scp s * 2) (sln s) n in
      let '(e', b, c) := w_newbuf e1 (wnocache st1) ncap in
      (wset_buf st1 (Some (mkS b 0 (sln s) c)) (wpend st1 ++ [s]), e')
    else (st1, e1)
  end.

Definition wacquire (st : hwriter) (e : env) (n : N) : hwriter * env :=
  if wlen st + n <=? wcap st then (st, e) else wacquire_slow st e n.

(* observable result of one writer op *)
Record wobs := mkO {
  oerr : Z;                      (* 0 = nil *)
  owl : N;                       (* WrittenLen afterwards *)
  oflushed : option bytes;       (* bytes accepted by the sink in this op *)
  oreg : option (nat * N * N)    (* Malloc: block, physical offset, len of the region *)
}.
Definition E_NONE : Z := 0.
Definition E_PANIC : Z := (-1)%Z.
Definition E_SHORT : Z := 8%Z.
Definition E_INVALID : Z := 9%Z.

Definition h_malloc (st : hwriter) (e : env) (n : Z) : hwriter * env * wobs :=
  match werr st with
  | Some x => (st, e, mkO x (wlen st) None None)
  | None =>
    if (n <? 0)%Z then (st, e, mkO e_negcount (wlen st) None None)
    else
      let n := Z.to_N n in
      let '(st1, e1) := wacquire st e n in
      match wbuf st1 with
      | Some s =>
        if sln s + n <=? scp s then
          let v := read (wh (ew e1)) (Some (sblk s, soff s + sln s)) n in
          let r := mkReg (sblk s) (soff s + sln s) n (sln s) v true in
          (wset_regs (wset_buf st1 (Some (mkS (sblk s) (soff s) (sln s + n) (scp s))) (wpend st1)) (r :: wregs st1),
           e1, mkO E_NONE (sln s + n) None (Some (sblk s, soff s + sln s, n)))
        else (st1, e1, mkO E_PANIC (wlen st1) None None)
      | None =>
        (* nil[0:0]: only n = 0 gets here *)
        if n =? 0 then (wset_regs st1 (mkReg O 0 0 0 [] true :: wregs st1), e1, mkO E_NONE 0 None None)
        else (st1, e1, mkO E_PANIC 0 None None)
      end
  end.

(* WriteBinary(bs): bs is a caller block (len |bs|, [extra] bytes of spare capacity) lent read-only *)
Definition h_writebinary (st : hwriter) (e : env) (bs : bytes) (extra : N) : hwriter * env * wobs :=
  let '(e0, pb, st) :=
    if 0 <? len bs + extra
    then let '(e0, pb) := e_lend e (bs ++ repeat 0 (N.to_nat extra)) true in (e0, pb, wadd_given st pb)
    else (e, O, st) in
  match werr st with
  | Some x => (st, e0, mkO x (wlen st) None None)
  | None =>
    let '(st1, e1) := wacquire st e0 (len bs) in
    match wbuf st1 with
    | Some s =>
      (* n = copy(w.buf[len(w.buf):cap(w.buf)], bs) ; w.buf = w.buf[:len(w.buf)+n] *)
      let n := N.min (scp s - sln s) (len bs) in
      let '(e2, v) := e_read e1 pb 0 n in
      let e3 := e_write e2 (sblk s) (soff s + sln s) v in
      let r := mkReg (sblk s) (soff s + sln s) n (sln s) v false in
      (wset_regs (wset_buf st1 (Some (mkS (sblk s) (soff s) (sln s + n) (scp s))) (wpend st1)) (r :: wregs st1),
       e3, mkO (if n =? len bs then E_NONE else E_SHORT) (sln s + n) None None)
    | None => (st1, e1, mkO (if len bs =? 0 then E_NONE else E_SHORT) 0 None None)
    end
  end.

(* for _, oldBuf := range w.pendingBuf { offset += copy(w.buf[offset:], oldBuf[offset:]) } *)
Fixpoint stitch (e : env) (pd : list bslice) (c : bslice) (offset : N) : option (env * N) :=
  match pd with
  | [] => Some (e, offset)
  | ob :: rest =>
    if (offset <=? sln c) && (offset <=? sln ob) then
      let m := N.min (sln c - offset) (sln ob - offset) in
      let '(e1, v) := e_read e (sblk ob) (soff ob + offset) m in
      stitch (e_write e1 (sblk c) (soff c + offset) v) rest c (offset + m)
    else None      (* slice bounds out of range *)
  end.

Definition sink_write (k : sinkst) (p : bslice) (content : bytes) : sinkst * option Z :=
  if kfake k then (mkSink true (klog k ++ [content]) (kcalls k + 1) (kfail k) (Some p), None)
  else if kcalls k + 1 =? kfail k then (mkSink false (klog k) (kcalls k + 1) (kfail k) (ktarget k), Some e_sink)
  else (mkSink false (klog k ++ [content]) (kcalls k + 1) (kfail k) (ktarget k), None).

Fixpoint free_all (e : env) (l : list bslice) : env :=
  match l with [] => e | s :: r => free_all (e_free e s) r end.
Fixpoint drop_all (e : env) (l : list bslice) : env :=
  match l with [] => e | s :: r => drop_all (emit e (EvDrop (sblk s))) r end.

Definition count_open (l : list region) : nat := length (filter gopen l).

Definition h_flush (st : hwriter) (e : env) : hwriter * env * wobs :=
  match werr st with
  | Some x => (st, e, mkO x (wlen st) None None)
  | None =>
    match wbuf st with
    | None => (st, e, mkO E_NONE 0 None None)
    | Some c =>
      match stitch e (wpend st) c 0 with
      | None => (st, e, mkO E_PANIC (wlen st) None None)
      | Some (e1, _) =>
        (* w.wd.Write(w.buf): foreign code runs, then reads the slice *)
        let e2 := e_callback e1 in
        let '(e3, content) := e_read e2 (sblk c) (soff c) (sln c) in
        let '(k', er) := sink_write (wsink st) c content in
        match er with
        | Some x =>
          (mkWr (wbuf st) (wpend st) (Some x) (wnocache st) (wstats st) (wsidx st) k' (wregs st) (wnstale st) (wlent st) (wgiven st),
           e3, mkO x (wlen st) None None)
        | None =>
          let '(bk, bi) := stat_update (wstats st) (wsidx st) (scp c) in
          let e4 :=
            if wnocache st then
              (* nothing is freed; the flushed slice now belongs to the caller, the rest is garbage *)
              drop_all (if 0 <? scp c then emit e3 (EvGive (sblk c)) else e3) (wpend st)
            else free_all (if 0 <? scp c then e_free e3 c else e3) (wpend st) in
          (mkWr None [] None (wnocache st) bk bi k' [] (wnstale st + count_open (wregs st)) (wlent st)
                (if wnocache st && (0 <? scp c) && negb (memb (sblk c) (wlent st)) then sblk c :: wgiven st else wgiven st),
           e4, mkO E_NONE 0 (Some content) None)
        end
      end
    end
  end.

(* ---------- the caller stores through a region it got from Malloc ---------- *)
Fixpoint nth_open (l : list region) (j : nat) : option region :=
  match l with
  | [] => None
  | r :: rest =>
    if gopen r then match j with O => Some r | S j' => nth_open rest j' end
    else nth_open rest j
  end.
(* the k-th Malloc region since the writer was created (newest first in [wregs]) *)
Definition open_index (st : hwriter) (k : nat) : option nat :=
  if (k <? wnstale st)%nat then None
  else let i := (k - wnstale st)%nat in
       let c := count_open (wregs st) in
       if (i <? c)%nat then Some (c - 1 - i)%nat else None.
Definition region_at (st : hwriter) (k : nat) : option region :=
  match open_index st k with Some j => nth_open (wregs st) j | None => None end.

Definition upd_region (r : region) (off : N) (data : bytes) : region :=
  mkReg (gblk r) (gphys r) (gln r) (glog r) (splice (gval r) off data) (gopen r).

Fixpoint upd_open (l : list region) (j : nat) (off : N) (data : bytes) : list region :=
  match l with
  | [] => []
  | r :: rest =>
    if gopen r then match j with
                    | O => upd_region r off data :: rest
                    | S j' => r :: upd_open rest j' off data
                    end
    else r :: upd_open rest j off data
  end.

(* copy(region_k[off:], data) with off+len(data) <= n and data non-empty; anything else (stale,
   unknown, out of range) is a caller contract violation and is ignored *)
Definition h_fill (st : hwriter) (w : world) (k : nat) (off : N) (data : bytes) : option (hwriter * world) :=
  match open_index st k with
  | Some j =>
    match nth_open (wregs st) j with
    | Some r =>
      if (off + len data <=? gln r) && (0 <? len data)
      then Some (wset_regs st (upd_open (wregs st) j off data),
                 mkW (write (wh w) (gblk r, gphys r + off) data) (wpool w) (wcot w))
      else None
    | None => None
    end
  | None => None
  end.

Inductive wop : Type :=
| WMalloc (n : Z) | WWriteBinary (bs : bytes) (extra : N) | WFill (k : nat) (off : N) (data : bytes) | WFlush | WLen.

Definition w_step (st : hwriter) (e : env) (o : wop) : hwriter * env * wobs :=
  match o with
  | WMalloc n => h_malloc st e n
  | WWriteBinary bs extra => h_writebinary st e bs extra
  | WFill k off data =>
    match h_fill st (ew e) k off data with
    | Some (st', w') => (st', mkE w' (eal e) (eadv e) (epool e) (eev e), mkO E_NONE (wlen st') None None)
    | None => (st, e, mkO E_INVALID (wlen st) None None)
    end
  | WFlush => h_flush st e
  | WLen => (st, e, mkO E_NONE (wlen st) None None)
  end.

Inductive wstep : Type :=
| WOp (o : wop) (al : list achoice) (adv padv : list (list costep))
| WCo (l : list costep).

Definition wrun_step (x : hwriter * world * list event) (s : wstep) : hwriter * world * list event * option wobs :=
  let '(st, w, tr) := x in
  match s with
  | WOp o al adv padv =>
    let '(st', e', out) := w_step st (mkE w al adv padv tr) o in
    (st', ew e', eev e', Some out)
  | WCo l => (st, co_run w l, tr, None)
  end.

Fixpoint wrun (x : hwriter * world * list event) (h : list wstep) : hwriter * world * list event * list wobs :=
  match h with
  | [] => (x, [])
  | s :: r =>
    let '(x', o) := wrun_step x s in
    let '(x'', outs) := wrun x' r in
    (x'', match o with Some o' => o' :: outs | None => outs end)
  end.
