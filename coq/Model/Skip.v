(* Model/Skip.v — Binary.Skip / skipType / skipstr (protocol/thrift/binary.go:412-579), the
   unsafe-pointer skipper, exactly as coded.

   Pointers are offsets into the caller's slice [b]: the base pointer [p] is an offset, the
   end pointer [e] is [len b] (Binary.Skip: e = &b[0] + len(b)), [unsafe.Add(p, i)] is [p + i]
   and every comparison [uintptr(p)+uintptr(k) > e] / [>= e] / [<= e] is the same comparison
   on offsets (addresses do not wrap: trusted-base assumption of DESIGN §7).  Every load
   (byte loads through the pointer, [p2i32]) is a checked operation of the MODEL: it returns [OOB] when it would
   touch an offset >= len b, so that "never reads outside the slice" is a statement
   (Proofs/SkipP.v: bskip_safe).

   Type bytes are raw bytes [t : N] (0..255); TType is int8, so a comparison [t == STRING] is a
   comparison of [i8 t] with the constant, and [typeToSize[uint8(t)]] indexes the table with
   the byte itself.  The translator exports the signedness of each index expression; if a site
   of a file is signed again (the D1 defect) the lookup panics for bytes >= 0x80.

   Loops are standalone higher-order fixpoints on explicit fuel ([S (length b)], every iteration
   consumes at least one byte or fails); [e_fuel] is never returned (SkipP.bskip_is_ref). *)
From GV Require Import Lib.Bytes Lib.Res Gen.Consts Model.Binary.
Open Scope N_scope.

(* ---------- shared by the five skipper models ---------- *)
Definition e_fuel : Z := 99.      (* a loop ran out of fuel: excluded by the theorems *)

(* state-passing outcome, used by the stream skippers *)
Definition sres (S A : Type) : Type := (S * res A)%type.
Definition sbind {S A B} (m : sres S A) (f : S -> A -> sres S B) : sres S B :=
  let '(s, r) := m in
  match r with
  | Ok a => f s a
  | Err e => (s, Err e)
  | Panic w => (s, Panic w)
  | OOB => (s, OOB)
  end.
Definition sret {S A} (s : S) (r : res A) : sres S A := (s, r).

(* does any typeToSize[...] site of this source file index with a signed expression?
   Evaluated when this file is compiled (on every run, from the regenerated Gen/Consts.v), so
   that the extracted model carries plain booleans. *)
Definition file_signed (file : string) : bool :=
  existsb (fun s => String.eqb (fst s) file && (snd s =? 1)%Z) thrift_typeToSize_index_sites.
Definition signed_binary : bool := Eval vm_compute in file_signed "binary".
Definition signed_bufferreader : bool := Eval vm_compute in file_signed "bufferreader".
Definition signed_tpl : bool := Eval vm_compute in file_signed "skipdecoder_tpl".
Inductive site := SBinary | SBufferReader | STpl.
Definition tts_signed (s : site) : bool :=
  match s with SBinary => signed_binary | SBufferReader => signed_bufferreader | STpl => signed_tpl end.

(* typeToSize[uint8(t)] (or typeToSize[t] with t int8 when the site is signed): [t] is the raw byte *)
Definition tts (s : site) (t : N) : res Z :=
  if tts_signed s && (128 <=? t) then Panic 3
  else match nth_error thrift_typeToSize (N.to_nat t) with
       | Some z => Ok z
       | None => Panic 2
       end.

(* t == C  for t : TType (int8) holding the byte [t] and a type constant C *)
Definition is_ty (t : N) (c : Z) : bool := (i8 t =? c)%Z.

Definition depth0 : nat := Z.to_nat thrift_defaultRecursionDepth.

(* binary.BigEndian.Uint32(b) / Uint16(b): panic (bounds check) when b is too short *)
Definition be_u32 (b : bytes) : res N := if len b <? 4 then Panic 2 else Ok (unbe (firstn 4 b)).
Definition be_u16 (b : bytes) : res N := if len b <? 2 then Panic 2 else Ok (unbe (firstn 2 b)).

(* ---------- loads through unsafe pointers ---------- *)
Definition ld8 (b : bytes) (off : N) : res N :=
  match nth_error b (N.to_nat off) with
  | Some x => Ok x
  | None => OOB
  end.
(* p2i32(p) as the uint32 pattern; bytes off .. off+3 *)
Definition ld32 (b : bytes) (off : N) : res N :=
  let s := firstn 4 (skipn (N.to_nat off) b) in
  if (length s <? 4)%nat then OOB else Ok (unbe s).

(* ---------- skipstr (binary.go:423-434) ---------- *)
Definition b_skipstr (b : bytes) (e p : N) : res N :=
  if p + 4 <=? e then
    do u <- ld32 b p;
    let n := i32 u in                                   (* n := int(p2i32(p)) *)
    if (n <? 0)%Z then Err e_neg_size
    else if p + (4 + Z.to_N n) <=? e then Ok (4 + Z.to_N n)
    else Err e_too_short
  else Err e_too_short.

(* ---------- the loops ---------- *)
(* LIST/SET slow path (binary.go:529-547):
     for j := 0; j < sz; j++ { if p+i >= e {short}; vi, err = elem(p+i); if err {return}; i += vi }
   [cnt] = sz - j. *)
Fixpoint b_list_loop (elem : N -> res N) (e p : N) (fuel : nat) (cnt i : N) : res N :=
  if cnt =? 0 then Ok i else
  match fuel with
  | O => Err e_fuel
  | S f =>
    if e <=? p + i then Err e_too_short else
    do vi <- elem (p + i);
    b_list_loop elem e p f (cnt - 1) (i + vi)
  end.

(* MAP slow path (binary.go:476-508): key, then value, each preceded by "p+i >= e" *)
Fixpoint b_map_loop (kf vf : N -> res N) (e p : N) (fuel : nat) (cnt i : N) : res N :=
  if cnt =? 0 then Ok i else
  match fuel with
  | O => Err e_fuel
  | S f =>
    if e <=? p + i then Err e_too_short else
    do ki <- kf (p + i);
    let i1 := i + ki in
    if e <=? p + i1 then Err e_too_short else
    do vi <- vf (p + i1);
    b_map_loop kf vf e p f (cnt - 1) (i1 + vi)
  end.

(* STRUCT (binary.go:548-575) *)
Fixpoint b_struct_loop (fld : N -> N -> res N) (b : bytes) (e p : N) (fuel : nat) (i : N) : res N :=
  match fuel with
  | O => Err e_fuel
  | S f =>
    if e <=? p + i then Err e_too_short else
    do ft <- ld8 b (p + i);
    let i1 := i + 1 in                                   (* TType *)
    if is_ty ft thrift_STOP then Ok i1 else
    let i2 := i1 + 2 in                                  (* field id *)
    if e <=? p + i2 then Err e_too_short else
    do fi <- fld ft (p + i2);
    b_struct_loop fld b e p f (i2 + fi)
  end.

(* one key / value / element of a slow path:
     if sz > 0 { n = sz } else if t == STRING { skipstr } else { skipType(.., t, maxdepth-1) } *)
Definition b_elem (self : N -> N -> res N) (b : bytes) (e : N) (sz : Z) (t : N) (q : N) : res N :=
  if (0 <? sz)%Z then Ok (Z.to_N sz)
  else if is_ty t thrift_STRING then b_skipstr b e q
  else self q t.

(* one struct field: typeToSize[uint8(ft)] > 0 ? that size : STRING ? skipstr : skipType *)
Definition b_field (self : N -> N -> res N) (b : bytes) (e : N) (ft : N) (q : N) : res N :=
  do fsz <- tts SBinary ft;
  b_elem self b e fsz ft q.

(* ---------- skipType (binary.go:446-579) ---------- *)
Fixpoint bskip (d : nat) (b : bytes) (e : N) (fu : nat) (p : N) (t : N) {struct d} : res N :=
  match d with
  | O => Err e_depth
  | S d' =>
    do n <- tts SBinary t;
    if (0 <? n)%Z then
      if e <? p + Z.to_N n then Err e_too_short else Ok (Z.to_N n)
    else if is_ty t thrift_STRING then b_skipstr b e p
    else if is_ty t thrift_MAP then
      if e <? p + 6 then Err e_too_short else
      do kt <- ld8 b p;
      do vt <- ld8 b (p + 1);
      do u <- ld32 b (p + 2);
      let sz := i32 u in
      if (sz <? 0)%Z then Err e_neg_size else
      do ksz <- tts SBinary kt;
      do vsz <- tts SBinary vt;
      if (0 <? ksz)%Z && (0 <? vsz)%Z then              (* fast path *)
        let kv := Z.to_N (sz * (ksz + vsz)) in
        if e <? p + (6 + kv) then Err e_too_short else Ok (6 + kv)
      else
        let self := fun q t' => bskip d' b e fu q t' in
        do i <- b_map_loop (b_elem self b e ksz kt) (b_elem self b e vsz vt) e p fu (Z.to_N sz) 6;
        if e <? p + i then Err e_too_short else Ok i     (* the D2 repair *)
    else if is_ty t thrift_LIST || is_ty t thrift_SET then
      if e <? p + 5 then Err e_too_short else
      do vt <- ld8 b p;
      do u <- ld32 b (p + 1);
      let sz := i32 u in
      if (sz <? 0)%Z then Err e_neg_size else
      do vsz <- tts SBinary vt;
      if (0 <? vsz)%Z then                               (* fast path *)
        let lv := Z.to_N (sz * vsz) in
        if e <? p + (5 + lv) then Err e_too_short else Ok (5 + lv)
      else
        let self := fun q t' => bskip d' b e fu q t' in
        b_list_loop (b_elem self b e vsz vt) e p fu (Z.to_N sz) 5
    else if is_ty t thrift_STRUCT then
      let self := fun q t' => bskip d' b e fu q t' in
      b_struct_loop (b_field self b e) b e p fu 0
    else Err e_unknown_type
  end.

(* skipType(&b[0], &b[0]+len(b), t, depth) on a non-empty slice (the verif hook VerifSkipDepth) *)
Definition skip_type_depth (b : bytes) (t : N) (d : nat) : res N :=
  bskip d b (len b) (S (length b)) 0 t.

(* Binary.Skip (binary.go:437-444) *)
Definition binary_skip (b : bytes) (t : N) : res N :=
  if len b =? 0 then Err e_too_short
  else skip_type_depth b t depth0.
