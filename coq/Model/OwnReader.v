(* Model/OwnReader.v — HEAP-LEVEL model of bufiox.DefaultReader / BytesReader
   (bufiox/defaultbuf.go:29-221): buffers are blocks of the shared world (Model/Own.v), the
   slices handed out by Next/Peek are (block, offset, len) and stay in the ghost list [rlive]
   until the next Release.  Control flow follows the Go code branch by branch; every allocation
   takes its block from the oracle, every io.Reader.Read is a callback point where the
   co-tenant runs, every copy/Free is logged. *)
From GV Require Import Lib.Bytes Lib.Res Lib.Heap Gen.Consts Model.Own.
Open Scope N_scope.

(* a slice handed to the caller: where it lives and which stream bytes it was returned with *)
Record lslice := mkL { lblk : nat; loff : N; llen : N; lpos : N }.

Record hreader := mkR {
  rbuf : option bslice;        (* r.buf (None = nil) *)
  rro : bool;                  (* r.bufReadOnly *)
  rpend : list bslice;         (* r.pendingBuf *)
  rri : N;                     (* r.ri *)
  rerr : option Z;             (* r.err *)
  rsrc : source;               (* r.rd *)
  rstats : list N; rsidx : N;  (* r.maxSizeStats *)
  (* ghost *)
  rlive : list lslice;         (* slices handed out by Next/Peek since the last Release, newest first *)
  rcaller : list nat;          (* caller-owned blocks (the argument of NewBytesReader) *)
  rcur : N                     (* stream position of buf[ri] = number of bytes consumed *)
}.

Definition buf_len (st : hreader) : N := match rbuf st with Some s => sln s | None => 0 end.
Definition buf_cap (st : hreader) : N := match rbuf st with Some s => scp s | None => 0 end.

Definition set_buf (st : hreader) (b : option bslice) (ro : bool) (pd : list bslice) : hreader :=
  mkR b ro pd (rri st) (rerr st) (rsrc st) (rstats st) (rsidx st) (rlive st) (rcaller st) (rcur st).
Definition set_err_src (st : hreader) (b : option bslice) (e : option Z) (s : source) : hreader :=
  mkR b (rro st) (rpend st) (rri st) e s (rstats st) (rsidx st) (rlive st) (rcaller st) (rcur st).

(* NewDefaultReader(rd) *)
Definition new_reader (s : source) : hreader :=
  mkR None false [] 0 None s (repeat 0 (N.to_nat nbuckets)) 0 [] [] 0.

(* NewBytesReader(buf): the caller's block holds pre ++ data ++ spare, buf = block[|pre| : |pre|+|data| : cap] *)
Definition new_bytes_reader (e : env) (pre data spare : bytes) : hreader * env :=
  if 0 <? len data + len spare then
    let '(e1, b) := e_lend e (pre ++ data ++ spare) true in
    (mkR (Some (mkS b (len pre) (len data) (len data + len spare))) true [] 0 None (done_source data)
         (repeat 0 (N.to_nat nbuckets)) 0 [] [b] 0, e1)
  else (mkR None false [] 0 None (done_source data) (repeat 0 (N.to_nat nbuckets)) 0 [] [] 0, e).

(* the read loop of acquireSlow:
     for empty := 0; empty < maxConsecutiveEmptyReads; {
        m, err := rd.Read(buf[len:cap]); buf = buf[:len+m]
        if err != nil { r.err = err; if n <= len-ri {return n}; return len-ri }
        if n <= len-ri { return n }
        if m > 0 { empty = 0 } else { empty++ } }
     r.err = io.ErrNoProgress; return len-ri
   [fo] bounds the non-empty reads, [left] counts the empty reads still allowed *)
Fixpoint read_loop (fo : nat) : nat -> hreader -> env -> N -> hreader * env * N :=
  fix inner (left : nat) (st : hreader) (e : env) (n : N) : hreader * env * N :=
    match left with
    | O => (set_err_src st (rbuf st) (Some e_noprogress) (rsrc st), e, buf_len st - rri st)
    | S left' =>
      match rbuf st with
      | None => (st, e, 0)          (* unreachable: acquireSlow made cap > 0 *)
      | Some s =>
        let e0 := e_callback e in                                (* rd.Read is foreign code *)
        let '(bs, er, src') := src_read (rsrc st) (scp s - sln s) in
        let e1 := e_write e0 (sblk s) (soff s + sln s) bs in      (* Read stores into buf[len:cap] *)
        let s' := mkS (sblk s) (soff s) (sln s + len bs) (scp s) in
        match er with
        | Some ev =>
          (set_err_src st (Some s') (Some ev) src', e1,
           if n <=? sln s' - rri st then n else sln s' - rri st)
        | None =>
          let st' := set_err_src st (Some s') (rerr st) src' in
          if n <=? sln s' - rri st then (st', e1, n)
          else if 0 <? len bs then
            match fo with
            | O => (st', e1, sln s' - rri st)      (* out of fuel: never happens *)
            | S fo' => read_loop fo' max_empty st' e1 n
            end
          else inner left' st' e1 n
        end
      end
    end.

Definition acquire_slow (st : hreader) (e : env) (n : N) : hreader * env * N :=
  match rerr st with
  | Some _ => (st, e, buf_len st - rri st)
  | None =>
    (* if cap(r.buf) == 0 { r.buf = mcache.Malloc(0, maxSize); r.bufReadOnly = false } *)
    let '(st1, e1) :=
      if buf_cap st =? 0 then
        let m0 := stat_max (rstats st) in
        let m0 := if m0 <? bufsz then bufsz else m0 in
        let m := double_until (loop_fuel n) m0 n in
        let '(e', b) := e_malloc e m in
        (set_buf st (Some (mkS b 0 0 (pow2ceil m))) false (rpend st), e')
      else (st, e) in
    (* if n > cap(r.buf)-r.ri { grow } *)
    let '(st2, e2) :=
      match rbuf st1 with
      | None => (st1, e1)
      | Some s =>
        if scp s - rri st1 <? n then
          let ncap := grow_until (loop_fuel n) (scp s * 2) (rri st1) n in
          let '(e', nb) := e_malloc e1 ncap in                  (* nbuf := mcache.Malloc(ncap): len ncap *)
          let pd := if rro st1 then rpend st1 else rpend st1 ++ [s] in
          (* cn := copy(nbuf[r.ri:], r.buf[r.ri:]) *)
          let cn := N.min (ncap - rri st1) (sln s - rri st1) in
          let '(e'', v) := e_read e' (sblk s) (soff s + rri st1) cn in
          let e''' := e_write e'' nb (rri st1) v in
          (set_buf st1 (Some (mkS nb 0 (rri st1 + cn) (pow2ceil ncap))) false pd, e''')
        else (st1, e1)
      end in
    read_loop (S (length (sdata (rsrc st2)))) max_empty st2 e2 n
  end.

Definition acquire (st : hreader) (e : env) (n : N) : hreader * env * N :=
  if n <=? buf_len st - rri st then (st, e, n) else acquire_slow st e n.

(* outputs (as in Model/BufReader.v, plus where the returned slice lives) *)
Inductive hout : Type :=
| HBytes (b : bytes) (l : option lslice)   (* slice returned by Next/Peek: contents now, location (None: empty/nil) *)
| HNil                                     (* (nil, nil) *)
| HErr (e : Z)
| HUnit
| HRead (m : N) (b : bytes) (e : option Z)
| HLen (n : N).

Definition fail_out (st : hreader) : hout :=
  match rerr st with Some e => HErr e | None => HNil end.

Definition advance (st : hreader) (n : N) : hreader :=
  mkR (rbuf st) (rro st) (rpend st) (rri st + n) (rerr st) (rsrc st) (rstats st) (rsidx st)
      (rlive st) (rcaller st) (rcur st + n).
Definition add_live (st : hreader) (l : option lslice) : hreader :=
  match l with
  | None => st
  | Some x => mkR (rbuf st) (rro st) (rpend st) (rri st) (rerr st) (rsrc st) (rstats st) (rsidx st)
                  (x :: rlive st) (rcaller st) (rcur st)
  end.

(* buf = r.buf[r.ri : r.ri+n] — no memory is touched, the caller reads it later *)
Definition hand_out (st : hreader) (e : env) (n : N) : bytes * option lslice :=
  match rbuf st with
  | Some s =>
    (read (wh (ew e)) (Some (sblk s, soff s + rri st)) n,
     if n =? 0 then None else Some (mkL (sblk s) (soff s + rri st) n (rcur st)))
  | None => ([], None)
  end.

Definition h_next (st : hreader) (e : env) (n : Z) : hreader * env * hout :=
  if (n <? 0)%Z then (st, e, HErr e_negcount)
  else let '(st', e', m) := acquire st e (Z.to_N n) in
       if m <? Z.to_N n then (st', e', fail_out st')
       else let '(v, l) := hand_out st' e' (Z.to_N n) in
            (advance (add_live st' l) (Z.to_N n), e', HBytes v l).

Definition h_peek (st : hreader) (e : env) (n : Z) : hreader * env * hout :=
  if (n <? 0)%Z then (st, e, HErr e_negcount)
  else let '(st', e', m) := acquire st e (Z.to_N n) in
       if m <? Z.to_N n then (st', e', fail_out st')
       else let '(v, l) := hand_out st' e' (Z.to_N n) in
            (add_live st' l, e', HBytes v l).

Definition h_skip (st : hreader) (e : env) (n : Z) : hreader * env * hout :=
  if (n <? 0)%Z then (st, e, HErr e_negcount)
  else let '(st', e', m) := acquire st e (Z.to_N n) in
       if m <? Z.to_N n then (st', e', match rerr st' with Some x => HErr x | None => HUnit end)
       else (advance st' (Z.to_N n), e', HUnit).

(* m = acquire(len(bs)); copy(bs, r.buf[r.ri:r.ri+m]); r.ri += m  — bs is the caller's, a value here *)
Definition h_readbinary (st : hreader) (e : env) (k : N) : hreader * env * hout :=
  let '(st', e', m) := acquire st e k in
  match rbuf st' with
  | Some s =>
    let '(e'', v) := e_read e' (sblk s) (soff s + rri st') (N.min m k) in
    (advance st' m, e'', HRead m v (if m <? k then rerr st' else None))
  | None => (advance st' m, e', HRead m [] (if m <? k then rerr st' else None))
  end.

Fixpoint free_all (e : env) (l : list bslice) : env :=
  match l with [] => e | s :: r => free_all (e_free e s) r end.

Definition h_release (st : hreader) (e : env) : hreader * env :=
  let e1 := free_all e (rpend st) in
  match rbuf st with
  | None =>
    (* len(r.buf)-r.ri == 0 with a nil buffer: stats.update(0), nothing to free *)
    let '(bk, bi) := stat_update (rstats st) (rsidx st) 0 in
    (mkR None (rro st) [] 0 (rerr st) (rsrc st) bk bi [] (rcaller st) (rcur st), e1)
  | Some s =>
    if sln s - rri st =? 0 then
      let '(bk, bi) := stat_update (rstats st) (rsidx st) (scp s) in
      let e2 := if negb (rro st) && (0 <? scp s) then e_free e1 s else e1 in
      (mkR None (rro st) [] 0 (rerr st) (rsrc st) bk bi [] (rcaller st) (rcur st), e2)
    else if rro st then
      (* r.buf = r.buf[r.ri:] *)
      (mkR (Some (mkS (sblk s) (soff s + rri st) (sln s - rri st) (scp s - rri st))) true [] 0
           (rerr st) (rsrc st) (rstats st) (rsidx st) [] (rcaller st) (rcur st), e1)
    else
      (* n := copy(r.buf, r.buf[r.ri:]); r.buf = r.buf[:n] *)
      let '(e2, v) := e_read e1 (sblk s) (soff s + rri st) (sln s - rri st) in
      let e3 := e_write e2 (sblk s) (soff s) v in
      (mkR (Some (mkS (sblk s) (soff s) (sln s - rri st) (scp s))) false [] 0
           (rerr st) (rsrc st) (rstats st) (rsidx st) [] (rcaller st) (rcur st), e3)
  end.

(* thrift.SkipDecoder over this reader (skipdecoder.go:57-78): Next(t) = rn := 0; for every
   SkipN(n) of the template: Peek(rn+n), rn += n; finally r.Next(rn).  The sizes the template
   asks for depend on the data; the model takes them as a list (every list is covered). *)
Fixpoint sd_peeks (st : hreader) (e : env) (rn : N) (sizes : list N) : hreader * env * option Z * N :=
  match sizes with
  | [] => (st, e, None, rn)
  | n :: r =>
    match h_peek st e (Z.of_N (rn + n)) with
    | (st', e', HBytes _ _) => sd_peeks st' e' (rn + n) r
    | (st', e', HErr x) => (st', e', Some x, rn)
    | (st', e', _) => (st', e', Some 0%Z, rn)
    end
  end.
Definition h_sdnext (st : hreader) (e : env) (sizes : list N) : hreader * env * hout :=
  match sd_peeks st e 0 sizes with
  | (st', e', Some x, _) => (st', e', if (x =? 0)%Z then HNil else HErr x)
  | (st', e', None, rn) => h_next st' e' (Z.of_N rn)
  end.

Inductive hop : Type :=
| HNext (n : Z) | HPeek (n : Z) | HSkip (n : Z) | HReadBinary (k : N) | HReadLen | HRelease
| HSdNext (sizes : list N).

Definition h_step (st : hreader) (e : env) (o : hop) : hreader * env * hout :=
  match o with
  | HNext n => h_next st e n
  | HPeek n => h_peek st e n
  | HSkip n => h_skip st e n
  | HReadBinary k => h_readbinary st e k
  | HReadLen => (st, e, HLen (rri st))
  | HRelease => let '(st', e') := h_release st e in (st', e', HUnit)
  | HSdNext sizes => h_sdnext st e sizes
  end.

(* ---------- histories: reader operations interleaved with co-tenant activity ---------- *)
Inductive hstep : Type :=
| SOp (o : hop) (al : list achoice) (adv padv : list (list costep))   (* one reader op with its oracle answers *)
| SCo (l : list costep).                                          (* the co-tenant between two ops *)

(* a step on (reader, world, trace): the op starts with exactly the oracle it is given *)
Definition run_step (x : hreader * world * list event) (s : hstep) : hreader * world * list event * option hout :=
  let '(st, w, tr) := x in
  match s with
  | SOp o al adv padv =>
    let '(st', e', out) := h_step st (mkE w al adv padv tr) o in
    (st', ew e', eev e', Some out)
  | SCo l => (st, co_run w l, tr, None)
  end.

Fixpoint run (x : hreader * world * list event) (h : list hstep) : hreader * world * list event * list hout :=
  match h with
  | [] => (x, [])
  | s :: r =>
    let '(x', o) := run_step x s in
    let '(x'', outs) := run x' r in
    (x'', match o with Some o' => o' :: outs | None => outs end)
  end.
