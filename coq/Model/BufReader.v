(* Model/BufReader.v — bufiox.DefaultReader / BytesReader (bufiox/defaultbuf.go:29-216).
   Value-level model: the state keeps the unread window buf[ri:len] (the only part of the
   buffer that is ever observed again), ri, cap and the flags; buffer identity, parked buffers
   and the pool are the subject of the heap-level model (C09).

   Source model (DESIGN §4): an io.Reader is (data, final, with_data, chunks): the bytes it will
   ever deliver, the error it reports once they are exhausted, whether that error accompanies
   the last bytes or comes on the following call, and a fragmentation script: the most bytes
   each successive Read may return (0 = empty read; exhausted script = as much as fits). *)
From GV Require Import Lib.Bytes Lib.Res Gen.Consts.
Open Scope N_scope.

(* error codes of this layer *)
Definition e_eof : Z := 20.          (* io.EOF *)
Definition e_injected : Z := 21.     (* an error value injected by the test source *)
Definition e_noprogress : Z := 22.   (* io.ErrNoProgress *)
Definition e_negcount : Z := 23.     (* errNegativeCount *)

Record source := {
  sdata : bytes;        (* everything the source will ever deliver *)
  sfinal : Z;           (* error reported once the data is exhausted (e_eof or e_injected) *)
  swith : bool;         (* true: the error accompanies the last bytes *)
  schunks : list N;     (* fragmentation script *)
  spos : N              (* bytes delivered so far *)
}.

(* One Read(p) with len(p) = room.  Returns (bytes, error option, source'). *)
Definition src_read (s : source) (room : N) : bytes * option Z * source :=
  let remaining := len (sdata s) - spos s in
  let '(c, rest) := match schunks s with [] => (room, []) | c :: r => (c, r) end in
  if remaining =? 0 then
    ([], Some (sfinal s), {| sdata := sdata s; sfinal := sfinal s; swith := swith s; schunks := rest; spos := spos s |})
  else
    let m := N.min c (N.min room remaining) in
    let bs := take m (drop (spos s) (sdata s)) in
    let s' := {| sdata := sdata s; sfinal := sfinal s; swith := swith s; schunks := rest; spos := spos s + m |} in
    if swith s && (m =? remaining) && negb (m =? 0) then (bs, Some (sfinal s), s') else (bs, None, s').

(* fakeIOReader: Read returns (0, io.EOF) *)
Definition fake_source : source := {| sdata := []; sfinal := e_eof; swith := false; schunks := []; spos := 0 |}.

Record rstate := {
  win : bytes;          (* buf[ri:len] *)
  ri : N;               (* read index = ReadLen *)
  cap : N;              (* cap(buf); 0 when buf is nil *)
  ro : bool;            (* bufReadOnly *)
  npend : N;            (* len(pendingBuf) *)
  rerr : option Z;      (* sticky source error *)
  src : source;
  stats : list N;       (* maxSizeStats.buckets *)
  sidx : N              (* maxSizeStats.bucketIdx *)
}.

Definition bufsz : N := Z.to_N bufiox_defaultBufSize.
Definition max_empty : nat := Z.to_nat bufiox_maxConsecutiveEmptyReads.
Definition nbuckets : N := Z.to_N bufiox_statsBucketNum.

Definition set_st (st : rstate) w i c r p e s : rstate :=
  {| win := w; ri := i; cap := c; ro := r; npend := p; rerr := e; src := s; stats := stats st; sidx := sidx st |}.

(* NewDefaultReader(rd) *)
Definition new_reader (s : source) : rstate :=
  {| win := []; ri := 0; cap := 0; ro := false; npend := 0; rerr := None; src := s;
     stats := repeat 0 (N.to_nat nbuckets); sidx := 0 |}.
(* NewBytesReader(buf) with len(buf) = |data|, cap(buf) = bcap *)
Definition new_bytes_reader (data : bytes) (bcap : N) : rstate :=
  if 0 <? bcap then
    {| win := data; ri := 0; cap := bcap; ro := true; npend := 0; rerr := None; src := fake_source;
       stats := repeat 0 (N.to_nat nbuckets); sidx := 0 |}
  else new_reader fake_source.

(* The three doubling loops.  Sizes are mathematical integers here (DESIGN 4: 64-bit int, allocation
   never fails), so each loop gets the number of doublings it can need for its argument:
   starting from x >= 1, x * 2^(bits of n) > n.  Proofs/BufReaderP.v shows the results are >= n. *)
Definition dbl_fuel (n : N) : nat := S (N.size_nat n).
(* smallest power of two >= n (mcache.Malloc capacity) *)
Fixpoint pow2ceil_from (f : nat) (p n : N) : N :=
  match f with O => p | S f' => if n <=? p then p else pow2ceil_from f' (2 * p) n end.
Definition pow2ceil (n : N) : N := pow2ceil_from (dbl_fuel n) 1 n.
(* for x ; x < n ; x *= 2 *)
Fixpoint double_until (f : nat) (x n : N) : N :=
  match f with O => x | S f' => if x <? n then double_until f' (2 * x) n else x end.
(* for ncap = cap*2; ncap - ri < n; ncap *= 2 *)
Fixpoint double_until_room (f : nat) (x r n : N) : N :=
  match f with O => x | S f' => if x - r <? n then double_until_room f' (2 * x) r n else x end.

Definition stats_max (l : list N) : N := fold_left N.max l 0.
Definition stats_update (st : rstate) (size : N) : list N * N :=
  (firstn (N.to_nat (sidx st)) (stats st) ++ size :: skipn (S (N.to_nat (sidx st))) (stats st),
   (sidx st + 1) mod nbuckets).

(* ---- the source as the read loop sees it --------------------------------------------------
   [src_read] above is the reference semantics of one Read.  The loop of acquireSlow performs
   many Reads in a row; recomputing [drop (spos s) (sdata s)] and [len (sdata s)] for each of
   them would make a 1-byte script quadratic in the stream length, so the loop runs on a
   cursor that carries the undelivered rest of the data and its length.  [cur_read] is
   [src_read] on that representation (Proofs/BufReaderP.v: cur_read_src_read). *)
Record scur := { c_rest : bytes; c_rem : N; c_chunks : list N; c_pos : N }.

Definition cur_of (s : source) : scur :=
  {| c_rest := drop (spos s) (sdata s); c_rem := len (sdata s) - spos s;
     c_chunks := schunks s; c_pos := spos s |}.
Definition src_at (s : source) (c : scur) : source :=
  {| sdata := sdata s; sfinal := sfinal s; swith := swith s; schunks := c_chunks c; spos := c_pos c |}.

(* One Read(p) with len(p) = room: (bytes, count, error option, cursor'). *)
Definition cur_read (fin : Z) (wd : bool) (c : scur) (room : N) : bytes * N * option Z * scur :=
  let '(ch, rest) := match c_chunks c with [] => (room, []) | x :: r => (x, r) end in
  if c_rem c =? 0 then
    ([], 0, Some fin, {| c_rest := c_rest c; c_rem := c_rem c; c_chunks := rest; c_pos := c_pos c |})
  else
    let m := N.min ch (N.min room (c_rem c)) in
    let c' := {| c_rest := drop m (c_rest c); c_rem := c_rem c - m; c_chunks := rest; c_pos := c_pos c + m |} in
    (take m (c_rest c), m, (if wd && (m =? c_rem c) && negb (m =? 0) then Some fin else None), c').

(* the read loop of acquireSlow (after the D4/D5 repairs):
     for empty := 0; empty < maxConsecutiveEmptyReads; {
        m, err := rd.Read(buf[len:cap]); buf = buf[:len+m]
        if err != nil { r.err = err; if n <= len-ri {return n}; return len-ri }
        if n <= len-ri { return n }
        if m > 0 { empty = 0 } else { empty++ }
     }
     r.err = io.ErrNoProgress; return len-ri
   cp = cap(buf), i = ri (both constant in the loop), wl = len(buf)-ri, acc = the chunks read
   so far, newest first (appended to the window once, after the loop).
   Result: (cursor', acc', wl', error to store in r.err (None: leave it), value returned).
   [fuel] bounds the number of Reads: each Read uses up a script entry or, once the script is
   exhausted, at least one byte of the source (theorem read_loop_fuel_ok: never exhausted). *)
Fixpoint read_loop (fin : Z) (wd : bool) (cp i n : N) (fuel : nat) (empty : nat)
         (c : scur) (acc : list bytes) (wl : N) : scur * list bytes * N * option Z * N :=
  match fuel with
  | O => (c, acc, wl, None, wl)      (* out of fuel: excluded by the theorems *)
  | S fuel' =>
    if Nat.leb max_empty empty then (c, acc, wl, Some e_noprogress, wl)
    else
      let room := cp - (i + wl) in
      let '(bs, m, e, c') := cur_read fin wd c room in
      let acc' := bs :: acc in
      let wl' := wl + m in
      match e with
      | Some ev => (c', acc', wl', Some ev, if n <=? wl' then n else wl')
      | None =>
        if n <=? wl' then (c', acc', wl', None, n)
        else if 0 <? m then read_loop fin wd cp i n fuel' O c' acc' wl'
        else read_loop fin wd cp i n fuel' (S empty) c' acc' wl'
      end
  end.

(* the chunks read by the loop, oldest first, as one byte string: [concat (rev acc)] computed
   in linear time (stdlib [rev] is quadratic) *)
Definition flat_rev (acc : list bytes) : bytes := fold_left (fun w b => b ++ w) acc [].

Definition loop_fuel (c : scur) : nat := S (length (c_chunks c) + length (c_rest c)).

(* if cap(r.buf) == 0 { maxSize := max(stats.maxSize(), defaultBufSize); for ; maxSize < n; maxSize *= 2 {};
                        r.buf = mcache.Malloc(0, maxSize); r.bufReadOnly = false } *)
Definition alloc_phase (st : rstate) (n : N) : rstate :=
  if cap st =? 0 then
    let m0 := N.max (stats_max (stats st)) bufsz in
    let m := double_until (dbl_fuel n) m0 n in
    set_st st (win st) (ri st) (pow2ceil m) false (npend st) (rerr st) (src st)
  else st.

(* if n > cap(r.buf)-r.ri { for ncap = cap*2; ncap-ri < n; ncap *= 2 {}; nbuf := mcache.Malloc(ncap);
                            if !r.bufReadOnly { pendingBuf = append(pendingBuf, r.buf) };
                            copy(nbuf[ri:], buf[ri:]); r.buf = nbuf[:ri+cn]; r.bufReadOnly = false } *)
Definition grow_phase (st : rstate) (n : N) : rstate :=
  if cap st - ri st <? n then
    let ncap := double_until_room (dbl_fuel (ri st + n)) (2 * cap st) (ri st) n in
    set_st st (win st) (ri st) (pow2ceil ncap) false
           (if ro st then npend st else npend st + 1) (rerr st) (src st)
  else st.

Definition acquire_slow (st : rstate) (n : N) : rstate * N :=
  match rerr st with
  | Some _ => (st, len (win st))
  | None =>
    let st2 := grow_phase (alloc_phase st n) n in
    (* the read loop *)
    let s := src st2 in
    let c0 := cur_of s in
    let '(c', acc, _, e, m) :=
      read_loop (sfinal s) (swith s) (cap st2) (ri st2) n (loop_fuel c0) O c0 [] (len (win st2)) in
    (set_st st2 (win st2 ++ flat_rev acc) (ri st2) (cap st2) (ro st2) (npend st2)
            (match e with Some ev => Some ev | None => rerr st2 end) (src_at s c'), m)
  end.

Definition acquire (st : rstate) (n : N) : rstate * N :=
  if n <=? len (win st) then (st, n) else acquire_slow st n.

(* outputs *)
Inductive rout : Type :=
| OBytes (b : bytes)       (* slice returned (Next/Peek) *)
| ONil                     (* (nil, nil): nothing returned and no error — must never happen *)
| OErr (e : Z)
| OUnit                    (* Skip / Release ok *)
| ORead (m : N) (b : bytes) (e : option Z)   (* ReadBinary: count, bytes copied, error *)
| OLen (n : N).

Definition advance (st : rstate) (n : N) : rstate :=
  set_st st (drop n (win st)) (ri st + n) (cap st) (ro st) (npend st) (rerr st) (src st).

Definition fail_out (st : rstate) : rout :=
  match rerr st with Some e => OErr e | None => ONil end.

Definition r_next (st : rstate) (n : Z) : rstate * rout :=
  if (n <? 0)%Z then (st, OErr e_negcount)
  else let '(st', m) := acquire st (Z.to_N n) in
       if m <? Z.to_N n then (st', fail_out st')
       else (advance st' (Z.to_N n), OBytes (take (Z.to_N n) (win st'))).

Definition r_peek (st : rstate) (n : Z) : rstate * rout :=
  if (n <? 0)%Z then (st, OErr e_negcount)
  else let '(st', m) := acquire st (Z.to_N n) in
       if m <? Z.to_N n then (st', fail_out st')
       else (st', OBytes (take (Z.to_N n) (win st'))).

Definition r_skip (st : rstate) (n : Z) : rstate * rout :=
  if (n <? 0)%Z then (st, OErr e_negcount)
  else let '(st', m) := acquire st (Z.to_N n) in
       if m <? Z.to_N n then (st', match rerr st' with Some e => OErr e | None => OUnit end)
       else (advance st' (Z.to_N n), OUnit).

(* ReadBinary(bs) with len(bs) = k:  m = acquire(k); copy(bs, buf[ri:ri+m]); ri += m; err iff k > m *)
Definition r_readbinary (st : rstate) (k : N) : rstate * rout :=
  let '(st', m) := acquire st k in
  (advance st' m, ORead m (take (N.min m k) (win st')) (if m <? k then rerr st' else None)).

Definition r_readlen (st : rstate) : N := ri st.

Definition r_release (st : rstate) : rstate :=
  if len (win st) =? 0 then
    let '(b, i) := stats_update st (cap st) in
    {| win := []; ri := 0; cap := 0; ro := ro st; npend := 0; rerr := rerr st; src := src st; stats := b; sidx := i |}
  else if ro st then
    set_st st (win st) 0 (cap st - ri st) (ro st) 0 (rerr st) (src st)
  else
    set_st st (win st) 0 (cap st) (ro st) 0 (rerr st) (src st).

(* operations of a history *)
Inductive rop : Type :=
| RNext (n : Z) | RPeek (n : Z) | RSkip (n : Z) | RReadBinary (k : N) | RReadLen | RRelease.

Definition r_step (st : rstate) (o : rop) : rstate * rout :=
  match o with
  | RNext n => r_next st n
  | RPeek n => r_peek st n
  | RSkip n => r_skip st n
  | RReadBinary k => r_readbinary st k
  | RReadLen => (st, OLen (r_readlen st))
  | RRelease => (r_release st, OUnit)
  end.

Fixpoint r_run (st : rstate) (ops : list rop) : rstate * list rout :=
  match ops with
  | [] => (st, [])
  | o :: r => let '(st', out) := r_step st o in
              let '(st'', outs) := r_run st' r in (st'', out :: outs)
  end.
