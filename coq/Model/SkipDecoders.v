(* Model/SkipDecoders.v — the generic skip template SkipDecoderTpl.Skip
   (protocol/thrift/skipdecoder_tpl.go:48-130) over an abstract SkipN, and its three instances
   (protocol/thrift/skipdecoder.go):
     SkipDecoder        Peek-accumulate over a bufiox.Reader            [pk_..]
     BytesSkipDecoder   a slice and an offset                           [bs_..]
     ReaderSkipDecoder  io.ReadFull-style loop into a grown private buffer over an io.Reader [rf_..]
   with each decoder's Next(t) (returns the bytes of the value, resets the state it resets).

   SkipN(n int) is only ever called with n >= 0 here: sizes are typeToSize entries (> 0), a
   non-negative int32 (STRING length: int(int32(uint32)), tested "sz < 0"), or a non-negative
   int32 times a positive width.  The bytes SkipN returns are inspected by the
   template (b[0], b[1], BigEndian.Uint32(b[..])): an instance returning too few bytes makes
   the template panic, as in Go. *)
From GV Require Import Lib.Bytes Lib.Res Gen.Consts Model.Binary Model.BufReader Model.Skip.
Open Scope N_scope.

Section Template.
  Variable St : Type.
  Variable skipN : St -> N -> sres St bytes.

  (* for i := int32(0); i < sz; i++ { if err := body(); err != nil { return err } } *)
  Fixpoint t_loop (body : St -> sres St unit) (fuel : nat) (cnt : N) (s : St) : sres St unit :=
    if cnt =? 0 then (s, Ok tt) else
    match fuel with
    | O => (s, Err e_fuel)
    | S f => sbind (body s) (fun s' _ => t_loop body f (cnt - 1) s')
    end.

  (* STRUCT: for { b := SkipN(1); tp := b[0]; if tp == STOP {break}; SkipN(2); Skip(tp, maxdepth-1) } *)
  Fixpoint t_struct_loop (fld : St -> N -> sres St unit) (fuel : nat) (s : St) : sres St unit :=
    match fuel with
    | O => (s, Err e_fuel)
    | S f =>
      sbind (skipN s 1) (fun s1 b =>
      sbind (sret s1 (index b 0)) (fun s1 tp =>
      if is_ty tp thrift_STOP then (s1, Ok tt)
      else
        sbind (skipN s1 2) (fun s2 _ =>
        sbind (fld s2 tp) (fun s3 _ => t_struct_loop fld f s3))))
    end.

  Fixpoint tskip (d : nat) (fu : nat) (s : St) (t : N) {struct d} : sres St unit :=
    match d with
    | O => (s, Err e_depth)
    | S d' =>
      sbind (sret s (tts STpl t)) (fun s sz =>
      if (0 <? sz)%Z then sbind (skipN s (Z.to_N sz)) (fun s' _ => (s', Ok tt))
      else if is_ty t thrift_STRING then
        sbind (skipN s 4) (fun s1 b =>
        sbind (sret s1 (be_u32 b)) (fun s1 u =>
        let sz := i32 u in                                   (* sz := int(int32(binary.BigEndian.Uint32(b))) *)
        if (sz <? 0)%Z then (s1, Err e_neg_size)
        else sbind (skipN s1 (Z.to_N sz)) (fun s2 _ => (s2, Ok tt))))
      else if is_ty t thrift_STRUCT then
        t_struct_loop (fun s' tp => tskip d' fu s' tp) fu s
      else if is_ty t thrift_MAP then
        sbind (skipN s 6) (fun s1 b =>
        sbind (sret s1 (do kt <- index b 0; do vt <- index b 1; do b2 <- slice_from b 2;
                        do u <- be_u32 b2; Ok (kt, vt, u))) (fun s1 h =>
        let '(kt, vt, u) := h in
        let sz := i32 u in
        if (sz <? 0)%Z then (s1, Err e_neg_size) else
        sbind (sret s1 (tts STpl kt)) (fun s1 ksz =>
        sbind (sret s1 (tts STpl vt)) (fun s1 vsz =>
        if (0 <? ksz)%Z && (0 <? vsz)%Z then
          sbind (skipN s1 (Z.to_N (sz * (ksz + vsz)))) (fun s2 _ => (s2, Ok tt))
        else
          t_loop (fun s' => sbind (tskip d' fu s' kt) (fun s'' _ => tskip d' fu s'' vt)) fu (Z.to_N sz) s1))))
      else if is_ty t thrift_SET || is_ty t thrift_LIST then
        sbind (skipN s 5) (fun s1 b =>
        sbind (sret s1 (do vt <- index b 0; do b1 <- slice_from b 1; do u <- be_u32 b1; Ok (vt, u))) (fun s1 h =>
        let '(vt, u) := h in
        let sz := i32 u in
        if (sz <? 0)%Z then (s1, Err e_neg_size) else
        sbind (sret s1 (tts STpl vt)) (fun s1 vsz =>
        if (0 <? vsz)%Z then
          sbind (skipN s1 (Z.to_N (sz * vsz))) (fun s2 _ => (s2, Ok tt))
        else
          t_loop (fun s' => tskip d' fu s' vt) fu (Z.to_N sz) s1)))
      else (s, Err e_unknown_type))
    end.
End Template.
Arguments tskip {St} skipN d fu s t.
Arguments t_loop {St} body fuel cnt s.
Arguments t_struct_loop {St} skipN fld fuel s.

(* ================= BytesSkipDecoder ================= *)
Record bs_state := { bs_b : bytes; bs_n : N }.

(* if len(p.b) >= p.n+n { p.n += n; return p.b[p.n-n : p.n], nil }; return nil, io.EOF *)
Definition bs_skipN (s : bs_state) (n : N) : sres bs_state bytes :=
  if bs_n s + n <=? len (bs_b s) then
    let n' := bs_n s + n in
    ({| bs_b := bs_b s; bs_n := n' |}, slice_range (bs_b s) (n' - n) n')
  else (s, Err e_eof).

Definition bs_new (b : bytes) : bs_state := {| bs_b := b; bs_n := 0 |}.   (* Reset(b) *)

Definition bs_next_depth (s : bs_state) (t : N) (d : nat) : sres bs_state bytes :=
  (* p.n = 0 (since the repair /repo: a Next that failed part-way no longer leaves its offset behind) *)
  let s0 := {| bs_b := bs_b s; bs_n := 0 |} in
  sbind (tskip bs_skipN d (S (length (bs_b s))) s0 t) (fun s1 _ =>
  (* b = p.b[:p.n]; p.b = p.b[p.n:]; p.n = 0 *)
  sbind (sret s1 (do out <- slice_range (bs_b s1) 0 (bs_n s1);
                  do rest <- slice_from (bs_b s1) (bs_n s1); Ok (out, rest))) (fun _ h =>
  ({| bs_b := snd h; bs_n := 0 |}, Ok (fst h)))).
(* BytesSkipDecoder.Next: on error p.n keeps the bytes consumed so far, until the next Next resets it *)
Definition bs_next (s : bs_state) (t : N) : sres bs_state bytes := bs_next_depth s t depth0.

(* ================= SkipDecoder (Peek-accumulate over bufiox) ================= *)
Record pk_state := { pk_r : rstate; pk_rn : N }.

(* if buf, err = p.r.Peek(p.rn + n); err == nil { buf = buf[p.rn:]; p.rn += n }; return *)
Definition pk_skipN (s : pk_state) (n : N) : sres pk_state bytes :=
  let '(st', o) := r_peek (pk_r s) (Z.of_N (pk_rn s + n)) in
  let adv := {| pk_r := st'; pk_rn := pk_rn s + n |} in
  let same := {| pk_r := st'; pk_rn := pk_rn s |} in
  match o with
  | OBytes buf => match slice_from buf (pk_rn s) with Ok b => (adv, Ok b) | other => (same, other) end
  | OErr e => (same, Err e)
  | ONil => match slice_from (@nil N) (pk_rn s) with Ok b => (adv, Ok b) | other => (same, other) end
  | _ => (same, Panic 9)
  end.

Definition pk_new (st : rstate) : pk_state := {| pk_r := st; pk_rn := 0 |}.

Definition pk_fuel (st : rstate) : nat := S (length (win st) + length (sdata (src st))).

(* p.rn = 0; Skip(t, depth); buf, err = p.r.Next(p.rn) *)
Definition pk_next_depth (s : pk_state) (t : N) (d : nat) : sres pk_state bytes :=
  let s0 := {| pk_r := pk_r s; pk_rn := 0 |} in
  sbind (tskip pk_skipN d (pk_fuel (pk_r s)) s0 t) (fun s1 _ =>
  let '(st', o) := r_next (pk_r s1) (Z.of_N (pk_rn s1)) in
  let s2 := {| pk_r := st'; pk_rn := pk_rn s1 |} in
  match o with
  | OBytes b => (s2, Ok b)
  | OErr e => (s2, Err e)
  | ONil => (s2, Ok [])
  | _ => (s2, Panic 9)
  end).
Definition pk_next (s : pk_state) (t : N) : sres pk_state bytes := pk_next_depth s t depth0.

(* ================= ReaderSkipDecoder (ReadFull loop, private buffer) ================= *)
(* rf_buf = p.b[:p.n] (the only part of the private buffer that is ever observed), rf_len = len(p.b) *)
Record rf_state := { rf_src : source; rf_n : N; rf_buf : bytes; rf_len : N }.

(* for i < n && err == nil { nn, err = p.r.Read(buf[i:]); i += nn }
   returns (source, bytes read, i, err) *)
Fixpoint rf_loop (fuel : nat) (s : source) (n i : N) (acc : bytes) : source * bytes * N * option Z * bool :=
  if i <? n then
    match fuel with
    | O => (s, acc, i, None, true)
    | S f =>
      let '(bs, eo, s') := src_read s (n - i) in
      match eo with
      | Some ev => (s', acc ++ bs, i + len bs, Some ev, false)
      | None => rf_loop f s' n (i + len bs) (acc ++ bs)
      end
    end
  else (s, acc, i, None, false).

(* an exhausted script delivers everything that fits, so after the script at most two more reads happen *)
Definition rf_fuel (s : source) : nat := length (schunks s) + 3.

Definition rf_skipN (s : rf_state) (n : N) : sres rf_state bytes :=
  (* Grow(n): if len(p.b)-p.n >= n { return }; growSlow: p.b = Malloc(p.n+n) with p.b[:p.n] copied *)
  let ln := if rf_n s + n <=? rf_len s then rf_len s else rf_n s + n in
  let '(src', got, i, eo, nofuel) := rf_loop (rf_fuel (rf_src s)) (rf_src s) n 0 [] in
  if nofuel then ({| rf_src := src'; rf_n := rf_n s; rf_buf := rf_buf s; rf_len := ln |}, Err e_fuel)
  else if i <? n then
    ({| rf_src := src'; rf_n := rf_n s; rf_buf := rf_buf s; rf_len := ln |},
     match eo with Some ev => Err ev | None => Panic 9 end)
  else
    ({| rf_src := src'; rf_n := rf_n s + n; rf_buf := rf_buf s ++ got; rf_len := ln |}, Ok got).

Definition rf_new (src : source) (blen : N) : rf_state :=
  {| rf_src := src; rf_n := 0; rf_buf := []; rf_len := blen |}.   (* Reset(r); p.b kept from the pool *)

(* p.n = 0; Skip(t, depth); return p.b[:p.n] *)
Definition rf_next_depth (s : rf_state) (t : N) (d : nat) : sres rf_state bytes :=
  let s0 := {| rf_src := rf_src s; rf_n := 0; rf_buf := []; rf_len := rf_len s |} in
  sbind (tskip rf_skipN d (S (length (sdata (rf_src s)))) s0 t) (fun s1 _ => (s1, Ok (rf_buf s1))).
Definition rf_next (s : rf_state) (t : N) : sres rf_state bytes := rf_next_depth s t depth0.
