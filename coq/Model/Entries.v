(* Model/Entries.v — every buffer-based decoding entry point of the library behind one function
   (property C03): scalar and header readers, message begin, Binary.Skip, BytesSkipDecoder.Next,
   the three shipped FastRead structs, UnmarshalFastMsg, ConvertUnknownFields, ttheader.DecodeFromBytes.
   Each is the model its own property already ties to the Go code; here they are only dispatched and
   projected onto what C03 speaks about: the outcome class and the reported consumed length.

     class 0  success, with the consumed length the entry point reports (-1: it reports none)
     class 1  Go error
     class 2  panic, or a load outside the slice                                                  *)
From GV Require Import Lib.Bytes Lib.Res Gen.Consts Model.Binary Model.Skip Model.BufReader Model.SkipDecoders
     Model.FastCodec Model.Unknown Model.TTHeader.
Open Scope Z_scope.

Definition cls {A} (r : res A) (n : A -> Z) : Z * Z :=
  match r with
  | Ok a => (0, n a)
  | Err _ => (1, 0)
  | Panic _ | OOB => (2, 0)
  end.

Definition nn {A} (x : A * N) : Z := Z.of_N (snd x).

(* thrift.UnmarshalFastMsg(b, msg): ReadMessageBegin, b = b[i:], then the EXCEPTION branch
   (ApplicationException.FastRead, surfaced as an error VALUE: a successful decode) or msg.FastRead *)
Definition unmarshal_cls {A} (read : bytes -> res (A * N)) (b : bytes) : Z * Z :=
  match r_message_begin b with
  | Ok (_, ty, _, i) =>
    match slice_from b i with
    | Ok b' =>
      if ty =? thrift_EXCEPTION then cls (fastread_appex b') (fun _ => -1)
      else cls (read b') (fun _ => -1)
    | Err _ => (1, 0)
    | Panic _ | OOB => (2, 0)
    end
  | Err _ => (1, 0)
  | Panic _ | OOB => (2, 0)
  end.

(* BytesSkipDecoder: NewBytesSkipDecoder(b).Next(t) — the number of bytes returned *)
Definition bytes_skip_cls (b : bytes) (t : N) : Z * Z :=
  cls (snd (bs_next (bs_new b) t)) (fun r => Z.of_N (len r)).

Definition run_entry (entry : Z) (t : N) (b : bytes) : Z * Z :=
  if entry =? 1 then cls (r_bool b) nn
  else if entry =? 2 then cls (r_byte b) nn
  else if entry =? 3 then cls (r_i16 b) nn
  else if entry =? 4 then cls (r_i32 b) nn
  else if entry =? 5 then cls (r_i64 b) nn
  else if entry =? 6 then cls (r_double b) nn
  else if entry =? 7 then cls (r_binary b) nn
  else if entry =? 8 then cls (r_string b) nn
  else if entry =? 9 then cls (r_field_begin b) nn
  else if entry =? 10 then cls (r_map_begin b) nn
  else if entry =? 11 then cls (r_list_begin b) nn
  else if entry =? 12 then cls (r_set_begin b) nn
  else if entry =? 13 then cls (r_message_begin b) nn
  else if entry =? 20 then cls (binary_skip b t) Z.of_N
  else if entry =? 21 then bytes_skip_cls b t
  else if entry =? 30 then cls (fastread_base b) nn
  else if entry =? 31 then cls (fastread_baseresp b) nn
  else if entry =? 32 then cls (fastread_appex b) nn
  else if entry =? 40 then unmarshal_cls fastread_base b
  else if entry =? 41 then unmarshal_cls fastread_appex b
  else if entry =? 50 then cls (convert b) (fun _ => -1)
  else if entry =? 60 then cls (decode_from_bytes b) (fun r => d_hlen r)
  else (1, 0).

Definition known_entry (entry : Z) : bool :=
  ((1 <=? entry) && (entry <=? 13)) || (entry =? 20) || (entry =? 21) || ((30 <=? entry) && (entry <=? 32))
  || (entry =? 40) || (entry =? 41) || (entry =? 50) || (entry =? 60).
