(* Model/TTHeader.v — protocol/ttheader: Encode / writeKVInfo and Decode / readKVInfo /
   readIntKVInfo / readStrKVInfo / readACLToken / checkProtocolID / IsTTHeader / IsStreaming.

   Executable model only (no lemmas).  Bytes are [list N]; Go strings are [bytes].
   The two Go maps of EncodeParam are association lists *in the order in which `range`
   enumerates them* (any order; theorems quantify over it).  Decoded maps are association
   lists in insertion order, newest first: `info[k] = v` is [(k, v) :: m] and a lookup returns
   the first match, i.e. the value assigned last.  A decoded map is an [option]: [None] is Go's
   nil map (no section of that kind was met), [Some []] the empty map made by a section that
   turned out to hold no entry.

   Writers: the model of a bufiox.Writer is the byte string appended so far (C05 covers the
   writer itself); every function returns the bytes it appends and the count the Go function
   returns / adds to writeSize.
   Readers: the model of `in` is the whole byte string the reader can deliver; Next(n) fails
   without consuming when fewer than n bytes remain (C04 covers the reader itself). *)
From GV Require Import Lib.Bytes Lib.Res Gen.Consts.
Open Scope N_scope.

(* ---------- constants of the Go source ---------- *)
Definition str_bytes (s : string) : bytes := map N_of_ascii (list_ascii_of_string s).
(* evaluated at definition time so that the extracted code does not mention Coq's [string] *)
Definition gdpr_key : bytes := Eval vm_compute in str_bytes ttheader_GDPRToken.

Definition c_meta : N := Z.to_N ttheader_TTHeaderMetaSize.
Definition c_magic : N := Z.to_N ttheader_TTHeaderMagic.
Definition c_mask : N := Z.to_N ttheader_MagicMask.
Definition c_max : N := Z.to_N ttheader_MaxHeaderSize.
Definition c_s32 : N := Z.to_N ttheader_Size32.
Definition c_s16 : N := Z.to_N ttheader_Size16.
Definition c_streaming : N := Z.to_N ttheader_HeaderFlagsStreaming.
Definition id_pad : N := Z.to_N ttheader_InfoIDPadding.
Definition id_kv : N := Z.to_N ttheader_InfoIDKeyValue.
Definition id_intkv : N := Z.to_N ttheader_InfoIDIntKeyValue.
Definition id_acl : N := Z.to_N ttheader_InfoIDACLToken.
(* width of the variable `headerInfoSize` in Decode (uint32 after the D7 repair, uint16 before) *)
Definition size_bits : N := Z.to_N ttheader_Decode_headerInfoSize_bits.

Definition u16 (x : N) : N := x mod two16.
Definition u32 (x : N) : N := x mod two32.

(* ---------- error classes ---------- *)
Definition e_eof : Z := 1.        (* io.EOF from Bytes2Uint8/16, ReadString2BLen *)
Definition e_short : Z := 2.      (* in.Next(TTHeaderMetaSize) failed *)
Definition e_magic : Z := 3.      (* not TTHeader protocol *)
Definition e_size : Z := 4.       (* invalid header length *)
Definition e_short2 : Z := 5.     (* in.Next(headerInfoSize) failed *)
Definition e_pid : Z := 6.        (* unsupported ProtocolID *)
Definition e_trans : Z := 7.      (* need read %d transformIDs, but not enough *)
Definition e_kv : Z := 8.         (* read kv info failed: a section is cut *)
Definition e_infoid : Z := 9.     (* read kv info failed: invalid infoIDType *)
Definition e_toolarge : Z := 10.  (* Encode: invalid header length *)
Definition e_fuel : Z := 99.      (* model artefact; proved unreachable *)

(* =====================================================================================
   Encode
   ===================================================================================== *)
Record eparam := {
  p_flags : N;                      (* HeaderFlags, uint16 *)
  p_seq : Z;                        (* int32 *)
  p_pid : N;                        (* ProtocolID, uint8 *)
  p_int : list (N * bytes);         (* map[uint16]string in range order *)
  p_str : list (bytes * bytes)      (* map[string]string in range order *)
}.

(* strKVMap[GDPRToken] *)
Fixpoint find_str (k : bytes) (l : list (bytes * bytes)) : option bytes :=
  match l with
  | [] => None
  | (k', v) :: r => if beqb k' k then Some v else find_str k r
  end.

(* WriteString2BLen: uint16(len) then the bytes; returns n + 2 *)
Definition write_str2 (s : bytes) : bytes * N := (be 2 (u16 (len s)) ++ s, len s + 2).

(* for key, val := range strKVMap { if key == GDPRToken { continue }; ... } *)
Fixpoint write_str_entries (l : list (bytes * bytes)) : bytes * N :=
  match l with
  | [] => ([], 0)
  | (k, v) :: r =>
    let '(rb, rn) := write_str_entries r in
    if beqb k gdpr_key then (rb, rn)
    else
      let '(kb, kn) := write_str2 k in
      let '(vb, vn) := write_str2 v in
      (kb ++ vb ++ rb, kn + vn + rn)
  end.

(* for key, val := range intKVMap { WriteUint16(key); WriteString2BLen(val) } *)
Fixpoint write_int_entries (l : list (N * bytes)) : bytes * N :=
  match l with
  | [] => ([], 0)
  | (k, v) :: r =>
    let '(rb, rn) := write_int_entries r in
    let '(vb, vn) := write_str2 v in
    (be 2 (u16 k) ++ vb ++ rb, 2 + vn + rn)
  end.

Definition write_kv_info (written : N) (intkv : list (N * bytes)) (strkv : list (bytes * bytes))
  : bytes * N :=
  let n0 := Z.of_N (len strkv) in
  let '(aclb, acln, n1) :=
    match find_str gdpr_key strkv with
    | Some tok => let '(tb, tn) := write_str2 tok in ([id_acl] ++ tb, 1 + tn, (n0 - 1)%Z)
    | None => ([], 0, n0)
    end in
  let '(strb, strn) :=
    if (0 <? n1)%Z then
      let '(eb, en) := write_str_entries strkv in
      ([id_kv] ++ be 2 (to_unsigned 16 n1) ++ eb, 3 + en)
    else ([], 0) in
  let ni := len intkv in
  let '(intb, intn) :=
    if 0 <? ni then
      let '(eb, en) := write_int_entries intkv in
      ([id_intkv] ++ be 2 (u16 ni) ++ eb, 3 + en)
    else ([], 0) in
  let ws := written + acln + strn + intn in
  let padding := (4 - ws mod 4) mod 4 in
  (aclb ++ strb ++ intb ++ repeat 0 (N.to_nat padding), ws + padding).

(* [tl]: the four bytes Malloc happened to hand out for the total-length field (never written
   by Encode; the caller must set them), as a 32-bit value. *)
Definition encode (tl : N) (p : eparam) : res bytes :=
  let magic_flags := be 4 (u32 (c_magic + p_flags p)) in
  let seq := be 4 (to_unsigned 32 (p_seq p)) in
  (* protocol id, byte(len(transformIDs)) = 0, no transform ids *)
  let head := [p_pid p; 0] in
  let '(kvb, size) := write_kv_info 2 (p_int p) (p_str p) in
  (* the check comes after everything has been written *)
  (* compared as int since the repair of /repo (it was uint32(headerInfoSize): a 4 GiB + r header info passed) *)
  if c_max <? size then Err e_toolarge
  else Ok (be 4 tl ++ magic_flags ++ seq ++ be 2 (u16 (size / 4)) ++ head ++ kvb).

(* binary.BigEndian.PutUint32(buf, uint32(totalLen)) by the caller *)
Definition set_total (b : bytes) (total : N) : bytes := be 4 (u32 total) ++ drop 4 b.

(* =====================================================================================
   Decode
   ===================================================================================== *)
Record dparam := {
  d_flags : N;
  d_seq : Z;
  d_pid : N;
  d_int : option (list (N * bytes));       (* None: nil map *)
  d_str : option (list (bytes * bytes));
  d_hlen : Z;
  d_plen : Z
}.

(* binary.BigEndian.Uint16 / Uint32 on a slice: panic when too short *)
Definition be_u16 (s : bytes) : res N :=
  match s with a :: b :: _ => Ok (a * 256 + b) | _ => Panic 3 end.
Definition be_u32 (s : bytes) : res N :=
  match s with a :: b :: c :: d :: _ => Ok (((a * 256 + b) * 256 + c) * 256 + d) | _ => Panic 3 end.

(* len(bytes) - off, a Go int *)
Definition avail (buf : bytes) (off : N) : Z := (Z.of_N (len buf) - Z.of_N off)%Z.

Definition bytes2uint8 (buf : bytes) (off : N) : res N :=
  if (avail buf off <? 1)%Z then Err e_eof else index buf off.

Definition bytes2uint16 (buf : bytes) (off : N) : res N :=
  if (avail buf off <? 2)%Z then Err e_eof
  else do s <- slice_from buf off; be_u16 s.

(* ReadString2BLen: (string, bytes consumed) *)
Definition read_str2 (buf : bytes) (off : N) : res (bytes * N) :=
  do length <- bytes2uint16 buf off;
  let off' := off + 2 in
  if (avail buf off' <? Z.of_N length)%Z then Err e_eof
  else do s <- slice_range buf off' (off' + length); Ok (s, length + 2).

(* fmt.Errorf("error reading ...: %s", err) : every failure of a section reader is one class *)
Definition wrap_kv {A} (r : res A) : res A :=
  match r with Err _ => Err e_kv | x => x end.

(* one entry of an int section / a string section: (key, value, bytes consumed) *)
Definition rd_int_entry (buf : bytes) (idx : N) : res (N * bytes * N) :=
  do key <- bytes2uint16 buf idx;
  do (v, n) <- read_str2 buf (idx + 2);
  Ok (key, v, 2 + n).
Definition rd_str_entry (buf : bytes) (idx : N) : res (bytes * bytes * N) :=
  do (k, n1) <- read_str2 buf idx;
  do (v, n2) <- read_str2 buf (idx + n1);
  Ok (k, v, n1 + n2).

(* for i := uint16(0); i < kvSize; i++ { ...; info[key] = val } *)
Fixpoint read_entries {K} (rd : bytes -> N -> res (K * bytes * N)) (fuel : nat)
         (buf : bytes) (idx : N) (cnt : N) (m : list (K * bytes)) : res (N * list (K * bytes)) :=
  if cnt =? 0 then Ok (idx, m)
  else match fuel with
       | O => Err e_fuel
       | S f =>
         do (k, v, n) <- wrap_kv (rd buf idx);
         read_entries rd f buf (idx + n) (cnt - 1) ((k, v) :: m)
       end.

(* readIntKVInfo / readStrKVInfo: the count, then the entries *)
Definition read_section {K} (rd : bytes -> N -> res (K * bytes * N))
           (buf : bytes) (idx : N) (m : list (K * bytes)) : res (N * list (K * bytes)) :=
  do cnt <- wrap_kv (bytes2uint16 buf idx);
  read_entries rd (S (length buf)) buf (idx + 2) cnt m.

(* readACLToken *)
Definition read_acl (buf : bytes) (idx : N) (m : list (bytes * bytes))
  : res (N * list (bytes * bytes)) :=
  do (v, n) <- wrap_kv (read_str2 buf idx);
  Ok (idx + n, (gdpr_key, v) :: m).

(* if m == nil { m = make(map...) } *)
Definition made {A} (o : option (list A)) : list A := match o with Some m => m | None => [] end.

Fixpoint read_kv_info (fuel : nat) (buf : bytes) (idx : N)
         (im : option (list (N * bytes))) (sm : option (list (bytes * bytes)))
  : res (option (list (N * bytes)) * option (list (bytes * bytes))) :=
  match fuel with
  | O => Err e_fuel
  | S f =>
    match bytes2uint8 buf idx with
    | Err e => if (e =? e_eof)%Z then Ok (im, sm) else Err e
    | Panic w => Panic w
    | OOB => OOB
    | Ok id =>
      let idx1 := idx + 1 in
      if id =? id_pad then read_kv_info f buf idx1 im sm
      else if id =? id_kv then
        do (idx2, sm') <- read_section rd_str_entry buf idx1 (made sm);
        read_kv_info f buf idx2 im (Some sm')
      else if id =? id_intkv then
        do (idx2, im') <- read_section rd_int_entry buf idx1 (made im);
        read_kv_info f buf idx2 (Some im') sm
      else if id =? id_acl then
        do (idx2, sm') <- read_acl buf idx1 (made sm);
        read_kv_info f buf idx2 im (Some sm')
      else Err e_infoid
    end
  end.

(* transformIDs[i] = headerInfo[hdIdx]; hdIdx++ *)
Fixpoint read_transforms (info : bytes) (idx : N) (n : nat) : res N :=
  match n with
  | O => Ok idx
  | S n' => do _ <- index info idx; read_transforms info (idx + 1) n'
  end.

Definition check_protocol_id (pid : N) : bool :=
  existsb (Z.eqb (Z.of_N pid)) ttheader_checkProtocolID_cases.

(* IsTTHeader(flagBuf): indexes unconditionally *)
Definition is_ttheader (buf : bytes) : res bool :=
  do s <- slice_from buf c_s32;
  do v <- be_u32 s;
  Ok (N.land v c_mask =? c_magic).

(* IsStreaming(bytes) *)
Definition is_streaming (buf : bytes) : res bool :=
  if len buf <? 8 then Ok false
  else
    do s1 <- slice_from buf c_s32;
    do m <- be_u16 s1;
    if negb (m =? u16 (c_magic / two16)) then Ok false
    else
      do s2 <- slice_from buf (c_s32 + c_s16);
      do f <- be_u16 s2;
      Ok (negb (N.land f (u16 c_streaming) =? 0)).

(* the part of Decode between the two Next calls: (totalLen, flags, seqID, headerInfoSize) *)
Definition decode_meta (meta : bytes) : res (N * N * Z * N) :=
  do isth <- is_ttheader meta;
  if negb isth then Err e_magic
  else
    do tl <- (do s <- slice_range meta 0 c_s32; be_u32 s);
    do fl <- (do s <- slice_from meta (c_s16 * 3); be_u16 s);
    do sq <- (do s <- slice_range meta (c_s32 * 2) (c_s32 * 3); be_u32 s);
    do sf <- (do s <- slice_range meta (c_s32 * 3) c_meta; be_u16 s);
    (* uint32(uint16 field) * 4 in the width of the variable *)
    let size := (sf * 4) mod 2 ^ size_bits in
    if (c_max <? u32 size) || (size <? 2) then Err e_size
    else Ok (tl, fl, to_signed 32 sq, size).

(* the part of Decode after the second Next *)
Definition decode_info (tl fl : N) (sq : Z) (size : N) (info : bytes) : res dparam :=
  do pid <- index info 0;
  if negb (check_protocol_id pid) then Err e_pid
  else
    do nt <- index info 1;
    if (Z.of_N size - 2 <? Z.of_N nt)%Z then Err e_trans
    else
      do idx <- read_transforms info 2 (N.to_nat nt);
      do (im, sm) <- read_kv_info (S (length info)) info idx None None;
      let hlen := u32 (u32 size + c_meta) in
      Ok {| d_flags := fl; d_seq := sq; d_pid := pid; d_int := im; d_str := sm;
            d_hlen := Z.of_N hlen;
            d_plen := (Z.of_N tl + Z.of_N c_s32 - Z.of_N hlen)%Z |}.

(* Decode over a reader that can deliver exactly [b]: (bytes consumed = ReadLen, result) *)
Definition decode (b : bytes) : N * res dparam :=
  if len b <? c_meta then (0, Err e_short)
  else
    match decode_meta (take c_meta b) with
    | Ok (tl, fl, sq, size) =>
      let rest := drop c_meta b in
      if len rest <? size then (c_meta, Err e_short2)
      else (c_meta + size, decode_info tl fl sq size (take size rest))
    | Err e => (c_meta, Err e)
    | Panic w => (c_meta, Panic w)
    | OOB => (c_meta, OOB)
    end.

(* DecodeFromBytes(ctx, bs): Decode over bufiox.NewBytesReader(bs), a reader that delivers
   exactly [bs]; the bytes consumed are not reported. *)
Definition decode_from_bytes (b : bytes) : res dparam := snd (decode b).
