(* Model/Unknown.v — protocol/thrift/unknownfields/unknownfields.go, function by function:
     ConvertUnknownFields / readUnknownField      bytes  -> []UnknownField
     UnknownFieldsLength  / unknownFieldLength    tree   -> int
     WriteUnknownFields   / writeUnknownField     tree   -> bytes written in place into a caller buffer
   over the item readers / in-place writers of Model/Binary.v (thrift.Binary).

   Go representation of a field value (UnknownField.Value, an interface{}):
     BOOL bool | BYTE int8 | I16 int16 | I32 int32 | I64 int64 | DOUBLE float64 (its 64-bit pattern here)
     STRING (also binary) string | SET, LIST, STRUCT []UnknownField | MAP flat []UnknownField k0 v0 k1 v1 ...
   Everything else (nil interface, []byte, int, ...) is [VNil]: the code only ever type-asserts, so all
   foreign dynamic types behave alike (the assertion panics).  nil and empty slices are identified.

   Definitions only (no lemmas), so that the correspondence keeps building when proofs break. *)
From GV Require Import Lib.Bytes Lib.Res Gen.Consts Model.Binary.
Open Scope N_scope.

Inductive ufield : Type :=
| UF (id : Z) (ty kt vt : Z) (v : uval)      (* ID int16; Type, KeyType, ValType TType = int8 *)
with uval : Type :=
| VNil
| VBool (b : bool)
| VI8 (z : Z)
| VI16 (z : Z)
| VI32 (z : Z)
| VI64 (z : Z)
| VDouble (bits : N)
| VStr (s : bytes)
| VFields (l : list ufield).

Definition uf_id (f : ufield) : Z := match f with UF id _ _ _ _ => id end.
Definition uf_ty (f : ufield) : Z := match f with UF _ ty _ _ _ => ty end.
Definition uf_kt (f : ufield) : Z := match f with UF _ _ kt _ _ => kt end.
Definition uf_vt (f : ufield) : Z := match f with UF _ _ _ vt _ => vt end.
Definition uf_val (f : ufield) : uval := match f with UF _ _ _ _ v => v end.
(* UnknownField{} *)
Definition uf_zero : ufield := UF 0 0 0 0 VNil.

(* ---------- induction principle (the generated one gives nothing for the children) ---------- *)
Section UfieldInd.
  Variable P : ufield -> Prop.
  Hypothesis Hleaf : forall id ty kt vt v, (forall l, v <> VFields l) -> P (UF id ty kt vt v).
  Hypothesis Hnode : forall id ty kt vt l, Forall P l -> P (UF id ty kt vt (VFields l)).

  Fixpoint ufield_ind' (f : ufield) : P f :=
    match f with
    | UF id ty kt vt v =>
      match v return P (UF id ty kt vt v) with
      | VFields l =>
        Hnode id ty kt vt l
          ((fix go (l : list ufield) : Forall P l :=
              match l with
              | [] => Forall_nil P
              | x :: xs => Forall_cons x (ufield_ind' x) (go xs)
              end) l)
      | VNil => Hleaf id ty kt vt VNil (fun l H => match H with eq_refl => I end)
      | VBool b => Hleaf id ty kt vt (VBool b) (fun l H => match H with eq_refl => I end)
      | VI8 z => Hleaf id ty kt vt (VI8 z) (fun l H => match H with eq_refl => I end)
      | VI16 z => Hleaf id ty kt vt (VI16 z) (fun l H => match H with eq_refl => I end)
      | VI32 z => Hleaf id ty kt vt (VI32 z) (fun l H => match H with eq_refl => I end)
      | VI64 z => Hleaf id ty kt vt (VI64 z) (fun l H => match H with eq_refl => I end)
      | VDouble b => Hleaf id ty kt vt (VDouble b) (fun l H => match H with eq_refl => I end)
      | VStr s => Hleaf id ty kt vt (VStr s) (fun l H => match H with eq_refl => I end)
      end
    end.
End UfieldInd.

(* ---------- error classes (beside those of Model/Binary.v) ---------- *)
Definition e_empty : Z := 30.        (* errors.New("_unknownFields is empty") *)
Definition e_fuel : Z := 99.         (* model artefact: recursion/loop budget exhausted (proved unreachable) *)

(* int16(i) for a loop counter 0 <= i *)
Definition int16_of (i : N) : Z := i16 (i mod two16).

(* buf[pos:] where the loops keep [cur] = drop pos buf and blen = len buf (so that slicing costs
   nothing): Go panics exactly when pos > len(buf) *)
Definition slice_at (blen pos : N) (cur : bytes) : res bytes :=
  if pos <=? blen then Ok cur else Panic 1.

(* ====================================================================================== *)
(* readUnknownField                                                                        *)
(* ====================================================================================== *)

(* SET / LIST:   for i := 0; i < size; i++ {
                   l, err2 := readUnknownField(&elems[i], buf[length:], f.ValType, int16(i))
                   length += l ; if err2 != nil { return length, err } }
   rd sub id = readUnknownField(&zero, sub, et, id) *)
Fixpoint elems_loop (rd : bytes -> Z -> res (ufield * N)) (lf : nat) (blen : N) (cur : bytes)
         (pos i size : N) (acc : list ufield) : res (list ufield * N) :=
  if i <? size then
    match lf with
    | O => Err e_fuel
    | S lf' =>
      do sub <- slice_at blen pos cur;
      do (x, l) <- rd sub (int16_of i);
      elems_loop rd lf' blen (drop l cur) (pos + l) (i + 1) size (x :: acc)
    end
  else Ok (rev acc, pos).

(* MAP: flatMap[2*i] and flatMap[2*i+1], both with id int16(i) *)
Fixpoint pairs_loop (rdk rdv : bytes -> Z -> res (ufield * N)) (lf : nat) (blen : N) (cur : bytes)
         (pos i size : N) (acc : list ufield) : res (list ufield * N) :=
  if i <? size then
    match lf with
    | O => Err e_fuel
    | S lf' =>
      do sub <- slice_at blen pos cur;
      do (k, l) <- rdk sub (int16_of i);
      let pos1 := pos + l in
      let cur1 := drop l cur in
      do sub2 <- slice_at blen pos1 cur1;
      do (v, l2) <- rdv sub2 (int16_of i);
      pairs_loop rdk rdv lf' blen (drop l2 cur1) (pos1 + l2) (i + 1) size (v :: k :: acc)
    end
  else Ok (rev acc, pos).

(* STRUCT:  var field UnknownField; var fields []UnknownField
            for { ft, fid, l, err := ReadFieldBegin(buf[length:]); length += l; if err != nil { return }
                  if ft == STOP { break }
                  field = UnknownField{}            // the D9 repair; [reset = false] is the code before it
                  l, err = readUnknownField(&field, buf[length:], ft, fid); length += l; if err ... return
                  fields = append(fields, field) }
   rd f0 sub ty id = readUnknownField(&f0, sub, ty, id) *)
Fixpoint fields_loop (reset : bool) (rd : ufield -> bytes -> Z -> Z -> res (ufield * N)) (lf : nat)
         (blen : N) (cur : bytes) (pos : N) (field : ufield) (acc : list ufield) : res (list ufield * N) :=
  match lf with
  | O => Err e_fuel
  | S lf' =>
    do sub <- slice_at blen pos cur;
    do (hd, l) <- r_field_begin sub;
    let '(t, fid) := hd in
    let pos1 := pos + l in
    let cur1 := drop l cur in
    if (t =? thrift_STOP)%Z then Ok (rev acc, pos1)
    else
      let field0 := if reset then uf_zero else field in
      do sub2 <- slice_at blen pos1 cur1;
      do (field', l2) <- rd field0 sub2 t fid;
      fields_loop reset rd lf' blen (drop l2 cur1) (pos1 + l2) field' (field' :: acc)
  end.

(* readUnknownField(f, buf, fieldType, id) with *f = f0 on entry: returns the new *f and length.
   Only ID, Type and Value are always assigned; KeyType / ValType keep what f0 had unless the
   branch sets them. *)
Fixpoint read_field (reset : bool) (fuel : nat) (f0 : ufield) (buf : bytes) (ty id : Z) {struct fuel}
  : res (ufield * N) :=
  match fuel with
  | O => Err e_fuel
  | S fuel' =>
    let kt0 := uf_kt f0 in
    let vt0 := uf_vt f0 in
    if (ty =? thrift_BOOL)%Z then do (v, l) <- r_bool buf; Ok (UF id ty kt0 vt0 (VBool v), l)
    else if (ty =? thrift_BYTE)%Z then do (v, l) <- r_byte buf; Ok (UF id ty kt0 vt0 (VI8 v), l)
    else if (ty =? thrift_I16)%Z then do (v, l) <- r_i16 buf; Ok (UF id ty kt0 vt0 (VI16 v), l)
    else if (ty =? thrift_I32)%Z then do (v, l) <- r_i32 buf; Ok (UF id ty kt0 vt0 (VI32 v), l)
    else if (ty =? thrift_I64)%Z then do (v, l) <- r_i64 buf; Ok (UF id ty kt0 vt0 (VI64 v), l)
    else if (ty =? thrift_DOUBLE)%Z then do (v, l) <- r_double buf; Ok (UF id ty kt0 vt0 (VDouble v), l)
    else if (ty =? thrift_STRING)%Z then do (v, l) <- r_string buf; Ok (UF id ty kt0 vt0 (VStr v), l)
    else if (ty =? thrift_SET)%Z then
      do (hd, l) <- r_set_begin buf;
      let '(et, size) := hd in
      if (size <? 0)%Z then Panic 3                      (* make([]UnknownField, size) *)
      else
        do (xs, n) <- elems_loop (fun sub i => read_field reset fuel' uf_zero sub et i)
                                 (S (length buf)) (len buf) (drop l buf) l 0 (Z.to_N size) [];
        Ok (UF id ty kt0 et (VFields xs), n)
    else if (ty =? thrift_LIST)%Z then
      do (hd, l) <- r_list_begin buf;
      let '(et, size) := hd in
      if (size <? 0)%Z then Panic 3
      else
        do (xs, n) <- elems_loop (fun sub i => read_field reset fuel' uf_zero sub et i)
                                 (S (length buf)) (len buf) (drop l buf) l 0 (Z.to_N size) [];
        Ok (UF id ty kt0 et (VFields xs), n)
    else if (ty =? thrift_MAP)%Z then
      do (hd, l) <- r_map_begin buf;
      let '(kt, vt, size) := hd in
      if (size * 2 <? 0)%Z then Panic 3                  (* make([]UnknownField, size*2) *)
      else
        do (xs, n) <- pairs_loop (fun sub i => read_field reset fuel' uf_zero sub kt i)
                                 (fun sub i => read_field reset fuel' uf_zero sub vt i)
                                 (S (length buf)) (len buf) (drop l buf) l 0 (Z.to_N size) [];
        Ok (UF id ty kt vt (VFields xs), n)
    else if (ty =? thrift_STRUCT)%Z then
      do (xs, n) <- fields_loop reset (read_field reset fuel') (S (length buf)) (len buf) buf 0 uf_zero [];
      Ok (UF id ty kt0 vt0 (VFields xs), n)
    else Err e_unknown_type
  end.

(* ConvertUnknownFields: for { if offset == len(buf) { return }
                               t, id, l, err = ReadFieldBegin(buf[offset:]); offset += l; if err ... return nil, err
                               f = UnknownField{}
                               l, err = readUnknownField(&f, buf[offset:], t, id); offset += l; if err ... return nil, err
                               fields = append(fields, f) }
   (a STOP byte is not special here: readUnknownField rejects type 0) *)
Fixpoint convert_loop (reset : bool) (lf : nat) (fuel : nat) (blen : N) (cur : bytes) (offset : N)
         (acc : list ufield) : res (list ufield) :=
  match lf with
  | O => Err e_fuel
  | S lf' =>
    if offset =? blen then Ok (rev acc)
    else
      do sub <- slice_at blen offset cur;
      do (hd, l) <- r_field_begin sub;
      let '(t, fid) := hd in
      let off1 := offset + l in
      let cur1 := drop l cur in
      do sub2 <- slice_at blen off1 cur1;
      do (f, l2) <- read_field reset fuel uf_zero sub2 t fid;
      convert_loop reset lf' fuel blen (drop l2 cur1) (off1 + l2) (f :: acc)
  end.

Definition convert_gen (reset : bool) (buf : bytes) : res (list ufield) :=
  if len buf =? 0 then Err e_empty
  else convert_loop reset (S (length buf)) (S (length buf)) (len buf) buf 0 [].

Definition convert : bytes -> res (list ufield) := convert_gen true.

(* ====================================================================================== *)
(* unknownFieldLength / UnknownFieldsLength                                                *)
(* ====================================================================================== *)
(* The element function is a parameter outside the [fix] so that the guard checker sees through the
   loops when [field_len] / [write_field] recurse into the children of a nested inductive. *)
(* for _, v := range vs { l, err := unknownFieldLength(&v); length += l; if err != nil { return } } *)
Definition len_elems (fl : ufield -> res N) : list ufield -> N -> res N :=
  fix go (l : list ufield) (acc : N) {struct l} : res N :=
    match l with
    | [] => Ok acc
    | x :: xs => do n <- fl x; go xs (acc + n)
    end.
(* for i := 0; i < len(kvs); i += 2 { ...(&kvs[i]) ; ...(&kvs[i+1]) } : an odd slice panics at kvs[i+1] *)
Definition len_pairs (fl : ufield -> res N) : list ufield -> N -> res N :=
  fix go (l : list ufield) (acc : N) {struct l} : res N :=
    match l with
    | [] => Ok acc
    | k :: r =>
      do a <- fl k;
      match r with
      | [] => Panic 2
      | v :: r' => do b <- fl v; go r' (acc + a + b)
      end
    end.
(* UnknownFieldsLength: l += FieldBeginLength(); ll, err := unknownFieldLength(&f); l += ll *)
Definition len_fields (fl : ufield -> res N) : list ufield -> N -> res N :=
  fix go (l : list ufield) (acc : N) {struct l} : res N :=
    match l with
    | [] => Ok acc
    | x :: xs => do n <- fl x; go xs (acc + l_item (IFieldBegin 0 0) + n)
    end.

Fixpoint field_len (f : ufield) : res N :=
  match f with
  | UF id ty kt vt v =>
    if (ty =? thrift_BOOL)%Z then Ok (l_item (IBool false))
    else if (ty =? thrift_BYTE)%Z then Ok (l_item (IByte 0))
    else if (ty =? thrift_DOUBLE)%Z then Ok (l_item (IDouble 0))
    else if (ty =? thrift_I16)%Z then Ok (l_item (II16 0))
    else if (ty =? thrift_I32)%Z then Ok (l_item (II32 0))
    else if (ty =? thrift_I64)%Z then Ok (l_item (II64 0))
    else if (ty =? thrift_STRING)%Z then
      match v with VStr s => Ok (l_item (IString s)) | _ => Panic 4 end      (* f.Value.(string) *)
    else if (ty =? thrift_SET)%Z then
      match v with VFields l => len_elems field_len l (l_item (ISetBegin 0 0)) | _ => Panic 4 end
    else if (ty =? thrift_LIST)%Z then
      match v with VFields l => len_elems field_len l (l_item (IListBegin 0 0)) | _ => Panic 4 end
    else if (ty =? thrift_MAP)%Z then
      match v with VFields l => len_pairs field_len l (l_item (IMapBegin 0 0 0)) | _ => Panic 4 end
    else if (ty =? thrift_STRUCT)%Z then
      match v with
      | VFields l =>
        match len_fields field_len l 0 with
        | Ok n => Ok (n + l_item IFieldStop)
        | Err e => Err e
        | Panic w => Panic w
        | OOB => OOB
        end
      | _ => Panic 4
      end
    else Err e_unknown_type
  end.

Definition fields_len (fs : list ufield) : res N := len_fields field_len fs 0.

(* ====================================================================================== *)
(* writeUnknownField / WriteUnknownFields  (in place, into the caller's buffer)            *)
(* ====================================================================================== *)
(* run k on buf[off:] (which aliases buf): result buffer is buf with that tail replaced *)
Definition on_slice {A} (buf : bytes) (off : N) (k : bytes -> res (bytes * A)) : res (bytes * A) :=
  do sub <- slice_from buf off;
  do (sub', a) <- k sub;
  Ok (take off buf ++ sub', a).

(* for _, v := range vs { l, err := writeUnknownField(buf[offset:], &v); offset += l; if err ... return } *)
Definition w_elems (wf : bytes -> ufield -> res (bytes * N)) : list ufield -> bytes -> N -> res (bytes * N) :=
  fix go (l : list ufield) (buf : bytes) (off : N) {struct l} : res (bytes * N) :=
    match l with
    | [] => Ok (buf, off)
    | x :: xs =>
      do (buf', n) <- on_slice buf off (fun sub => wf sub x);
      go xs buf' (off + n)
    end.
Definition w_pairs (wf : bytes -> ufield -> res (bytes * N)) : list ufield -> bytes -> N -> res (bytes * N) :=
  fix go (l : list ufield) (buf : bytes) (off : N) {struct l} : res (bytes * N) :=
    match l with
    | [] => Ok (buf, off)
    | k :: r =>
      do (buf1, n1) <- on_slice buf off (fun sub => wf sub k);
      match r with
      | [] => Panic 2                                         (* kvs[i+1] *)
      | v :: r' =>
        do (buf2, n2) <- on_slice buf1 (off + n1) (fun sub => wf sub v);
        go r' buf2 (off + n1 + n2)
      end
    end.
(* WriteUnknownFields: offset += WriteFieldBegin(buf[offset:], f.Type, f.ID)
                       l, err := writeUnknownField(buf[offset:], &f); offset += l *)
Definition w_fields (wf : bytes -> ufield -> res (bytes * N)) : list ufield -> bytes -> N -> res (bytes * N) :=
  fix go (l : list ufield) (buf : bytes) (off : N) {struct l} : res (bytes * N) :=
    match l with
    | [] => Ok (buf, off)
    | f :: fs =>
      do (buf1, n1) <- on_slice buf off (fun sub => w_field_begin sub (uf_ty f) (uf_id f));
      do (buf2, n2) <- on_slice buf1 (off + n1) (fun sub => wf sub f);
      go fs buf2 (off + n1 + n2)
    end.

Fixpoint write_field (buf : bytes) (f : ufield) {struct f} : res (bytes * N) :=
  match f with
  | UF id ty kt vt v =>
    if (ty =? thrift_BOOL)%Z then match v with VBool b => w_bool buf b | _ => Panic 4 end
    else if (ty =? thrift_BYTE)%Z then match v with VI8 z => w_byte buf z | _ => Panic 4 end
    else if (ty =? thrift_DOUBLE)%Z then match v with VDouble b => w_double buf b | _ => Panic 4 end
    else if (ty =? thrift_I16)%Z then match v with VI16 z => w_i16 buf z | _ => Panic 4 end
    else if (ty =? thrift_I32)%Z then match v with VI32 z => w_i32 buf z | _ => Panic 4 end
    else if (ty =? thrift_I64)%Z then match v with VI64 z => w_i64 buf z | _ => Panic 4 end
    else if (ty =? thrift_STRING)%Z then match v with VStr s => w_binary buf s | _ => Panic 4 end
    else if (ty =? thrift_SET)%Z then
      match v with
      | VFields l => do (b1, n) <- w_list_begin buf vt (Z.of_N (len l)); w_elems write_field l b1 n
      | _ => Panic 4
      end
    else if (ty =? thrift_LIST)%Z then
      match v with
      | VFields l => do (b1, n) <- w_list_begin buf vt (Z.of_N (len l)); w_elems write_field l b1 n
      | _ => Panic 4
      end
    else if (ty =? thrift_MAP)%Z then
      match v with
      | VFields l => do (b1, n) <- w_map_begin buf kt vt (Z.of_N (len l / 2)); w_pairs write_field l b1 n
      | _ => Panic 4
      end
    else if (ty =? thrift_STRUCT)%Z then
      match v with
      | VFields l =>
        do (b1, n) <- w_fields write_field l buf 0;
        do (b2, n2) <- on_slice b1 n w_field_stop;
        Ok (b2, n + n2)
      | _ => Panic 4
      end
    else Err e_unknown_type
  end.

Definition write_fields (buf : bytes) (fs : list ufield) : res (bytes * N) := w_fields write_field fs buf 0.
