(* Model/Binary.v — thrift.Binary: the in-place Write*, Append*, *Length and buffer Read*
   families of protocol/thrift/binary.go, function by function.
   Bytes are [list N]; Go signed integers are [Z]; float64 is its 64-bit pattern (the code only
   moves bits: math.Float64bits / Float64frombits). *)
From GV Require Import Lib.Bytes Lib.Res Gen.Consts.
Open Scope N_scope.

(* ---------- error codes of the predeclared errors (type ids come from Gen.Consts) ---------- *)
Definition e_read_message : Z := 1.   Definition e_bad_version : Z := 2.
Definition e_read_field : Z := 3.     Definition e_read_map : Z := 4.
Definition e_read_list : Z := 5.      Definition e_read_set : Z := 6.
Definition e_read_str : Z := 7.       Definition e_read_bin : Z := 8.
Definition e_read_bool : Z := 9.      Definition e_read_byte : Z := 10.
Definition e_read_i16 : Z := 11.      Definition e_read_i32 : Z := 12.
Definition e_read_i64 : Z := 13.      Definition e_read_double : Z := 14.
Definition e_depth : Z := 15.         Definition e_too_short : Z := 16.
Definition e_neg_size : Z := 17.      Definition e_unknown_type : Z := 18.
(* 20.. : errors that come from the underlying reader, see Model/StreamCodec.v *)

Definition tid (x : Z * Z * string) : Z := snd (fst x).
(* Thrift exception type id carried by each error code, read off the Go initialisers.  The table
   is evaluated when this file is compiled (so that extraction never sees Coq strings); it is
   recomputed whenever Gen/Consts.v changes. *)
Definition etype_table : list (Z * Z) :=
  Eval vm_compute in
    [(1, tid thrift_errReadMessage); (2, tid thrift_errBadVersion); (3, tid thrift_errReadField);
     (4, tid thrift_errReadMap); (5, tid thrift_errReadList); (6, tid thrift_errReadSet);
     (7, tid thrift_errReadStr); (8, tid thrift_errReadBin); (9, tid thrift_errReadBool);
     (10, tid thrift_errReadByte); (11, tid thrift_errReadI16); (12, tid thrift_errReadI32);
     (13, tid thrift_errReadI64); (14, tid thrift_errReadDouble); (15, tid thrift_errDepthLimitExceeded);
     (16, tid thrift_errBufferTooShort); (17, tid thrift_errNegativeSize);
     (18, thrift_INVALID_DATA)   (* NewProtocolException(INVALID_DATA, "unknown data type %d") *)]%Z.
Fixpoint assocZ (l : list (Z * Z)) (k : Z) : Z :=
  match l with
  | [] => (-1)%Z
  | (a, b) :: r => if (a =? k)%Z then b else assocZ r k
  end.
Definition etype (e : Z) : Z := assocZ etype_table e.

(* ---------- items of the wire format ---------- *)
Inductive item : Type :=
| IBool (b : bool)
| IByte (v : Z)            (* int8 *)
| II16 (v : Z)
| II32 (v : Z)
| II64 (v : Z)
| IDouble (bits : N)       (* float64 as its bit pattern *)
| IBinary (v : bytes)
| IString (v : bytes)
| IFieldBegin (t : Z) (id : Z)      (* TType = int8, id int16 *)
| IFieldStop
| IMapBegin (kt vt : Z) (size : Z)  (* size : Go int *)
| IListBegin (et : Z) (size : Z)
| ISetBegin (et : Z) (size : Z).

(* Go conversions used below *)
Definition u8 (z : Z) : N := to_unsigned 8 z.        (* byte(int8) *)
Definition u16 (z : Z) : N := to_unsigned 16 z.
Definition u32 (z : Z) : N := to_unsigned 32 z.      (* uint32(int) / uint32(int32) *)
Definition u64 (z : Z) : N := to_unsigned 64 z.
Definition i8 (u : N) : Z := to_signed 8 u.          (* int8(byte) *)
Definition i16 (u : N) : Z := to_signed 16 u.
Definition i32 (u : N) : Z := to_signed 32 u.
Definition i64 (u : N) : Z := to_signed 64 u.

(* ---------- in-place writers: write at the start of buf, return (buf', n) ---------- *)
(* binary.BigEndian.PutUintK(buf[off:], x) and buf[off] = x : panic unless the bytes fit *)
Definition put (buf : bytes) (off : N) (bs : bytes) : res bytes :=
  if off + len bs <=? len buf then Ok (take off buf ++ bs ++ drop (off + len bs) buf) else Panic 1.
(* n := copy(buf[off:], v) : copies min(len v, len buf - off) bytes; buf[off:] panics if off > len *)
Definition copy_to (buf : bytes) (off : N) (v : bytes) : res (bytes * N) :=
  if off <=? len buf then
    let m := N.min (len v) (len buf - off) in
    Ok (take off buf ++ take m v ++ drop (off + m) buf, m)
  else Panic 1.

Definition w_bool (buf : bytes) (v : bool) : res (bytes * N) :=
  do b <- put buf 0 [if v then 1 else 0]; Ok (b, 1).
Definition w_byte (buf : bytes) (v : Z) : res (bytes * N) :=
  do b <- put buf 0 [u8 v]; Ok (b, 1).
Definition w_i16 (buf : bytes) (v : Z) : res (bytes * N) :=
  do b <- put buf 0 (be 2 (u16 v)); Ok (b, 2).
Definition w_i32 (buf : bytes) (v : Z) : res (bytes * N) :=
  do b <- put buf 0 (be 4 (u32 v)); Ok (b, 4).
Definition w_i64 (buf : bytes) (v : Z) : res (bytes * N) :=
  do b <- put buf 0 (be 8 (u64 v)); Ok (b, 8).
Definition w_double (buf : bytes) (bits : N) : res (bytes * N) :=
  do b <- put buf 0 (be 8 (bits mod two64)); Ok (b, 8).
(* WriteBinary / WriteString: PutUint32(buf, uint32(len v)); return 4 + copy(buf[4:], v) *)
Definition w_binary (buf : bytes) (v : bytes) : res (bytes * N) :=
  do b <- put buf 0 (be 4 (len v mod two32));
  do (b', m) <- copy_to b 4 v;
  Ok (b', 4 + m).
Definition w_field_begin (buf : bytes) (t id : Z) : res (bytes * N) :=
  do b <- put buf 0 [u8 t];
  do b' <- put b 1 (be 2 (u16 id));
  Ok (b', 3).
Definition w_field_stop (buf : bytes) : res (bytes * N) :=
  do b <- put buf 0 [u8 thrift_STOP]; Ok (b, 1).
Definition w_map_begin (buf : bytes) (kt vt size : Z) : res (bytes * N) :=
  do b <- put buf 0 [u8 kt];
  do b1 <- put b 1 [u8 vt];
  do b2 <- put b1 2 (be 4 (u32 size));
  Ok (b2, 6).
Definition w_list_begin (buf : bytes) (et size : Z) : res (bytes * N) :=
  do b <- put buf 0 [u8 et];
  do b1 <- put b 1 (be 4 (u32 size));
  Ok (b1, 5).

(* uint32(msgVersion1) | uint32(typeID & msgTypeMask) : the two masks are disjoint, so | is + *)
Definition msg_first_word (ty : Z) : N :=
  Z.to_N thrift_msgVersion1 + Z.to_N (Z.land ty thrift_msgTypeMask).
Definition w_message_begin (buf : bytes) (name : bytes) (ty seq : Z) : res (bytes * N) :=
  do b <- put buf 0 (be 4 (msg_first_word ty));
  do b1 <- put b 4 (be 4 (len name mod two32));
  do (b2, m) <- copy_to b1 8 name;
  let off := 8 + m in
  do b3 <- put b2 off (be 4 (u32 seq));
  Ok (b3, off + 4).

Definition w_item (buf : bytes) (it : item) : res (bytes * N) :=
  match it with
  | IBool v => w_bool buf v
  | IByte v => w_byte buf v
  | II16 v => w_i16 buf v
  | II32 v => w_i32 buf v
  | II64 v => w_i64 buf v
  | IDouble v => w_double buf v
  | IBinary v | IString v => w_binary buf v
  | IFieldBegin t id => w_field_begin buf t id
  | IFieldStop => w_field_stop buf
  | IMapBegin kt vt sz => w_map_begin buf kt vt sz
  | IListBegin et sz | ISetBegin et sz => w_list_begin buf et sz
  end.

(* the caller's view: n := Binary.WriteX(buf[off:], v) on a buffer it owns *)
Definition w_at (buf : bytes) (off : N) (it : item) : res (bytes * N) :=
  do s <- slice_from buf off;
  do (s', n) <- w_item s it;
  Ok (take off buf ++ s', n).
Definition w_message_begin_at (buf : bytes) (off : N) (name : bytes) (ty seq : Z) : res (bytes * N) :=
  do s <- slice_from buf off;
  do (s', n) <- w_message_begin s name ty seq;
  Ok (take off buf ++ s', n).

(* a sequence of in-place writes: n := Binary.WriteX(buf[off:], v); off += n *)
Fixpoint w_seq (buf : bytes) (off : N) (its : list item) : res (bytes * list N) :=
  match its with
  | [] => Ok (buf, [])
  | it :: r => do (b1, n) <- w_at buf off it; do (b2, ns) <- w_seq b1 (off + n) r; Ok (b2, n :: ns)
  end.

(* ---------- append writers, with the code's shift-and-truncate expressions ---------- *)
(* byte(v >> k) for an unsigned v *)
Definition shrb (v : N) (k : N) : N := (v / 2 ^ k) mod 256.
Definition app_u32 (buf : bytes) (v : N) : bytes :=
  buf ++ [shrb v 24; shrb v 16; shrb v 8; shrb v 0].
Definition app_u64 (buf : bytes) (v : N) : bytes :=
  buf ++ [shrb v 56; shrb v 48; shrb v 40; shrb v 32; shrb v 24; shrb v 16; shrb v 8; shrb v 0].

Definition a_bool (buf : bytes) (v : bool) : bytes := buf ++ [if v then 1 else 0].
Definition a_byte (buf : bytes) (v : Z) : bytes := buf ++ [u8 v].
(* append(buf, byte(uint16(v)>>8), byte(v)) *)
Definition a_i16 (buf : bytes) (v : Z) : bytes := buf ++ [shrb (u16 v) 8; u8 v].
Definition a_i32 (buf : bytes) (v : Z) : bytes := app_u32 buf (u32 v).
Definition a_i64 (buf : bytes) (v : Z) : bytes := app_u64 buf (u64 v).
Definition a_double (buf : bytes) (bits : N) : bytes := app_u64 buf (bits mod two64).
(* append(p.AppendI32(buf, int32(len(v))), v...) *)
Definition a_binary (buf : bytes) (v : bytes) : bytes := a_i32 buf (i32 (len v mod two32)) ++ v.
(* append(buf, byte(typeID), byte(uint16(id>>8)), byte(id)) ; id>>8 is an arithmetic shift *)
Definition a_field_begin (buf : bytes) (t id : Z) : bytes :=
  buf ++ [u8 t; (u16 (id / 256)%Z) mod 256; u8 id].
Definition a_field_stop (buf : bytes) : bytes := buf ++ [u8 thrift_STOP].
(* p.AppendI32(append(buf, byte(kt), byte(vt)), int32(size)) *)
Definition a_map_begin (buf : bytes) (kt vt size : Z) : bytes :=
  a_i32 (buf ++ [u8 kt; u8 vt]) (i32 (u32 size)).
Definition a_list_begin (buf : bytes) (et size : Z) : bytes :=
  a_i32 (buf ++ [u8 et]) (i32 (u32 size)).
Definition a_message_begin (buf : bytes) (name : bytes) (ty seq : Z) : bytes :=
  a_i32 (a_binary (app_u32 buf (msg_first_word ty)) name) seq.

Definition a_item (buf : bytes) (it : item) : bytes :=
  match it with
  | IBool v => a_bool buf v
  | IByte v => a_byte buf v
  | II16 v => a_i16 buf v
  | II32 v => a_i32 buf v
  | II64 v => a_i64 buf v
  | IDouble v => a_double buf v
  | IBinary v | IString v => a_binary buf v
  | IFieldBegin t id => a_field_begin buf t id
  | IFieldStop => a_field_stop buf
  | IMapBegin kt vt sz => a_map_begin buf kt vt sz
  | IListBegin et sz | ISetBegin et sz => a_list_begin buf et sz
  end.

(* ---------- length functions ---------- *)
Definition l_item (it : item) : N :=
  match it with
  | IBool _ | IByte _ | IFieldStop => 1
  | II16 _ => 2
  | II32 _ => 4
  | II64 _ | IDouble _ => 8
  | IBinary v | IString v => 4 + len v
  | IFieldBegin _ _ => 3
  | IMapBegin _ _ _ => 6
  | IListBegin _ _ | ISetBegin _ _ => 5
  end.
Definition l_message_begin (name : bytes) : N := 4 + (4 + len name) + 4.

(* ---------- buffer readers ---------- *)
Definition need (buf : bytes) (k : N) (e : Z) : res unit :=
  if len buf <? k then Err e else Ok tt.

Definition r_bool (buf : bytes) : res (bool * N) :=
  do _ <- need buf 1 e_read_bool; Ok (nth 0 buf 0 =? 1, 1).
Definition r_byte (buf : bytes) : res (Z * N) :=
  do _ <- need buf 1 e_read_byte; Ok (i8 (nth 0 buf 0), 1).
Definition r_i16 (buf : bytes) : res (Z * N) :=
  do _ <- need buf 2 e_read_i16; Ok (i16 (unbe (take 2 buf)), 2).
Definition r_i32 (buf : bytes) : res (Z * N) :=
  do _ <- need buf 4 e_read_i32; Ok (i32 (unbe (take 4 buf)), 4).
Definition r_i64 (buf : bytes) : res (Z * N) :=
  do _ <- need buf 8 e_read_i64; Ok (i64 (unbe (take 8 buf)), 8).
Definition r_double (buf : bytes) : res (N * N) :=
  do _ <- need buf 8 e_read_double; Ok (unbe (take 8 buf), 8).
(* ReadBinary / ReadString (copying; see Model for C16 about the memory side) *)
Definition r_binary_gen (ebase : Z) (buf : bytes) : res (bytes * N) :=
  match r_i32 buf with
  | Ok (sz, _) =>
    if (sz <? 0)%Z then Err e_neg_size
    else let l := 4 + Z.to_N sz in
         if len buf <? l then Err ebase else Ok (take (Z.to_N sz) (drop 4 buf), l)
  | Err _ => Err ebase
  | Panic w => Panic w
  | OOB => OOB
  end.
Definition r_binary := r_binary_gen e_read_bin.
Definition r_string := r_binary_gen e_read_str.
(* ReadFieldBegin: (type, id, l) ; STOP is 1 byte *)
Definition r_field_begin (buf : bytes) : res (Z * Z * N) :=
  do _ <- need buf 1 e_read_field;
  let t := i8 (nth 0 buf 0) in
  if (t =? thrift_STOP)%Z then Ok (thrift_STOP, 0%Z, 1)
  else do _ <- need buf 3 e_read_field; Ok (t, i16 (unbe (take 2 (drop 1 buf))), 3).
Definition r_map_begin (buf : bytes) : res (Z * Z * Z * N) :=
  do _ <- need buf 6 e_read_map;
  Ok (i8 (nth 0 buf 0), i8 (nth 1 buf 0), Z.of_N (unbe (take 4 (drop 2 buf))), 6).
Definition r_list_begin_gen (e : Z) (buf : bytes) : res (Z * Z * N) :=
  do _ <- need buf 5 e;
  Ok (i8 (nth 0 buf 0), Z.of_N (unbe (take 4 (drop 1 buf))), 5).
Definition r_list_begin := r_list_begin_gen e_read_list.
Definition r_set_begin := r_list_begin_gen e_read_set.

(* ReadMessageBegin: (name, type, seq, l).  buf[off:] is a checked operation (Panic when off > len);
   the errors of ReadString / ReadI32 are replaced by errReadMessage. *)
Definition to_msg_err {A} (r : res A) : res A :=
  match r with Err _ => Err e_read_message | x => x end.
(* the method name: a negative length keeps its own error (NEGATIVE_SIZE), everything else is
   reported as errReadMessage *)
Definition to_msg_err_name {A} (r : res A) : res A :=
  match r with
  | Err e => if (e =? e_neg_size)%Z then Err e_neg_size else Err e_read_message
  | _ => r
  end.

Definition r_message_begin (buf : bytes) : res (bytes * Z * Z * N) :=
  if len buf <? 4 then Err e_read_message
  else
    let header := unbe (take 4 buf) in
    if negb (N.land header (Z.to_N thrift_msgVersionMask) =? Z.to_N thrift_msgVersion1) then Err e_bad_version
    else
      let ty := Z.of_N (N.land header (Z.to_N thrift_msgTypeMask)) in
      do b1 <- slice_from buf 4;
      do (name, l) <- to_msg_err_name (r_string b1);
      let off := 4 + l in
      do b2 <- slice_from buf off;
      do (seq, l2) <- to_msg_err (r_i32 b2);
      Ok (name, ty, seq, off + l2).

(* kinds of items, for the generic reader *)
Inductive kind := KBool | KByte | KI16 | KI32 | KI64 | KDouble | KBinary | KString
                | KFieldBegin | KMapBegin | KListBegin | KSetBegin.

Definition r_item (k : kind) (buf : bytes) : res (item * N) :=
  match k with
  | KBool => do (v, n) <- r_bool buf; Ok (IBool v, n)
  | KByte => do (v, n) <- r_byte buf; Ok (IByte v, n)
  | KI16 => do (v, n) <- r_i16 buf; Ok (II16 v, n)
  | KI32 => do (v, n) <- r_i32 buf; Ok (II32 v, n)
  | KI64 => do (v, n) <- r_i64 buf; Ok (II64 v, n)
  | KDouble => do (v, n) <- r_double buf; Ok (IDouble v, n)
  | KBinary => do (v, n) <- r_binary buf; Ok (IBinary v, n)
  | KString => do (v, n) <- r_string buf; Ok (IString v, n)
  | KFieldBegin => do (t, id, n) <- r_field_begin buf;
                   Ok (if (t =? thrift_STOP)%Z then IFieldStop else IFieldBegin t id, n)
  | KMapBegin => do (kt, vt, sz, n) <- r_map_begin buf; Ok (IMapBegin kt vt sz, n)
  | KListBegin => do (et, sz, n) <- r_list_begin buf; Ok (IListBegin et sz, n)
  | KSetBegin => do (et, sz, n) <- r_set_begin buf; Ok (ISetBegin et sz, n)
  end.

Definition kind_of (it : item) : kind :=
  match it with
  | IBool _ => KBool | IByte _ => KByte | II16 _ => KI16 | II32 _ => KI32 | II64 _ => KI64
  | IDouble _ => KDouble | IBinary _ => KBinary | IString _ => KString
  | IFieldBegin _ _ | IFieldStop => KFieldBegin
  | IMapBegin _ _ _ => KMapBegin | IListBegin _ _ => KListBegin | ISetBegin _ _ => KSetBegin
  end.
