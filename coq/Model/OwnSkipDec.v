(* Model/OwnSkipDec.v — HEAP-LEVEL model of thrift.ReaderSkipDecoder
   (protocol/thrift/skipdecoder.go:137-219): a private buffer p.b from mcache that is grown by
   growSlow (allocate, copy, THEN free the old one) and survives Release/Reset.  The generic
   template asks SkipN for sizes that depend on the data; the model takes the sizes of one
   Next as a list, so every sequence is covered. *)
From GV Require Import Lib.Bytes Lib.Res Lib.Heap Gen.Consts Model.Own Model.OwnReader.
Open Scope N_scope.

Record hskip := mkK {
  kb : option bslice;       (* p.b *)
  kn : N;                   (* p.n *)
  ksrc : source;            (* p.r *)
  (* ghost *)
  kres : option lslice;     (* the slice returned by the last successful Next (valid until the next Next/Reset) *)
  kstart : N                (* source position when the current Next started *)
}.

Definition new_skip (s : source) : hskip := mkK None 0 s None (spos s).

Inductive kout : Type :=
| KBytes (v : bytes) (l : option lslice)
| KErr (e : Z)
| KPanic
| KUnit.

(* growSlow(n): newb := mcache.Malloc(p.n+n); copy(newb, p.b[:p.n]); mcache.Free(p.b); p.b = newb *)
Definition grow_slow (st : hskip) (e : env) (n : N) : option (hskip * env) :=
  let '(e1, nb) := e_malloc e (kn st + n) in
  let ns := mkS nb 0 (kn st + n) (pow2ceil (kn st + n)) in
  match kb st with
  | Some s =>
    if kn st <=? scp s then
      let cn := N.min (kn st + n) (kn st) in
      let '(e2, v) := e_read e1 (sblk s) (soff s) cn in
      let e3 := e_write e2 nb 0 v in
      let e4 := e_free e3 s in
      Some (mkK (Some ns) (kn st) (ksrc st) (kres st) (kstart st), e4)
    else None                                   (* p.b[:p.n] out of range *)
  | None =>
    if kn st =? 0 then Some (mkK (Some ns) (kn st) (ksrc st) (kres st) (kstart st), e1)   (* Free(nil) is ignored *)
    else None
  end.

Definition k_grow (st : hskip) (e : env) (n : N) : option (hskip * env) :=
  let l := match kb st with Some s => sln s | None => 0 end in
  if (kn st <=? l) && (n <=? l - kn st) then Some (st, e) else grow_slow st e n.

(* for i < n && err == nil { nn, err = p.r.Read(buf[i:]); i += nn } *)
Fixpoint readfull (fuel : nat) (src : source) (e : env) (b : nat) (base : N) (i n : N) : source * env * N * option Z :=
  match fuel with
  | O => (src, e, i, None)
  | S f =>
    if i <? n then
      let e0 := e_callback e in
      let '(bs, er, src') := src_read src (n - i) in
      let e1 := e_write e0 b (base + i) bs in
      match er with
      | Some x => (src', e1, i + len bs, Some x)
      | None => readfull f src' e1 b base (i + len bs) n
      end
    else (src, e, i, None)
  end.

(* SkipN(n): returns the slice p.b[p.n:p.n+n] as a value (the template uses it at once) *)
Definition k_skipn (st : hskip) (e : env) (n : N) : hskip * env * kout :=
  match k_grow st e n with
  | None => (st, e, KPanic)
  | Some (st1, e1) =>
    match kb st1 with
    | None => if n =? 0 then (st1, e1, KBytes [] None) else (st1, e1, KPanic)
    | Some s =>
      if kn st1 + n <=? scp s then
        let '(src', e2, i, er) :=
          readfull (length (schunks (ksrc st1)) + 3) (ksrc st1) e1 (sblk s) (soff s + kn st1) 0 n in
        if i <? n then
          (mkK (kb st1) (kn st1) src' (kres st1) (kstart st1), e2,
           match er with Some x => KErr x | None => KPanic end)
        else
          (mkK (kb st1) (kn st1 + n) src' (kres st1) (kstart st1), e2,
           KBytes (read (wh (ew e2)) (Some (sblk s, soff s + kn st1)) n) None)
      else (st1, e1, KPanic)
    end
  end.

Fixpoint k_skips (st : hskip) (e : env) (sizes : list N) : hskip * env * option kout :=
  match sizes with
  | [] => (st, e, None)
  | n :: r =>
    match k_skipn st e n with
    | (st', e', KBytes _ _) => k_skips st' e' r
    | (st', e', o) => (st', e', Some o)
    end
  end.

(* Next(t): p.n = 0; template; return p.b[:p.n] *)
Definition k_next (st : hskip) (e : env) (sizes : list N) : hskip * env * kout :=
  let st0 := mkK (kb st) 0 (ksrc st) None (spos (ksrc st)) in
  match k_skips st0 e sizes with
  | (st', e', Some o) => (st', e', o)
  | (st', e', None) =>
    match kb st' with
    | Some s =>
      if kn st' <=? scp s then
        let l := if kn st' =? 0 then None else Some (mkL (sblk s) (soff s) (kn st') (kstart st')) in
        (mkK (kb st') (kn st') (ksrc st') l (kstart st'), e',
         KBytes (read (wh (ew e')) (Some (sblk s, soff s)) (kn st')) l)
      else (st', e', KPanic)
    | None => if kn st' =? 0 then (st', e', KBytes [] None) else (st', e', KPanic)
    end
  end.

(* Release() followed by NewReaderSkipDecoder(r) on the same pooled object: Reset keeps p.b *)
Definition k_reset (st : hskip) (s : source) : hskip := mkK (kb st) 0 s None (spos s).

Inductive kop : Type :=
| KNext (sizes : list N) | KSkipN (n : N) | KReset (s : source).

Definition k_step (st : hskip) (e : env) (o : kop) : hskip * env * kout :=
  match o with
  | KNext sizes => k_next st e sizes
  | KSkipN n =>
    (* a direct SkipN may move or overwrite the buffer of the last result: it is no longer live *)
    let '(st', e', o) := k_skipn (mkK (kb st) (kn st) (ksrc st) None (kstart st)) e n in (st', e', o)
  | KReset s => (k_reset st s, e, KUnit)
  end.

Inductive kstep : Type :=
| KOp (o : kop) (al : list achoice) (adv padv : list (list costep))
| KCo (l : list costep).

Definition krun_step (x : hskip * world * list event) (s : kstep) : hskip * world * list event * option kout :=
  let '(st, w, tr) := x in
  match s with
  | KOp o al adv padv =>
    let '(st', e', out) := k_step st (mkE w al adv padv tr) o in
    (st', ew e', eev e', Some out)
  | KCo l => (st, co_run w l, tr, None)
  end.

Fixpoint krun (x : hskip * world * list event) (h : list kstep) : hskip * world * list event * list kout :=
  match h with
  | [] => (x, [])
  | s :: r =>
    let '(x', o) := krun_step x s in
    let '(x'', outs) := krun x' r in
    (x'', match o with Some o' => o' :: outs | None => outs end)
  end.
