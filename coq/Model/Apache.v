(* Model/Apache.v — protocol/thrift/apache: transport.go (bufferTransport, defaultTransport)
   and apache.go (the callback registry).

   bytes.Buffer is a modelled contract (DESIGN 7): its state is the unread bytes.
     Write(p)  appends p, returns (len(p), nil)
     Read(p)   len(p) = k.  Empty buffer: Reset, then (0, nil) if k = 0 else (0, io.EOF).
               Otherwise copies n = min(k, unread) bytes from the front, returns (n, nil).
     Reset()   discards everything;  Len() = number of unread bytes (an int).

   type bufferTransport struct { bytes.Buffer };  NewBufferTransport(buf) returns
   ( *bufferTransport)(unsafe.Pointer(buf)): the SAME address with a different static type.  The
   embedded Buffer is the first (only) field, at offset 0, so every method promoted from
   bytes.Buffer and every method bufferTransport adds operate on the memory buf points to.
   The model therefore has ONE buffer state; an operation names the handle it goes through and
   [exec] dispatches on it exactly as the method sets do. *)
From GV Require Import Lib.Bytes Lib.Res.
Open Scope N_scope.

(* ---------- bytes.Buffer ---------- *)
Definition buffer := bytes.

Definition buf_write (p : bytes) (s : buffer) : buffer * N := (s ++ p, len p).

(* result: bytes copied into p[:n], and whether err = io.EOF (else nil) *)
Definition buf_read (k : N) (s : buffer) : buffer * (bytes * bool) :=
  if len s =? 0 then ([], ([], negb (k =? 0)))
  else let n := N.min k (len s) in (drop n s, (take n s, false)).

Definition buf_reset (s : buffer) : buffer := [].
Definition buf_len (s : buffer) : Z := Z.of_N (len s).      (* int *)

(* ---------- bufferTransport: the added methods ---------- *)
(* RemainingBytes() uint64 { return uint64(p.Len()) } *)
Definition bt_remaining (s : buffer) : N := to_unsigned 64 (buf_len s).
(* Close() error { p.Reset(); return nil } *)
Definition bt_close (s : buffer) : buffer := buf_reset s.

(* ---------- handles and operations ---------- *)
Inductive handle : Type := HBuffer | HTransport.      (* buf  /  NewBufferTransport(buf) *)

(* methods of *bytes.Buffer; *bufferTransport has them by promotion *)
Inductive bop : Type := Write (p : bytes) | Read (k : N) | Reset | Len.
(* methods only *bufferTransport has *)
Inductive top : Type := Close | RemainingBytes | IsOpen | Open | Flush.

Inductive op : Type := Via (h : handle) (o : bop) | Tr (o : top).

Inductive obs : Type :=
| OWrite (n : N)                      (* (n, nil) *)
| ORead (data : bytes) (eof : bool)   (* p[:n], err == io.EOF *)
| OUnit
| OLen (n : Z)
| ORemaining (n : N)
| OBool (b : bool)
| ONilErr.

Definition buf_exec (o : bop) (s : buffer) : buffer * obs :=
  match o with
  | Write p => let '(s', n) := buf_write p s in (s', OWrite n)
  | Read k => let '(s', (d, e)) := buf_read k s in (s', ORead d e)
  | Reset => (buf_reset s, OUnit)
  | Len => (s, OLen (buf_len s))
  end.

(* a method promoted from the embedded field: receiver &p.Buffer = p + 0 *)
Definition promoted (o : bop) (s : buffer) : buffer * obs := buf_exec o s.

Definition tr_exec (o : top) (s : buffer) : buffer * obs :=
  match o with
  | Close => (bt_close s, ONilErr)
  | RemainingBytes => (s, ORemaining (bt_remaining s))
  | IsOpen => (s, OBool true)
  | Open => (s, ONilErr)
  | Flush => (s, ONilErr)
  end.

Definition exec (o : op) (s : buffer) : buffer * obs :=
  match o with
  | Via HBuffer b => buf_exec b s
  | Via HTransport b => promoted b s
  | Tr t => tr_exec t s
  end.

Fixpoint run (h : list op) (s : buffer) : buffer * list obs :=
  match h with
  | [] => (s, [])
  | o :: r => let '(s1, x) := exec o s in
              let '(s2, xs) := run r s1 in (s2, x :: xs)
  end.

(* ---------- NewDefaultTransport / defaultTransport ---------- *)
(* what the io.ReadWriter given to NewDefaultTransport is *)
Inductive rw : Type :=
| RWBuffer (s : buffer)       (* a *bytes.Buffer *)
| RWReadable (n : Z)          (* implements remoteByteBuffer: ReadableLen() int, currently returning n *)
| RWOther.                    (* anything else, whatever other methods (Len() ...) it has *)

Inductive transport : Type :=
| TBuffer (s : buffer)        (* *bufferTransport *)
| TDefault (o : rw).          (* defaultTransport{o} *)

(* if buf, ok := rw.( *bytes.Buffer); ok { return NewBufferTransport(buf) };  return defaultTransport{rw} *)
Definition new_default_transport (o : rw) : transport :=
  match o with
  | RWBuffer s => TBuffer s
  | _ => TDefault o
  end.

Definition max_uint64 : N := two64 - 1.       (* ^uint64(0) *)

(* if v, ok := p.ReadWriter.(remoteByteBuffer); ok { n := v.ReadableLen(); if n > 0 { return uint64(n) } }
   return ^uint64(0) *)
Definition default_remaining (o : rw) : N :=
  match o with
  | RWReadable n => if (0 <? n)%Z then to_unsigned 64 n else max_uint64
  | _ => max_uint64
  end.

Definition transport_remaining (t : transport) : N :=
  match t with
  | TBuffer s => bt_remaining s
  | TDefault o => default_remaining o
  end.

(* ---------- the callback registry (apache.go) ---------- *)
(* Three package-level func variables, nil until registered; Register*(fn) stores fn (nil
   included).  A = what is passed (v, or (r, v), or (w, v)), E = what a callback returns. *)
Inductive slotid : Type := SCheck | SRead | SWrite.

Section Registry.
  Context {A E : Type}.

  Definition fnval : Type := option (A -> E).          (* None = nil func *)

  Record registry : Type := { fn_check : fnval; fn_read : fnval; fn_write : fnval }.

  Definition empty_registry : registry := {| fn_check := None; fn_read := None; fn_write := None |}.

  Definition get (r : registry) (s : slotid) : fnval :=
    match s with SCheck => fn_check r | SRead => fn_read r | SWrite => fn_write r end.

  Definition register (s : slotid) (f : fnval) (r : registry) : registry :=
    match s with
    | SCheck => {| fn_check := f; fn_read := fn_read r; fn_write := fn_write r |}
    | SRead => {| fn_check := fn_check r; fn_read := f; fn_write := fn_write r |}
    | SWrite => {| fn_check := fn_check r; fn_read := fn_read r; fn_write := f |}
    end.

  Inductive result : Type :=
  | RetCallback (e : E)              (* exactly what the callback returned (nil included) *)
  | RetNotRegistered (s : slotid).   (* the package-level error value of slot s, non-nil *)

  (* calling a func value: nil panics *)
  Definition call_fn (f : fnval) (a : A) : res E :=
    match f with
    | None => Panic 4
    | Some fn => Ok (fn a)
    end.

  (* CheckTStruct / ThriftRead / ThriftWrite:
       if fnX == nil { return errXNotRegistered };  return fnX(args) *)
  Definition dispatch (r : registry) (s : slotid) (a : A) : res result :=
    match get r s with
    | None => Ok (RetNotRegistered s)
    | Some fn => do e <- call_fn (Some fn) a; Ok (RetCallback e)
    end.
End Registry.
Arguments registry : clear implicits.
Arguments result : clear implicits.
Arguments fnval : clear implicits.
