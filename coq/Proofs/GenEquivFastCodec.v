(* Proofs/GenEquivFastCodec.v — protocol/thrift/fastcodec.go FastMarshal, FastUnmarshal and
   MarshalFastMsg as REGENERATED from the Go source (Gen/Funcs.v, tools/gotrans phase 3) are equal to
   the hand-written models Model/FastCodec.v [fast_marshal] / [fast_unmarshal] and Model/Message.v
   [marshal_fast_msg], the ones the theorems of C11 / C12 are about.

   What is a parameter of the generated definitions, and how it is discharged here:
     * msg, the FastCodec: an abstract object (state [St]) with BLength, FastWriteNocopy and FastRead
       as parameters.  FastWriteNocopy(buf, nil) stores into buf: its model returns the final
       contents of buf (tools/gotrans mutatingMethods; the NocopyWriter argument is the literal
       nil at every call site and is not a parameter of the model).  The hand models take the same
       three methods as PURE functions (blen, write, read); Section Codec relates the two by [rrel]:
       ANY models of the three methods that refine the pure functions — whatever they do to the state.
     * dirtmake.Bytes(sz, sz): a content oracle x_dirtmake_Bytes; asked to return sz bytes
       ([dirtbuf] / [dirty] of the hand models: any content [dirt], cut or padded to sz).
   UnmarshalFastMsg is NOT translated: it returns the *ApplicationException it read as the error
   value, and the translator's errors are codes (GoSem.gerror), not values with fields. *)
From GV Require Import Lib.Bytes Lib.Res Lib.GoSem Gen.Consts Gen.Funcs Model.Binary Model.Skip Model.Nocopy
     Model.FastCodec Proofs.BinaryP Proofs.SkipP Proofs.GenLib Proofs.GenLib3 Proofs.GenEquiv Proofs.GenEquivFast Proofs.GenEquivAppEx.
From GV Require Model.Message Proofs.MessageP Proofs.FastCodecP.
From Coq Require Import ZifyN ZifyNat ZifyBool.
Open Scope N_scope.

(* the generated outcome [g] refines the hand outcome [h]: related results, the same error code,
   a panic for a panic (codes aside) *)
Definition rrel {A B} (R : A -> B -> Prop) (h : res A) (g : res B) : Prop :=
  match h with
  | Ok a => exists b, g = Ok b /\ R a b
  | Err e => g = Err e
  | Panic _ => exists w, g = Panic w
  | OOB => g = OOB
  end.

Lemma rrel_bind {A B A' B'} (R : A -> B -> Prop) (R' : A' -> B' -> Prop) h g (hk : A -> res A') (gk : B -> res B') :
  rrel R h g -> (forall a b, R a b -> rrel R' (hk a) (gk b)) -> rrel R' (bind h hk) (bind g gk).
Proof.
  intros H HK. destruct h as [a|e|w|]; cbn [rrel bind] in *.
  - destruct H as (b & -> & Hr). cbn [bind]. apply HK. exact Hr.
  - rewrite H. reflexivity.
  - destruct H as [w' ->]. eexists; reflexivity.
  - rewrite H. reflexivity.
Qed.

Section Codec.
  Variable St : Type.
  Variable mBL : St -> res (St * Z).                    (* msg.BLength() *)
  Variable mFW : St -> bytes -> res (St * bytes * Z).   (* msg.FastWriteNocopy(buf, nil): final buf, n *)
  Variable mFR : St -> bytes -> res (St * Z * gerror).  (* msg.FastRead(buf) *)
  Variable xdirt : Z -> Z -> res bytes.                 (* dirtmake.Bytes *)

  (* the method models refine the pure functions of the hand models, from every state *)
  Definition blen_ok (blen : res N) (st : St) (st1 : St -> Prop) : Prop :=
    rrel (fun n r => snd r = Z.of_N n /\ st1 (fst r)) blen (mBL st).
  (* (buffers are shorter than 2^63 bytes: Go's int) *)
  Definition write_ok (write : bytes -> res (bytes * N)) (st1 st2 : St -> Prop) : Prop :=
    forall st buf, st1 st -> glen_ok buf ->
      rrel (fun bk r => snd (fst r) = fst bk /\ snd r = Z.of_N (snd bk) /\ st2 (fst (fst r))) (write buf) (mFW st buf).

  (* ---------- FastMarshal (Model/FastCodec.v fast_marshal) ---------- *)
  Theorem g_FastMarshal_sim dirt blen write st st1 st2 :
    blen_ok blen st st1 -> write_ok write st1 st2 ->
    (forall n, blen = Ok n -> (Z.of_N n < 2 ^ 63)%Z) ->
    (forall n, xdirt (Z.of_N n) (Z.of_N n) = Ok (dirty dirt n)) ->
    rrel (fun b r => snd r = b /\ st2 (fst r)) (fast_marshal dirt blen write) (g_thrift_FastMarshal St mBL mFW xdirt st).
  Proof.
    intros HB HW Hn HD. unfold fast_marshal. cbv delta [g_thrift_FastMarshal] beta.
    destruct blen as [n|e|w|] eqn:Eb; cbn [rrel bind blen_ok] in *.
    - destruct HB as ([st' z] & -> & Hz & Hs). cbn [fst snd bind] in *. subst z.
      cbv zeta. rewrite HD. cbn [bind].
      assert (glen_ok (dirty dirt n)) as Hg.
      { unfold glen_ok, glen. rewrite Proofs.FastCodecP.len_dirty. exact (Hn n eq_refl). }
      pose proof (HW st' (dirty dirt n) Hs Hg) as W.
      destruct (write (dirty dirt n)) as [[b' k]|e|w|]; cbn [rrel bind] in *.
      + destruct W as ([[st2' b2] z] & -> & H1 & H2 & H3). cbn [fst snd bind] in *. subst. eexists. split; [reflexivity|]. cbn [fst snd]. auto.
      + rewrite W. reflexivity.
      + destruct W as [w' ->]. eexists; reflexivity.
      + rewrite W. reflexivity.
    - unfold blen_ok in HB. cbn [rrel] in HB. rewrite HB. reflexivity.
    - unfold blen_ok in HB. cbn [rrel] in HB. destruct HB as [w' ->]. eexists; reflexivity.
    - unfold blen_ok in HB. cbn [rrel] in HB. rewrite HB. reflexivity.
  Qed.

  (* ---------- FastUnmarshal (Model/FastCodec.v fast_unmarshal): _, err := msg.FastRead(buf); return err ---------- *)
  Theorem g_FastUnmarshal_sim {A} (read : bytes -> res (A * N)) (repr : St -> A -> Prop) st buf :
    rrel (fun pn r => repr (fst (fst r)) (fst pn) /\ snd r = gnil) (read buf) (mFR st buf) ->
    rrel (fun p r => repr (fst r) p /\ snd r = gnil) (fast_unmarshal read buf) (g_thrift_FastUnmarshal St mFR buf st).
  Proof.
    intros HR. unfold fast_unmarshal. cbv delta [g_thrift_FastUnmarshal] beta.
    destruct (read buf) as [[p n]|e|w|]; cbn [rrel bind] in *.
    - destruct HR as ([[st' z] e] & -> & H1 & H2). cbn [fst snd bind] in *. subst e. eexists. split; [reflexivity|]. cbn [fst snd]. auto.
    - rewrite HR. reflexivity.
    - destruct HR as [w' ->]. eexists; reflexivity.
    - rewrite HR. reflexivity.
  Qed.

  (* a decode error of FastRead comes back as the error of FastUnmarshal (the model returns it as a value) *)
  Theorem g_FastUnmarshal_err st buf st' z e :
    mFR st buf = Ok (st', z, e) -> g_thrift_FastUnmarshal St mFR buf st = Ok (st', e).
  Proof. intros H. cbv delta [g_thrift_FastUnmarshal] beta. rewrite H. reflexivity. Qed.
End Codec.

(* ---------- MarshalFastMsg (Model/Message.v marshal_fast_msg) ---------- *)
Section Msg.
  Import Model.Message.
  Variable St : Type.
  Variable mBL : St -> res (St * Z).
  Variable mFW : St -> bytes -> res (St * bytes * Z).
  Variable xdirt : Z -> Z -> res bytes.
  Variable P : Type.
  Variable p_blen : P -> N.
  Variable p_write : P -> bytes -> res (bytes * N).
  (* the state [st] stands for the payload struct [msg] *)
  Variable repr : St -> P -> Prop.
  Hypothesis bl_ok : forall st msg, repr st msg -> exists st1, mBL st = Ok (st1, Z.of_N (p_blen msg)) /\ repr st1 msg.
  Hypothesis fw_ok : forall st msg buf, repr st msg -> glen_ok buf ->
    rrel (fun bk r => snd (fst r) = fst bk /\ snd r = Z.of_N (snd bk) /\ repr (fst (fst r)) msg) (p_write msg buf) (mFW st buf).
  Variable dirt : bytes.
  Hypothesis xd_ok : forall n, xdirt (Z.of_N n) (Z.of_N n) = Ok (dirtbuf dirt n).

  Lemma w_message_begin_ok_len b name ty seq b1 i : w_message_begin b name ty seq = Ok (b1, i) -> i <= len b1 /\ len b1 = len b.
  Proof.
    unfold w_message_begin.
    destruct (put b 0 (be 4 (msg_first_word ty))) as [b0| | |] eqn:E0; cbn [bind]; try discriminate.
    destruct (put b0 4 (be 4 (len name mod two32))) as [b2| | |] eqn:E1; cbn [bind]; try discriminate.
    destruct (copy_to b2 8 name) as [[b3 m]| | |] eqn:E2; cbn [bind]; try discriminate. cbv zeta.
    destruct (put b3 (8 + m) (be 4 (u32 seq))) as [b4| | |] eqn:E3; cbn [bind]; try discriminate.
    intros E. apply ok_pair_inv in E as [<- <-].
    apply put_ok_len in E0, E1, E3. apply copy_to_ok_len in E2. rewrite !be_len in *. lia.
  Qed.

  Theorem g_MarshalFastMsg_sim method ty seq st msg :
    repr st msg -> (glen method + 12 + Z.of_N (p_blen msg) < 2 ^ 63)%Z ->
    match marshal_fast_msg P p_blen p_write dirt method ty seq msg with
    | Ok (Some b) => exists st', g_thrift_MarshalFastMsg St mBL mFW xdirt method ty seq st = Ok (st', b, gnil) /\ repr st' msg
    | Ok None => g_thrift_MarshalFastMsg St mBL mFW xdirt method ty seq st
                 = Ok (st, (nil : bytes), Some (ecode "thrift.MarshalFastMsg#errors.New"))
    | Err e => g_thrift_MarshalFastMsg St mBL mFW xdirt method ty seq st = Err e
    | Panic _ => exists w, g_thrift_MarshalFastMsg St mBL mFW xdirt method ty seq st = Panic w
    | OOB => g_thrift_MarshalFastMsg St mBL mFW xdirt method ty seq st = OOB
    end.
  Proof.
    intros Hr Hsz. unfold marshal_fast_msg. cbv delta [g_thrift_MarshalFastMsg] beta.
    destruct method as [|c method]; [reflexivity|].
    change (beqb (c :: method) (nil : bytes)) with false. rewrite len_cons.
    destruct (N.eqb_spec (1 + len method) 0) as [H0|_]; [lia|]. cbv iota zeta.
    rewrite g_thrift_MessageBeginLength_eq by (unfold glen in *; lia). cbn [bind].
    destruct (bl_ok st msg Hr) as (st1 & -> & Hr1). cbn [bind].
    unfold glen in Hsz. rewrite len_cons in Hsz. unfold l_message_begin in *. rewrite len_cons.
    rewrite wraps64_small by lia.
    replace (Z.of_N (4 + (4 + (1 + len method)) + 4) + Z.of_N (p_blen msg))%Z
      with (Z.of_N (4 + (4 + (1 + len method)) + 4 + p_blen msg)) by lia.
    rewrite xd_ok. cbn [bind].
    set (b0 := dirtbuf dirt (4 + (4 + (1 + len method)) + 4 + p_blen msg)).
    rewrite g_thrift_WriteMessageBegin_eq by (unfold glen; rewrite len_cons; lia).
    pose proof (w_message_begin_ok_len b0 (c :: method) ty seq) as WL.
    destruct (w_message_begin b0 (c :: method) ty seq) as [[b1 i]|e|w|]; cbn [rmap bind zl fst snd]; try reflexivity; [|eexists; reflexivity].
    destruct (WL b1 i eq_refl) as [Hi Hl]. rewrite gslice_from_N.
    rewrite slice_from_ok by exact Hi. cbn [bind].
    assert (glen_ok (drop i b1)) as Hg.
    { unfold glen_ok, glen. rewrite drop_len by exact Hi. rewrite Hl. unfold b0. rewrite Proofs.MessageP.len_dirtbuf. lia. }
    pose proof (fw_ok st1 msg (drop i b1) Hr1 Hg) as FW.
    destruct (p_write msg (drop i b1)) as [[s' k]|e|w|]; cbn [rrel bind] in *.
    - destruct FW as ([[st2 s2] z] & -> & H1 & H2 & H3). cbn [fst snd bind] in *. subst s2.
      exists st2. unfold gsplice. rewrite N2Z.id. split; [reflexivity|exact H3].
    - rewrite FW. reflexivity.
    - destruct FW as [w' ->]. eexists; reflexivity.
    - rewrite FW. reflexivity.
  Qed.
End Msg.
