(* Proofs/BufWriterInv.v — the writer invariant and what each operation does to the logical
   string [Lof] (property C05). *)
From GV Require Import Lib.Bytes Lib.Res Lib.Heap Gen.Consts Spec.Log Model.BufWriter
  Proofs.BufWriterLib Proofs.BufWriterP.
From Coq Require Import ZifyN ZifyNat ZifyBool.
Open Scope N_scope.

(* ---------- the invariant ---------- *)
(* live regions, newest first, are consecutive-or-later disjoint windows below [hi] *)
Fixpoint rchain (rs : list region) (hi : N) : Prop :=
  match rs with
  | [] => True
  | r :: rest => roff r + rlen r <= hi /\ rchain rest (roff r)
  end.

Definition region_owned (st : wstate) (r : region) : Prop :=
  0 < rlen r ->
  match cur st with
  | Some (c, l) => owns (pend st) 0 c l (rid r) (roff r) (roff r + rlen r)
  | None => False
  end.

Record Inv (st : wstate) : Prop := mkInv {
  inv_chain : match cur st with
              | Some (c, l) => chain (store st) (pend st) 0 c l
              | None => pend st = []
              end;
  inv_cap : pend st = [] \/ 0 < cur_cap st;
  inv_own : Forall (region_owned st) (live st);
  inv_rch : rchain (live st) (cur_len st) }.

Lemma rchain_bound rs : forall hi r, rchain rs hi -> In r rs -> roff r + rlen r <= hi.
Proof.
  induction rs as [|r0 rs IH]; intros hi r H Hin; cbn [rchain In] in *; [contradiction|].
  destruct H as (H1 & H2). destruct Hin as [<-|Hin]; [exact H1|].
  specialize (IH _ _ H2 Hin). lia.
Qed.

Lemma Lof_len st : Inv st -> len (Lof st) = cur_len st.
Proof.
  intros [Hc _ _ _]. unfold Lof, cur_len. destruct (cur st) as [[c l]|]; [|reflexivity].
  rewrite (stitched_len _ _ _ _ _ Hc). lia.
Qed.

Lemma len_le_cap st : Inv st -> cur_len st <= cur_cap st.
Proof.
  intros [Hc _ _ _]. unfold cur_len, cur_cap. destruct (cur st) as [[c l]|]; [|lia].
  destruct (chain_cur _ _ _ _ _ Hc). assumption.
Qed.

(* fields not touched by acquire *)
Definition same_aux (st st1 : wstate) : Prop :=
  werr st1 = werr st /\ nocache st1 = nocache st /\ buckets st1 = buckets st /\ bidx st1 = bidx st /\
  sink st1 = sink st /\ nstale st1 = nstale st /\ freed st1 = freed st.

Lemma same_aux_refl st : same_aux st st.
Proof. repeat split. Qed.

Lemma same_aux_trans a b c : same_aux a b -> same_aux b c -> same_aux a c.
Proof. unfold same_aux. intuition congruence. Qed.

(* ---------- frame: what a published target slice (block b, first tl bytes) can rely on ---------- *)
(* the blocks the writer may still store into *)
Definition cblocks (st : wstate) : list nat :=
  map fst (pend st) ++ match cur st with Some (c, _) => [c] | None => [] end.

(* block b is the oldest buffer of the chain and holds at least the first tl logical bytes *)
Definition head_at (st : wstate) (b : nat) (tl : N) : Prop :=
  match pend st, cur st with
  | (pb, lb) :: _, _ => pb = b /\ tl <= lb
  | [], Some (c, l) => c = b /\ tl <= l
  | [], None => False
  end.

(* the first tl bytes of block b will not be stored into any more: the slice is empty, or the
   block has left the writer, or it is the oldest buffer and every live region lies beyond tl *)
Definition tgt_ok (st : wstate) (b : nat) (tl : N) : Prop :=
  tl = 0 \/
  ((b < length (store st))%nat /\ ~ In b (cblocks st)) \/
  (head_at st b tl /\ Forall (fun r => tl <= roff r) (live st)).

Definition tgt_pres (st st' : wstate) : Prop :=
  forall b tl, tgt_ok st b tl ->
    tgt_ok st' b tl /\ take tl (block (store st') b) = take tl (block (store st) b).

Lemma tgt_pres_refl st : tgt_pres st st.
Proof. intros b tl H. split; [exact H | reflexivity]. Qed.

Lemma tgt_pres_trans a b c : tgt_pres a b -> tgt_pres b c -> tgt_pres a c.
Proof.
  intros H1 H2 x tl H. destruct (H1 x tl H) as (Hb & Eb). destruct (H2 x tl Hb) as (Hc & Ec).
  split; [exact Hc | congruence].
Qed.

Lemma head_at_facts st b tl :
  Inv st -> head_at st b tl -> (b < length (store st))%nat /\ tl <= cur_len st /\ In b (cblocks st).
Proof.
  intros [Hc _ _ _] Hh. unfold head_at, cur_len, cblocks in *.
  destruct (pend st) as [|[pb lb] rest] eqn:Ep; destruct (cur st) as [[c l]|] eqn:Ec; try contradiction; try discriminate.
  - cbn [chain] in Hc. destruct Hh as (<- & Hh). cbn [map app In]. intuition lia.
  - cbn [chain] in Hc. destruct Hh as (<- & Hh). destruct Hc as (_ & _ & H3 & _ & _ & H6).
    pose proof (chain_le _ _ _ _ _ H6). cbn [map fst app In]. intuition lia.
Qed.

(* ---------- the doubling loops never run out of fuel ---------- *)
Lemma fuel_enough n : n < 2 ^ N.of_nat (loop_fuel n).
Proof.
  unfold loop_fuel. rewrite Nat2N.inj_succ, N2Nat.id.
  destruct (N.eq_dec n 0) as [->|Hn].
  - cbn. lia.
  - apply N.log2_spec. lia.
Qed.

Lemma double_until_ok n : forall fuel m, 0 < m -> n < m * 2 ^ N.of_nat fuel ->
  exists r, double_until fuel m n = Some r /\ n <= r /\ m <= r.
Proof.
  induction fuel as [|f IH]; intros m Hm Hn; cbn [double_until].
  - change (2 ^ N.of_nat 0) with 1 in Hn. destruct (N.ltb_spec m n); [exfalso; lia|]. exists m. split; [reflexivity|lia].
  - destruct (N.ltb_spec m n) as [Hlt|Hge]; [|exists m; split; [reflexivity|lia]].
    rewrite Nat2N.inj_succ, N.pow_succ_r' in Hn.
    destruct (IH (2 * m)) as (r & E & H1 & H2); [lia | lia |]. exists r. repeat split; auto. lia.
Qed.

Lemma grow_until_ok n l : forall fuel nc, 2 * l <= nc -> n * 2 < nc * 2 ^ N.of_nat fuel ->
  exists r, grow_until fuel nc l n = Some r /\ n <= r - l /\ nc <= r.
Proof.
  induction fuel as [|f IH]; intros nc Hl Hn; cbn [grow_until].
  - change (2 ^ N.of_nat 0) with 1 in Hn. destruct (N.ltb_spec (nc - l) n); [exfalso; lia|]. exists nc. split; [reflexivity|lia].
  - destruct (N.ltb_spec (nc - l) n) as [Hlt|Hge]; [|exists nc; split; [reflexivity|lia]].
    rewrite Nat2N.inj_succ, N.pow_succ_r' in Hn.
    destruct (IH (2 * nc)) as (r & E & H1 & H2); [lia | lia |]. exists r. repeat split; auto. lia.
Qed.

Lemma pow2ceil_ge c : c <= pow2ceil c.
Proof.
  unfold pow2ceil. destruct (N.le_gt_cases c 1) as [H|H].
  - rewrite N.log2_up_eqn0 by assumption. cbn. exact H.
  - apply N.log2_up_spec. exact H.
Qed.

Lemma len_mkbuf c d : len (mkbuf c d) = c.
Proof.
  unfold mkbuf. rewrite len_take, len_app. unfold len at 2. rewrite repeat_length. lia.
Qed.

Lemma new_block_spec dirty nc h c :
  exists x, new_block dirty nc h c = (h ++ [x], length h) /\ c <= len x.
Proof.
  unfold new_block, alloc. eexists. split; [reflexivity|]. rewrite len_mkbuf.
  destruct nc; [lia | apply pow2ceil_ge].
Qed.

(* ---------- acquire ---------- *)
Lemma cap0_facts st :
  Inv st -> cur_cap st = 0 ->
  cur_len st = 0 /\ pend st = [] /\ Lof st = [] /\ Forall (fun r => rlen r = 0) (live st).
Proof.
  intros HI H0. pose proof (len_le_cap _ HI) as Hle. pose proof (Lof_len _ HI) as HL.
  destruct HI as [Hc Hcap Hown Hrch].
  assert (Hl : cur_len st = 0) by lia.
  assert (Hp : pend st = []) by (destruct Hcap; [assumption | lia]).
  repeat split; auto.
  - destruct (Lof st); [reflexivity|]. rewrite len_cons in HL. lia.
  - pose proof (fun r => rchain_bound _ _ r Hrch) as Hb. rewrite Hl in Hb.
    apply Forall_forall. intros r Hr. specialize (Hb r Hr). lia.
Qed.

Definition acquire_post (st : wstate) (n : N) (st1 : wstate) : Prop :=
  Inv st1 /\ Lof st1 = Lof st /\ cur_len st1 = cur_len st /\ cur_len st1 + n <= cur_cap st1 /\
  same_aux st st1 /\ live st1 = live st /\ (cur st1 = None -> cur st = None) /\ tgt_pres st st1.

Ltac simp_st :=
  cbn [with_mem with_live cur store pend werr nocache buckets bidx sink live nstale freed] in *.

Lemma acquire_slow_ok dirty st n :
  Inv st -> cur_cap st < cur_len st + n ->
  exists st1, acquire_slow dirty st n = Ok st1 /\ acquire_post st n st1.
Proof.
  intros HI Hn. unfold acquire_slow.
  pose proof (fuel_enough n) as Hf.
  destruct (N.eqb_spec (cur_cap st) 0) as [H0|H0].
  - (* first allocation *)
    destruct (cap0_facts _ HI H0) as (Hl & Hp & HL & Hz).
    set (m0 := if stat_max (buckets st) <? bufsz then bufsz else stat_max (buckets st)).
    assert (Hm0 : 0 < m0).
    { pose proof bufsz_pos. unfold m0. destruct (N.ltb_spec (stat_max (buckets st)) bufsz); lia. }
    destruct (double_until_ok n (loop_fuel n) m0 Hm0) as (m & Em & Hm1 & Hm2); [nia|].
    rewrite Em.
    destruct (new_block_spec dirty (nocache st) (store st) m) as (x & Ex & Hx). rewrite Ex.
    cbn [bind]. unfold cur_cap at 1, cur_len at 1. cbn [with_mem cur store].
    rewrite block_alloc_new.
    destruct (N.ltb_spec (len x - 0) n) as [Hlt|_]; [exfalso; lia|].
    eexists. split; [reflexivity|].
    unfold acquire_post. split; [|split; [|split; [|split; [|split; [|split; [|split]]]]]].
    + constructor; simp_st.
      * rewrite Hp. cbn [chain]. rewrite block_alloc_new, app_length. cbn [length]. lia.
      * left. exact Hp.
      * apply Forall_forall. intros r Hr. rewrite Forall_forall in Hz. specialize (Hz r Hr).
        unfold region_owned. lia.
      * destruct HI as [_ _ _ Hrch]. rewrite Hl in Hrch. exact Hrch.
    + unfold Lof at 1. simp_st. rewrite Hp. cbn [stitched]. rewrite HL. reflexivity.
    + unfold cur_len at 1. simp_st. lia.
    + unfold cur_len, cur_cap. simp_st. rewrite block_alloc_new. lia.
    + repeat split.
    + reflexivity.
    + simp_st. discriminate.
    + intros b tl Hok. destruct Hok as [->|[(Hlt & Hnin)|(Hh & Hall)]].
      * split; [left; reflexivity | reflexivity].
      * split.
        -- right; left. simp_st. rewrite app_length. cbn [length]. split; [lia|].
           unfold cblocks. simp_st. rewrite Hp. cbn [map app In]. lia.
        -- simp_st. now rewrite block_alloc_old.
      * destruct (head_at_facts _ _ _ HI Hh) as (_ & Htl & _).
        assert (tl = 0) by lia. subst tl. split; [left; reflexivity | reflexivity].
  - (* growth *)
    cbn [bind].
    pose proof (len_le_cap _ HI) as Hle.
    destruct (N.ltb_spec (cur_cap st - cur_len st) n) as [_|Hge]; [|exfalso; lia].
    destruct (grow_until_ok n (cur_len st) (loop_fuel n) (cur_cap st * 2)) as (nc & Enc & Hnc1 & Hnc2); [lia | nia |].
    rewrite Enc.
    destruct (new_block_spec dirty (nocache st) (store st) nc) as (x & Ex & Hx). rewrite Ex.
    pose proof HI as HI0. destruct HI as [Hc Hcap Hown Hrch].
    unfold cur_cap, cur_len in Hc, Hcap, Hown, Hrch, Hn, H0, Hle, Enc, Hnc1, Hnc2 |- *. destruct (cur st) as [[c l]|] eqn:Ecur; [|exfalso; lia].
    eexists. split; [reflexivity|].
    unfold acquire_post. split; [|split; [|split; [|split; [|split; [|split; [|split]]]]]].
    + constructor; simp_st.
      * apply chain_park; [exact Hc | lia].
      * right. unfold cur_cap. simp_st. rewrite block_alloc_new. lia.
      * eapply Forall_impl; [|exact Hown]. intros r Hr. unfold region_owned in *. simp_st.
        rewrite Ecur in Hr. intros Hpos. apply owns_park. now apply Hr.
      * unfold cur_len. simp_st. exact Hrch.
    + unfold Lof. simp_st. rewrite Ecur. apply stitched_park. exact Hc.
    + unfold cur_len. simp_st. rewrite Ecur. reflexivity.
    + unfold cur_len, cur_cap. simp_st. rewrite block_alloc_new. lia.
    + repeat split.
    + reflexivity.
    + simp_st. discriminate.
    + intros b tl Hok. destruct Hok as [->|[(Hlt & Hnin)|(Hh & Hall)]].
      * split; [left; reflexivity | reflexivity].
      * split.
        -- right; left. simp_st. rewrite app_length. cbn [length]. split; [lia|].
           unfold cblocks in *. simp_st. rewrite Ecur in Hnin. rewrite map_app. cbn [map fst].
           rewrite !in_app_iff in *. cbn [In] in *. intros [[Hi|[Hi|[]]]|[Hi|[]]]; try tauto; lia.
        -- simp_st. now rewrite block_alloc_old.
      *         destruct (head_at_facts _ _ _ HI0 Hh) as (Hlt & _ & _).
        split.
        -- right; right. split; [|simp_st; exact Hall].
           unfold head_at in *. simp_st. rewrite Ecur in Hh.
           destruct (pend st) as [|[pb lb] rest]; cbn [app]; exact Hh.
        -- simp_st. now rewrite block_alloc_old.
Qed.

Lemma acquire_ok dirty st n :
  Inv st -> exists st1, acquire dirty st n = Ok st1 /\ acquire_post st n st1 /\ (n = 0 -> st1 = st).
Proof.
  intros HI. unfold acquire. destruct (N.leb_spec (cur_len st + n) (cur_cap st)) as [Hle|Hgt].
  - exists st. split; [reflexivity|]. split; [|reflexivity].
    unfold acquire_post. split; [exact HI|]. repeat split; auto.
  - destruct (acquire_slow_ok dirty st n HI Hgt) as (st1 & E & HP). exists st1.
    split; [exact E|]. split; [exact HP|].
    intros ->. pose proof (len_le_cap _ HI). exfalso. lia.
Qed.
