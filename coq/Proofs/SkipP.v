(* Proofs/SkipP.v — the unsafe-pointer skipper [bskip] against the reference parser:
   for every byte string and every type byte, bskip accepts exactly when
   [rp inl_all] does, with the same extent; it never loads outside the slice (no OOB), never
   panics, never runs out of loop fuel, and the extent is within the slice. *)
From GV Require Import Lib.Bytes Lib.Res Gen.Consts Model.Binary Model.Skip
  Spec.ThriftGrammar Spec.RefParse Proofs.RefLib Proofs.RefP Proofs.SkipLib.
From Coq Require Import ZifyN ZifyNat ZifyBool Lia.
Open Scope N_scope.

Section Buf.
  Variable b : bytes.
  Hypothesis Hwf : wf b.
  Variable e : N.
  Hypothesis He : e = len b.

  Lemma len_drop_b q : len (drop q b) = e - q.
  Proof. rewrite He. apply len_drop. Qed.

  Lemma drop_b_cons q : q < e -> exists x, drop q b = x :: drop (q + 1) b /\ x < 256.
  Proof.
    intros H. rewrite He in H. destruct (drop_cons q b H) as [x E]. exists x. split; [exact E|].
    pose proof (wf_drop q b Hwf) as W. rewrite E in W. apply wf_cons in W. tauto.
  Qed.

  (* ---------- skipstr ---------- *)
  Lemma skipstr_sim q : q <= e -> sim (b_skipstr b e q) (gstring (drop q b)).
  Proof.
    intros Hq. unfold b_skipstr, gstring. rewrite hasn_le, len_drop_b.
    destruct (N.leb_spec (q + 4) e); destruct (N.leb_spec 4 (e - q)); try lia;
      [|cbn; discriminate].
    rewrite ld32_ok by (rewrite hasn_le, len_drop_b; apply N.leb_le; lia). cbn [bind].
    pose proof (unbe4_lt (drop q b) (wf_drop q b Hwf)) as Hu.
    set (u := unbe (take 4 (drop q b))) in *.
    rewrite i32_neg by exact Hu.
    destruct (N.leb_spec two31 u); [cbn; discriminate|].
    rewrite i32_small by assumption. rewrite N2Z.id.
    rewrite hasn_le, len_drop, len_drop_b.
    destruct (N.leb_spec (q + (4 + u)) e); destruct (N.leb_spec u (e - q - 4)); try lia; cbn;
      [reflexivity|discriminate].
  Qed.

  (* ---------- LIST/SET slow path ---------- *)
  Section ListLoop.
    Variables (p : N) (ef : N -> res N) (eR : bytes -> pres).
    Hypothesis HE : forall q, q < e -> sim (ef q) (eR (drop q b)).
    Hypothesis GE : good eR.
    Hypothesis NE : nocrash eR.

    Lemma list_loop_sim : forall fuel1 fuel2 cnt i,
      p + i <= e -> e < p + i + N.of_nat fuel1 -> (length (drop (p + i) b) < fuel2)%nat ->
      simL i (b_list_loop ef e p fuel1 cnt i) (gelems fuel2 eR cnt (drop (p + i) b)).
    Proof.
      induction fuel1 as [|f IH]; intros fuel2 cnt i Hi Hf1 Hf2; [lia|].
      cbn [b_list_loop].
      destruct fuel2 as [|f2]; [lia|]. cbn [gelems].
      destruct (N.eqb_spec cnt 0) as [->|Hc]. { unfold simL. lia. }
      destruct (N.leb_spec e (p + i)) as [Hend|Hin].
      - rewrite (drop_all (p + i) b) by (rewrite <- He; lia).
        destruct (good_nil_err eR GE NE) as [er Er]. rewrite Er. cbn. discriminate.
      - specialize (HE (p + i) Hin). unfold sim in HE.
        destruct (ef (p + i)) as [vi|c| |]; destruct (eR (drop (p + i) b)) as [[n h]|er| |] eqn:ER;
          try contradiction; cbn [bind].
        + subst vi. pose proof (GE _ _ _ ER) as Gb. rewrite len_drop_b in Gb.
          rewrite drop_plus. rewrite N.pred_sub.
          specialize (IH f2 (cnt - 1) (i + n)).
          replace (p + (i + n)) with (p + i + n) in IH by lia.
          assert (Hl : (length (drop (p + i + n) b) < f2)%nat).
          { unfold drop in *. rewrite skipn_length in *. unfold len in *. lia. }
          specialize (IH ltac:(lia) ltac:(lia) Hl).
          unfold simL in *.
          destruct (b_list_loop ef e p f (cnt - 1) (i + n)) as [i'|c| |];
            destruct (gelems f2 eR (cnt - 1) (drop (p + i + n) b)) as [[m hm]|er| |];
            try contradiction; cbn [bind]; [lia|exact IH].
        + cbn. exact HE.
    Qed.
  End ListLoop.

  (* ---------- MAP slow path ---------- *)
  Section MapLoop.
    Variables (p : N) (kf vf : N -> res N) (kR vR : bytes -> pres).
    Hypothesis HK : forall q, q < e -> wsim e q (kf q) (kR (drop q b)).
    Hypothesis HV : forall q, q < e -> wsim e q (vf q) (vR (drop q b)).
    Hypothesis GK : good kR.
    Hypothesis GV : good vR.
    Hypothesis NK : nocrash kR.
    Hypothesis NV : nocrash vR.

    Lemma map_loop_sim : forall fuel1 fuel2 cnt i,
      p + i <= e -> e < p + i + N.of_nat fuel1 -> (length (drop (p + i) b) < fuel2)%nat ->
      wsimL e p i (b_map_loop kf vf e p fuel1 cnt i) (gelems fuel2 (gpair kR vR) cnt (drop (p + i) b)).
    Proof.
      induction fuel1 as [|f IH]; intros fuel2 cnt i Hi Hf1 Hf2; [lia|].
      cbn [b_map_loop].
      destruct fuel2 as [|f2]; [lia|]. cbn [gelems].
      destruct (N.eqb_spec cnt 0) as [->|Hc]. { unfold wsimL. lia. }
      unfold gpair at 1.
      destruct (N.leb_spec e (p + i)) as [Hend|Hin].
      { rewrite (drop_all (p + i) b) by (rewrite <- He; lia).
        destruct (good_nil_err kR GK NK) as [er Er]. rewrite Er. cbn. discriminate. }
      pose proof (HK (p + i) Hin) as HKq. unfold wsim in HKq.
      destruct (kf (p + i)) as [ki|c| |]; destruct (kR (drop (p + i) b)) as [[n h]|er| |] eqn:ER;
        try contradiction; cbn [bind].
      2:{ (* key over-reported: the check before the value rejects *)
          destruct (N.leb_spec e (p + (i + ki))); [cbn; discriminate|lia]. }
      2:{ cbn. exact HKq. }
      subst ki. pose proof (GK _ _ _ ER) as Gb. rewrite len_drop_b in Gb.
      rewrite drop_plus.
      destruct (N.leb_spec e (p + (i + n))) as [Hend|Hin2].
      { rewrite (drop_all (p + i + n) b) by (rewrite <- He; lia).
        destruct (good_nil_err vR GV NV) as [er Er]. rewrite Er. cbn. discriminate. }
      pose proof (HV (p + (i + n))) as HVq. specialize (HVq ltac:(lia)). unfold wsim in HVq.
      replace (p + (i + n)) with (p + i + n) in * by lia.
      destruct (vf (p + i + n)) as [vi|c| |]; destruct (vR (drop (p + i + n) b)) as [[m hm]|er| |] eqn:ERV;
        try contradiction; cbn [bind].
      3:{ cbn. exact HVq. }
      2:{ (* value over-reported: the next iteration (or the final check) rejects *)
          destruct f as [|f']; [lia|]. cbn [b_map_loop].
          destruct (N.eqb_spec (cnt - 1) 0); [cbn; lia|].
          destruct (N.leb_spec e (p + (i + n + vi))); [cbn; discriminate|lia]. }
      subst vi. pose proof (GV _ _ _ ERV) as Gb2. rewrite len_drop_b in Gb2.
      rewrite drop_plus. rewrite N.pred_sub.
      specialize (IH f2 (cnt - 1) (i + n + m)).
      replace (p + (i + n + m)) with (p + i + (n + m)) in IH by lia.
      assert (Hl : (length (drop (p + i + (n + m)) b) < f2)%nat).
      { unfold drop in *. rewrite skipn_length in *. unfold len in *. lia. }
      specialize (IH ltac:(lia) ltac:(lia) Hl).
      unfold wsimL in *.
      destruct (b_map_loop kf vf e p f (cnt - 1) (i + n + m)) as [i'|c| |];
        destruct (gelems f2 (gpair kR vR) (cnt - 1) (drop (p + i + (n + m)) b)) as [[x hx]|er| |];
        try contradiction; cbn [bind]; [lia|exact IH|exact IH].
    Qed.
  End MapLoop.

  (* ---------- STRUCT ---------- *)
  Section StructLoop.
    Variables (p : N) (fld : N -> N -> res N) (eR : N -> bytes -> pres).
    Hypothesis HF : forall ft q, ft < 256 -> q < e -> wsim e q (fld ft q) (eR ft (drop q b)).
    Hypothesis GF : forall ft, good (eR ft).
    Hypothesis NF : forall ft, nocrash (eR ft).

    Lemma struct_loop_sim : forall fuel1 fuel2 i,
      p + i <= e -> e < p + i + N.of_nat fuel1 -> (length (drop (p + i) b) < fuel2)%nat ->
      simL i (b_struct_loop fld b e p fuel1 i) (gfields fuel2 eR (drop (p + i) b)).
    Proof.
      induction fuel1 as [|f IH]; intros fuel2 i Hi Hf1 Hf2; [lia|].
      cbn [b_struct_loop]. destruct fuel2 as [|f2]; [lia|]. cbn [gfields].
      destruct (N.leb_spec e (p + i)) as [Hend|Hin].
      { rewrite (drop_all (p + i) b) by (rewrite <- He; lia). cbn. discriminate. }
      destruct (drop_b_cons (p + i) Hin) as [ft [D Hft]]. rewrite D.
      rewrite (ld8_ok b (p + i) ft _ D). cbn [bind].
      destruct (is_ty_ok ft Hft) as (_&_&_&_&_&Hstop). rewrite Hstop.
      destruct (ft =? T_STOP). { unfold simL. lia. }
      rewrite hasn_le, len_drop_b.
      destruct (N.leb_spec 2 (e - (p + i + 1))) as [H2|H2].
      2:{ destruct (N.leb_spec e (p + (i + 1 + 2))); [cbn; discriminate|lia]. }
      rewrite drop_plus.
      destruct (N.leb_spec e (p + (i + 1 + 2))) as [Hend|Hin3].
      { rewrite (drop_all (p + i + 1 + 2) b) by (rewrite <- He; lia).
        destruct (good_nil_err (eR ft) (GF ft) (NF ft)) as [er Er]. rewrite Er. cbn. discriminate. }
      pose proof (HF ft (p + (i + 1 + 2)) Hft Hin3) as HFq. unfold wsim in HFq.
      replace (p + (i + 1 + 2)) with (p + i + 1 + 2) in * by lia.
      destruct (fld ft (p + i + 1 + 2)) as [fi|c| |];
        destruct (eR ft (drop (p + i + 1 + 2) b)) as [[n h]|er| |] eqn:ER; try contradiction; cbn [bind].
      3:{ cbn. exact HFq. }
      2:{ destruct f as [|f']; [lia|]. cbn [b_struct_loop].
          destruct (N.leb_spec e (p + (i + 1 + 2 + fi))); [cbn; discriminate|lia]. }
      subst fi. pose proof (GF ft _ _ _ ER) as Gb. rewrite len_drop_b in Gb.
      rewrite drop_plus.
      specialize (IH f2 (i + 1 + 2 + n)).
      replace (p + (i + 1 + 2 + n)) with (p + i + 1 + 2 + n) in IH by lia.
      assert (Hl : (length (drop (p + i + 1 + 2 + n) b) < f2)%nat).
      { unfold drop in *. rewrite skipn_length in *. unfold len in *. lia. }
      specialize (IH ltac:(lia) ltac:(lia) Hl).
      unfold simL in *.
      destruct (b_struct_loop fld b e p f (i + 1 + 2 + n)) as [i'|c| |];
        destruct (gfields f2 eR (drop (p + i + 1 + 2 + n) b)) as [[m hm]|er| |];
        try contradiction; cbn [bind]; [lia|exact IH].
    Qed.
  End StructLoop.

  (* ---------- one member ---------- *)
  Section Member.
    Variables (self : N -> N -> res N) (rec : N -> bytes -> pres).
    Hypothesis HS : forall q t, t < 256 -> q <= e -> sim (self q t) (rec t (drop q b)).

    Lemma belem_wsim t q : t < 256 -> q <= e ->
      wsim e q (b_elem self b e (Z.of_N (fixed_width t)) t q) (member true true rec t (drop q b)).
    Proof.
      intros Ht Hq. unfold b_elem, member. rewrite fixed_width_pos.
      destruct (is_ty_ok t Ht) as (Hs&_). rewrite Hs. cbn [andb].
      destruct (is_fixed t) eqn:F; cbn [orb].
      - unfold is_fixed in F. destruct (kind_of t) eqn:K; try discriminate.
        rewrite (leaf_fixed t width K). unfold fixedp, fixed_width. rewrite K, N2Z.id.
        rewrite hasn_le, len_drop_b. unfold wsim.
        destruct (N.leb_spec width (e - q)); [reflexivity|lia].
      - destruct (is_str t) eqn:S.
        + unfold is_str in S. destruct (kind_of t) eqn:K; try discriminate.
          rewrite (leaf_str t K). apply sim_wsim, skipstr_sim, Hq.
        + apply sim_wsim, HS; assumption.
    Qed.

    Lemma belem_sim t q : t < 256 -> q <= e -> is_fixed t = false ->
      sim (b_elem self b e (Z.of_N (fixed_width t)) t q) (member true true rec t (drop q b)).
    Proof.
      intros Ht Hq F. unfold b_elem, member. rewrite fixed_width_pos, F.
      destruct (is_ty_ok t Ht) as (Hs&_). rewrite Hs. cbn [andb orb].
      destruct (is_str t) eqn:S.
      - unfold is_str in S. destruct (kind_of t) eqn:K; try discriminate.
        rewrite (leaf_str t K). apply skipstr_sim, Hq.
      - apply HS; assumption.
    Qed.

    Lemma bfield_wsim ft q : ft < 256 -> q < e ->
      wsim e q (b_field self b e ft q) (member true true rec ft (drop q b)).
    Proof.
      intros Ht Hq. unfold b_field. rewrite (tts_ok SBinary ft Ht). cbn [bind].
      apply belem_wsim; [assumption|lia].
    Qed.
  End Member.

  (* ---------- skipType ---------- *)
  Variable fu : nat.
  Hypothesis Hfu : (length b < fu)%nat.

  Lemma mem_good d t : good (member true true (rp inl_all d) t).
  Proof. apply member_good, rp_good. Qed.
  Lemma mem_nocrash d t : nocrash (member true true (rp inl_all d) t).
  Proof. apply member_nocrash, rp_nocrash. Qed.

  Lemma member_fixed_ext rec t w : kind_of t = KFixed w -> forall r, member true true rec t r = fixedp w r.
  Proof.
    intros K r. unfold member, is_fixed. rewrite K. cbn [andb orb]. apply leaf_fixed, K.
  Qed.

  Lemma fuel_ok q : q <= e -> e < q + N.of_nat fu.
  Proof. intros H. rewrite He in *. unfold len in *. lia. Qed.

  Lemma bskip_sim : forall d p t, t < 256 -> p <= e ->
    sim (bskip d b e fu p t) (rp inl_all d t (drop p b)).
  Proof.
    induction d as [|d IH]; intros p t Ht Hp.
    { cbn. discriminate. }
    rewrite rp_S. cbn [bskip]. rewrite (tts_ok SBinary t Ht). cbn [bind]. rewrite fixed_width_pos.
    destruct (is_ty_ok t Ht) as (Hs&Hm&Hl&_&Hst&_). rewrite Hs, Hm, Hl, Hst. clear Hs Hm Hl Hst.
    unfold lvl, is_fixed, is_str, is_map, is_list, is_struct, fixed_width.
    destruct (kind_of t) eqn:K; cbv beta iota.
    - (* fixed *)
      rewrite N2Z.id, hasn_le, len_drop_b. pose proof (kind_fixed_pos _ _ K).
      destruct (N.ltb_spec e (p + width)); destruct (N.leb_spec width (e - p)); try slia; cbn;
        [discriminate|reflexivity].
    - apply skipstr_sim, Hp.
    - (* struct *)
      pose proof (struct_loop_sim p (b_field (fun q t' => bskip d b e fu q t') b e)
                    (rp_es inl_all (rp inl_all d))) as L.
      specialize (L ltac:(intros ft q Hft Hq; apply bfield_wsim; [exact IH|exact Hft|exact Hq])
                    ltac:(intros ft; apply mem_good) ltac:(intros ft; apply mem_nocrash)
                    fu (S (length (drop p b))) 0).
      rewrite N.add_0_r in L. specialize (L Hp (fuel_ok p Hp) ltac:(slia)).
      unfold simL in L. unfold sim.
      destruct (b_struct_loop _ b e p fu 0) as [i'|c| |]; try contradiction;
        destruct (gfields _ _ (drop p b)) as [[n h]|er| |]; try contradiction; cbn [bind]; [slia|exact L].
    - (* map *)
      set (F := S (length (drop p b))).
      assert (HF : forall k, (length (drop (p + k) b) < F)%nat)
        by (intros k; subst F; unfold drop; rewrite !skipn_length; slia).
      destruct (N.ltb_spec e (p + 6)) as [Hshort|Hlong].
      { destruct (drop p b) as [|kt [|vt r2]] eqn:D; try (cbn; discriminate).
        pose proof (len_drop_b p) as Ld. rewrite D, !len_cons in Ld.
        rewrite hasn_le. destruct (N.leb_spec 4 (len r2)); [slia|cbn; discriminate]. }
      destruct (drop_b_cons p ltac:(slia)) as [kt [D1 Hkt]].
      destruct (drop_b_cons (p + 1) ltac:(slia)) as [vt [D2 Hvt]].
      rewrite D1, D2. replace (p + 1 + 1) with (p + 2) by slia.
      rewrite (ld8_ok b p kt _ D1), (ld8_ok b (p + 1) vt _ D2). cbn [bind].
      assert (H4 : hasn (drop (p + 2) b) 4 = true).
      { rewrite hasn_le, len_drop_b. apply N.leb_le. slia. }
      rewrite H4, (ld32_ok b (p + 2) H4). cbn [bind]. cbv zeta.
      pose proof (unbe4_lt (drop (p + 2) b) (wf_drop (p + 2) b Hwf)) as Hu.
      set (u := unbe (take 4 (drop (p + 2) b))) in *.
      rewrite i32_neg by exact Hu.
      destruct (N.leb_spec two31 u) as [Hneg|Hpos]; [cbn; discriminate|].
      rewrite i32_small by exact Hpos.
      rewrite (tts_ok SBinary kt Hkt), (tts_ok SBinary vt Hvt). cbn [bind].
      rewrite !fixed_width_pos. rewrite drop_plus. replace (p + 2 + 4) with (p + 6) by slia.
      unfold rp_em, rp_m. cbn [inl_all in_map_fixed in_map_str]. rewrite Bool.orb_true_r.
      destruct (is_fixed kt && is_fixed vt) eqn:FF.
      + (* fast path *)
        apply andb_true_iff in FF as [Fk Fv]. unfold is_fixed in Fk, Fv.
        destruct (kind_of kt) as [kw| | | | |] eqn:Kk; try discriminate.
        destruct (kind_of vt) as [vw| | | | |] eqn:Kv; try discriminate.
        unfold fixed_width. rewrite Kk, Kv.
        rewrite (gelems_ext _ _ (fixedp (kw + vw))).
        2:{ intros r. rewrite <- gpair_fixed. apply gpair_ext; apply member_fixed_ext; assumption. }
        pose proof (kind_fixed_pos _ _ Kk). pose proof (kind_fixed_pos _ _ Kv).
        rewrite gelems_fixed; [|slia|apply HF].
        rewrite <- N2Z.inj_add, <- N2Z.inj_mul, N2Z.id.
        rewrite hasn_le, len_drop_b.
        destruct (N.ltb_spec e (p + (6 + u * (kw + vw)))); destruct (N.leb_spec (u * (kw + vw)) (e - (p + 6)));
          try slia; cbn; [discriminate|reflexivity].
      + (* slow path *)
        rewrite N2Z.id.
        pose proof (map_loop_sim p
           (b_elem (fun q t' => bskip d b e fu q t') b e (Z.of_N (fixed_width kt)) kt)
           (b_elem (fun q t' => bskip d b e fu q t') b e (Z.of_N (fixed_width vt)) vt)
           (member true true (rp inl_all d) kt) (member true true (rp inl_all d) vt)) as L.
        specialize (L ltac:(intros q Hq; apply belem_wsim; [exact IH|exact Hkt|slia])
                      ltac:(intros q Hq; apply belem_wsim; [exact IH|exact Hvt|slia])
                      (mem_good d kt) (mem_good d vt) (mem_nocrash d kt) (mem_nocrash d vt)
                      fu F u 6).
        specialize (L ltac:(slia) (fuel_ok (p + 6) ltac:(slia)) (HF 6)).
        unfold wsimL in L. unfold sim.
        destruct (b_map_loop _ _ e p fu u 6) as [i'|c| |]; try contradiction;
          destruct (gelems _ _ u (drop (p + 6) b)) as [[n h]|er| |] eqn:EG; try contradiction; cbn [bind].
        * apply gelems_bound in EG; [|apply gpair_good; apply mem_good]. rewrite len_drop_b in EG.
          destruct (N.ltb_spec e (p + i')); [slia|]. slia.
        * destruct (N.ltb_spec e (p + i')); [discriminate|slia].
        * exact L.
    - (* list / set *)
      set (F := S (length (drop p b))).
      assert (HF : forall k, (length (drop (p + k) b) < F)%nat)
        by (intros k; subst F; unfold drop; rewrite !skipn_length; slia).
      destruct (N.ltb_spec e (p + 5)) as [Hshort|Hlong].
      { destruct (drop p b) as [|et r1] eqn:D; try (cbn; discriminate).
        pose proof (len_drop_b p) as Ld. rewrite D, !len_cons in Ld.
        rewrite hasn_le. destruct (N.leb_spec 4 (len r1)); [slia|cbn; discriminate]. }
      destruct (drop_b_cons p ltac:(slia)) as [et [D1 Het]].
      rewrite D1. rewrite (ld8_ok b p et _ D1). cbn [bind].
      assert (H4 : hasn (drop (p + 1) b) 4 = true).
      { rewrite hasn_le, len_drop_b. apply N.leb_le. slia. }
      rewrite H4, (ld32_ok b (p + 1) H4). cbn [bind]. cbv zeta.
      pose proof (unbe4_lt (drop (p + 1) b) (wf_drop (p + 1) b Hwf)) as Hu.
      set (u := unbe (take 4 (drop (p + 1) b))) in *.
      rewrite i32_neg by exact Hu.
      destruct (N.leb_spec two31 u) as [Hneg|Hpos]; [cbn; discriminate|].
      rewrite i32_small by exact Hpos.
      rewrite (tts_ok SBinary et Het). cbn [bind].
      rewrite !fixed_width_pos. rewrite drop_plus. replace (p + 1 + 4) with (p + 5) by slia.
      unfold rp_el. cbn [inl_all in_list_str].
      destruct (is_fixed et) eqn:Fe.
      + unfold is_fixed in Fe. destruct (kind_of et) as [w| | | | |] eqn:Ke; try discriminate.
        unfold fixed_width. rewrite Ke.
        rewrite (gelems_ext _ _ (fixedp w)) by (apply member_fixed_ext; assumption).
        pose proof (kind_fixed_pos _ _ Ke).
        rewrite gelems_fixed; [|slia|apply HF].
        rewrite <- N2Z.inj_mul, N2Z.id.
        rewrite hasn_le, len_drop_b.
        destruct (N.ltb_spec e (p + (5 + u * w))); destruct (N.leb_spec (u * w) (e - (p + 5)));
          try slia; cbn; [discriminate|reflexivity].
      + rewrite N2Z.id.
        pose proof (list_loop_sim p
           (b_elem (fun q t' => bskip d b e fu q t') b e (Z.of_N (fixed_width et)) et)
           (member true true (rp inl_all d) et)) as L.
        specialize (L ltac:(intros q Hq; apply belem_sim; [exact IH|exact Het|slia|exact Fe])
                      (mem_good d et) (mem_nocrash d et)
                      fu F u 5).
        specialize (L ltac:(slia) (fuel_ok (p + 5) ltac:(slia)) (HF 5)).
        unfold simL in L. unfold sim.
        destruct (b_list_loop _ e p fu u 5) as [i'|c| |]; try contradiction;
          destruct (gelems _ _ u (drop (p + 5) b)) as [[n h]|er| |]; try contradiction; cbn [bind];
          [slia|exact L].
    - cbn. discriminate.
  Qed.
End Buf.

(* ---------- the entry points ---------- *)
Lemma skip_type_depth_sim b t d : wf b -> t < 256 ->
  sim (skip_type_depth b t d) (rp inl_all d t b).
Proof.
  intros Hwf Ht. unfold skip_type_depth.
  pose proof (bskip_sim b Hwf (len b) eq_refl (S (length b)) ltac:(lia) d 0 t Ht ltac:(lia)) as H.
  exact H.
Qed.

Lemma binary_skip_sim b t : wf b -> t < 256 -> sim (binary_skip b t) (rp inl_all 64 t b).
Proof.
  intros Hwf Ht. unfold binary_skip. rewrite depth_ok.
  destruct (N.eqb_spec (len b) 0) as [E|E]; [|apply skip_type_depth_sim; assumption].
  destruct b; [|rewrite len_cons in E; lia].
  destruct (good_nil_err (rp inl_all 64 t) (rp_good _ _ _) (rp_nocrash _ _ _)) as [er Er].
  rewrite Er. cbn. discriminate.
Qed.

Lemma sim_ok x y n : sim x y -> (x = Ok n <-> exists h, y = Ok (n, h)).
Proof.
  unfold sim. destruct x, y as [[n' h']| | |]; try tauto; intros H; split; try discriminate.
  - intros E. exists h'. congruence.
  - intros [h E]. congruence.
  - intros [h E]. discriminate.
Qed.

(* accepts exactly when the reference does, with the same extent *)
Theorem bskip_is_ref b t n : wf b -> t < 256 ->
  (binary_skip b t = Ok n <-> refparse inl_all 64 t b = Ok n).
Proof.
  intros Hwf Ht. rewrite ref_inv. apply sim_ok, binary_skip_sim; assumption.
Qed.

Theorem bskip_depth_is_ref b t d n : wf b -> t < 256 ->
  (skip_type_depth b t d = Ok n <-> refparse inl_all d t b = Ok n).
Proof.
  intros Hwf Ht. rewrite ref_inv. apply sim_ok, skip_type_depth_sim; assumption.
Qed.

(* never a panic, never a load outside the slice, never out of fuel: either Ok or a real error *)
Theorem bskip_safe b t : wf b -> t < 256 -> safe (binary_skip b t).
Proof.
  intros Hwf Ht. pose proof (binary_skip_sim b t Hwf Ht) as H. unfold sim, safe in *.
  destruct (binary_skip b t); try exact I; destruct (rp inl_all 64 t b) as [[? ?]| | |]; contradiction.
Qed.

Theorem bskip_total b t : wf b -> t < 256 ->
  (exists n, binary_skip b t = Ok n) \/ (exists c, binary_skip b t = Err c /\ c <> e_fuel).
Proof.
  intros Hwf Ht. pose proof (binary_skip_sim b t Hwf Ht) as H. unfold sim in *.
  destruct (binary_skip b t) as [n|c| |]; [left; eauto| |contradiction|contradiction].
  right. exists c. split; [reflexivity|]. destruct (rp inl_all 64 t b) as [[? ?]| | |]; tauto.
Qed.

Theorem bskip_bounded b t n : wf b -> t < 256 -> binary_skip b t = Ok n -> 1 <= n <= len b.
Proof.
  intros Hwf Ht E. apply (sim_ok _ _ n (binary_skip_sim b t Hwf Ht)) in E as [h E].
  eapply rp_good; eauto.
Qed.
