(* Proofs/BufWriterP.v — the stitch invariant of the buffered writer (DESIGN A.2, property C05):
   the logical unflushed string [Lof], the chain of parked buffers, region ownership, and the
   lemmas saying how growth, bumping the length, a caller store and the Flush loop act on them. *)
From GV Require Import Lib.Bytes Lib.Res Lib.Heap Gen.Consts Spec.Log Model.BufWriter Proofs.BufWriterLib.
From Coq Require Import ZifyN ZifyNat ZifyBool.
Open Scope N_scope.

Lemma bufsz_pos : 0 < bufsz.
Proof. reflexivity. Qed.

(* ---------- heap facts ---------- *)
Lemma block_write_eq h id p v :
  (id < length h)%nat -> block (write h (id, p) v) id = psplice (block h id) p v.
Proof. intros H. unfold write, block. rewrite nth_set_nth_eq by assumption. reflexivity. Qed.

Lemma block_write_ne h id p v j : j <> id -> block (write h (id, p) v) j = block h j.
Proof. intros H. unfold write, block. apply nth_set_nth_ne. congruence. Qed.

Lemma length_write h id p v : length (write h (id, p) v) = length h.
Proof. unfold write. apply set_nth_length. Qed.

Lemma write_nil h id p : write h (id, p) [] = h.
Proof.
  unfold write. change (splice (block h id) p []) with (psplice (block h id) p []).
  rewrite psplice_nil. unfold block. apply set_nth_same.
Qed.

Lemma len_block_write h id p v j :
  (id < length h)%nat -> p + len v <= len (block h id) ->
  len (block (write h (id, p) v) j) = len (block h j).
Proof.
  intros Hid Hp. destruct (Nat.eq_dec j id) as [->|Hne].
  - rewrite block_write_eq by assumption. now apply len_psplice.
  - now rewrite block_write_ne.
Qed.

Lemma block_alloc_old h x j : (j < length h)%nat -> block (h ++ [x]) j = block h j.
Proof. intros H. unfold block. now apply app_nth1. Qed.

Lemma block_alloc_new h x : block (h ++ [x]) (length h) = x.
Proof. unfold block. apply nth_app_new. Qed.

(* ---------- the logical string ---------- *)
(* parked buffer j holds L[l_(j-1) : l_j] at those offsets, the current buffer holds the rest *)
Fixpoint stitched (h : heap) (pd : list (nat * N)) (from : N) (c : nat) (l : N) : bytes :=
  match pd with
  | [] => take (l - from) (drop from (block h c))
  | (b, lb) :: rest => take (lb - from) (drop from (block h b)) ++ stitched h rest lb c l
  end.

Definition Lof (st : wstate) : bytes :=
  match cur st with
  | None => []
  | Some (c, l) => stitched (store st) (pend st) 0 c l
  end.

(* lengths are ordered and inside their blocks, all blocks are distinct *)
Fixpoint chain (h : heap) (pd : list (nat * N)) (from : N) (c : nat) (l : N) : Prop :=
  match pd with
  | [] => from <= l /\ l <= len (block h c) /\ (c < length h)%nat
  | (b, lb) :: rest =>
    from <= lb /\ lb <= len (block h b) /\ (b < length h)%nat /\ b <> c /\ ~ In b (map fst rest) /\
    chain h rest lb c l
  end.

(* block [id] is the one that holds the logical range [a, b) *)
Fixpoint owns (pd : list (nat * N)) (from : N) (c : nat) (l : N) (id : nat) (a b : N) : Prop :=
  match pd with
  | [] => id = c /\ from <= a /\ b <= l
  | (pb, lb) :: rest => (id = pb /\ from <= a /\ b <= lb) \/ owns rest lb c l id a b
  end.

Lemma chain_le h pd : forall from c l, chain h pd from c l -> from <= l.
Proof.
  induction pd as [|[b lb] rest IH]; intros from c l H; cbn [chain] in H.
  - tauto.
  - destruct H as (H1 & _ & _ & _ & _ & H6). specialize (IH _ _ _ H6). lia.
Qed.

Lemma chain_cur h pd : forall from c l, chain h pd from c l -> l <= len (block h c) /\ (c < length h)%nat.
Proof.
  induction pd as [|[b lb] rest IH]; intros from c l H; cbn [chain] in H.
  - tauto.
  - destruct H as (_ & _ & _ & _ & _ & H6). eapply IH, H6.
Qed.

Lemma chain_in h pd : forall from c l b, chain h pd from c l -> In b (map fst pd) -> (b < length h)%nat /\ b <> c.
Proof.
  induction pd as [|[b0 lb] rest IH]; intros from c l b H Hin; cbn [chain map In fst] in *.
  - contradiction.
  - destruct H as (_ & _ & H3 & H4 & _ & H6). destruct Hin as [<-|Hin]; [tauto|]. eapply IH; eassumption.
Qed.

Lemma stitched_len h pd : forall from c l, chain h pd from c l -> len (stitched h pd from c l) = l - from.
Proof.
  induction pd as [|[b lb] rest IH]; intros from c l H; cbn [chain stitched] in *.
  - rewrite len_take, len_drop. lia.
  - destruct H as (H1 & H2 & _ & _ & _ & H6). rewrite len_app, (IH _ _ _ H6), len_take, len_drop.
    pose proof (chain_le _ _ _ _ _ H6). lia.
Qed.

(* the string depends only on the parked blocks and on the current block beyond [from] *)
Lemma stitched_ext h h' pd : forall from c l,
  (forall b, In b (map fst pd) -> block h' b = block h b) ->
  drop from (block h' c) = drop from (block h c) ->
  chain h pd from c l ->
  stitched h' pd from c l = stitched h pd from c l.
Proof.
  induction pd as [|[b lb] rest IH]; intros from c l Hb Hc Hch; cbn [stitched chain map fst In] in *.
  - now rewrite Hc.
  - destruct Hch as (H1 & _ & _ & _ & _ & H6).
    rewrite (Hb b) by (left; reflexivity). f_equal.
    apply IH; [intros b' Hb'; apply Hb; now right | | exact H6].
    replace lb with (from + (lb - from)) by lia. rewrite <- !drop_drop. now rewrite Hc.
Qed.

(* chain only depends on the lengths of the blocks *)
Lemma chain_len_ext h h' pd : forall from c l,
  (forall j, len (block h' j) = len (block h j)) -> length h' = length h ->
  chain h pd from c l -> chain h' pd from c l.
Proof.
  induction pd as [|[b lb] rest IH]; intros from c l Hl Hn H; cbn [chain] in *.
  - rewrite Hl, Hn. exact H.
  - destruct H as (H1 & H2 & H3 & H4 & H5 & H6). rewrite Hl, Hn. repeat split; auto.
Qed.

(* growth: the current buffer is parked, a fresh block becomes current; nothing is copied *)
Lemma chain_park h pd x : forall from c l,
  chain h pd from c l -> l <= len x -> chain (h ++ [x]) (pd ++ [(c, l)]) from (length h) l.
Proof.
  induction pd as [|[b lb] rest IH]; intros from c l H Hx; cbn [chain app map fst In] in *.
  - destruct H as (H1 & H2 & H3).
    rewrite block_alloc_old by assumption. rewrite block_alloc_new, app_length. cbn [length].
    repeat split; try lia; tauto.
  - destruct H as (H1 & H2 & H3 & H4 & H5 & H6).
    rewrite block_alloc_old by assumption. rewrite app_length. cbn [length].
    repeat split; try lia.
    + rewrite map_app, in_app_iff. cbn [map fst In]. intros [Hi|[Hi|[]]]; [tauto | congruence].
    + apply IH; assumption.
Qed.

Lemma stitched_park h pd x : forall from c l,
  chain h pd from c l ->
  stitched (h ++ [x]) (pd ++ [(c, l)]) from (length h) l = stitched h pd from c l.
Proof.
  induction pd as [|[b lb] rest IH]; intros from c l H; cbn [chain app stitched] in *.
  - destruct H as (H1 & H2 & H3). rewrite block_alloc_old by assumption.
    rewrite N.sub_diag, take_0. apply app_nil_r.
  - destruct H as (H1 & H2 & H3 & H4 & H5 & H6). rewrite block_alloc_old by assumption.
    f_equal. now apply IH.
Qed.

(* Malloc / WriteBinary move the length forward inside the current block *)
Lemma chain_bump h pd n : forall from c l,
  chain h pd from c l -> l + n <= len (block h c) -> chain h pd from c (l + n).
Proof.
  induction pd as [|[b lb] rest IH]; intros from c l H Hn; cbn [chain] in *.
  - repeat split; try tauto; lia.
  - destruct H as (H1 & H2 & H3 & H4 & H5 & H6). repeat split; auto.
Qed.

Lemma stitched_bump h pd n : forall from c l,
  chain h pd from c l ->
  stitched h pd from c (l + n) = stitched h pd from c l ++ take n (drop l (block h c)).
Proof.
  induction pd as [|[b lb] rest IH]; intros from c l H; cbn [chain stitched] in *.
  - destruct H as (H1 & _).
    replace (l + n - from) with ((l - from) + n) by lia. rewrite take_add, drop_drop.
    replace (from + (l - from)) with l by lia. reflexivity.
  - destruct H as (_ & _ & _ & _ & _ & H6). rewrite (IH _ _ _ H6). now rewrite app_assoc.
Qed.

(* ---------- ownership ---------- *)
Lemma owns_in pd : forall from c l id a b, owns pd from c l id a b -> In id (map fst pd) \/ id = c.
Proof.
  induction pd as [|[pb lb] rest IH]; intros from c l id a b H; cbn [owns map fst In] in *.
  - tauto.
  - destruct H as [(-> & _)|H]; [tauto|]. destruct (IH _ _ _ _ _ _ H); tauto.
Qed.

Lemma owns_ge h pd : forall from c l id a b, chain h pd from c l -> owns pd from c l id a b -> from <= a.
Proof.
  induction pd as [|[pb lb] rest IH]; intros from c l id a b Hc H; cbn [owns chain] in *.
  - tauto.
  - destruct Hc as (H1 & _ & _ & _ & _ & H6). destruct H as [(_ & H & _)|H]; [exact H|].
    specialize (IH _ _ _ _ _ _ H6 H). lia.
Qed.

Lemma owns_bound h pd : forall from c l id a b,
  chain h pd from c l -> owns pd from c l id a b -> (id < length h)%nat /\ b <= len (block h id).
Proof.
  induction pd as [|[pb lb] rest IH]; intros from c l id a b Hc H; cbn [owns chain] in *.
  - destruct H as (-> & _ & H). split; [tauto | lia].
  - destruct Hc as (H1 & H2 & H3 & _ & _ & H6). destruct H as [(-> & _ & H)|H].
    + split; [assumption | lia].
    + eapply IH; eassumption.
Qed.

Lemma owns_sub pd : forall from c l id a b a' b',
  owns pd from c l id a b -> a <= a' -> b' <= b -> owns pd from c l id a' b'.
Proof.
  induction pd as [|[pb lb] rest IH]; intros from c l id a b a' b' H Ha Hb; cbn [owns] in *.
  - intuition lia.
  - destruct H as [(-> & H1 & H2)|H]; [left; intuition lia | right; eapply IH; eassumption].
Qed.

Lemma owns_bump pd : forall from c l l' id a b, owns pd from c l id a b -> l <= l' -> owns pd from c l' id a b.
Proof.
  induction pd as [|[pb lb] rest IH]; intros from c l l' id a b H Hl; cbn [owns] in *.
  - intuition lia.
  - destruct H as [H|H]; [left; exact H | right; eapply IH; eassumption].
Qed.

Lemma owns_park pd : forall from c l c' l' id a b,
  owns pd from c l id a b -> owns (pd ++ [(c, l)]) from c' l' id a b.
Proof.
  induction pd as [|[pb lb] rest IH]; intros from c l c' l' id a b H; cbn [owns app] in *.
  - left. exact H.
  - destruct H as [H|H]; [left; exact H | right; now apply IH].
Qed.

Lemma owns_new h pd n : forall from c l, chain h pd from c l -> owns pd from c (l + n) c l (l + n).
Proof.
  induction pd as [|[pb lb] rest IH]; intros from c l H; cbn [owns chain] in *.
  - intuition lia.
  - right. apply IH. tauto.
Qed.

(* a caller store through a region updates the logical string at the same logical offset *)
Lemma stitched_fill h pd id p v : forall from c l,
  chain h pd from c l -> owns pd from c l id p (p + len v) ->
  stitched (write h (id, p) v) pd from c l = psplice (stitched h pd from c l) (p - from) v.
Proof.
  induction pd as [|[b lb] rest IH]; intros from c l Hc Ho; cbn [stitched].
  - cbn [owns chain] in *. destruct Ho as (-> & Ha & Hb). destruct Hc as (H1 & H2 & H3).
    rewrite block_write_eq by assumption. apply window_psplice_in; lia.
  - pose proof (owns_ge _ _ _ _ _ _ _ _ Hc Ho) as Hge.
    cbn [owns chain] in *. destruct Hc as (H1 & H2 & H3 & H4 & H5 & H6).
    pose proof (chain_le _ _ _ _ _ H6) as Hle.
    destruct Ho as [(-> & Ha & Hb)|Ho].
    + rewrite block_write_eq by assumption.
      rewrite window_psplice_in by lia.
      rewrite (stitched_ext h).
      * rewrite psplice_app_l; [reflexivity|]. rewrite len_take, len_drop. lia.
      * intros b' Hb'. apply block_write_ne. intros ->. contradiction.
      * now rewrite block_write_ne by congruence.
      * exact H6.
    + pose proof (owns_in _ _ _ _ _ _ _ Ho) as Hin.
      pose proof (owns_ge _ _ _ _ _ _ _ _ H6 Ho) as Hge2.
      assert (Hne : b <> id) by (intros ->; destruct Hin as [Hin| ->]; [contradiction | congruence]).
      rewrite block_write_ne by assumption.
      rewrite (IH _ _ _ H6 Ho).
      rewrite psplice_app_r by (rewrite len_take, len_drop; lia).
      rewrite len_take, len_drop. do 2 f_equal. lia.
Qed.

Lemma chain_fill h pd id p v from c l :
  chain h pd from c l -> (id < length h)%nat -> p + len v <= len (block h id) ->
  chain (write h (id, p) v) pd from c l.
Proof.
  intros Hc Hid Hp. eapply chain_len_ext; [ | | exact Hc].
  - intros j. now apply len_block_write.
  - apply length_write.
Qed.

(* ---------- the Flush loop ---------- *)
Lemma take_mid_drop (x : bytes) from l :
  from <= l -> x = take from x ++ take (l - from) (drop from x) ++ drop l x.
Proof.
  intros H. rewrite <- (take_drop from x) at 1. f_equal.
  rewrite <- (take_drop (l - from) (drop from x)) at 1. f_equal.
  rewrite drop_drop. f_equal. lia.
Qed.

Lemma stitch_ok pd : forall h from c l,
  chain h pd from c l ->
  exists h' off, stitch h pd c l from = Ok (h', off) /\
    block h' c = take from (block h c) ++ stitched h pd from c l ++ drop l (block h c) /\
    (forall j, j <> c -> block h' j = block h j) /\ length h' = length h.
Proof.
  induction pd as [|[b lb] rest IH]; intros h from c l Hc; cbn [stitch stitched].
  - cbn [chain] in Hc. exists h, from. repeat split; auto. apply take_mid_drop. tauto.
  - cbn [chain] in Hc. destruct Hc as (H1 & H2 & H3 & H4 & H5 & H6).
    pose proof (chain_le _ _ _ _ _ H6) as Hle. destruct (chain_cur _ _ _ _ _ H6) as (Hlc & Hcl).
    destruct (N.leb_spec from l) as [_|]; [|lia]. destruct (N.leb_spec from lb) as [_|]; [|lia].
    cbn [andb].
    replace (N.min (l - from) (lb - from)) with (lb - from) by lia.
    replace (from + (lb - from)) with lb by lia.
    set (sg := take (lb - from) (drop from (block h b))).
    assert (Hsg : len sg = lb - from) by (unfold sg; rewrite len_take, len_drop; lia).
    set (h1 := write h (c, from) sg).
    assert (Hc1 : block h1 c = (take from (block h c) ++ sg) ++ drop lb (block h c)).
    { unfold h1. rewrite block_write_eq by assumption. unfold psplice. rewrite Hsg.
      replace (from + (lb - from)) with lb by lia. now rewrite app_assoc. }
    assert (Hpl : len (take from (block h c) ++ sg) = lb) by (rewrite len_app, len_take, Hsg; lia).
    assert (Hch1 : chain h1 rest lb c l).
    { unfold h1. apply chain_fill; [exact H6 | exact Hcl | rewrite Hsg; lia]. }
    destruct (IH h1 lb c l Hch1) as (h' & off & E & Eb & Eo & En).
    exists h', off. split; [exact E|]. split; [|split].
    + rewrite Eb.
      assert (Hd : forall k, lb <= k -> drop k (block h1 c) = drop k (block h c)).
      { intros k Hk. rewrite Hc1. rewrite drop_app_ge by lia. rewrite Hpl, drop_drop. f_equal. lia. }
      rewrite (Hd l Hle).
      rewrite (stitched_ext h h1 rest lb c l).
      * rewrite Hc1. rewrite <- Hpl at 1. rewrite take_app_len. unfold sg.
        now rewrite <- !app_assoc.
      * intros b' Hb'. unfold h1. apply block_write_ne.
        destruct (chain_in _ _ _ _ _ _ H6 Hb'). assumption.
      * apply Hd. lia.
      * exact H6.
    + intros j Hj. rewrite (Eo j Hj). unfold h1. now apply block_write_ne.
    + rewrite En. unfold h1. apply length_write.
Qed.

(* after the loop the current buffer's first l bytes are the logical string *)
Lemma stitch_flush h pd c l :
  chain h pd 0 c l ->
  exists h' off, stitch h pd c l 0 = Ok (h', off) /\ take l (block h' c) = stitched h pd 0 c l /\
    (forall j, j <> c -> block h' j = block h j) /\ length h' = length h /\
    len (block h' c) = len (block h c) /\
    block h' c = stitched h pd 0 c l ++ drop l (block h c).
Proof.
  intros Hc. destruct (stitch_ok pd h 0 c l Hc) as (h' & off & E & Eb & Eo & En).
  assert (E0 : len (stitched h pd 0 c l) = l) by (rewrite (stitched_len _ _ _ _ _ Hc); lia).
  exists h', off. repeat split; auto.
  - rewrite Eb. rewrite take_0. cbn [app].
    set (S := stitched h pd 0 c l) in *.
    transitivity (take (len S) (S ++ drop l (block h c))); [now rewrite E0 | apply take_app_len].
  - rewrite Eb. rewrite take_0. cbn [app]. rewrite len_app, E0, len_drop.
    destruct (chain_cur _ _ _ _ _ Hc). lia.
Qed.

(* the Flush loop does not change the logical string (needed when the sink then fails and the
   buffers stay) *)
Lemma stitched_after h h' pd : forall from c l P D,
  chain h pd from c l ->
  (forall j, j <> c -> block h' j = block h j) ->
  block h' c = P ++ stitched h pd from c l ++ D -> len P = from ->
  stitched h' pd from c l = stitched h pd from c l.
Proof.
  induction pd as [|[b lb] rest IH]; intros from c l P D Hc Ho Eb HP; cbn [stitched chain] in *.
  - destruct Hc as (H1 & H2 & _).
    set (S := take (l - from) (drop from (block h c))) in *.
    assert (HS : len S = l - from) by (unfold S; rewrite len_take, len_drop; lia).
    rewrite Eb. rewrite (drop_app_ge P) by lia. replace (from - len P) with 0 by lia. rewrite drop_0.
    transitivity (take (len S) (S ++ D)); [now rewrite HS | apply take_app_len].
  - destruct Hc as (H1 & H2 & H3 & H4 & H5 & H6).
    rewrite (Ho b) by assumption. f_equal.
    apply (IH lb c l (P ++ take (lb - from) (drop from (block h b))) D H6 Ho).
    + rewrite Eb. now rewrite <- !app_assoc.
    + rewrite len_app, len_take, len_drop. lia.
Qed.
