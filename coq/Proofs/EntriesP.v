(* Proofs/EntriesP.v — C03: no buffer-based decoding entry point panics or reads outside its slice, and
   a reported consumed length never exceeds the input, for EVERY byte string and every requested type
   byte.  Each case is the totality / extent lemma of the model its own property ties to the Go code:
     scalar and header readers, message begin   Proofs/BinaryP.v     (C01, C12)
     Binary.Skip                                 Proofs/SkipP.v       (C08)
     BytesSkipDecoder.Next                       Proofs/SkipInstP.v   (C08)   [entry 21, see below]
     Base / BaseResp / ApplicationException      Proofs/FastCodecP.v  (C11)
     UnmarshalFastMsg                            composition, here
     ConvertUnknownFields                        Proofs/UnknownP.v    (C13)
     ttheader.DecodeFromBytes                    Proofs/TTHeaderP.v   (C10)                          *)
From GV Require Import Lib.Bytes Lib.Res Gen.Consts Model.Binary Model.Skip Model.BufReader Model.SkipDecoders
     Model.FastCodec Model.Unknown Model.TTHeader Model.Entries
     Proofs.BinaryP Proofs.SkipP Proofs.FastCodecP Proofs.UnknownP Proofs.TTHeaderP.
From Coq Require Import ZifyN ZifyNat ZifyBool Lia.
Open Scope Z_scope.

(* an outcome pair is fine for an input of length L: not the panic class, and on success the
   reported length is at most L (or -1: none reported) *)
Definition fine (L : N) (r : Z * Z) : Prop := fst r <> 2 /\ (fst r = 0 -> snd r <= Z.of_N L).

Lemma cls_fine {A} (L : N) (r : res A) (n : A -> Z) :
  safe r -> (forall a, r = Ok a -> n a <= Z.of_N L) -> fine L (cls r n).
Proof.
  intros Hs Hb. destruct r as [a|e|w|]; cbn [cls safe] in *; unfold fine; cbn [fst snd].
  - split; [discriminate|]. intros _. apply Hb. reflexivity.
  - split; [discriminate|]. discriminate.
  - contradiction.
  - contradiction.
Qed.

Lemma cls_fine_none {A} (L : N) (r : res A) : safe r -> fine L (cls r (fun _ => -1)).
Proof. intros Hs. apply cls_fine; [exact Hs|]. intros a _. lia. Qed.

Lemma nn_le {A} (L : N) (x : A * N) : (snd x <= L)%N -> nn x <= Z.of_N L.
Proof. unfold nn. lia. Qed.

(* the premises of C11's totality lemmas are C08's theorems *)
Lemma sk_safe : SK_safe_statement.       Proof. exact bskip_safe. Qed.
Lemma sk_bounded : SK_bounded_statement. Proof. exact bskip_bounded. Qed.

Lemma wf_drop n b : wf b -> wf (drop n b).
Proof.
  unfold wf, drop. generalize (N.to_nat n) as k. intros k. revert b.
  induction k as [|k IH]; intros [|x b] H; cbn [skipn]; auto.
  inversion H; subst. apply IH. assumption.
Qed.

Lemma unmarshal_fine {A} (read : bytes -> res (A * N)) b :
  (forall b', wf b' -> safe (read b')) -> wf b ->
  (forall b', wf b' -> safe (fastread_appex b')) ->
  fine (len b) (unmarshal_cls read b).
Proof.
  intros Hread Hw Hax. unfold unmarshal_cls.
  pose proof (r_message_begin_total b) as Hm.
  destruct (r_message_begin b) as [[[[name ty] sq] i]|e|w|] eqn:E; cbn [safe] in Hm;
    try contradiction; try (unfold fine; cbn; split; [discriminate|discriminate]).
  pose proof (r_message_begin_bounded b name ty sq i E) as Hi.
  unfold slice_from. destruct (N.leb_spec i (len b)) as [_|Hc]; [|lia].
  assert (Hw' : wf (drop i b)) by (apply wf_drop; exact Hw).
  destruct (ty =? thrift_EXCEPTION).
  - apply cls_fine_none. apply Hax. exact Hw'.
  - apply cls_fine_none. apply Hread. exact Hw'.
Qed.

(* ---------- every entry point except BytesSkipDecoder (entry 21, added in EntriesBS below) ---------- *)
Theorem run_entry_fine_no21 entry t b :
  wf b -> (Z.of_N t < 256) -> entry <> 21 -> fine (len b) (run_entry entry t b).
Proof.
  intros Hw Ht H21. unfold run_entry.
  assert (Ht' : (t < 256)%N) by lia.
  repeat match goal with
  | |- fine _ (if ?c then _ else _) => destruct c eqn:?
  end;
  try (apply cls_fine; [first [apply r_bool_total|apply r_byte_total|apply r_i16_total|apply r_i32_total
                              |apply r_i64_total|apply r_double_total|apply r_binary_total|apply r_string_total
                              |apply r_field_begin_total|apply r_map_begin_total|apply r_list_begin_total
                              |apply r_set_begin_total|apply r_message_begin_total]
                      | intros a Ea; apply nn_le; destruct a as [v n]; cbn [snd];
                        first [eapply r_bool_bounded; eassumption|eapply r_byte_bounded; eassumption
                              |eapply r_i16_bounded; eassumption|eapply r_i32_bounded; eassumption
                              |eapply r_i64_bounded; eassumption|eapply r_double_bounded; eassumption
                              |eapply r_binary_bounded; eassumption|eapply r_string_bounded; eassumption]]).
  all: try (apply cls_fine; [first [apply r_field_begin_total|apply r_map_begin_total|apply r_list_begin_total
                                   |apply r_set_begin_total|apply r_message_begin_total]|]).
  - intros [[ty id] n] Ea. apply nn_le. cbn [snd]. eapply r_field_begin_bounded; eassumption.
  - intros [[[kt vt] sz] n] Ea. apply nn_le. cbn [snd]. eapply r_map_begin_bounded; eassumption.
  - intros [[et sz] n] Ea. apply nn_le. cbn [snd]. eapply r_list_begin_bounded; eassumption.
  - intros [[et sz] n] Ea. apply nn_le. cbn [snd]. eapply r_set_begin_bounded; eassumption.
  - intros [[[nm ty] sq] n] Ea. apply nn_le. cbn [snd]. eapply r_message_begin_bounded; eassumption.
  - (* Binary.Skip *)
    apply cls_fine; [apply bskip_safe; assumption|].
    intros n En. pose proof (bskip_bounded b t n Hw Ht' En). lia.
  - (* entry 21 *) lia.
  - apply cls_fine; [apply (fastread_base_total sk_safe sk_bounded); exact Hw|].
    intros [p n] Ea. apply nn_le. cbn [snd]. eapply (fastread_base_bounded sk_safe sk_bounded); eassumption.
  - apply cls_fine; [apply (fastread_baseresp_total sk_safe sk_bounded); exact Hw|].
    intros [p n] Ea. apply nn_le. cbn [snd]. eapply (fastread_baseresp_bounded sk_safe sk_bounded); eassumption.
  - apply cls_fine; [apply (fastread_appex_total sk_safe sk_bounded); exact Hw|].
    intros [p n] Ea. apply nn_le. cbn [snd]. eapply (fastread_appex_bounded sk_safe sk_bounded); eassumption.
  - apply unmarshal_fine; [apply (fastread_base_total sk_safe sk_bounded)|exact Hw|apply (fastread_appex_total sk_safe sk_bounded)].
  - apply unmarshal_fine; [apply (fastread_appex_total sk_safe sk_bounded)|exact Hw|apply (fastread_appex_total sk_safe sk_bounded)].
  - apply cls_fine_none. apply convert_total.
  - apply cls_fine; [apply p_decode_from_bytes_total|].
    intros r Er. destruct (p_decode_from_bytes_hlen b r Hw Er) as [[_ H] _]. exact H.
  - unfold fine. cbn. split; [discriminate|discriminate].
Qed.

(* ---------- BytesSkipDecoder.Next (entry 21): C08's theorems about the template over the slice
   instance (no size bound is needed since the repair /repo 2c7f196: a declared size with the sign
   bit set is rejected as negative) ---------- *)
From GV Require Import Proofs.SkipDecodersP.
Open Scope Z_scope.

Lemma bytes_skip_fine b t : wf b -> (t < 256)%N -> fine (len b) (bytes_skip_cls b t).
Proof.
  intros Hw Ht. unfold bytes_skip_cls. apply cls_fine.
  - apply bs_next_safe; assumption.
  - intros out E. destruct (bs_next (bs_new b) t) as [s r] eqn:Eb. cbn [snd] in E. subst r.
    destruct (bs_next_bounded b t s out Hw Ht Eb) as [[_ H] _]. lia.
Qed.

Theorem run_entry_fine entry t b :
  wf b -> Z.of_N t < 256 ->
  fst (run_entry entry t b) <> 2 /\
  (fst (run_entry entry t b) = 0 -> snd (run_entry entry t b) <= Z.of_N (len b)).
Proof.
  intros Hw Ht. destruct (Z.eq_dec entry 21) as [E|E].
  - subst entry. change (run_entry 21 t b) with (bytes_skip_cls b t).
    apply bytes_skip_fine; [exact Hw|lia].
  - apply run_entry_fine_no21; assumption.
Qed.

Lemma cls_class {A} (r : res A) n : let c := fst (cls r n) in c = 0 \/ c = 1 \/ c = 2.
Proof. destruct r; cbn; auto. Qed.

Theorem run_entry_classes entry t b :
  let c := fst (run_entry entry t b) in c = 0 \/ c = 1 \/ c = 2.
Proof.
  unfold run_entry.
  repeat match goal with |- context [if ?c then _ else _] => destruct c end;
    try apply cls_class; try (cbn; auto; fail).
  - unfold unmarshal_cls. destruct (r_message_begin b) as [[[[nm ty] sq] i]|e|w|]; cbn; auto.
    destruct (slice_from b i); cbn; auto. destruct (ty =? thrift_EXCEPTION); apply cls_class.
  - unfold unmarshal_cls. destruct (r_message_begin b) as [[[[nm ty] sq] i]|e|w|]; cbn; auto.
    destruct (slice_from b i); cbn; auto. destruct (ty =? thrift_EXCEPTION); apply cls_class.
Qed.
