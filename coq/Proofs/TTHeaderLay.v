(* Proofs/TTHeaderLay.v — the executable layout judge of the correspondence run
   (Spec.FrameLayout.frame_b, evaluated on the bytes the real Encode produced) is sound for
   the declarative layout predicate [frame]. *)
From GV Require Import Lib.Bytes Lib.Res Gen.Consts Model.TTHeader Spec.FrameLayout
     Proofs.TTHeaderLib Proofs.TTHeaderSec Proofs.TTHeaderDec Proofs.TTHeaderEnc Proofs.TTHeaderRef.
From Coq Require Import ZifyN ZifyNat ZifyBool Permutation.
Open Scope N_scope.

Section PermB.
  Context {K : Type} (keq : K -> K -> bool).
  Hypothesis keq_spec : forall a b, keq a b = true <-> a = b.

  Lemma permb_perm l e : permb keq l e = true -> Permutation l e /\ NoDup (keys e).
  Proof.
    unfold permb. rewrite !andb_true_iff. intros (((Hlen & Hnl) & Hne) & Hall).
    apply Nat.eqb_eq in Hlen.
    apply (nodupk_spec keq keq_spec) in Hnl. apply (nodupk_spec keq keq_spec) in Hne.
    split; [|exact Hne].
    apply NoDup_Permutation_bis.
    - apply (NoDup_map_inv fst). exact Hnl.
    - lia.
    - intros [k v] Hin. rewrite forallb_forall in Hall. specialize (Hall _ Hin). cbn [fst snd] in Hall.
      destruct (lookup keq k e) as [v'|] eqn:El; cbn [obeqb] in Hall; [|discriminate].
      apply beqb_eq in Hall. subst v'. apply (lookup_some_in keq keq_spec), El.
  Qed.
End PermB.

Lemma strip_pads_spec rsecs : forall n rs,
    strip_pads rsecs = (n, rs) -> rsecs = repeat Pad n ++ rs.
Proof.
  induction rsecs as [|s r IH]; intros n rs H.
  - cbn in H. inversion H. reflexivity.
  - destruct s; try (cbn in H; inversion H; reflexivity).
    cbn [strip_pads] in H. destruct (strip_pads r) as [n' s'] eqn:E. inversion H; subst.
    cbn [repeat app]. f_equal. apply IH. reflexivity.
Qed.

Lemma rev_repeat {A} (x : A) n : rev (repeat x n) = repeat x n.
Proof.
  induction n as [|n IH]; [reflexivity|]. cbn [repeat rev]. rewrite IH.
  clear IH. induction n as [|n IH]; [reflexivity|]. cbn [repeat app]. f_equal. exact IH.
Qed.

Lemma secs_shape_sound im sm secs :
  secs_shape_b im sm secs = true -> body_secs im sm secs /\ NoDup (keys im).
Proof.
  unfold secs_shape_b, body_secs.
  destruct (slookup gdpr sm) as [tok|] eqn:Et.
  - destruct secs as [|[| | |t] r]; try discriminate.
    destruct (beqb t tok) eqn:Eb; [|discriminate]. apply beqb_eq in Eb. subst t.
    destruct (filter not_gdpr sm) as [|o0 os] eqn:Ef.
    + destruct im as [|i0 im'].
      * destruct r; [|discriminate]. intros _. split; [|constructor].
        exists [], []. repeat split; constructor.
      * destruct r as [|[| |l|] [|? ?]]; try discriminate. intros H.
        destruct (permb_perm N.eqb N.eqb_eq _ _ H) as [Hp Hnd]. split; [|exact Hnd].
        exists [], l. repeat split; [constructor|exact Hp|].
        destruct l; [apply Permutation_nil in Hp; discriminate|reflexivity].
    + destruct r as [|[|l| |] r']; try discriminate.
      destruct (permb beqb l (o0 :: os)) eqn:Ep; [|discriminate].
      destruct (permb_perm beqb beqb_spec _ _ Ep) as [Hps _].
      assert (Hl : l <> []) by (intros ->; apply Permutation_nil in Hps; discriminate).
      destruct im as [|i0 im'].
      * destruct r'; [|discriminate]. intros _. split; [|constructor].
        exists l, []. repeat split; [exact Hps|constructor|].
        destruct l; [contradiction|reflexivity].
      * destruct r' as [|[| |l'|] [|? ?]]; try discriminate. intros H.
        destruct (permb_perm N.eqb N.eqb_eq _ _ H) as [Hp Hnd]. split; [|exact Hnd].
        exists l, l'. repeat split; [exact Hps|exact Hp|].
        destruct l; [contradiction|].
        destruct l'; [apply Permutation_nil in Hp; discriminate|reflexivity].
  - destruct (filter not_gdpr sm) as [|o0 os] eqn:Ef.
    + destruct im as [|i0 im'].
      * destruct secs; [|discriminate]. intros _. split; [|constructor].
        exists [], []. repeat split; constructor.
      * destruct secs as [|[| |l|] [|? ?]]; try discriminate. intros H.
        destruct (permb_perm N.eqb N.eqb_eq _ _ H) as [Hp Hnd]. split; [|exact Hnd].
        exists [], l. repeat split; [constructor|exact Hp|].
        destruct l; [apply Permutation_nil in Hp; discriminate|reflexivity].
    + destruct secs as [|[|l| |] r']; try discriminate.
      destruct (permb beqb l (o0 :: os)) eqn:Ep; [|discriminate].
      destruct (permb_perm beqb beqb_spec _ _ Ep) as [Hps _].
      assert (Hl : l <> []) by (intros ->; apply Permutation_nil in Hps; discriminate).
      destruct im as [|i0 im'].
      * destruct r'; [|discriminate]. intros _. split; [|constructor].
        exists l, []. repeat split; [exact Hps|constructor|].
        destruct l; [contradiction|reflexivity].
      * destruct r' as [|[| |l'|] [|? ?]]; try discriminate. intros H.
        destruct (permb_perm N.eqb N.eqb_eq _ _ H) as [Hp Hnd]. split; [|exact Hnd].
        exists l, l'. repeat split; [exact Hps|exact Hp|].
        destruct l; [contradiction|].
        destruct l'; [apply Permutation_nil in Hp; discriminate|reflexivity].
Qed.

Lemma be4_bytes a b c d :
  a < 256 -> b < 256 -> c < 256 -> d < 256 -> be 4 (((a * 256 + b) * 256 + c) * 256 + d) = [a; b; c; d].
Proof.
  intros Ha Hb Hc Hd. change (((a * 256 + b) * 256 + c) * 256 + d) with (unbe [a; b; c; d]).
  apply (be_unbe [a; b; c; d]). repeat constructor; assumption.
Qed.

Lemma frame_b_sound fl sq pid im sm b :
  wf b -> frame_b fl sq pid im sm b = true ->
  frame fl sq pid im sm b /\ NoDup (keys im) /\ fl < 65536 /\ in_signed 32 sq.
Proof.
  intros Hw. unfold frame_b. unfold L_meta, L_max.
  destruct (N.ltb_spec (len b) (14 + 2)) as [Hs|Hl]; [discriminate|].
  destruct (explode14 b ltac:(lia)) as (m0 & m1 & m2 & m3 & m4 & m5 & m6 & m7 & m8 & m9 & m10 & m11 & m12 & m13 & rest & ->).
  destruct (fields_explicit m0 m1 m2 m3 m4 m5 m6 m7 m8 m9 m10 m11 m12 m13 rest)
    as (F0 & F4 & F6 & F8 & F12 & _ & _ & Fd & Fl).
  cbv zeta in F0, F4, F6, F8, F12, Fd, Fl. change L_meta with 14 in Fd.
  rewrite Fd, F4, F6, F8, F12.
  apply wf_explode in Hw.
  destruct Hw as (H0 & H1 & H2 & H3 & H4 & H5 & H6 & H7 & H8 & H9 & H10 & H11 & H12 & H13 & Hwr).
  rewrite !andb_true_iff. intros (((((Hm & Hf) & Hsq) & Hsz) & Hmax) & Hinfo).
  apply N.eqb_eq in Hm, Hf, Hsz. apply Z.eqb_eq in Hsq. apply N.leb_le in Hmax.
  destruct rest as [|p [|nt r]]; try discriminate.
  rewrite !andb_true_iff in Hinfo. destruct Hinfo as [[Hp Hnt] Hps].
  apply N.eqb_eq in Hp, Hnt. subst p nt.
  assert (Hwr' : wf r) by (inversion Hwr as [|? ? _ Hw1]; subst; inversion Hw1; assumption).
  destruct (parse_secs r) as [secs|] eqn:Eps; [|discriminate].
  apply (parse_secs_iff _ _ Hwr') in Eps. destruct Eps as [Hok Er].
  destruct (strip_pads (rev secs)) as [npad rs] eqn:Esp.
  apply andb_true_iff in Hps. destruct Hps as [Hnp Hshape].
  apply strip_pads_spec in Esp. apply (f_equal (@rev sec)) in Esp.
  rewrite rev_involutive, rev_app_distr, rev_repeat in Esp.
  destruct (secs_shape_sound _ _ _ Hshape) as [Hbody Hnd].
  assert (Hsecs : secs_ok (rev rs)).
  { unfold secs_ok in *. rewrite Esp in Hok. apply Forall_app in Hok. tauto. }
  set (x := ((m8 * 256 + m9) * 256 + m10) * 256 + m11) in *.
  assert (Hx : x < 2 ^ 32) by (change (2 ^ 32) with 4294967296; unfold x; lia).
  split; [|split; [exact Hnd|split; [lia|]]].
  - exists (((m0 * 256 + m1) * 256 + m2) * 256 + m3), (rev rs), npad. cbv zeta.
    assert (Ei : [pid; 0] ++ enc_secs (rev rs) ++ repeat 0 npad = pid :: 0 :: r).
    { rewrite Er, Esp, enc_secs_app, enc_pads. reflexivity. }
    rewrite Ei. split; [|split; [exact Hbody|split; [exact Hsecs|split; [|split]]]].
    + rewrite be4_bytes by assumption.
      rewrite <- Hm, be2_of_bytes by assumption. rewrite <- Hf, be2_of_bytes by assumption.
      rewrite <- Hsq, unsigned_signed by (try exact Hx; lia). unfold x. rewrite be4_bytes by assumption.
      replace (len (pid :: 0 :: r) / 4) with (m12 * 256 + m13).
      * rewrite be2_of_bytes by assumption. reflexivity.
      * rewrite <- Hsz. symmetry. rewrite N.mul_comm. apply N.div_mul. lia.
    + destruct (Nat.ltb_spec npad 4); [assumption|discriminate].
    + rewrite <- Hsz. rewrite N.mul_comm. apply N.mod_mul. lia.
    + exact Hmax.
  - rewrite <- Hsq. apply to_signed_range; [lia|exact Hx].
Qed.
