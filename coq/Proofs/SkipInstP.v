(* Proofs/SkipInstP.v — ReaderSkipDecoder.Next against the reference parser, for EVERY scripted
   source (any fragmentation incl. empty reads, any final error, data delivered with the error):
   the SkipN contract of Proofs/ReadFullP.v (engineer skipv) plugged into tskip_sim. *)
From GV Require Import Lib.Bytes Lib.Res Gen.Consts Model.Binary Model.BufReader Model.Skip Model.SkipDecoders
  Spec.ThriftGrammar Spec.RefParse Proofs.RefLib Proofs.RefP Proofs.SkipLib Proofs.SkipDecodersP Proofs.ReadFullP.
From Coq Require Import ZifyN ZifyNat ZifyBool Lia.
Open Scope N_scope.

Theorem rf_next_is_ref src blen t d :
  wf (sdata src) -> spos src <= len (sdata src) -> sfinal src <> e_fuel -> t < 256 ->
  match rp inl_none d t (drop (spos src) (sdata src)) with
  | Ok (n, _) => exists s', rf_next_depth (rf_new src blen) t d
                              = (s', Ok (take n (drop (spos src) (sdata src)))) /\
                            spos (rf_src s') = spos src + n /\ sdata (rf_src s') = sdata src
  | Err _ => exists s' c, rf_next_depth (rf_new src blen) t d = (s', Err c) /\ c <> e_fuel
  | _ => False
  end.
Proof.
  intros W Hp Hf Ht. unfold rf_next_depth, rf_new. cbn [rf_src rf_len].
  set (r := drop (spos src) (sdata src)).
  set (s0 := {| rf_src := src; rf_n := 0; rf_buf := []; rf_len := blen |}).
  assert (HR : rf_rep (sdata src) (spos src) s0 r).
  { unfold rf_rep, rf_rep0, s0. cbn [rf_src rf_n rf_buf]. repeat split; try assumption; try reflexivity. lia. }
  assert (HP : P (S (length (sdata src))) r).
  { unfold P, r, drop. rewrite skipn_length. lia. }
  pose proof (tskip_sim rf_state rf_skipN (rf_rep (sdata src) (spos src))
                (rf_SN_ok _ _) (rf_SN_fail _ _) (rf_rep_wf _ _)
                (S (length (sdata src))) d s0 r t HR Ht HP) as T.
  pose proof (rp_good inl_none d t r) as G.
  unfold tsim in T. destruct (rp inl_none d t r) as [[n h]|e| |]; try contradiction.
  - destruct T as [s1 [E [(Hd & Hs & Hle & Hr & Hb & _) _]]]. specialize (G n h eq_refl).
    unfold r in G, Hr. rewrite len_drop in G.
    assert (rf_n s1 = n).
    { rewrite drop_plus in Hr. apply (f_equal len) in Hr. rewrite !len_drop in Hr. lia. }
    rewrite E. cbn [sbind]. exists s1. rewrite Hb, H. repeat split; try assumption. lia.
  - destruct T as [s1 [c [E Hc]]]. rewrite E. cbn [sbind]. exists s1, c. auto.
Qed.
