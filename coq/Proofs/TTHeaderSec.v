(* Proofs/TTHeaderSec.v — the counted entry loop and the section readers of Model/TTHeader.v
   against the section grammar of Spec/FrameLayout.v (DESIGN A.6), generically in the entry
   reader, then instantiated for string-keyed and int-keyed entries. *)
From GV Require Import Lib.Bytes Lib.Res Gen.Consts Model.TTHeader Spec.FrameLayout Proofs.TTHeaderLib.
From Coq Require Import ZifyN ZifyNat ZifyBool.
Open Scope N_scope.

(* never a panic, never the model's out-of-fuel artefact *)
Definition good {A} (r : res A) : Prop := safe r /\ r <> Err e_fuel.

Lemma good_ok {A} (a : A) : good (Ok a).
Proof. split; [exact I|discriminate]. Qed.
Lemma good_err {A} e : e <> e_fuel -> good (@Err A e).
Proof. intros H. split; [exact I|]. intros E. inversion E. contradiction. Qed.

Lemma wrap_kv_good {A} (r : res A) : safe r -> good (wrap_kv r).
Proof.
  destruct r; cbn; intros H; try contradiction.
  - apply good_ok.
  - apply good_err. discriminate.
Qed.

Lemma read_entries_eq {K} (rd : bytes -> N -> res (K * bytes * N)) fuel buf idx cnt m :
  read_entries rd fuel buf idx cnt m =
  if cnt =? 0 then Ok (idx, m)
  else match fuel with
       | O => Err e_fuel
       | S f =>
         do (k, v, n) <- wrap_kv (rd buf idx);
         read_entries rd f buf (idx + n) (cnt - 1) ((k, v) :: m)
       end.
Proof. destruct fuel; reflexivity. Qed.

Section EntryLoop.
  Context {K : Type}.
  Variable rd : bytes -> N -> res (K * bytes * N).
  Variable enc : K * bytes -> bytes.
  Variable ok : K * bytes -> Prop.
  Hypothesis rd_fwd : forall buf idx kv r,
      ok kv -> drop idx buf = enc kv ++ r -> rd buf idx = Ok (fst kv, snd kv, len (enc kv)).
  Hypothesis rd_bwd : forall buf idx k v n,
      wf buf -> rd buf idx = Ok (k, v, n) ->
      ok (k, v) /\ n = len (enc (k, v)) /\ drop idx buf = enc (k, v) ++ drop (idx + n) buf.
  Hypothesis rd_prog : forall buf idx k v n,
      rd buf idx = Ok (k, v, n) -> idx + n <= len buf /\ 1 <= n.
  Hypothesis rd_safe : forall buf idx, safe (rd buf idx).
  Hypothesis enc_pos : forall kv, 1 <= len (enc kv).

  Definition encs (l : list (K * bytes)) : bytes := concat (map enc l).

  Lemma encs_cons kv l : encs (kv :: l) = enc kv ++ encs l.
  Proof. reflexivity. Qed.

  Lemma encs_len_ge l : len l <= len (encs l).
  Proof.
    induction l as [|kv l IH]; [cbn; lia|].
    rewrite encs_cons, len_app, len_cons. pose proof (enc_pos kv). lia.
  Qed.

  Lemma entries_fwd l : forall buf idx r m fuel,
      Forall ok l -> (length l <= fuel)%nat -> drop idx buf = encs l ++ r ->
      read_entries rd fuel buf idx (len l) m = Ok (idx + len (encs l), rev l ++ m).
  Proof.
    induction l as [|kv l IH]; intros buf idx r m fuel Hok Hf E; rewrite read_entries_eq.
    - cbn [len length N.of_nat N.eqb encs map concat app rev]. rewrite N.add_0_r. reflexivity.
    - rewrite len_cons. destruct (N.eqb_spec (1 + len l) 0) as [Hz|_]; [lia|].
      destruct fuel as [|f]; [cbn [length] in Hf; lia|].
      inversion Hok as [|? ? Hkv Hl]; subst.
      rewrite encs_cons in E. rewrite <- app_assoc in E.
      rewrite (rd_fwd _ _ _ _ Hkv E). cbn [wrap_kv bind].
      replace (1 + len l - 1) with (len l) by lia.
      apply drop_app_step in E.
      rewrite (IH buf (idx + len (enc kv)) r ((fst kv, snd kv) :: m) f Hl ltac:(cbn [length] in Hf; lia) E).
      rewrite encs_cons, len_app. destruct kv as [k v]. cbn [fst snd rev].
      rewrite <- app_assoc. cbn [app]. f_equal. f_equal. lia.
  Qed.

  Lemma entries_bwd fuel : forall buf idx cnt m idx' m',
      wf buf -> read_entries rd fuel buf idx cnt m = Ok (idx', m') ->
      exists l, len l = cnt /\ Forall ok l /\ m' = rev l ++ m /\
                drop idx buf = encs l ++ drop idx' buf /\ idx' = idx + len (encs l).
  Proof.
    induction fuel as [|f IH]; intros buf idx cnt m idx' m' Hw; rewrite read_entries_eq;
      destruct (N.eqb_spec cnt 0) as [Hz|Hz].
    1,3: intros H; inversion H; subst; exists []; cbn [len length N.of_nat rev app encs map concat];
         rewrite N.add_0_r; repeat split; auto.
    - discriminate.
    - destruct (rd buf idx) as [[[k v] n]| | |] eqn:Erd; cbn [wrap_kv bind]; try discriminate.
      intros H. destruct (rd_bwd _ _ _ _ _ Hw Erd) as (Hok & Hn & Ed).
      destruct (IH _ _ _ _ _ _ Hw H) as (l & Hl & Hokl & Hm & Edl & Hi).
      exists ((k, v) :: l). rewrite len_cons, encs_cons, len_app. repeat split.
      + lia.
      + constructor; assumption.
      + rewrite Hm. cbn [rev]. rewrite <- app_assoc. reflexivity.
      + rewrite Ed, Edl, <- app_assoc. reflexivity.
      + lia.
  Qed.

  (* safety and termination: no wf, no grammar — only progress *)
  Lemma entries_total fuel : forall buf idx cnt m,
      idx <= len buf -> (N.to_nat (len buf - idx) < fuel)%nat ->
      good (read_entries rd fuel buf idx cnt m) /\
      forall idx' m', read_entries rd fuel buf idx cnt m = Ok (idx', m') -> idx <= idx' <= len buf.
  Proof.
    induction fuel as [|f IH]; intros buf idx cnt m Hi Hf; [lia|].
    rewrite read_entries_eq. destruct (N.eqb_spec cnt 0) as [Hz|Hz].
    - split; [apply good_ok|]. intros ? ? H. inversion H; subst. lia.
    - pose proof (rd_safe buf idx) as Hs.
      destruct (rd buf idx) as [[[k v] n]| | |] eqn:Erd; cbn [wrap_kv bind]; cbn in Hs; try contradiction.
      + destruct (rd_prog _ _ _ _ _ Erd) as [Hle Hn].
        destruct (IH buf (idx + n) (cnt - 1) ((k, v) :: m) Hle ltac:(lia)) as [Hg Hb].
        split; [exact Hg|]. intros idx' m' H. specialize (Hb _ _ H). lia.
      + split; [apply good_err; discriminate|]. intros ? ? H. discriminate.
  Qed.

  (* ----- a whole section body: count, then entries ----- *)
  Lemma section_fwd l buf idx r m :
      len l < 65536 -> Forall ok l -> drop idx buf = be 2 (len l) ++ encs l ++ r ->
      read_section rd buf idx m = Ok (idx + len (be 2 (len l) ++ encs l), rev l ++ m).
  Proof.
    intros Hl Hok E. unfold read_section. rewrite b2u16_spec.
    destruct (be2_val (len l) Hl) as (a & b & Eb & Hab & Ha & Hb).
    rewrite Eb in *. cbn [app] in E. rewrite E. cbn [wrap_kv bind]. rewrite Hab.
    assert (E2 : drop (idx + 2) buf = encs l ++ r).
    { rewrite <- drop_drop, E. reflexivity. }
    assert (Hlen : (length l <= S (length buf))%nat).
    { pose proof (encs_len_ge l) as H1. pose proof (drop_len' (idx + 2) buf) as H2.
      rewrite E2, len_app in H2. unfold len in *. lia. }
    rewrite (entries_fwd l buf (idx + 2) r m _ Hok Hlen E2).
    rewrite (len_app [a; b]). change (len [a; b]) with 2. f_equal. f_equal. lia.
  Qed.

  Lemma section_bwd buf idx m idx' m' :
      wf buf -> read_section rd buf idx m = Ok (idx', m') ->
      exists l, len l < 65536 /\ Forall ok l /\ m' = rev l ++ m /\
                drop idx buf = be 2 (len l) ++ encs l ++ drop idx' buf /\
                idx' = idx + len (be 2 (len l) ++ encs l).
  Proof.
    intros Hw. unfold read_section. rewrite b2u16_spec.
    destruct (drop idx buf) as [|a [|b r]] eqn:E; cbn [wrap_kv bind]; try discriminate.
    intros H. destruct (entries_bwd _ _ _ _ _ _ _ Hw H) as (l & Hl & Hok & Hm & Ed & Hi).
    pose proof (wf_drop idx buf Hw) as Hwd. rewrite E in Hwd.
    inversion Hwd as [|? ? Ha Hwd1]; subst. inversion Hwd1 as [|? ? Hb Hwr]; subst.
    unfold wfb in Ha, Hb.
    assert (E2 : drop (idx + 2) buf = r) by (rewrite <- drop_drop, E; reflexivity).
    exists l. rewrite Hl. rewrite be2_of_bytes by assumption. repeat split.
    - lia.
    - exact Hok.
    - cbn [app]. rewrite <- Ed, E2. reflexivity.
    - rewrite (len_app [a; b]). change (len [a; b]) with 2. lia.
  Qed.

  Lemma section_total buf idx m :
      idx <= len buf ->
      good (read_section rd buf idx m) /\
      forall idx' m', read_section rd buf idx m = Ok (idx', m') -> idx + 2 <= idx' <= len buf.
  Proof.
    intros Hi. unfold read_section. rewrite b2u16_spec.
    destruct (drop idx buf) as [|a [|b r]] eqn:E; cbn [wrap_kv bind].
    1,2: split; [apply good_err; discriminate|intros ? ? H; discriminate].
    assert (Hoff : idx + 2 <= len buf).
    { pose proof (drop_len' idx buf) as L. rewrite E, !len_cons in L. lia. }
    destruct (entries_total (S (length buf)) buf (idx + 2) (a * 256 + b) m Hoff
                ltac:(unfold len; lia)) as [Hg Hb].
    split; [exact Hg|]. intros idx' m' H. specialize (Hb _ _ H). lia.
  Qed.
End EntryLoop.

(* ---------- the two entry readers ---------- *)
Definition skv_ok (kv : bytes * bytes) : Prop := str_ok (fst kv) /\ str_ok (snd kv).
Definition ikv_ok (kv : N * bytes) : Prop := fst kv < 65536 /\ str_ok (snd kv).

Lemma enc_str_len s : len (enc_str s) = 2 + len s.
Proof. unfold enc_str. rewrite len_app, be_len. lia. Qed.

Lemma str_fwd buf idx kv r :
  skv_ok kv -> drop idx buf = enc_kv kv ++ r ->
  rd_str_entry buf idx = Ok (fst kv, snd kv, len (enc_kv kv)).
Proof.
  intros [Hk Hv] E. unfold rd_str_entry, enc_kv in *. rewrite <- app_assoc in E.
  rewrite (read_str2_fwd _ _ _ _ Hk E). cbn [bind].
  apply drop_app_step in E.
  rewrite (read_str2_fwd _ _ _ _ Hv E). cbn [bind]. rewrite len_app. reflexivity.
Qed.

Lemma str_bwd buf idx k v n :
  wf buf -> rd_str_entry buf idx = Ok (k, v, n) ->
  skv_ok (k, v) /\ n = len (enc_kv (k, v)) /\ drop idx buf = enc_kv (k, v) ++ drop (idx + n) buf.
Proof.
  intros Hw. unfold rd_str_entry.
  destruct (read_str2 buf idx) as [[k' n1]| | |] eqn:E1; cbn [bind]; try discriminate.
  destruct (read_str2 buf (idx + n1)) as [[v' n2]| | |] eqn:E2; cbn [bind]; try discriminate.
  intros H. inversion H; subst k' v' n; clear H.
  destruct (read_str2_bwd _ _ _ _ Hw E1) as (Hk & Hn1 & Ed1 & _).
  destruct (read_str2_bwd _ _ _ _ Hw E2) as (Hv & Hn2 & Ed2 & _).
  unfold skv_ok, enc_kv. cbn [fst snd]. repeat split; try apply Hk; try apply Hv.
  - rewrite len_app. lia.
  - rewrite Ed1, Ed2, <- app_assoc. f_equal. f_equal. f_equal. lia.
Qed.

Lemma str_prog buf idx k v n :
  rd_str_entry buf idx = Ok (k, v, n) -> idx + n <= len buf /\ 1 <= n.
Proof.
  unfold rd_str_entry.
  destruct (read_str2 buf idx) as [[k' n1]| | |] eqn:E1; cbn [bind]; try discriminate.
  destruct (read_str2 buf (idx + n1)) as [[v' n2]| | |] eqn:E2; cbn [bind]; try discriminate.
  intros H. inversion H; subst k' v' n; clear H.
  apply read_str2_prog in E1. apply read_str2_prog in E2. lia.
Qed.

Lemma str_safe buf idx : safe (rd_str_entry buf idx).
Proof.
  unfold rd_str_entry. pose proof (read_str2_safe buf idx) as [H1 _].
  destruct (read_str2 buf idx) as [[k' n1]| | |]; cbn [bind]; cbn in H1; try contradiction; try exact I.
  pose proof (read_str2_safe buf (idx + n1)) as [H2 _].
  destruct (read_str2 buf (idx + n1)) as [[v' n2]| | |]; cbn [bind]; cbn in H2; try contradiction; exact I.
Qed.

Lemma enc_kv_pos kv : 1 <= len (enc_kv kv).
Proof. unfold enc_kv. rewrite len_app, !enc_str_len. lia. Qed.

Lemma int_fwd buf idx kv r :
  ikv_ok kv -> drop idx buf = enc_ikv kv ++ r ->
  rd_int_entry buf idx = Ok (fst kv, snd kv, len (enc_ikv kv)).
Proof.
  intros [Hk Hv] E. unfold rd_int_entry, enc_ikv in *. rewrite <- app_assoc in E.
  rewrite b2u16_spec.
  destruct (be2_val (fst kv) Hk) as (a & b & Eb & Hab & Ha & Hb).
  rewrite Eb in *. cbn [app] in E. rewrite E. cbn [bind].
  assert (E2 : drop (idx + 2) buf = enc_str (snd kv) ++ r) by (rewrite <- drop_drop, E; reflexivity).
  rewrite (read_str2_fwd _ _ _ _ Hv E2). cbn [bind].
  rewrite (len_app [a; b]). change (len [a; b]) with 2. rewrite Hab. reflexivity.
Qed.

Lemma int_bwd buf idx k v n :
  wf buf -> rd_int_entry buf idx = Ok (k, v, n) ->
  ikv_ok (k, v) /\ n = len (enc_ikv (k, v)) /\ drop idx buf = enc_ikv (k, v) ++ drop (idx + n) buf.
Proof.
  intros Hw. unfold rd_int_entry. rewrite b2u16_spec.
  destruct (drop idx buf) as [|a [|b r]] eqn:E; cbn [bind]; try discriminate.
  destruct (read_str2 buf (idx + 2)) as [[v' n2]| | |] eqn:E2; cbn [bind]; try discriminate.
  intros H.
  assert (H' : a * 256 + b = k /\ v' = v /\ 2 + n2 = n) by (inversion H; repeat split; reflexivity).
  destruct H' as (<- & -> & <-). clear H.
  destruct (read_str2_bwd _ _ _ _ Hw E2) as (Hv & Hn2 & Ed2 & _).
  pose proof (wf_drop idx buf Hw) as Hwd. rewrite E in Hwd.
  inversion Hwd as [|? ? Ha Hwd1]; subst. inversion Hwd1 as [|? ? Hb Hwr]; subst.
  unfold wfb in Ha, Hb.
  assert (E3 : drop (idx + 2) buf = r) by (rewrite <- drop_drop, E; reflexivity).
  unfold ikv_ok, enc_ikv. cbn [fst snd]. rewrite be2_of_bytes by assumption. repeat split.
  - lia.
  - apply Hv.
  - apply Hv.
  - rewrite (len_app [a; b]). change (len [a; b]) with 2. lia.
  - cbn [app]. f_equal. f_equal. rewrite <- E3, Ed2. f_equal. f_equal. lia.
Qed.

Lemma int_prog buf idx k v n :
  rd_int_entry buf idx = Ok (k, v, n) -> idx + n <= len buf /\ 1 <= n.
Proof.
  unfold rd_int_entry. rewrite b2u16_spec.
  destruct (drop idx buf) as [|a [|b r]] eqn:E; cbn [bind]; try discriminate.
  destruct (read_str2 buf (idx + 2)) as [[v' n2]| | |] eqn:E2; cbn [bind]; try discriminate.
  intros H.
  assert (H' : 2 + n2 = n) by (inversion H; reflexivity). subst n.
  apply read_str2_prog in E2. lia.
Qed.

Lemma int_safe buf idx : safe (rd_int_entry buf idx).
Proof.
  unfold rd_int_entry. rewrite b2u16_spec.
  destruct (drop idx buf) as [|a [|b r]]; cbn [bind]; try exact I.
  pose proof (read_str2_safe buf (idx + 2)) as [H2 _].
  destruct (read_str2 buf (idx + 2)) as [[v' n2]| | |]; cbn [bind]; cbn in H2; try contradiction; exact I.
Qed.

Lemma enc_ikv_pos kv : 1 <= len (enc_ikv kv).
Proof. unfold enc_ikv. rewrite len_app, be_len. lia. Qed.

(* ---------- the section lemmas at the two entry readers ---------- *)
Definition str_section_fwd :=
  section_fwd rd_str_entry enc_kv skv_ok str_fwd str_bwd str_prog str_safe enc_kv_pos.
Definition str_section_bwd :=
  section_bwd rd_str_entry enc_kv skv_ok str_fwd str_bwd str_prog str_safe.
Definition str_section_total :=
  section_total rd_str_entry enc_kv skv_ok str_fwd str_bwd str_prog str_safe.
Definition int_section_fwd :=
  section_fwd rd_int_entry enc_ikv ikv_ok int_fwd int_bwd int_prog int_safe enc_ikv_pos.
Definition int_section_bwd :=
  section_bwd rd_int_entry enc_ikv ikv_ok int_fwd int_bwd int_prog int_safe.
Definition int_section_total :=
  section_total rd_int_entry enc_ikv ikv_ok int_fwd int_bwd int_prog int_safe.

(* ---------- readKVInfo ---------- *)
Lemma read_kv_info_eq f buf idx im sm :
  read_kv_info (S f) buf idx im sm =
  match drop idx buf with
  | [] => Ok (im, sm)
  | id :: _ =>
    if id =? 0 then read_kv_info f buf (idx + 1) im sm
    else if id =? 1 then
      do (idx2, sm') <- read_section rd_str_entry buf (idx + 1) (made sm);
      read_kv_info f buf idx2 im (Some sm')
    else if id =? 16 then
      do (idx2, im') <- read_section rd_int_entry buf (idx + 1) (made im);
      read_kv_info f buf idx2 (Some im') sm
    else if id =? 17 then
      do (idx2, sm') <- read_acl buf (idx + 1) (made sm); read_kv_info f buf idx2 im (Some sm')
    else Err e_infoid
  end.
Proof.
  cbn [read_kv_info]. rewrite b2u8_spec. destruct (drop idx buf); reflexivity.
Qed.

Lemma enc_secs_cons s secs : enc_secs (s :: secs) = enc_sec s ++ enc_secs secs.
Proof. reflexivity. Qed.

Lemma enc_secs_app a b : enc_secs (a ++ b) = enc_secs a ++ enc_secs b.
Proof. unfold enc_secs. rewrite map_app, concat_app. reflexivity. Qed.

Lemma interp_from_cons m s secs : interp_from m (s :: secs) = interp_from (interp_step m s) secs.
Proof. reflexivity. Qed.

(* the model's accumulation: like [interp_step], on maps that may still be nil *)
Definition ostep (m : option (list (N * bytes)) * option (list (bytes * bytes))) (s : sec) :=
  match s with
  | Pad => m
  | KV l => (fst m, Some (rev l ++ made (snd m)))
  | IntKV l => (Some (rev l ++ made (fst m)), snd m)
  | ACL tok => (fst m, Some ((gdpr, tok) :: made (snd m)))
  end.
Definition ointerp_from m (secs : list sec) := fold_left ostep secs m.

Lemma ointerp_from_cons m s secs : ointerp_from m (s :: secs) = ointerp_from (ostep m s) secs.
Proof. reflexivity. Qed.

Definition is_some {A} (o : option A) : bool := match o with Some _ => true | None => false end.

Lemma ointerp_from_spec secs : forall im sm,
    ointerp_from (im, sm) secs =
    (if is_some im || existsb is_intsec secs
     then Some (fst (interp_from (made im, made sm) secs)) else None,
     if is_some sm || existsb is_strsec secs
     then Some (snd (interp_from (made im, made sm) secs)) else None).
Proof.
  induction secs as [|s secs IH]; intros im sm.
  - cbn [ointerp_from interp_from fold_left existsb fst snd]. rewrite !orb_false_r.
    destruct im, sm; reflexivity.
  - rewrite ointerp_from_cons, interp_from_cons.
    destruct s as [|l|l|tok]; cbn [ostep interp_step fst snd existsb is_intsec is_strsec];
      rewrite IH; cbn [made is_some orb]; rewrite ?orb_true_r; reflexivity.
Qed.

Lemma ointerp_spec secs : ointerp_from (None, None) secs = ointerp secs.
Proof. rewrite ointerp_from_spec. reflexivity. Qed.

Lemma kv_fwd secs : forall fuel buf idx im sm,
    secs_ok secs -> drop idx buf = enc_secs secs -> (length (enc_secs secs) < fuel)%nat ->
    read_kv_info fuel buf idx im sm = Ok (ointerp_from (im, sm) secs).
Proof.
  induction secs as [|s secs IH]; intros fuel buf idx im sm Hok E Hf;
    (destruct fuel as [|f]; [lia|]); rewrite read_kv_info_eq.
  - cbn in E. rewrite E. reflexivity.
  - inversion Hok as [|? ? Hs Hrest]; subst.
    rewrite enc_secs_cons in E, Hf. rewrite app_length in Hf. rewrite ointerp_from_cons.
    destruct s as [|l|l|tok]; cbn [enc_sec] in *.
    + cbn [app] in E. rewrite E. cbn [N.eqb]. apply drop_step in E.
      apply IH; auto. cbn [length] in Hf. lia.
    + destruct Hs as [Hl Hall]. rewrite <- app_assoc in E. cbn [app] in E. rewrite E.
      cbn [N.eqb Pos.eqb]. apply drop_step in E. rewrite <- app_assoc in E.
      rewrite (str_section_fwd l buf (idx + 1) _ (made sm) Hl Hall E).
      cbn [bind]. rewrite app_assoc in E. apply drop_app_step in E.
      apply IH; auto. cbn [length app] in Hf. rewrite !app_length in Hf. lia.
    + destruct Hs as [Hl Hall]. rewrite <- app_assoc in E. cbn [app] in E. rewrite E.
      cbn [N.eqb Pos.eqb]. apply drop_step in E. rewrite <- app_assoc in E.
      rewrite (int_section_fwd l buf (idx + 1) _ (made im) Hl Hall E).
      cbn [bind]. rewrite app_assoc in E. apply drop_app_step in E.
      apply IH; auto. cbn [length app] in Hf. rewrite !app_length in Hf. lia.
    + rewrite <- app_assoc in E. cbn [app] in E. rewrite E.
      cbn [N.eqb Pos.eqb]. apply drop_step in E. unfold read_acl.
      rewrite (read_str2_fwd _ _ _ _ Hs E). cbn [wrap_kv bind].
      apply drop_app_step in E. change gdpr_key with gdpr.
      apply IH; auto. cbn [length app] in Hf. lia.
Qed.

(* converse: readKVInfo succeeds only along a decomposition into complete sections *)
Lemma kv_bwd fuel : forall buf idx im sm r,
    wf buf -> read_kv_info fuel buf idx im sm = Ok r ->
    exists secs, secs_ok secs /\ drop idx buf = enc_secs secs /\ r = ointerp_from (im, sm) secs.
Proof.
  induction fuel as [|f IH]; intros buf idx im sm r Hw; [discriminate|].
  rewrite read_kv_info_eq. destruct (drop idx buf) as [|id rest] eqn:E.
  - intros H. inversion H; subst. exists []. repeat split. constructor.
  - pose proof (drop_step _ _ _ _ E) as E1.
    destruct (N.eqb_spec id 0) as [->|_].
    { intros H. destruct (IH _ _ _ _ _ Hw H) as (secs & Hok & Ed & Hr).
      exists (Pad :: secs). repeat split.
      - constructor; [exact I|exact Hok].
      - rewrite enc_secs_cons. cbn [enc_sec app]. rewrite <- Ed, E1. reflexivity.
      - exact Hr. }
    destruct (N.eqb_spec id 1) as [->|_].
    { destruct (read_section rd_str_entry buf (idx + 1) (made sm)) as [[idx2 sm']| | |] eqn:Es;
        cbn [bind]; try discriminate.
      intros H. destruct (str_section_bwd _ _ _ _ _ Hw Es) as (l & Hl & Hall & Hm & Ed & Hi).
      destruct (IH _ _ _ _ _ Hw H) as (secs & Hok & Ed2 & Hr).
      exists (KV l :: secs). repeat split.
      - constructor; [split; assumption|exact Hok].
      - rewrite enc_secs_cons. cbn [enc_sec]. rewrite <- Ed2, <- !app_assoc. cbn [app].
        f_equal. rewrite <- E1. exact Ed.
      - rewrite ointerp_from_cons. cbn [ostep fst snd]. rewrite <- Hm. exact Hr. }
    destruct (N.eqb_spec id 16) as [->|_].
    { destruct (read_section rd_int_entry buf (idx + 1) (made im)) as [[idx2 im']| | |] eqn:Es;
        cbn [bind]; try discriminate.
      intros H. destruct (int_section_bwd _ _ _ _ _ Hw Es) as (l & Hl & Hall & Hm & Ed & Hi).
      destruct (IH _ _ _ _ _ Hw H) as (secs & Hok & Ed2 & Hr).
      exists (IntKV l :: secs). repeat split.
      - constructor; [split; assumption|exact Hok].
      - rewrite enc_secs_cons. cbn [enc_sec]. rewrite <- Ed2, <- !app_assoc. cbn [app].
        f_equal. rewrite <- E1. exact Ed.
      - rewrite ointerp_from_cons. cbn [ostep fst snd]. rewrite <- Hm. exact Hr. }
    destruct (N.eqb_spec id 17) as [->|_]; [|discriminate].
    unfold read_acl.
    destruct (read_str2 buf (idx + 1)) as [[tok n]| | |] eqn:Es; cbn [wrap_kv bind]; try discriminate.
    intros H. destruct (read_str2_bwd _ _ _ _ Hw Es) as (Hs & Hn & Ed & _).
    destruct (IH _ _ _ _ _ Hw H) as (secs & Hok & Ed2 & Hr).
    exists (ACL tok :: secs). repeat split.
    + constructor; [exact Hs|exact Hok].
    + rewrite enc_secs_cons. cbn [enc_sec]. rewrite <- Ed2, <- !app_assoc. cbn [app].
      f_equal. rewrite <- E1. exact Ed.
    + rewrite ointerp_from_cons. cbn [ostep fst snd]. exact Hr.
Qed.

(* safety and termination for every buffer: only progress is used *)
Lemma kv_total fuel : forall buf idx im sm,
    idx <= len buf -> (N.to_nat (len buf - idx) < fuel)%nat ->
    good (read_kv_info fuel buf idx im sm).
Proof.
  induction fuel as [|f IH]; intros buf idx im sm Hi Hf; [lia|].
  rewrite read_kv_info_eq. destruct (drop idx buf) as [|id rest] eqn:E; [apply good_ok|].
  pose proof (drop_lt_len _ _ _ _ E) as Hlt.
  destruct (id =? 0); [apply IH; lia|].
  destruct (id =? 1).
  { destruct (str_section_total buf (idx + 1) (made sm) ltac:(lia)) as [[Hs Hnf] Hb].
    destruct (read_section rd_str_entry buf (idx + 1) (made sm)) as [[idx2 sm']| | |] eqn:Es;
      cbn [bind]; cbn in Hs; try contradiction.
    - specialize (Hb _ _ eq_refl). apply IH; lia.
    - apply good_err. intros ->. apply Hnf. reflexivity. }
  destruct (id =? 16).
  { destruct (int_section_total buf (idx + 1) (made im) ltac:(lia)) as [[Hs Hnf] Hb].
    destruct (read_section rd_int_entry buf (idx + 1) (made im)) as [[idx2 im']| | |] eqn:Es;
      cbn [bind]; cbn in Hs; try contradiction.
    - specialize (Hb _ _ eq_refl). apply IH; lia.
    - apply good_err. intros ->. apply Hnf. reflexivity. }
  destruct (id =? 17); [|apply good_err; discriminate].
  unfold read_acl. pose proof (read_str2_safe buf (idx + 1)) as [Hs _].
  destruct (read_str2 buf (idx + 1)) as [[tok n]| | |] eqn:Es; cbn [wrap_kv bind]; cbn in Hs;
    try contradiction.
  - apply read_str2_prog in Es. apply IH; lia.
  - apply good_err. discriminate.
Qed.
