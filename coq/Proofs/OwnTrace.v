(* Proofs/OwnTrace.v — a trace accepted by the ownership monitor satisfies the trace
   specifications of Spec/Ownership.v. *)
From Coq Require Import ZifyN ZifyNat ZifyBool.
From GV Require Import Lib.Bytes Lib.Res Lib.Heap Model.Own Spec.Ownership Proofs.OwnLib.
Open Scope N_scope.

Definition mdisj (m : mstate) : Prop := NoDup (mowned m ++ mlent m ++ mro m).
Definition mall (m : mstate) : list nat := mowned m ++ mlent m ++ mro m.

Lemma orb3_false a b c : a || b || c = false -> a = false /\ b = false /\ c = false.
Proof. destruct a, b, c; cbn; intros H; try discriminate; auto. Qed.

Lemma NoDup_move_l_to_r (b : nat) (O L R : list nat) :
  NoDup (O ++ L ++ R) -> In b O -> NoDup (remove1 b O ++ L ++ b :: R).
Proof.
  intros Hn Hb.
  assert (Hn1 : NoDup (remove1 b O ++ L ++ R)).
  { rewrite <- remove1_app_in by assumption. now apply NoDup_remove1. }
  rewrite !app_assoc. apply NoDup_app_insert; [now rewrite <- !app_assoc|].
  rewrite <- !app_assoc. rewrite <- remove1_app_in by assumption. now apply remove1_notin.
Qed.

Lemma mon_step_disj m ev m' : mdisj m -> mon_step m ev = Some m' -> mdisj m'.
Proof.
  unfold mdisj. intros Hd E. destruct ev as [b|b off n|b off n|b off cp blen|b ro|b|b]; cbn [mon_step] in E.
  - destruct (memb b (mowned m) || memb b (mlent m) || memb b (mro m)) eqn:Em; [discriminate|].
    inversion E; subst; clear E. cbn [mowned mlent mro app].
    apply orb3_false in Em as (E1 & E2 & E3). apply memb_false in E1, E2, E3.
    constructor; [|assumption]. rewrite !in_app_iff. tauto.
  - destruct (_ || _ || _); inversion E; subst; assumption.
  - destruct (_ || _); inversion E; subst; assumption.
  - destruct (memb b (mowned m) && (off =? 0) && (cp =? blen)) eqn:Em; [|discriminate].
    inversion E; subst; clear E. cbn [mowned mlent mro].
    apply andb_true_iff in Em as [Em _]. apply andb_true_iff in Em as [Em _]. apply memb_In in Em.
    rewrite <- remove1_app_in by assumption. now apply NoDup_remove1.
  - destruct (memb b (mowned m) || memb b (mlent m) || memb b (mro m)) eqn:Em; [discriminate|].
    apply orb3_false in Em as (E1 & E2 & E3). apply memb_false in E1, E2, E3.
    assert (Hb : ~ In b (mowned m ++ mlent m ++ mro m)) by (rewrite !in_app_iff; tauto).
    destruct ro; inversion E; subst; clear E; cbn [mowned mlent mro].
    + rewrite !app_assoc. apply NoDup_app_insert; rewrite <- ?app_assoc; assumption.
    + apply NoDup_app_insert; assumption.
  - destruct (memb b (mowned m)) eqn:Em.
    + inversion E; subst; clear E. cbn [mowned mlent mro]. apply memb_In in Em. now apply NoDup_move_l_to_r.
    + destruct (memb b (mlent m)); inversion E; subst; assumption.
  - destruct (memb b (mowned m)) eqn:Em.
    + inversion E; subst; clear E. cbn [mowned mlent mro]. apply memb_In in Em.
      rewrite <- remove1_app_in by assumption. now apply NoDup_remove1.
    + destruct (memb b (mlent m)); inversion E; subst; assumption.
Qed.

(* a block outside all three sets stays quiet until it comes back *)
Lemma mon_quiet b : forall tr m m', mdisj m -> ~ In b (mall m) -> mon m tr = Some m' -> quiet_until_back b tr.
Proof.
  induction tr as [|ev tr IH]; intros m m' Hd Hb E; cbn [quiet_until_back mon] in *; [exact I|].
  destruct (mon_step m ev) as [m1|] eqn:Es; [|discriminate].
  destruct (regains b ev) eqn:Er; [exact I|].
  assert (Hd1 : mdisj m1) by (eapply mon_step_disj; eassumption).
  unfold mall in *. rewrite !in_app_iff in Hb.
  assert (Hmem : memb b (mowned m) = false /\ memb b (mlent m) = false /\ memb b (mro m) = false).
  { repeat split; apply memb_false; tauto. }
  destruct Hmem as (M1 & M2 & M3).
  assert (Huse : uses b ev = false /\ ~ In b (mowned m1 ++ mlent m1 ++ mro m1)).
  { destruct ev as [x|x off n|x off n|x off cp blen|x ro|x|x]; cbn [mon_step uses regains] in *.
    - destruct (_ || _ || _); [discriminate|]. inversion Es; subst; cbn [mowned mlent mro].
      split; [reflexivity|]. rewrite !in_app_iff. cbn [In]. apply Nat.eqb_neq in Er. tauto.
    - destruct (Nat.eqb_spec x b) as [->|Hne]; [rewrite M1, M2, M3 in Es; discriminate|].
      split; [reflexivity|]. destruct (_ || _ || _); inversion Es; subst. rewrite !in_app_iff. tauto.
    - destruct (Nat.eqb_spec x b) as [->|Hne]; [rewrite M1, M2 in Es; discriminate|].
      split; [reflexivity|]. destruct (_ || _); inversion Es; subst. rewrite !in_app_iff. tauto.
    - destruct (Nat.eqb_spec x b) as [->|Hne]; [rewrite M1 in Es; discriminate|].
      split; [reflexivity|]. destruct (_ && _ && _); inversion Es; subst; cbn [mowned mlent mro].
      rewrite !in_app_iff. intros [H|H]; [apply In_remove1 in H|]; tauto.
    - destruct (_ || _ || _); [discriminate|]. apply Nat.eqb_neq in Er.
      split; [reflexivity|]. destruct ro; inversion Es; subst; cbn [mowned mlent mro]; rewrite !in_app_iff; cbn [In]; tauto.
    - split; [reflexivity|]. destruct (memb x (mowned m)) eqn:Ex.
      + inversion Es; subst; cbn [mowned mlent mro]. rewrite !in_app_iff. cbn [In].
        apply memb_In in Ex. intros [H|[H|[H|H]]]; [apply In_remove1 in H| |subst|]; tauto.
      + destruct (memb x (mlent m)); inversion Es; subst. rewrite !in_app_iff. tauto.
    - split; [reflexivity|]. destruct (memb x (mowned m)) eqn:Ex.
      + inversion Es; subst; cbn [mowned mlent mro]. rewrite !in_app_iff.
        intros [H|H]; [apply In_remove1 in H|]; tauto.
      + destruct (memb x (mlent m)); inversion Es; subst. rewrite !in_app_iff. tauto. }
  destruct Huse as [Hu Hb1]. split; [assumption|]. eapply IH; eassumption.
Qed.

Theorem mon_no_use_after_free : forall tr m m', mdisj m -> mon m tr = Some m' -> no_use_after_free tr.
Proof.
  induction tr as [|ev tr IH]; intros m m' Hd E; cbn [no_use_after_free mon] in *; [exact I|].
  destruct (mon_step m ev) as [m1|] eqn:Es; [|discriminate].
  assert (Hd1 : mdisj m1) by (eapply mon_step_disj; eassumption).
  split; [|eapply IH; eassumption].
  destruct ev as [x|x off n|x off n|x off cp blen|x ro|x|x]; try exact I.
  eapply mon_quiet; [exact Hd1| |exact E].
  cbn [mon_step] in Es. destruct (memb x (mowned m) && (off =? 0) && (cp =? blen)) eqn:Em; [|discriminate].
  inversion Es; subst; clear Es. unfold mall; cbn [mowned mlent mro].
  apply andb_true_iff in Em as [Em _]. apply andb_true_iff in Em as [Em _]. apply memb_In in Em.
  unfold mdisj in Hd. rewrite <- remove1_app_in by assumption. now apply remove1_notin.
Qed.

(* read-only caller blocks stay read-only, lent blocks stay lent *)
Lemma mon_step_ro_persist m ev m' b : mon_step m ev = Some m' -> In b (mro m) -> In b (mro m').
Proof.
  intros E Hb. destruct ev as [x|x off n|x off n|x off cp blen|x ro|x|x]; cbn [mon_step] in E.
  - destruct (_ || _ || _); inversion E; subst; assumption.
  - destruct (_ || _ || _); inversion E; subst; assumption.
  - destruct (_ || _); inversion E; subst; assumption.
  - destruct (_ && _ && _); inversion E; subst; assumption.
  - destruct (_ || _ || _); [discriminate|]. destruct ro; inversion E; subst; cbn [mro In]; tauto.
  - destruct (memb x (mowned m)); [inversion E; subst; cbn [mro In]; tauto|].
    destruct (memb x (mlent m)); inversion E; subst; assumption.
  - destruct (memb x (mowned m)); [inversion E; subst; assumption|].
    destruct (memb x (mlent m)); inversion E; subst; assumption.
Qed.
Lemma mon_step_lent_persist m ev m' b : mon_step m ev = Some m' -> In b (mlent m) -> In b (mlent m').
Proof.
  intros E Hb. destruct ev as [x|x off n|x off n|x off cp blen|x ro|x|x]; cbn [mon_step] in E.
  - destruct (_ || _ || _); inversion E; subst; assumption.
  - destruct (_ || _ || _); inversion E; subst; assumption.
  - destruct (_ || _); inversion E; subst; assumption.
  - destruct (_ && _ && _); inversion E; subst; assumption.
  - destruct (_ || _ || _); [discriminate|]. destruct ro; inversion E; subst; cbn [mlent In]; tauto.
  - destruct (memb x (mowned m)); [inversion E; subst; assumption|].
    destruct (memb x (mlent m)); inversion E; subst; assumption.
  - destruct (memb x (mowned m)); [inversion E; subst; assumption|].
    destruct (memb x (mlent m)); inversion E; subst; assumption.
Qed.

Lemma mon_ro_unmodified b : forall tr m m', mdisj m -> In b (mro m) -> mon m tr = Some m' ->
  Forall (fun e => modifies b e = false) tr.
Proof.
  induction tr as [|ev tr IH]; intros m m' Hd Hb E; cbn [mon] in *; [constructor|].
  destruct (mon_step m ev) as [m1|] eqn:Es; [|discriminate].
  constructor; [|eapply IH; [eapply mon_step_disj; eassumption|eapply mon_step_ro_persist; eassumption|exact E]].
  unfold mdisj in Hd.
  assert (HbO : ~ In b (mowned m) /\ ~ In b (mlent m)).
  { split; intros H.
    - apply (NoDup_app_disj _ _ _ Hd H). rewrite in_app_iff. tauto.
    - apply NoDup_app_r in Hd. apply (NoDup_app_disj _ _ _ Hd H Hb). }
  destruct HbO as [H1 H2]. apply memb_false in H1, H2.
  destruct ev as [x|x off n|x off n|x off cp blen|x ro|x|x]; cbn [modifies mon_step] in *; try reflexivity.
  - destruct (Nat.eqb_spec x b) as [->|]; [rewrite H1, H2 in Es; discriminate|reflexivity].
  - destruct (Nat.eqb_spec x b) as [->|]; [rewrite H1 in Es; discriminate|reflexivity].
Qed.
Lemma mon_lent_unfreed b : forall tr m m', mdisj m -> In b (mlent m) -> mon m tr = Some m' ->
  Forall (fun e => frees b e = false) tr.
Proof.
  induction tr as [|ev tr IH]; intros m m' Hd Hb E; cbn [mon] in *; [constructor|].
  destruct (mon_step m ev) as [m1|] eqn:Es; [|discriminate].
  constructor; [|eapply IH; [eapply mon_step_disj; eassumption|eapply mon_step_lent_persist; eassumption|exact E]].
  unfold mdisj in Hd.
  assert (H1 : ~ In b (mowned m)).
  { intros H. apply (NoDup_app_disj _ _ _ Hd H). rewrite in_app_iff. tauto. }
  apply memb_false in H1.
  destruct ev as [x|x off n|x off n|x off cp blen|x ro|x|x]; cbn [frees mon_step] in *; try reflexivity.
  destruct (Nat.eqb_spec x b) as [->|]; [rewrite H1 in Es; discriminate|reflexivity].
Qed.

Theorem mon_caller_untouched : forall tr m m', mdisj m -> mon m tr = Some m' -> caller_untouched tr.
Proof.
  induction tr as [|ev tr IH]; intros m m' Hd E; cbn [caller_untouched mon] in *; [exact I|].
  destruct (mon_step m ev) as [m1|] eqn:Es; [|discriminate].
  assert (Hd1 : mdisj m1) by (eapply mon_step_disj; eassumption).
  split; [|eapply IH; eassumption].
  destruct ev as [x|x off n|x off n|x off cp blen|x ro|x|x]; try exact I.
  cbn [mon_step] in Es. destruct (_ || _ || _); [discriminate|].
  destruct ro; inversion Es; subst; clear Es.
  - eapply mon_ro_unmodified; [exact Hd1| |exact E]. cbn [mro In]. tauto.
  - eapply mon_lent_unfreed; [exact Hd1| |exact E]. cbn [mlent In]. tauto.
Qed.

Theorem mon_frees_whole : forall tr m m', mon m tr = Some m' -> frees_whole_blocks tr.
Proof.
  unfold frees_whole_blocks.
  induction tr as [|ev tr IH]; intros m m' E; cbn [mon] in *; [constructor|].
  destruct (mon_step m ev) as [m1|] eqn:Es; [|discriminate].
  constructor; [|eapply IH; eassumption].
  destruct ev as [x|x off n|x off n|x off cp blen|x ro|x|x]; try exact I.
  cbn [mon_step] in Es. destruct (memb x (mowned m) && (off =? 0) && (cp =? blen)) eqn:Em; [|discriminate].
  apply andb_true_iff in Em as [Em E3]. apply andb_true_iff in Em as [_ E2]. lia.
Qed.

Lemma mdisj_m0 : mdisj m0.
Proof. unfold mdisj. cbn. constructor. Qed.

(* all three at once, for a newest-first trace accepted from the empty monitor state *)
Theorem montr_spec tr m : montr tr = Some m ->
  no_use_after_free (rev tr) /\ caller_untouched (rev tr) /\ frees_whole_blocks (rev tr).
Proof.
  unfold montr. intros E. split; [|split].
  - eapply mon_no_use_after_free; [apply mdisj_m0|exact E].
  - eapply mon_caller_untouched; [apply mdisj_m0|exact E].
  - eapply mon_frees_whole; exact E.
Qed.
