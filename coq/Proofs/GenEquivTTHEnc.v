(* Proofs/GenEquivTTHEnc.v — the TTHeader encoder REGENERATED from the Go source (Gen/Funcs.v,
   tools/gotrans phase 3): protocol/ttheader/utils.go WriteByte / WriteUint16 / WriteUint32 /
   WriteString / WriteString2BLen and encode.go writeKVInfo / Encode are equal to the hand-written
   model Model/TTHeader.v [write_kv_info] / [encode], the one the theorems of C06 are about.

   What is a parameter of the generated definitions, and how it is discharged here:
     * the bufiox.Writer `out`: an abstract object with the methods Malloc and WriteBinary and the
       poke operation through Malloc'ed windows.  The hand model's writer is "the byte string
       appended so far" and never fails; Section Enc instantiates the generated definitions with
       exactly that writer: state = the bytes so far, Malloc(n) appends n bytes of ARBITRARY
       content ([dirt st n]: uninitialised memory, a function of the state — an oracle) and
       returns the window (|st|, n), WriteBinary appends, poke overwrites in place.  The result is
       stated for EVERY initial content [st0] of the writer (Encode appends to it).
     * the enumeration orders of the two range statements: oracles [os] / [oi]; the hand model's
       association lists are the maps IN THAT ORDER ([str_entries] / [int_entries]).
   Sizes: everything Encode adds up stays below 2^63 (Go's int). *)
From GV Require Import Lib.Bytes Lib.Res Lib.GoSem Gen.Consts Gen.Funcs Model.TTHeader
     Proofs.GenLib Proofs.GenLib3.
From Coq Require Import ZifyN ZifyNat ZifyBool.
Open Scope N_scope.

(* ---------- symbolic execution of a generated definition over a writer that never fails ---------- *)
Ltac hze := repeat lazymatch goal with |- (let x := ?v in @?f x) = ?r => change (f v = r); cbv beta end.
(* rewrite the innermost int arithmetic that cannot wrap *)
Ltac wr64' :=
  match goal with
  | |- context [wraps 64 ?x] =>
    lazymatch x with context [wraps] => fail | _ => rewrite (wraps64_small x) by (unfold bytes in *; lia) end
  end.
Ltac sx := repeat (progress (hze; cbn beta iota delta [bind is_nil gnil negb])).

Lemma app_assoc3 {A} (a b c : list A) : (a ++ b) ++ c = a ++ b ++ c.
Proof. symmetry. apply app_assoc. Qed.

Lemma glen_app {A} (a b : list A) : glen (a ++ b) = (glen a + glen b)%Z.
Proof. unfold glen. rewrite len_app. lia. Qed.

Lemma glen_nonneg {A} (a : list A) : (0 <= glen a)%Z.
Proof. unfold glen. lia. Qed.

(* a store into the middle of the stream: the |bs| bytes after the prefix [a] are replaced *)
Lemma gput_mid (a d r bs : bytes) : len bs = len d -> gput (a ++ d ++ r) (glen a) bs = Ok (a ++ bs ++ r).
Proof.
  intros H. unfold gput, glen. destruct (Z.ltb_spec (Z.of_N (len a)) 0); [lia|]. rewrite N2Z.id. cbv zeta.
  rewrite !len_app. destruct (N.leb_spec (len a + len bs) (len a + (len d + len r))); [|lia].
  f_equal. rewrite take_app_len. f_equal. f_equal.
  replace (len a + len bs) with (len (a ++ d)) by (rewrite len_app; lia).
  rewrite app_assoc. apply drop_app_len.
Qed.

Lemma gput_end (a d bs : bytes) : len bs = len d -> gput (a ++ d) (glen a) bs = Ok (a ++ bs).
Proof. intros H. rewrite <- (app_nil_r d). rewrite (gput_mid a d [] bs H). rewrite app_nil_r. reflexivity. Qed.

Lemma gbe_len k v : len (gbe k v) = N.of_nat k.
Proof. unfold gbe. apply be_len. Qed.

(* the conversions of the encoder, generated vs hand *)
Lemma gbe2_len16 (s : bytes) : gbe 2 (wrapu 16 (glen s)) = be 2 (u16 (len s)).
Proof.
  unfold gbe, wrapu, glen, u16, two16. f_equal.
  rewrite <- (N2Z.id (len s mod 65536)). f_equal. rewrite N2Z.inj_mod. reflexivity.
Qed.

Lemma gbe2_small k : (0 <= k < 65536)%Z -> gbe 2 k = be 2 (u16 (Z.to_N k)).
Proof. intros H. unfold gbe, u16, two16. f_equal. rewrite N.mod_small by lia. reflexivity. Qed.

Lemma gbe2_unsigned z : gbe 2 (wrapu 16 z) = be 2 (to_unsigned 16 z).
Proof. unfold gbe. f_equal. Qed.

Lemma gregion_at_ok a n i : (0 <= i < n)%Z -> gregion_at (a, n) i = Ok (a + i)%Z.
Proof. intros H. unfold gregion_at. cbn [fst snd]. destruct (Z.ltb_spec i 0); [lia|]. destruct (Z.leb_spec n i); [lia|]. reflexivity. Qed.
Lemma gregion_need_ok a n k : (Z.of_nat k <= n)%Z -> gregion_need (a, n) k = Ok a.
Proof. intros H. unfold gregion_need. cbn [fst snd]. destruct (Z.ltb_spec n (Z.of_nat k)); [lia|]. reflexivity. Qed.
Lemma gregion_slice_ok a n lo hi : (0 <= lo <= hi)%Z -> (hi <= n)%Z -> gregion_slice (a, n) lo hi = Ok ((a + lo)%Z, (hi - lo)%Z).
Proof.
  intros H1 H2. unfold gregion_slice. cbn [fst snd].
  destruct (Z.ltb_spec lo 0); [lia|]. destruct (Z.ltb_spec hi lo); [lia|]. destruct (Z.ltb_spec n hi); [lia|]. reflexivity.
Qed.

(* ---------- strKVMap[GDPRToken] on the map and on its ordered entries ---------- *)
Lemma find_str_map (g : bytes -> bytes) k os :
  find_str k (map (fun k' => (k', g k')) os) = if in_dec (list_eq_dec N.eq_dec) k os then Some (g k) else None.
Proof.
  induction os as [|k0 r IH]; cbn [map find_str]; [reflexivity|].
  destruct (beqb k0 k) eqn:E.
  - apply beqb_eq in E. subst. destruct (in_dec (list_eq_dec N.eq_dec) k (k :: r)) as [_|n]; [reflexivity|]. exfalso. apply n. left. reflexivity.
  - rewrite IH. destruct (in_dec (list_eq_dec N.eq_dec) k r) as [i|n]; destruct (in_dec (list_eq_dec N.eq_dec) k (k0 :: r)) as [i'|n']; try reflexivity.
    + exfalso. apply n'. right. exact i.
    + exfalso. destruct i' as [->|i']; [|tauto]. assert (beqb k k = true) by (apply beqb_eq; reflexivity). congruence.
Qed.

Lemma find_str_ordered (ms : gmap bytes bytes) os k :
  gmap_order_ok ms os -> find_str k (ordered_entries beqb [] ms os) = gmap_find beqb ms k.
Proof.
  intros [_ HI]. unfold ordered_entries. rewrite find_str_map.
  pose proof (gmap_find_none_iff beqb beqb_eq' ms k) as FN.
  pose proof (gmap_find_some_get beqb ms k []) as FS.
  destruct (in_dec (list_eq_dec N.eq_dec) k os) as [i|n]; destruct (gmap_find beqb ms k) as [v|].
  - f_equal. exact (FS v eq_refl).
  - exfalso. apply (proj1 FN eq_refl). apply HI. exact i.
  - exfalso. apply n. apply HI.
    destruct (in_dec (list_eq_dec N.eq_dec) k (gmap_keys ms)) as [i|n']; [exact i|].
    apply FN in n'. discriminate.
  - reflexivity.
Qed.

Section Enc.
  (* the content of freshly Malloc'ed memory: any function of the writer's state and the size *)
  Variable dirt : bytes -> Z -> bytes.
  Hypothesis dirt_len : forall st n, (0 <= n)%Z -> glen (dirt st n) = n.

  (* the hand model's writer: the byte string appended so far; it never fails *)
  Definition xmalloc (st : bytes) (n : Z) : res (bytes * gregion * gerror) :=
    if (n <? 0)%Z then Panic 7 else Ok (st ++ dirt st n, (glen st, n), gnil).
  Definition xwb (st b : bytes) : res (bytes * Z * gerror) := Ok (st ++ b, glen b, gnil).
  Definition xpoke (st : bytes) (pos : Z) (bs : bytes) : res bytes := gput st pos bs.

  Lemma xpoke_eq st pos bs : xpoke st pos bs = gput st pos bs. Proof. reflexivity. Qed.

  Lemma xmalloc_ok st n : (0 <= n)%Z -> xmalloc st n = Ok (st ++ dirt st n, (glen st, n), gnil).
  Proof. intros H. unfold xmalloc. destruct (Z.ltb_spec n 0); [lia|reflexivity]. Qed.

  Lemma dirt_len' st n : (0 <= n)%Z -> len (dirt st n) = Z.to_N n.
  Proof. intros H. pose proof (dirt_len st n H) as E. unfold glen in E. lia. Qed.

  (* ---------- utils.go ---------- *)
  Lemma WriteByte_eq v st : g_ttheader_WriteByte bytes xmalloc xpoke v st = Ok (st ++ [gbyte v], gnil).
  Proof.
    cbv delta [g_ttheader_WriteByte] beta. sx. rewrite xmalloc_ok by lia. sx.
    rewrite gregion_at_ok by lia. sx. unfold xpoke. replace (glen st + 0)%Z with (glen st) by lia.
    rewrite gput_end by (rewrite dirt_len' by lia; reflexivity). reflexivity.
  Qed.

  Lemma WriteUint16_eq v st : g_ttheader_WriteUint16 bytes xmalloc xpoke v st = Ok (st ++ gbe 2 v, gnil).
  Proof.
    cbv delta [g_ttheader_WriteUint16] beta. sx. rewrite xmalloc_ok by lia. sx.
    rewrite gregion_need_ok by (cbn; lia). sx. unfold xpoke.
    rewrite gput_end by (rewrite dirt_len', gbe_len by lia; reflexivity). reflexivity.
  Qed.

  Lemma WriteUint32_eq v st : g_ttheader_WriteUint32 bytes xmalloc xpoke v st = Ok (st ++ gbe 4 v, gnil).
  Proof.
    cbv delta [g_ttheader_WriteUint32] beta. sx. rewrite xmalloc_ok by lia. sx.
    rewrite gregion_need_ok by (cbn; lia). sx. unfold xpoke.
    rewrite gput_end by (rewrite dirt_len', gbe_len by lia; reflexivity). reflexivity.
  Qed.

  Lemma WriteString2BLen_eq s st :
    g_ttheader_WriteString2BLen bytes xmalloc xwb xpoke s st
    = Ok (st ++ be 2 (u16 (len s)) ++ s, wraps 64 (glen s + 2), gnil).
  Proof.
    cbv delta [g_ttheader_WriteString2BLen] beta. sx. rewrite WriteUint16_eq. sx. unfold xwb. sx.
    rewrite gbe2_len16, app_assoc3. reflexivity.
  Qed.

  Lemma WriteString_eq s st :
    g_ttheader_WriteString bytes xmalloc xwb xpoke s st
    = Ok (st ++ gbe 4 (wrapu 32 (glen s)) ++ s, wraps 64 (glen s + 4), gnil).
  Proof.
    cbv delta [g_ttheader_WriteString] beta. sx. rewrite WriteUint32_eq. sx. unfold xwb. sx.
    rewrite app_assoc3. reflexivity.
  Qed.

  (* ---------- the two maps in the order of their oracles ---------- *)
  Definition str_entries (ms : gmap bytes bytes) (os : list bytes) : list (bytes * bytes) := ordered_entries beqb [] ms os.
  Definition int_entries (mi : gmap Z bytes) (oi : list Z) : list (N * bytes) :=
    map (fun k => (Z.to_N k, gmap_get Z.eqb mi k [])) oi.

  Lemma write_str_entries_cons k v r :
    write_str_entries ((k, v) :: r) =
    (if beqb k gdpr_key then write_str_entries r
     else ((be 2 (u16 (len k)) ++ k) ++ (be 2 (u16 (len v)) ++ v) ++ fst (write_str_entries r),
           (len k + 2) + (len v + 2) + snd (write_str_entries r))).
  Proof. cbn [write_str_entries]. destruct (write_str_entries r) as [rb rn]. unfold write_str2. destruct (beqb k gdpr_key); reflexivity. Qed.

  Lemma write_int_entries_cons k v r :
    write_int_entries ((k, v) :: r) =
    (be 2 (u16 k) ++ (be 2 (u16 (len v)) ++ v) ++ fst (write_int_entries r), 2 + (len v + 2) + snd (write_int_entries r)).
  Proof. cbn [write_int_entries]. destruct (write_int_entries r) as [rb rn]. unfold write_str2. reflexivity. Qed.

  (* for key, val := range strKVMap { if key == GDPRToken { continue }; WriteString2BLen(key); WriteString2BLen(val) } *)
  Lemma str_loop fuel ms : forall ks st ws,
    (Z.of_N (ws + snd (write_str_entries (str_entries ms ks))) < 2 ^ 63)%Z ->
    g_ttheader_writeKVInfo_loop1 bytes xmalloc xwb xpoke fuel ms ks st (Z.of_N ws) =
    Ok (inl (st ++ fst (write_str_entries (str_entries ms ks)), Z.of_N (ws + snd (write_str_entries (str_entries ms ks))))).
  Proof.
    induction ks as [|k ks IH]; intros st ws H.
    - cbn [g_ttheader_writeKVInfo_loop1 str_entries ordered_entries map write_str_entries fst snd]. rewrite app_nil_r, N.add_0_r. reflexivity.
    - cbn beta iota fix delta [g_ttheader_writeKVInfo_loop1]. hze.
      change (str_entries ms (k :: ks)) with ((k, gmap_get beqb ms k []) :: str_entries ms ks) in *.
      rewrite write_str_entries_cons in *.
      change ([82; 80; 67; 95; 84; 82; 65; 78; 83; 73; 84; 95; 103; 100; 112; 114; 45; 116; 111; 107; 101; 110] : bytes) with gdpr_key.
      destruct (beqb k gdpr_key); [apply IH; exact H|]. cbn [fst snd] in *.
      rewrite WriteString2BLen_eq. sx. rewrite WriteString2BLen_eq. sx.
      unfold glen in *. repeat wr64'.
      match goal with |- _ _ _ _ _ _ _ _ _ ?z = _ => replace z with (Z.of_N (ws + (len k + 2) + (len (gmap_get beqb ms k []) + 2))) by lia end.
      rewrite IH by (unfold bytes in *; lia). rewrite !app_assoc3. do 3 f_equal. f_equal. lia.
  Qed.

  (* for key, val := range intKVMap { WriteUint16(key); WriteString2BLen(val) }   (err is nil on entry, and stays nil) *)
  Lemma int_loop fuel mi : forall ks st ws,
    (forall k, In k ks -> (0 <= k < 65536)%Z) ->
    (Z.of_N (ws + snd (write_int_entries (int_entries mi ks))) < 2 ^ 63)%Z ->
    g_ttheader_writeKVInfo_loop2 bytes xmalloc xwb xpoke fuel mi ks st (Z.of_N ws) gnil =
    Ok (inl (st ++ fst (write_int_entries (int_entries mi ks)), Z.of_N (ws + snd (write_int_entries (int_entries mi ks))), gnil)).
  Proof.
    induction ks as [|k ks IH]; intros st ws Hk H.
    - cbn [g_ttheader_writeKVInfo_loop2 int_entries map write_int_entries fst snd]. rewrite app_nil_r, N.add_0_r. reflexivity.
    - cbn beta iota fix delta [g_ttheader_writeKVInfo_loop2]. hze.
      change (int_entries mi (k :: ks)) with ((Z.to_N k, gmap_get Z.eqb mi k []) :: int_entries mi ks) in *.
      rewrite write_int_entries_cons in *. cbn [fst snd] in *.
      rewrite WriteUint16_eq. sx. rewrite WriteString2BLen_eq. sx.
      rewrite gbe2_small by (apply Hk; left; reflexivity).
      unfold glen in *. repeat wr64'.
      match goal with |- _ _ _ _ _ _ _ _ _ ?z _ = _ => replace z with (Z.of_N (ws + 2 + (len (gmap_get Z.eqb mi k []) + 2))) by lia end.
      rewrite IH; [|intros k' Hk'; apply Hk; right; exact Hk'|unfold bytes in *; lia].
      rewrite !app_assoc3. do 3 f_equal. f_equal. lia.
  Qed.

  (* paddingBuf := out.Malloc(padding); for i := 0; i < len(paddingBuf); i++ { paddingBuf[i] = 0 } *)
  Lemma pad_loop fuel a n : (n < 2 ^ 62)%Z -> forall (d : bytes) lf (z : bytes) i,
    (length d < lf)%nat -> Z.of_N (len z) = i -> (i + Z.of_N (len d) = n)%Z ->
    g_ttheader_writeKVInfo_loop3 bytes xmalloc xwb xpoke fuel lf (a ++ z ++ d) (glen a, n) i =
    Ok (inl (a ++ z ++ repeat 0 (length d), (glen a, n), n)).
  Proof.
    intros Hn62. induction d as [|x d IH]; intros lf z i Hlf Hz Hn; (destruct lf as [|lf]; [cbn [length] in Hlf; lia|]);
      cbn beta iota fix delta [g_ttheader_writeKVInfo_loop3]; unfold gregion_len; cbn [snd].
    - rewrite len_nil in Hn. destruct (Z.ltb_spec i n); [lia|]. cbn [repeat length]. f_equal. f_equal. f_equal. lia.
    - rewrite len_cons in Hn. destruct (Z.ltb_spec i n); [|lia].
      rewrite gregion_at_ok by lia. sx. rewrite xpoke_eq.
      replace (glen a + i)%Z with (glen (a ++ z)) by (rewrite glen_app; unfold glen; lia).
      rewrite app_assoc. change (x :: d) with ([x] ++ d). rewrite gput_mid by reflexivity. sx.
      rewrite wraps64_small by (unfold glen in *; lia). change [gbyte 0] with [0].
      replace ((a ++ z) ++ [0] ++ d) with (a ++ (z ++ [0]) ++ d) by (rewrite <- !app_assoc; reflexivity).
      rewrite (IH lf (z ++ [0]) (i + 1)%Z); [|cbn [length] in Hlf; lia|rewrite len_app, len_cons, len_nil; lia|lia].
      cbn [length repeat]. rewrite <- !app_assoc. reflexivity.
  Qed.

  (* padding := (4 - writeSize%4) % 4 on a non-negative int *)
  Lemma pad_value ws : (Z.of_N ws < 2 ^ 63)%Z ->
    (do t_1 <- grem (Z.of_N ws) 4; do t_2 <- grem (wraps 64 (4 - wraps 64 t_1)) 4; Ok (wraps 64 t_2))
    = Ok (Z.of_N ((4 - ws mod 4) mod 4)).
  Proof.
    intros H. unfold grem. cbn [Z.eqb bind].
    assert (Z.rem (Z.of_N ws) 4 = Z.of_N (ws mod 4)) as E1.
    { rewrite Z.rem_mod_nonneg by lia. rewrite N2Z.inj_mod. reflexivity. }
    rewrite E1. pose proof (N.mod_upper_bound ws 4 ltac:(lia)) as B.
    rewrite (wraps64_small (Z.of_N (ws mod 4))) by lia. rewrite (wraps64_small (4 - Z.of_N (ws mod 4))) by lia.
    assert (Z.rem (4 - Z.of_N (ws mod 4)) 4 = Z.of_N ((4 - ws mod 4) mod 4)) as E2.
    { rewrite Z.rem_mod_nonneg by lia. rewrite N2Z.inj_mod. f_equal. lia. }
    rewrite E2. pose proof (N.mod_upper_bound (4 - ws mod 4) 4 ltac:(lia)) as B2.
    rewrite wraps64_small by lia. reflexivity.
  Qed.

  (* ---------- writeKVInfo ---------- *)
  Lemma len_str_entries ms os : len (str_entries ms os) = N.of_nat (length os).
  Proof. unfold str_entries, ordered_entries, len. rewrite map_length. reflexivity. Qed.
  Lemma len_int_entries mi oi : len (int_entries mi oi) = N.of_nat (length oi).
  Proof. unfold int_entries, len. rewrite map_length. reflexivity. Qed.
  Lemma find_str_entries ms os k : gmap_order_ok ms os -> find_str k (str_entries ms os) = gmap_find beqb ms k.
  Proof. apply find_str_ordered. Qed.

  Lemma pad_value_k {C} ws (K : Z -> res C) : (Z.of_N ws < 2 ^ 63)%Z ->
    (do t_1 <- grem (Z.of_N ws) 4; do t_2 <- grem (wraps 64 (4 - wraps 64 t_1)) 4; K t_2) = K (Z.of_N ((4 - ws mod 4) mod 4)).
  Proof.
    intros H. unfold grem. cbn [Z.eqb bind].
    assert (Z.rem (Z.of_N ws) 4 = Z.of_N (ws mod 4)) as E1.
    { rewrite Z.rem_mod_nonneg by lia. rewrite N2Z.inj_mod. reflexivity. }
    rewrite E1. pose proof (N.mod_upper_bound ws 4 ltac:(lia)) as B.
    rewrite (wraps64_small (Z.of_N (ws mod 4))) by lia. rewrite (wraps64_small (4 - Z.of_N (ws mod 4))) by lia.
    assert (Z.rem (4 - Z.of_N (ws mod 4)) 4 = Z.of_N ((4 - ws mod 4) mod 4)) as E2.
    { rewrite Z.rem_mod_nonneg by lia. rewrite N2Z.inj_mod. f_equal. lia. }
    rewrite E2. reflexivity.
  Qed.

  (* padding := (4 - writeSize%4) % 4; paddingBuf, err := out.Malloc(padding); zero it; writeSize += padding; return *)
  Lemma pad_tail fuel st ws :
    (4 < fuel)%nat -> (Z.of_N ws < 2 ^ 62)%Z ->
    (do t_1 <- grem (Z.of_N ws) 4;
     do t_2 <- grem (wraps 64 (4 - wraps 64 t_1)) 4;
     let v_padding := wraps 64 t_2 in
     do (v_out, t_3, t_4) <- xmalloc st v_padding;
     let v_paddingBuf := t_3 in
     let v_err := t_4 in
     if negb (is_nil v_err) then Ok (v_out, Z.of_N ws, v_err)
     else
       let v_i := 0%Z in
       do t_5 <- g_ttheader_writeKVInfo_loop3 bytes xmalloc xwb xpoke fuel fuel v_out v_paddingBuf v_i;
       match t_5 with
       | inl (v_out0, _, _) => let v_writeSize := wraps 64 (Z.of_N ws + v_padding) in Ok (v_out0, v_writeSize, v_err)
       | inr t_6 => Ok t_6
       end)
    = Ok (st ++ repeat 0 (N.to_nat ((4 - ws mod 4) mod 4)), Z.of_N (ws + (4 - ws mod 4) mod 4), gnil).
  Proof.
    intros Hf H. rewrite pad_value_k by lia. pose proof (N.mod_upper_bound (4 - ws mod 4) 4 ltac:(lia)) as B.
    set (pd := (4 - ws mod 4) mod 4) in *. sx. rewrite (wraps64_small (Z.of_N pd)) by lia.
    rewrite xmalloc_ok by lia. sx.
    pose proof (dirt_len' st (Z.of_N pd) ltac:(lia)) as DL. rewrite N2Z.id in DL.
    pose proof (pad_loop fuel st (Z.of_N pd) ltac:(lia) (dirt st (Z.of_N pd)) fuel [] 0%Z
                  ltac:(unfold len in DL; lia) eq_refl ltac:(lia)) as L.
    cbn [app] in L. rewrite L. sx. rewrite wraps64_small by lia.
    replace (length (dirt st (Z.of_N pd))) with (N.to_nat pd) by (unfold len in DL; lia).
    f_equal. f_equal. f_equal. lia.
  Qed.

  Lemma ltb_N_Z (n : nat) : (0 <? N.of_nat n) = (0 <? Z.of_nat n)%Z.
  Proof. destruct (N.ltb_spec 0 (N.of_nat n)); destruct (Z.ltb_spec 0 (Z.of_nat n)); lia. Qed.

  Lemma gbe2_ofnat n : gbe 2 (wrapu 16 (Z.of_nat n)) = be 2 (u16 (N.of_nat n)).
  Proof. rewrite <- nat_N_Z. unfold gbe, wrapu, u16, two16. f_equal. rewrite <- (N2Z.id (N.of_nat n mod 65536)). f_equal. rewrite N2Z.inj_mod. reflexivity. Qed.

  Lemma tou16_ofnat n : to_unsigned 16 (Z.of_nat n) = u16 (N.of_nat n).
  Proof. rewrite <- nat_N_Z. unfold to_unsigned, u16, two16. rewrite <- (N2Z.id (N.of_nat n mod 65536)). f_equal. rewrite N2Z.inj_mod. reflexivity. Qed.

  (* the leaf: the stream and the size computed by the generated code against the hand model's *)
  Ltac fin :=
    match goal with
    | |- Ok (_ ++ repeat 0 (N.to_nat ((4 - ?a mod 4) mod 4)), _, _) = Ok (_, Z.of_N (?b + _), _) =>
      replace a with b by (unfold bytes in *; lia)
    end;
    rewrite <- ?app_assoc; rewrite ?gbe2_ofnat, ?gbe2_unsigned, ?tou16_ofnat; reflexivity.

  Ltac step := sx; first [rewrite WriteByte_eq | rewrite WriteUint16_eq | rewrite WriteString2BLen_eq]; sx.
  (* make the current writeSize syntactically Z.of_N _ and run the padding tail *)
  Ltac do_pad Hf :=
    sx; repeat wr64';
    match goal with |- context [grem ?w 4] => replace w with (Z.of_N (Z.to_N w)) by (rewrite Z2N.id; [reflexivity|lia]) end;
    etransitivity; [apply (pad_tail _ _ _ Hf); lia|].
  Ltac ofN_arg_loop1 :=
    match goal with |- context [g_ttheader_writeKVInfo_loop1 _ _ _ _ _ _ _ _ ?z] =>
      replace z with (Z.of_N (Z.to_N z)) by (rewrite Z2N.id; [reflexivity|lia]) end.
  Ltac ofN_arg_loop2 :=
    match goal with |- context [g_ttheader_writeKVInfo_loop2 _ _ _ _ _ _ _ _ ?z _] =>
      replace z with (Z.of_N (Z.to_N z)) by (rewrite Z2N.id; [reflexivity|lia]) end.

  Theorem writeKVInfo_eq fuel ws mi ms st os oi :
    gmap_order_ok ms os -> gmap_order_ok mi oi -> (forall k, In k oi -> (0 <= k < 65536)%Z) -> (4 < fuel)%nat ->
    (Z.of_nat (length os) < 2 ^ 62)%Z -> (Z.of_nat (length oi) < 2 ^ 62)%Z ->
    (Z.of_N (snd (write_kv_info ws (int_entries mi oi) (str_entries ms os))) < 2 ^ 62)%Z ->
    g_ttheader_writeKVInfo bytes xmalloc xwb xpoke fuel (Z.of_N ws) mi ms st os oi =
    Ok (st ++ fst (write_kv_info ws (int_entries mi oi) (str_entries ms os)),
        Z.of_N (snd (write_kv_info ws (int_entries mi oi) (str_entries ms os))), gnil).
  Proof.
    intros Hos Hoi Hk Hf Hlo Hli Hsz.
    remember (write_kv_info ws (int_entries mi oi) (str_entries ms os)) as R eqn:ER.
    unfold write_kv_info in ER. rewrite (find_str_entries ms os gdpr_key Hos) in ER.
    rewrite len_str_entries, len_int_entries, nat_N_Z, ltb_N_Z in ER.
    cbv delta [g_ttheader_writeKVInfo] beta. sx.
    rewrite (gmap_len_order beqb beqb_eq' ms os Hos).
    change ([82; 80; 67; 95; 84; 82; 65; 78; 83; 73; 84; 95; 103; 100; 112; 114; 45; 116; 111; 107; 101; 110] : bytes) with gdpr_key.
    destruct (write_str_entries (str_entries ms os)) as [seb sen] eqn:Es.
    destruct (write_int_entries (int_entries mi oi)) as [ieb ien] eqn:Ei.
    pose proof (str_loop fuel ms os) as SL. rewrite Es in SL. cbn [fst snd] in SL.
    pose proof (int_loop fuel mi oi) as IL. rewrite Ei in IL. cbn [fst snd] in IL.
    destruct (gmap_find beqb ms gdpr_key) as [tok|] eqn:Ef; unfold write_str2 in ER; sx.
    - (* the ACL token *)
      step. step. rewrite (wraps64_small (Z.of_nat (length os) - 1)) by lia. rewrite Z.gtb_ltb.
      destruct (0 <? Z.of_nat (length os) - 1)%Z eqn:E1.
      + step. step.
        destruct (0 <? Z.of_nat (length oi))%Z eqn:E2; subst R; cbn [fst snd] in *; unfold glen in *; repeat wr64'.
        * ofN_arg_loop1. rewrite SL by lia. sx.
          rewrite (gmap_len_order Z.eqb Z.eqb_eq mi oi Hoi), Z.gtb_ltb, E2. step. step. repeat wr64'.
          ofN_arg_loop2. rewrite (IL _ _ Hk) by lia. sx. do_pad Hf. fin.
        * ofN_arg_loop1. rewrite SL by lia. sx.
          rewrite (gmap_len_order Z.eqb Z.eqb_eq mi oi Hoi), Z.gtb_ltb, E2. do_pad Hf. fin.
      + sx. rewrite (gmap_len_order Z.eqb Z.eqb_eq mi oi Hoi), Z.gtb_ltb.
        destruct (0 <? Z.of_nat (length oi))%Z eqn:E2; subst R; cbn [fst snd] in *; unfold glen in *; repeat wr64'.
        * step. step. repeat wr64'. ofN_arg_loop2. rewrite (IL _ _ Hk) by lia. sx. do_pad Hf. fin.
        * do_pad Hf. fin.
    - (* no ACL token *)
      rewrite Z.gtb_ltb.
      destruct (0 <? Z.of_nat (length os))%Z eqn:E1.
      + step. step.
        destruct (0 <? Z.of_nat (length oi))%Z eqn:E2; subst R; cbn [fst snd] in *; unfold glen in *; repeat wr64'.
        * ofN_arg_loop1. rewrite SL by lia. sx.
          rewrite (gmap_len_order Z.eqb Z.eqb_eq mi oi Hoi), Z.gtb_ltb, E2. step. step. repeat wr64'.
          ofN_arg_loop2. rewrite (IL _ _ Hk) by lia. sx. do_pad Hf. fin.
        * ofN_arg_loop1. rewrite SL by lia. sx.
          rewrite (gmap_len_order Z.eqb Z.eqb_eq mi oi Hoi), Z.gtb_ltb, E2. do_pad Hf. fin.
      + sx. rewrite (gmap_len_order Z.eqb Z.eqb_eq mi oi Hoi), Z.gtb_ltb.
        destruct (0 <? Z.of_nat (length oi))%Z eqn:E2; subst R; cbn [fst snd] in *; unfold glen in *; repeat wr64'.
        * step. step. repeat wr64'. ofN_arg_loop2. rewrite (IL _ _ Hk) by lia. sx. do_pad Hf. fin.
        * do_pad Hf. fin.
  Qed.

  (* ---------- Encode ---------- *)
  Lemma split14 (d : bytes) : len d = 14 ->
    exists t x1 x2 y, d = t ++ x1 ++ x2 ++ y /\ t = take 4 d /\ len t = 4 /\ len x1 = 4 /\ len x2 = 4 /\ len y = 2.
  Proof.
    intros H. exists (take 4 d), (take 4 (drop 4 d)), (take 4 (drop 8 d)), (drop 12 d).
    assert (d = take 4 d ++ take 4 (drop 4 d) ++ take 4 (drop 8 d) ++ drop 12 d) as E.
    { rewrite <- (take_drop 4 d) at 1. f_equal. rewrite <- (take_drop 4 (drop 4 d)) at 1. f_equal.
      rewrite drop_drop. change (4 + 4) with 8. rewrite <- (take_drop 4 (drop 8 d)) at 1. f_equal.
      rewrite drop_drop. reflexivity. }
    split; [exact E|]. split; [reflexivity|].
    rewrite !take_len by (rewrite ?drop_len by lia; lia). rewrite drop_len by lia. repeat split; lia.
  Qed.

  Definition enc_sim (st0 : bytes) (g : res (bytes * gregion * gerror)) (h : res bytes) : Prop :=
    match h with
    | Ok bs => g = Ok (st0 ++ bs, (glen st0, 4%Z), gnil)
    | Err e => exists st', g = Ok (st', gregion_nil, Some e)
    | _ => False
    end.

  Theorem Encode_sim fuel fl sq pid mi ms st0 os oi :
    (0 <= fl < 65536)%Z -> (0 <= pid < 256)%Z ->
    gmap_order_ok ms os -> gmap_order_ok mi oi -> (forall k, In k oi -> (0 <= k < 65536)%Z) -> (4 < fuel)%nat ->
    (Z.of_nat (length os) < 2 ^ 62)%Z -> (Z.of_nat (length oi) < 2 ^ 62)%Z ->
    wf (dirt st0 14) ->
    let p := {| p_flags := Z.to_N fl; p_seq := sq; p_pid := Z.to_N pid; p_int := int_entries mi oi; p_str := str_entries ms os |} in
    (Z.of_N (snd (write_kv_info 2 (p_int p) (p_str p))) < 2 ^ 62)%Z ->
    enc_sim st0 (g_ttheader_Encode bytes xmalloc xwb xpoke fuel fl sq pid mi ms st0 os oi)
            (encode (unbe (take 4 (dirt st0 14))) p).
  Proof.
    intros Hfl Hpid Hos Hoi Hk Hf Hlo Hli Wd p Hsz.
    pose proof (fun st => writeKVInfo_eq fuel 2 mi ms st os oi Hos Hoi Hk Hf Hlo Hli) as KV. cbn [p_int p_str p] in Hsz.
    unfold encode. cbn [p_int p_str p_flags p_seq p_pid p].
    destruct (write_kv_info 2 (int_entries mi oi) (str_entries ms os)) as [kvb size] eqn:Ekv. cbn [fst snd] in *.
    assert (forall st, g_ttheader_writeKVInfo bytes xmalloc xwb xpoke fuel 2 mi ms st os oi = Ok (st ++ kvb, Z.of_N size, gnil)) as KV'.
    { intros st. apply (KV st Hsz). }
    clear KV.
    destruct (split14 (dirt st0 14) ltac:(rewrite dirt_len' by lia; reflexivity)) as (t & x1 & x2 & y & Ed & Et & L0 & L1 & L2 & L3).
    assert (forall r, g_ttheader_Encode bytes xmalloc xwb xpoke fuel fl sq pid mi ms st0 os oi = r -> True) as _ by auto.
    assert (g_ttheader_Encode bytes xmalloc xwb xpoke fuel fl sq pid mi ms st0 os oi =
            let M := gbe 4 (wrapu 32 (268435456 + fl)) in let Q := gbe 4 (wrapu 32 sq) in
            if (Z.of_N size >? 65536)%Z
            then Ok (st0 ++ t ++ M ++ Q ++ y ++ [gbyte pid] ++ [gbyte 0] ++ kvb, gregion_nil, Some (ecode "ttheader.Encode#fmt.Errorf#6"))
            else Ok (st0 ++ t ++ M ++ Q ++ gbe 2 (wrapu 16 (Z.of_N (size / 4))) ++ [gbyte pid] ++ [gbyte 0] ++ kvb, (glen st0, 4%Z), gnil)) as RUN.
    { cbv delta [g_ttheader_Encode] beta. sx. rewrite xmalloc_ok by lia. sx. rewrite Ed.
      rewrite !gregion_slice_ok by lia. sx.
      rewrite gregion_need_ok by (cbn; lia). sx. rewrite xpoke_eq.
      replace (glen st0 + 4)%Z with (glen (st0 ++ t)) by (rewrite glen_app; unfold glen; lia).
      replace (st0 ++ t ++ x1 ++ x2 ++ y) with ((st0 ++ t) ++ x1 ++ (x2 ++ y)) by (rewrite <- !app_assoc; reflexivity).
      rewrite gput_mid by (rewrite gbe_len; lia). sx.
      rewrite gregion_need_ok by (cbn; lia). sx. rewrite xpoke_eq.
      set (M := gbe 4 (wrapu 32 (268435456 + fl))). set (Q := gbe 4 (wrapu 32 sq)).
      replace (glen st0 + 8)%Z with (glen (st0 ++ t ++ M)) by (rewrite !glen_app; unfold glen, M; rewrite gbe_len; lia).
      replace ((st0 ++ t) ++ M ++ x2 ++ y) with ((st0 ++ t ++ M) ++ x2 ++ y) by (rewrite <- !app_assoc; reflexivity).
      rewrite gput_mid by (unfold Q; rewrite gbe_len; lia). sx.
      rewrite WriteByte_eq. sx. rewrite WriteByte_eq. sx.
      cbn [g_ttheader_Encode_loop1]. sx. change (glen (@nil N)) with 0%Z. rewrite (wraps64_small (2 + 0)) by lia.
      change (2 + 0)%Z with (Z.of_N 2). rewrite KV'. sx.
      destruct (Z.of_N size >? 65536)%Z; [rewrite <- !app_assoc; reflexivity|].
      unfold gquot. cbn [Z.eqb bind]. rewrite Z.quot_div_nonneg by lia.
      replace (Z.of_N size / 4)%Z with (Z.of_N (size / 4)) by (rewrite N2Z.inj_div; reflexivity).
      assert (size / 4 <= size) as Hq by (apply N.div_le_upper_bound; lia).
      rewrite wraps64_small by lia. rewrite gregion_need_ok by (cbn; lia). sx. rewrite xpoke_eq.
      replace (glen st0 + 12)%Z with (glen (st0 ++ t ++ M ++ Q)) by (rewrite !glen_app; unfold glen, M, Q; rewrite !gbe_len; lia).
      replace (((((st0 ++ t ++ M) ++ Q ++ y) ++ [gbyte pid]) ++ [gbyte (wrapu 8 0)]) ++ kvb)
        with ((st0 ++ t ++ M ++ Q) ++ y ++ ([gbyte pid] ++ [gbyte 0] ++ kvb)) by (rewrite <- !app_assoc; reflexivity).
      rewrite gput_mid by (rewrite gbe_len; lia). sx.
      rewrite <- !app_assoc. replace (glen st0 + 0)%Z with (glen st0) by lia. reflexivity. }
    rewrite RUN. clear RUN KV'. cbv zeta. unfold enc_sim.
    rewrite Z.gtb_ltb. change 65536%Z with (Z.of_N c_max).
    replace (Z.of_N c_max <? Z.of_N size)%Z with (c_max <? size)
      by (destruct (N.ltb_spec c_max size); destruct (Z.ltb_spec (Z.of_N c_max) (Z.of_N size)); lia).
    destruct (c_max <? size); [eexists; reflexivity|].
    f_equal. f_equal. f_equal.
    assert (be 4 (unbe (take 4 (dirt st0 14))) = t) as ->.
    { rewrite <- Et. replace 4%nat with (length t) by (unfold len in L0; lia). apply be_unbe.
      rewrite Et. apply wf_take. exact Wd. }
    assert (gbe 4 (wrapu 32 (268435456 + fl)) = be 4 (u32 (c_magic + Z.to_N fl))) as ->.
    { unfold gbe, wrapu, u32, c_magic, two32. f_equal. change (Z.to_N ttheader_TTHeaderMagic) with 268435456.
      rewrite <- (N2Z.id ((268435456 + Z.to_N fl) mod 4294967296)). f_equal. rewrite N2Z.inj_mod. f_equal. lia. }
    assert (gbe 2 (wrapu 16 (Z.of_N (size / 4))) = be 2 (u16 (size / 4))) as ->.
    { unfold gbe, wrapu, u16, two16. f_equal. rewrite <- (N2Z.id ((size / 4) mod 65536)). f_equal. rewrite N2Z.inj_mod. reflexivity. }
    reflexivity.
  Qed.
End Enc.
