(* Proofs/GrammarP.v — lemmas about Spec/ThriftGrammar.v. *)
From Coq Require Import ZifyN ZifyNat ZifyBool.
From GV Require Import Lib.Bytes Lib.Res Gen.Consts Spec.ThriftGrammar.
Open Scope N_scope.

(* ---------- tie to the regenerated Go constants ---------- *)
(* The grammar's literals are the Go constants, and the Go table typeToSize is exactly
   [fixed_width] on all 256 bytes.  Broken by any change of a type code or table entry. *)
Lemma grammar_consts_ok :
  Z.of_N T_STOP = thrift_STOP /\ Z.of_N T_BOOL = thrift_BOOL /\ Z.of_N T_BYTE = thrift_BYTE /\
  Z.of_N T_DOUBLE = thrift_DOUBLE /\ Z.of_N T_I16 = thrift_I16 /\ Z.of_N T_I32 = thrift_I32 /\
  Z.of_N T_I64 = thrift_I64 /\ Z.of_N T_STRING = thrift_STRING /\ Z.of_N T_STRUCT = thrift_STRUCT /\
  Z.of_N T_MAP = thrift_MAP /\ Z.of_N T_SET = thrift_SET /\ Z.of_N T_LIST = thrift_LIST /\
  thrift_typeToSize = map (fun i => Z.of_N (fixed_width (N.of_nat i))) (seq 0 256).
Proof. vm_compute. repeat split; reflexivity. Qed.

Lemma typeToSize_fixed_width t :
  t < 256 -> nth (N.to_nat t) thrift_typeToSize 0%Z = Z.of_N (fixed_width t).
Proof.
  intros Ht. destruct grammar_consts_ok as (_&_&_&_&_&_&_&_&_&_&_&_&->).
  rewrite (nth_indep _ 0%Z (Z.of_N (fixed_width (N.of_nat 0)))) by (rewrite map_length, seq_length; lia).
  rewrite (map_nth (fun i => Z.of_N (fixed_width (N.of_nat i)))).
  rewrite seq_nth by lia. cbn [Nat.add]. now rewrite N2Nat.id.
Qed.

(* ---------- hasn ---------- *)
Lemma hasn_spec r n : hasn r n = (n <=? len r).
Proof.
  revert n; induction r as [|x r IH]; intros n; cbn [hasn].
  - destruct (N.eqb_spec n 0) as [->|Hn]; [reflexivity|].
    rewrite len_nil. symmetry. apply N.leb_gt. lia.
  - destruct (N.eqb_spec n 0) as [->|Hn]; [reflexivity|].
    rewrite IH, len_cons.
    destruct (N.leb_spec (N.pred n) (len r)); destruct (N.leb_spec n (1 + len r)); try reflexivity; lia.
Qed.

Lemma hasn_true r n : hasn r n = true <-> n <= len r.
Proof. rewrite hasn_spec. apply N.leb_le. Qed.
Lemma hasn_false r n : hasn r n = false <-> len r < n.
Proof. rewrite hasn_spec. apply N.leb_gt. Qed.

Lemma hasn_app_len a b : hasn (a ++ b) (len a) = true.
Proof. apply hasn_true. rewrite len_app. lia. Qed.

(* ---------- bind inversion ---------- *)
Lemma bind_ok {A B} (r : res A) (k : A -> res B) b :
  bind r k = Ok b -> exists a, r = Ok a /\ k a = Ok b.
Proof. destruct r as [a|e|w|]; cbn [bind]; intros H; try discriminate. now exists a. Qed.

Ltac inv_bind H :=
  let a := fresh "a" in let Ha := fresh "Ha" in
  apply bind_ok in H; destruct H as (a & Ha & H).

Lemma ok_pair_inj {A B} (a a' : A) (b b' : B) : @Ok (A * B) (a, b) = Ok (a', b') -> a = a' /\ b = b'.
Proof. intros H. inversion H. auto. Qed.

(* H : Ok (e1, e2) = Ok (n, h) with n, h variables: substitute them, without reducing e1/e2 *)
Ltac inv_ok H :=
  let H1 := fresh in let H2 := fresh in
  apply ok_pair_inj in H; destruct H as [H1 H2]; subst.

(* ---------- extents: every accepted value is non-empty and inside the input ---------- *)
Definition bounded (e : bytes -> pres) : Prop :=
  forall r n h, e r = Ok (n, h) -> 1 <= n <= len r.

Lemma gpair_bounded e1 e2 : bounded e1 -> bounded e2 -> bounded (gpair e1 e2).
Proof.
  intros B1 B2 r n h H. unfold gpair in H.
  inv_bind H. destruct a as [n1 h1]. inv_bind H. destruct a as [n2 h2].
  inv_ok H.
  apply B1 in Ha. apply B2 in Ha0. rewrite drop_len in Ha0 by lia. lia.
Qed.

Lemma gelems_bounds f elem : bounded elem ->
  forall cnt r n h, gelems f elem cnt r = Ok (n, h) -> n <= len r.
Proof.
  intros Be. induction f as [|f IH]; intros cnt r n h H; cbn [gelems] in H.
  - destruct (cnt =? 0); [inv_ok H; lia|discriminate].
  - destruct (cnt =? 0); [inv_ok H; lia|].
    inv_bind H. destruct a as [n1 h1]. inv_bind H. destruct a as [n2 h2].
    inv_ok H.
    apply Be in Ha. apply IH in Ha0. rewrite drop_len in Ha0 by lia. lia.
Qed.

Lemma gfields_bounds f elem : (forall ft, bounded (elem ft)) ->
  forall r n h, gfields f elem r = Ok (n, h) -> 1 <= n <= len r.
Proof.
  intros Be. induction f as [|f IH]; intros r n h H; cbn [gfields] in H; [discriminate|].
  destruct r as [|ft r1]; [discriminate|]. rewrite len_cons.
  destruct (ft =? T_STOP); [inv_ok H; lia|].
  destruct (hasn r1 2) eqn:H2; [|discriminate]. apply hasn_true in H2.
  inv_bind H. destruct a as [n1 h1]. inv_bind H. destruct a as [n2 h2].
  inv_ok H.
  apply Be in Ha. apply IH in Ha0.
  assert (Hd : len (drop 2 r1) = len r1 - 2) by (apply drop_len; lia).
  rewrite Hd in Ha. rewrite drop_len in Ha0 by (rewrite Hd; lia). rewrite Hd in Ha0. lia.
Qed.

Lemma gstring_bounds : bounded gstring.
Proof.
  intros r n h H. unfold gstring in H.
  destruct (hasn r 4) eqn:H4; [|discriminate]. apply hasn_true in H4.
  destruct (two31 <=? unbe (take 4 r)); [discriminate|].
  destruct (hasn (drop 4 r) (unbe (take 4 r))) eqn:Hn; [|discriminate]. apply hasn_true in Hn.
  rewrite drop_len in Hn by lia. inv_ok H. lia.
Qed.

Lemma gp_bounds f : forall t, bounded (gp f t).
Proof.
  induction f as [|f IH]; intros t r n h H; cbn [gp] in H; [discriminate|].
  destruct (kind_of t) as [w| | | | |] eqn:Hk.
  - destruct (hasn r w) eqn:Hw; [|discriminate]. apply hasn_true in Hw. inv_ok H.
    assert (1 <= n); [|lia].
    unfold kind_of in Hk.
    repeat match type of Hk with (if ?c then _ else _) = _ => destruct c end;
      inversion Hk; subst; lia.
  - now apply gstring_bounds in H.
  - inv_bind H. destruct a as [n1 h1]. inv_ok H.
    now apply (gfields_bounds _ _ IH) in Ha.
  - destruct r as [|kt [|vt r2]]; try discriminate. rewrite !len_cons.
    destruct (hasn r2 4) eqn:H4; [|discriminate]. apply hasn_true in H4.
    destruct (two31 <=? unbe (take 4 r2)); [discriminate|].
    inv_bind H. destruct a as [n1 h1]. inv_ok H.
    apply gelems_bounds in Ha; [|apply gpair_bounded; apply IH].
    rewrite drop_len in Ha by lia. lia.
  - destruct r as [|et r1]; try discriminate. rewrite !len_cons.
    destruct (hasn r1 4) eqn:H4; [|discriminate]. apply hasn_true in H4.
    destruct (two31 <=? unbe (take 4 r1)); [discriminate|].
    inv_bind H. destruct a as [n1 h1]. inv_ok H.
    apply gelems_bounds in Ha; [|apply IH].
    rewrite drop_len in Ha by lia. lia.
  - discriminate.
Qed.

Lemma gparse_bounds t r n h : gparse t r = Ok (n, h) -> 1 <= n <= len r.
Proof. apply gp_bounds. Qed.

(* ---------- small list facts ---------- *)
Lemma drop_length {A} n (l : list A) : length (drop n l) = (length l - N.to_nat n)%nat.
Proof. unfold drop. apply skipn_length. Qed.

Lemma drop_app_le {A} n (p s : list A) : n <= len p -> drop n (p ++ s) = drop n p ++ s.
Proof.
  unfold drop, len. intros H. rewrite skipn_app.
  replace (N.to_nat n - length p)%nat with O by lia. reflexivity.
Qed.

Lemma take_app_le {A} n (p s : list A) : n <= len p -> take n (p ++ s) = take n p.
Proof.
  unfold take, len. intros H. rewrite firstn_app.
  replace (N.to_nat n - length p)%nat with O by lia. cbn [firstn]. apply app_nil_r.
Qed.

Lemma len_length {A} (l : list A) : len l = N.of_nat (length l).
Proof. reflexivity. Qed.

(* ---------- fuel: any fuel above the input length gives the same result ---------- *)
Lemma gpair_ext e1 e2 e1' e2' r :
  e1 r = e1' r -> (forall n, e2 (drop n r) = e2' (drop n r)) -> gpair e1 e2 r = gpair e1' e2' r.
Proof.
  intros H1 H2. unfold gpair. rewrite H1. destruct (e1' r) as [[n h]| | |]; cbn [bind]; try reflexivity.
  now rewrite H2.
Qed.

Lemma gelems_fuel ea eb : bounded ea ->
  forall fa fb cnt r, (length r < fa)%nat -> (length r < fb)%nat ->
  (forall r', (length r' <= length r)%nat -> ea r' = eb r') ->
  gelems fa ea cnt r = gelems fb eb cnt r.
Proof.
  intros Ba. induction fa as [|fa IH]; intros fb cnt r Ha Hb He; [lia|].
  destruct fb as [|fb]; [lia|]. cbn [gelems].
  destruct (cnt =? 0); [reflexivity|].
  rewrite <- (He r) by lia.
  destruct (ea r) as [[n h]| | |] eqn:E; cbn [bind]; try reflexivity.
  apply Ba in E.
  assert (Hl : (length (drop n r) < length r)%nat).
  { rewrite drop_length. unfold len in E. lia. }
  rewrite (IH fb (N.pred cnt) (drop n r)); [reflexivity|lia|lia|].
  intros r' Hr'. apply He. lia.
Qed.

Lemma gfields_fuel ea eb : (forall ft, bounded (ea ft)) ->
  forall fa fb r, (length r < fa)%nat -> (length r < fb)%nat ->
  (forall ft r', (length r' < length r)%nat -> ea ft r' = eb ft r') ->
  gfields fa ea r = gfields fb eb r.
Proof.
  intros Ba. induction fa as [|fa IH]; intros fb r Ha Hb He; [lia|].
  destruct fb as [|fb]; [lia|]. cbn [gfields].
  destruct r as [|ft r1]; [reflexivity|].
  destruct (ft =? T_STOP); [reflexivity|].
  destruct (hasn r1 2) eqn:H2; [|reflexivity]. apply hasn_true in H2.
  assert (Hd : (length (drop 2 r1) < length (ft :: r1))%nat).
  { rewrite drop_length. cbn [length]. lia. }
  rewrite <- (He ft (drop 2 r1)) by exact Hd.
  destruct (ea ft (drop 2 r1)) as [[n h]| | |] eqn:E; cbn [bind]; try reflexivity.
  apply Ba in E.
  assert (Hl : (length (drop n (drop 2 r1)) < length (drop 2 r1))%nat).
  { rewrite (drop_length n). unfold len in E. lia. }
  rewrite (IH fb (drop n (drop 2 r1))); [reflexivity|cbn [length] in *; lia|cbn [length] in *; lia|].
  intros ft' r' Hr'. apply He. lia.
Qed.

Lemma gp_fuel_irrel : forall f1 f2 t r,
  (length r < f1)%nat -> (length r < f2)%nat -> gp f1 t r = gp f2 t r.
Proof.
  induction f1 as [|a IH]; intros f2 t r H1 H2; [lia|].
  destruct f2 as [|b]; [lia|]. cbn [gp].
  destruct (kind_of t) as [w| | | | |]; try reflexivity.
  - rewrite (gfields_fuel (gp a) (gp b) (gp_bounds a) (S a) (S b) r H1 H2); [reflexivity|].
    intros ft r' Hr'. apply IH; lia.
  - destruct r as [|kt [|vt r2]]; try reflexivity.
    destruct (hasn r2 4) eqn:H4; [|reflexivity].
    destruct (two31 <=? unbe (take 4 r2)); [reflexivity|].
    assert (Hd : (length (drop 4 r2) <= length r2)%nat) by (rewrite drop_length; lia).
    cbn [length] in H1, H2.
    rewrite (gelems_fuel (gpair (gp a kt) (gp a vt)) (gpair (gp b kt) (gp b vt))
               (gpair_bounded _ _ (gp_bounds a kt) (gp_bounds a vt)) (S a) (S b)); [reflexivity|lia|lia|].
    intros r' Hr'. apply gpair_ext.
    + apply IH; lia.
    + intros n. apply IH; rewrite drop_length; lia.
  - destruct r as [|et r1]; try reflexivity.
    destruct (hasn r1 4) eqn:H4; [|reflexivity].
    destruct (two31 <=? unbe (take 4 r1)); [reflexivity|].
    assert (Hd : (length (drop 4 r1) <= length r1)%nat) by (rewrite drop_length; lia).
    cbn [length] in H1, H2.
    rewrite (gelems_fuel (gp a et) (gp b et) (gp_bounds a et) (S a) (S b)); [reflexivity|lia|lia|].
    intros r' Hr'. apply IH; lia.
Qed.

Lemma gp_gparse f t r : (length r < f)%nat -> gp f t r = gparse t r.
Proof. intros H. unfold gparse. apply gp_fuel_irrel; lia. Qed.

(* fuel never runs out *)
Lemma gelems_nofuel elem : bounded elem ->
  forall f cnt r, (length r < f)%nat ->
  (forall r', (length r' <= length r)%nat -> elem r' <> Err E_FUEL) ->
  gelems f elem cnt r <> Err E_FUEL.
Proof.
  intros Be. induction f as [|f IH]; intros cnt r Hf Hn; [lia|]. cbn [gelems].
  destruct (cnt =? 0); [discriminate|].
  destruct (elem r) as [[n h]|e| |] eqn:E; cbn [bind]; try discriminate.
  - apply Be in E.
    assert (Hl : (length (drop n r) < length r)%nat) by (rewrite drop_length; unfold len in E; lia).
    assert (IH' : gelems f elem (N.pred cnt) (drop n r) <> Err E_FUEL).
    { apply IH; [lia|]. intros r' Hr'. apply Hn. lia. }
    destruct (gelems f elem (N.pred cnt) (drop n r)) as [[m h']|e| |]; cbn [bind]; try discriminate.
    intros H. apply IH'. exact H.
  - intros H. apply (Hn r); [lia|]. rewrite E. exact H.
Qed.

Lemma gfields_nofuel elem : (forall ft, bounded (elem ft)) ->
  forall f r, (length r < f)%nat ->
  (forall ft r', (length r' < length r)%nat -> elem ft r' <> Err E_FUEL) ->
  gfields f elem r <> Err E_FUEL.
Proof.
  intros Be. induction f as [|f IH]; intros r Hf Hn; [lia|]. cbn [gfields].
  destruct r as [|ft r1]; [discriminate|].
  destruct (ft =? T_STOP); [discriminate|].
  destruct (hasn r1 2) eqn:H2; [|discriminate]. apply hasn_true in H2.
  assert (Hd : (length (drop 2 r1) < length (ft :: r1))%nat) by (rewrite drop_length; cbn [length]; lia).
  destruct (elem ft (drop 2 r1)) as [[n h]|e| |] eqn:E; cbn [bind]; try discriminate.
  - apply Be in E.
    assert (Hl : (length (drop n (drop 2 r1)) < length (drop 2 r1))%nat).
    { rewrite (drop_length n). unfold len in E. lia. }
    assert (IH' : gfields f elem (drop n (drop 2 r1)) <> Err E_FUEL).
    { apply IH; [cbn [length] in *; lia|]. intros ft' r' Hr'. apply Hn. lia. }
    destruct (gfields f elem (drop n (drop 2 r1))) as [[m h']|e| |]; cbn [bind]; try discriminate.
    intros H. apply IH'. exact H.
  - intros H. apply (Hn ft (drop 2 r1) Hd). rewrite E. exact H.
Qed.

Lemma gpair_nofuel e1 e2 r : bounded e1 -> e1 r <> Err E_FUEL ->
  (forall n, 1 <= n -> e2 (drop n r) <> Err E_FUEL) -> gpair e1 e2 r <> Err E_FUEL.
Proof.
  intros B1 H1 H2. unfold gpair.
  destruct (e1 r) as [[n h]|e| |] eqn:E; cbn [bind]; try discriminate; [|congruence].
  apply B1 in E. specialize (H2 n (proj1 E)).
  destruct (e2 (drop n r)) as [[m h']|e| |]; cbn [bind]; try discriminate. congruence.
Qed.

Lemma gp_nofuel : forall f t r, (length r < f)%nat -> gp f t r <> Err E_FUEL.
Proof.
  induction f as [|a IH]; intros t r Hf; [lia|]. cbn [gp].
  destruct (kind_of t) as [w| | | | |]; try discriminate.
  - destruct (hasn r w); discriminate.
  - unfold gstring. destruct (hasn r 4); [|discriminate].
    destruct (two31 <=? unbe (take 4 r)); [discriminate|].
    destruct (hasn (drop 4 r) (unbe (take 4 r))); discriminate.
  - assert (H : gfields (S a) (gp a) r <> Err E_FUEL).
    { apply gfields_nofuel; [apply gp_bounds|lia|]. intros ft r' Hr'. apply IH. lia. }
    destruct (gfields (S a) (gp a) r) as [[n h]|e| |]; cbn [bind]; try discriminate. congruence.
  - destruct r as [|kt [|vt r2]]; try discriminate.
    destruct (hasn r2 4); [|discriminate].
    destruct (two31 <=? unbe (take 4 r2)); [discriminate|].
    cbn [length] in Hf.
    assert (Hd : (length (drop 4 r2) <= length r2)%nat) by (rewrite drop_length; lia).
    assert (H : gelems (S a) (gpair (gp a kt) (gp a vt)) (unbe (take 4 r2)) (drop 4 r2) <> Err E_FUEL).
    { apply gelems_nofuel; [apply gpair_bounded; apply gp_bounds|lia|].
      intros r' Hr'. apply gpair_nofuel; [apply gp_bounds|apply IH; lia|].
      intros n Hn. apply IH. rewrite drop_length. lia. }
    destruct (gelems (S a) _ _ _) as [[n h]|e| |]; cbn [bind]; try discriminate. congruence.
  - destruct r as [|et r1]; try discriminate.
    destruct (hasn r1 4); [|discriminate].
    destruct (two31 <=? unbe (take 4 r1)); [discriminate|].
    cbn [length] in Hf.
    assert (Hd : (length (drop 4 r1) <= length r1)%nat) by (rewrite drop_length; lia).
    assert (H : gelems (S a) (gp a et) (unbe (take 4 r1)) (drop 4 r1) <> Err E_FUEL).
    { apply gelems_nofuel; [apply gp_bounds|lia|]. intros r' Hr'. apply IH. lia. }
    destruct (gelems (S a) _ _ _) as [[n h]|e| |]; cbn [bind]; try discriminate. congruence.
Qed.

Lemma gparse_fuel t r : gparse t r <> Err E_FUEL.
Proof. apply gp_nofuel. lia. Qed.
