(* Proofs/GrammarP.v — lemmas about Spec/ThriftGrammar.v. *)
From Coq Require Import ZifyN ZifyNat ZifyBool.
From GV Require Import Lib.Bytes Lib.Res Gen.Consts Spec.ThriftGrammar.
Open Scope N_scope.

(* ---------- tie to the regenerated Go constants ---------- *)
(* The grammar's literals are the Go constants, and the Go table typeToSize is exactly
   [fixed_width] on all 256 bytes.  Broken by any change of a type code or table entry. *)
Lemma grammar_consts_ok :
  Z.of_N T_STOP = thrift_STOP /\ Z.of_N T_BOOL = thrift_BOOL /\ Z.of_N T_BYTE = thrift_BYTE /\
  Z.of_N T_DOUBLE = thrift_DOUBLE /\ Z.of_N T_I16 = thrift_I16 /\ Z.of_N T_I32 = thrift_I32 /\
  Z.of_N T_I64 = thrift_I64 /\ Z.of_N T_STRING = thrift_STRING /\ Z.of_N T_STRUCT = thrift_STRUCT /\
  Z.of_N T_MAP = thrift_MAP /\ Z.of_N T_SET = thrift_SET /\ Z.of_N T_LIST = thrift_LIST /\
  thrift_typeToSize = map (fun i => Z.of_N (fixed_width (N.of_nat i))) (seq 0 256).
Proof. vm_compute. repeat split; reflexivity. Qed.

Lemma typeToSize_fixed_width t :
  t < 256 -> nth (N.to_nat t) thrift_typeToSize 0%Z = Z.of_N (fixed_width t).
Proof.
  intros Ht. destruct grammar_consts_ok as (_&_&_&_&_&_&_&_&_&_&_&_&->).
  rewrite (nth_indep _ 0%Z (Z.of_N (fixed_width (N.of_nat 0)))) by (rewrite map_length, seq_length; lia).
  rewrite (map_nth (fun i => Z.of_N (fixed_width (N.of_nat i)))).
  rewrite seq_nth by lia. cbn [Nat.add]. now rewrite N2Nat.id.
Qed.

(* ---------- hasn ---------- *)
Lemma hasn_spec r n : hasn r n = (n <=? len r).
Proof.
  revert n; induction r as [|x r IH]; intros n; cbn [hasn].
  - destruct (N.eqb_spec n 0) as [->|Hn]; [reflexivity|].
    rewrite len_nil. symmetry. apply N.leb_gt. lia.
  - destruct (N.eqb_spec n 0) as [->|Hn]; [reflexivity|].
    rewrite IH, len_cons.
    destruct (N.leb_spec (N.pred n) (len r)); destruct (N.leb_spec n (1 + len r)); try reflexivity; lia.
Qed.

Lemma hasn_true r n : hasn r n = true <-> n <= len r.
Proof. rewrite hasn_spec. apply N.leb_le. Qed.
Lemma hasn_false r n : hasn r n = false <-> len r < n.
Proof. rewrite hasn_spec. apply N.leb_gt. Qed.

Lemma hasn_app_len a b : hasn (a ++ b) (len a) = true.
Proof. apply hasn_true. rewrite len_app. lia. Qed.

(* ---------- bind inversion ---------- *)
Lemma bind_ok {A B} (r : res A) (k : A -> res B) b :
  bind r k = Ok b -> exists a, r = Ok a /\ k a = Ok b.
Proof. destruct r as [a|e|w|]; cbn [bind]; intros H; try discriminate. now exists a. Qed.

Ltac inv_bind H :=
  let a := fresh "a" in let Ha := fresh "Ha" in
  apply bind_ok in H; destruct H as (a & Ha & H).

Lemma ok_pair_inj {A B} (a a' : A) (b b' : B) : @Ok (A * B) (a, b) = Ok (a', b') -> a = a' /\ b = b'.
Proof. intros H. inversion H. auto. Qed.

(* H : Ok (e1, e2) = Ok (n, h) with n, h variables: substitute them, without reducing e1/e2 *)
Ltac inv_ok H :=
  let H1 := fresh in let H2 := fresh in
  apply ok_pair_inj in H; destruct H as [H1 H2]; subst.

(* ---------- extents: every accepted value is non-empty and inside the input ---------- *)
Definition bounded (e : bytes -> pres) : Prop :=
  forall r n h, e r = Ok (n, h) -> 1 <= n <= len r.

Lemma gpair_bounded e1 e2 : bounded e1 -> bounded e2 -> bounded (gpair e1 e2).
Proof.
  intros B1 B2 r n h H. unfold gpair in H.
  inv_bind H. destruct a as [n1 h1]. inv_bind H. destruct a as [n2 h2].
  inv_ok H.
  apply B1 in Ha. apply B2 in Ha0. rewrite drop_len in Ha0 by lia. lia.
Qed.

Lemma gelems_bounds f elem : bounded elem ->
  forall cnt r n h, gelems f elem cnt r = Ok (n, h) -> n <= len r.
Proof.
  intros Be. induction f as [|f IH]; intros cnt r n h H; cbn [gelems] in H.
  - destruct (cnt =? 0); [inv_ok H; lia|discriminate].
  - destruct (cnt =? 0); [inv_ok H; lia|].
    inv_bind H. destruct a as [n1 h1]. inv_bind H. destruct a as [n2 h2].
    inv_ok H.
    apply Be in Ha. apply IH in Ha0. rewrite drop_len in Ha0 by lia. lia.
Qed.

Lemma gfields_bounds f elem : (forall ft, bounded (elem ft)) ->
  forall r n h, gfields f elem r = Ok (n, h) -> 1 <= n <= len r.
Proof.
  intros Be. induction f as [|f IH]; intros r n h H; cbn [gfields] in H; [discriminate|].
  destruct r as [|ft r1]; [discriminate|]. rewrite len_cons.
  destruct (ft =? T_STOP); [inv_ok H; lia|].
  destruct (hasn r1 2) eqn:H2; [|discriminate]. apply hasn_true in H2.
  inv_bind H. destruct a as [n1 h1]. inv_bind H. destruct a as [n2 h2].
  inv_ok H.
  apply Be in Ha. apply IH in Ha0.
  assert (Hd : len (drop 2 r1) = len r1 - 2) by (apply drop_len; lia).
  rewrite Hd in Ha. rewrite drop_len in Ha0 by (rewrite Hd; lia). rewrite Hd in Ha0. lia.
Qed.

Lemma gstring_bounds : bounded gstring.
Proof.
  intros r n h H. unfold gstring in H.
  destruct (hasn r 4) eqn:H4; [|discriminate]. apply hasn_true in H4.
  destruct (two31 <=? unbe (take 4 r)); [discriminate|].
  destruct (hasn (drop 4 r) (unbe (take 4 r))) eqn:Hn; [|discriminate]. apply hasn_true in Hn.
  rewrite drop_len in Hn by lia. inv_ok H. lia.
Qed.

Lemma gp_bounds f : forall t, bounded (gp f t).
Proof.
  induction f as [|f IH]; intros t r n h H; cbn [gp] in H; [discriminate|].
  destruct (kind_of t) as [w| | | | |] eqn:Hk.
  - destruct (hasn r w) eqn:Hw; [|discriminate]. apply hasn_true in Hw. inv_ok H.
    assert (1 <= n); [|lia].
    unfold kind_of in Hk.
    repeat match type of Hk with (if ?c then _ else _) = _ => destruct c end;
      inversion Hk; subst; lia.
  - now apply gstring_bounds in H.
  - inv_bind H. destruct a as [n1 h1]. inv_ok H.
    now apply (gfields_bounds _ _ IH) in Ha.
  - destruct r as [|kt [|vt r2]]; try discriminate. rewrite !len_cons.
    destruct (hasn r2 4) eqn:H4; [|discriminate]. apply hasn_true in H4.
    destruct (two31 <=? unbe (take 4 r2)); [discriminate|].
    inv_bind H. destruct a as [n1 h1]. inv_ok H.
    apply gelems_bounds in Ha; [|apply gpair_bounded; apply IH].
    rewrite drop_len in Ha by lia. lia.
  - destruct r as [|et r1]; try discriminate. rewrite !len_cons.
    destruct (hasn r1 4) eqn:H4; [|discriminate]. apply hasn_true in H4.
    destruct (two31 <=? unbe (take 4 r1)); [discriminate|].
    inv_bind H. destruct a as [n1 h1]. inv_ok H.
    apply gelems_bounds in Ha; [|apply IH].
    rewrite drop_len in Ha by lia. lia.
  - discriminate.
Qed.

Lemma gparse_bounds t r n h : gparse t r = Ok (n, h) -> 1 <= n <= len r.
Proof. apply gp_bounds. Qed.

(* ---------- small list facts ---------- *)
Lemma drop_length {A} n (l : list A) : length (drop n l) = (length l - N.to_nat n)%nat.
Proof. unfold drop. apply skipn_length. Qed.

Lemma drop_app_le {A} n (p s : list A) : n <= len p -> drop n (p ++ s) = drop n p ++ s.
Proof.
  unfold drop, len. intros H. rewrite skipn_app.
  replace (N.to_nat n - length p)%nat with O by lia. reflexivity.
Qed.

Lemma take_app_le {A} n (p s : list A) : n <= len p -> take n (p ++ s) = take n p.
Proof.
  unfold take, len. intros H. rewrite firstn_app.
  replace (N.to_nat n - length p)%nat with O by lia. cbn [firstn]. apply app_nil_r.
Qed.

Lemma len_length {A} (l : list A) : len l = N.of_nat (length l).
Proof. reflexivity. Qed.

(* ---------- fuel: any fuel above the input length gives the same result ---------- *)
Lemma gpair_ext e1 e2 e1' e2' r :
  e1 r = e1' r -> (forall n, e2 (drop n r) = e2' (drop n r)) -> gpair e1 e2 r = gpair e1' e2' r.
Proof.
  intros H1 H2. unfold gpair. rewrite H1. destruct (e1' r) as [[n h]| | |]; cbn [bind]; try reflexivity.
  now rewrite H2.
Qed.

Lemma gelems_fuel ea eb : bounded ea ->
  forall fa fb cnt r, (length r < fa)%nat -> (length r < fb)%nat ->
  (forall r', (length r' <= length r)%nat -> ea r' = eb r') ->
  gelems fa ea cnt r = gelems fb eb cnt r.
Proof.
  intros Ba. induction fa as [|fa IH]; intros fb cnt r Ha Hb He; [lia|].
  destruct fb as [|fb]; [lia|]. cbn [gelems].
  destruct (cnt =? 0); [reflexivity|].
  rewrite <- (He r) by lia.
  destruct (ea r) as [[n h]| | |] eqn:E; cbn [bind]; try reflexivity.
  apply Ba in E.
  assert (Hl : (length (drop n r) < length r)%nat).
  { rewrite drop_length. unfold len in E. lia. }
  rewrite (IH fb (N.pred cnt) (drop n r)); [reflexivity|lia|lia|].
  intros r' Hr'. apply He. lia.
Qed.

Lemma gfields_fuel ea eb : (forall ft, bounded (ea ft)) ->
  forall fa fb r, (length r < fa)%nat -> (length r < fb)%nat ->
  (forall ft r', (length r' < length r)%nat -> ea ft r' = eb ft r') ->
  gfields fa ea r = gfields fb eb r.
Proof.
  intros Ba. induction fa as [|fa IH]; intros fb r Ha Hb He; [lia|].
  destruct fb as [|fb]; [lia|]. cbn [gfields].
  destruct r as [|ft r1]; [reflexivity|].
  destruct (ft =? T_STOP); [reflexivity|].
  destruct (hasn r1 2) eqn:H2; [|reflexivity]. apply hasn_true in H2.
  assert (Hd : (length (drop 2 r1) < length (ft :: r1))%nat).
  { rewrite drop_length. cbn [length]. lia. }
  rewrite <- (He ft (drop 2 r1)) by exact Hd.
  destruct (ea ft (drop 2 r1)) as [[n h]| | |] eqn:E; cbn [bind]; try reflexivity.
  apply Ba in E.
  assert (Hl : (length (drop n (drop 2 r1)) < length (drop 2 r1))%nat).
  { rewrite (drop_length n). unfold len in E. lia. }
  rewrite (IH fb (drop n (drop 2 r1))); [reflexivity|cbn [length] in *; lia|cbn [length] in *; lia|].
  intros ft' r' Hr'. apply He. lia.
Qed.

Lemma gp_fuel_irrel : forall f1 f2 t r,
  (length r < f1)%nat -> (length r < f2)%nat -> gp f1 t r = gp f2 t r.
Proof.
  induction f1 as [|a IH]; intros f2 t r H1 H2; [lia|].
  destruct f2 as [|b]; [lia|]. cbn [gp].
  destruct (kind_of t) as [w| | | | |]; try reflexivity.
  - rewrite (gfields_fuel (gp a) (gp b) (gp_bounds a) (S a) (S b) r H1 H2); [reflexivity|].
    intros ft r' Hr'. apply IH; lia.
  - destruct r as [|kt [|vt r2]]; try reflexivity.
    destruct (hasn r2 4) eqn:H4; [|reflexivity].
    destruct (two31 <=? unbe (take 4 r2)); [reflexivity|].
    assert (Hd : (length (drop 4 r2) <= length r2)%nat) by (rewrite drop_length; lia).
    cbn [length] in H1, H2.
    rewrite (gelems_fuel (gpair (gp a kt) (gp a vt)) (gpair (gp b kt) (gp b vt))
               (gpair_bounded _ _ (gp_bounds a kt) (gp_bounds a vt)) (S a) (S b)); [reflexivity|lia|lia|].
    intros r' Hr'. apply gpair_ext.
    + apply IH; lia.
    + intros n. apply IH; rewrite drop_length; lia.
  - destruct r as [|et r1]; try reflexivity.
    destruct (hasn r1 4) eqn:H4; [|reflexivity].
    destruct (two31 <=? unbe (take 4 r1)); [reflexivity|].
    assert (Hd : (length (drop 4 r1) <= length r1)%nat) by (rewrite drop_length; lia).
    cbn [length] in H1, H2.
    rewrite (gelems_fuel (gp a et) (gp b et) (gp_bounds a et) (S a) (S b)); [reflexivity|lia|lia|].
    intros r' Hr'. apply IH; lia.
Qed.

Lemma gp_gparse f t r : (length r < f)%nat -> gp f t r = gparse t r.
Proof. intros H. unfold gparse. apply gp_fuel_irrel; lia. Qed.

(* fuel never runs out *)
Lemma gelems_nofuel elem : bounded elem ->
  forall f cnt r, (length r < f)%nat ->
  (forall r', (length r' <= length r)%nat -> elem r' <> Err E_FUEL) ->
  gelems f elem cnt r <> Err E_FUEL.
Proof.
  intros Be. induction f as [|f IH]; intros cnt r Hf Hn; [lia|]. cbn [gelems].
  destruct (cnt =? 0); [discriminate|].
  destruct (elem r) as [[n h]|e| |] eqn:E; cbn [bind]; try discriminate.
  - apply Be in E.
    assert (Hl : (length (drop n r) < length r)%nat) by (rewrite drop_length; unfold len in E; lia).
    assert (IH' : gelems f elem (N.pred cnt) (drop n r) <> Err E_FUEL).
    { apply IH; [lia|]. intros r' Hr'. apply Hn. lia. }
    destruct (gelems f elem (N.pred cnt) (drop n r)) as [[m h']|e| |]; cbn [bind]; try discriminate.
    intros H. apply IH'. exact H.
  - intros H. apply (Hn r); [lia|]. rewrite E. exact H.
Qed.

Lemma gfields_nofuel elem : (forall ft, bounded (elem ft)) ->
  forall f r, (length r < f)%nat ->
  (forall ft r', (length r' < length r)%nat -> elem ft r' <> Err E_FUEL) ->
  gfields f elem r <> Err E_FUEL.
Proof.
  intros Be. induction f as [|f IH]; intros r Hf Hn; [lia|]. cbn [gfields].
  destruct r as [|ft r1]; [discriminate|].
  destruct (ft =? T_STOP); [discriminate|].
  destruct (hasn r1 2) eqn:H2; [|discriminate]. apply hasn_true in H2.
  assert (Hd : (length (drop 2 r1) < length (ft :: r1))%nat) by (rewrite drop_length; cbn [length]; lia).
  destruct (elem ft (drop 2 r1)) as [[n h]|e| |] eqn:E; cbn [bind]; try discriminate.
  - apply Be in E.
    assert (Hl : (length (drop n (drop 2 r1)) < length (drop 2 r1))%nat).
    { rewrite (drop_length n). unfold len in E. lia. }
    assert (IH' : gfields f elem (drop n (drop 2 r1)) <> Err E_FUEL).
    { apply IH; [cbn [length] in *; lia|]. intros ft' r' Hr'. apply Hn. lia. }
    destruct (gfields f elem (drop n (drop 2 r1))) as [[m h']|e| |]; cbn [bind]; try discriminate.
    intros H. apply IH'. exact H.
  - intros H. apply (Hn ft (drop 2 r1) Hd). rewrite E. exact H.
Qed.

Lemma gpair_nofuel e1 e2 r : bounded e1 -> e1 r <> Err E_FUEL ->
  (forall n, 1 <= n -> e2 (drop n r) <> Err E_FUEL) -> gpair e1 e2 r <> Err E_FUEL.
Proof.
  intros B1 H1 H2. unfold gpair.
  destruct (e1 r) as [[n h]|e| |] eqn:E; cbn [bind]; try discriminate; [|congruence].
  apply B1 in E. specialize (H2 n (proj1 E)).
  destruct (e2 (drop n r)) as [[m h']|e| |]; cbn [bind]; try discriminate. congruence.
Qed.

Lemma gp_nofuel : forall f t r, (length r < f)%nat -> gp f t r <> Err E_FUEL.
Proof.
  induction f as [|a IH]; intros t r Hf; [lia|]. cbn [gp].
  destruct (kind_of t) as [w| | | | |]; try discriminate.
  - destruct (hasn r w); discriminate.
  - unfold gstring. destruct (hasn r 4); [|discriminate].
    destruct (two31 <=? unbe (take 4 r)); [discriminate|].
    destruct (hasn (drop 4 r) (unbe (take 4 r))); discriminate.
  - assert (H : gfields (S a) (gp a) r <> Err E_FUEL).
    { apply gfields_nofuel; [apply gp_bounds|lia|]. intros ft r' Hr'. apply IH. lia. }
    destruct (gfields (S a) (gp a) r) as [[n h]|e| |]; cbn [bind]; try discriminate. congruence.
  - destruct r as [|kt [|vt r2]]; try discriminate.
    destruct (hasn r2 4); [|discriminate].
    destruct (two31 <=? unbe (take 4 r2)); [discriminate|].
    cbn [length] in Hf.
    assert (Hd : (length (drop 4 r2) <= length r2)%nat) by (rewrite drop_length; lia).
    assert (H : gelems (S a) (gpair (gp a kt) (gp a vt)) (unbe (take 4 r2)) (drop 4 r2) <> Err E_FUEL).
    { apply gelems_nofuel; [apply gpair_bounded; apply gp_bounds|lia|].
      intros r' Hr'. apply gpair_nofuel; [apply gp_bounds|apply IH; lia|].
      intros n Hn. apply IH. rewrite drop_length. lia. }
    destruct (gelems (S a) _ _ _) as [[n h]|e| |]; cbn [bind]; try discriminate. congruence.
  - destruct r as [|et r1]; try discriminate.
    destruct (hasn r1 4); [|discriminate].
    destruct (two31 <=? unbe (take 4 r1)); [discriminate|].
    cbn [length] in Hf.
    assert (Hd : (length (drop 4 r1) <= length r1)%nat) by (rewrite drop_length; lia).
    assert (H : gelems (S a) (gp a et) (unbe (take 4 r1)) (drop 4 r1) <> Err E_FUEL).
    { apply gelems_nofuel; [apply gp_bounds|lia|]. intros r' Hr'. apply IH. lia. }
    destruct (gelems (S a) _ _ _) as [[n h]|e| |]; cbn [bind]; try discriminate. congruence.
Qed.

Lemma gparse_fuel t r : gparse t r <> Err E_FUEL.
Proof. apply gp_nofuel. lia. Qed.

(* ---------- locality: the parser never looks beyond what it consumes ---------- *)
Definition local (e : bytes -> pres) : Prop :=
  forall p s s' n h, e (p ++ s) = Ok (n, h) -> n <= len p -> e (p ++ s') = Ok (n, h).

Lemma gpair_local e1 e2 : bounded e2 -> local e1 -> local e2 -> local (gpair e1 e2).
Proof.
  intros B2 L1 L2 p s s' n h H Hn. unfold gpair in *.
  inv_bind H. destruct a as [n1 h1]. inv_bind H. destruct a as [n2 h2]. inv_ok H.
  assert (H2 := B2 _ _ _ Ha0).
  rewrite (L1 p s s' n1 h1 Ha) by lia. cbn [bind].
  rewrite drop_app_le in * by lia.
  rewrite (L2 (drop n1 p) s s' n2 h2 Ha0) by (rewrite drop_len by lia; lia).
  reflexivity.
Qed.

Lemma gelems_local elem : local elem -> forall f cnt, local (gelems f elem cnt).
Proof.
  intros Le. induction f as [|f IH]; intros cnt p s s' n h H Hn; cbn [gelems] in *.
  - destruct (cnt =? 0); [exact H|discriminate].
  - destruct (cnt =? 0); [exact H|].
    inv_bind H. destruct a as [n1 h1]. inv_bind H. destruct a as [n2 h2]. inv_ok H.
    rewrite (Le p s s' n1 h1 Ha) by lia. cbn [bind].
    rewrite drop_app_le in * by lia.
    rewrite (IH (N.pred cnt) (drop n1 p) s s' n2 h2 Ha0) by (rewrite drop_len by lia; lia).
    reflexivity.
Qed.

Lemma gfields_local elem : (forall ft, local (elem ft)) -> forall f, local (gfields f elem).
Proof.
  intros Le. induction f as [|f IH]; intros p s s' n h H Hn; cbn [gfields] in *; [discriminate|].
  destruct p as [|ft p1].
  - (* n >= 1 but len p = 0 *)
    exfalso. cbn [app] in H. destruct s as [|ft r1]; [discriminate|].
    destruct (ft =? T_STOP); [inv_ok H; rewrite len_nil in Hn; lia|].
    destruct (hasn r1 2); [|discriminate].
    inv_bind H. destruct a as [n1 h1]. inv_bind H. destruct a as [n2 h2]. inv_ok H.
    rewrite len_nil in Hn. lia.
  - cbn [app] in *. rewrite len_cons in Hn.
    destruct (ft =? T_STOP); [exact H|].
    destruct (hasn (p1 ++ s) 2) eqn:H2; [|discriminate].
    inv_bind H. destruct a as [n1 h1]. inv_bind H. destruct a as [n2 h2]. inv_ok H.
    assert (H2' : hasn (p1 ++ s') 2 = true) by (apply hasn_true; rewrite len_app; lia).
    rewrite H2'.
    rewrite (drop_app_le 2) in * by lia.
    assert (Hd : len (drop 2 p1) = len p1 - 2) by (apply drop_len; lia).
    rewrite (Le ft (drop 2 p1) s s' n1 h1 Ha) by lia. cbn [bind].
    rewrite (drop_app_le n1) in * by lia.
    rewrite (IH (drop n1 (drop 2 p1)) s s' n2 h2 Ha0) by (rewrite drop_len by lia; lia).
    reflexivity.
Qed.

Lemma gstring_local : local gstring.
Proof.
  intros p s s' n h H Hn. unfold gstring in *.
  destruct (hasn (p ++ s) 4) eqn:H4; [|discriminate].
  destruct (two31 <=? unbe (take 4 (p ++ s))) eqn:Hneg; [discriminate|].
  destruct (hasn (drop 4 (p ++ s)) (unbe (take 4 (p ++ s)))) eqn:Hh; [|discriminate].
  inv_ok H.
  assert (H4p : 4 <= len p) by lia.
  rewrite (take_app_le 4) in * by lia.
  rewrite (proj2 (hasn_true (p ++ s') 4)) by (rewrite len_app; lia).
  rewrite (take_app_le 4) by lia. rewrite Hneg.
  rewrite (proj2 (hasn_true (drop 4 (p ++ s')) (unbe (take 4 p)))).
  - reflexivity.
  - rewrite drop_len by (rewrite len_app; lia). rewrite len_app. lia.
Qed.

Lemma gp_local : forall f t, local (gp f t).
Proof.
  induction f as [|f IH]; intros t p s s' n h H Hn; cbn [gp] in *; [discriminate|].
  destruct (kind_of t) as [w| | | | |].
  - destruct (hasn (p ++ s) w) eqn:Hw; [|discriminate]. inv_ok H.
    rewrite (proj2 (hasn_true (p ++ s') n)) by (rewrite len_app; lia). reflexivity.
  - exact (gstring_local p s s' n h H Hn).
  - inv_bind H. destruct a as [n1 h1]. inv_ok H.
    rewrite (gfields_local (gp f) IH (S f) p s s' n h1 Ha Hn). reflexivity.
  - destruct p as [|kt [|vt p2]].
    + exfalso. cbn [app] in H. destruct s as [|kt [|vt r2]]; try discriminate.
      destruct (hasn r2 4); [|discriminate]. destruct (two31 <=? unbe (take 4 r2)); [discriminate|].
      inv_bind H. destruct a as [n1 h1]. inv_ok H. rewrite len_nil in Hn. lia.
    + exfalso. cbn [app] in H. destruct s as [|vt r2]; try discriminate.
      destruct (hasn r2 4); [|discriminate]. destruct (two31 <=? unbe (take 4 r2)); [discriminate|].
      inv_bind H. destruct a as [n1 h1]. inv_ok H. rewrite len_cons, len_nil in Hn. lia.
    + cbn [app] in *. rewrite !len_cons in Hn.
      destruct (hasn (p2 ++ s) 4) eqn:H4; [|discriminate].
      destruct (two31 <=? unbe (take 4 (p2 ++ s))) eqn:Hneg; [discriminate|].
      inv_bind H. destruct a as [n1 h1]. inv_ok H.
      rewrite (take_app_le 4 p2 s) in * by lia.
      rewrite (proj2 (hasn_true (p2 ++ s') 4)) by (rewrite len_app; lia).
      rewrite (take_app_le 4 p2 s') by lia. rewrite Hneg.
      rewrite (drop_app_le 4 p2 s) in Ha by lia. rewrite (drop_app_le 4 p2 s') by lia.
      rewrite (gelems_local _ (gpair_local _ _ (gp_bounds f vt) (IH kt) (IH vt)) (S f) _
                 (drop 4 p2) s s' n1 h1 Ha) by (rewrite drop_len by lia; lia).
      reflexivity.
  - destruct p as [|et p1].
    + exfalso. cbn [app] in H. destruct s as [|et r1]; try discriminate.
      destruct (hasn r1 4); [|discriminate]. destruct (two31 <=? unbe (take 4 r1)); [discriminate|].
      inv_bind H. destruct a as [n1 h1]. inv_ok H. rewrite len_nil in Hn. lia.
    + cbn [app] in *. rewrite !len_cons in Hn.
      destruct (hasn (p1 ++ s) 4) eqn:H4; [|discriminate].
      destruct (two31 <=? unbe (take 4 (p1 ++ s))) eqn:Hneg; [discriminate|].
      inv_bind H. destruct a as [n1 h1]. inv_ok H.
      rewrite (take_app_le 4 p1 s) in * by lia.
      rewrite (proj2 (hasn_true (p1 ++ s') 4)) by (rewrite len_app; lia).
      rewrite (take_app_le 4 p1 s') by lia. rewrite Hneg.
      rewrite (drop_app_le 4 p1 s) in Ha by lia. rewrite (drop_app_le 4 p1 s') by lia.
      rewrite (gelems_local _ (IH et) (S f) _ (drop 4 p1) s s' n1 h1 Ha) by (rewrite drop_len by lia; lia).
      reflexivity.
  - discriminate.
Qed.

Lemma gparse_local t p s s' n h :
  gparse t (p ++ s) = Ok (n, h) -> n <= len p -> gparse t (p ++ s') = Ok (n, h).
Proof.
  intros H Hn.
  rewrite <- (gp_gparse (S (length (p ++ s) + length (p ++ s')))) in H by lia.
  rewrite <- (gp_gparse (S (length (p ++ s) + length (p ++ s')))) by lia.
  exact (gp_local _ t p s s' n h H Hn).
Qed.

(* the result depends only on the first n bytes *)
Lemma gparse_take t r r' n h :
  gparse t r = Ok (n, h) -> take n r' = take n r -> gparse t r' = Ok (n, h).
Proof.
  intros H E. pose proof (gparse_bounds _ _ _ _ H) as B.
  rewrite <- (take_drop n r) in H. rewrite <- (take_drop n r'), E.
  apply (gparse_local t (take n r) (drop n r) (drop n r') n h H).
  rewrite take_len; lia.
Qed.

(* ---------- induction principle for value trees ---------- *)
Section ValueInd.
  Variable P : value -> Prop.
  Hypothesis Hbool : forall b, P (VBool b).
  Hypothesis Hbyte : forall b, P (VByte b).
  Hypothesis Hdouble : forall x, P (VDouble x).
  Hypothesis Hi16 : forall x, P (VI16 x).
  Hypothesis Hi32 : forall x, P (VI32 x).
  Hypothesis Hi64 : forall x, P (VI64 x).
  Hypothesis Hstr : forall s, P (VStr s).
  Hypothesis Hstruct : forall fs, Forall (fun f => P (snd f)) fs -> P (VStruct fs).
  Hypothesis Hmap : forall kt vt kvs, Forall (fun kv => P (fst kv) /\ P (snd kv)) kvs -> P (VMap kt vt kvs).
  Hypothesis Hset : forall et vs, Forall P vs -> P (VSet et vs).
  Hypothesis Hlist : forall et vs, Forall P vs -> P (VList et vs).

  Fixpoint value_ind' (v : value) : P v :=
    match v with
    | VBool b => Hbool b | VByte b => Hbyte b | VDouble x => Hdouble x
    | VI16 x => Hi16 x | VI32 x => Hi32 x | VI64 x => Hi64 x
    | VStr s => Hstr s
    | VStruct fs =>
      Hstruct fs ((fix go (l : list (N * N * value)) : Forall (fun f => P (snd f)) l :=
                     match l with
                     | [] => Forall_nil _
                     | f :: l' => Forall_cons f (match f return P (snd f) with (_, fv) => value_ind' fv end) (go l')
                     end) fs)
    | VMap kt vt kvs =>
      Hmap kt vt kvs ((fix go (l : list (value * value)) : Forall (fun kv => P (fst kv) /\ P (snd kv)) l :=
                     match l with
                     | [] => Forall_nil _
                     | kv :: l' => Forall_cons kv
                         (match kv return P (fst kv) /\ P (snd kv) with (k, v) => conj (value_ind' k) (value_ind' v) end) (go l')
                     end) kvs)
    | VSet et vs =>
      Hset et vs ((fix go (l : list value) : Forall P l :=
                     match l with [] => Forall_nil _ | x :: l' => Forall_cons x (value_ind' x) (go l') end) vs)
    | VList et vs =>
      Hlist et vs ((fix go (l : list value) : Forall P l :=
                     match l with [] => Forall_nil _ | x :: l' => Forall_cons x (value_ind' x) (go l') end) vs)
    end.
End ValueInd.

(* ---------- encodings parse back: gparse_enc ---------- *)
Lemma enc_nonempty v : 1 <= len (enc v).
Proof.
  destruct v; cbn [enc]; repeat rewrite ?len_cons, ?len_app, ?be_len, ?len_nil; lia.
Qed.

Lemma be_hasn k x Y : hasn (be k x ++ Y) (N.of_nat k) = true.
Proof. apply hasn_true. rewrite len_app, be_len. lia. Qed.
Lemma be_take k x Y : take (N.of_nat k) (be k x ++ Y) = be k x.
Proof. rewrite <- (be_len k x). apply take_app_len. Qed.
Lemma be_drop k x Y : drop (N.of_nat k) (be k x ++ Y) = Y.
Proof. rewrite <- (be_len k x). apply drop_app_len. Qed.

Lemma be4_hasn x Y : hasn (be 4 x ++ Y) 4 = true.  Proof. exact (be_hasn 4 x Y). Qed.
Lemma be4_take x Y : take 4 (be 4 x ++ Y) = be 4 x.  Proof. exact (be_take 4 x Y). Qed.
Lemma be4_drop x Y : drop 4 (be 4 x ++ Y) = Y.  Proof. exact (be_drop 4 x Y). Qed.
Lemma be2_hasn x Y : hasn (be 2 x ++ Y) 2 = true.  Proof. exact (be_hasn 2 x Y). Qed.
Lemma be2_drop x Y : drop 2 (be 2 x ++ Y) = Y.  Proof. exact (be_drop 2 x Y). Qed.

Lemma unbe_be4 c : c < two32 -> unbe (be 4 c) = c.
Proof. intros H. rewrite unbe_be. apply N.mod_small. exact H. Qed.

Lemma lmax_cons x l : lmax (x :: l) = Nat.max x (lmax l).
Proof. reflexivity. Qed.

Lemma len_ge1_length {A} (l : list A) : 1 <= len l -> (1 <= length l)%nat.
Proof. unfold len. lia. Qed.

Lemma gelems_enc {A} (ea : A -> bytes) (ha : A -> nat) elem (L : nat) :
  forall (xs : list A) f rest,
  Forall (fun x => 1 <= len (ea x) /\
            forall rest', (length (ea x ++ rest') <= L)%nat ->
                          elem (ea x ++ rest') = Ok (len (ea x), ha x)) xs ->
  (length (concat (map ea xs) ++ rest) <= L)%nat ->
  (length (concat (map ea xs) ++ rest) <= f)%nat ->
  gelems f elem (len xs) (concat (map ea xs) ++ rest) =
  Ok (len (concat (map ea xs)), lmax (map ha xs)).
Proof.
  induction xs as [|x xs IH]; intros f rest HF HL Hf.
  - destruct f; reflexivity.
  - inversion HF as [|? ? [Hx1 Hx] HF']; subst.
    cbn [map concat] in *. rewrite <- app_assoc in *.
    apply len_ge1_length in Hx1.
    destruct f as [|f]; [rewrite app_length in Hf; lia|].
    cbn [gelems]. rewrite len_cons.
    destruct (N.eqb_spec (1 + len xs) 0) as [E|_]; [lia|].
    rewrite (Hx _ HL). cbn [bind]. rewrite drop_app_len.
    replace (N.pred (1 + len xs)) with (len xs) by lia.
    rewrite app_length in HL, Hf.
    rewrite (IH f rest HF') by lia. cbn [bind].
    rewrite len_app, lmax_cons. reflexivity.
Qed.

Definition encf (f : N * N * value) : bytes := match f with (ft, id, fv) => ft :: be 2 id ++ enc fv end.
Definition chf (f : N * N * value) : nat := match f with (_, _, fv) => ch fv end.

Lemma gfields_enc elem (L : nat) :
  forall fs f rest,
  Forall (fun fl => fst (fst fl) <> T_STOP /\
            forall rest', (length (enc (snd fl) ++ rest') <= L)%nat ->
                          elem (fst (fst fl)) (enc (snd fl) ++ rest') = Ok (len (enc (snd fl)), ch (snd fl))) fs ->
  (length (concat (map encf fs) ++ T_STOP :: rest) <= L + 3)%nat ->
  (length (concat (map encf fs) ++ T_STOP :: rest) < f)%nat ->
  gfields f elem (concat (map encf fs) ++ T_STOP :: rest) =
  Ok (len (concat (map encf fs)) + 1, lmax (map chf fs)).
Proof.
  induction fs as [|[[ft id] fv] fs IH]; intros f rest HF HL Hf.
  - destruct f as [|f]; [lia|]. cbn [map concat app gfields].
    rewrite N.eqb_refl. reflexivity.
  - inversion HF as [|? ? [Hft Hx] HF']; subst. cbn [fst snd] in *.
    destruct f as [|f]; [lia|].
    cbn [map concat encf] in *. rewrite <- app_assoc in *. rewrite <- !app_comm_cons in *.
    rewrite <- app_assoc in *.
    cbn [gfields].
    destruct (N.eqb_spec ft T_STOP) as [E|_]; [contradiction|].
    rewrite be2_hasn, be2_drop.
    cbn [length] in HL, Hf. rewrite !app_length in HL, Hf. rewrite be_length in HL, Hf. cbn [length] in HL, Hf.
    rewrite (Hx _) by (rewrite !app_length; cbn [length]; lia). cbn [bind]. rewrite drop_app_len.
    rewrite (IH f rest HF') by (rewrite !app_length; cbn [length]; lia). cbn [bind].
    rewrite len_cons, !len_app, be_len, lmax_cons. cbn [chf].
    replace (1 + (N.of_nat 2 + len (enc fv) + len (concat (map encf fs))) + 1)
      with (3 + len (enc fv) + (len (concat (map encf fs)) + 1)) by lia. reflexivity.
Qed.

Lemma wt_not_stop t v : wt t v = true -> t <> T_STOP.
Proof. intros H ->. destruct v; cbn in H; discriminate. Qed.

Definition encp (kv : value * value) : bytes := match kv with (k, v) => enc k ++ enc v end.
Definition chp (kv : value * value) : nat := match kv with (k, v) => Nat.max (ch k) (ch v) end.

Ltac wt_split H :=
  repeat match type of H with
         | (_ && _) = true => let H' := fresh "Hw" in apply andb_true_iff in H; destruct H as [H H']
         end.

Lemma two31_lt_two32 : two31 < two32.
Proof. reflexivity. Qed.

Definition enc_ok (v : value) : Prop :=
  forall t, wt t v = true -> forall f rest,
    (length (enc v ++ rest) < f)%nat -> gp f t (enc v ++ rest) = Ok (len (enc v), ch v).

Lemma enc_ok_fixed v t w :
  kind_of t = KFixed w -> len (enc v) = w -> ch v = O ->
  forall f rest, (length (enc v ++ rest) < f)%nat -> gp f t (enc v ++ rest) = Ok (len (enc v), ch v).
Proof.
  intros Hk Hl Hc f rest Hf. destruct f as [|f]; [lia|]. cbn [gp]. rewrite Hk.
  rewrite (proj2 (hasn_true _ _)) by (rewrite len_app; lia). now rewrite Hl, Hc.
Qed.

Lemma enc_ok_elems f et vs rest :
  Forall enc_ok vs -> forallb (wt et) vs = true ->
  (length (concat (map enc vs) ++ rest) < f)%nat ->
  gelems (S f) (gp f et) (len vs) (concat (map enc vs) ++ rest) =
  Ok (len (concat (map enc vs)), lmax (map ch vs)).
Proof.
  intros IH Hw Hf.
  apply (gelems_enc enc ch (gp f et) (f - 1)); [|lia|lia].
  rewrite Forall_forall in *. rewrite forallb_forall in Hw.
  intros v Hv. split; [apply enc_nonempty|].
  intros rest' Hr. apply (IH v Hv et (Hw v Hv)).
  pose proof (len_ge1_length _ (enc_nonempty v)). rewrite app_length in *. lia.
Qed.

Lemma gp_enc : forall v, enc_ok v.
Proof.
  induction v using value_ind'; intros t Hwt; cbn [wt] in Hwt; wt_split Hwt;
    apply N.eqb_eq in Hwt; subst t.
  - apply (enc_ok_fixed (VBool b) T_BOOL 1); try reflexivity.
  - apply (enc_ok_fixed (VByte b) T_BYTE 1); try reflexivity.
  - apply (enc_ok_fixed (VDouble x) T_DOUBLE 8); try reflexivity.
  - apply (enc_ok_fixed (VI16 x) T_I16 2); try reflexivity.
  - apply (enc_ok_fixed (VI32 x) T_I32 4); try reflexivity.
  - apply (enc_ok_fixed (VI64 x) T_I64 8); try reflexivity.
  - (* string *)
    intros f rest Hf. destruct f as [|f]; [lia|]. cbn [gp enc ch].
    change (kind_of T_STRING) with KString. unfold gstring.
    rewrite <- app_assoc. rewrite be4_hasn, be4_take, be4_drop.
    assert (Hls : len s < two31) by (apply N.ltb_lt; assumption).
    rewrite unbe_be4 by (pose proof two31_lt_two32; lia).
    destruct (N.leb_spec two31 (len s)) as [Hc|_]; [lia|].
    rewrite hasn_app_len. rewrite len_app, be_len. reflexivity.
  - (* struct *)
    intros f rest Hf. destruct f as [|f]; [lia|]. cbn [gp].
    change (kind_of T_STRUCT) with KStruct.
    change (enc (VStruct fs)) with (concat (map encf fs) ++ [T_STOP]) in *.
    change (ch (VStruct fs)) with (S (lmax (map chf fs))).
    rewrite <- app_assoc in *. cbn [app] in *.
    rewrite (gfields_enc (gp f) (f - 1)); [cbn [bind]; rewrite len_app; reflexivity| |lia|lia].
    rewrite Forall_forall in *. rewrite forallb_forall in Hw.
    intros [[ft id] fv] Hin. specialize (H _ Hin). specialize (Hw _ Hin). cbn [fst snd] in *.
    wt_split Hw. assert (Hwf : wt ft fv = true) by assumption.
    split; [exact (wt_not_stop _ _ Hwf)|].
    intros rest' Hr. apply (H ft Hwf).
    pose proof (len_ge1_length _ (enc_nonempty fv)). rewrite app_length in *. lia.
  - (* map *)
    intros f rest Hf. destruct f as [|f]; [lia|]. cbn [gp].
    change (kind_of T_MAP) with KMap.
    change (enc (VMap kt vt kvs)) with (kt :: vt :: be 4 (len kvs) ++ concat (map encp kvs)) in *.
    change (ch (VMap kt vt kvs)) with (S (lmax (map chp kvs))).
    rewrite <- !app_comm_cons in *. rewrite <- app_assoc in *.
    rewrite be4_hasn, be4_take, be4_drop.
    assert (Hls : len kvs < two31) by (apply N.ltb_lt; assumption).
    rewrite unbe_be4 by (pose proof two31_lt_two32; lia).
    destruct (N.leb_spec two31 (len kvs)) as [Hc|_]; [lia|].
    cbn [length] in Hf. rewrite app_length, be_length in Hf.
    rewrite (gelems_enc encp chp _ (f - 1)); [cbn [bind]| |lia|lia].
    + rewrite !len_cons, !len_app, be_len. f_equal. f_equal. lia.
    + rewrite Forall_forall in *. rewrite forallb_forall in Hw.
      intros [k v] Hin. destruct (H _ Hin) as [Hk Hv]. specialize (Hw _ Hin). cbn [fst snd] in *.
      wt_split Hw. assert (Hwk : wt kt k = true) by assumption. assert (Hwv : wt vt v = true) by assumption.
      pose proof (len_ge1_length _ (enc_nonempty k)) as Hk1.
      pose proof (len_ge1_length _ (enc_nonempty v)) as Hv1.
      split; [cbn [encp]; rewrite len_app; pose proof (enc_nonempty k); lia|].
      intros rest' Hr. cbn [encp chp] in *. unfold gpair. rewrite <- app_assoc in *.
      rewrite !app_length in Hr.
      rewrite (Hk kt Hwk) by (rewrite !app_length; lia). cbn [bind]. rewrite drop_app_len.
      rewrite (Hv vt Hwv) by (rewrite !app_length; lia). cbn [bind].
      rewrite len_app. reflexivity.
  - (* set *)
    intros f rest Hf. destruct f as [|f]; [lia|]. cbn [gp enc ch]. cbn [enc] in Hf.
    change (kind_of T_SET) with KList.
    rewrite <- !app_comm_cons in *. rewrite <- app_assoc in *.
    rewrite be4_hasn, be4_take, be4_drop.
    assert (Hls : len vs < two31) by (apply N.ltb_lt; assumption).
    rewrite unbe_be4 by (pose proof two31_lt_two32; lia).
    destruct (N.leb_spec two31 (len vs)) as [Hc|_]; [lia|].
    cbn [length] in Hf. rewrite app_length, be_length in Hf.
    rewrite enc_ok_elems by (assumption || lia). cbn [bind].
    rewrite !len_cons, !len_app, be_len. f_equal. f_equal. lia.
  - (* list *)
    intros f rest Hf. destruct f as [|f]; [lia|]. cbn [gp enc ch]. cbn [enc] in Hf.
    change (kind_of T_LIST) with KList.
    rewrite <- !app_comm_cons in *. rewrite <- app_assoc in *.
    rewrite be4_hasn, be4_take, be4_drop.
    assert (Hls : len vs < two31) by (apply N.ltb_lt; assumption).
    rewrite unbe_be4 by (pose proof two31_lt_two32; lia).
    destruct (N.leb_spec two31 (len vs)) as [Hc|_]; [lia|].
    cbn [length] in Hf. rewrite app_length, be_length in Hf.
    rewrite enc_ok_elems by (assumption || lia). cbn [bind].
    rewrite !len_cons, !len_app, be_len. f_equal. f_equal. lia.
Qed.

Theorem gparse_enc t v rest :
  wt t v = true -> gparse t (enc v ++ rest) = Ok (len (enc v), ch v).
Proof. intros H. apply (gp_enc v t H). lia. Qed.

(* ---------- prefix-freeness and uniqueness of the extent ---------- *)
(* no strict prefix of enc v is a complete value of v's type *)
Theorem enc_prefix_free t v p s :
  wt t v = true -> enc v = p ++ s -> s <> [] -> forall n h, gparse t p <> Ok (n, h).
Proof.
  intros Hw He Hs n h Hp.
  pose proof (gparse_bounds _ _ _ _ Hp) as B.
  rewrite <- (app_nil_r p) in Hp.
  pose proof (gparse_local t p [] s n h Hp (proj2 B)) as H1.
  rewrite <- He in H1. rewrite <- (app_nil_r (enc v)) in H1.
  rewrite (gparse_enc t v [] Hw) in H1. apply ok_pair_inj in H1. destruct H1 as [H1 _].
  rewrite He, len_app in H1.
  assert (1 <= len s) by (destruct s; [contradiction|rewrite len_cons; lia]). lia.
Qed.

(* two well-typed values of the same type at the front of the same bytes have the same encoding *)
Theorem enc_unique_extent t v1 v2 r1 r2 :
  wt t v1 = true -> wt t v2 = true -> enc v1 ++ r1 = enc v2 ++ r2 -> enc v1 = enc v2 /\ r1 = r2.
Proof.
  intros H1 H2 E.
  pose proof (gparse_enc t v1 r1 H1) as G1. pose proof (gparse_enc t v2 r2 H2) as G2.
  rewrite E in G1. rewrite G2 in G1. apply ok_pair_inj in G1. destruct G1 as [L _].
  split.
  - rewrite <- (take_app_len (enc v1) r1), <- (take_app_len (enc v2) r2). now rewrite E, L.
  - rewrite <- (drop_app_len (enc v1) r1), <- (drop_app_len (enc v2) r2). now rewrite E, L.
Qed.

(* the height the grammar reports is the tree's height, whatever follows *)
Corollary gparse_enc_height t v rest n h :
  wt t v = true -> gparse t (enc v ++ rest) = Ok (n, h) -> n = len (enc v) /\ h = ch v.
Proof. intros Hw H. rewrite (gparse_enc t v rest Hw) in H. apply ok_pair_inj in H. intuition. Qed.

(* ---------- well-typed trees: type byte, byte range ---------- *)
Lemma wt_tyof t v : wt t v = true -> t = tyof v.
Proof.
  destruct v; cbn [wt tyof]; intros H; wt_split H; apply N.eqb_eq in H; exact H.
Qed.

Lemma tyof_lt v : tyof v < 256.
Proof. destruct v; cbn [tyof]; reflexivity. Qed.

Lemma wt_lt256 t v : wt t v = true -> t < 256.
Proof. intros H. rewrite (wt_tyof t v H). apply tyof_lt. Qed.

Lemma wf_app a b : wf a -> wf b -> wf (a ++ b).
Proof. intros Ha Hb. apply Forall_app. split; assumption. Qed.

Lemma wf_concat {A} (f : A -> bytes) l : Forall (fun x => wf (f x)) l -> wf (concat (map f l)).
Proof.
  induction 1 as [|x l Hx _ IH]; cbn [map concat]; [constructor|]. apply wf_app; assumption.
Qed.

Lemma wf_cons1 x l : x < 256 -> wf l -> wf (x :: l).
Proof. intros Hx Hl. constructor; assumption. Qed.

Lemma enc_wf : forall v t, wt t v = true -> wf (enc v).
Proof.
  induction v using value_ind'; intros t Hwt; cbn [wt] in Hwt; wt_split Hwt; cbn [enc];
    try apply be_wf.
  - apply wf_cons1; [lia|constructor].
  - apply wf_cons1; [lia|constructor].
  - apply wf_app; [apply be_wf|]. apply wfbb_wf. assumption.
  - change (wf (concat (map encf fs) ++ [T_STOP])).
    apply wf_app; [|apply wf_cons1; [reflexivity|constructor]].
    apply wf_concat. rewrite Forall_forall in *. rewrite forallb_forall in Hw.
    intros [[ft id] fv] Hin. specialize (H _ Hin). specialize (Hw _ Hin). cbn [fst snd] in *.
    wt_split Hw. assert (Hwf : wt ft fv = true) by assumption.
    cbn [encf]. apply wf_cons1; [lia|]. apply wf_app; [apply be_wf|]. exact (H ft Hwf).
  - apply wf_cons1; [lia|]. apply wf_cons1; [lia|]. apply wf_app; [apply be_wf|].
    change (wf (concat (map encp kvs))).
    apply wf_concat. rewrite Forall_forall in *. rewrite forallb_forall in Hw.
    intros [k v] Hin. destruct (H _ Hin) as [Hk Hv]. specialize (Hw _ Hin). cbn [fst snd] in *.
    wt_split Hw. assert (Hwk : wt kt k = true) by assumption. assert (Hwv : wt vt v = true) by assumption.
    cbn [encp]. apply wf_app; [exact (Hk kt Hwk)|exact (Hv vt Hwv)].
  - apply wf_cons1; [lia|]. apply wf_app; [apply be_wf|].
    apply wf_concat. rewrite Forall_forall in *. rewrite forallb_forall in Hw.
    intros v Hin. exact (H v Hin et (Hw v Hin)).
  - apply wf_cons1; [lia|]. apply wf_app; [apply be_wf|].
    apply wf_concat. rewrite Forall_forall in *. rewrite forallb_forall in Hw.
    intros v Hin. exact (H v Hin et (Hw v Hin)).
Qed.

(* ---------- adequacy: everything the grammar accepts is the encoding of a well-typed tree ---------- *)
Lemma take_split' {A} m k (l : list A) : m <= k -> take m l ++ take (k - m) (drop m l) = take k l.
Proof.
  intros H. unfold take, drop. replace (N.to_nat k) with (N.to_nat m + N.to_nat (k - m))%nat by lia.
  symmetry. apply firstn_plus.
Qed.

Lemma wf_take0 n r : wf r -> wf (take n r).
Proof.
  unfold wf, take. intros H. rewrite Forall_forall in *. intros x Hx. apply H.
  rewrite <- (firstn_skipn (N.to_nat n) r). apply in_or_app. left. exact Hx.
Qed.
Lemma wf_drop0 n r : wf r -> wf (drop n r).
Proof.
  unfold wf, drop. intros H. rewrite Forall_forall in *. intros x Hx. apply H.
  rewrite <- (firstn_skipn (N.to_nat n) r). apply in_or_app. right. exact Hx.
Qed.

(* the k bytes at the front of r are the big-endian image of their value *)
Lemma be_take_unbe k r : N.of_nat k <= len r -> wf r ->
  be k (unbe (take (N.of_nat k) r)) = take (N.of_nat k) r /\ unbe (take (N.of_nat k) r) < 256 ^ N.of_nat k.
Proof.
  intros Hl W.
  assert (Hlen : length (take (N.of_nat k) r) = k).
  { pose proof (take_len (N.of_nat k) r Hl) as E. unfold len in E. lia. }
  split.
  - rewrite <- Hlen at 1. apply be_unbe. apply wf_take0, W.
  - pose proof (unbe_lt _ (wf_take0 (N.of_nat k) r W)) as L.
    rewrite take_len in L by exact Hl. exact L.
Qed.

Definition sound_at (e : bytes -> pres) (t : N) : Prop :=
  forall r n h, e r = Ok (n, h) -> wf r -> exists v, wt t v = true /\ enc v = take n r /\ ch v = h.

Lemma gelems_sound {A} (ea : A -> bytes) (ha : A -> nat) (okA : A -> Prop) elem :
  (forall r n h, elem r = Ok (n, h) -> wf r -> exists a, okA a /\ ea a = take n r /\ ha a = h) ->
  bounded elem ->
  forall f cnt r n h, gelems f elem cnt r = Ok (n, h) -> wf r ->
  exists xs, len xs = cnt /\ Forall okA xs /\ concat (map ea xs) = take n r /\ lmax (map ha xs) = h.
Proof.
  intros He Be. induction f as [|f IH]; intros cnt r n h H W; cbn [gelems] in H.
  - destruct (N.eqb_spec cnt 0) as [->|]; [|discriminate]. inv_ok H.
    exists []. repeat split; constructor.
  - destruct (N.eqb_spec cnt 0) as [->|Hc].
    { inv_ok H. exists []. repeat split; constructor. }
    inv_bind H. destruct a as [n1 h1]. inv_bind H. destruct a as [n2 h2]. inv_ok H.
    destruct (He _ _ _ Ha W) as (a & Hoa & Hea & Hha).
    destruct (IH _ _ _ _ Ha0 (wf_drop0 n1 r W)) as (xs & Hl & Hok & Hc' & Hm).
    exists (a :: xs). split; [rewrite len_cons; lia|]. split; [constructor; assumption|].
    cbn [map concat]. rewrite lmax_cons, Hea, Hc', Hha, Hm. split; [|reflexivity].
    rewrite <- (take_split' n1 (n1 + n2) r) by lia. f_equal. f_equal. lia.
Qed.

Lemma gfields_sound elem :
  (forall ft, ft <> T_STOP -> ft < 256 -> sound_at (elem ft) ft) -> (forall ft, bounded (elem ft)) ->
  forall f r n h, gfields f elem r = Ok (n, h) -> wf r ->
  exists fs, forallb (fun fl => match fl with (ft, id, fv) => (ft <? 256) && (id <? two16) && wt ft fv end) fs = true /\
             concat (map encf fs) ++ [T_STOP] = take n r /\ lmax (map chf fs) = h.
Proof.
  intros He Be. induction f as [|f IH]; intros r n h H W; cbn [gfields] in H; [discriminate|].
  destruct r as [|ft r1]; [discriminate|].
  inversion W as [|? ? Hft W1]; subst. unfold wfb in Hft.
  destruct (N.eqb_spec ft T_STOP) as [->|Hns].
  { inv_ok H. exists []. repeat split. }
  destruct (hasn r1 2) eqn:H2; [|discriminate]. apply hasn_true in H2.
  inv_bind H. destruct a as [n1 h1]. inv_bind H. destruct a as [n2 h2]. inv_ok H.
  pose proof (Be ft _ _ _ Ha) as B1.
  destruct (He ft Hns Hft _ _ _ Ha (wf_drop0 2 r1 W1)) as (fv & Hwt & Henc & Hch).
  destruct (IH _ _ _ Ha0 (wf_drop0 n1 _ (wf_drop0 2 r1 W1))) as (fs & Hfs & Hcat & Hm).
  destruct (be_take_unbe 2 r1 H2 W1) as [Hbe Hlt]. change (N.of_nat 2) with 2 in *. change (256 ^ 2) with two16 in Hlt.
  exists ((ft, unbe (take 2 r1), fv) :: fs). split; [|split].
  - cbn [forallb]. rewrite Hfs, Hwt.
    destruct (N.ltb_spec ft 256); [|lia]. destruct (N.ltb_spec (unbe (take 2 r1)) two16); [|lia]. reflexivity.
  - assert (Hd2 : len (drop 2 r1) = len r1 - 2) by (apply drop_len; lia).
    assert (E : take (2 + (n1 + n2)) r1 = take 2 r1 ++ take n1 (drop 2 r1) ++ take n2 (drop n1 (drop 2 r1))).
    { rewrite <- (take_split' 2 (2 + (n1 + n2)) r1) by lia. f_equal.
      replace (2 + (n1 + n2) - 2) with (n1 + n2) by lia.
      rewrite <- (take_split' n1 (n1 + n2) (drop 2 r1)) by lia. f_equal. f_equal. lia. }
    replace (3 + n1 + n2) with (1 + (2 + (n1 + n2))) by lia.
    transitivity (ft :: take (2 + (n1 + n2)) r1).
    + cbn [map concat encf app]. rewrite <- !app_assoc. rewrite Hcat, Henc, Hbe, E. reflexivity.
    + unfold take. replace (N.to_nat (1 + (2 + (n1 + n2)))) with (S (N.to_nat (2 + (n1 + n2)))) by lia.
      reflexivity.
  - cbn [map chf]. rewrite lmax_cons, Hch, Hm. reflexivity.
Qed.

Lemma kind_of_cases t :
  match kind_of t with
  | KFixed w => (t = T_BOOL /\ w = 1) \/ (t = T_BYTE /\ w = 1) \/ (t = T_DOUBLE /\ w = 8) \/
                (t = T_I16 /\ w = 2) \/ (t = T_I32 /\ w = 4) \/ (t = T_I64 /\ w = 8)
  | KString => t = T_STRING
  | KStruct => t = T_STRUCT
  | KMap => t = T_MAP
  | KList => t = T_SET \/ t = T_LIST
  | KBad => True
  end.
Proof.
  unfold kind_of.
  repeat match goal with |- context [N.eqb t ?c] => destruct (N.eqb_spec t c) as [->|?] end;
    cbv beta iota; auto 10.
Qed.

Lemma gp_sound : forall f t, sound_at (gp f t) t.
Proof.
  induction f as [|f IH]; intros t r n h H W; cbn [gp] in H; [discriminate|].
  pose proof (kind_of_cases t) as K.
  destruct (kind_of t) as [w| | | | |].
  - destruct (hasn r w) eqn:Hw; [|discriminate]. apply hasn_true in Hw. inv_ok H.
    destruct K as [[-> ->]|[[-> ->]|[[-> ->]|[[-> ->]|[[-> ->]|[-> ->]]]]]].
    + destruct r as [|b r']; [rewrite len_nil in Hw; lia|]. inversion W as [|? ? Hb _]; subst. unfold wfb in Hb.
      exists (VBool b). cbn [wt enc ch]. destruct (N.ltb_spec b 256); [|lia]. repeat split.
    + destruct r as [|b r']; [rewrite len_nil in Hw; lia|]. inversion W as [|? ? Hb _]; subst. unfold wfb in Hb.
      exists (VByte b). cbn [wt enc ch]. destruct (N.ltb_spec b 256); [|lia]. repeat split.
    + destruct (be_take_unbe 8 r Hw W) as [Hbe Hlt]. exists (VDouble (unbe (take 8 r))).
      cbn [wt enc ch]. change (N.of_nat 8) with 8 in *. change (256 ^ 8) with two64 in Hlt.
      destruct (N.ltb_spec (unbe (take 8 r)) two64); [|lia]. repeat split. exact Hbe.
    + destruct (be_take_unbe 2 r Hw W) as [Hbe Hlt]. exists (VI16 (unbe (take 2 r))).
      cbn [wt enc ch]. change (N.of_nat 2) with 2 in *. change (256 ^ 2) with two16 in Hlt.
      destruct (N.ltb_spec (unbe (take 2 r)) two16); [|lia]. repeat split. exact Hbe.
    + destruct (be_take_unbe 4 r Hw W) as [Hbe Hlt]. exists (VI32 (unbe (take 4 r))).
      cbn [wt enc ch]. change (N.of_nat 4) with 4 in *. change (256 ^ 4) with two32 in Hlt.
      destruct (N.ltb_spec (unbe (take 4 r)) two32); [|lia]. repeat split. exact Hbe.
    + destruct (be_take_unbe 8 r Hw W) as [Hbe Hlt]. exists (VI64 (unbe (take 8 r))).
      cbn [wt enc ch]. change (N.of_nat 8) with 8 in *. change (256 ^ 8) with two64 in Hlt.
      destruct (N.ltb_spec (unbe (take 8 r)) two64); [|lia]. repeat split. exact Hbe.
  - subst t. unfold gstring in H.
    destruct (hasn r 4) eqn:H4; [|discriminate]. apply hasn_true in H4.
    destruct (N.leb_spec two31 (unbe (take 4 r))) as [|Hpos]; [discriminate|].
    destruct (hasn (drop 4 r) (unbe (take 4 r))) eqn:Hu; [|discriminate]. apply hasn_true in Hu.
    inv_ok H. destruct (be_take_unbe 4 r H4 W) as [Hbe _]. change (N.of_nat 4) with 4 in *.
    set (u := unbe (take 4 r)) in *.
    assert (Hls : len (take u (drop 4 r)) = u) by (apply take_len; exact Hu).
    exists (VStr (take u (drop 4 r))). cbn [wt enc ch]. rewrite Hls, Hbe.
    destruct (N.ltb_spec u two31); [|lia].
    rewrite (proj2 (wfbb_wf _)) by (apply wf_take0, wf_drop0, W).
    repeat split. rewrite <- (take_split' 4 (4 + u) r) by lia. f_equal. f_equal. lia.
  - subst t. inv_bind H. destruct a as [n1 h1]. inv_ok H.
    destruct (gfields_sound (gp f) (fun ft _ _ => IH ft) (gp_bounds f) _ _ _ _ Ha W) as (fs & Hfs & Hcat & Hm).
    exists (VStruct fs). cbn [wt]. rewrite Hfs. repeat split; [exact Hcat|].
    change (ch (VStruct fs)) with (S (lmax (map chf fs))). now rewrite Hm.
  - subst t. destruct r as [|kt [|vt r2]]; try discriminate.
    inversion W as [|? ? Hkt W1]; subst. inversion W1 as [|? ? Hvt W2]; subst. unfold wfb in *.
    destruct (hasn r2 4) eqn:H4; [|discriminate]. apply hasn_true in H4.
    destruct (N.leb_spec two31 (unbe (take 4 r2))) as [|Hpos]; [discriminate|].
    inv_bind H. destruct a as [n1 h1]. inv_ok H.
    destruct (be_take_unbe 4 r2 H4 W2) as [Hbe _]. change (N.of_nat 4) with 4 in *.
    destruct (gelems_sound encp chp (fun kv => wt kt (fst kv) && wt vt (snd kv) = true)
                (gpair (gp f kt) (gp f vt))) with (f := S f) (cnt := unbe (take 4 r2)) (r := drop 4 r2) (n := n1) (h := h1)
      as (kvs & Hl & Hok & Hcat & Hm); [| |exact Ha|apply wf_drop0, W2|].
    + intros r n h Hp Wr. unfold gpair in Hp.
      inv_bind Hp. destruct a as [a1 b1]. inv_bind Hp. destruct a as [a2 b2]. inv_ok Hp.
      pose proof (gp_bounds f kt _ _ _ Ha0) as B1.
      destruct (IH kt _ _ _ Ha0 Wr) as (k & Hwk & Hek & Hck).
      destruct (IH vt _ _ _ Ha1 (wf_drop0 a1 r Wr)) as (v & Hwv & Hev & Hcv).
      exists (k, v). cbn [fst snd encp chp]. rewrite Hwk, Hwv, Hek, Hev, Hck, Hcv. repeat split.
      rewrite <- (take_split' a1 (a1 + a2) r) by lia. f_equal. f_equal. lia.
    + apply gpair_bounded; apply gp_bounds.
    + exists (VMap kt vt kvs). cbn [wt].
      destruct (N.ltb_spec kt 256); [|lia]. destruct (N.ltb_spec vt 256); [|lia].
      rewrite Hl. destruct (N.ltb_spec (unbe (take 4 r2)) two31); [|lia].
      assert (Hfb : forallb (fun kv => match kv with (k, v) => wt kt k && wt vt v end) kvs = true).
      { apply forallb_forall. rewrite Forall_forall in Hok. intros [k v] Hin. exact (Hok _ Hin). }
      rewrite Hfb. repeat split.
      * change (enc (VMap kt vt kvs)) with (kt :: vt :: be 4 (len kvs) ++ concat (map encp kvs)).
        rewrite Hl, Hbe, Hcat.
        pose proof (gelems_bounds (S f) _ (gpair_bounded _ _ (gp_bounds f kt) (gp_bounds f vt)) _ _ _ _ Ha) as Bn.
        rewrite drop_len in Bn by lia.
        replace (6 + n1) with (1 + (1 + (4 + n1))) by lia.
        assert (E : take (4 + n1) r2 = take 4 r2 ++ take n1 (drop 4 r2)).
        { rewrite <- (take_split' 4 (4 + n1) r2) by lia. f_equal. f_equal. lia. }
        rewrite <- E. unfold take at 2. replace (N.to_nat (1 + (1 + (4 + n1)))) with (S (S (N.to_nat (4 + n1)))) by lia.
        reflexivity.
      * change (ch (VMap kt vt kvs)) with (S (lmax (map chp kvs))). now rewrite Hm.
  - destruct r as [|et r1]; try discriminate.
    inversion W as [|? ? Het W1]; subst. unfold wfb in *.
    destruct (hasn r1 4) eqn:H4; [|discriminate]. apply hasn_true in H4.
    destruct (N.leb_spec two31 (unbe (take 4 r1))) as [|Hpos]; [discriminate|].
    inv_bind H. destruct a as [n1 h1]. inv_ok H.
    destruct (be_take_unbe 4 r1 H4 W1) as [Hbe _]. change (N.of_nat 4) with 4 in *.
    destruct (gelems_sound enc ch (fun v => wt et v = true) (gp f et)) with (f := S f) (cnt := unbe (take 4 r1)) (r := drop 4 r1) (n := n1) (h := h1)
      as (vs & Hl & Hok & Hcat & Hm); [| |exact Ha|apply wf_drop0, W1|].
    + intros r n h Hp Wr. destruct (IH et _ _ _ Hp Wr) as (v & Hwv & Hev & Hcv). exists v. auto.
    + apply gp_bounds.
    + assert (Hfb : forallb (wt et) vs = true).
      { apply forallb_forall. rewrite Forall_forall in Hok. exact Hok. }
      pose proof (gelems_bounds (S f) _ (gp_bounds f et) _ _ _ _ Ha) as Bn.
      rewrite drop_len in Bn by lia.
      assert (Henc : et :: be 4 (len vs) ++ concat (map enc vs) = take (5 + n1) (et :: r1)).
      { rewrite Hl, Hbe, Hcat. replace (5 + n1) with (1 + (4 + n1)) by lia.
        assert (E : take (4 + n1) r1 = take 4 r1 ++ take n1 (drop 4 r1)).
        { rewrite <- (take_split' 4 (4 + n1) r1) by lia. f_equal. f_equal. lia. }
        rewrite <- E. unfold take at 2. replace (N.to_nat (1 + (4 + n1))) with (S (N.to_nat (4 + n1))) by lia.
        reflexivity. }
      destruct K as [->| ->].
      * exists (VSet et vs). cbn [wt enc ch]. destruct (N.ltb_spec et 256); [|lia].
        rewrite Hl. destruct (N.ltb_spec (unbe (take 4 r1)) two31); [|lia]. rewrite Hfb, <- Hl.
        repeat split; [exact Henc|now rewrite Hm].
      * exists (VList et vs). cbn [wt enc ch]. destruct (N.ltb_spec et 256); [|lia].
        rewrite Hl. destruct (N.ltb_spec (unbe (take 4 r1)) two31); [|lia]. rewrite Hfb, <- Hl.
        repeat split; [exact Henc|now rewrite Hm].
  - discriminate.
Qed.

(* the grammar accepts exactly the encodings of well-typed trees (over byte strings) *)
Theorem gparse_sound t r n h :
  gparse t r = Ok (n, h) -> wf r -> exists v, wt t v = true /\ enc v = take n r /\ ch v = h.
Proof. apply gp_sound. Qed.
