(* Proofs/ErrTypesSkipP.v — C17 for the skippers.

   Part A  the cause-reporting reference [rc] (Spec/SkipCauses.v) IS the reference parse [rp] of
           C08: same acceptance, extent and height; on failure its cause set is exactly the one
           listed in Spec/SkipCauses.v for rp's error class ([rc_rp], [skip_causes_exact]).
   Part B  Binary.Skip ([bskip]) against [rc inl_all]: the simulation of Proofs/SkipP.v carried
           out again with the error classes ([csim]): every error the model returns names a
           cause that [rc] allows at the failure point ([binary_skip_csim], [skip_err_typed]).
   (Parts C, D: the template decoders and BufferReader.Skip, in Proofs/ErrTypesSkipStreamP.v.) *)
From GV Require Import Lib.Bytes Lib.Res Gen.Consts Model.Binary Model.Skip
  Spec.ThriftGrammar Spec.RefParse Spec.ErrKinds Spec.SkipCauses
  Proofs.RefLib Proofs.RefP Proofs.SkipLib Proofs.SkipP.
From Coq Require Import ZifyN ZifyNat ZifyBool Lia.
Open Scope N_scope.

(* ================= Part A: rc is rp ================= *)

Lemma rc_S i d t r :
  rc i (S d) t r =
  match kind_of t with
  | KBad => Err (entry_mask false t r)
  | _ => lvl (S (length r)) (rp_es i (rc i d)) (rp_em i (rc i d)) (rp_el i (rc i d)) t r
  end.
Proof.
  cbn [rc]. unfold lvl, leaf. destruct (kind_of t) eqn:K; try reflexivity.
Qed.

(* two parse results: same value, or errors related by Q *)
Definition prel (Q : Z -> Z -> Prop) (x y : pres) : Prop :=
  match x, y with
  | Ok a, Ok b => a = b
  | Err e, Err m => Q e m
  | _, _ => False
  end.

Section Rel.
  Variable Q : Z -> Z -> Prop.
  Hypothesis Q_trunc : Q E_TRUNC E_TRUNC.
  Hypothesis Q_neg : Q E_NEGSIZE E_NEGSIZE.
  Hypothesis Q_fuel : Q E_FUEL E_FUEL.

  Lemma prel_refl_leaf t r : (is_fixed t || is_str t) = true -> prel Q (leaf t r) (leaf t r).
  Proof.
    unfold is_fixed, is_str, leaf, prel. destruct (kind_of t); try discriminate; intros _.
    - destruct (hasn r width); [reflexivity|exact Q_trunc].
    - unfold gstring. destruct (hasn r 4); [|exact Q_trunc].
      destruct (two31 <=? _); [exact Q_neg|]. destruct (hasn _ _); [reflexivity|exact Q_trunc].
  Qed.

  Lemma member_rel fx st rec1 rec2 t r :
    prel Q (rec1 t r) (rec2 t r) -> prel Q (member fx st rec1 t r) (member fx st rec2 t r).
  Proof.
    intros H. unfold member. destruct ((fx && is_fixed t) || (st && is_str t)) eqn:C; [|exact H].
    apply prel_refl_leaf. destruct fx, st, (is_fixed t), (is_str t); cbn in *; congruence.
  Qed.

  Lemma gpair_rel a1 a2 b1 b2 r :
    (forall r, prel Q (a1 r) (a2 r)) -> (forall r, prel Q (b1 r) (b2 r)) ->
    prel Q (gpair a1 b1 r) (gpair a2 b2 r).
  Proof.
    intros Ha Hb. unfold gpair. specialize (Ha r). unfold prel in Ha.
    destruct (a1 r) as [[n h]|e| |]; destruct (a2 r) as [[n' h']|m| |]; try contradiction; cbn [bind].
    - inversion Ha; subst. specialize (Hb (drop n' r)). unfold prel in *.
      destruct (b1 (drop n' r)) as [[x hx]|e| |]; destruct (b2 (drop n' r)) as [[x' hx']|m| |];
        try contradiction; cbn [bind]; [|exact Hb]. inversion Hb; subst. reflexivity.
    - exact Ha.
  Qed.

  Lemma gelems_rel e1 e2 : (forall r, prel Q (e1 r) (e2 r)) ->
    forall f c r, prel Q (gelems f e1 c r) (gelems f e2 c r).
  Proof.
    intros He. induction f as [|f IH]; intros c r; cbn [gelems].
    - destruct (c =? 0); [reflexivity|exact Q_fuel].
    - destruct (c =? 0); [reflexivity|].
      specialize (He r). unfold prel in He.
      destruct (e1 r) as [[n h]|e| |]; destruct (e2 r) as [[n' h']|m| |]; try contradiction; cbn [bind];
        [|exact He].
      inversion He; subst. specialize (IH (N.pred c) (drop n' r)). unfold prel in *.
      destruct (gelems f e1 _ _) as [[x hx]|e| |]; destruct (gelems f e2 _ _) as [[x' hx']|m| |];
        try contradiction; cbn [bind]; [|exact IH]. inversion IH; subst. reflexivity.
  Qed.

  Lemma gfields_rel e1 e2 : (forall ft r, prel Q (e1 ft r) (e2 ft r)) ->
    forall f r, prel Q (gfields f e1 r) (gfields f e2 r).
  Proof.
    intros He. induction f as [|f IH]; intros r; cbn [gfields]; [exact Q_fuel|].
    destruct r as [|ft r1]; [exact Q_trunc|].
    destruct (ft =? T_STOP); [reflexivity|].
    destruct (hasn r1 2); [|exact Q_trunc].
    specialize (He ft (drop 2 r1)). unfold prel in He.
    destruct (e1 ft _) as [[n h]|e| |]; destruct (e2 ft _) as [[n' h']|m| |]; try contradiction; cbn [bind];
      [|exact He].
    inversion He; subst. specialize (IH (drop n' (drop 2 r1))). unfold prel in *.
    destruct (gfields f e1 _) as [[x hx]|e| |]; destruct (gfields f e2 _) as [[x' hx']|m| |];
      try contradiction; cbn [bind]; [|exact IH]. inversion IH; subst. reflexivity.
  Qed.

  Lemma lvl_rel fu es1 es2 em1 em2 el1 el2 t r :
    (forall ft r, prel Q (es1 ft r) (es2 ft r)) ->
    (forall kt vt r, prel Q (em1 kt vt r) (em2 kt vt r)) ->
    (forall et r, prel Q (el1 et r) (el2 et r)) ->
    kind_of t <> KBad ->
    prel Q (lvl fu es1 em1 el1 t r) (lvl fu es2 em2 el2 t r).
  Proof.
    intros Hs Hm Hl Hk. unfold lvl. destruct (kind_of t) eqn:K; [| | | | |congruence].
    - destruct (hasn r width); [reflexivity|exact Q_trunc].
    - unfold gstring. destruct (hasn r 4); [|exact Q_trunc].
      destruct (two31 <=? _); [exact Q_neg|]. destruct (hasn _ _); [reflexivity|exact Q_trunc].
    - pose proof (gfields_rel es1 es2 Hs fu r) as G. unfold prel in *.
      destruct (gfields fu es1 r) as [[n h]|e| |]; destruct (gfields fu es2 r) as [[n' h']|m| |];
        try contradiction; cbn [bind]; [|exact G]. inversion G; subst. reflexivity.
    - destruct r as [|kt [|vt r2]]; try exact Q_trunc.
      destruct (hasn r2 4); [|exact Q_trunc].
      destruct (two31 <=? _); [exact Q_neg|].
      pose proof (gelems_rel (em1 kt vt) (em2 kt vt) (Hm kt vt) fu (unbe (take 4 r2)) (drop 4 r2)) as G.
      unfold prel in *.
      destruct (gelems fu (em1 kt vt) _ _) as [[n h]|e| |]; destruct (gelems fu (em2 kt vt) _ _) as [[n' h']|m| |];
        try contradiction; cbn [bind]; [|exact G]. inversion G; subst. reflexivity.
    - destruct r as [|et r1]; try exact Q_trunc.
      destruct (hasn r1 4); [|exact Q_trunc].
      destruct (two31 <=? _); [exact Q_neg|].
      pose proof (gelems_rel (el1 et) (el2 et) (Hl et) fu (unbe (take 4 r1)) (drop 4 r1)) as G.
      unfold prel in *.
      destruct (gelems fu (el1 et) _ _) as [[n h]|e| |]; destruct (gelems fu (el2 et) _ _) as [[n' h']|m| |];
        try contradiction; cbn [bind]; [|exact G]. inversion G; subst. reflexivity.
  Qed.
End Rel.

(* rp's error class against rc's cause set, exactly *)
Definition Qx (e m : Z) : Prop :=
  (e = E_TRUNC /\ m = 1)%Z \/ (e = E_NEGSIZE /\ m = 2)%Z \/ (e = E_BADTYPE /\ (m = 4 \/ m = 5))%Z \/
  (e = E_DEPTH /\ (m = 8 \/ m = 9 \/ m = 12 \/ m = 13))%Z \/ (e = E_FUEL /\ m = E_FUEL).

Lemma entry_mask_true t r :
  let m := entry_mask true t r in (m = 8 \/ m = 9 \/ m = 12 \/ m = 13)%Z.
Proof. unfold entry_mask. destruct (kind_of t), r; cbn; tauto. Qed.
Lemma entry_mask_false_bad t r : kind_of t = KBad ->
  let m := entry_mask false t r in (m = 4 \/ m = 5)%Z.
Proof. intros K. unfold entry_mask. rewrite K. destruct r; cbn; tauto. Qed.

Lemma rc_rp i : forall d t r, prel Qx (rp i d t r) (rc i d t r).
Proof.
  assert (Qt : Qx E_TRUNC E_TRUNC) by (left; split; reflexivity).
  assert (Qn : Qx E_NEGSIZE E_NEGSIZE) by (right; left; split; reflexivity).
  assert (Qf : Qx E_FUEL E_FUEL) by (do 4 right; split; reflexivity).
  induction d as [|d IH]; intros t r.
  - cbn [rp rc prel]. do 3 right. left. split; [reflexivity|apply entry_mask_true].
  - rewrite rp_S, rc_S. destruct (kind_of t) eqn:K.
    6:{ unfold lvl. rewrite K. cbn [prel]. right. right. left. split; [reflexivity|].
        apply entry_mask_false_bad, K. }
    all: apply (lvl_rel Qx Qt Qn Qf); try congruence;
      try (intros ft r0; unfold rp_es; apply (member_rel Qx Qt Qn), IH);
      try (intros kt vt r0; unfold rp_em, rp_m; apply (gpair_rel Qx); intros r1; apply (member_rel Qx Qt Qn), IH);
      try (intros et r0; unfold rp_el; apply (member_rel Qx Qt Qn), IH).
Qed.

Lemma rc_ok_iff i d t r x : rc i d t r = Ok x <-> rp i d t r = Ok x.
Proof.
  pose proof (rc_rp i d t r) as H. unfold prel in H.
  destruct (rp i d t r) as [a|e| |]; destruct (rc i d t r) as [b|m| |]; try contradiction;
    split; intros E; try discriminate; congruence.
Qed.

Lemma rc_good i d t : good (rc i d t).
Proof. intros r n h E. apply rc_ok_iff in E. eapply rp_good; eauto. Qed.
Lemma rc_nocrash i d t : nocrash (rc i d t).
Proof.
  intros r. pose proof (rc_rp i d t r) as H. unfold prel in H.
  destruct (rp_nocrash i d t r) as [[x E]|[e E]]; rewrite E in H;
    destruct (rc i d t r) as [b|m| |]; try contradiction; [left|right]; eauto.
Qed.

(* with no input every parse fails, and truncation is among the causes *)
Definition tnil (f : bytes -> pres) : Prop := exists m, f [] = Err m /\ mask_has m CTrunc = true.

Lemma rc_tnil i d t : tnil (rc i d t).
Proof.
  destruct d as [|d].
  - cbn [rc]. eexists. split; [reflexivity|]. unfold entry_mask. destruct (kind_of t); reflexivity.
  - unfold tnil. rewrite rc_S. unfold lvl. destruct (kind_of t) eqn:K.
    + pose proof (kind_fixed_pos _ _ K). rewrite hasn_le. change (len (@nil N)) with 0.
      destruct (N.leb_spec width 0); [lia|]. eexists; split; reflexivity.
    + eexists; split; reflexivity.
    + cbn. eexists; split; reflexivity.
    + eexists; split; reflexivity.
    + eexists; split; reflexivity.
    + eexists; split; [reflexivity|]. unfold entry_mask. rewrite K. reflexivity.
Qed.
Lemma leaf_tnil t : (is_fixed t || is_str t) = true -> tnil (leaf t).
Proof.
  unfold is_fixed, is_str, leaf, tnil. destruct (kind_of t) eqn:K; try discriminate; intros _.
  - pose proof (kind_fixed_pos _ _ K). rewrite hasn_le. change (len (@nil N)) with 0.
    destruct (N.leb_spec width 0); [lia|]. eexists; split; reflexivity.
  - eexists; split; reflexivity.
Qed.
Lemma member_tnil fx st rec t : tnil (rec t) -> tnil (member fx st rec t).
Proof.
  intros H. unfold tnil, member. destruct ((fx && is_fixed t) || (st && is_str t)) eqn:C; [|exact H].
  apply leaf_tnil. destruct fx, st, (is_fixed t), (is_str t); cbn in *; congruence.
Qed.

(* ================= Part B: Binary.Skip against rc inl_all ================= *)

(* the error code [c] of a skipper model names a cause of the set [m] *)
Definition allowed (c m : Z) : bool :=
  if (c =? e_too_short)%Z then mask_has m CTrunc
  else if (c =? e_neg_size)%Z then mask_has m CNeg
  else if (c =? e_unknown_type)%Z then mask_has m CUnknownType
  else if (c =? e_depth)%Z then mask_has m CDepth
  else false.

Lemma allowed_short m : allowed e_too_short m = mask_has m CTrunc.
Proof. reflexivity. Qed.
Lemma allowed_not_fuel c m : allowed c m = true -> c <> e_fuel.
Proof. intros H ->. discriminate H. Qed.
Lemma allowed_depth0 t r : allowed e_depth (entry_mask true t r) = true.
Proof. unfold entry_mask. destruct (kind_of t), r; reflexivity. Qed.
Lemma allowed_unknown t r : kind_of t = KBad -> allowed e_unknown_type (entry_mask false t r) = true.
Proof. intros K. unfold entry_mask. rewrite K. destruct r; reflexivity. Qed.

(* the simulation relations of Proofs/SkipLib.v, with the error classes *)
Definition csim (x : res N) (y : pres) : Prop :=
  match x, y with
  | Ok n, Ok (n', _) => n = n'
  | Err c, Err m => allowed c m = true
  | _, _ => False
  end.
Definition csimL (i : N) (x : res N) (y : pres) : Prop :=
  match x, y with
  | Ok i', Ok (n, _) => i' = i + n
  | Err c, Err m => allowed c m = true
  | _, _ => False
  end.
(* weak: a fixed-size member that does not fit is reported as skipped (q + n > e); the reference
   says "truncated" there, and so will the caller's next bounds check *)
Definition cwsim (e q : N) (x : res N) (y : pres) : Prop :=
  match x, y with
  | Ok n, Ok (n', _) => n = n'
  | Err c, Err m => allowed c m = true
  | Ok n, Err m => e < q + n /\ mask_has m CTrunc = true
  | _, _ => False
  end.
Definition cwsimL (e p i : N) (x : res N) (y : pres) : Prop :=
  match x, y with
  | Ok i', Ok (n, _) => i' = i + n
  | Err c, Err m => allowed c m = true
  | Ok i', Err m => e < p + i' /\ mask_has m CTrunc = true
  | _, _ => False
  end.

Lemma csim_cwsim e q x y : csim x y -> cwsim e q x y.
Proof. unfold csim, cwsim. destruct x, y as [[? ?]| | |]; tauto. Qed.

Section BufC.
  Variable b : bytes.
  Hypothesis Hwf : wf b.
  Variable e : N.
  Hypothesis He : e = len b.

  Notation len_drop_b := (len_drop_b b e He).
  Notation drop_b_cons := (drop_b_cons b Hwf e He).

  (* ---------- skipstr ---------- *)
  Lemma skipstr_csim q : q <= e -> csim (b_skipstr b e q) (gstring (drop q b)).
  Proof.
    intros Hq. unfold b_skipstr, gstring. rewrite hasn_le, len_drop_b.
    destruct (N.leb_spec (q + 4) e); destruct (N.leb_spec 4 (e - q)); try lia;
      [|reflexivity].
    rewrite ld32_ok by (rewrite hasn_le, len_drop_b; apply N.leb_le; lia). cbn [bind].
    pose proof (unbe4_lt (drop q b) (wf_drop q b Hwf)) as Hu.
    set (u := unbe (take 4 (drop q b))) in *.
    rewrite i32_neg by exact Hu.
    destruct (N.leb_spec two31 u); [reflexivity|].
    rewrite i32_small by assumption. rewrite N2Z.id.
    rewrite hasn_le, len_drop, len_drop_b.
    destruct (N.leb_spec (q + (4 + u)) e); destruct (N.leb_spec u (e - q - 4)); try lia;
      reflexivity.
  Qed.

  (* ---------- LIST/SET slow path ---------- *)
  Section ListLoop.
    Variables (p : N) (ef : N -> res N) (eR : bytes -> pres).
    Hypothesis HE : forall q, q < e -> csim (ef q) (eR (drop q b)).
    Hypothesis GE : good eR.
    Hypothesis TE : tnil eR.

    Lemma list_loop_csim : forall fuel1 fuel2 cnt i,
      p + i <= e -> e < p + i + N.of_nat fuel1 -> (length (drop (p + i) b) < fuel2)%nat ->
      csimL i (b_list_loop ef e p fuel1 cnt i) (gelems fuel2 eR cnt (drop (p + i) b)).
    Proof.
      induction fuel1 as [|f IH]; intros fuel2 cnt i Hi Hf1 Hf2; [lia|].
      cbn [b_list_loop].
      destruct fuel2 as [|f2]; [lia|]. cbn [gelems].
      destruct (N.eqb_spec cnt 0) as [->|Hc]. { unfold csimL. lia. }
      destruct (N.leb_spec e (p + i)) as [Hend|Hin].
      - rewrite (drop_all (p + i) b) by (rewrite <- He; lia).
        destruct TE as [m [Em Tm]]. rewrite Em. cbn [bind csimL]. rewrite allowed_short. exact Tm.
      - specialize (HE (p + i) Hin). unfold csim in HE.
        destruct (ef (p + i)) as [vi|c| |]; destruct (eR (drop (p + i) b)) as [[n h]|er| |] eqn:ER;
          try contradiction; cbn [bind].
        + subst vi. pose proof (GE _ _ _ ER) as Gb. rewrite len_drop_b in Gb.
          rewrite drop_plus. rewrite N.pred_sub.
          specialize (IH f2 (cnt - 1) (i + n)).
          replace (p + (i + n)) with (p + i + n) in IH by lia.
          assert (Hl : (length (drop (p + i + n) b) < f2)%nat).
          { unfold drop in *. rewrite skipn_length in *. unfold len in *. lia. }
          specialize (IH ltac:(lia) ltac:(lia) Hl).
          unfold csimL in *.
          destruct (b_list_loop ef e p f (cnt - 1) (i + n)) as [i'|c| |];
            destruct (gelems f2 eR (cnt - 1) (drop (p + i + n) b)) as [[m hm]|er| |];
            try contradiction; cbn [bind]; [lia|exact IH].
        + cbn [csimL]. exact HE.
    Qed.
  End ListLoop.

  (* ---------- MAP slow path ---------- *)
  Section MapLoop.
    Variables (p : N) (kf vf : N -> res N) (kR vR : bytes -> pres).
    Hypothesis HK : forall q, q < e -> cwsim e q (kf q) (kR (drop q b)).
    Hypothesis HV : forall q, q < e -> cwsim e q (vf q) (vR (drop q b)).
    Hypothesis GK : good kR.
    Hypothesis GV : good vR.
    Hypothesis TK : tnil kR.
    Hypothesis TV : tnil vR.

    Lemma map_loop_csim : forall fuel1 fuel2 cnt i,
      p + i <= e -> e < p + i + N.of_nat fuel1 -> (length (drop (p + i) b) < fuel2)%nat ->
      cwsimL e p i (b_map_loop kf vf e p fuel1 cnt i) (gelems fuel2 (gpair kR vR) cnt (drop (p + i) b)).
    Proof.
      induction fuel1 as [|f IH]; intros fuel2 cnt i Hi Hf1 Hf2; [lia|].
      cbn [b_map_loop].
      destruct fuel2 as [|f2]; [lia|]. cbn [gelems].
      destruct (N.eqb_spec cnt 0) as [->|Hc]. { unfold cwsimL. lia. }
      unfold gpair at 1.
      destruct (N.leb_spec e (p + i)) as [Hend|Hin].
      { rewrite (drop_all (p + i) b) by (rewrite <- He; lia).
        destruct TK as [m [Em Tm]]. rewrite Em. cbn [bind cwsimL]. rewrite allowed_short. exact Tm. }
      pose proof (HK (p + i) Hin) as HKq. unfold cwsim in HKq.
      destruct (kf (p + i)) as [ki|c| |]; destruct (kR (drop (p + i) b)) as [[n h]|er| |] eqn:ER;
        try contradiction; cbn [bind].
      2:{ (* key over-reported: the check before the value rejects *)
          destruct HKq as [HKq Tm].
          destruct (N.leb_spec e (p + (i + ki))); [|lia]. cbn [cwsimL]. rewrite allowed_short. exact Tm. }
      2:{ cbn [cwsimL]. exact HKq. }
      subst ki. pose proof (GK _ _ _ ER) as Gb. rewrite len_drop_b in Gb.
      rewrite drop_plus.
      destruct (N.leb_spec e (p + (i + n))) as [Hend|Hin2].
      { rewrite (drop_all (p + i + n) b) by (rewrite <- He; lia).
        destruct TV as [m [Em Tm]]. rewrite Em. cbn [bind cwsimL]. rewrite allowed_short. exact Tm. }
      pose proof (HV (p + (i + n))) as HVq. specialize (HVq ltac:(lia)). unfold cwsim in HVq.
      replace (p + (i + n)) with (p + i + n) in * by lia.
      destruct (vf (p + i + n)) as [vi|c| |]; destruct (vR (drop (p + i + n) b)) as [[m hm]|er| |] eqn:ERV;
        try contradiction; cbn [bind].
      3:{ cbn [cwsimL]. exact HVq. }
      2:{ (* value over-reported: the next iteration (or the final check) rejects *)
          destruct HVq as [HVq Tm].
          destruct f as [|f']; [lia|]. cbn [b_map_loop].
          destruct (N.eqb_spec (cnt - 1) 0); [cbn [cwsimL]; split; [lia|exact Tm]|].
          destruct (N.leb_spec e (p + (i + n + vi))); [|lia]. cbn [cwsimL]. rewrite allowed_short. exact Tm. }
      subst vi. pose proof (GV _ _ _ ERV) as Gb2. rewrite len_drop_b in Gb2.
      rewrite drop_plus. rewrite N.pred_sub.
      specialize (IH f2 (cnt - 1) (i + n + m)).
      replace (p + (i + n + m)) with (p + i + (n + m)) in IH by lia.
      assert (Hl : (length (drop (p + i + (n + m)) b) < f2)%nat).
      { unfold drop in *. rewrite skipn_length in *. unfold len in *. lia. }
      specialize (IH ltac:(lia) ltac:(lia) Hl).
      unfold cwsimL in *.
      destruct (b_map_loop kf vf e p f (cnt - 1) (i + n + m)) as [i'|c| |];
        destruct (gelems f2 (gpair kR vR) (cnt - 1) (drop (p + i + (n + m)) b)) as [[x hx]|er| |];
        try contradiction; cbn [bind]; [lia|exact IH|exact IH].
    Qed.
  End MapLoop.

  (* ---------- STRUCT ---------- *)
  Section StructLoop.
    Variables (p : N) (fld : N -> N -> res N) (eR : N -> bytes -> pres).
    Hypothesis HF : forall ft q, ft < 256 -> q < e -> cwsim e q (fld ft q) (eR ft (drop q b)).
    Hypothesis GF : forall ft, good (eR ft).
    Hypothesis TF : forall ft, tnil (eR ft).

    Lemma struct_loop_csim : forall fuel1 fuel2 i,
      p + i <= e -> e < p + i + N.of_nat fuel1 -> (length (drop (p + i) b) < fuel2)%nat ->
      csimL i (b_struct_loop fld b e p fuel1 i) (gfields fuel2 eR (drop (p + i) b)).
    Proof.
      induction fuel1 as [|f IH]; intros fuel2 i Hi Hf1 Hf2; [lia|].
      cbn [b_struct_loop]. destruct fuel2 as [|f2]; [lia|]. cbn [gfields].
      destruct (N.leb_spec e (p + i)) as [Hend|Hin].
      { rewrite (drop_all (p + i) b) by (rewrite <- He; lia). reflexivity. }
      destruct (drop_b_cons (p + i) Hin) as [ft [D Hft]]. rewrite D.
      rewrite (ld8_ok b (p + i) ft _ D). cbn [bind].
      destruct (is_ty_ok ft Hft) as (_&_&_&_&_&Hstop). rewrite Hstop.
      destruct (ft =? T_STOP). { unfold csimL. lia. }
      rewrite hasn_le, len_drop_b.
      destruct (N.leb_spec 2 (e - (p + i + 1))) as [H2|H2].
      2:{ destruct (N.leb_spec e (p + (i + 1 + 2))); [reflexivity|lia]. }
      rewrite drop_plus.
      destruct (N.leb_spec e (p + (i + 1 + 2))) as [Hend|Hin3].
      { rewrite (drop_all (p + i + 1 + 2) b) by (rewrite <- He; lia).
        destruct (TF ft) as [m [Em Tm]]. rewrite Em. cbn [bind csimL]. rewrite allowed_short. exact Tm. }
      pose proof (HF ft (p + (i + 1 + 2)) Hft Hin3) as HFq. unfold cwsim in HFq.
      replace (p + (i + 1 + 2)) with (p + i + 1 + 2) in * by lia.
      destruct (fld ft (p + i + 1 + 2)) as [fi|c| |];
        destruct (eR ft (drop (p + i + 1 + 2) b)) as [[n h]|er| |] eqn:ER; try contradiction; cbn [bind].
      3:{ cbn [csimL]. exact HFq. }
      2:{ destruct HFq as [HFq Tm]. destruct f as [|f']; [lia|]. cbn [b_struct_loop].
          destruct (N.leb_spec e (p + (i + 1 + 2 + fi))); [|lia]. cbn [csimL]. rewrite allowed_short. exact Tm. }
      subst fi. pose proof (GF ft _ _ _ ER) as Gb. rewrite len_drop_b in Gb.
      rewrite drop_plus.
      specialize (IH f2 (i + 1 + 2 + n)).
      replace (p + (i + 1 + 2 + n)) with (p + i + 1 + 2 + n) in IH by lia.
      assert (Hl : (length (drop (p + i + 1 + 2 + n) b) < f2)%nat).
      { unfold drop in *. rewrite skipn_length in *. unfold len in *. lia. }
      specialize (IH ltac:(lia) ltac:(lia) Hl).
      unfold csimL in *.
      destruct (b_struct_loop fld b e p f (i + 1 + 2 + n)) as [i'|c| |];
        destruct (gfields f2 eR (drop (p + i + 1 + 2 + n) b)) as [[m hm]|er| |];
        try contradiction; cbn [bind]; [lia|exact IH].
    Qed.
  End StructLoop.

  (* ---------- one member ---------- *)
  Section Member.
    Variables (self : N -> N -> res N) (rec : N -> bytes -> pres).
    Hypothesis HS : forall q t, t < 256 -> q <= e -> csim (self q t) (rec t (drop q b)).

    Lemma belem_cwsim t q : t < 256 -> q <= e ->
      cwsim e q (b_elem self b e (Z.of_N (fixed_width t)) t q) (member true true rec t (drop q b)).
    Proof.
      intros Ht Hq. unfold b_elem, member. rewrite fixed_width_pos.
      destruct (is_ty_ok t Ht) as (Hs&_). rewrite Hs. cbn [andb].
      destruct (is_fixed t) eqn:F; cbn [orb].
      - unfold is_fixed in F. destruct (kind_of t) eqn:K; try discriminate.
        rewrite (leaf_fixed t width K). unfold fixedp, fixed_width. rewrite K, N2Z.id.
        rewrite hasn_le, len_drop_b. unfold cwsim.
        destruct (N.leb_spec width (e - q)); [reflexivity|]. split; [lia|reflexivity].
      - destruct (is_str t) eqn:S.
        + unfold is_str in S. destruct (kind_of t) eqn:K; try discriminate.
          rewrite (leaf_str t K). apply csim_cwsim, skipstr_csim, Hq.
        + apply csim_cwsim, HS; assumption.
    Qed.

    Lemma belem_csim t q : t < 256 -> q <= e -> is_fixed t = false ->
      csim (b_elem self b e (Z.of_N (fixed_width t)) t q) (member true true rec t (drop q b)).
    Proof.
      intros Ht Hq F. unfold b_elem, member. rewrite fixed_width_pos, F.
      destruct (is_ty_ok t Ht) as (Hs&_). rewrite Hs. cbn [andb orb].
      destruct (is_str t) eqn:S.
      - unfold is_str in S. destruct (kind_of t) eqn:K; try discriminate.
        rewrite (leaf_str t K). apply skipstr_csim, Hq.
      - apply HS; assumption.
    Qed.

    Lemma bfield_cwsim ft q : ft < 256 -> q < e ->
      cwsim e q (b_field self b e ft q) (member true true rec ft (drop q b)).
    Proof.
      intros Ht Hq. unfold b_field. rewrite (tts_ok SBinary ft Ht). cbn [bind].
      apply belem_cwsim; [assumption|lia].
    Qed.
  End Member.

  (* ---------- skipType ---------- *)
  Variable fu : nat.
  Hypothesis Hfu : (length b < fu)%nat.

  Lemma memc_good d t : good (member true true (rc inl_all d) t).
  Proof. apply member_good, rc_good. Qed.
  Lemma memc_tnil d t : tnil (member true true (rc inl_all d) t).
  Proof. apply member_tnil, rc_tnil. Qed.

  Notation fuel_ok := (fuel_ok b e He fu Hfu).

  Lemma bskip_csim : forall d p t, t < 256 -> p <= e ->
    csim (bskip d b e fu p t) (rc inl_all d t (drop p b)).
  Proof.
    induction d as [|d IH]; intros p t Ht Hp.
    { cbn [bskip rc csim]. apply allowed_depth0. }
    rewrite rc_S. cbn [bskip]. rewrite (tts_ok SBinary t Ht). cbn [bind]. rewrite fixed_width_pos.
    destruct (is_ty_ok t Ht) as (Hs&Hm&Hl&_&Hst&_). rewrite Hs, Hm, Hl, Hst. clear Hs Hm Hl Hst.
    unfold lvl, is_fixed, is_str, is_map, is_list, is_struct, fixed_width.
    destruct (kind_of t) eqn:K; cbv beta iota.
    - (* fixed *)
      rewrite N2Z.id, hasn_le, len_drop_b. pose proof (kind_fixed_pos _ _ K).
      destruct (N.ltb_spec e (p + width)); destruct (N.leb_spec width (e - p)); try slia; reflexivity.
    - apply skipstr_csim, Hp.
    - (* struct *)
      pose proof (struct_loop_csim p (b_field (fun q t' => bskip d b e fu q t') b e)
                    (rp_es inl_all (rc inl_all d))) as L.
      specialize (L ltac:(intros ft q Hft Hq; apply bfield_cwsim; [exact IH|exact Hft|exact Hq])
                    ltac:(intros ft; apply memc_good) ltac:(intros ft; apply memc_tnil)
                    fu (S (length (drop p b))) 0).
      rewrite N.add_0_r in L. specialize (L Hp (fuel_ok p Hp) ltac:(slia)).
      unfold csimL in L. unfold csim.
      destruct (b_struct_loop _ b e p fu 0) as [i'|c| |]; try contradiction;
        destruct (gfields _ _ (drop p b)) as [[n h]|er| |]; try contradiction; cbn [bind]; [slia|exact L].
    - (* map *)
      set (F := S (length (drop p b))).
      assert (HF : forall k, (length (drop (p + k) b) < F)%nat)
        by (intros k; subst F; unfold drop; rewrite !skipn_length; slia).
      destruct (N.ltb_spec e (p + 6)) as [Hshort|Hlong].
      { destruct (drop p b) as [|kt [|vt r2]] eqn:D; try reflexivity.
        pose proof (len_drop_b p) as Ld. rewrite D, !len_cons in Ld.
        rewrite hasn_le. destruct (N.leb_spec 4 (len r2)); [slia|reflexivity]. }
      destruct (drop_b_cons p ltac:(slia)) as [kt [D1 Hkt]].
      destruct (drop_b_cons (p + 1) ltac:(slia)) as [vt [D2 Hvt]].
      rewrite D1, D2. replace (p + 1 + 1) with (p + 2) by slia.
      rewrite (ld8_ok b p kt _ D1), (ld8_ok b (p + 1) vt _ D2). cbn [bind].
      assert (H4 : hasn (drop (p + 2) b) 4 = true).
      { rewrite hasn_le, len_drop_b. apply N.leb_le. slia. }
      rewrite H4, (ld32_ok b (p + 2) H4). cbn [bind]. cbv zeta.
      pose proof (unbe4_lt (drop (p + 2) b) (wf_drop (p + 2) b Hwf)) as Hu.
      set (u := unbe (take 4 (drop (p + 2) b))) in *.
      rewrite i32_neg by exact Hu.
      destruct (N.leb_spec two31 u) as [Hneg|Hpos]; [reflexivity|].
      rewrite i32_small by exact Hpos.
      rewrite (tts_ok SBinary kt Hkt), (tts_ok SBinary vt Hvt). cbn [bind].
      rewrite !fixed_width_pos. rewrite drop_plus. replace (p + 2 + 4) with (p + 6) by slia.
      unfold rp_em, rp_m. cbn [inl_all in_map_fixed in_map_str]. rewrite Bool.orb_true_r.
      destruct (is_fixed kt && is_fixed vt) eqn:FF.
      + (* fast path *)
        apply andb_true_iff in FF as [Fk Fv]. unfold is_fixed in Fk, Fv.
        destruct (kind_of kt) as [kw| | | | |] eqn:Kk; try discriminate.
        destruct (kind_of vt) as [vw| | | | |] eqn:Kv; try discriminate.
        unfold fixed_width. rewrite Kk, Kv.
        rewrite (gelems_ext _ _ (fixedp (kw + vw))).
        2:{ intros r. rewrite <- gpair_fixed. apply gpair_ext; apply member_fixed_ext; assumption. }
        pose proof (kind_fixed_pos _ _ Kk). pose proof (kind_fixed_pos _ _ Kv).
        rewrite gelems_fixed; [|slia|apply HF].
        rewrite <- N2Z.inj_add, <- N2Z.inj_mul, N2Z.id.
        rewrite hasn_le, len_drop_b.
        destruct (N.ltb_spec e (p + (6 + u * (kw + vw)))); destruct (N.leb_spec (u * (kw + vw)) (e - (p + 6)));
          try slia; reflexivity.
      + (* slow path *)
        rewrite N2Z.id.
        pose proof (map_loop_csim p
           (b_elem (fun q t' => bskip d b e fu q t') b e (Z.of_N (fixed_width kt)) kt)
           (b_elem (fun q t' => bskip d b e fu q t') b e (Z.of_N (fixed_width vt)) vt)
           (member true true (rc inl_all d) kt) (member true true (rc inl_all d) vt)) as L.
        specialize (L ltac:(intros q Hq; apply belem_cwsim; [exact IH|exact Hkt|slia])
                      ltac:(intros q Hq; apply belem_cwsim; [exact IH|exact Hvt|slia])
                      (memc_good d kt) (memc_good d vt) (memc_tnil d kt) (memc_tnil d vt)
                      fu F u 6).
        specialize (L ltac:(slia) (fuel_ok (p + 6) ltac:(slia)) (HF 6)).
        unfold cwsimL in L. unfold csim.
        destruct (b_map_loop _ _ e p fu u 6) as [i'|c| |]; try contradiction;
          destruct (gelems _ _ u (drop (p + 6) b)) as [[n h]|er| |] eqn:EG; try contradiction; cbn [bind].
        * apply gelems_bound in EG; [|apply gpair_good; apply memc_good]. rewrite len_drop_b in EG.
          destruct (N.ltb_spec e (p + i')); [slia|]. slia.
        * destruct L as [L Tm]. destruct (N.ltb_spec e (p + i')); [|slia]. rewrite allowed_short. exact Tm.
        * exact L.
    - (* list / set *)
      set (F := S (length (drop p b))).
      assert (HF : forall k, (length (drop (p + k) b) < F)%nat)
        by (intros k; subst F; unfold drop; rewrite !skipn_length; slia).
      destruct (N.ltb_spec e (p + 5)) as [Hshort|Hlong].
      { destruct (drop p b) as [|et r1] eqn:D; try reflexivity.
        pose proof (len_drop_b p) as Ld. rewrite D, !len_cons in Ld.
        rewrite hasn_le. destruct (N.leb_spec 4 (len r1)); [slia|reflexivity]. }
      destruct (drop_b_cons p ltac:(slia)) as [et [D1 Het]].
      rewrite D1. rewrite (ld8_ok b p et _ D1). cbn [bind].
      assert (H4 : hasn (drop (p + 1) b) 4 = true).
      { rewrite hasn_le, len_drop_b. apply N.leb_le. slia. }
      rewrite H4, (ld32_ok b (p + 1) H4). cbn [bind]. cbv zeta.
      pose proof (unbe4_lt (drop (p + 1) b) (wf_drop (p + 1) b Hwf)) as Hu.
      set (u := unbe (take 4 (drop (p + 1) b))) in *.
      rewrite i32_neg by exact Hu.
      destruct (N.leb_spec two31 u) as [Hneg|Hpos]; [reflexivity|].
      rewrite i32_small by exact Hpos.
      rewrite (tts_ok SBinary et Het). cbn [bind].
      rewrite !fixed_width_pos. rewrite drop_plus. replace (p + 1 + 4) with (p + 5) by slia.
      unfold rp_el. cbn [inl_all in_list_str].
      destruct (is_fixed et) eqn:Fe.
      + unfold is_fixed in Fe. destruct (kind_of et) as [w| | | | |] eqn:Ke; try discriminate.
        unfold fixed_width. rewrite Ke.
        rewrite (gelems_ext _ _ (fixedp w)) by (apply member_fixed_ext; assumption).
        pose proof (kind_fixed_pos _ _ Ke).
        rewrite gelems_fixed; [|slia|apply HF].
        rewrite <- N2Z.inj_mul, N2Z.id.
        rewrite hasn_le, len_drop_b.
        destruct (N.ltb_spec e (p + (5 + u * w))); destruct (N.leb_spec (u * w) (e - (p + 5)));
          try slia; reflexivity.
      + rewrite N2Z.id.
        pose proof (list_loop_csim p
           (b_elem (fun q t' => bskip d b e fu q t') b e (Z.of_N (fixed_width et)) et)
           (member true true (rc inl_all d) et)) as L.
        specialize (L ltac:(intros q Hq; apply belem_csim; [exact IH|exact Het|slia|exact Fe])
                      (memc_good d et) (memc_tnil d et)
                      fu F u 5).
        specialize (L ltac:(slia) (fuel_ok (p + 5) ltac:(slia)) (HF 5)).
        unfold csimL in L. unfold csim.
        destruct (b_list_loop _ e p fu u 5) as [i'|c| |]; try contradiction;
          destruct (gelems _ _ u (drop (p + 5) b)) as [[n h]|er| |]; try contradiction; cbn [bind];
          [slia|exact L].
    - cbn [csim]. apply allowed_unknown, K.
  Qed.
End BufC.

(* ---------- the entry points ---------- *)
Lemma skip_type_depth_csim b t d : wf b -> t < 256 ->
  csim (skip_type_depth b t d) (rc inl_all d t b).
Proof.
  intros Hwf Ht. unfold skip_type_depth.
  exact (bskip_csim b Hwf (len b) eq_refl (S (length b)) ltac:(lia) d 0 t Ht ltac:(lia)).
Qed.

Lemma binary_skip_csim b t : wf b -> t < 256 -> csim (binary_skip b t) (rc inl_all 64 t b).
Proof.
  intros Hwf Ht. unfold binary_skip. rewrite depth_ok.
  destruct (N.eqb_spec (len b) 0) as [E|E]; [|apply skip_type_depth_csim; assumption].
  destruct b; [|rewrite len_cons in E; lia].
  destruct (rc_tnil inl_all 64 t) as [m [Em Tm]]. rewrite Em. cbn [csim]. rewrite allowed_short. exact Tm.
Qed.
